/-
  Helper lemmas for C16, part 4: the end of the run (join, exit, files closed by click) on top of the queue protocol.
-/
import SV.Proofs.C16Run
import SV.Spec.C16Exit

namespace SV.Proofs.C16
open SV.Model.C16 SV.Spec.C16

theorem pstep_sys (v : Variant) (cfg : Nat → HCfg) (owner : Nat → Owner) (n : Nat) (p : PSys) (a : PAct) :
    (pstep v cfg owner n p a).sys = p.sys ∨ ∃ b, (pstep v cfg owner n p a).sys = step cfg n p.sys b := by
  cases a with
  | base b =>
    cases b with
    | main => exact Or.inr ⟨.main, rfl⟩
    | work i =>
      simp only [pstep, pWork]
      split
      · exact Or.inl rfl
      · split
        · exact Or.inl rfl
        · exact Or.inr ⟨.work i, rfl⟩
  | join w => simp only [pstep, pJoin]; split <;> exact Or.inl rfl
  | exit mid => simp only [pstep, pExit]; split <;> exact Or.inl rfl

theorem prun_cons (v : Variant) (cfg : Nat → HCfg) (owner : Nat → Owner) (n : Nat) (a : PAct) (rest : List PAct) (p : PSys) :
    prun v cfg owner n (a :: rest) p = prun v cfg owner n rest (pstep v cfg owner n p a) := rfl

theorem prun_append (v : Variant) (cfg : Nat → HCfg) (owner : Nat → Owner) (n : Nat) (a b : List PAct) (p : PSys) :
    prun v cfg owner n (a ++ b) p = prun v cfg owner n b (prun v cfg owner n a p) := by
  simp [prun, List.foldl_append]

/-- the base system of the process only ever moves by base steps: it is a `run` -/
theorem prun_sys (v : Variant) (cfg : Nat → HCfg) (owner : Nat → Owner) (n : Nat) (sched : List PAct) :
    ∀ p : PSys, ∃ bs, (prun v cfg owner n sched p).sys = run cfg n bs p.sys := by
  induction sched with
  | nil => intro p; exact ⟨[], rfl⟩
  | cons a rest ih =>
    intro p
    rw [prun_cons]
    obtain ⟨bs, h⟩ := ih (pstep v cfg owner n p a)
    rcases pstep_sys v cfg owner n p a with h1 | ⟨b, h1⟩
    · exact ⟨bs, by rw [h, h1]⟩
    · exact ⟨b :: bs, by rw [h, h1]; rfl⟩

/-- what holds in every state of the repaired ordering (join without time-out) -/
structure RInv (n : Nat) (p : PSys) : Prop where
  dead : ∀ i, p.dead i = false
  torn : ∀ i, p.torn i = false
  closed : ∀ i, p.closed i = false
  jle : p.joined ≤ n
  jdone : ∀ i, i < p.joined → (p.sys.ws i).done = true
  exj : p.exited = true → p.joined = n

theorem rinv_init (n : Nat) (pc : List (Nat × Msg)) : RInv n (PSys.init pc) :=
  ⟨fun _ => rfl, fun _ => rfl, fun _ => rfl, Nat.zero_le _, fun i hi => absurd hi (Nat.not_lt_zero _),
   fun h => by simp [PSys.init] at h⟩

theorem hitBy_false_of_done (owner : Nat → Owner) (n : Nat) (p : PSys) (h : ∀ i, i < n → (p.sys.ws i).done = true) (i : Nat) :
    hitBy owner n p i = false := by
  by_cases hi : i < n
  · simp [hitBy, h i hi]
  · simp [hitBy, hi]

theorem rinv_step (cfg : Nat → HCfg) (owner : Nat → Owner) (n : Nat) (p : PSys) (a : PAct) (h : RInv n p) :
    RInv n (pstep .repaired cfg owner n p a) := by
  cases a with
  | base b =>
    cases b with
    | main =>
      exact ⟨h.dead, h.torn, h.closed, h.jle, fun i hi => step_done_mono cfg n i .main p.sys (h.jdone i hi), h.exj⟩
    | work j =>
      have : pstep .repaired cfg owner n p (.base (.work j)) = { p with sys := stepWorker cfg n j p.sys } := by
        simp [pstep, pWork, h.dead j, h.closed j]
      rw [this]
      exact ⟨h.dead, h.torn, h.closed, h.jle, fun i hi => step_done_mono cfg n i (.work j) p.sys (h.jdone i hi), h.exj⟩
  | join w =>
    simp only [pstep, pJoin]
    split
    · rename_i hg
      obtain ⟨_, hlt, hex, hd⟩ := hg
      have hdone : (p.sys.ws p.joined).done = true := by
        rcases hd with (hd | hd) | hd
        · exact hd
        · rw [h.dead] at hd; exact absurd hd (by simp)
        · exact absurd hd.1 (by simp)
      refine ⟨h.dead, h.torn, h.closed, hlt, ?_, ?_⟩
      · intro i hi
        by_cases hij : i = p.joined
        · subst hij; exact hdone
        · exact h.jdone i (by simp only at hi; omega)
      · intro he
        simp only at he
        rw [hex] at he
        exact absurd he (by simp)
    · exact h
  | exit mid =>
    simp only [pstep, pExit]
    split
    · rename_i hg
      obtain ⟨_, hj, _⟩ := hg
      have hf := hitBy_false_of_done owner n p (fun i hi => h.jdone i (hj ▸ hi))
      exact ⟨fun i => by simp [h.dead i, hf i], fun i => by simp [h.torn i, hf i], fun i => by simp [h.closed i, hf i],
        h.jle, h.jdone, fun _ => hj⟩
    · exact h

theorem rinv_run (cfg : Nat → HCfg) (owner : Nat → Owner) (n : Nat) (sched : List PAct) :
    ∀ p : PSys, RInv n p → RInv n (prun .repaired cfg owner n sched p) := by
  induction sched with
  | nil => intro p h; exact h
  | cons a rest ih => intro p h; rw [prun_cons]; exact ih _ (rinv_step cfg owner n p a h)

/-- Repaired ordering: once `_execute` has been left, every writer has returned with its report complete. -/
theorem exited_complete (cfg : Nat → HCfg) (owner : Nat → Owner) (n : Nat) (hown : ∀ i, i < n → OwnQueue cfg n i)
    (seed : Option Nat) (evs : List Ev) (crash : Option (Nat × Nat)) (sched : List PAct) :
    let p := prun .repaired cfg owner n sched (PSys.init (mainProgram n seed evs crash))
    p.exited = true → ∀ i, i < n → (p.sys.ws i).done = true ∧ p.dead i = false ∧ p.torn i = false ∧
      (p.sys.ws i).out = expectedFile (cfg i).fmt seed (deliveredTo i evs crash) := by
  intro p hex i hi
  have hinv : RInv n p := rinv_run cfg owner n sched _ (rinv_init n _)
  have hd : (p.sys.ws i).done = true := hinv.jdone i (by rw [hinv.exj hex]; exact hi)
  obtain ⟨bs, hbs⟩ := prun_sys .repaired cfg owner n sched (PSys.init (mainProgram n seed evs crash))
  have hw := writer_after_run cfg n i hi (hown i hi) seed evs crash bs
  refine ⟨hd, hinv.dead i, hinv.torn i, ?_⟩
  have hs : p.sys = run cfg n bs (Sys.init (mainProgram n seed evs crash)) := hbs
  rw [hs] at hd ⊢
  exact hw.2.1 hd

/-! ### the join without time-out cannot block for ever -/

theorem prun_base_clean (v : Variant) (cfg : Nat → HCfg) (owner : Nat → Owner) (n : Nat) (bs : List Act) :
    ∀ p : PSys, (∀ i, p.dead i = false) → (∀ i, p.closed i = false) →
      prun v cfg owner n (bs.map .base) p = { p with sys := run cfg n bs p.sys } := by
  induction bs with
  | nil => intro p _ _; rfl
  | cons b rest ih =>
    intro p hd hc
    rw [List.map_cons, prun_cons]
    have : pstep v cfg owner n p (.base b) = { p with sys := step cfg n p.sys b } := by
      cases b with
      | main => rfl
      | work j => simp [pstep, pWork, hd j, hc j, step]
    rw [this]
    exact ih _ hd hc

/-- `k` joins (each waiting for its thread) when every writer has returned: `shutdown` gets through -/
theorem joins_reach (cfg : Nat → HCfg) (owner : Nat → Owner) (n : Nat) : ∀ (k : Nat) (p : PSys), p.sys.pc = [] →
    (∀ i, i < n → (p.sys.ws i).done = true) → p.joined ≤ n → n - p.joined ≤ k → (p.exited = true → p.joined = n) →
    let q := prun .repaired cfg owner n (List.replicate k (.join true)) p
    q.joined = n ∧ q.sys = p.sys ∧ q.exited = p.exited ∧ q.dead = p.dead ∧ q.torn = p.torn ∧ q.closed = p.closed := by
  intro k
  induction k with
  | zero =>
    intro p _ _ hle hk _
    exact ⟨by simp only [List.replicate_zero, prun, List.foldl_nil]; omega, rfl, rfl, rfl, rfl, rfl⟩
  | succ k ih =>
    intro p hpc hdone hle hk hex
    simp only [List.replicate_succ, prun_cons]
    by_cases hg : p.joined < n ∧ p.exited = false
    · have hstep : pstep .repaired cfg owner n p (.join true) = { p with joined := p.joined + 1 } := by
        simp [pstep, pJoin, hpc, hg.1, hg.2, hdone p.joined hg.1]
      rw [hstep]
      have := ih { p with joined := p.joined + 1 } hpc hdone (by simp only; omega) (by simp only; omega)
        (fun he => by simp only at he; rw [hg.2] at he; exact absurd he (by simp))
      exact this
    · have hjn : p.joined = n := by
        by_cases hlt : p.joined < n
        · have : p.exited = true := by
            cases he : p.exited with
            | true => rfl
            | false => exact absurd ⟨hlt, he⟩ hg
          exact hex this
        · omega
      have hstep : pstep .repaired cfg owner n p (.join true) = p := by
        simp [pstep, pJoin, hjn]
      rw [hstep]
      exact ih p hpc hdone hle (by omega) hex

/-- the schedule that finishes a run from wherever it is: the main thread's remaining puts, every writer drained,
    every join, the exit -/
def finishSched (len n : Nat) : List PAct :=
  (List.replicate len Act.main ++ drainSched len n).map .base ++ (List.replicate n (.join true) ++ [.exit []])

theorem finishes (cfg : Nat → HCfg) (owner : Nat → Owner) (n : Nat) (hown : ∀ i, i < n → OwnQueue cfg n i)
    (seed : Option Nat) (evs : List Ev) (crash : Option (Nat × Nat)) (sched : List PAct) :
    let pc0 := mainProgram n seed evs crash
    (prun .repaired cfg owner n (sched ++ finishSched pc0.length n) (PSys.init pc0)).exited = true := by
  intro pc0
  let p := prun .repaired cfg owner n sched (PSys.init pc0)
  have hinv : RInv n p := rinv_run cfg owner n sched _ (rinv_init n _)
  obtain ⟨bs, hbs⟩ := prun_sys .repaired cfg owner n sched (PSys.init pc0)
  have hs : p.sys = run cfg n bs (Sys.init pc0) := hbs
  have hc := completes cfg n hown seed evs crash bs
  simp only [finishSched, prun_append]
  rw [prun_base_clean .repaired cfg owner n _ _ hinv.dead hinv.closed]
  have hsys : run cfg n (List.replicate pc0.length Act.main ++ drainSched pc0.length n) p.sys =
      run cfg n (bs ++ (List.replicate pc0.length .main ++ drainSched pc0.length n)) (Sys.init pc0) := by
    rw [run_append cfg n bs, ← hs]
  obtain ⟨hpc, hdone⟩ := hc
  rw [← hsys] at hpc hdone
  let q1 : PSys := { p with sys := run cfg n (List.replicate pc0.length Act.main ++ drainSched pc0.length n) p.sys }
  have hj := joins_reach cfg owner n n q1 hpc hdone hinv.jle (by omega) hinv.exj
  obtain ⟨hjn, hsq, hexq, _, _, _⟩ := hj
  show (pstep .repaired cfg owner n (prun .repaired cfg owner n (List.replicate n (.join true)) q1) (.exit [])).exited = true
  simp only [pstep, pExit]
  split
  · rfl
  · rename_i hg
    cases he : (prun .repaired cfg owner n (List.replicate n (.join true)) q1).exited with
    | true => rfl
    | false =>
      refine absurd ⟨?_, hjn, he⟩ hg
      rw [hsq]; exact hpc

/-! ### the code as found: what still holds -/

/-- a report file that click does not own is never closed under its writer -/
structure DirInv (i : Nat) (p : PSys) : Prop where
  dead : p.dead i = false
  torn : p.torn i = false
  closed : p.closed i = false

theorem dirinv_step (v : Variant) (cfg : Nat → HCfg) (owner : Nat → Owner) (n i : Nat) (ho : owner i = .reportDir)
    (p : PSys) (a : PAct) (h : DirInv i p) : DirInv i (pstep v cfg owner n p a) := by
  cases a with
  | base b =>
    cases b with
    | main => exact ⟨h.dead, h.torn, h.closed⟩
    | work j =>
      simp only [pstep, pWork]
      split
      · exact h
      · split
        · rename_i hc
          have hji : j ≠ i := fun e => by subst e; rw [h.closed] at hc; exact absurd hc.1 (by simp)
          refine ⟨?_, h.torn, h.closed⟩
          simp only [upd]
          rw [if_neg (fun e => hji e.symm)]
          exact h.dead
        · exact ⟨h.dead, h.torn, h.closed⟩
  | join w => simp only [pstep, pJoin]; split <;> exact ⟨h.dead, h.torn, h.closed⟩
  | exit mid =>
    simp only [pstep, pExit]
    split
    · have hf : hitBy owner n p i = false := by simp [hitBy, ho]
      exact ⟨by simp [h.dead, hf], by simp [h.torn, hf], by simp [h.closed, hf]⟩
    · exact h

theorem dirinv_run (v : Variant) (cfg : Nat → HCfg) (owner : Nat → Owner) (n i : Nat) (ho : owner i = .reportDir)
    (sched : List PAct) : ∀ p : PSys, DirInv i p → DirInv i (prun v cfg owner n sched p) := by
  induction sched with
  | nil => intro p h; exact h
  | cons a rest ih => intro p h; rw [prun_cons]; exact ih _ (dirinv_step v cfg owner n i ho p a h)

/-- without a join that timed out the two orderings are the same run -/
theorem prun_no_timeout (cfg : Nat → HCfg) (owner : Nat → Owner) (n : Nat) (sched : List PAct) :
    (∀ a ∈ sched, a ≠ .join false) → ∀ p : PSys, prun .asFound cfg owner n sched p = prun .repaired cfg owner n sched p := by
  induction sched with
  | nil => intro _ p; rfl
  | cons a rest ih =>
    intro h p
    rw [prun_cons, prun_cons]
    have hs : pstep .asFound cfg owner n p a = pstep .repaired cfg owner n p a := by
      cases a with
      | base b => cases b <;> rfl
      | exit mid => rfl
      | join w =>
        cases w with
        | true => simp [pstep, pJoin]
        | false => exact absurd rfl (h _ (by simp))
    rw [hs]
    exact ih (fun a ha => h a (by simp [ha])) _

end SV.Proofs.C16
