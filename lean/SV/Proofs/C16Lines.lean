/-
  Helper lemmas for C16, part 2: json.dumps / single-quoted scalars, the line parser, the side conditions of every
  line the repaired writer emits.
-/
import SV.Proofs.C16

namespace SV.Proofs.C16
open SV.Model.C16 SV.Spec.C16

theorem hexVal_hexDigitLower (d : Nat) (h : d < 16) : hexVal (hexDigitLower d) = some d := by
  unfold hexVal hexDigitLower
  split
  · rw [if_pos (by omega)]; simp
  · rw [if_neg (by omega), if_neg (by omega), if_pos (by omega)]; simp

theorem readHex_uEsc (c : Nat) (rest : Str) (h : c < 65536) :
    readHex 4 ((uEsc c).drop 2 ++ rest) 0 = some (c, rest) := by
  simp only [uEsc, List.drop, List.cons_append, List.nil_append, readHex,
    hexVal_hexDigitLower _ (Nat.mod_lt _ (by decide : 16 > 0))]
  congr 2; omega

theorem decodeF_uEsc (c f : Nat) (t acc : Str) (h : c < 65536) :
    decodeF (f + 1) (uEsc c ++ t) acc = decodeF f t (c :: acc) := by
  have h2 := readHex_uEsc c t h
  simp only [uEsc, List.drop, List.cons_append, List.nil_append] at h2
  have hc : c < 0x110000 := by omega
  simp [uEsc, decodeF, h2, afterHex, hc]

theorem decodeF_jsonChar (c f : Nat) (t acc : Str) (h : c < 0x10000) :
    decodeF (f + 1) (jsonChar c ++ t) acc = decodeF f t (c :: acc) := by
  unfold jsonChar
  split
  · subst_vars; simp [decodeF, unescape1]
  split
  · subst_vars; simp [decodeF, unescape1]
  split
  · subst_vars; simp [decodeF, unescape1]
  split
  · subst_vars; simp [decodeF, unescape1]
  split
  · subst_vars; simp [decodeF, unescape1]
  split
  · subst_vars; simp [decodeF, unescape1]
  split
  · subst_vars; simp [decodeF, unescape1]
  split
  · rename_i h1 h2 h3 h4 h5 h6 h7 h8
    have hi : inlineCh c = true := by
      simp only [inlineCh, printable, isBreak, Bool.and_eq_true, Bool.or_eq_true, beq_iff_eq, decide_eq_true_eq,
        Bool.not_eq_true', Bool.or_eq_false_iff, beq_eq_false_iff_ne]
      omega
    simp [decodeF, h1, h2, hi]
  · exact decodeF_uEsc c f t acc h

theorem jsonChar_len (c : Nat) : 1 ≤ (jsonChar c).length := by
  unfold jsonChar uEsc
  repeat' split
  all_goals simp

theorem jsonBody_len (s : Str) : s.length ≤ (jsonBody s).length := by
  induction s with
  | nil => simp [jsonBody]
  | cons c s ih => simp only [jsonBody, List.length_cons, List.length_append]; have := jsonChar_len c; omega

theorem decodeF_jsonBody (s : Str) : ∀ (f : Nat) (acc rest : Str), (∀ c ∈ s, c < 0x10000) → s.length < f →
    decodeF f (jsonBody s ++ 34 :: rest) acc = some (acc.reverse ++ s, rest) := by
  induction s with
  | nil =>
    intro f acc rest _ hf
    cases f with
    | zero => omega
    | succ f => simp [jsonBody, decodeF]
  | cons c s ih =>
    intro f acc rest hs hf
    cases f with
    | zero => omega
    | succ f =>
      have hc : c < 0x10000 := hs c (by simp)
      have hs' : ∀ x ∈ s, x < 0x10000 := fun x hx => hs x (by simp [hx])
      have hf' : s.length < f := by simp at hf; omega
      simp only [jsonBody, List.append_assoc]
      rw [decodeF_jsonChar c f _ acc hc, ih f (c :: acc) rest hs' hf']
      simp

theorem json_roundtrip' (s rest : Str) (hs : ∀ c ∈ s, c < 0x10000) :
    decodeDQ (jsonDumps s ++ rest) = some (s, rest) := by
  unfold decodeDQ jsonDumps
  simp only [List.cons_append, List.append_assoc, List.nil_append]
  have := decodeF_jsonBody s ((jsonBody s ++ 34 :: rest).length + 1) [] rest hs
    (by have := jsonBody_len s; simp only [List.length_append, List.length_cons]; omega)
  simpa using this

theorem uEsc_ascii (c : Nat) : ∀ x ∈ uEsc c, 0x20 ≤ x ∧ x ≤ 0x7E := by
  have hd : ∀ n, 0x20 ≤ hexDigitLower (n % 16) ∧ hexDigitLower (n % 16) ≤ 0x7E := by
    intro n; have := Nat.mod_lt n (by decide : 16 > 0); unfold hexDigitLower; split <;> omega
  intro x hx
  simp only [uEsc, List.mem_cons, List.not_mem_nil, or_false] at hx
  rcases hx with rfl | rfl | rfl | rfl | rfl | rfl <;> first | omega | exact hd _

/-- json.dumps output is printable ASCII -/
theorem jsonChar_ascii (c : Nat) : ∀ x ∈ jsonChar c, 0x20 ≤ x ∧ x ≤ 0x7E := by
  intro x hx
  unfold jsonChar at hx
  split at hx
  · simp at hx; omega
  split at hx
  · simp at hx; omega
  split at hx
  · simp at hx; omega
  split at hx
  · simp at hx; omega
  split at hx
  · simp at hx; omega
  split at hx
  · simp at hx; omega
  split at hx
  · simp at hx; omega
  split at hx
  · simp at hx; omega
  split at hx
  · exact uEsc_ascii _ x hx
  · simp only [List.mem_append] at hx
    rcases hx with hx | hx <;> exact uEsc_ascii _ x hx

theorem jsonDumps_ascii (s : Str) : ∀ x ∈ jsonDumps s, 0x20 ≤ x ∧ x ≤ 0x7E := by
  have hb : ∀ x ∈ jsonBody s, 0x20 ≤ x ∧ x ≤ 0x7E := by
    induction s with
    | nil => simp [jsonBody]
    | cons c s ih =>
      intro x hx
      simp only [jsonBody, List.mem_append] at hx
      rcases hx with hx | hx
      · exact jsonChar_ascii c x hx
      · exact ih x hx
  intro x hx
  simp only [jsonDumps, List.mem_cons, List.mem_append, List.not_mem_nil, or_false] at hx
  rcases hx with rfl | hx | rfl
  · omega
  · exact hb x hx
  · omega
theorem takeSpaces_spaces (n : Nat) (r : Str) (k : Nat) (h : ∀ c t, r = c :: t → c ≠ 32) :
    takeSpaces (spaces n ++ r) k = (k + n, r) := by
  induction n generalizing k with
  | zero =>
    simp only [spaces, List.replicate, List.nil_append, Nat.add_zero]
    cases r with
    | nil => rfl
    | cons c t => simp [takeSpaces, h c t rfl]
  | succ n ih =>
    simp only [spaces, List.replicate, List.cons_append, takeSpaces, if_true]
    have := ih (k + 1)
    simp only [spaces] at this
    rw [this]; congr 1; omega

theorem takeKey_key (k : Str) : ∀ (acc : Str) (d : Nat) (rest : Str), (∀ c ∈ k, keyChar c = true) → keyChar d = false →
    takeKey (k ++ d :: rest) acc = (acc.reverse ++ k, d :: rest) := by
  induction k with
  | nil => intro acc d rest _ hd; simp [takeKey, hd]
  | cons c k ih =>
    intro acc d rest hk hd
    have hc : keyChar c = true := hk c (by simp)
    simp only [List.cons_append, takeKey, hc, if_true]
    rw [ih (c :: acc) d rest (fun x hx => hk x (by simp [hx])) hd]
    simp

theorem sqF_plain (s : Str) : ∀ (acc : Str), (∀ c ∈ s, inlineCh c = true ∧ c ≠ 39) →
    sqF false (s ++ [39]) acc = some (acc.reverse ++ s, []) := by
  induction s with
  | nil => intro acc _; simp [sqF]
  | cons c s ih =>
    intro acc h
    obtain ⟨h1, h2⟩ := h c (by simp)
    simp only [List.cons_append, sqF, h2, if_false, h1, if_true]
    rw [ih (c :: acc) (fun x hx => h x (by simp [hx]))]
    simp

theorem dq_roundtrip0 (s rest : Str) (hs : cpOK s = true) : decodeDQ (writeDQ s ++ rest) = some (s, rest) := by
  unfold decodeDQ writeDQ
  simp only [List.cons_append, List.append_assoc, List.nil_append]
  have hs' : ∀ c ∈ s, c < 0x110000 := by simpa [cpOK] using hs
  have := decodeF_dqBody s ((dqBody s ++ 34 :: rest).length + 1) [] rest hs'
    (by have := dqBody_len s; simp only [List.length_append, List.length_cons]; omega)
  simpa using this

theorem json_roundtrip0 (s rest : Str) (hs : bmp s = true) : decodeDQ (jsonDumps s ++ rest) = some (s, rest) :=
  json_roundtrip' s rest (by simpa [bmp] using hs)

theorem writeDQ_head (s : Str) : ∃ t, writeDQ s = 34 :: t := ⟨_, rfl⟩
theorem jsonDumps_head (s : Str) : ∃ t, jsonDumps s = 34 :: t := ⟨_, rfl⟩

/-- value part: a double-quoted scalar to the end of the line -/
theorem parseValue_dqText (w s : Str) (hw : ∃ t, w = 34 :: t) (hd : decodeDQ w = some (s, [])) :
    parseValue (32 :: w) = some (some (.str s)) := by
  obtain ⟨t, rfl⟩ := hw
  simp [parseValue, hd]

theorem plainOK_head (s : Str) (h : plainOK s = true) : ∃ c t, s = c :: t ∧ indicator c = false := by
  cases s with
  | nil => simp [plainOK] at h
  | cons c t => exact ⟨c, t, rfl, by simp only [plainOK, Bool.and_eq_true, Bool.not_eq_true'] at h; exact h.1⟩

theorem parseValue_plain (s : Str) (h : (plainOK s || s == [123, 125] || s == [91, 93]) = true) :
    parseValue (32 :: s) = some (some (plainVal s)) := by
  simp only [Bool.or_eq_true, beq_iff_eq] at h
  rcases h with (h | h) | h
  · obtain ⟨c, t, rfl, hc⟩ := plainOK_head s h
    have h39 : c ≠ 39 := by intro e; subst e; simp [indicator] at hc
    have h34 : c ≠ 34 := by intro e; subst e; simp [indicator] at hc
    have h123 : c ≠ 123 := by intro e; subst e; simp [indicator] at hc
    have h91 : c ≠ 91 := by intro e; subst e; simp [indicator] at hc
    simp [parseValue, h39, h34, h123, h91, h, plainVal]
  · subst h; decide
  · subst h; decide

theorem parseValue_vtext (v : VText) (h : vtextOK v = true) :
    parseValue (v.text .repaired) = (vtextTok v) := by
  cases v with
  | none => rfl
  | trailing => rfl
  | plain s => simp only [VText.text, vtextTok]; exact parseValue_plain s h
  | sq s =>
    simp only [VText.text, vtextTok, quoteS]
    exact parseValue_dqText _ s (writeDQ_head s) (by simpa using dq_roundtrip0 s [] h)
  | sqJunk s j => simp [vtextOK] at h
  | dq o =>
    cases o with
    | none => simp only [VText.text, vtextTok, writeDQOpt]; decide
    | some s =>
      simp only [VText.text, vtextTok, writeDQOpt]
      exact parseValue_dqText _ s (writeDQ_head s) (by simpa using dq_roundtrip0 s [] h)
  | json s =>
    simp only [VText.text, vtextTok]
    exact parseValue_dqText _ s (jsonDumps_head s) (by simpa using json_roundtrip0 s [] h)
  | msg t =>
    cases t with
    | none => simp only [VText.text, vtextTok, checkMessage]; decide
    | some s =>
      simp only [VText.text, vtextTok, checkMessage]
      exact parseValue_dqText _ s (writeDQ_head s) (by simpa using dq_roundtrip0 s [] h)

theorem keyChar_facts (c : Nat) (h : keyChar c = true) : c ≠ 32 ∧ c ≠ 45 ∧ c ≠ 34 ∧ c ≠ 58 := by
  simp only [keyChar, Bool.or_eq_true, Bool.and_eq_true, decide_eq_true_eq, beq_iff_eq] at h
  omega

theorem isDash_of_ne (c : Nat) (t : Str) (h : c ≠ 45) : isDash (c :: t) = false := by
  cases t <;> simp [isDash, h]

theorem parseAfterDash_key (n : Nat) (dash : Bool) (k val : Str) (hk : keyOK k = true) :
    parseAfterDash n dash (k ++ 58 :: val) = (parseValue val).map fun v => ⟨n, dash, some k, v⟩ := by
  simp only [keyOK, Bool.and_eq_true, Bool.not_eq_true', List.isEmpty_eq_false_iff, List.all_eq_true] at hk
  obtain ⟨hne, hall⟩ := hk
  cases k with
  | nil => exact absurd rfl hne
  | cons c ks =>
    have hc := keyChar_facts c (hall c (by simp))
    have htk := takeKey_key (c :: ks) [] 58 val hall (by decide)
    simp only [List.reverse_nil, List.nil_append] at htk
    simp only [List.cons_append] at htk ⊢
    simp only [parseAfterDash, hc.2.2.1, if_false, htk, if_true]

theorem parseLine_eq (l r : Str) (n : Nat) (h : takeSpaces l 0 = (n, r)) :
    parseLine l = if isDash r then parseAfterDash n true (r.drop 2) else parseAfterDash n false r := by
  unfold parseLine
  simp only [h]

theorem parseLine_ok (l : Line) (h : lineOK l = true) : parseLine (l.text .repaired) = lineTok l := by
  cases l with
  | kv n dash k v =>
    simp only [lineOK, Bool.and_eq_true] at h
    obtain ⟨hk, hv⟩ := h
    have hk' := hk
    simp only [keyOK, Bool.and_eq_true, Bool.not_eq_true', List.isEmpty_eq_false_iff, List.all_eq_true] at hk'
    obtain ⟨hne, hall⟩ := hk'
    obtain ⟨c, ks, rfl⟩ : ∃ c ks, k = c :: ks := by
      cases k with
      | nil => exact absurd rfl hne
      | cons c ks => exact ⟨c, ks, rfl⟩
    have hc := keyChar_facts c (hall c (by simp))
    cases dash with
    | true =>
      have ht : Line.text .repaired (.kv n true (c :: ks) v) = spaces n ++ (45 :: 32 :: (c :: ks ++ 58 :: v.text .repaired)) := by
        simp [Line.text]
      rw [ht, parseLine_eq _ _ n (by simpa using takeSpaces_spaces n _ 0 (by intro c' t e; simp at e; omega))]
      simp only [isDash, beq_self_eq_true, Bool.and_self, if_true, List.drop]
      have := parseAfterDash_key n true (c :: ks) (v.text .repaired) hk
      simp only [List.cons_append] at this
      rw [this, parseValue_vtext v hv]; rfl
    | false =>
      have ht : Line.text .repaired (.kv n false (c :: ks) v) = spaces n ++ (c :: (ks ++ 58 :: v.text .repaired)) := by
        simp [Line.text]
      rw [ht, parseLine_eq _ _ n (by simpa using takeSpaces_spaces n _ 0 (by intro c' t e; simp at e; omega))]
      simp only [isDash_of_ne c _ hc.2.1, Bool.false_eq_true, if_false]
      have := parseAfterDash_key n false (c :: ks) (v.text .repaired) hk
      simp only [List.cons_append] at this
      rw [this, parseValue_vtext v hv]; rfl
  | qkey n name =>
    simp only [lineOK] at h
    obtain ⟨t, ht⟩ := writeDQ_head name
    have hd := dq_roundtrip0 name [58] h
    have hx : Line.text .repaired (.qkey n name) = spaces n ++ (34 :: (t ++ [58])) := by
      simp [Line.text, quoteK, ht]
    rw [hx, parseLine_eq _ _ n (by simpa using takeSpaces_spaces n _ 0 (by intro c' t' e; simp at e; omega))]
    rw [ht] at hd
    simp only [List.cons_append] at hd
    simp [isDash_of_ne 34 _ (by decide), parseAfterDash, hd, parseValue, lineTok]
  | item n x =>
    simp only [lineOK] at h
    obtain ⟨t, ht⟩ := jsonDumps_head x
    have hd := json_roundtrip0 x [] h
    have hx : Line.text .repaired (.item n x) = spaces n ++ (45 :: 32 :: 34 :: t) := by
      simp [Line.text, ht]
    rw [hx, parseLine_eq _ _ n (by simpa using takeSpaces_spaces n _ 0 (by intro c' t' e; simp at e; omega))]
    rw [ht] at hd
    simp only [List.append_nil] at hd
    simp [isDash, parseAfterDash, hd, lineTok]
  | blank => decide
/-! no line feed inside a well-formed line -/

theorem inline_ne_lf (x : Nat) (h : inlineCh x = true) : x ≠ 10 := by
  intro e; subst e; simp [inlineCh, isBreak] at h

theorem plainTail_inline (s : Str) (h : plainTail s = true) : ∀ x ∈ s, inlineCh x = true := by
  induction s with
  | nil => simp
  | cons c t ih =>
    cases t with
    | nil =>
      intro x hx
      simp only [List.mem_cons, List.not_mem_nil, or_false] at hx
      subst hx
      simp only [plainTail, Bool.and_eq_true] at h
      exact h.1.1.1
    | cons d t =>
      simp only [plainTail, Bool.and_eq_true] at h
      intro x hx
      simp only [List.mem_cons] at hx
      rcases hx with rfl | hx
      · exact h.1.1.1.1
      · exact ih h.2 x (by simpa using hx)

theorem spaces_noLF (n : Nat) : ∀ x ∈ spaces n, x ≠ 10 := by
  intro x hx
  simp only [spaces, List.mem_replicate] at hx
  omega

theorem writeDQ_noLF (s : Str) : ∀ x ∈ writeDQ s, x ≠ 10 := by
  intro x hx
  simp only [writeDQ, List.mem_cons, List.mem_append, List.not_mem_nil, or_false] at hx
  rcases hx with rfl | hx | rfl
  · decide
  · exact inline_ne_lf x (dqBody_inline s x hx)
  · decide

theorem vtext_noLF (v : VText) (h : vtextOK v = true) : ∀ x ∈ v.text .repaired, x ≠ 10 := by
  intro x hx
  cases v with
  | none => simp [VText.text] at hx
  | trailing => simp [VText.text] at hx; omega
  | plain s =>
    simp only [VText.text, List.mem_cons] at hx
    rcases hx with rfl | hx
    · decide
    · simp only [vtextOK, Bool.or_eq_true, beq_iff_eq] at h
      rcases h with (h | h) | h
      · cases s with
        | nil => simp at hx
        | cons c t =>
          simp only [plainOK, Bool.and_eq_true] at h
          exact inline_ne_lf x (plainTail_inline _ h.2 x hx)
      · subst h; simp at hx; omega
      · subst h; simp at hx; omega
  | sq s =>
    simp only [VText.text, quoteS, List.mem_cons] at hx
    rcases hx with rfl | hx
    · decide
    · exact writeDQ_noLF s x hx
  | sqJunk s j => simp [vtextOK] at h
  | dq o =>
    simp only [VText.text, List.mem_cons] at hx
    rcases hx with rfl | hx
    · decide
    · cases o with
      | none =>
        have : ∀ y ∈ lit "null", y ≠ 10 := by decide
        exact this x hx
      | some s => exact writeDQ_noLF s x hx
  | json s =>
    simp only [VText.text, List.mem_cons] at hx
    rcases hx with rfl | hx
    · decide
    · have := jsonDumps_ascii s x hx; omega
  | msg t =>
    simp only [VText.text, List.mem_cons] at hx
    rcases hx with rfl | hx
    · decide
    · cases t with
      | none => simp [checkMessage] at hx; omega
      | some s => exact writeDQ_noLF s x hx

theorem line_noLF (l : Line) (h : lineOK l = true) : ∀ x ∈ l.text .repaired, x ≠ 10 := by
  intro x hx
  cases l with
  | kv n dash k v =>
    simp only [lineOK, Bool.and_eq_true] at h
    simp only [Line.text, List.mem_append, List.mem_cons] at hx
    rcases hx with hx | hx | hx | rfl | hx
    · exact spaces_noLF n x hx
    · cases dash <;> simp at hx <;> omega
    · have hk := h.1
      simp only [keyOK, Bool.and_eq_true, List.all_eq_true] at hk
      have := (keyChar_facts x (hk.2 x hx)).1
      have h2 := hk.2 x hx
      simp only [keyChar, Bool.or_eq_true, Bool.and_eq_true, decide_eq_true_eq, beq_iff_eq] at h2
      omega
    · decide
    · exact vtext_noLF v h.2 x hx
  | qkey n name =>
    simp only [Line.text, quoteK, List.mem_append, List.mem_cons, List.not_mem_nil, or_false] at hx
    rcases hx with hx | hx | rfl
    · exact spaces_noLF n x hx
    · exact writeDQ_noLF name x hx
    · decide
  | item n y =>
    simp only [Line.text, List.mem_append, List.mem_cons] at hx
    rcases hx with hx | rfl | rfl | hx
    · exact spaces_noLF n x hx
    · decide
    · decide
    · have := jsonDumps_ascii y x hx; omega
  | blank => simp [Line.text] at hx

/-! splitting the text back into its lines -/

theorem splitLines_noLF (l cur : Str) (h : ∀ x ∈ l, x ≠ 10) : splitLines l cur = [cur.reverse ++ l] := by
  induction l generalizing cur with
  | nil => simp [splitLines]
  | cons c t ih =>
    have hc : c ≠ 10 := h c (by simp)
    simp only [splitLines, hc, if_false]
    rw [ih (c :: cur) (fun x hx => h x (by simp [hx]))]
    simp

theorem splitLines_line (l rest cur : Str) (h : ∀ x ∈ l, x ≠ 10) :
    splitLines (l ++ 10 :: rest) cur = (cur.reverse ++ l) :: splitLines rest [] := by
  induction l generalizing cur with
  | nil => simp [splitLines]
  | cons c t ih =>
    have hc : c ≠ 10 := h c (by simp)
    simp only [List.cons_append, splitLines, hc, if_false]
    rw [ih (c :: cur) (fun x hx => h x (by simp [hx]))]
    simp

theorem splitLines_join (l : Str) (ls : List Str) (h : ∀ m ∈ l :: ls, ∀ x ∈ m, x ≠ 10) :
    splitLines (l ++ joinLines ls) [] = l :: ls := by
  induction ls generalizing l with
  | nil => simpa [joinLines] using splitLines_noLF l [] (h l (by simp))
  | cons m ms ih =>
    simp only [joinLines]
    rw [splitLines_line l _ [] (h l (by simp))]
    simp only [List.reverse_nil, List.nil_append, List.cons.injEq, true_and]
    exact ih m (fun k hk => h k (by simp only [List.mem_cons] at hk ⊢; right; exact hk))

theorem mapM_some {α β : Type} (f : α → Option β) (g : α → β) (ls : List α) (h : ∀ l ∈ ls, f l = some (g l)) :
    ls.mapM f = some (ls.map g) := by
  induction ls with
  | nil => rfl
  | cons a as ih =>
    simp only [List.mapM_cons, h a (by simp), ih (fun l hl => h l (by simp [hl]))]
    rfl

/-! ### every line of a well-formed interaction satisfies the side conditions -/
theorem optOK_some (s : Str) : optOK (some s) = cpOK s := rfl

theorem headerLines_ok (hs : List (Str × List Str)) (h : headersOK hs = true) : (headerLines hs).all lineOK = true := by
  simp only [headerLines, List.all_flatMap]
  simp only [headersOK] at h
  simp only [List.all_eq_true] at h ⊢
  intro p hp l hl
  have := h p hp
  obtain ⟨name, values⟩ := p
  simp only [Bool.and_eq_true, List.all_eq_true] at this
  simp only [List.mem_cons, List.mem_map] at hl
  rcases hl with rfl | ⟨x, hx, rfl⟩
  · exact this.1
  · exact this.2 x hx

theorem checkLines_ok (cs : List CheckRec) (h : checksOK cs = true) : (checkLines cs).all lineOK = true := by
  simp only [checkLines, List.all_flatMap]
  simp only [checksOK] at h
  simp only [List.all_eq_true] at h ⊢
  intro c hc l hl
  have := h c hc
  simp only [Bool.and_eq_true] at this
  simp only [List.mem_cons, List.not_mem_nil, or_false] at hl
  rcases hl with rfl | rfl | rfl
  · simp only [lineOK, vtextOK, this.1, Bool.and_true]; decide
  · simp only [lineOK, vtextOK]; split <;> decide
  · simp only [lineOK, vtextOK, this.2, Bool.and_true]; decide

theorem metaLines_ok (m : Meta) (h : metaOK m = true) : (metaLines m).all lineOK = true := by
  simp only [metaOK, Bool.and_eq_true] at h
  obtain ⟨⟨⟨⟨h1, h2⟩, h3⟩, h4⟩, h5⟩ := h
  simp only [metaLines, List.all_append, Bool.and_eq_true]
  refine ⟨⟨⟨?_, ?_⟩, ?_⟩, ?_⟩
  · simp only [List.all_cons, List.all_nil, lineOK, vtextOK, h1, h2, Bool.true_or, Bool.and_true]; decide
  · simp only [List.all_flatMap, List.all_eq_true] at h3 ⊢
    intro p hp l hl
    have := h3 p hp
    obtain ⟨k, mode⟩ := p
    simp only [Bool.and_eq_true] at this
    simp only [List.mem_cons, List.not_mem_nil, or_false] at hl
    rcases hl with rfl | rfl
    · simp only [lineOK, vtextOK, this.1, Bool.and_true]
    · simp only [lineOK, vtextOK, this.2, Bool.and_true]; decide
  · simp only [List.all_cons, List.all_nil, lineOK, vtextOK, h4, Bool.and_true]; decide
  · cases hd : m.data with
    | other => decide
    | coverage d l p pl =>
      simp only [hd, Bool.and_eq_true] at h5
      obtain ⟨⟨⟨a, b⟩, c⟩, e⟩ := h5
      simp only [List.all_cons, List.all_nil, lineOK, vtextOK, optOK_some, a, b, c, e, Bool.and_true]; decide

theorem b64Char_lt (i : Nat) : b64Char i < 0x110000 := by
  unfold b64Char; split <;> (try split) <;> (try split) <;> (try split) <;> omega

theorem b64encode_cpOK (bs : List Nat) : cpOK (b64encode bs) = true := by
  induction bs using b64encode.induct with
  | case1 => rfl
  | case2 a => simp [b64encode, cpOK, b64Char_lt]
  | case3 a b => simp [b64encode, cpOK, b64Char_lt]
  | case4 a b c rest ih =>
    simp only [cpOK, List.all_eq_true, decide_eq_true_eq] at ih ⊢
    intro x hx
    simp only [b64encode, List.mem_cons] at hx
    rcases hx with rfl | rfl | rfl | rfl | hx
    · exact b64Char_lt _
    · exact b64Char_lt _
    · exact b64Char_lt _
    · exact b64Char_lt _
    · exact ih x hx

theorem orBlank_ok (ls : List Line) (h : ls.all lineOK = true) : (orBlank ls).all lineOK = true := by
  unfold orBlank; split
  · decide
  · exact h

theorem reqBodyLines_ok (p : Bool) (e : Entry) (h : cpOK e.bodyDecoded = true) : (reqBodyLines p e).all lineOK = true := by
  unfold reqBodyLines
  cases e.body with
  | none => rfl
  | some b =>
    cases p with
    | true => simp only [if_true, List.all_cons, List.all_nil, lineOK, vtextOK, b64encode_cpOK, Bool.and_true]; decide
    | false => simp only [Bool.false_eq_true, if_false, List.all_cons, List.all_nil, lineOK, vtextOK, optOK_some, h, Bool.and_true]; decide

theorem respBodyLines_ok (p : Bool) (r : Resp) (h1 : cpOK r.decoded = true) (h2 : optOK r.encoding = true) :
    (respBodyLines p r).all lineOK = true := by
  have henc : ∀ d, cpOK d = true → cpOK (r.encoding.getD d) = true := by
    intro d hd
    cases he : r.encoding with
    | none => simpa using hd
    | some s => simpa [he, optOK] using h2
  unfold respBodyLines
  cases p with
  | true =>
    simp only [if_true]
    split
    · rfl
    · simp only [List.all_cons, List.all_nil, lineOK, vtextOK, b64encode_cpOK, henc _ (by decide : cpOK (lit "None") = true), Bool.and_true]
      decide
  | false =>
    have h3 : cpOK (if r.codecKnown = true then r.encoding.getD (lit "utf8") else lit "utf8") = true := by
      split
      · exact henc _ (by decide)
      · decide
    simp only [Bool.false_eq_true, if_false, List.all_cons, List.all_nil, lineOK, vtextOK, optOK_some, h1, h3, Bool.and_true]
    decide

theorem responseLines_ok (p : Bool) (r : Option Resp) (h : (match r with | none => true | some r => respOK r) = true) :
    (responseLines p r).all lineOK = true := by
  cases r with
  | none => cases p <;> decide
  | some r =>
    simp only [respOK, Bool.and_eq_true] at h
    obtain ⟨⟨⟨⟨⟨⟨h1, h2⟩, h3⟩, h4⟩, h5⟩, h6⟩, h7⟩ := h
    simp only [responseLines, List.all_append, Bool.and_eq_true]
    refine ⟨⟨⟨?_, ?_⟩, ?_⟩, ?_⟩
    · simp only [List.all_cons, List.all_nil, lineOK, vtextOK, h1, h2, h3, Bool.and_true]; decide
    · exact orBlank_ok _ (headerLines_ok _ h4)
    · exact orBlank_ok _ (respBodyLines_ok p r h5 h6)
    · simp only [List.all_cons, List.all_nil, lineOK, vtextOK, h7, Bool.and_true]; decide

theorem statusOf_cpOK (e : Entry) : cpOK (statusOf e) = true := by
  unfold statusOf
  split
  · decide
  · split
    · decide
    · split <;> decide

theorem entryLinesS_ok (p : Bool) (e : Entry) (h : entryOK e = true) : (entryLinesS .repaired p e).all lineOK = true := by
  simp only [entryOK, Bool.and_eq_true] at h
  obtain ⟨⟨⟨⟨⟨⟨⟨⟨h1, h2⟩, h3⟩, h4⟩, h5⟩, h6⟩, h7⟩, h8⟩, h9⟩ := h
  simp only [entryLinesS, List.all_append, Bool.and_eq_true]
  refine ⟨⟨⟨⟨⟨⟨⟨?_, ?_⟩, ?_⟩, ?_⟩, ?_⟩, ?_⟩, ?_⟩, ?_⟩
  · simp only [List.all_cons, List.all_nil, lineOK, vtextOK, h1, Bool.and_true]; decide
  · cases hm : e.cmeta with
    | none => simp only [List.all_cons, List.all_nil, lineOK, vtextOK, statusOf_cpOK, Bool.and_true]; decide
    | some m =>
      simp only [hm] at h2
      simp only [List.all_cons, lineOK, vtextOK, statusOf_cpOK, Bool.and_true, metaLines_ok m h2]; decide
  · simp only [List.all_cons, List.all_nil, lineOK, vtextOK, h3, Bool.and_true]; decide
  · cases hc : e.checks with
    | none => decide
    | some cs =>
      cases cs with
      | nil => decide
      | cons c cs =>
        simp only [hc] at h4
        have := checkLines_ok (c :: cs) h4
        simp only [List.all_cons, lineOK, vtextOK, Bool.and_true, this]; decide
  · simp only [List.all_cons, List.all_nil, lineOK, vtextOK, h5, h6, Bool.and_true]; decide
  · exact orBlank_ok _ (headerLines_ok _ h7)
  · exact reqBodyLines_ok p e h8
  · exact responseLines_ok p e.response h9

theorem lineTok_some (l : Line) (h : lineOK l = true) : ∃ t, lineTok l = some t := by
  cases l with
  | kv n d k v =>
    simp only [lineOK, Bool.and_eq_true] at h
    cases v with
    | sqJunk s j => simp [vtextOK] at h
    | dq o => cases o <;> exact ⟨_, rfl⟩
    | msg o => cases o <;> exact ⟨_, rfl⟩
    | none => exact ⟨_, rfl⟩
    | trailing => exact ⟨_, rfl⟩
    | plain s => exact ⟨_, rfl⟩
    | sq s => exact ⟨_, rfl⟩
    | json s => exact ⟨_, rfl⟩
  | qkey n name => exact ⟨_, rfl⟩
  | item n x => exact ⟨_, rfl⟩
  | blank => exact ⟨_, rfl⟩

theorem mapM_map_congr {α β γ : Type} (f : β → Option γ) (t : α → β) (g : α → Option γ) (ls : List α)
    (h : ∀ l ∈ ls, f (t l) = g l) : (ls.map t).mapM f = ls.mapM g := by
  induction ls with
  | nil => rfl
  | cons a as ih =>
    simp only [List.map_cons, List.mapM_cons, h a (by simp), ih (fun l hl => h l (by simp [hl]))]

/-! ### exactly one top-level item per interaction -/

theorem headerLines_top (hs : List (Str × List Str)) : (headerLines hs).filter topItem = [] := by
  simp only [List.filter_eq_nil_iff, headerLines, List.mem_flatMap]
  rintro l ⟨⟨name, values⟩, _, hl⟩
  simp only [List.mem_cons, List.mem_map] at hl
  rcases hl with rfl | ⟨x, _, rfl⟩ <;> simp [topItem]

theorem checkLines_top (cs : List CheckRec) : (checkLines cs).filter topItem = [] := by
  simp only [List.filter_eq_nil_iff, checkLines, List.mem_flatMap]
  rintro l ⟨c, _, hl⟩
  simp only [List.mem_cons, List.not_mem_nil, or_false] at hl
  rcases hl with rfl | rfl | rfl <;> simp [topItem]

theorem metaLines_top (m : Meta) : (metaLines m).filter topItem = [] := by
  simp only [List.filter_eq_nil_iff, metaLines, List.mem_append, List.mem_flatMap, List.mem_cons, List.not_mem_nil, or_false]
  rintro l (((hl | ⟨⟨k, mode⟩, _, hl⟩) | hl) | hl)
  · rcases hl with rfl | rfl | rfl | rfl <;> simp [topItem]
  · simp only [List.mem_cons, List.not_mem_nil, or_false] at hl
    rcases hl with rfl | rfl <;> simp [topItem]
  · rcases hl with rfl | rfl <;> simp [topItem]
  · cases hd : m.data with
    | other => simp only [hd, List.mem_cons, List.not_mem_nil, or_false] at hl; subst hl; simp [topItem]
    | coverage d a b c =>
      simp only [hd, List.mem_cons, List.not_mem_nil, or_false] at hl
      rcases hl with rfl | rfl | rfl | rfl | rfl <;> simp [topItem]

theorem orBlank_top (ls : List Line) (h : ls.filter topItem = []) : (orBlank ls).filter topItem = [] := by
  unfold orBlank; split
  · rfl
  · exact h

theorem reqBodyLines_top (p : Bool) (e : Entry) : (reqBodyLines p e).filter topItem = [] := by
  unfold reqBodyLines
  cases e.body with
  | none => rfl
  | some b => cases p <;> rfl

theorem respBodyLines_top (p : Bool) (r : Resp) : (respBodyLines p r).filter topItem = [] := by
  unfold respBodyLines
  cases p with
  | true => simp only [if_true]; split <;> rfl
  | false => rfl

theorem responseLines_top (p : Bool) (r : Option Resp) : (responseLines p r).filter topItem = [] := by
  cases r with
  | none => rfl
  | some r =>
    simp only [responseLines, List.filter_append, orBlank_top _ (headerLines_top _), orBlank_top _ (respBodyLines_top p r),
      List.append_nil]
    rfl

theorem entry_topItems (v : Variant) (p : Bool) (e : Entry) :
    (entryLinesS v p e).filter topItem = [Line.kv 0 true (lit "id") (.sq e.id)] := by
  unfold entryLinesS
  simp only [List.filter_append, orBlank_top _ (headerLines_top _), reqBodyLines_top, responseLines_top,
    List.append_nil]
  cases e.cmeta with
  | none =>
    cases e.checks with
    | none => cases v <;> rfl
    | some cs =>
      cases cs with
      | nil => cases v <;> rfl
      | cons c cs => cases v <;> simp [List.filter_cons, topItem, checkLines_top]
  | some m =>
    cases e.checks with
    | none => simp [List.filter_cons, topItem, metaLines_top]
    | some cs =>
      cases cs with
      | nil => simp [List.filter_cons, topItem, metaLines_top]
      | cons c cs => simp [List.filter_cons, topItem, metaLines_top, checkLines_top]

end SV.Proofs.C16
