/-
  Helper lemmas for C16, part 3: the `_execute` / CassetteWriter queue protocol under arbitrary interleavings.
-/
import SV.Spec.C16

namespace SV.Proofs.C16
open SV.Model.C16 SV.Spec.C16

/-- the messages the main program puts for handler `i`, in order -/
def proj (i : Nat) (pc : List (Nat × Msg)) : List Msg := pc.filterMap fun p => if p.1 = i then some p.2 else none

/-- a writer that has consumed `ms` -/
def replay (f : Fmt) (ms : List Msg) : WState := ms.foldl (consume f) WState.init

theorem proj_nil (i : Nat) : proj i [] = [] := rfl

theorem proj_cons_same (i : Nat) (m : Msg) (rest : List (Nat × Msg)) : proj i ((i, m) :: rest) = m :: proj i rest := by
  simp [proj]

theorem proj_cons_other (i j : Nat) (m : Msg) (rest : List (Nat × Msg)) (h : j ≠ i) :
    proj i ((j, m) :: rest) = proj i rest := by
  simp [proj, h]

theorem proj_append (i : Nat) (a b : List (Nat × Msg)) : proj i (a ++ b) = proj i a ++ proj i b := by
  simp [proj, List.filterMap_append]

theorem replay_snoc (f : Fmt) (ms : List Msg) (m : Msg) : replay f (ms ++ [m]) = consume f (replay f ms) m := by
  simp [replay, List.foldl_append]

/-- the invariant tying writer `i` to the main program `pc0`: consumed ++ in its queue ++ still to be put = everything
    addressed to it, and its state is what consuming `consumed` gives -/
def Inv (cfg : Nat → HCfg) (n i : Nat) (pc0 : List (Nat × Msg)) (s : Sys) : Prop :=
  (∀ p ∈ s.pc, p.1 < n) ∧
  ∃ consumed, consumed ++ (s.queues (cfg i).queue ++ proj i s.pc) = proj i pc0 ∧ s.ws i = replay (cfg i).fmt consumed

/-- writer `i` shares its queue object with no other writer -/
def OwnQueue (cfg : Nat → HCfg) (n i : Nat) : Prop := ∀ j, j < n → j ≠ i → (cfg j).queue ≠ (cfg i).queue

theorem inv_init (cfg : Nat → HCfg) (n i : Nat) (pc0 : List (Nat × Msg)) (h : ∀ p ∈ pc0, p.1 < n) :
    Inv cfg n i pc0 (Sys.init pc0) :=
  ⟨h, [], by simp [Sys.init], rfl⟩

theorem inv_stepMain (cfg : Nat → HCfg) (n i : Nat) (pc0 : List (Nat × Msg)) (s : Sys) (hown : OwnQueue cfg n i)
    (h : Inv cfg n i pc0 s) : Inv cfg n i pc0 (stepMain cfg s) := by
  obtain ⟨q, w, pc⟩ := s
  obtain ⟨hlt, consumed, heq, hw⟩ := h
  cases pc with
  | nil => exact ⟨hlt, consumed, heq, hw⟩
  | cons p rest =>
    obtain ⟨j, m⟩ := p
    simp only at hlt heq hw
    have hj : j < n := hlt (j, m) (by simp)
    refine ⟨fun p hp => hlt p (by simp only [stepMain] at hp; simp [hp]), consumed, ?_, hw⟩
    simp only [stepMain]
    by_cases hji : j = i
    · subst hji
      simp only [proj_cons_same] at heq
      simp only [upd, if_true]
      simpa [List.append_assoc] using heq
    · have hq := hown j hj hji
      simp only [proj_cons_other i j m rest hji] at heq
      simp only [upd]
      rw [if_neg (fun e => hq e.symm)]
      exact heq

theorem inv_stepWorker (cfg : Nat → HCfg) (n i j : Nat) (pc0 : List (Nat × Msg)) (s : Sys) (hown : OwnQueue cfg n i)
    (h : Inv cfg n i pc0 s) : Inv cfg n i pc0 (stepWorker cfg n j s) := by
  obtain ⟨q, w, pc⟩ := s
  obtain ⟨hlt, consumed, heq, hw⟩ := h
  unfold stepWorker
  split
  · rename_i hcond
    obtain ⟨hj, hnd⟩ := hcond
    simp only at hnd heq hw ⊢
    cases hq : q (cfg j).queue with
    | nil => exact ⟨hlt, consumed, heq, hw⟩
    | cons m rest =>
      simp only
      by_cases hji : j = i
      · subst hji
        refine ⟨hlt, consumed ++ [m], ?_, ?_⟩
        · simp only [upd, if_true]
          rw [hq] at heq
          simpa [List.append_assoc] using heq
        · simp only [upd, if_true]
          rw [replay_snoc, ← hw]
      · have hne := hown j hj hji
        refine ⟨hlt, consumed, ?_, ?_⟩
        · simp only [upd]
          rw [if_neg (fun e => hne e.symm)]
          exact heq
        · simp only [upd]
          rw [if_neg (fun e => hji e.symm)]
          exact hw
  · exact ⟨hlt, consumed, heq, hw⟩

theorem inv_run (cfg : Nat → HCfg) (n i : Nat) (pc0 : List (Nat × Msg)) (hown : OwnQueue cfg n i) (sched : List Act) :
    ∀ s, Inv cfg n i pc0 s → Inv cfg n i pc0 (run cfg n sched s) := by
  induction sched with
  | nil => intro s h; exact h
  | cons a rest ih =>
    intro s h
    simp only [run, List.foldl_cons]
    apply ih
    cases a with
    | main => exact inv_stepMain cfg n i pc0 s hown h
    | work j => exact inv_stepWorker cfg n i j pc0 s hown h

/-! ### what a writer has written after consuming a prefix of `init :: processes ++ [finalize]` -/

theorem foldl_noFin (f : Fmt) (ms : List Msg) (h : ∀ m ∈ ms, m.isFin = false) (o : List Chunk) :
    ms.foldl (consume f) ⟨o, false⟩ = ⟨o ++ ms.flatMap (chunksOf f), false⟩ := by
  induction ms generalizing o with
  | nil => simp
  | cons m rest ih =>
    have hm : m.isFin = false := h m (by simp)
    simp only [List.foldl_cons, consume, hm, Bool.false_eq_true, if_false]
    rw [ih (fun x hx => h x (by simp [hx]))]
    simp [List.append_assoc]

theorem replay_noFin (f : Fmt) (ms : List Msg) (h : ∀ m ∈ ms, m.isFin = false) :
    replay f ms = ⟨ms.flatMap (chunksOf f), false⟩ := by
  simpa [replay, WState.init] using foldl_noFin f ms h []

theorem replay_withFin (f : Fmt) (ms : List Msg) (h : ∀ m ∈ ms, m.isFin = false) :
    replay f (ms ++ [.finalize]) = ⟨ms.flatMap (chunksOf f), true⟩ := by
  rw [replay_snoc, replay_noFin f ms h]
  simp [consume, Msg.isFin, chunksOf]

theorem flatMap_prefix {α β : Type} (g : α → List β) (a b : List α) (h : a <+: b) : a.flatMap g <+: b.flatMap g := by
  obtain ⟨t, rfl⟩ := h
  simp [List.flatMap_append]

/-- consumed is a prefix of `body ++ [finalize]` with `body` free of `finalize`: either still inside `body`, or all -/
theorem replay_prefix (f : Fmt) (body consumed : List Msg) (hb : ∀ m ∈ body, m.isFin = false)
    (hp : consumed <+: body ++ [.finalize]) :
    (replay f consumed).out <+: body.flatMap (chunksOf f) ∧
    ((replay f consumed).done = true → consumed = body ++ [.finalize] ∧ (replay f consumed).out = body.flatMap (chunksOf f)) := by
  rcases List.prefix_concat_iff.mp hp with h | h
  · subst h
    rw [replay_withFin f body hb]
    exact ⟨List.prefix_refl _, fun _ => ⟨rfl, rfl⟩⟩
  · have hc : ∀ m ∈ consumed, m.isFin = false := fun m hm => hb m (h.subset hm)
    rw [replay_noFin f consumed hc]
    exact ⟨flatMap_prefix _ _ _ h, fun hd => by simp at hd⟩

/-! ### the main program of `_execute`, seen from writer `i` -/

theorem proj_putAll (i n : Nat) (m : Msg) : proj i (putAll n m) = if i < n then [m] else [] := by
  induction n with
  | zero => simp [putAll, proj]
  | succ n ih =>
    have : putAll (n + 1) m = putAll n m ++ [(n, m)] := by simp [putAll, List.range_succ]
    rw [this, proj_append, ih]
    by_cases h1 : i < n
    · have : n ≠ i := by omega
      simp [h1, proj, this, Nat.lt_succ_of_lt h1]
    · by_cases h2 : i = n
      · subst h2; simp [proj]
      · have h3 : ¬ i < n + 1 := by omega
        have : n ≠ i := fun e => h2 e.symm
        simp [h1, h3, proj, this]

theorem mem_putAll (n : Nat) (m : Msg) (p : Nat × Msg) (h : p ∈ putAll n m) : p.1 < n := by
  simp only [putAll, List.mem_map, List.mem_range] at h
  obtain ⟨j, hj, rfl⟩ := h
  exact hj

theorem mem_eventPuts (n : Nat) (e : Ev) (p : Nat × Msg) (h : p ∈ eventPuts n e) : p.1 < n := by
  cases e with
  | none => simp [eventPuts] at h
  | some ids => exact mem_putAll n _ p h

/-- the `Process` messages for a list of events -/
def procs (evs : List Ev) : List Msg := evs.filterMap fun e => e.map Msg.process

theorem proj_events (i n : Nat) (hi : i < n) (evs : List Ev) : proj i (evs.flatMap (eventPuts n)) = procs evs := by
  induction evs with
  | nil => rfl
  | cons e rest ih =>
    simp only [List.flatMap_cons, proj_append, ih, procs, List.filterMap_cons]
    cases e with
    | none => simp [eventPuts, proj]
    | some ids => simp [eventPuts, proj_putAll, hi]

theorem procs_append (a b : List Ev) : procs (a ++ b) = procs a ++ procs b := by simp [procs]

theorem take_succ_getElem? {α : Type} (l : List α) (k : Nat) :
    l.take (k + 1) = l.take k ++ (match l[k]? with | some e => [e] | none => []) := by
  induction l generalizing k with
  | nil => simp
  | cons a l ih =>
    cases k with
    | zero => simp
    | succ k => simp [ih k]

theorem mainProgram_lt (n : Nat) (seed : Option Nat) (evs : List Ev) (crash : Option (Nat × Nat)) :
    ∀ p ∈ mainProgram n seed evs crash, p.1 < n := by
  intro p hp
  simp only [mainProgram, List.mem_append] at hp
  rcases hp with hp | hp | hp
  · exact mem_putAll n _ p hp
  · cases crash with
    | none =>
      simp only [List.mem_flatMap] at hp
      obtain ⟨e, _, he⟩ := hp
      exact mem_eventPuts n e p he
    | some kp =>
      obtain ⟨k, q⟩ := kp
      simp only [List.mem_append, List.mem_flatMap] at hp
      rcases hp with ⟨e, _, he⟩ | hp
      · exact mem_eventPuts n e p he
      · cases hk : evs[k]? with
        | none => simp [hk] at hp
        | some e =>
          simp only [hk] at hp
          exact Nat.lt_of_lt_of_le (mem_eventPuts _ e p hp) (Nat.min_le_right q n)
  · exact mem_putAll n _ p hp

/-- everything `_execute` addresses to writer `i`: `Initialize`, one `Process` per delivered scenario, `Finalize` -/
theorem proj_mainProgram (i n : Nat) (hi : i < n) (seed : Option Nat) (evs : List Ev) (crash : Option (Nat × Nat)) :
    proj i (mainProgram n seed evs crash) = (.initialize seed :: procs (deliveredTo i evs crash)) ++ [.finalize] := by
  simp only [mainProgram, proj_append, proj_putAll, hi, if_true]
  cases crash with
  | none => simp [deliveredTo, proj_events i n hi]
  | some kp =>
    obtain ⟨k, q⟩ := kp
    simp only [proj_append, proj_events i n hi, deliveredTo]
    by_cases hq : i < q
    · simp only [hq, if_true, take_succ_getElem?, procs_append]
      cases hk : evs[k]? with
      | none => simp [procs, proj]
      | some e =>
        have hm : i < min q n := Nat.lt_min.mpr ⟨hq, hi⟩
        cases e with
        | none => simp [eventPuts, procs, proj]
        | some ids => simp [eventPuts, procs, proj_putAll, hm]
    · simp only [hq, if_false]
      cases hk : evs[k]? with
      | none => simp [proj]
      | some e =>
        have hm : ¬ i < min q n := fun h => hq (Nat.lt_min.mp h).1
        cases e with
        | none => simp [eventPuts, proj]
        | some ids => simp [eventPuts, proj_putAll, hm]

theorem procs_noFin (evs : List Ev) : ∀ m ∈ procs evs, m.isFin = false := by
  intro m hm
  simp only [procs, List.mem_filterMap] at hm
  obtain ⟨e, _, he⟩ := hm
  cases e with
  | none => simp at he
  | some ids => simp at he; subst he; rfl

theorem chunks_procs (f : Fmt) (evs : List Ev) : (procs evs).flatMap (chunksOf f) = (exchanges evs).map .entry := by
  induction evs with
  | nil => rfl
  | cons e rest ih =>
    cases e with
    | none => simpa [procs, exchanges] using ih
    | some ids =>
      simp only [procs, List.filterMap_cons, Option.map_some, List.flatMap_cons, exchanges, Option.getD_some,
        List.map_append] at ih ⊢
      rw [ih]
      cases f <;> rfl

theorem chunks_body (f : Fmt) (seed : Option Nat) (evs : List Ev) :
    (Msg.initialize seed :: procs evs).flatMap (chunksOf f) = expectedFile f seed evs := by
  simp only [List.flatMap_cons, chunks_procs, expectedFile]
  cases f <;> rfl

theorem body_noFin (seed : Option Nat) (evs : List Ev) : ∀ m ∈ Msg.initialize seed :: procs evs, m.isFin = false := by
  intro m hm
  rcases List.mem_cons.mp hm with rfl | h
  · rfl
  · exact procs_noFin evs m h

/-- The state of writer `i` after any interleaving of `_execute` with the writer threads. -/
theorem writer_after_run (cfg : Nat → HCfg) (n i : Nat) (hi : i < n) (hown : OwnQueue cfg n i) (seed : Option Nat)
    (evs : List Ev) (crash : Option (Nat × Nat)) (sched : List Act) :
    let s := run cfg n sched (Sys.init (mainProgram n seed evs crash))
    ((s.ws i).out <+: expectedFile (cfg i).fmt seed (deliveredTo i evs crash)) ∧
    ((s.ws i).done = true → (s.ws i).out = expectedFile (cfg i).fmt seed (deliveredTo i evs crash)) ∧
    (s.pc = [] → (s.ws i).done = false → s.queues (cfg i).queue ≠ []) := by
  intro s
  have hinv := inv_run cfg n i _ hown sched _ (inv_init cfg n i _ (mainProgram_lt n seed evs crash))
  obtain ⟨_, consumed, heq, hw⟩ := hinv
  rw [proj_mainProgram i n hi] at heq
  have hp : consumed <+: (Msg.initialize seed :: procs (deliveredTo i evs crash)) ++ [.finalize] := ⟨_, heq⟩
  have hr := replay_prefix (cfg i).fmt _ consumed (body_noFin seed _) hp
  rw [chunks_body] at hr
  refine ⟨?_, ?_, ?_⟩
  · show (s.ws i).out <+: _
    rw [hw]; exact hr.1
  · intro hd
    show (s.ws i).out = _
    rw [hw] at hd ⊢
    exact (hr.2 hd).2
  · intro hpc hnd hq
    change s.pc = [] at hpc
    change s.queues (cfg i).queue = [] at hq
    rw [hpc, hq] at heq
    simp only [proj_nil, List.append_nil] at heq
    rw [hw, heq, replay_withFin _ _ (body_noFin seed _)] at hnd
    simp at hnd

/-! ### liveness: the writers can always be run to completion -/

theorem run_append (cfg : Nat → HCfg) (n : Nat) (a b : List Act) (s : Sys) :
    run cfg n (a ++ b) s = run cfg n b (run cfg n a s) := by
  simp [run, List.foldl_append]

theorem step_pc_nil (cfg : Nat → HCfg) (n : Nat) (a : Act) (s : Sys) (h : s.pc = []) : (step cfg n s a).pc = [] := by
  obtain ⟨q, w, pc⟩ := s
  simp only at h
  subst h
  cases a with
  | main => rfl
  | work j =>
    simp only [step, stepWorker]
    split
    · split <;> rfl
    · rfl

theorem run_pc_nil (cfg : Nat → HCfg) (n : Nat) (sched : List Act) : ∀ s : Sys, s.pc = [] → (run cfg n sched s).pc = [] := by
  induction sched with
  | nil => intro s h; exact h
  | cons a rest ih => intro s h; exact ih _ (step_pc_nil cfg n a s h)

theorem step_done_mono (cfg : Nat → HCfg) (n i : Nat) (a : Act) (s : Sys) (h : (s.ws i).done = true) :
    ((step cfg n s a).ws i).done = true := by
  cases a with
  | main =>
    obtain ⟨q, w, pc⟩ := s
    cases pc with
    | nil => exact h
    | cons p rest => exact h
  | work j =>
    simp only [step, stepWorker]
    split
    · rename_i hc
      split
      · exact h
      · simp only [upd]
        by_cases hij : i = j
        · subst hij
          rw [h] at hc
          exact absurd hc.2 (by simp)
        · rw [if_neg hij]; exact h
    · exact h

theorem run_done_mono (cfg : Nat → HCfg) (n i : Nat) (sched : List Act) :
    ∀ s : Sys, (s.ws i).done = true → ((run cfg n sched s).ws i).done = true := by
  induction sched with
  | nil => intro s h; exact h
  | cons a rest ih => intro s h; exact ih _ (step_done_mono cfg n i a s h)

theorem run_mains (cfg : Nat → HCfg) (n : Nat) : ∀ (k : Nat) (s : Sys), s.pc.length ≤ k →
    (run cfg n (List.replicate k .main) s).pc = [] := by
  intro k
  induction k with
  | zero =>
    intro s h
    simp only [List.replicate_zero, run, List.foldl_nil]
    exact List.eq_nil_of_length_eq_zero (by omega)
  | succ k ih =>
    intro s h
    simp only [List.replicate_succ, run, List.foldl_cons]
    apply ih
    obtain ⟨q, w, pc⟩ := s
    cases pc with
    | nil => simp [step, stepMain]
    | cons p rest =>
      simp only [step, stepMain]
      simp only [List.length_cons] at h
      omega

theorem proj_length_le (i : Nat) (pc : List (Nat × Msg)) : (proj i pc).length ≤ pc.length := by
  simp only [proj]
  exact List.length_filterMap_le _ _

/-- with everything put, `K` steps of writer `i` (at least as many as it has messages waiting) make it return -/
theorem drain_one (cfg : Nat → HCfg) (n i : Nat) (hi : i < n) (hown : OwnQueue cfg n i) (seed : Option Nat) (evs : List Ev)
    (crash : Option (Nat × Nat)) : ∀ (K : Nat) (s : Sys), Inv cfg n i (mainProgram n seed evs crash) s → s.pc = [] →
    (s.queues (cfg i).queue).length ≤ K → ((run cfg n (List.replicate K (.work i)) s).ws i).done = true := by
  intro K
  induction K with
  | zero =>
    intro s hinv hpc hlen
    obtain ⟨_, consumed, heq, hw⟩ := hinv
    have hq : s.queues (cfg i).queue = [] := List.eq_nil_of_length_eq_zero (by omega)
    rw [proj_mainProgram i n hi, hpc, hq] at heq
    simp only [proj_nil, List.append_nil] at heq
    simp only [List.replicate_zero, run, List.foldl_nil]
    rw [hw, heq, replay_withFin _ _ (body_noFin seed _)]
  | succ K ih =>
    intro s hinv hpc hlen
    by_cases hd : (s.ws i).done = true
    · exact run_done_mono cfg n i _ s hd
    · simp only [List.replicate_succ, run, List.foldl_cons]
      have hinv' := inv_stepWorker cfg n i i _ s hown hinv
      apply ih _ hinv' (step_pc_nil cfg n (.work i) s hpc)
      simp only [step, stepWorker]
      have hd' : (s.ws i).done = false := by simpa using hd
      rw [if_pos ⟨hi, hd'⟩]
      cases hq : s.queues (cfg i).queue with
      | nil => simp [hq]
      | cons m rest =>
        rw [hq] at hlen
        simp only [upd, if_true, List.length_cons] at hlen ⊢
        omega

/-- every writer in turn, `K` steps each -/
def drainSched (K : Nat) : Nat → List Act
  | 0 => []
  | m + 1 => drainSched K m ++ List.replicate K (.work m)

theorem drain_all (cfg : Nat → HCfg) (n : Nat) (hown : ∀ i, i < n → OwnQueue cfg n i) (seed : Option Nat) (evs : List Ev)
    (crash : Option (Nat × Nat)) (K : Nat) (hK : (mainProgram n seed evs crash).length ≤ K) (s : Sys)
    (hinv : ∀ i, i < n → Inv cfg n i (mainProgram n seed evs crash) s) (hpc : s.pc = []) :
    ∀ m, m ≤ n → ∀ i, i < m → ((run cfg n (drainSched K m) s).ws i).done = true := by
  intro m
  induction m with
  | zero => intro _ i hi; omega
  | succ m ih =>
    intro hm i hi
    simp only [drainSched, run_append]
    by_cases him : i < m
    · exact run_done_mono cfg n i _ _ (ih (by omega) i him)
    · have : i = m := by omega
      subst this
      have hi' : i < n := by omega
      have hinv' := inv_run cfg n i _ (hown i hi') (drainSched K i) s (hinv i hi')
      have hpc' := run_pc_nil cfg n (drainSched K i) s hpc
      apply drain_one cfg n i hi' (hown i hi') seed evs crash K _ hinv' hpc'
      obtain ⟨_, consumed, heq, _⟩ := hinv'
      have := congrArg List.length heq
      simp only [List.length_append] at this
      have := proj_length_le i (mainProgram n seed evs crash)
      omega

theorem step_pc_length_le (cfg : Nat → HCfg) (n : Nat) (a : Act) (s : Sys) : (step cfg n s a).pc.length ≤ s.pc.length := by
  obtain ⟨q, w, pc⟩ := s
  cases a with
  | main =>
    cases pc with
    | nil => simp [step, stepMain]
    | cons p rest => simp [step, stepMain]
  | work j =>
    simp only [step, stepWorker]
    split
    · split <;> simp
    · simp

theorem run_pc_length_le (cfg : Nat → HCfg) (n : Nat) (sched : List Act) : ∀ s : Sys, (run cfg n sched s).pc.length ≤ s.pc.length := by
  induction sched with
  | nil => intro s; simp [run]
  | cons a rest ih =>
    intro s
    simp only [run, List.foldl_cons]
    exact Nat.le_trans (ih _) (step_pc_length_le cfg n a s)

/-- from any point of any interleaving: let the main thread finish, then every writer run — all writers return -/
theorem completes (cfg : Nat → HCfg) (n : Nat) (hown : ∀ i, i < n → OwnQueue cfg n i) (seed : Option Nat) (evs : List Ev)
    (crash : Option (Nat × Nat)) (sched : List Act) :
    let pc0 := mainProgram n seed evs crash
    let s := run cfg n (sched ++ (List.replicate pc0.length .main ++ drainSched pc0.length n)) (Sys.init pc0)
    s.pc = [] ∧ ∀ i, i < n → (s.ws i).done = true := by
  intro pc0 s
  have hinit : ∀ i, i < n → Inv cfg n i pc0 (Sys.init pc0) := fun i _ => inv_init cfg n i pc0 (mainProgram_lt n seed evs crash)
  have h1 : ∀ i, i < n → Inv cfg n i pc0 (run cfg n sched (Sys.init pc0)) := fun i hi => inv_run cfg n i pc0 (hown i hi) sched _ (hinit i hi)
  have hlen : (run cfg n sched (Sys.init pc0)).pc.length ≤ pc0.length := run_pc_length_le cfg n sched (Sys.init pc0)
  have hpc2 := run_mains cfg n pc0.length _ hlen
  have h2 : ∀ i, i < n → Inv cfg n i pc0 (run cfg n (List.replicate pc0.length .main) (run cfg n sched (Sys.init pc0))) :=
    fun i hi => inv_run cfg n i pc0 (hown i hi) _ _ (h1 i hi)
  have hs : s = run cfg n (drainSched pc0.length n) (run cfg n (List.replicate pc0.length .main) (run cfg n sched (Sys.init pc0))) := by
    simp only [s, run_append]
  rw [hs]
  exact ⟨run_pc_nil cfg n _ _ hpc2,
    fun i hi => drain_all cfg n hown seed evs crash pc0.length (Nat.le_refl _) _ h2 hpc2 n (Nat.le_refl _) i hi⟩

end SV.Proofs.C16
