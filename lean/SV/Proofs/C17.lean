/-
  Helper lemmas for C17 (not property statements).
-/
import SV.Spec.C17

namespace SV.Proofs.C17
open SV SV.Model.C17 SV.Spec.C17

/-! ### the round-robin walk -/

theorem cycleNext_spec {α : Type} (all : List α) (hne : all ≠ []) :
    ∀ (n : Nat) (pre rem : List α), all = pre ++ rem →
      cycleNext all n rem = all[(pre.length + n) % all.length]? := by
  intro n
  induction n with
  | zero =>
    intro pre rem h
    cases rem with
    | nil =>
      simp at h
      subst h
      simp [cycleNext]
      cases all with
      | nil => exact absurd rfl hne
      | cons a t => simp
    | cons x rest =>
      have hlen : pre.length < all.length := by rw [h]; simp
      simp only [cycleNext, Nat.add_zero, Nat.mod_eq_of_lt hlen]
      rw [h]
      simp
  | succ n ih =>
    intro pre rem h
    cases rem with
    | nil =>
      simp at h
      subst h
      cases all with
      | nil => exact absurd rfl hne
      | cons a t =>
        simp only [cycleNext]
        rw [ih [a] t rfl]
        congr 1
        simp only [List.length_cons, List.length_nil]
        rw [Nat.add_mod_left]
        congr 1
        omega
    | cons x rest =>
      simp only [cycleNext]
      rw [ih (pre ++ [x]) rest (by simp [h])]
      congr 2
      simp
      omega


theorem cycleGet_mod {α : Type} (xs : List α) (hne : xs ≠ []) (idx : Nat) :
    cycleGet xs idx = xs[idx % xs.length]? := by
  have := cycleNext_spec xs hne idx [] xs rfl
  simpa [cycleGet] using this

theorem cycleGet_lt {α : Type} (xs : List α) (idx : Nat) (h : idx < xs.length) :
    cycleGet xs idx = some xs[idx] := by
  have hne : xs ≠ [] := by intro e; subst e; simp at h
  rw [cycleGet_mod xs hne, Nat.mod_eq_of_lt h]
  simp [h]

/-! ### association lists -/

theorem lookupC_mem {α : Type} (k : String) (l : List (String × α)) (v : α) (h : lookupC k l = some v) :
    (k, v) ∈ l := by
  induction l with
  | nil => simp [lookupC] at h
  | cons kv rest ih =>
    obtain ⟨k', v'⟩ := kv
    unfold lookupC at h
    by_cases hk : (k' == k) = true
    · simp only [hk, if_true, Option.some.injEq] at h
      simp at hk
      subst hk; subst h
      simp
    · simp only [hk, Bool.false_eq_true, if_false] at h
      exact List.mem_cons_of_mem _ (ih h)

theorem lookupC_map {α β : Type} (f : α → β) (k : String) (l : List (String × α)) :
    lookupC k (l.map fun kv => (kv.1, f kv.2)) = (lookupC k l).map f := by
  induction l with
  | nil => simp [lookupC]
  | cons kv rest ih =>
    obtain ⟨k', v'⟩ := kv
    simp only [List.map_cons, lookupC]
    by_cases hk : (k' == k) = true
    · simp [hk]
    · simp only [hk, Bool.false_eq_true, if_false]
      exact ih

/-! ### folds computing a maximum -/

theorem foldl_ge_init {β : Type} (g : Nat → β → Nat) (hg : ∀ m x, m ≤ g m x) (l : List β) (m : Nat) :
    m ≤ l.foldl g m := by
  induction l generalizing m with
  | nil => simp
  | cons x rest ih => exact Nat.le_trans (hg m x) (ih (g m x))

theorem foldl_ge_mem {β : Type} (g : Nat → β → Nat) (hg : ∀ m x, m ≤ g m x) (l : List β) (x : β) (hx : x ∈ l)
    (k : Nat) (hk : ∀ m, k ≤ g m x) (m : Nat) : k ≤ l.foldl g m := by
  induction l generalizing m with
  | nil => simp at hx
  | cons y rest ih =>
    simp only [List.foldl_cons]
    rcases List.mem_cons.mp hx with h | h
    · subst h
      exact Nat.le_trans (hk m) (foldl_ge_init g hg rest _)
    · exact ih h _

theorem maxLenV_ge (vs : Variants) (nv : String × List Json) (h : nv ∈ vs) : nv.2.length ≤ maxLenV vs := by
  unfold maxLenV
  exact foldl_ge_mem (fun m (nv : String × List Json) => max m nv.2.length) (fun m x => Nat.le_max_left _ _) vs nv h _
    (fun m => Nat.le_max_right _ _) 0

theorem maxLen_ge (ps : Params) (cv : String × Variants) (hc : cv ∈ ps) (nv : String × List Json) (hn : nv ∈ cv.2) :
    nv.2.length ≤ maxLen ps := by
  unfold maxLen
  refine foldl_ge_mem _ ?_ ps cv hc _ ?_ 0
  · intro m x
    exact foldl_ge_init (fun m (nv : String × List Json) => max m nv.2.length) (fun m x => Nat.le_max_left _ _) _ _
  · intro m
    exact foldl_ge_mem (fun m (nv : String × List Json) => max m nv.2.length) (fun m x => Nat.le_max_left _ _) cv.2 nv hn _
      (fun m => Nat.le_max_right _ _) m

/-! ### the grouping loop of produce_combinations -/

/-- `x` is among the values collected for `n` -/
def HasV (vars : Variants) (n : String) (x : Json) : Prop := ∃ vs, lookupC n vars = some vs ∧ x ∈ vs
def HasP (ps : Params) (c n : String) (x : Json) : Prop := ∃ vars, lookupC c ps = some vars ∧ HasV vars n x

def Has (acc : Params × Variants) : Example → Prop
  | .param c n v => HasP acc.1 c n v
  | .body v mt => HasV acc.2 mt v

theorem HasV_add_same (vars : Variants) (n : String) (x : Json) : HasV (addVariant n x vars) n x := by
  induction vars with
  | nil => exact ⟨[x], by simp [addVariant, lookupC], by simp⟩
  | cons nv rest ih =>
    obtain ⟨n', vs⟩ := nv
    unfold addVariant
    by_cases hk : (n' == n) = true
    · simp only [hk, if_true]
      exact ⟨vs ++ [x], by simp [lookupC, hk], by simp⟩
    · simp only [hk, Bool.false_eq_true, if_false]
      obtain ⟨vs', h1, h2⟩ := ih
      exact ⟨vs', by simp [lookupC, hk, h1], h2⟩

theorem HasV_add_mono (vars : Variants) (n m : String) (x y : Json) (h : HasV vars m y) :
    HasV (addVariant n x vars) m y := by
  induction vars with
  | nil => obtain ⟨vs, h1, _⟩ := h; simp [lookupC] at h1
  | cons nv rest ih =>
    obtain ⟨n', vs⟩ := nv
    obtain ⟨ws, h1, h2⟩ := h
    unfold addVariant
    unfold lookupC at h1
    by_cases hk : (n' == n) = true
    · simp only [hk, if_true]
      by_cases hm : (n' == m) = true
      · simp only [hm, if_true, Option.some.injEq] at h1
        subst h1
        exact ⟨vs ++ [x], by simp [lookupC, hm], by simp [h2]⟩
      · simp only [hm, Bool.false_eq_true, if_false] at h1
        exact ⟨ws, by simp [lookupC, hm, h1], h2⟩
    · simp only [hk, Bool.false_eq_true, if_false]
      by_cases hm : (n' == m) = true
      · simp only [hm, if_true, Option.some.injEq] at h1
        subst h1
        exact ⟨vs, by simp [lookupC, hm], h2⟩
      · simp only [hm, Bool.false_eq_true, if_false] at h1
        obtain ⟨ws', h3, h4⟩ := ih ⟨ws, h1, h2⟩
        exact ⟨ws', by simp [lookupC, hm, h3], h4⟩

theorem HasP_add_same (ps : Params) (c n : String) (x : Json) : HasP (addParam c n x ps) c n x := by
  induction ps with
  | nil => exact ⟨[(n, [x])], by simp [addParam, lookupC], [x], by simp [lookupC], by simp⟩
  | cons cv rest ih =>
    obtain ⟨c', vars⟩ := cv
    unfold addParam
    by_cases hk : (c' == c) = true
    · simp only [hk, if_true]
      exact ⟨addVariant n x vars, by simp [lookupC, hk], HasV_add_same vars n x⟩
    · simp only [hk, Bool.false_eq_true, if_false]
      obtain ⟨vars', h1, h2⟩ := ih
      exact ⟨vars', by simp [lookupC, hk, h1], h2⟩

theorem HasP_add_mono (ps : Params) (c n d m : String) (x y : Json) (h : HasP ps d m y) :
    HasP (addParam c n x ps) d m y := by
  induction ps with
  | nil => obtain ⟨vs, h1, _⟩ := h; simp [lookupC] at h1
  | cons cv rest ih =>
    obtain ⟨c', vars⟩ := cv
    obtain ⟨ws, h1, h2⟩ := h
    unfold addParam
    unfold lookupC at h1
    by_cases hk : (c' == c) = true
    · simp only [hk, if_true]
      by_cases hm : (c' == d) = true
      · simp only [hm, if_true, Option.some.injEq] at h1
        subst h1
        exact ⟨addVariant n x vars, by simp [lookupC, hm], HasV_add_mono vars n m x y h2⟩
      · simp only [hm, Bool.false_eq_true, if_false] at h1
        exact ⟨ws, by simp [lookupC, hm, h1], h2⟩
    · simp only [hk, Bool.false_eq_true, if_false]
      by_cases hm : (c' == d) = true
      · simp only [hm, if_true, Option.some.injEq] at h1
        subst h1
        exact ⟨vars, by simp [lookupC, hm], h2⟩
      · simp only [hm, Bool.false_eq_true, if_false] at h1
        obtain ⟨ws', h3, h4⟩ := ih ⟨ws, h1, h2⟩
        exact ⟨ws', by simp [lookupC, hm, h3], h4⟩

theorem Has_step_same (acc : Params × Variants) (e : Example) : Has (splitStep acc e) e := by
  cases e with
  | param c n v => exact HasP_add_same acc.1 c n v
  | body v mt => exact HasV_add_same acc.2 mt v

theorem Has_step_mono (acc : Params × Variants) (e e' : Example) (h : Has acc e) : Has (splitStep acc e') e := by
  cases e with
  | param c n v =>
    cases e' with
    | param c' n' v' => exact HasP_add_mono acc.1 c' n' c n v' v h
    | body v' mt' => exact h
  | body v mt =>
    cases e' with
    | param c' n' v' => exact h
    | body v' mt' => exact HasV_add_mono acc.2 mt' mt v' v h

theorem Has_foldl_mono (exs : List Example) (acc : Params × Variants) (e : Example) (h : Has acc e) :
    Has (exs.foldl splitStep acc) e := by
  induction exs generalizing acc with
  | nil => exact h
  | cons x rest ih => exact ih _ (Has_step_mono acc e x h)

theorem Has_foldl_mem (exs : List Example) (acc : Params × Variants) (e : Example) (h : e ∈ exs) :
    Has (exs.foldl splitStep acc) e := by
  induction exs generalizing acc with
  | nil => simp at h
  | cons x rest ih =>
    rcases List.mem_cons.mp h with h | h
    · subst h
      exact Has_foldl_mono rest _ e (Has_step_same acc e)
    · exact ih _ h

theorem Has_split (exs : List Example) (e : Example) (h : e ∈ exs) : Has (split exs) e :=
  Has_foldl_mem exs _ e h


/-! ### `_expand_subschemas` -/

theorem expand_self (sch : Json) : sch ∈ expandSubschemas sch := by
  unfold expandSubschemas
  split <;> simp

theorem expand_anyOf (kvs : List (String × Json)) (subs : List Json) (sub : Json)
    (h : Json.lookup "anyOf" kvs = some (.arr subs)) (hs : sub ∈ subs) : sub ∈ expandSubschemas (.obj kvs) := by
  simp only [expandSubschemas, h, arrItems, List.mem_cons, List.mem_append]
  exact Or.inr (Or.inl (Or.inl hs))

theorem expand_oneOf (kvs : List (String × Json)) (subs : List Json) (sub : Json)
    (h : Json.lookup "oneOf" kvs = some (.arr subs)) (hs : sub ∈ subs) : sub ∈ expandSubschemas (.obj kvs) := by
  simp only [expandSubschemas, h, arrItems, List.mem_cons, List.mem_append]
  exact Or.inr (Or.inl (Or.inr hs))

theorem expand_allOf (kvs : List (String × Json)) (subs : List Json) (m : Json)
    (h : Json.lookup "allOf" kvs = some (.arr subs)) (hm : m ∈ mergeAllOf subs) : m ∈ expandSubschemas (.obj kvs) := by
  simp only [expandSubschemas, h, arrItems, List.mem_cons, List.mem_append]
  exact Or.inr (Or.inr hm)

theorem lookup_objSet_same (k : String) (v : Json) (l : List (String × Json)) :
    Json.lookup k (objSet k v l) = some v := by
  induction l with
  | nil => simp [objSet, Json.lookup]
  | cons kv rest ih =>
    obtain ⟨k', v'⟩ := kv
    unfold objSet
    by_cases hk : (k' == k) = true
    · have : k' = k := by simpa using hk
      subst this
      simp [Json.lookup]
    · have hne : ¬ (k = k') := by intro e; subst e; simp at hk
      simp only [hk, Bool.false_eq_true, if_false, Json.lookup]
      simp [hne, ih]

theorem lookup_objSet_ne (k k' : String) (v : Json) (l : List (String × Json)) (hne : k ≠ k') :
    Json.lookup k (objSet k' v l) = Json.lookup k l := by
  induction l with
  | nil => simp [objSet, Json.lookup, hne]
  | cons kv rest ih =>
    obtain ⟨k'', v''⟩ := kv
    unfold objSet
    by_cases hk : (k'' == k') = true
    · have : k'' = k' := by simpa using hk
      subst this
      simp [Json.lookup, hne]
    · simp only [hk, Bool.false_eq_true, if_false, Json.lookup]
      by_cases h2 : k = k''
      · simp [h2]
      · simp [h2, ih]

theorem mergeKey_keeps_example (acc : List (String × Json)) (kv : String × Json) (v : Json)
    (h : Json.lookup "example" acc = some v) : Json.lookup "example" (mergeKey acc kv) = some v := by
  unfold mergeKey
  split
  · rw [lookup_objSet_ne _ _ _ _ (by decide)]; exact h
  · split
    · rw [lookup_objSet_ne _ _ _ _ (by decide)]; exact h
    · split
      · rw [lookup_objSet_ne _ _ _ _ (by decide)]; exact h
      · split
        · rw [lookup_objSet_ne _ _ _ _ (by decide)]; exact h
        · rename_i h4
          have : "example" ≠ kv.1 := by
            intro e
            apply h4
            simp [← e]
          rw [lookup_objSet_ne _ _ _ _ this]; exact h

theorem mergeKey_keeps_examples (acc : List (String × Json)) (kv : String × Json) (v : Json)
    (h : InExamples acc v) : InExamples (mergeKey acc kv) v := by
  obtain ⟨vs, h1, h2⟩ := h
  unfold mergeKey
  split
  · exact ⟨vs, by rw [lookup_objSet_ne _ _ _ _ (by decide)]; exact h1, h2⟩
  · split
    · exact ⟨vs, by rw [lookup_objSet_ne _ _ _ _ (by decide)]; exact h1, h2⟩
    · split
      · exact ⟨_, lookup_objSet_same _ _ _, by simp [h1, arrItems, h2]⟩
      · split
        · exact ⟨_, lookup_objSet_same _ _ _, by simp [h1, arrItems, h2]⟩
        · rename_i h3 _
          have : "examples" ≠ kv.1 := by
            intro e
            apply h3
            simp [← e]
          exact ⟨vs, by rw [lookup_objSet_ne _ _ _ _ this]; exact h1, h2⟩

theorem mergeKey_example_eq (acc : List (String × Json)) (v : Json) :
    mergeKey acc ("example", v) =
      objSet "examples" (.arr (arrItems ((Json.lookup "examples" acc).getD (.arr [])) ++ [v])) acc := by
  simp only [mergeKey]
  simp only [show (("example" : String) == "properties") = false by decide,
    show (("example" : String) == "required") = false by decide,
    show (("example" : String) == "examples") = false by decide, Bool.false_eq_true, if_false,
    BEq.rfl, if_true]

theorem mergeKey_examples_eq (acc : List (String × Json)) (w : Json) :
    mergeKey acc ("examples", w) =
      objSet "examples" (.arr (arrItems ((Json.lookup "examples" acc).getD (.arr [])) ++ arrItems w)) acc := by
  simp only [mergeKey]
  simp only [show (("examples" : String) == "properties") = false by decide,
    show (("examples" : String) == "required") = false by decide, Bool.false_eq_true, if_false,
    BEq.rfl, if_true]

theorem mergeKey_adds_example (acc : List (String × Json)) (v : Json) :
    InExamples (mergeKey acc ("example", v)) v := by
  rw [mergeKey_example_eq]
  exact ⟨_, lookup_objSet_same _ _ _, by simp⟩

theorem mergeKey_adds_examples (acc : List (String × Json)) (ws : List Json) (v : Json) (hv : v ∈ ws) :
    InExamples (mergeKey acc ("examples", .arr ws)) v := by
  rw [mergeKey_examples_eq]
  exact ⟨_, lookup_objSet_same _ _ _, by simp [arrItems, hv]⟩

theorem foldl_mergeKey_keeps_example (kvs acc : List (String × Json)) (v : Json)
    (h : Json.lookup "example" acc = some v) : Json.lookup "example" (kvs.foldl mergeKey acc) = some v := by
  induction kvs generalizing acc with
  | nil => exact h
  | cons kv rest ih => exact ih _ (mergeKey_keeps_example acc kv v h)

theorem foldl_mergeKey_keeps_examples (kvs acc : List (String × Json)) (v : Json)
    (h : InExamples acc v) : InExamples (kvs.foldl mergeKey acc) v := by
  induction kvs generalizing acc with
  | nil => exact h
  | cons kv rest ih => exact ih _ (mergeKey_keeps_examples acc kv v h)

theorem foldl_mergeKey_adds (kvs acc : List (String × Json)) (v : Json) (h : Contributes kvs v) :
    InExamples (kvs.foldl mergeKey acc) v := by
  induction kvs generalizing acc with
  | nil => rcases h with h | ⟨ws, h, _⟩ <;> simp at h
  | cons kv rest ih =>
    simp only [List.foldl_cons]
    rcases h with h | ⟨ws, h, hv⟩
    · rcases List.mem_cons.mp h with h | h
      · subst h
        exact foldl_mergeKey_keeps_examples rest _ v (mergeKey_adds_example acc v)
      · exact ih _ (Or.inl h)
    · rcases List.mem_cons.mp h with h | h
      · subst h
        exact foldl_mergeKey_keeps_examples rest _ v (mergeKey_adds_examples acc ws v hv)
      · exact ih _ (Or.inr ⟨ws, h, hv⟩)

theorem mergeSub_keeps_example (acc : List (String × Json)) (sub v : Json)
    (h : Json.lookup "example" acc = some v) : Json.lookup "example" (mergeSub acc sub) = some v := by
  cases sub <;> simp only [mergeSub] <;> first | exact h | exact foldl_mergeKey_keeps_example _ _ _ h

theorem mergeSub_keeps_examples (acc : List (String × Json)) (sub v : Json)
    (h : InExamples acc v) : InExamples (mergeSub acc sub) v := by
  cases sub <;> simp only [mergeSub] <;> first | exact h | exact foldl_mergeKey_keeps_examples _ _ _ h

theorem foldl_mergeSub_keeps_example (rest : List Json) (acc : List (String × Json)) (v : Json)
    (h : Json.lookup "example" acc = some v) : Json.lookup "example" (rest.foldl mergeSub acc) = some v := by
  induction rest generalizing acc with
  | nil => exact h
  | cons s r ih => exact ih _ (mergeSub_keeps_example acc s v h)

theorem foldl_mergeSub_keeps_examples (rest : List Json) (acc : List (String × Json)) (v : Json)
    (h : InExamples acc v) : InExamples (rest.foldl mergeSub acc) v := by
  induction rest generalizing acc with
  | nil => exact h
  | cons s r ih => exact ih _ (mergeSub_keeps_examples acc s v h)

theorem foldl_mergeSub_adds (rest : List Json) (acc : List (String × Json)) (kvs : List (String × Json)) (v : Json)
    (hb : Json.obj kvs ∈ rest) (h : Contributes kvs v) : InExamples (rest.foldl mergeSub acc) v := by
  induction rest generalizing acc with
  | nil => simp at hb
  | cons s r ih =>
    simp only [List.foldl_cons]
    rcases List.mem_cons.mp hb with hb | hb
    · subst hb
      exact foldl_mergeSub_keeps_examples r _ v (foldl_mergeKey_adds kvs acc v h)
    · exact ih _ hb


/-! ### extract_from_schema: the per-property loop -/

theorem propStep_values_mono (rec : Json → List Json) (ef esf : String) (req : Bool) (st : PropState) (sub x : Json)
    (h : x ∈ st.values) : x ∈ (propStep rec ef esf req st sub).values := by
  cases sub <;> simp only [propStep] <;> (try exact h) <;> (split <;> simp [h])

theorem propStep_inV_mono (rec : Json → List Json) (ef esf : String) (req : Bool) (st : PropState) (sub : Json)
    (h : st.inVariants = true) : (propStep rec ef esf req st sub).inVariants = true := by
  cases sub <;> simp only [propStep] <;> (try exact h) <;> (split <;> simp [h])

theorem propStep_adds (rec : Json → List Json) (ef esf : String) (req : Bool) (st : PropState) (sub x : Json)
    (h : x ∈ contrib rec ef esf sub) :
    x ∈ (propStep rec ef esf req st sub).values ∧ (propStep rec ef esf req st sub).inVariants = true := by
  cases sub with
  | bool b => simp [contrib] at h
  | null | num _ _ | str _ | arr _ | obj _ =>
    simp only [propStep]
    split
    · rename_i he
      have : x ∈ st.values ++ contrib rec ef esf _ := List.mem_append_right _ h
      simp only [List.isEmpty_iff] at he
      rw [he] at this
      simp at this
    · exact ⟨List.mem_append_right _ h, rfl⟩

theorem foldl_propStep_mono (rec : Json → List Json) (ef esf : String) (req : Bool) (subs : List Json)
    (st : PropState) (x : Json) (h : x ∈ st.values ∧ st.inVariants = true) :
    x ∈ (subs.foldl (propStep rec ef esf req) st).values ∧
      (subs.foldl (propStep rec ef esf req) st).inVariants = true := by
  induction subs generalizing st with
  | nil => exact h
  | cons s r ih =>
    exact ih _ ⟨propStep_values_mono rec ef esf req st s x h.1, propStep_inV_mono rec ef esf req st s h.2⟩

theorem foldl_propStep_adds (rec : Json → List Json) (ef esf : String) (req : Bool) (subs : List Json)
    (st : PropState) (branch x : Json) (hb : branch ∈ subs) (h : x ∈ contrib rec ef esf branch) :
    x ∈ (subs.foldl (propStep rec ef esf req) st).values ∧
      (subs.foldl (propStep rec ef esf req) st).inVariants = true := by
  induction subs generalizing st with
  | nil => simp at hb
  | cons s r ih =>
    simp only [List.foldl_cons]
    rcases List.mem_cons.mp hb with hb | hb
    · subst hb
      exact foldl_propStep_mono rec ef esf req r _ x (propStep_adds rec ef esf req st branch x h)
    · exact ih _ hb

theorem propLoop_mem (rec : Json → List Json) (ef esf : String) (req : Bool) (sub branch x : Json)
    (hb : branch ∈ expandSubschemas sub) (h : x ∈ contrib rec ef esf branch) :
    x ∈ (propLoop rec ef esf req sub).values ∧ (propLoop rec ef esf req sub).inVariants = true :=
  foldl_propStep_adds rec ef esf req _ _ branch x hb h

theorem contrib_example (rec : Json → List Json) (ef esf : String) (branch v : Json)
    (h : branch.get? ef = some v) : v ∈ contrib rec ef esf branch := by
  cases branch with
  | bool b => simp [Json.get?] at h
  | null | num _ _ | str _ | arr _ | obj _ => simp [contrib, h]

theorem contrib_examples (rec : Json → List Json) (ef esf : String) (branch : Json) (vs : List Json) (v : Json)
    (h : branch.get? esf = some (.arr vs)) (hv : v ∈ vs) : v ∈ contrib rec ef esf branch := by
  cases branch with
  | bool b => simp [Json.get?] at h
  | null | num _ _ | str _ | arr _ | obj _ => simp [contrib, h, hv]

theorem contrib_rec (rec : Json → List Json) (ef esf : String) (branch x : Json)
    (hnb : ∀ b, branch ≠ .bool b) (h : x ∈ rec branch) : x ∈ contrib rec ef esf branch := by
  cases branch with
  | bool b => exact absurd rfl (hnb b)
  | null | num _ _ | str _ | arr _ | obj _ => simp [contrib, h]

theorem combineProps_mem (gen : Json → Json) (states : List (String × PropState)) (name : String) (st : PropState)
    (x : Json) (hs : (name, st) ∈ states) (hin : st.inVariants = true) (hx : x ∈ st.values) :
    ∃ kvs, Json.obj kvs ∈ combineProps gen states ∧ (name, x) ∈ kvs := by
  unfold combineProps
  have hv : (name, st.values) ∈
      states.filterMap (fun ns => if ns.2.inVariants then some (ns.1, ns.2.values) else none) := by
    rw [List.mem_filterMap]
    exact ⟨(name, st), hs, by simp [hin]⟩
  generalize hvar : (states.filterMap fun ns => if ns.2.inVariants then some (ns.1, ns.2.values) else none) = variants at hv
  have hne : variants.isEmpty = false := by
    cases variants with
    | nil => simp at hv
    | cons _ _ => rfl
  simp only [hne, Bool.false_eq_true, if_false]
  generalize (states.filterMap fun ns =>
      match ns.2.toGen with
      | some sub => if ns.2.inVariants then none else some (ns.1, [gen sub])
      | none => none) = generated
  obtain ⟨j, hj, hjx⟩ := List.getElem_of_mem hx
  have hall : (name, st.values) ∈ variants ++ generated := List.mem_append_left _ hv
  have hle : st.values.length ≤ maxLenV (variants ++ generated) := maxLenV_ge _ (name, st.values) hall
  refine ⟨(variants ++ generated).map fun nv => (nv.1, (cycleGet nv.2 j).getD .null), ?_, ?_⟩
  · rw [List.mem_map]
    exact ⟨j, by simp; omega, rfl⟩
  · rw [List.mem_map]
    refine ⟨(name, st.values), hall, ?_⟩
    simp only [cycleGet_lt st.values j hj, hjx, Option.getD_some]


/-! ### containers: merge of user-configured values, fill-in, header removal -/

theorem lookupC_setContainer_same (k : String) (v : Container) (l : Containers) :
    lookupC k (setContainer k v l) = some v := by
  induction l with
  | nil => simp [setContainer, lookupC]
  | cons kv rest ih =>
    obtain ⟨k', v'⟩ := kv
    unfold setContainer
    by_cases hk : (k' == k) = true
    · simp [hk, lookupC]
    · simp only [hk, Bool.false_eq_true, if_false, lookupC]
      exact ih

theorem lookupC_setContainer_ne (k k' : String) (v : Container) (l : Containers) (hne : k' ≠ k) :
    lookupC k (setContainer k' v l) = lookupC k l := by
  induction l with
  | nil => simp [setContainer, lookupC, hne]
  | cons kv rest ih =>
    obtain ⟨k'', v''⟩ := kv
    unfold setContainer
    by_cases hk : (k'' == k') = true
    · have : k'' = k' := by simpa using hk
      subst this
      simp [lookupC, hne]
    · simp only [hk, Bool.false_eq_true, if_false, lookupC]
      by_cases h2 : (k'' == k) = true
      · simp [h2]
      · simp [h2, ih]

theorem lookupC_objSet_same (k : String) (v : Json) (l : Container) : lookupC k (objSet k v l) = some v := by
  induction l with
  | nil => simp [objSet, lookupC]
  | cons kv rest ih =>
    obtain ⟨k', v'⟩ := kv
    unfold objSet
    by_cases hk : (k' == k) = true
    · simp [hk, lookupC]
    · simp only [hk, Bool.false_eq_true, if_false, lookupC]
      exact ih

theorem lookupC_objSet_ne (k k' : String) (v : Json) (l : Container) (hne : k' ≠ k) :
    lookupC k (objSet k' v l) = lookupC k l := by
  induction l with
  | nil => simp [objSet, lookupC, hne]
  | cons kv rest ih =>
    obtain ⟨k'', v''⟩ := kv
    unfold objSet
    by_cases hk : (k'' == k') = true
    · have : k'' = k' := by simpa using hk
      subst this
      simp [lookupC, hne]
    · simp only [hk, Bool.false_eq_true, if_false, lookupC]
      by_cases h2 : (k'' == k) = true
      · simp [h2]
      · simp [h2, ih]

theorem lookupC_objUpdate_other (k : String) (d other : Container) (h : ∀ kv ∈ other, kv.1 ≠ k) :
    lookupC k (objUpdate d other) = lookupC k d := by
  unfold objUpdate
  induction other generalizing d with
  | nil => rfl
  | cons kv rest ih =>
    simp only [List.foldl_cons]
    rw [ih _ (fun x hx => h x (List.mem_cons_of_mem _ hx))]
    exact lookupC_objSet_ne k kv.1 kv.2 d (h kv (by simp))

theorem lookupC_objSet_isSome (k k' : String) (v : Json) (l : Container) (h : (lookupC k l).isSome = true) :
    (lookupC k (objSet k' v l)).isSome = true := by
  by_cases hk : k' = k
  · subst hk; simp [lookupC_objSet_same]
  · rw [lookupC_objSet_ne k k' v l hk]; exact h

theorem lookupC_objUpdate_left (k : String) (d other : Container) (h : (lookupC k d).isSome = true) :
    (lookupC k (objUpdate d other)).isSome = true := by
  unfold objUpdate
  induction other generalizing d with
  | nil => exact h
  | cons kv rest ih =>
    simp only [List.foldl_cons]
    exact ih _ (lookupC_objSet_isSome k kv.1 kv.2 d h)

theorem lookupC_objUpdate_right (k : String) (d other : Container) (h : (lookupC k other).isSome = true) :
    (lookupC k (objUpdate d other)).isSome = true := by
  unfold objUpdate
  induction other generalizing d with
  | nil => simp [lookupC] at h
  | cons kv rest ih =>
    obtain ⟨k', v'⟩ := kv
    simp only [List.foldl_cons]
    unfold lookupC at h
    by_cases hk : (k' == k) = true
    · have : k' = k := by simpa using hk
      subst this
      have := lookupC_objUpdate_left k' (objSet k' v' d) rest (by simp [lookupC_objSet_same])
      simpa [objUpdate] using this
    · simp only [hk, Bool.false_eq_true, if_false] at h
      exact ih _ h

theorem lookupC_mapk {α β : Type} (f : String → α → β) (k : String) (l : List (String × α)) :
    lookupC k (l.map fun kv => (kv.1, f kv.1 kv.2)) = (lookupC k l).map (f k) := by
  induction l with
  | nil => simp [lookupC]
  | cons kv rest ih =>
    obtain ⟨k', v'⟩ := kv
    simp only [List.map_cons, lookupC]
    by_cases hk : (k' == k) = true
    · have : k' = k := by simpa using hk
      subst this
      simp
    · simp only [hk, Bool.false_eq_true, if_false]
      exact ih

theorem lookupC_filter_key (p : String → Bool) (k : String) (l : Container) (hp : p k = true) :
    lookupC k (l.filter fun nv => p nv.1) = lookupC k l := by
  induction l with
  | nil => rfl
  | cons kv rest ih =>
    obtain ⟨k', v'⟩ := kv
    by_cases hk : (k' == k) = true
    · have : k' = k := by simpa using hk
      subst this
      simp [List.filter, hp, lookupC]
    · by_cases hpk : p k' = true
      · simp [List.filter, hpk, lookupC, hk, ih]
      · simp [List.filter, hpk, lookupC, hk, ih]

theorem dropHeaders_eq (bad : List String) (ps : Containers) :
    dropHeaders bad ps =
      ps.map fun kc => (kc.1, (fun k (c : Container) =>
        if k == "headers" then c.filter (fun nv => !bad.contains nv.1) else c) kc.1 kc.2) := by
  unfold dropHeaders
  apply List.map_congr_left
  intro kc _
  split <;> simp_all

/-! ### helper lemmas of the property theorems -/

theorem paramCombos_carry (ps : Params) (c n : String) (x : Json) (h : HasP ps c n x) :
    ∃ j, ∃ hj : j < (paramCombos ps).length, ∀ b, Carries ((paramCombos ps)[j]) b (.param c n x) := by
  obtain ⟨vars, h1, vs, h2, hx⟩ := h
  obtain ⟨j, hj, hjx⟩ := List.getElem_of_mem hx
  have hc := lookupC_mem c ps vars h1
  have hn := lookupC_mem n vars vs h2
  have hle : vs.length ≤ maxLen ps := maxLen_ge ps (c, vars) hc (n, vs) hn
  have hj' : j < (paramCombos ps).length := by simp [paramCombos]; omega
  refine ⟨j, hj', fun b => ?_⟩
  have hget : (paramCombos ps)[j] = comboAt ps j := by simp [paramCombos]
  rw [hget]
  refine ⟨vars.map fun nv => (nv.1, (cycleGet nv.2 j).getD .null), ?_, ?_⟩
  · have := lookupC_map (fun (vars : Variants) => vars.map fun nv => (nv.1, (cycleGet nv.2 j).getD Json.null)) c ps
    simp only [comboAt]
    rw [this, h1]; rfl
  · have := lookupC_map (fun (vs : List Json) => (cycleGet vs j).getD Json.null) n vars
    rw [this, h2]
    simp only [Option.map_some, cycleGet_lt vs j hj, hjx, Option.getD_some]

theorem bodyCombos_mem (bs : Variants) (mt : String) (v : Json) (h : HasV bs mt v) : (mt, v) ∈ bodyCombos bs := by
  obtain ⟨vs, h1, hv⟩ := h
  have := lookupC_mem mt bs vs h1
  simp only [bodyCombos, List.mem_flatMap, List.mem_map]
  exact ⟨(mt, vs), this, v, hv, rfl⟩

theorem topValues_extracted (vRef : Variant) (srcs : List Source) (s : Source) (hs : s ∈ srcs) (v : Json)
    (hv : v ∈ topValues vRef s) : s.mk' v ∈ extractTopLevel vRef srcs := by
  simp only [extractTopLevel, List.mem_flatMap, List.mem_map]
  exact ⟨s, hs, v, hv, rfl⟩

theorem Declared_not_bool (ef esf : String) (b : Bool) (path : List Seg) (v : Json) :
    ¬ Declared ef esf (.bool b) path v := by
  intro h
  cases h <;> simp_all [Json.get?]

theorem Carries_dropHeaders (bad : List String) (ps : Containers) (b : Option (String × Json)) (e : Example)
    (h : Carries ps b e) (hok : ∀ n v, e = .param "headers" n v → n ∉ bad) :
    Carries (dropHeaders bad ps) b e := by
  cases e with
  | body v mt => exact h
  | param c n v =>
    obtain ⟨cont, h1, h2⟩ := h
    rw [dropHeaders_eq]
    have hm := lookupC_mapk (fun k (c : Container) =>
      if k == "headers" then c.filter (fun nv => !bad.contains nv.1) else c) c ps
    rw [h1] at hm
    refine ⟨_, hm, ?_⟩
    by_cases hc : c = "headers"
    · subst hc
      have hn : n ∉ bad := hok n v rfl
      simp only [BEq.rfl, if_true]
      rw [lookupC_filter_key (fun k => !bad.contains k) n cont (by simp [hn])]
      exact h2
    · have : (c == "headers") = false := by simp [hc]
      simp only [this, Bool.false_eq_true, if_false]
      exact h2

/-! ### create_test phases -/

theorem createPhases_not_fuzzing (modes : List Mode) (phases : List HPhase) (h : modes.contains .fuzzing = false) :
    (createPhases modes phases).contains .reuse = false ∧ (createPhases modes phases).contains .generate = false := by
  unfold createPhases
  generalize dropExplain phases = p1
  simp only [h, Bool.not_false, Bool.true_and]
  split
  · constructor <;> simp [List.mem_filter]
  · rename_i hc
    simp only [Bool.or_eq_true, not_or, Bool.not_eq_true] at hc
    exact ⟨hc.2, hc.1⟩

theorem filter_keeps_explicit (q : HPhase → Bool) (hq : q .explicit = true) (l : List HPhase) :
    (l.filter q).contains .explicit = l.contains .explicit := by
  induction l with
  | nil => rfl
  | cons x xs ih =>
    by_cases hx : q x = true
    · simp only [List.filter_cons, hx, if_true, List.contains_cons, ih]
    · have : x ≠ .explicit := fun e => hx (e ▸ hq)
      simp only [List.filter_cons, hx, List.contains_cons]
      cases x <;> simp_all

theorem createPhases_explicit (modes : List Mode) (phases : List HPhase) :
    (createPhases modes phases).contains .explicit = phases.contains .explicit := by
  have h0 : (dropExplain phases).contains .explicit = phases.contains .explicit := by
    unfold dropExplain
    split
    · exact filter_keeps_explicit _ (by decide) _
    · rfl
  unfold createPhases
  simp only
  split
  · rw [filter_keeps_explicit _ (by decide), h0]
  · exact h0

theorem registers_of_explicit (mode : Mode) (phases : List HPhase) (hmode : mode = .examples)
    (hex : HPhase.explicit ∈ phases) : registersExamples [mode] (createPhases [mode] phases) true = true := by
  subst hmode
  have : phases.contains .explicit = true := by simpa using hex
  simp only [registersExamples, createPhases_explicit, this]
  decide

/-! ### the Hypothesis contract -/

theorem runUntil_all {α : Type} (rmb : Bool) (verdict : α → Verdict) (l : List α)
    (h : ∀ x ∈ l, goesOn rmb (verdict x) = true) : runUntil rmb verdict l = l := by
  induction l with
  | nil => rfl
  | cons x xs ih =>
    simp only [runUntil, h x (by simp), if_true]
    rw [ih (fun y hy => h y (List.mem_cons_of_mem _ hy))]

theorem runUntil_subset {α : Type} (all : Bool) (verdict : α → Verdict) (l : List α) :
    ∀ x ∈ runUntil all verdict l, x ∈ l := by
  induction l with
  | nil => intro x hx; simp [runUntil] at hx
  | cons y ys ih =>
    intro x hx
    simp only [runUntil] at hx
    split at hx
    · rcases List.mem_cons.mp hx with h | h
      · exact h ▸ List.mem_cons_self
      · exact List.mem_cons_of_mem _ (ih x h)
    · simp at hx
      exact hx ▸ List.mem_cons_self

/-- without `reuse` and `generate` only explicit examples run -/
theorem hypRun_explicit_only {α : Type} (phases : List HPhase) (rmb : Bool) (explicit db gen : List α)
    (verdict : α → Verdict) (h1 : phases.contains .reuse = false) (h2 : phases.contains .generate = false) :
    (hypRun phases rmb explicit db gen verdict).engineRan = [] ∧
    (hypRun phases rmb explicit db gen verdict).explicitRan =
      (if phases.contains .explicit then runUntil rmb verdict explicit else []) := by
  unfold hypRun
  simp only [h1, h2, Bool.or_false, Bool.not_false, if_true]
  split <;> split <;> simp

theorem hypRun_nothing {α : Type} (phases : List HPhase) (rmb : Bool) (db gen : List α)
    (verdict : α → Verdict) (h1 : phases.contains .reuse = false) (h2 : phases.contains .generate = false) :
    hypRun phases rmb [] db gen verdict = ⟨[], [], .skipped⟩ := by
  have hw : worst ([] : List Verdict) = .returned := by decide
  have h1' : HPhase.reuse ∉ phases := by simpa using h1
  have h2' : HPhase.generate ∉ phases := by simpa using h2
  unfold hypRun
  simp [h1', h2', runUntil, hw]

/-! ### run_test -/

theorem markStep_error_stays (isSet guarded : Bool) (rep : Report) (acc : Status × List Report) (h : acc.1 = .error) :
    (markStep isSet guarded rep acc).1 = .error := by
  unfold markStep
  split <;> simp [h]

theorem markStep_set_error (guarded : Bool) (rep : Report) (acc : Status × List Report) :
    (markStep true guarded rep acc).1 = .error := by
  unfold markStep
  split
  · rfl
  · rename_i h
    cases guarded <;> simp_all

theorem markStep_mono (isSet guarded : Bool) (rep r : Report) (acc : Status × List Report) (h : r ∈ acc.2) :
    r ∈ (markStep isSet guarded rep acc).2 := by
  unfold markStep
  split
  · simp [h]
  · exact h

theorem markStep_unguarded (rep : Report) (acc : Status × List Report) :
    (markStep true false rep acc).1 = .error ∧ rep ∈ (markStep true false rep acc).2 := by
  simp [markStep]

theorem markStep_guarded_fires (rep : Report) (acc : Status × List Report) (h : acc.1 ≠ .error) :
    (markStep true true rep acc).1 = .error ∧ rep ∈ (markStep true true rep acc).2 := by
  simp [markStep, h]

theorem markStep_unset (guarded : Bool) (rep : Report) (acc : Status × List Report) :
    markStep false guarded rep acc = acc := by
  simp [markStep]

theorem lastInvalid_cons (c : ECase) (rest : List ECase) :
    lastInvalid (c :: rest) = if lastInvalid rest = [] then c.invalidHeaders else lastInvalid rest := by
  simp only [lastInvalid]
  cases lastInvalid rest <;> simp

theorem lastInvalid_ne_nil (cases : List ECase) (c : ECase) (hc : c ∈ cases) (hbad : c.invalidHeaders ≠ []) :
    lastInvalid cases ≠ [] := by
  induction cases with
  | nil => simp at hc
  | cons x rest ih =>
    rw [lastInvalid_cons]
    rcases List.mem_cons.mp hc with h | h
    · subst h
      split
      · exact hbad
      · assumption
    · have := ih h
      simp [this]

theorem invalidMark_repaired_mem (cases : List ECase) (c : ECase) (n : String) (hc : c ∈ cases)
    (hn : n ∈ c.invalidHeaders) : n ∈ invalidMark .repaired cases := by
  simp only [invalidMark, List.mem_flatMap]
  exact ⟨c, hc, hn⟩


/-! ### `Json.beq` is equality (needed for the keys of `unique_inputs`) -/
mutual
theorem beq_eq : ∀ a b : Json, Json.beq a b = true → a = b
  | .null, b, h => by cases b <;> simp_all [Json.beq]
  | .bool x, b, h => by cases b <;> simp_all [Json.beq]
  | .num m e, b, h => by cases b <;> simp_all [Json.beq]
  | .str s, b, h => by cases b <;> simp_all [Json.beq]
  | .arr xs, b, h => by
    cases b <;> simp_all [Json.beq]
    exact beqList_eq _ _ h
  | .obj xs, b, h => by
    cases b <;> simp_all [Json.beq]
    exact beqKvs_eq _ _ h
theorem beqList_eq : ∀ xs ys : List Json, Json.beqList xs ys = true → xs = ys
  | [], ys, h => by cases ys <;> simp_all [Json.beqList]
  | x :: xs, ys, h => by
    cases ys with
    | nil => simp_all [Json.beqList]
    | cons y ys =>
      simp [Json.beqList] at h
      rw [beq_eq x y h.1, beqList_eq xs ys h.2]
theorem beqKvs_eq : ∀ xs ys : List (String × Json), Json.beqKvs xs ys = true → xs = ys
  | [], ys, h => by cases ys <;> simp_all [Json.beqKvs]
  | (k, x) :: xs, ys, h => by
    cases ys with
    | nil => simp_all [Json.beqKvs]
    | cons y ys =>
      obtain ⟨k', y⟩ := y
      simp [Json.beqKvs] at h
      rw [h.1.1, beq_eq x y h.1.2, beqKvs_eq xs ys h.2]
end

mutual
theorem beq_refl : ∀ a : Json, Json.beq a a = true
  | .null => by simp [Json.beq]
  | .bool _ => by simp [Json.beq]
  | .num _ _ => by simp [Json.beq]
  | .str _ => by simp [Json.beq]
  | .arr xs => by simp [Json.beq]; exact beqList_refl xs
  | .obj kvs => by simp [Json.beq]; exact beqKvs_refl kvs
theorem beqList_refl : ∀ xs : List Json, Json.beqList xs xs = true
  | [] => by simp [Json.beqList]
  | x :: xs => by simp [Json.beqList, beq_refl x, beqList_refl xs]
theorem beqKvs_refl : ∀ xs : List (String × Json), Json.beqKvs xs xs = true
  | [] => by simp [Json.beqKvs]
  | (k, x) :: xs => by simp [Json.beqKvs, beq_refl x, beqKvs_refl xs]
end

instance : LawfulBEq Json where
  eq_of_beq h := beq_eq _ _ h
  rfl := beq_refl _

theorem sameReq_eq (a b : ECase) (h : sameReq a b = true) : a.params = b.params ∧ a.body = b.body := by
  simp only [sameReq, Bool.and_eq_true] at h
  exact ⟨eq_of_beq h.1, eq_of_beq h.2⟩

theorem sameReq_refl (a : ECase) : sameReq a a = true := by simp [sameReq]

theorem dedupKey_subset (key : ECase → ECase) (l : List ECase) : ∀ seen, ∀ c ∈ dedupKey key seen l, c ∈ l := by
  induction l with
  | nil => intro seen c hc; simp [dedupKey] at hc
  | cons d rest ih =>
    intro seen c hc
    simp only [dedupKey] at hc
    split at hc
    · exact List.mem_cons_of_mem _ (ih _ c hc)
    · rcases List.mem_cons.mp hc with h | h
      · exact h ▸ List.mem_cons_self
      · exact List.mem_cons_of_mem _ (ih _ c h)

theorem dedupKey_covers (key : ECase → ECase) (l : List ECase) :
    ∀ seen, ∀ c ∈ l, ∃ c' ∈ seen ++ dedupKey key seen l, sameReq (key c') (key c) = true := by
  induction l with
  | nil => intro seen c hc; simp at hc
  | cons d rest ih =>
    intro seen c hc
    simp only [dedupKey]
    by_cases hs : seen.any (fun x => sameReq (key x) (key d)) = true
    · simp only [hs, if_true]
      rcases List.mem_cons.mp hc with h | h
      · subst h
        obtain ⟨x, hx, hxe⟩ := List.any_eq_true.mp hs
        exact ⟨x, List.mem_append_left _ hx, hxe⟩
      · exact ih seen c h
    · have hs' : seen.any (fun x => sameReq (key x) (key d)) = false := by simpa using hs
      simp only [hs', Bool.false_eq_true, if_false]
      rcases List.mem_cons.mp hc with h | h
      · subst h
        exact ⟨c, by simp, sameReq_refl _⟩
      · obtain ⟨c', hc', he⟩ := ih (d :: seen) c h
        refine ⟨c', ?_, he⟩
        simp only [List.mem_append, List.mem_cons] at hc' ⊢
        rcases hc' with (h1 | h1) | h1
        · exact Or.inr (Or.inl h1)
        · exact Or.inl h1
        · exact Or.inr (Or.inr h1)

end SV.Proofs.C17
