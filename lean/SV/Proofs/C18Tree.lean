/-
  C18 — `ScenarioRecorder.find_related` on a well-formed recorder: for a current case without children it yields
  exactly the other cases of the same scenario tree.  Core Lean only.
-/
import SV.Model.C18

namespace SV.Proofs.C18Tree
open SV.Model.C18

/-- recorder well-formedness: case ids are distinct and every parent was recorded earlier -/
def WF (t : Tree) : Prop :=
  (t.map (·.id)).Nodup ∧
  ∀ i (h : i < t.length) p, (t[i]).parent = some p → ∃ j, j < i ∧ ∃ (hj : j < t.length), (t[j]).id = p

/-- no recorded case hangs below `c` -/
def IsLeaf (t : Tree) (c : Nat) : Prop := ∀ n ∈ t, n.parent ≠ some c

/-! ### distinct ids -/

theorem findNode_of_nodup (t : Tree) (hnd : (t.map (·.id)).Nodup) (n : Node) (hn : n ∈ t) :
    findNode t n.id = some n := by
  unfold findNode
  induction t with
  | nil => cases hn
  | cons x xs ih =>
    simp only [List.map_cons, List.nodup_cons] at hnd
    rcases List.mem_cons.1 hn with h | h
    · subst h
      simp
    · have hne : x.id ≠ n.id := by
        intro he
        apply hnd.1
        rw [he]
        exact List.mem_map.2 ⟨n, h, rfl⟩
      simp [hne, ih hnd.2 h]

theorem findNode_of_mem (t : Tree) (hwf : WF t) (n : Node) (hn : n ∈ t) : findNode t n.id = some n :=
  findNode_of_nodup t hwf.1 n hn

theorem findResponse_of_mem (t : Tree) (hwf : WF t) (n : Node) (hn : n ∈ t) :
    findResponse t n.id = n.status := by
  unfold findResponse
  rw [findNode_of_mem t hwf n hn]

theorem eq_of_id_eq (t : Tree) (hwf : WF t) (n m : Node) (hn : n ∈ t) (hm : m ∈ t) (h : n.id = m.id) :
    n = m := by
  have h1 := findNode_of_mem t hwf n hn
  have h2 := findNode_of_mem t hwf m hm
  rw [h, h2] at h1
  exact (Option.some.inj h1).symm

theorem idx_inj (t : Tree) (hwf : WF t) {i j : Nat} (hi : i < t.length) (hj : j < t.length)
    (h : t[i].id = t[j].id) : i = j := by
  have hnd := hwf.1
  rw [List.Nodup, List.pairwise_iff_getElem] at hnd
  rcases Nat.lt_trichotomy i j with hlt | heq | hgt
  · have := hnd i j (by simpa using hi) (by simpa using hj) hlt
    simp only [List.getElem_map] at this
    exact absurd h this
  · exact heq
  · have := hnd j i (by simpa using hj) (by simpa using hi) hgt
    simp only [List.getElem_map] at this
    exact absurd h.symm this

/-- the parent of a recorded case is a recorded case at a smaller index -/
theorem parent_idx (t : Tree) (hwf : WF t) {i : Nat} (hi : i < t.length) {p : Nat}
    (hp : t[i].parent = some p) : ∃ j, ∃ (hj : j < t.length), j < i ∧ t[j].id = p := by
  obtain ⟨j, hji, hj, hid⟩ := hwf.2 i hi p hp
  exact ⟨j, hj, hji, hid⟩

/-! ### climbing to the root -/

theorem rootOf_root (t : Tree) (x : Nat) (n : Node) (hf : findNode t x = some n) (hp : n.parent = none)
    (f : Nat) : rootOf t f x = x := by
  cases f <;> simp [rootOf, hf, hp]

theorem rootOf_step (t : Tree) (x p : Nat) (n : Node) (hf : findNode t x = some n) (hp : n.parent = some p)
    (f : Nat) : rootOf t (f + 1) x = rootOf t f p := by
  simp [rootOf, hf, hp]

/-- any fuel not below the index of a case climbs to the same root -/
theorem rootOf_stable (t : Tree) (hwf : WF t) :
    ∀ i (hi : i < t.length) f g, i ≤ f → i ≤ g → rootOf t f t[i].id = rootOf t g t[i].id := by
  intro i
  induction i using Nat.strongRecOn with
  | _ i ih =>
    intro hi f g hf hg
    have hfind := findNode_of_mem t hwf t[i] (List.getElem_mem hi)
    cases hp : t[i].parent with
    | none => rw [rootOf_root t _ _ hfind hp, rootOf_root t _ _ hfind hp]
    | some p =>
      obtain ⟨j, hj, hji, hid⟩ := parent_idx t hwf hi hp
      obtain ⟨f', rfl⟩ : ∃ f', f = f' + 1 := ⟨f - 1, by omega⟩
      obtain ⟨g', rfl⟩ : ∃ g', g = g' + 1 := ⟨g - 1, by omega⟩
      rw [rootOf_step t _ _ _ hfind hp, rootOf_step t _ _ _ hfind hp, ← hid]
      exact ih j hji hj f' g' (by omega) (by omega)

/-- the root of a case's scenario tree -/
abbrev R (t : Tree) (x : Nat) : Nat := rootOf t t.length x

theorem R_child (t : Tree) (hwf : WF t) (n : Node) (hn : n ∈ t) (p : Nat) (hp : n.parent = some p) :
    R t n.id = R t p := by
  obtain ⟨i, hi, rfl⟩ := List.getElem_of_mem hn
  have hfind := findNode_of_mem t hwf t[i] (List.getElem_mem hi)
  obtain ⟨j, hj, hji, hid⟩ := parent_idx t hwf hi hp
  unfold R
  obtain ⟨L, hL⟩ : ∃ L, t.length = L + 1 := ⟨t.length - 1, by omega⟩
  rw [hL, rootOf_step t _ _ _ hfind hp, ← hid]
  exact rootOf_stable t hwf j hj L (L + 1) (by omega) (by omega)

theorem R_root (t : Tree) (hwf : WF t) (n : Node) (hn : n ∈ t) (hp : n.parent = none) : R t n.id = n.id :=
  rootOf_root t _ _ (findNode_of_mem t hwf n hn) hp _

/-- the climb ends at a recorded case without parent -/
theorem R_is_root (t : Tree) (hwf : WF t) :
    ∀ i (hi : i < t.length), ∃ r ∈ t, r.parent = none ∧ R t t[i].id = r.id := by
  intro i
  induction i using Nat.strongRecOn with
  | _ i ih =>
    intro hi
    cases hp : t[i].parent with
    | none => exact ⟨t[i], List.getElem_mem hi, hp, R_root t hwf _ (List.getElem_mem hi) hp⟩
    | some p =>
      obtain ⟨j, hj, hji, hid⟩ := parent_idx t hwf hi hp
      obtain ⟨r, hr, hrp, hrr⟩ := ih j hji hj
      refine ⟨r, hr, hrp, ?_⟩
      rw [R_child t hwf _ (List.getElem_mem hi) p hp, ← hid]
      exact hrr

theorem R_idem (t : Tree) (hwf : WF t) (n : Node) (hn : n ∈ t) : R t (R t n.id) = R t n.id := by
  obtain ⟨i, hi, rfl⟩ := List.getElem_of_mem hn
  obtain ⟨r, hr, hrp, hrr⟩ := R_is_root t hwf i hi
  rw [hrr]
  exact R_root t hwf r hr hrp

/-! ### the traversal -/

/-- one iteration of the `for` loop inside `traverse` -/
def step (t : Tree) (fuel a : Nat) (acc : List Node × List Nat) (n : Node) : List Node × List Nat :=
  if n.parent == some a && !(acc.2.contains n.id) then
    let sub := traverse t fuel n.id (n.id :: acc.2)
    (acc.1 ++ [n] ++ sub.1, sub.2)
  else acc

theorem traverse_succ (t : Tree) (fuel a : Nat) (seen : List Nat) :
    traverse t (fuel + 1) a seen = t.foldl (step t fuel a) ([], seen) := by
  rw [traverse]
  rfl

theorem step_skip (t : Tree) (fuel a : Nat) (acc : List Node × List Nat) (n : Node)
    (h : ¬ (n.parent = some a ∧ n.id ∉ acc.2)) : step t fuel a acc n = acc := by
  unfold step
  have : (n.parent == some a && !(acc.2.contains n.id)) = false := by
    by_cases h1 : n.parent = some a
    · by_cases h2 : n.id ∈ acc.2
      · simp [h1, h2]
      · exact absurd ⟨h1, h2⟩ h
    · simp [h1]
  simp only [this, Bool.false_eq_true, ↓reduceIte]

theorem step_visit (t : Tree) (fuel a : Nat) (acc : List Node × List Nat) (n : Node)
    (h1 : n.parent = some a) (h2 : n.id ∉ acc.2) :
    step t fuel a acc n =
      (acc.1 ++ [n] ++ (traverse t fuel n.id (n.id :: acc.2)).1, (traverse t fuel n.id (n.id :: acc.2)).2) := by
  unfold step
  simp [h1, h2]

/-- what holds between an accumulator and a later accumulator, for any fuel -/
structure Sound (t : Tree) (a : Nat) (acc r : List Node × List Nat) : Prop where
  mono : ∀ x ∈ acc.2, x ∈ r.2
  keep : ∀ n ∈ acc.1, n ∈ r.1
  fresh : ∀ n ∈ r.1, n ∈ acc.1 ∨ (n ∈ t ∧ n.id ∉ acc.2 ∧ R t n.id = R t a)
  seen : ∀ x ∈ r.2, x ∈ acc.2 ∨ ∃ n ∈ r.1, n.id = x

theorem Sound.refl (t : Tree) (a : Nat) (acc : List Node × List Nat) : Sound t a acc acc :=
  ⟨fun _ h => h, fun _ h => h, fun _ h => .inl h, fun _ h => .inl h⟩

theorem Sound.trans {t : Tree} {a : Nat} {acc acc' r : List Node × List Nat}
    (h1 : Sound t a acc acc') (h2 : Sound t a acc' r) : Sound t a acc r := by
  refine ⟨fun x h => h2.mono x (h1.mono x h), fun n h => h2.keep n (h1.keep n h), ?_, ?_⟩
  · intro n hn
    rcases h2.fresh n hn with h | ⟨ht, hs, hr⟩
    · exact h1.fresh n h
    · exact .inr ⟨ht, fun hx => hs (h1.mono _ hx), hr⟩
  · intro x hx
    rcases h2.seen x hx with h | h
    · rcases h1.seen x h with h' | ⟨n, hn, hid⟩
      · exact .inl h'
      · exact .inr ⟨n, h2.keep n hn, hid⟩
    · exact .inr h

theorem step_sound (t : Tree) (hwf : WF t) (fuel a : Nat)
    (ih : ∀ b seen, Sound t b ([], seen) (traverse t fuel b seen))
    (acc : List Node × List Nat) (n : Node) (hn : n ∈ t) : Sound t a acc (step t fuel a acc n) := by
  by_cases h : n.parent = some a ∧ n.id ∉ acc.2
  · obtain ⟨h1, h2⟩ := h
    rw [step_visit t fuel a acc n h1 h2]
    have hs := ih n.id (n.id :: acc.2)
    have hR := R_child t hwf n hn a h1
    refine ⟨?_, ?_, ?_, ?_⟩
    · intro x hx
      exact hs.mono x (List.mem_cons_of_mem _ hx)
    · intro m hm
      simp [hm]
    · intro m hm
      simp only [List.append_assoc, List.mem_append, List.mem_cons, List.not_mem_nil, or_false] at hm
      rcases hm with hm | hm | hm
      · exact .inl hm
      · subst hm
        exact .inr ⟨hn, h2, hR⟩
      · rcases hs.fresh m hm with h | ⟨ht, hns, hr⟩
        · cases h
        · refine .inr ⟨ht, fun hx => hns (List.mem_cons_of_mem _ hx), ?_⟩
          rw [hr, hR]
    · intro x hx
      rcases hs.seen x hx with h | ⟨m, hm, hid⟩
      · rcases List.mem_cons.1 h with h | h
        · exact .inr ⟨n, by simp, h.symm⟩
        · exact .inl h
      · exact .inr ⟨m, by simp [hm], hid⟩
  · rw [step_skip t fuel a acc n h]
    exact Sound.refl t a acc

theorem foldl_sound' (t : Tree) (hwf : WF t) (fuel a : Nat)
    (ih : ∀ b seen, Sound t b ([], seen) (traverse t fuel b seen)) :
    ∀ (l : List Node), (∀ n ∈ l, n ∈ t) → ∀ acc, Sound t a acc (l.foldl (step t fuel a) acc) := by
  intro l
  induction l with
  | nil => intro _ acc; exact Sound.refl t a acc
  | cons n l ihl =>
    intro hl acc
    rw [List.foldl_cons]
    exact (step_sound t hwf fuel a ih acc n (hl n (by simp))).trans
      (ihl (fun m hm => hl m (by simp [hm])) _)

theorem traverse_sound (t : Tree) (hwf : WF t) :
    ∀ fuel a seen, Sound t a ([], seen) (traverse t fuel a seen) := by
  intro fuel
  induction fuel with
  | zero => intro a seen; exact Sound.refl t a _
  | succ fuel ih =>
    intro a seen
    rw [traverse_succ]
    exact foldl_sound' t hwf fuel a ih t (fun _ h => h) _

theorem foldl_sound (t : Tree) (hwf : WF t) (fuel a : Nat) (l : List Node) (hl : ∀ n ∈ l, n ∈ t)
    (acc : List Node × List Nat) : Sound t a acc (l.foldl (step t fuel a) acc) :=
  foldl_sound' t hwf fuel a (traverse_sound t hwf fuel) l hl acc

/-! ### enough fuel: every child gets visited -/

/-- the fuel exceeds the number of cases recorded from the first child of `a` on -/
def Fuel (t : Tree) (fuel a : Nat) : Prop :=
  ∀ i (h : i < t.length), t[i].parent = some a → t.length < fuel + i

theorem Fuel.child {t : Tree} (hwf : WF t) {fuel a : Nat} (hf : Fuel t (fuel + 1) a) (n : Node) (hn : n ∈ t)
    (hp : n.parent = some a) : Fuel t fuel n.id := by
  obtain ⟨i, hi, rfl⟩ := List.getElem_of_mem hn
  intro k hk hkp
  obtain ⟨j, hj, hjk, hid⟩ := parent_idx t hwf hk hkp
  have : j = i := idx_inj t hwf hj hi hid
  have := hf i hi hp
  omega

/-- children of `a` among `l` are seen; everything newly seen has all its children seen -/
structure Closed (t : Tree) (a : Nat) (l : List Node) (acc r : List Node × List Nat) : Prop where
  kids : ∀ c ∈ l, c.parent = some a → c.id ∈ r.2
  closed : ∀ x ∈ r.2, x ∉ acc.2 → ∀ c ∈ t, c.parent = some x → c.id ∈ r.2

theorem foldl_closed (t : Tree) (hwf : WF t) (fuel a : Nat) (hf : Fuel t (fuel + 1) a)
    (ih : ∀ b seen, Fuel t fuel b → Closed t b t ([], seen) (traverse t fuel b seen)) :
    ∀ (l : List Node), (∀ n ∈ l, n ∈ t) → ∀ acc, Closed t a l acc (l.foldl (step t fuel a) acc) := by
  intro l
  induction l with
  | nil =>
    intro _ acc
    exact ⟨fun _ h => (by cases h), fun x hx hnx => absurd hx hnx⟩
  | cons n l ihl =>
    intro hl acc
    rw [List.foldl_cons]
    have hnt : n ∈ t := hl n (by simp)
    have hlt : ∀ m ∈ l, m ∈ t := fun m hm => hl m (by simp [hm])
    have hrest := ihl hlt (step t fuel a acc n)
    have hmono := foldl_sound t hwf fuel a l hlt (step t fuel a acc n)
    by_cases h : n.parent = some a ∧ n.id ∉ acc.2
    · obtain ⟨h1, h2⟩ := h
      have hsub := ih n.id (n.id :: acc.2) (hf.child hwf n hnt h1)
      have hsubs := traverse_sound t hwf fuel n.id (n.id :: acc.2)
      rw [step_visit t fuel a acc n h1 h2] at hrest hmono ⊢
      refine ⟨?_, ?_⟩
      · intro c hc hcp
        rcases List.mem_cons.1 hc with hc | hc
        · subst hc
          exact hmono.mono _ (hsubs.mono _ (by simp))
        · exact hrest.kids c hc hcp
      · intro x hx hnx c hc hcp
        by_cases hxs : x ∈ (traverse t fuel n.id (n.id :: acc.2)).2
        · apply hmono.mono
          by_cases hxn : x = n.id
          · subst hxn
            exact hsub.kids c hc hcp
          · exact hsub.closed x hxs (by simp [hxn, hnx]) c hc hcp
        · exact hrest.closed x hx hxs c hc hcp
    · rw [step_skip t fuel a acc n h] at hrest hmono ⊢
      refine ⟨?_, hrest.closed⟩
      intro c hc hcp
      rcases List.mem_cons.1 hc with hc | hc
      · subst hc
        have : c.id ∈ acc.2 := by
          by_cases hm : c.id ∈ acc.2
          · exact hm
          · exact absurd ⟨hcp, hm⟩ h
        exact hmono.mono _ this
      · exact hrest.kids c hc hcp

theorem traverse_closed (t : Tree) (hwf : WF t) :
    ∀ fuel a seen, Fuel t fuel a → Closed t a t ([], seen) (traverse t fuel a seen) := by
  intro fuel
  induction fuel with
  | zero =>
    intro a seen hf
    refine ⟨?_, ?_⟩
    · intro c hc hcp
      obtain ⟨i, hi, rfl⟩ := List.getElem_of_mem hc
      have := hf i hi hcp
      omega
    · intro x hx hnx
      exact absurd hx hnx
  | succ fuel ih =>
    intro a seen hf
    rw [traverse_succ]
    exact foldl_closed t hwf fuel a hf ih t (fun _ h => h) _

/-! ### `find_related` -/

theorem fuel_init (t : Tree) (a : Nat) : Fuel t (t.length + 1) a := by
  intro i _ _
  omega

/-- with the full fuel, every case whose root is `root` is `root` itself or gets seen, provided the initial `seen`
    holds nothing but the root and a leaf -/
theorem reach (t : Tree) (hwf : WF t) (cur root : Nat) (hleaf : IsLeaf t cur) (seen0 : List Nat)
    (hs0 : ∀ x ∈ seen0, x = root ∨ x = cur) :
    ∀ i (hi : i < t.length), R t t[i].id = root →
      t[i].id = root ∨ t[i].id ∈ (traverse t (t.length + 1) root seen0).2 := by
  have hcl := traverse_closed t hwf (t.length + 1) root seen0 (fuel_init t root)
  intro i
  induction i using Nat.strongRecOn with
  | _ i ih =>
    intro hi hr
    have hmem : t[i] ∈ t := List.getElem_mem hi
    cases hp : t[i].parent with
    | none =>
      left
      rw [← hr, R_root t hwf _ hmem hp]
    | some p =>
      right
      obtain ⟨j, hj, hji, hid⟩ := parent_idx t hwf hi hp
      have hrp : R t t[j].id = root := by
        rw [hid, ← R_child t hwf _ hmem p hp]
        exact hr
      rcases ih j hji hj hrp with h | h
      · exact hcl.kids _ hmem (by rw [hp, ← hid, h])
      · by_cases hin : t[j].id ∈ seen0
        · rcases hs0 _ hin with h' | h'
          · exact hcl.kids _ hmem (by rw [hp, ← hid, h'])
          · exact absurd (by rw [hp, ← hid, h']) (hleaf _ hmem)
        · exact hcl.closed _ h hin _ hmem (by rw [hp, hid])

theorem findRelated_eq (t : Tree) (cur : Nat) (r : Node) (hr : findNode t (R t cur) = some r) :
    findRelated t cur =
      if R t cur = cur then (traverse t (t.length + 1) (R t cur) [cur]).1
      else r :: (traverse t (t.length + 1) (R t cur) [R t cur, cur]).1 := by
  unfold findRelated
  simp only [R] at hr ⊢
  simp only [hr]
  by_cases h : rootOf t t.length cur = cur
  · simp [h]
  · simp [h]

theorem findRelated_mem (t : Tree) (cur : Nat) (hwf : WF t) (hcur : ∃ n ∈ t, n.id = cur) (hleaf : IsLeaf t cur)
    (n : Node) :
    n ∈ findRelated t cur ↔ (n ∈ t ∧ n.id ≠ cur ∧ rootOf t t.length n.id = rootOf t t.length cur) := by
  obtain ⟨c, hc, rfl⟩ := hcur
  obtain ⟨i, hi, hci⟩ := List.getElem_of_mem hc
  obtain ⟨r, hrt, hrp, hrr⟩ := R_is_root t hwf i hi
  rw [hci] at hrr
  have hfind : findNode t (R t c.id) = some r := by
    rw [hrr]
    exact findNode_of_mem t hwf r hrt
  have hidem := R_idem t hwf c hc
  rw [findRelated_eq t c.id r hfind]
  show _ ↔ (n ∈ t ∧ n.id ≠ c.id ∧ R t n.id = R t c.id)
  by_cases hroot : R t c.id = c.id
  · -- the current case is its own root
    simp only [hroot, if_true]
    have hs := traverse_sound t hwf (t.length + 1) c.id [c.id]
    constructor
    · intro hn
      rcases hs.fresh n hn with h | ⟨h1, h2, h3⟩
      · cases h
      · exact ⟨h1, by simpa using h2, by rw [h3, hroot]⟩
    · rintro ⟨hnt, hne, hR⟩
      obtain ⟨k, hk, rfl⟩ := List.getElem_of_mem hnt
      have := reach t hwf c.id c.id hleaf [c.id] (by simp) k hk hR
      rcases this with h | h
      · exact absurd h hne
      · rcases hs.seen _ h with h' | ⟨m, hm, hid⟩
        · exact absurd (by simpa using h') hne
        · rcases hs.fresh m hm with h'' | ⟨h1, _, _⟩
          · cases h''
          · rw [← eq_of_id_eq t hwf m _ h1 hnt hid]
            exact hm
  · simp only [hroot, if_false]
    have hs := traverse_sound t hwf (t.length + 1) (R t c.id) [R t c.id, c.id]
    constructor
    · intro hn
      rcases List.mem_cons.1 hn with h | h
      · subst h
        refine ⟨hrt, ?_, ?_⟩
        · rw [← hrr]; exact hroot
        · rw [← hrr, hidem]
      · rcases hs.fresh n h with h | ⟨h1, h2, h3⟩
        · cases h
        · refine ⟨h1, ?_, by rw [h3, hidem]⟩
          intro he
          exact h2 (by simp [he])
    · rintro ⟨hnt, hne, hR⟩
      have hroot_case : n.id = R t c.id → n ∈ r :: (traverse t (t.length + 1) (R t c.id) [R t c.id, c.id]).1 := by
        intro h
        have : n = r := eq_of_id_eq t hwf n r hnt hrt (by rw [h, hrr])
        simp [this]
      obtain ⟨k, hk, hnk⟩ := List.getElem_of_mem hnt
      have := reach t hwf c.id (R t c.id) hleaf [R t c.id, c.id] (by simp) k hk (by rw [hnk, hR])
      rw [hnk] at this
      rcases this with h | h
      · exact hroot_case h
      · rcases hs.seen _ h with h' | ⟨m, hm, hid⟩
        · simp only [List.mem_cons, List.not_mem_nil, or_false] at h'
          rcases h' with h' | h'
          · exact hroot_case h'
          · exact absurd h' hne
        · rcases hs.fresh m hm with h'' | ⟨h1, _, _⟩
          · cases h''
          · rw [← eq_of_id_eq t hwf m n h1 hnt hid]
            exact List.mem_cons_of_mem _ hm

end SV.Proofs.C18Tree
