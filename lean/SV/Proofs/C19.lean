/-
  Helper lemmas for C19 (not property statements): the refinement relation between the heap-and-closure machine
  (repaired variant) and the aliasing-free reference machine, and the history reading of the reference machine.
-/
import SV.Spec.C19

namespace SV.Proofs.C19
open SV.Model.C19 SV.Spec.C19

@[simp] theorem upd_same {α} (f : Nat → α) (k : Nat) (v : α) : upd f k v k = v := by simp [upd]
theorem upd_other {α} (f : Nat → α) (k x : Nat) (v : α) (h : x ≠ k) : upd f k v x = f x := by simp [upd, h]

/-! ## refinement: repaired closure machine ⊑ reference machine -/

/-- Separation-style relation: every `register` owns one live set (`outer = proxy`), every decorator owns one,
    all of them distinct; a function-form hook points to a set nobody can write any more. -/
structure Rel (c : St) (a : ASt) : Prop where
  nM : c.nM = a.nM
  mDisp : c.mDisp = a.mDisp
  hooks : c.hooks = a.hooks
  nD : c.nD = a.nD
  dM : ∀ d, d < c.nD → c.dM d = a.dM d
  dName : ∀ d, d < c.nD → c.dName d = a.dName d
  dDead : ∀ d, d < c.nD → c.dDead d = a.dDead d
  pendLt : ∀ m, m < c.nM → c.outer m < c.next
  pendVal : ∀ m, m < c.nM → c.heap (c.outer m) = a.pend m
  proxyEq : ∀ m, m < c.nM → c.proxy m = c.outer m
  pendInj : ∀ m m', m < c.nM → m' < c.nM → c.outer m = c.outer m' → m = m'
  dLt : ∀ d, d < c.nD → c.dOwn d < c.next
  dVal : ∀ d, d < c.nD → c.heap (c.dOwn d) = a.dFs d
  dProxyEq : ∀ d, d < c.nD → c.dProxy d = c.dOwn d
  dMlt : ∀ d, d < c.nD → c.dM d < c.nM
  dPend : ∀ d m, d < c.nD → m < c.nM → c.outer m ≠ c.dOwn d
  dInj : ∀ d d', d < c.nD → d' < c.nD → c.dOwn d = c.dOwn d' → d = d'
  hNone : ∀ h, c.attr h = none ↔ a.filt h = none
  hVal : ∀ h x v, c.attr h = some x → a.filt h = some (.val v) →
    x < c.next ∧ c.heap x = v ∧ (∀ m, m < c.nM → c.outer m ≠ x) ∧ (∀ d, d < c.nD → c.dOwn d ≠ x)
  hDeco : ∀ h x d, c.attr h = some x → a.filt h = some (.deco d) → d < c.nD ∧ c.dOwn d = x

theorem rel_init (n : Nat) (disp : Nat → Nat) : Rel (init n disp) (ainit n disp) := by
  constructor <;> simp [init, ainit]

theorem rel_regApply (c : St) (a : ASt) (m : Nat) (incl : Bool) (f : Nat) (h : Rel c a) :
    Rel (step .repaired c (.regApply m incl f)).1 (astep a (.regApply m incl f)).1 ∧
    (step .repaired c (.regApply m incl f)).2 = (astep a (.regApply m incl f)).2 := by
  obtain ⟨h1, h2, h3, h4, h5, h6, h6d, h7, h8, h9, h10, h11, h12, h13, h14, h15, h16, h17, h18, h19⟩ := h
  simp only [step, astep]
  by_cases hm : m < c.nM
  · have hm' : m < a.nM := h1 ▸ hm
    simp only [hm, hm', if_true, reduceCtorEq, if_false, proxyWrite, h9 m hm, h8 m hm]
    cases hadd : (a.pend m).add incl f with
    | none =>
      simp
      constructor <;> assumption
    | some v =>
      simp
      constructor <;> (try simp only []) <;> grind [upd]
  · have hm' : ¬ m < a.nM := h1 ▸ hm
    simp [hm, hm']
    constructor <;> assumption

theorem rel_registerFn (c : St) (a : ASt) (m hk : Nat) (n : HookName) (h : Rel c a) :
    Rel (step .repaired c (.registerFn m hk n)).1 (astep a (.registerFn m hk n)).1 ∧
    (step .repaired c (.registerFn m hk n)).2 = (astep a (.registerFn m hk n)).2 := by
  obtain ⟨h1, h2, h3, h4, h5, h6, h6d, h7, h8, h9, h10, h11, h12, h13, h14, h15, h16, h17, h18, h19⟩ := h
  simp only [step, astep]
  by_cases hm : m < c.nM
  · have hm' : m < a.nM := h1 ▸ hm
    have hne : c.outer m ≠ c.next := by have := h7 m hm; omega
    simp only [hm, hm', if_true, freshSet, upd_other _ _ _ _ hne, h8 m hm]
    by_cases hv : (!(a.pend m).isEmpty && !n.filterable) = true
    · simp only [hv, if_true]
      refine ⟨?_, trivial⟩
      constructor <;> (try simp only []) <;> grind [upd]
    · simp only [hv]
      refine ⟨?_, by simp⟩
      constructor <;> simp only [addHook, aaddHook] <;> grind [upd]
  · have hm' : ¬ m < a.nM := h1 ▸ hm
    simp [hm, hm']
    constructor <;> assumption

theorem rel_registerName (c : St) (a : ASt) (m : Nat) (n : HookName) (h : Rel c a) :
    Rel (step .repaired c (.registerName m n)).1 (astep a (.registerName m n)).1 ∧
    (step .repaired c (.registerName m n)).2 = (astep a (.registerName m n)).2 := by
  obtain ⟨h1, h2, h3, h4, h5, h6, h6d, h7, h8, h9, h10, h11, h12, h13, h14, h15, h16, h17, h18, h19⟩ := h
  simp only [step, astep]
  by_cases hm : m < c.nM
  · have hm' : m < a.nM := h1 ▸ hm
    have hne : c.outer m ≠ c.next := by have := h7 m hm; omega
    simp only [hm, hm', if_true, freshSet, upd_other _ _ _ _ hne, h8 m hm]
    by_cases hv : (!(a.pend m).isEmpty && !n.filterable) = true
    · simp only [hv, if_true]
      refine ⟨?_, trivial⟩
      constructor <;> (try simp only []) <;> grind [upd]
    · simp only [hv]
      refine ⟨?_, by simp [h4]⟩
      constructor <;> (try simp only []) <;> grind [upd]
  · have hm' : ¬ m < a.nM := h1 ▸ hm
    simp [hm, hm']
    constructor <;> assumption

theorem rel_decoApply (c : St) (a : ASt) (d : Nat) (incl : Bool) (f : Nat) (h : Rel c a) :
    Rel (step .repaired c (.decoApply d incl f)).1 (astep a (.decoApply d incl f)).1 ∧
    (step .repaired c (.decoApply d incl f)).2 = (astep a (.decoApply d incl f)).2 := by
  obtain ⟨h1, h2, h3, h4, h5, h6, h6d, h7, h8, h9, h10, h11, h12, h13, h14, h15, h16, h17, h18, h19⟩ := h
  simp only [step, astep]
  by_cases hd : d < c.nD
  · have hd' : d < a.nD := h4 ▸ hd
    rw [h6d d hd]
    by_cases hdead : a.dDead d = true
    · simp [hd, hd', hdead]
      constructor <;> assumption
    simp only [hd, hd', hdead, decide_true, Bool.not_false, Bool.and_self, if_true, reduceCtorEq, if_false, proxyWrite,
      h13 d hd, h12 d hd]
    cases hadd : (a.dFs d).add incl f with
    | none =>
      simp
      constructor <;> assumption
    | some v =>
      simp
      constructor <;> (try simp only []) <;> grind [upd]
  · have hd' : ¬ d < a.nD := h4 ▸ hd
    simp [hd, hd']
    constructor <;> assumption

theorem rel_decorate (c : St) (a : ASt) (d hk : Nat) (h : Rel c a) :
    Rel (step .repaired c (.decorate d hk)).1 (astep a (.decorate d hk)).1 ∧
    (step .repaired c (.decorate d hk)).2 = (astep a (.decorate d hk)).2 := by
  obtain ⟨h1, h2, h3, h4, h5, h6, h6d, h7, h8, h9, h10, h11, h12, h13, h14, h15, h16, h17, h18, h19⟩ := h
  simp only [step, astep]
  by_cases hd : d < c.nD
  · have hd' : d < a.nD := h4 ▸ hd
    rw [h6d d hd]
    by_cases hdead : a.dDead d = true
    · simp [hd, hd', hdead]
      constructor <;> assumption
    simp only [hd, hd', hdead, decide_true, Bool.not_false, Bool.and_self, if_true, h12 d hd, h6 d hd,
      h5 d hd, h2]
    by_cases hv : (!(a.dFs d).isEmpty && !(a.dName d).filterable) = true
    · simp only [hv, if_true]
      refine ⟨?_, trivial⟩
      constructor <;> assumption
    · simp only [hv]
      refine ⟨?_, by simp⟩
      constructor <;> simp only [addHook, aaddHook] <;> grind [upd]
  · have hd' : ¬ d < a.nD := h4 ▸ hd
    simp [hd, hd']
    constructor <;> assumption

theorem rel_other (c : St) (a : ASt) (h : Rel c a) :
    (∀ disp hk n, Rel (step .repaired c (.applyHook disp hk n)).1 (astep a (.applyHook disp hk n)).1) ∧
    (∀ disp hk, Rel (step .repaired c (.unregister disp hk)).1 (astep a (.unregister disp hk)).1) ∧
    (∀ disp, Rel (step .repaired c (.unregisterAll disp)).1 (astep a (.unregisterAll disp)).1) := by
  obtain ⟨h1, h2, h3, h4, h5, h6, h6d, h7, h8, h9, h10, h11, h12, h13, h14, h15, h16, h17, h18, h19⟩ := h
  refine ⟨?_, ?_, ?_⟩ <;> intros <;> simp only [step, astep, addHook, aaddHook] <;> constructor <;>
    first | assumption | (simp only [h3])

theorem rel_step (c : St) (a : ASt) (op : Op) (h : Rel c a) :
    Rel (step .repaired c op).1 (astep a op).1 ∧ (step .repaired c op).2 = (astep a op).2 := by
  cases op with
  | regApply m incl f => exact rel_regApply c a m incl f h
  | registerFn m hk n => exact rel_registerFn c a m hk n h
  | registerName m n => exact rel_registerName c a m n h
  | decoApply d incl f => exact rel_decoApply c a d incl f h
  | decorate d hk => exact rel_decorate c a d hk h
  | applyHook disp hk n => exact ⟨(rel_other c a h).1 disp hk n, rfl⟩
  | unregister disp hk => exact ⟨(rel_other c a h).2.1 disp hk, rfl⟩
  | unregisterAll disp => exact ⟨(rel_other c a h).2.2 disp, rfl⟩

theorem rel_run (c : St) (a : ASt) (ops : List Op) (h : Rel c a) :
    Rel (run .repaired c ops) (arun a ops) ∧ outs .repaired c ops = aouts a ops := by
  induction ops generalizing c a with
  | nil => exact ⟨h, rfl⟩
  | cons op ops ih =>
    obtain ⟨h1, h2⟩ := rel_step c a op h
    obtain ⟨h3, h4⟩ := ih _ _ h1
    exact ⟨h3, by simp [outs, aouts, h2, h4]⟩

/-- related states expose the same filter for every hook -/
theorem rel_filterOf (c : St) (a : ASt) (h : Rel c a) (hk : Nat) : filterOf c hk = afilterOf a hk := by
  unfold filterOf afilterOf
  cases hc : c.attr hk with
  | none => simp [(h.hNone hk).1 hc]
  | some x =>
    cases ha : a.filt hk with
    | none => rw [(h.hNone hk).2 ha] at hc; cases hc
    | some src =>
      cases src with
      | val v => simp [(h.hVal hk x v hc ha).2.1]
      | deco d =>
        obtain ⟨hd, hx⟩ := h.hDeco hk x d hc ha
        simp [← hx, h.dVal d hd]

theorem run_append (v : V25) (s : St) (xs ys : List Op) : run v s (xs ++ ys) = run v (run v s xs) ys := by
  induction xs generalizing s with
  | nil => rfl
  | cons x xs ih => simp [run, ih]

theorem arun_append (s : ASt) (xs ys : List Op) : arun s (xs ++ ys) = arun (arun s xs) ys := by
  induction xs generalizing s with
  | nil => rfl
  | cons x xs ih => simp [arun, ih]

/-! ## history reading of the reference machine -/

theorem addAll_append (s : FS) (xs ys : List (Bool × Nat)) : addAll s (xs ++ ys) = addAll (addAll s xs) ys := by
  induction xs generalizing s with
  | nil => rfl
  | cons x xs ih => obtain ⟨i, f⟩ := x; simp [addAll, ih]

theorem astep_nM (a : ASt) (op : Op) : (astep a op).1.nM = a.nM := by
  cases op <;> simp only [astep] <;> (repeat' split) <;> rfl

theorem astep_nD_le (a : ASt) (op : Op) : a.nD ≤ (astep a op).1.nD := by
  cases op <;> simp only [astep] <;> (repeat' split) <;> simp [aaddHook]

theorem arun_nM (a : ASt) (ops : List Op) : (arun a ops).nM = a.nM := by
  induction ops generalizing a with
  | nil => rfl
  | cons op ops ih => simp [arun, ih, astep_nM]

theorem astep_pend (a : ASt) (op : Op) (m : Nat) (acc : List (Bool × Nat)) (hm : m < a.nM)
    (h : a.pend m = addAll FS.empty acc) :
    (astep a op).1.pend m = addAll FS.empty (pendingWrites m acc [op]) := by
  cases op with
  | regApply m' incl f =>
    simp only [astep, pendingWrites]
    by_cases hm' : m' < a.nM
    · simp only [hm', if_true]
      by_cases e : m' = m
      · subst e
        simp only [if_true, addAll_append, ← h, addAll]
        cases hadd : (a.pend m').add incl f <;> simp
      · have : m ≠ m' := fun x => e x.symm
        cases hadd : (a.pend m').add incl f <;> simp [e, h, upd_other _ _ _ _ this]
    · simp only [hm', if_false]
      by_cases e : m' = m
      · subst e; exact absurd hm hm'
      · simp [e, h]
  | registerFn m' hk n =>
    simp only [astep, pendingWrites]
    by_cases hm' : m' < a.nM
    · by_cases e : m' = m
      · subst e; simp only [hm', if_true]; split <;> simp [addAll, aaddHook]
      · have : m ≠ m' := fun x => e x.symm
        simp only [hm', if_true, e, if_false]; split <;> simp [aaddHook, h, upd_other _ _ _ _ this]
    · simp only [hm', if_false]
      by_cases e : m' = m
      · subst e; exact absurd hm hm'
      · simp [e, h]
  | registerName m' n =>
    simp only [astep, pendingWrites]
    by_cases hm' : m' < a.nM
    · by_cases e : m' = m
      · subst e; simp only [hm', if_true]; split <;> simp [addAll]
      · have : m ≠ m' := fun x => e x.symm
        simp only [hm', if_true, e, if_false]; split <;> simp [h, upd_other _ _ _ _ this]
    · simp only [hm', if_false]
      by_cases e : m' = m
      · subst e; exact absurd hm hm'
      · simp [e, h]
  | decoApply d incl f =>
    simp only [astep, pendingWrites]; (repeat' split) <;> simp [h]
  | decorate d hk =>
    simp only [astep, pendingWrites]; (repeat' split) <;> simp [h, aaddHook]
  | applyHook d hk n => simp [astep, pendingWrites, h, aaddHook]
  | unregister d hk => simp [astep, pendingWrites, h]
  | unregisterAll d => simp [astep, pendingWrites, h]

theorem pendingWrites_cons (m : Nat) (acc : List (Bool × Nat)) (op : Op) (ops : List Op) :
    pendingWrites m acc (op :: ops) = pendingWrites m (pendingWrites m acc [op]) ops := by
  cases op <;> simp [pendingWrites]

/-- `pend m` of the reference machine = the filters chained on `register` since its last call -/
theorem arun_pend (a : ASt) (ops : List Op) (m : Nat) (acc : List (Bool × Nat)) (hm : m < a.nM)
    (h : a.pend m = addAll FS.empty acc) :
    (arun a ops).pend m = addAll FS.empty (pendingWrites m acc ops) := by
  induction ops generalizing a acc with
  | nil => simpa [arun, pendingWrites] using h
  | cons op ops ih =>
    rw [arun, pendingWrites_cons]
    exact ih _ _ (by rw [astep_nM]; exact hm) (astep_pend a op m acc hm h)

/-- an op that does not re-register `h` leaves its source alone -/
theorem astep_filt_frame (a : ASt) (op : Op) (hk : Nat) (hno : noReReg hk [op] = true) :
    (astep a op).1.filt hk = a.filt hk := by
  cases op with
  | registerFn m h' n =>
    have : hk ≠ h' := by simp [noReReg] at hno; exact fun e => hno e.symm
    simp only [astep]; (repeat' split) <;> simp [aaddHook, upd_other _ _ _ _ this]
  | decorate d h' =>
    have : hk ≠ h' := by simp [noReReg] at hno; exact fun e => hno e.symm
    simp only [astep]; (repeat' split) <;> simp [aaddHook, upd_other _ _ _ _ this]
  | regApply m incl f => simp only [astep]; (repeat' split) <;> rfl
  | registerName m n => simp only [astep]; (repeat' split) <;> rfl
  | decoApply d incl f => simp only [astep]; (repeat' split) <;> rfl
  | applyHook d h' n => rfl
  | unregister d h' => rfl
  | unregisterAll d => rfl

theorem noReReg_cons (hk : Nat) (op : Op) (ops : List Op) :
    noReReg hk (op :: ops) = (noReReg hk [op] && noReReg hk ops) := by
  cases op <;> simp [noReReg]

theorem arun_filt_frame (a : ASt) (ops : List Op) (hk : Nat) (hno : noReReg hk ops = true) :
    (arun a ops).filt hk = a.filt hk := by
  induction ops generalizing a with
  | nil => rfl
  | cons op ops ih =>
    rw [noReReg_cons, Bool.and_eq_true] at hno
    rw [arun, ih _ hno.2, astep_filt_frame a op hk hno.1]

/-- the value of a (live) decorator `d` only changes by what is chained on `d` -/
theorem astep_dFs (a : ASt) (op : Op) (d : Nat) (hd : d < a.nD) (hl : a.dDead d = false) :
    (astep a op).1.dFs d = addAll (a.dFs d) (decoWrites d [op]) := by
  cases op with
  | decoApply d' incl f =>
    simp only [astep, decoWrites]
    by_cases hd' : d' < a.nD
    · by_cases e : d' = d
      · subst e
        cases hadd : (a.dFs d').add incl f <;> simp [addAll, hadd, hd', hl]
      · have : d ≠ d' := fun x => e x.symm
        by_cases hdd : a.dDead d' = true
        · simp [hd', hdd, e, addAll]
        · cases hadd : (a.dFs d').add incl f <;> simp [hd', hdd, e, addAll, upd_other _ _ _ _ this]
    · by_cases e : d' = d
      · subst e; exact absurd hd hd'
      · simp [hd', e, addAll]
  | registerName m n =>
    have : d ≠ a.nD := by omega
    simp only [astep, decoWrites]; (repeat' split) <;> simp [addAll, upd_other _ _ _ _ this]
  | regApply m incl f => simp only [astep, decoWrites]; (repeat' split) <;> simp [addAll]
  | registerFn m h' n => simp only [astep, decoWrites]; (repeat' split) <;> simp [addAll, aaddHook]
  | decorate d' h' => simp only [astep, decoWrites]; (repeat' split) <;> simp [addAll, aaddHook]
  | applyHook d' h' n => simp [astep, decoWrites, addAll, aaddHook]
  | unregister d' h' => simp [astep, decoWrites, addAll]
  | unregisterAll d' => simp [astep, decoWrites, addAll]

theorem astep_dDead (a : ASt) (op : Op) (d : Nat) (hd : d < a.nD) : (astep a op).1.dDead d = a.dDead d := by
  have : d ≠ a.nD := by omega
  cases op <;> simp only [astep] <;> (repeat' split) <;> simp [aaddHook, upd_other _ _ _ _ this]

theorem decoWrites_cons (d : Nat) (op : Op) (ops : List Op) :
    decoWrites d (op :: ops) = decoWrites d [op] ++ decoWrites d ops := by
  cases op <;> simp [decoWrites]
  split <;> simp

theorem arun_dFs (a : ASt) (ops : List Op) (d : Nat) (hd : d < a.nD) (hl : a.dDead d = false) :
    (arun a ops).dFs d = addAll (a.dFs d) (decoWrites d ops) := by
  induction ops generalizing a with
  | nil => simp [arun, decoWrites, addAll]
  | cons op ops ih =>
    rw [arun, decoWrites_cons, addAll_append, ih _ (Nat.lt_of_lt_of_le hd (astep_nD_le a op))
      (by rw [astep_dDead a op d hd]; exact hl), astep_dFs a op d hd hl]

theorem arun_nD_le (a : ASt) (ops : List Op) : a.nD ≤ (arun a ops).nD := by
  induction ops generalizing a with
  | nil => exact Nat.le_refl _
  | cons op ops ih => exact Nat.le_trans (astep_nD_le a op) (ih _)

theorem astep_dName (a : ASt) (op : Op) (d : Nat) (hd : d < a.nD) : (astep a op).1.dName d = a.dName d := by
  have : d ≠ a.nD := by omega
  cases op <;> simp only [astep] <;> (repeat' split) <;> simp [aaddHook, upd_other _ _ _ _ this]

theorem arun_dDead (a : ASt) (ops : List Op) (d : Nat) (hd : d < a.nD) : (arun a ops).dDead d = a.dDead d := by
  induction ops generalizing a with
  | nil => rfl
  | cons op ops ih => rw [arun, ih _ (Nat.lt_of_lt_of_le hd (astep_nD_le a op)), astep_dDead a op d hd]

theorem arun_dName (a : ASt) (ops : List Op) (d : Nat) (hd : d < a.nD) : (arun a ops).dName d = a.dName d := by
  induction ops generalizing a with
  | nil => rfl
  | cons op ops ih => rw [arun, ih _ (Nat.lt_of_lt_of_le hd (astep_nD_le a op)), astep_dName a op d hd]

theorem ite_pair_hooks (c : Bool) (s1 s2 : St) (X Y : Nat → List (HookName × Nat)) (h1 : s1.hooks = Y)
    (h2 : s2.hooks = X) :
    (if c = true then (s1, Out.valueError) else (s2, Out.ok)).1.hooks =
      if (if c = true then (s1, Out.valueError) else (s2, Out.ok)).2 = .ok then X else Y := by
  cases c <;> simp [*]

/-! ## auth handles: every handle owns one set -/

structure AInv (s : AuthSt) : Prop where
  lt : ∀ h, h < s.nH → s.hSet h < s.next
  inj : ∀ h h', h < s.nH → h' < s.nH → s.hSet h = s.hSet h' → h = h'

theorem ainv_init : AInv authInit := by constructor <;> simp [authInit]

theorem authStep_inv (s : AuthSt) (op : AuthOp) (h : AInv s) : AInv (authStep s op).1 := by
  obtain ⟨h1, h2⟩ := h
  cases op <;> simp only [authStep, newHandle] <;> (repeat' split) <;> constructor <;> (try simp only []) <;> grind [upd]

theorem authStep_nH_le (s : AuthSt) (op : AuthOp) : s.nH ≤ (authStep s op).1.nH := by
  cases op <;> simp only [authStep, newHandle] <;> (repeat' split) <;> simp

theorem authStep_heap (s : AuthSt) (op : AuthOp) (hd : Nat) (h : AInv s) (hhd : hd < s.nH) :
    (authStep s op).1.heap ((authStep s op).1.hSet hd) = addAll (s.heap (s.hSet hd)) (handleWrites hd [op]) := by
  obtain ⟨h1, h2⟩ := h
  have hne : hd ≠ s.nH := by omega
  have hlt := h1 hd hhd
  have hne2 : s.hSet hd ≠ s.next := by omega
  cases op with
  | handleApply hd' incl f =>
    simp only [authStep, handleWrites]
    by_cases hh : hd' < s.nH
    · by_cases e : hd' = hd
      · subst e
        cases hadd : (s.heap (s.hSet hd')).add incl f <;> simp [hh, addAll, hadd]
      · have hs : s.hSet hd ≠ s.hSet hd' := fun x => e (h2 _ _ hhd hh x).symm
        cases hadd : (s.heap (s.hSet hd')).add incl f <;> simp [hh, e, addAll, upd_other _ _ _ _ hs]
    · by_cases e : hd' = hd
      · subst e; exact absurd hhd hh
      · simp [hh, e, addAll]
  | register st => simp [authStep, newHandle, handleWrites, addAll, upd_other _ _ _ _ hne, upd_other _ _ _ _ hne2]
  | apply st c => simp [authStep, newHandle, handleWrites, addAll, upd_other _ _ _ _ hne, upd_other _ _ _ _ hne2]
  | setFromRequests st c => simp [authStep, newHandle, handleWrites, addAll, upd_other _ _ _ _ hne, upd_other _ _ _ _ hne2]
  | decorate hd' x => simp only [authStep, handleWrites]; (repeat' split) <;> simp [addAll]
  | unregister st => simp [authStep, handleWrites, addAll]

theorem handleWrites_cons (hd : Nat) (op : AuthOp) (ops : List AuthOp) :
    handleWrites hd (op :: ops) = handleWrites hd [op] ++ handleWrites hd ops := by
  cases op <;> simp [handleWrites]
  split <;> simp

theorem authRun_heap (s : AuthSt) (ops : List AuthOp) (hd : Nat) (h : AInv s) (hhd : hd < s.nH) :
    (authRun s ops).heap ((authRun s ops).hSet hd) = addAll (s.heap (s.hSet hd)) (handleWrites hd ops) := by
  induction ops generalizing s with
  | nil => simp [authRun, handleWrites, addAll]
  | cons op ops ih =>
    rw [authRun, handleWrites_cons, addAll_append, ih _ (authStep_inv s op h) (Nat.lt_of_lt_of_le hhd (authStep_nH_le s op)),
      authStep_heap s op hd h hhd]

theorem authRun_inv (s : AuthSt) (ops : List AuthOp) (h : AInv s) : AInv (authRun s ops) := by
  induction ops generalizing s with
  | nil => exact h
  | cons op ops ih => exact ih _ (authStep_inv s op h)

theorem authRun_append (s : AuthSt) (xs ys : List AuthOp) : authRun s (xs ++ ys) = authRun (authRun s xs) ys := by
  induction xs generalizing s with
  | nil => rfl
  | cons x xs ih => simp [authRun, ih]

theorem authRun_nH_le (s : AuthSt) (ops : List AuthOp) : s.nH ≤ (authRun s ops).nH := by
  induction ops generalizing s with
  | nil => exact Nat.le_refl _
  | cons o os ih => exact Nat.le_trans (authStep_nH_le s o) (ih _)

end SV.Proofs.C19
