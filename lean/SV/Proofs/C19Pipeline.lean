/-
  Helper lemmas for the closure/pipeline part of C19 (not property statements).
-/
import SV.Spec.C19Pipeline

namespace SV.Proofs.C19
open SV.Model.C19 SV.Spec.C19

/-! ## the loops with `partial(hook, context)` select and bind exactly what `applyToContainer` lists -/

theorem closureFor_byValue (a : Action) (h : Nat) : closureFor .byValue a h = .bound h := by
  cases a <;> rfl

/-- the hooks an application loop does not skip -/
def kept (skips : Bool) (mt : Nat → Nat → Bool) (s : St) (o : Option Nat) (hs : List Nat) : List Nat :=
  hs.filter fun h => !(skips && shouldSkip mt s h o)

theorem foldl_loopBody (skips : Bool) (mt : Nat → Nat → Bool) (s : St) (o : Option Nat) (a : Action) (hs : List Nat)
    (fr : Frame) :
    (hs.foldl (loopBody .byValue skips mt s o a) fr).stages =
      fr.stages ++ (kept skips mt s o hs).map fun h => (⟨a, .bound h, o⟩ : Stage) := by
  induction hs generalizing fr with
  | nil => simp [kept]
  | cons h hs ih =>
    rw [List.foldl_cons, ih]
    have hk : kept skips mt s o (h :: hs) =
        if (skips && shouldSkip mt s h o) = true then kept skips mt s o hs else h :: kept skips mt s o hs := by
      unfold kept
      rw [List.filter_cons]
      by_cases hc : (skips && shouldSkip mt s h o) = true <;> simp [hc]
    rw [hk]
    by_cases hc : (skips && shouldSkip mt s h o) = true
    · simp only [loopBody, hc, if_true]
    · simp only [loopBody, hc, if_false, closureFor_byValue, List.map_cons, List.append_assoc, List.cons_append,
        List.nil_append, Bool.false_eq_true]

theorem frameOf_stages (skips : Bool) (mt : Nat → Nat → Bool) (s : St) (d : Nat) (t : Target) (o : Option Nat) :
    (frameOf .byValue skips mt s d t o).stages =
      (actions.flatMap fun a => (kept skips mt s o (byName s d (.gen a t))).map fun h => (a, h)).map
        fun p => (⟨p.1, .bound p.2, o⟩ : Stage) := by
  simp [frameOf, actions, forLoop, foldl_loopBody, List.map_append, List.map_map, Function.comp_def]

theorem resolve_bound (o : Option Nat) (hv : Option Nat) (xs : List (Action × Nat)) :
    Frame.resolve ⟨xs.map fun p => (⟨p.1, .bound p.2, o⟩ : Stage), hv⟩ = xs.map fun p => (p.1, p.2, o) := by
  induction xs with
  | nil => rfl
  | cons x xs ih =>
    simp only [Frame.resolve, List.map_cons, List.filterMap_cons] at ih ⊢
    rw [ih]

theorem frameOf_resolve (skips : Bool) (mt : Nat → Nat → Bool) (s : St) (d : Nat) (t : Target) (o : Option Nat) :
    (frameOf .byValue skips mt s d t o).resolve =
      (actions.flatMap fun a => (kept skips mt s o (byName s d (.gen a t))).map fun h => (a, h)).map
        fun p => (p.1, p.2, o) := by
  have h := frameOf_stages skips mt s d t o
  generalize frameOf .byValue skips mt s d t o = fr at h
  obtain ⟨st, hv⟩ := fr
  simp only at h
  subst h
  exact resolve_bound o hv _

theorem shouldSkip_eq (mt : Nat → Nat → Bool) (s : St) (h o : Nat) :
    (!shouldSkip mt s h (some o)) = specApplies mt (filterOf s h) o := by
  unfold shouldSkip specApplies filterOf
  cases s.attr h <;> simp

theorem kept_true (mt : Nat → Nat → Bool) (s : St) (d : Nat) (n : HookName) (o : Nat) :
    kept true mt s (some o) (byName s d n) = ownMatching mt (filterOf s) (s.hooks d) n o := by
  unfold kept byName ownMatching
  rw [List.filter_map, List.filter_filter]
  congr 1
  apply List.filter_congr
  intro p _
  simp only [Function.comp, Bool.true_and, shouldSkip_eq]
  exact Bool.and_comm _ _

theorem kept_false (mt : Nat → Nat → Bool) (s : St) (d : Nat) (n : HookName) (o : Option Nat) :
    kept false mt s o (byName s d n) = allNamed (s.hooks d) n := by
  unfold kept byName allNamed
  simp

theorem skipsFor_repaired (t : Target) : skipsFor .repaired t = true := by
  cases t <;> rfl

/-! ## draw-time calls -/

variable {α : Type}

/-- the calls a draw has made are those of the stages put on so far, all of them if the draw was accepted -/
def Good (pre : List (Action × Nat × Option Nat)) (st : Strat α) : Prop :=
  ∀ cs, ((st cs).1.map Call.key) <+: drawStages pre ∧
        ((st cs).2.isSome = true → (st cs).1.map Call.key = drawStages pre)

theorem drawStages_append (xs ys : List (Action × Nat × Option Nat)) :
    drawStages (xs ++ ys) = drawStages xs ++ drawStages ys := by
  simp [drawStages]

theorem good_step (I : Interp α) (hbg : ∀ h c st, I.bg h c st = st) (hq : ∀ h c v cs, (I.flat h c v cs).1 = [])
    (pre : List (Action × Nat × Option Nat)) (x : Action × Nat × Option Nat) (st : Strat α) (hg : Good pre st) :
    Good (pre ++ [x]) (applyStage I st x) := by
  obtain ⟨a, h, c⟩ := x
  intro cs
  obtain ⟨hp, he⟩ := hg cs
  rw [drawStages_append]
  cases a with
  | beforeGenerate =>
    have hx : drawStages [(Action.beforeGenerate, h, c)] = [] := rfl
    simp only [applyStage, hbg, hx, List.append_nil]
    exact ⟨hp, he⟩
  | filter =>
    simp only [applyStage, sFilter]
    rcases hst : st cs with ⟨log, _ | ⟨v, rest⟩⟩
    · rw [hst] at hp
      exact ⟨List.IsPrefix.trans hp (List.prefix_append _ _), by simp⟩
    · rw [hst] at he
      have he' := he rfl
      simp only at he'
      have hx : drawStages [(Action.filter, h, c)] = [(Action.filter, h, c)] := rfl
      simp [hx, Call.key, he']
  | map =>
    simp only [applyStage, sMap]
    rcases hst : st cs with ⟨log, _ | ⟨v, rest⟩⟩
    · rw [hst] at hp
      exact ⟨List.IsPrefix.trans hp (List.prefix_append _ _), by simp⟩
    · rw [hst] at he
      have he' := he rfl
      simp only at he'
      have hx : drawStages [(Action.map, h, c)] = [(Action.map, h, c)] := rfl
      simp [hx, Call.key, he']
  | flatmap =>
    simp only [applyStage, sFlatmap]
    rcases hst : st cs with ⟨log, _ | ⟨v, rest⟩⟩
    · rw [hst] at hp
      exact ⟨List.IsPrefix.trans hp (List.prefix_append _ _), by simp⟩
    · rw [hst] at he
      have he' := he rfl
      simp only at he'
      have hx : drawStages [(Action.flatmap, h, c)] = [(Action.flatmap, h, c)] := rfl
      simp [hx, Call.key, he', hq]

theorem good_foldl (I : Interp α) (hbg : ∀ h c st, I.bg h c st = st) (hq : ∀ h c v cs, (I.flat h c v cs).1 = [])
    (xs pre : List (Action × Nat × Option Nat)) (st : Strat α) (hg : Good pre st) :
    Good (pre ++ xs) (xs.foldl (applyStage I) st) := by
  induction xs generalizing pre st with
  | nil => simpa using hg
  | cons x xs ih =>
    have := ih (pre ++ [x]) (applyStage I st x) (good_step I hbg hq pre x st hg)
    simpa [List.append_assoc] using this

/-! ## the value drawn through the harness hooks -/

theorem probe_foldl (xs : List (Action × Nat × Option Nat)) (st : Strat (List Nat)) (v : List Nat)
    (hst : ∀ cs, (st cs).2 = some (v, cs)) :
    ∀ cs, ((xs.foldl (applyStage probe) st) cs).2 = some (v ++ valueStages xs, cs) := by
  induction xs generalizing st v with
  | nil => simpa [valueStages] using hst
  | cons x xs ih =>
    obtain ⟨a, h, c⟩ := x
    rw [List.foldl_cons]
    cases a with
    | beforeGenerate =>
      have := ih (applyStage probe st (.beforeGenerate, h, c)) v (by simpa [applyStage, probe] using hst)
      simpa [valueStages] using this
    | filter =>
      have := ih (applyStage probe st (.filter, h, c)) v (by
        intro cs
        have h1 := hst cs
        rcases h2 : st cs with ⟨log, r⟩
        rw [h2] at h1
        simp only at h1
        subst h1
        simp [applyStage, sFilter, h2, probe])
      simpa [valueStages] using this
    | map =>
      have := ih (applyStage probe st (.map, h, c)) (v ++ [h]) (by
        intro cs
        have h1 := hst cs
        rcases h2 : st cs with ⟨log, r⟩
        rw [h2] at h1
        simp only at h1
        subst h1
        simp [applyStage, sMap, h2, probe])
      simpa [valueStages, List.append_assoc] using this
    | flatmap =>
      have := ih (applyStage probe st (.flatmap, h, c)) (v ++ [h]) (by
        intro cs
        have h1 := hst cs
        rcases h2 : st cs with ⟨log, r⟩
        rw [h2] at h1
        simp only at h1
        subst h1
        simp [applyStage, sFlatmap, h2, probe, sPure])
      simpa [valueStages, List.append_assoc] using this

end SV.Proofs.C19
