/-
  Helper lemmas for C20 (not property statements).
-/
import SV.Spec.C20

namespace SV.Proofs.C20
open SV.Model.C20 SV.Spec.C20

/-! ### filters -/

theorem excludedBy_eq_any (fs : List (List Matcher)) (v : OpView) :
    excludedBy fs v = fs.any (filterMatch · v) := by
  induction fs with
  | nil => simp [excludedBy]
  | cons f fs ih =>
    unfold excludedBy
    by_cases h : filterMatch f v = true <;> simp [h, ih]

theorem matchView_eq_passes (F : FilterSet) (v : OpView) : F.matchView v = passes F v := by
  unfold FilterSet.matchView passes
  rw [excludedBy_eq_any]
  have e1 : (F.excludes.any fun f => f.all (·.matches v)) = F.excludes.any (filterMatch · v) := rfl
  have e2 : (F.includes.any fun f => f.all (·.matches v)) = F.includes.any (filterMatch · v) := rfl
  rw [e1, e2]
  cases h1 : F.excludes.any (filterMatch · v) <;> cases h2 : F.includes.isEmpty <;> simp

theorem shouldSkip_eq (F : FilterSet) (bp : Name) (o : Op) :
    shouldSkip F bp o.label = !(selected F bp o) := by
  unfold shouldSkip selected
  rw [matchView_eq_passes]

/-! ### get_all_operations -/

theorem opsOfType_eq (F : FilterSet) (bp : Name) (root : Root) (tn : Name) (fs : List Name) :
    opsOfType F bp root tn fs = (fs.map fun f => (⟨root, tn, f⟩ : Op)).filter (selected F bp) := by
  induction fs with
  | nil => simp [opsOfType]
  | cons f fs ih =>
    unfold opsOfType
    simp only [shouldSkip_eq, List.map_cons, List.filter_cons]
    by_cases h : selected F bp ⟨root, tn, f⟩ = true <;> simp [h, ih]

theorem opsOfRoot_eq (F : FilterSet) (bp : Name) (root : Root) (t : Option TypeDef) :
    opsOfRoot F bp root t = (fieldsOf root t).filter (selected F bp) := by
  cases t with
  | none => simp [opsOfRoot, fieldsOf]
  | some t => simp [opsOfRoot, fieldsOf, opsOfType_eq]

/-! ### _measure_statistic -/

theorem statFields_eq (F : FilterSet) (bp tn : Name) (fs : List Name) (s : Stat) :
    statFields F bp tn fs s =
      ⟨s.total + fs.length, s.selected + (fs.filter fun f => !shouldSkip F bp (mkLabel tn f)).length⟩ := by
  induction fs generalizing s with
  | nil => simp [statFields]
  | cons f fs ih =>
    unfold statFields
    simp only [ih, List.length_cons, List.filter_cons]
    by_cases h : shouldSkip F bp (mkLabel tn f) = true
    · simp [h]; omega
    · simp [h]; omega

theorem typeMapGet_none (types : List TypeDef) (n : Name) (h : n ∉ types.map (·.name)) :
    typeMapGet types n = none := by
  induction types with
  | nil => simp [typeMapGet]
  | cons t ts ih =>
    simp only [List.map_cons, List.mem_cons, not_or] at h
    unfold typeMapGet
    rw [ih h.2]
    have : (t.name == n) = false := by
      simp only [beq_eq_false_iff_ne, ne_eq]
      exact fun e => h.1 e.symm
    simp [this]

theorem typeMapGet_name (types : List TypeDef) (n : Name) (t : TypeDef) (h : typeMapGet types n = some t) :
    t.name = n := by
  induction types with
  | nil => simp [typeMapGet] at h
  | cons t' ts ih =>
    unfold typeMapGet at h
    cases hr : typeMapGet ts n with
    | some r =>
      simp only [hr, Option.some.injEq] at h
      exact ih (h ▸ hr)
    | none =>
      simp only [hr] at h
      by_cases e : (t'.name == n) = true
      · simp only [e, if_true, Option.some.injEq] at h
        subst h
        simpa using e
      · simp [e] at h

theorem typeMapGet_mem (types : List TypeDef) (n : Name) (t : TypeDef) (h : typeMapGet types n = some t) :
    t ∈ types := by
  induction types with
  | nil => simp [typeMapGet] at h
  | cons t' ts ih =>
    unfold typeMapGet at h
    cases hr : typeMapGet ts n with
    | some r =>
      simp only [hr, Option.some.injEq] at h
      exact List.mem_cons_of_mem _ (ih (h ▸ hr))
    | none =>
      simp only [hr] at h
      by_cases e : (t'.name == n) = true
      · simp only [e, if_true, Option.some.injEq] at h
        subst h
        exact List.mem_cons_self
      · simp [e] at h

theorem statTypes_eq (F : FilterSet) (bp n : Name) (types : List TypeDef) (hnd : (types.map (·.name)).Nodup)
    (s : Stat) :
    statTypes F bp n types s =
      match typeMapGet types n with
      | some t => statFields F bp n t.fields s
      | none => s := by
  induction types generalizing s with
  | nil => simp [statTypes, typeMapGet]
  | cons t ts ih =>
    simp only [List.map_cons, List.nodup_cons] at hnd
    obtain ⟨hnot, hts⟩ := hnd
    unfold statTypes typeMapGet
    by_cases e : (t.name == n) = true
    · have en : t.name = n := by simpa using e
      have hnone : typeMapGet ts n = none := typeMapGet_none ts n (en ▸ hnot)
      simp only [e, if_true, hnone]
      rw [ih hts]
      simp [hnone]
    · simp only [e, Bool.false_eq_true, if_false]
      rw [ih hts]
      cases typeMapGet ts n <;> simp

theorem dedupAux_nodup (seen xs : List Name) (hnd : xs.Nodup) (hdis : ∀ x ∈ xs, x ∉ seen) :
    dedupAux seen xs = xs := by
  induction xs generalizing seen with
  | nil => simp [dedupAux]
  | cons x xs ih =>
    simp only [List.nodup_cons] at hnd
    unfold dedupAux
    have hx : seen.contains x = false := by
      have := hdis x (by simp)
      simpa using this
    simp only [hx, Bool.false_eq_true, if_false, List.cons.injEq, true_and]
    apply ih _ hnd.2
    intro y hy
    simp only [List.mem_cons, not_or]
    exact ⟨fun e => hnd.1 (e ▸ hy), hdis y (by simp [hy])⟩

theorem dedup_nodup (xs : List Name) (hnd : xs.Nodup) : dedup xs = xs :=
  dedupAux_nodup [] xs hnd (by simp)

/-- one root of `_measure_statistic` against the same root of the client schema -/
theorem statRoot_eq (F : FilterSet) (bp : Name) (types : List TypeDef) (root : Root) (n : Option Name)
    (h1 : namesNodup types) (h2 : fieldsNodup types) (s : Stat) :
    statRoot F bp types n s =
      ⟨s.total + (fieldsOf root (clientType types n)).length,
       s.selected + (opsOfRoot F bp root (clientType types n)).length⟩ := by
  cases n with
  | none => simp [statRoot, clientType, fieldsOf, opsOfRoot]
  | some n =>
    simp only [statRoot, clientType]
    rw [statTypes_eq F bp n types h1]
    cases ht : typeMapGet types n with
    | none => simp [fieldsOf, opsOfRoot]
    | some t =>
      have hname := typeMapGet_name types n t ht
      have hmem := typeMapGet_mem types n t ht
      have hd : dedup t.fields = t.fields := dedup_nodup _ (h2 t hmem)
      simp only [statFields_eq, fieldsOf, opsOfRoot, opsOfType_eq, hd, List.length_map, hname]
      congr 2
      rw [List.filter_map, List.length_map]
      congr 2
      funext f
      simp only [Function.comp]
      have := shouldSkip_eq F bp ⟨root, n, f⟩
      simp only [Op.label] at this
      rw [this]
      simp

/-! ### lookups -/

theorem assocGet_cons_self {α β : Type} [DecidableEq α] (k : α) (v : β) (l : List (α × β)) :
    assocGet k ((k, v) :: l) = some v := by simp [assocGet]

theorem assocGet_cons_ne {α β : Type} [DecidableEq α] (k k' : α) (v : β) (l : List (α × β)) (h : k' ≠ k) :
    assocGet k ((k', v) :: l) = assocGet k l := by simp [assocGet, h]

theorem findRoot_name (c : Client) (key : Name) (m : FieldMap) (h : findRoot c key = some m) :
    m.type.name = key := by
  unfold findRoot at h
  cases hq : c.query with
  | none =>
    simp only [hq] at h
    cases hm : c.mutation with
    | none => simp [hm] at h
    | some mt =>
      simp only [hm] at h
      by_cases e : (mt.name == key) = true
      · simp only [e, if_true, Option.some.injEq] at h
        subst h; simpa using e
      · simp [e] at h
  | some qt =>
    simp only [hq] at h
    by_cases e : (qt.name == key) = true
    · simp only [e, if_true, Option.some.injEq] at h
      subst h; simpa using e
    · simp only [e, Bool.false_eq_true, if_false] at h
      cases hm : c.mutation with
      | none => simp [hm] at h
      | some mt =>
        simp only [hm] at h
        by_cases e2 : (mt.name == key) = true
        · simp only [e2, if_true, Option.some.injEq] at h
          subst h; simpa using e2
        · simp [e2] at h

theorem findRoot_rootType (c : Client) (key : Name) (m : FieldMap) (h : findRoot c key = some m) :
    rootType c m.root = some m.type := by
  unfold findRoot at h
  cases hq : c.query with
  | none =>
    simp only [hq] at h
    cases hm : c.mutation with
    | none => simp [hm] at h
    | some mt =>
      simp only [hm] at h
      by_cases e : (mt.name == key) = true
      · simp only [e, if_true, Option.some.injEq] at h
        subst h; simp [rootType, hm]
      · simp [e] at h
  | some qt =>
    simp only [hq] at h
    by_cases e : (qt.name == key) = true
    · simp only [e, if_true, Option.some.injEq] at h
      subst h; simp [rootType, hq]
    · simp only [e, Bool.false_eq_true, if_false] at h
      cases hm : c.mutation with
      | none => simp [hm] at h
      | some mt =>
        simp only [hm] at h
        by_cases e2 : (mt.name == key) = true
        · simp only [e2, if_true, Option.some.injEq] at h
          subst h; simp [rootType, hm]
        · simp [e2] at h

/-- what every cache reachable on schema `c` satisfies (variant-independent part + the key discipline) -/
structure Inv (v : Variant) (c : Client) (st : Cache) : Prop where
  maps : ∀ k m, assocGet k st.maps = some m → findRoot c k = some m
  ops : ∀ k op, assocGet k st.ops = some op →
    ∃ T m, findRoot c T = some m ∧ m.type.fields.contains k.2 = true ∧ op = ⟨m.root, m.type.name, k.2⟩ ∧
      (v = .repaired → k.1 = T)

theorem inv_empty (v : Variant) (c : Client) : Inv v c Cache.empty :=
  ⟨by simp [Cache.empty, assocGet], by simp [Cache.empty, assocGet]⟩

theorem getOperationMap_spec (v : Variant) (c : Client) (st : Cache) (key : Name) (hi : Inv v c st) :
    (getOperationMap c st key).2 = findRoot c key ∧ Inv v c (getOperationMap c st key).1 ∧
    (getOperationMap c st key).1.ops = st.ops := by
  unfold getOperationMap
  cases hm : assocGet key st.maps with
  | some m => exact ⟨(hi.maps key m hm).symm, hi, rfl⟩
  | none =>
    cases hf : findRoot c key with
    | none => exact ⟨rfl, hi, rfl⟩
    | some m =>
      refine ⟨rfl, ⟨?_, hi.ops⟩, rfl⟩
      intro k m' hk
      by_cases e : key = k
      · subst e
        rw [assocGet_cons_self] at hk
        cases hk; exact hf
      · rw [assocGet_cons_ne _ _ _ _ e] at hk
        exact hi.maps k m' hk

/-- inserting a well-described operation keeps the invariant -/
theorem inv_insert_op (v : Variant) (c : Client) (st : Cache) (T : Name) (m : FieldMap) (f : Name)
    (hi : Inv v c st) (hf : findRoot c T = some m) (hc : m.type.fields.contains f = true) :
    Inv v c ⟨st.maps, (opKey v m.type.name f, ⟨m.root, m.type.name, f⟩) :: st.ops⟩ := by
  refine ⟨hi.maps, ?_⟩
  intro k op hk
  by_cases e : opKey v m.type.name f = k
  · subst e
    rw [assocGet_cons_self] at hk
    cases hk
    refine ⟨T, m, hf, ?_, ?_, ?_⟩
    · cases v <;> simpa [opKey] using hc
    · cases v <;> simp [opKey]
    · intro hv
      subst hv
      simpa [opKey] using findRoot_name c T m hf
  · rw [assocGet_cons_ne _ _ _ _ e] at hk
    exact hi.ops k op hk

theorem initOperation_repaired (c : Client) (st : Cache) (T : Name) (m : FieldMap) (f : Name)
    (hi : Inv .repaired c st) (hf : findRoot c T = some m) :
    (initOperation .repaired st m f).2 =
        (if m.type.fields.contains f then .ok ⟨m.root, m.type.name, f⟩ else .fieldNotFound) ∧
    Inv .repaired c (initOperation .repaired st m f).1 := by
  have hname := findRoot_name c T m hf
  unfold initOperation
  cases hg : assocGet (opKey .repaired m.type.name f) st.ops with
  | some op =>
    obtain ⟨T', m', hf', hc', hop, hk⟩ := hi.ops _ op hg
    have hT : T' = T := by
      have := hk rfl
      simp only [opKey] at this
      rw [← this, hname]
    subst hT
    rw [hf] at hf'
    cases hf'
    simp only [opKey] at hc'
    simp only [opKey] at hop
    have hmem : f ∈ m.type.fields := by simpa using hc'
    exact ⟨by simp [hmem, hop], hi⟩
  | none =>
    by_cases hc : m.type.fields.contains f = true
    · simp only [hc, if_true]
      exact ⟨trivial, inv_insert_op .repaired c st T m f hi hf hc⟩
    · simp only [hc, Bool.false_eq_true, if_false]
      exact ⟨trivial, hi⟩

theorem lookup_repaired_step (c : Client) (st : Cache) (q : Name × Name) (hi : Inv .repaired c st) :
    (lookup .repaired c st q).2 = specLookup c q ∧ Inv .repaired c (lookup .repaired c st q).1 := by
  obtain ⟨h1, h2, _⟩ := getOperationMap_spec .repaired c st q.1 hi
  unfold lookup specLookup
  cases hg : getOperationMap c st q.1 with
  | mk st' om =>
    rw [hg] at h1 h2
    simp only at h1 h2
    rw [← h1]
    cases om with
    | none => exact ⟨rfl, h2⟩
    | some m => exact initOperation_repaired c st' q.1 m q.2 h2 h1.symm

theorem findRoot_same (c : Client) (hd : rootsDisjoint c) (T T' : Name) (m m' : FieldMap) (f : Name)
    (h : findRoot c T = some m) (h' : findRoot c T' = some m')
    (hc : m.type.fields.contains f = true) (hc' : m'.type.fields.contains f = true) : m' = m := by
  have r := findRoot_rootType c T m h
  have r' := findRoot_rootType c T' m' h'
  have hm : f ∈ m.type.fields := by simpa using hc
  have hm' : f ∈ m'.type.fields := by simpa using hc'
  obtain ⟨mr, mt⟩ := m
  obtain ⟨mr', mt'⟩ := m'
  cases mr <;> cases mr' <;> simp only [rootType] at r r'
  · rw [r] at r'; cases r'; rfl
  · exact (hd mt mt' f r r' hm hm').elim
  · exact (hd mt' mt f r' r hm' hm).elim
  · rw [r] at r'; cases r'; rfl

theorem initOperation_asFound (c : Client) (hd : rootsDisjoint c) (st : Cache) (T : Name) (m : FieldMap) (f : Name)
    (hi : Inv .asFound c st) (hf : findRoot c T = some m) (hc : m.type.fields.contains f = true) :
    (initOperation .asFound st m f).2 = .ok ⟨m.root, m.type.name, f⟩ ∧
    Inv .asFound c (initOperation .asFound st m f).1 := by
  unfold initOperation
  cases hg : assocGet (opKey .asFound m.type.name f) st.ops with
  | some op =>
    obtain ⟨T', m', hf', hc', hop, _⟩ := hi.ops _ op hg
    simp only [opKey] at hc' hop
    have := findRoot_same c hd T T' m m' f hf hf' hc hc'
    subst this
    exact ⟨by simp [hop], hi⟩
  | none =>
    simp only [hc, if_true]
    exact ⟨trivial, inv_insert_op .asFound c st T m f hi hf hc⟩

theorem lookup_asFound_step (c : Client) (hd : rootsDisjoint c) (st : Cache) (q : Name × Name) (op : Op)
    (hi : Inv .asFound c st) (hs : specLookup c q = .ok op) :
    (lookup .asFound c st q).2 = .ok op ∧ Inv .asFound c (lookup .asFound c st q).1 := by
  obtain ⟨h1, h2, _⟩ := getOperationMap_spec .asFound c st q.1 hi
  unfold specLookup at hs
  unfold lookup
  cases hg : getOperationMap c st q.1 with
  | mk st' om =>
    rw [hg] at h1 h2
    simp only at h1 h2
    rw [← h1] at hs
    cases om with
    | none => simp at hs
    | some m =>
      simp only at hs
      by_cases hc : m.type.fields.contains q.2 = true
      · simp only [hc, if_true, Result.ok.injEq] at hs
        subst hs
        exact initOperation_asFound c hd st' q.1 m q.2 h2 h1.symm hc
      · have hc' : q.2 ∉ m.type.fields := by simpa using hc
        simp [hc'] at hs

theorem specLookup_ok (c : Client) (q : Name × Name) (op : Op) (h : specLookup c q = .ok op) :
    op.typeName = q.1 ∧ op.field = q.2 ∧ wellTargeted c op := by
  unfold specLookup at h
  cases hf : findRoot c q.1 with
  | none => simp [hf] at h
  | some m =>
    simp only [hf] at h
    by_cases hc : m.type.fields.contains q.2 = true
    · simp only [hc, if_true, Result.ok.injEq] at h
      subst h
      refine ⟨findRoot_name c q.1 m hf, rfl, m.type, findRoot_rootType c q.1 m hf, rfl, ?_⟩
      simpa using hc
    · have hc' : q.2 ∉ m.type.fields := by simpa using hc
      simp [hc'] at h

/-! ### labels -/

theorem mkLabel_inj (T1 T2 f1 f2 : Name) (h1 : dotFree T1) (h2 : dotFree T2)
    (h : mkLabel T1 f1 = mkLabel T2 f2) : T1 = T2 ∧ f1 = f2 := by
  unfold mkLabel at h
  unfold dotFree at h1 h2
  induction T1 generalizing T2 with
  | nil =>
    cases T2 with
    | nil => simp at h; exact ⟨rfl, h⟩
    | cons y ys =>
      simp only [List.nil_append, List.cons_append, List.cons.injEq] at h
      exact absurd (h.1 ▸ List.mem_cons_self) h2
  | cons x xs ih =>
    cases T2 with
    | nil =>
      simp only [List.nil_append, List.cons_append, List.cons.injEq] at h
      exact absurd (h.1 ▸ List.mem_cons_self) h1
    | cons y ys =>
      simp only [List.cons_append, List.cons.injEq] at h
      have := ih ys (fun hm => h1 (List.mem_cons_of_mem _ hm)) (fun hm => h2 (List.mem_cons_of_mem _ hm)) h.2
      exact ⟨by rw [h.1, this.1], this.2⟩

theorem selected_by_name (bp L : Name) (o : Op) :
    selected ⟨[[.value .label L]], []⟩ bp o = (o.label == L) := by
  simp [selected, passes, Matcher.matches, attrValue, viewOf, normExpected]

theorem mem_rootFields (c : Client) (o : Op) :
    o ∈ rootFields c ↔ ∃ t, rootType c o.root = some t ∧ t.name = o.typeName ∧ o.field ∈ t.fields := by
  unfold rootFields
  rw [List.mem_append]
  obtain ⟨r, T, f⟩ := o
  constructor
  · rintro (h | h)
    · cases hq : c.query with
      | none => simp [hq, fieldsOf] at h
      | some t =>
        simp only [hq, fieldsOf, List.mem_map, Op.mk.injEq] at h
        obtain ⟨f', hf, hr, hT, hf'⟩ := h
        subst hr hT hf'
        exact ⟨t, by simp [rootType, hq], rfl, hf⟩
    · cases hq : c.mutation with
      | none => simp [hq, fieldsOf] at h
      | some t =>
        simp only [hq, fieldsOf, List.mem_map, Op.mk.injEq] at h
        obtain ⟨f', hf, hr, hT, hf'⟩ := h
        subst hr hT hf'
        exact ⟨t, by simp [rootType, hq], rfl, hf⟩
  · rintro ⟨t, hr, hn, hf⟩
    cases r with
    | query =>
      left
      simp only [rootType] at hr
      simp only [hr, fieldsOf, List.mem_map, Op.mk.injEq]
      exact ⟨f, hf, by simp [hn]⟩
    | mutation =>
      right
      simp only [rootType] at hr
      simp only [hr, fieldsOf, List.mem_map, Op.mk.injEq]
      exact ⟨f, hf, by simp [hn]⟩

theorem specLookup_of_rootField (c : Client) (hn : rootNamesDistinct c) (o : Op) (h : o ∈ rootFields c) :
    specLookup c (o.typeName, o.field) = .ok o := by
  rw [mem_rootFields] at h
  obtain ⟨t, hr, hname, hf⟩ := h
  obtain ⟨r, T, f⟩ := o
  simp only at hr hname hf
  subst hname
  have hc : t.fields.contains f = true := by simpa using hf
  unfold specLookup findRoot
  cases r with
  | query =>
    simp only [rootType] at hr
    simp [hr, hf]
  | mutation =>
    simp only [rootType] at hr
    cases hq : c.query with
    | none => simp [hr, hf]
    | some qt =>
      have hne : qt.name ≠ t.name := hn qt t hq hr
      simp [hr, hne, hf]

/-! ### dict merge -/

theorem assocGet_map_override {β : Type} (n : Name) (a b : List (Name × β)) :
    assocGet n (a.map (overrideEntry b)) =
      match assocGet n a with
      | none => none
      | some x => match assocGet n b with | some y => some y | none => some x := by
  induction a with
  | nil => simp [assocGet]
  | cons p a ih =>
    obtain ⟨k, x⟩ := p
    by_cases e : k = n
    · subst e
      cases hb : assocGet k b <;> simp [assocGet, overrideEntry, hb]
    · cases hb : assocGet k b <;> simp [assocGet, overrideEntry, hb, e, ih]

theorem assocGet_append {β : Type} (n : Name) (a b : List (Name × β)) :
    assocGet n (a ++ b) = match assocGet n a with | some x => some x | none => assocGet n b := by
  induction a with
  | nil => simp [assocGet]
  | cons p a ih =>
    obtain ⟨k, x⟩ := p
    by_cases e : k = n <;> simp [assocGet, e, ih]

theorem assocGet_filter_absent {β : Type} (n : Name) (a b : List (Name × β)) (h : assocGet n a = none) :
    assocGet n (b.filter fun p => (assocGet p.1 a).isNone) = assocGet n b := by
  induction b with
  | nil => simp [assocGet]
  | cons p b ih =>
    obtain ⟨k, y⟩ := p
    by_cases e : k = n
    · subst e
      simp [h, assocGet]
    · by_cases hk : (assocGet k a).isNone = true
      · simp [hk, assocGet, e, ih]
      · simp [hk, assocGet, e, ih]

theorem assocGet_dictMerge {β : Type} (n : Name) (a b : List (Name × β)) :
    assocGet n (dictMerge a b) = match assocGet n b with | some y => some y | none => assocGet n a := by
  unfold dictMerge
  rw [assocGet_append, assocGet_map_override]
  cases ha : assocGet n a with
  | none =>
    simp only
    rw [assocGet_filter_absent n a b ha]
    cases assocGet n b <;> rfl
  | some x =>
    cases hb : assocGet n b <;> simp

end SV.Proofs.C20
