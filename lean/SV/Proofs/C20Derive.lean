import SV.Model.C20Derive
namespace SV.Proofs.C20Derive
open SV.Model.C20Derive

theorem readCell_append_left (h t : Heap) (a : Nat) (ha : a < h.length) : readCell (h ++ t) a = readCell h a := by
  unfold readCell
  rw [List.getElem?_append_left ha]

theorem readCell_set_ne (h : Heap) (a b : Nat) (x : List Nat) (hne : a ≠ b) : readCell (h.set b x) a = readCell h a := by
  unfold readCell
  rw [List.getElem?_set_ne (Ne.symm hne)]

/-- one derivation with copying `clone` leaves every existing cell as it was, and the heap only grows -/
theorem derive_copy_frame (h : Heap) (d : Derive) (a : Nat) (ha : a < h.length) :
    readCell (derive .copyBoth h d).1 a = readCell h a ∧ h.length ≤ (derive .copyBoth h d).1.length := by
  unfold derive clone addTo
  simp only
  constructor
  · have hne : a ≠ (if d.isInclude then h.length else h.length + 1) := by
      split <;> omega
    rw [readCell_set_ne _ _ _ _ hne, readCell_append_left _ _ _ ha]
  · simp only [List.length_set, List.length_append, List.length_cons, List.length_nil]
    omega

theorem deriveAll_copy_frame (ds : List Derive) (h : Heap) (a : Nat) (ha : a < h.length) :
    readCell (deriveAll .copyBoth h ds) a = readCell h a := by
  induction ds generalizing h with
  | nil => rfl
  | cons d rest ih =>
    have hf := derive_copy_frame h d a ha
    simp only [deriveAll]
    rw [ih _ (by omega), hf.1]

end SV.Proofs.C20Derive
