/-
  Helper lemmas for the scalar value spaces of C20 (not property statements).
-/
import SV.Spec.C20Scalars
namespace SV.Proofs.C20
open SV.Model.C20 SV.Spec.C20

theorem isDigit_digitChar (d : Nat) : isDigit (digitChar d) = true := by
  unfold digitChar; split <;> decide

theorem digitVal_digitChar (d : Nat) (h : d < 10) : digitVal (digitChar d) = d := by
  have : d = 0 ∨ d = 1 ∨ d = 2 ∨ d = 3 ∨ d = 4 ∨ d = 5 ∨ d = 6 ∨ d = 7 ∨ d = 8 ∨ d = 9 := by omega
  rcases this with h | h | h | h | h | h | h | h | h | h <;> subst h <;> decide

theorem digitChar_ne_zero (d : Nat) (h : d ≠ 0) : digitChar d ≠ '0' := by
  unfold digitChar; split <;> first | contradiction | decide

theorem natVal_append (a : List Char) (c : Char) : natVal (a ++ [c]) = 10 * natVal a + digitVal c := by
  simp [natVal, List.foldl_append]

theorem natTextF_lt (f n : Nat) (h : n < 10) : natTextF (f + 1) n = [digitChar n] := by
  simp [natTextF, h]

theorem natTextF_ge (f n : Nat) (h : ¬ n < 10) :
    natTextF (f + 1) n = natTextF f (n / 10) ++ [digitChar (n % 10)] := by
  simp [natTextF, h]

theorem natTextF_spec (f : Nat) : ∀ n, n < f →
    natTextF f n ≠ [] ∧ (natTextF f n).all isDigit = true ∧ natVal (natTextF f n) = n ∧
    (n ≠ 0 → (natTextF f n).head? ≠ some '0') ∧ (n < 10 → (natTextF f n).length = 1) := by
  induction f with
  | zero => intro n h; omega
  | succ f ih =>
    intro n h
    by_cases h10 : n < 10
    · rw [natTextF_lt f n h10]
      refine ⟨by simp, by simp [isDigit_digitChar], ?_, ?_, by simp⟩
      · simp [natVal, digitVal_digitChar n h10]
      · intro hn; simp [digitChar_ne_zero n hn]
    · rw [natTextF_ge f n h10]
      obtain ⟨h1, h2, h3, h4, _⟩ := ih (n / 10) (by omega)
      refine ⟨by simp, ?_, ?_, ?_, by intro hh; omega⟩
      · simp [List.all_append, h2, isDigit_digitChar]
      · rw [natVal_append, h3, digitVal_digitChar _ (by omega)]; omega
      · intro _
        have : n / 10 ≠ 0 := by omega
        have h5 := h4 this
        cases hq : natTextF f (n / 10) with
        | nil => exact absurd hq h1
        | cons a as => rw [hq] at h5; simpa using h5
theorem natText_spec (n : Nat) :
    natText n ≠ [] ∧ (natText n).all isDigit = true ∧ natVal (natText n) = n ∧
    (n ≠ 0 → (natText n).head? ≠ some '0') ∧ (n < 10 → (natText n).length = 1) :=
  natTextF_spec (n + 1) n (by omega)

theorem isNatLiteral_natText (n : Nat) : isNatLiteral (natText n) = true := by
  obtain ⟨h1, h2, _, h4, h5⟩ := natText_spec n
  unfold isNatLiteral
  simp only [h2, Bool.and_true, Bool.and_eq_true, Bool.not_eq_true', Bool.or_eq_true, bne_iff_ne, ne_eq,
    beq_iff_eq]
  refine ⟨by simpa using h1, ?_⟩
  by_cases hn : n = 0
  · right; exact h5 (by omega)
  · left; exact h4 hn

theorem isDigit_ne_minus (c : Char) (h : isDigit c = true) : c ≠ '-' := by
  intro hc; subst hc; revert h; decide

theorem isIntLiteral_of_nat (t : List Char) (h : isNatLiteral t = true) : isIntLiteral t = true ∧ intValue t = natVal t := by
  cases t with
  | nil => simp [isNatLiteral] at h
  | cons c r =>
    have hd : isDigit c = true := by
      simp only [isNatLiteral, Bool.and_eq_true, List.all_cons] at h
      exact h.1.2.1
    have hne := isDigit_ne_minus c hd
    simp [isIntLiteral, intValue, hne, h]

/-- `nodes.Int`: `str(i)` is a GraphQL IntValue that reads back as `i` -/
theorem intText_literal (i : Int) : isIntLiteral (intText i) = true ∧ intValue (intText i) = i := by
  cases i with
  | ofNat n =>
    obtain ⟨h1, h2⟩ := isIntLiteral_of_nat _ (isNatLiteral_natText n)
    refine ⟨h1, ?_⟩
    simp only [intText] at h2 ⊢
    rw [h2, (natText_spec n).2.2.1]; rfl
  | negSucc n =>
    simp only [intText, isIntLiteral, intValue, if_true]
    refine ⟨isNatLiteral_natText _, ?_⟩
    rw [(natText_spec (n + 1)).2.2.1]
    omega

theorem acceptable_long_intText (n : Int) : acceptable .long (.int (intText n)) = int64 n := by
  obtain ⟨h1, h2⟩ := intText_literal n
  simp [acceptable, h1, h2]

theorem acceptable_bigInt_intText (n : Int) : acceptable .bigInt (.int (intText n)) = true := by
  simp [acceptable, (intText_literal n).1]

theorem render_ints (lo hi : Option Int) (d : Drawn) (v : ValueNode) (h : render (.ints lo hi) d = some v) :
    ∃ n, d = .int n ∧ inRange lo hi n = true ∧ v = .int (intText n) := by
  cases d <;> simp [render, renderInts] at h
  case int n => exact ⟨n, rfl, h.1, h.2.symm⟩

theorem safeFor_long_of_within (lo hi : Option Int) (h : intsWithinLong lo hi = true) :
    SafeFor .long (.ints lo hi) := by
  intro d v hr
  obtain ⟨n, rfl, hin, rfl⟩ := render_ints lo hi d v hr
  rw [acceptable_long_intText]
  cases lo <;> cases hi <;> simp [intsWithinLong] at h
  simp [inRange] at hin
  simp [int64]
  omega

theorem longWitness_spec (lo hi : Option Int) (h : intsWithinLong lo hi = false) :
    render (.ints lo hi) (.int (longWitness lo hi)) = some (.int (intText (longWitness lo hi))) ∧
    acceptable .long (.int (intText (longWitness lo hi))) = false := by
  rw [acceptable_long_intText]
  cases lo <;> cases hi <;> simp [intsWithinLong] at h <;>
    simp only [render, renderInts, inRange, longWitness, int64] <;> (constructor <;> (try split) <;> simp <;> omega)

theorem twoDigits_digitChar (a b : Nat) (ha : a < 10) (hb : b < 10) :
    twoDigits (digitChar a) (digitChar b) = some (10 * a + b) := by
  simp [twoDigits, isDigit_digitChar, digitVal_digitChar, ha, hb]

theorem leapYear_eq (y : Nat) : leapYear y = isLeap y := by
  unfold leapYear isLeap
  by_cases h400 : y % 400 = 0
  · have h4 : y % 4 = 0 := by omega
    simp [h400, h4]
  · have e : (y % 400 == 0) = false := by simpa using h400
    rw [e]; simp

theorem monthLength_eq (y m : Nat) (h1 : 1 ≤ m) (h2 : m ≤ 12) : monthLength y m = daysInMonth y m := by
  have : m = 1 ∨ m = 2 ∨ m = 3 ∨ m = 4 ∨ m = 5 ∨ m = 6 ∨ m = 7 ∨ m = 8 ∨ m = 9 ∨ m = 10 ∨ m = 11 ∨ m = 12 := by
    omega
  rcases this with h | h | h | h | h | h | h | h | h | h | h | h <;> subst h <;>
    first | rfl | simp [monthLength, daysInMonth, leapYear_eq]

theorem fullDate_dateText (y m d : Nat) (h : validDate y m d = true) : fullDate (dateText y m d) = true := by
  simp only [validDate, Bool.and_eq_true, decide_eq_true_eq] at h
  obtain ⟨⟨⟨⟨⟨hy1, hy2⟩, hm1⟩, hm2⟩, hd1⟩, hd2⟩ := h
  have hd3 : d ≤ 31 := by
    have : daysInMonth y m ≤ 31 := by unfold daysInMonth; split <;> (try split) <;> omega
    omega
  simp only [dateText, pad4, pad2, List.cons_append, List.nil_append, fullDate]
  rw [twoDigits_digitChar _ _ (by omega) (by omega), twoDigits_digitChar _ _ (by omega) (by omega),
    twoDigits_digitChar _ _ (by omega) (by omega), twoDigits_digitChar _ _ (by omega) (by omega)]
  have e1 : 100 * (10 * (y / 1000 % 10) + y / 100 % 10) + (10 * (y / 10 % 10) + y % 10) = y := by omega
  have e2 : 10 * (m / 10 % 10) + m % 10 = m := by omega
  have e3 : 10 * (d / 10 % 10) + d % 10 = d := by omega
  simp only [e1, e2, e3, monthLength_eq y m hm1 hm2]
  simp [hm1, hm2, hd1, hd2]

theorem isDigit_Z : isDigit 'Z' = false := by decide

theorem fullTime_timeZText (h mi s us : Nat) (hv : validTime h mi s us = true) :
    fullTime (timeZText h mi s us) = true := by
  simp only [validTime, Bool.and_eq_true, decide_eq_true_eq] at hv
  obtain ⟨⟨⟨hh, hmi⟩, hs⟩, hus⟩ := hv
  have e1 : 10 * (h / 10 % 10) + h % 10 = h := by omega
  have e2 : 10 * (mi / 10 % 10) + mi % 10 = mi := by omega
  have e3 : 10 * (s / 10 % 10) + s % 10 = s := by omega
  by_cases h0 : us = 0
  · simp only [timeZText, timeText, pad2, h0, if_true, List.cons_append, List.nil_append, fullTime]
    rw [twoDigits_digitChar _ _ (by omega) (by omega), twoDigits_digitChar _ _ (by omega) (by omega),
      twoDigits_digitChar _ _ (by omega) (by omega)]
    simp only [e1, e2, e3]
    simp [hh, hmi, timeOffset]
    omega
  · simp only [timeZText, timeText, pad2, pad6, h0, if_false, List.cons_append, List.nil_append,
      fullTime]
    rw [twoDigits_digitChar _ _ (by omega) (by omega), twoDigits_digitChar _ _ (by omega) (by omega),
      twoDigits_digitChar _ _ (by omega) (by omega)]
    simp only [e1, e2, e3]
    simp [hh, hmi, timeOffset, fracThenOffset, isDigit_digitChar, isDigit_Z]
    omega

theorem dateTime_text (y m d h mi s us : Nat) (h1 : validDate y m d = true) (h2 : validTime h mi s us = true) :
    dateTime (dateText y m d ++ 'T' :: timeZText h mi s us) = true := by
  have hd := fullDate_dateText y m d h1
  have ht := fullTime_timeZText h mi s us h2
  have hl : (dateText y m d).length = 10 := by simp [dateText, pad4, pad2]
  unfold dateTime
  rw [List.take_left' hl, List.drop_left' hl]
  simp [hd, ht]

theorem splitOn_no_sep (sep : Char) (a : List Char) (h : sep ∉ a) : splitOn sep a = [a] := by
  induction a with
  | nil => rfl
  | cons c cs ih =>
    have hc : c ≠ sep := fun e => h (by simp [e])
    have hcs : sep ∉ cs := fun e => h (by simp [e])
    simp [splitOn, hc, ih hcs]

theorem splitOn_append (sep : Char) (a b : List Char) (h : sep ∉ a) :
    splitOn sep (a ++ sep :: b) = a :: splitOn sep b := by
  induction a with
  | nil => simp [splitOn]
  | cons c cs ih =>
    have hc : c ≠ sep := fun e => h (by simp [e])
    have hcs : sep ∉ cs := fun e => h (by simp [e])
    simp [splitOn, hc, ih hcs]

theorem not_mem_of_all_isDigit (sep : Char) (hs : isDigit sep = false) (t : List Char)
    (h : t.all isDigit = true) : sep ∉ t := by
  intro hm
  rw [List.all_eq_true] at h
  have := h sep hm
  rw [hs] at this
  exact Bool.noConfusion this

theorem octet_length : ∀ k : Fin 256, (natText k.val).length ≤ 3 := by decide +kernel

theorem ipv4Value_ipv4Text (n : Nat) (h : n < 2 ^ 32) : ipv4Value (ipv4Text n) = some n := by
  have o : ∀ k, k < 256 → isNatLiteral (natText k) = true ∧ (natText k).length ≤ 3 ∧ natVal (natText k) = k ∧
      '.' ∉ natText k := by
    intro k hk
    exact ⟨isNatLiteral_natText k, octet_length ⟨k, hk⟩, (natText_spec k).2.2.1,
      not_mem_of_all_isDigit '.' (by decide) _ (natText_spec k).2.1⟩
  obtain ⟨a1, a2, a3, a4⟩ := o (n / 16777216 % 256) (by omega)
  obtain ⟨b1, b2, b3, b4⟩ := o (n / 65536 % 256) (by omega)
  obtain ⟨c1, c2, c3, c4⟩ := o (n / 256 % 256) (by omega)
  obtain ⟨d1, d2, d3, d4⟩ := o (n % 256) (by omega)
  unfold ipv4Value ipv4Text
  simp only [List.append_assoc, List.cons_append]
  rw [splitOn_append _ _ _ a4, splitOn_append _ _ _ b4, splitOn_append _ _ _ c4, splitOn_no_sep _ _ d4]
  simp only [List.all_cons, List.all_nil, a1, a2, a3, b1, b2, b3, c1, c2, c3, d1, d2, d3, decide_true, Bool.and_self]
  simp
  omega

theorem isHexDigit_hexChar (d : Nat) : isHexDigit (hexChar d) = true := by
  unfold hexChar
  split <;> first | decide | (unfold digitChar; split <;> decide)

theorem hexSeg_all (n a k : Nat) : (hexSeg n a k).all isHexDigit = true := by
  simp [hexSeg, hexDigitAt, isHexDigit_hexChar]

theorem hexSeg_length (n a k : Nat) : (hexSeg n a k).length = k := by simp [hexSeg]

theorem not_mem_of_all_isHexDigit (sep : Char) (hs : isHexDigit sep = false) (t : List Char)
    (h : t.all isHexDigit = true) : sep ∉ t := by
  intro hm
  rw [List.all_eq_true] at h
  have := h sep hm
  rw [hs] at this
  exact Bool.noConfusion this

theorem uuidString_uuidText (n : Nat) : uuidString (uuidText n) = true := by
  have nd : ∀ a k, '-' ∉ hexSeg n a k := fun a k =>
    not_mem_of_all_isHexDigit '-' (by decide) _ (hexSeg_all n a k)
  unfold uuidString uuidValue uuidText
  simp only [List.append_assoc, List.cons_append]
  rw [splitOn_append _ _ _ (nd 0 8), splitOn_append _ _ _ (nd 8 4), splitOn_append _ _ _ (nd 12 4),
    splitOn_append _ _ _ (nd 16 4), splitOn_no_sep _ _ (nd 20 12)]
  simp [hexSeg_length, List.all_append, hexSeg_all]

theorem hextetText_spec (h : Nat) :
    partInfo (hextetText h) = ⟨false, true⟩ ∧ (hextetText h).all isHexDigit = true := by
  unfold hextetText partInfo isHextet
  split
  · simp [isHexDigit_hexChar]
  · split
    · simp [isHexDigit_hexChar]
    · split <;> simp [isHexDigit_hexChar]

theorem splitOn_joinColon (ps : List (List Char)) (hne : ps ≠ []) (h : ∀ p ∈ ps, ':' ∉ p) :
    splitOn ':' (joinColon ps) = ps := by
  induction ps with
  | nil => exact absurd rfl hne
  | cons p rest ih =>
    cases rest with
    | nil => simp [joinColon, splitOn_no_sep _ _ (h p (by simp))]
    | cons q rest' =>
      simp only [joinColon]
      rw [splitOn_append _ _ _ (h p (by simp)), ih (by simp) (fun x hx => h x (by simp [hx]))]

theorem mem_compressParts {α : Type} (e : α) (zs : List Bool) (texts : List α) (x : α)
    (h : x ∈ compressParts e zs texts) : x = e ∨ x ∈ texts := by
  unfold compressParts at h
  simp only at h
  split at h
  · have hp : ∀ (a b : Nat) (y : α),
        y ∈ texts.take a ++ (if b = zs.length then [e, e] else [e]) ++ texts.drop b → y = e ∨ y ∈ texts := by
      intro a b y hy
      rcases List.mem_append.1 hy with hy | hy
      · rcases List.mem_append.1 hy with hy | hy
        · exact Or.inr (List.mem_of_mem_take hy)
        · left; split at hy <;> simpa using hy
      · exact Or.inr (List.mem_of_mem_drop hy)
    split at h
    · rcases List.mem_cons.1 h with h | h
      · exact Or.inl h
      · exact hp _ _ x h
    · exact hp _ _ x h
  · exact Or.inr h

theorem map_compressParts {α β : Type} (f : α → β) (e : α) (zs : List Bool) (texts : List α) :
    (compressParts e zs texts).map f = compressParts (f e) zs (texts.map f) := by
  unfold compressParts
  simp only
  split
  · split <;> split <;> simp [List.map_take, List.map_drop]
  · rfl

theorem shape_all : ∀ b0 b1 b2 b3 b4 b5 b6 b7 : Bool,
    (ipv6Shape (compressParts ⟨true, false⟩ [b0, b1, b2, b3, b4, b5, b6, b7] (List.replicate 8 ⟨false, true⟩))).isSome
      = true := by
  decide

theorem ipv6Parts_joinColon (parts : List (List Char)) (hne : parts ≠ []) (hc : ∀ p ∈ parts, ':' ∉ p)
    (hd : ∀ p ∈ parts, '.' ∉ p) : ipv6Parts (joinColon parts) = some parts := by
  unfold ipv6Parts
  simp only [splitOn_joinColon parts hne hc]
  have : (parts.getLast?.getD []).contains '.' = false := by
    cases hl : parts.getLast? with
    | none => rfl
    | some l =>
      have hm : l ∈ parts := List.mem_of_getLast? hl
      simpa using hd l hm
  rw [this]; rfl

theorem ipv6Address_ipv6Text (n : Nat) : ipv6Address (ipv6Text n) = true := by
  unfold ipv6Address ipv6Value ipv6Text
  simp only
  generalize hzs : (hextets n).map (· == 0) = zs
  generalize hts : (hextets n).map hextetText = texts
  have hz : ∃ b0 b1 b2 b3 b4 b5 b6 b7, zs = [b0, b1, b2, b3, b4, b5, b6, b7] := by
    rw [← hzs]; exact ⟨_, _, _, _, _, _, _, _, rfl⟩
  obtain ⟨b0, b1, b2, b3, b4, b5, b6, b7, rfl⟩ := hz
  have ht : ∀ p ∈ texts, ∃ h, p = hextetText h := by
    intro p hp; rw [← hts] at hp
    obtain ⟨h, _, rfl⟩ := List.mem_map.1 hp
    exact ⟨h, rfl⟩
  have hti : texts.map partInfo = List.replicate 8 ⟨false, true⟩ := by
    rw [← hts]; simp [hextets, (hextetText_spec _).1]
  have hmem : ∀ p ∈ compressParts [] [b0, b1, b2, b3, b4, b5, b6, b7] texts, p.all isHexDigit = true := by
    intro p hp
    rcases mem_compressParts _ _ _ _ hp with rfl | hp
    · rfl
    · obtain ⟨h, rfl⟩ := ht p hp; exact (hextetText_spec h).2
  have hinfo := map_compressParts partInfo [] [b0, b1, b2, b3, b4, b5, b6, b7] texts
  have e : partInfo [] = ⟨true, false⟩ := by decide
  rw [hti, e] at hinfo
  have hshape := shape_all b0 b1 b2 b3 b4 b5 b6 b7
  have hne : compressParts [] [b0, b1, b2, b3, b4, b5, b6, b7] texts ≠ [] := by
    intro he
    rw [he] at hinfo
    rw [← hinfo] at hshape
    revert hshape; decide
  rw [ipv6Parts_joinColon _ hne
    (fun p hp => not_mem_of_all_isHexDigit ':' (by decide) p (hmem p hp))
    (fun p hp => not_mem_of_all_isHexDigit '.' (by decide) p (hmem p hp))]
  simp only [Option.bind_some, ipv6Core, hinfo]
  cases hs : ipv6Shape (compressParts ⟨true, false⟩ [b0, b1, b2, b3, b4, b5, b6, b7] (List.replicate 8 ⟨false, true⟩)) with
  | none => rw [hs] at hshape; exact Bool.noConfusion hshape
  | some r => rfl


theorem safeFor_bigInt (lo hi : Option Int) : SafeFor .bigInt (.ints lo hi) := by
  intro d v hr
  obtain ⟨n, rfl, _, rfl⟩ := render_ints lo hi d v hr
  exact acceptable_bigInt_intText n

theorem safeFor_dates : SafeFor .date .dates := by
  intro d v hr
  cases d <;> simp [render, renderDate] at hr
  case date y m dd =>
    obtain ⟨hv, rfl⟩ := hr
    simpa [acceptable] using fullDate_dateText y m dd hv

theorem safeFor_times : SafeFor .time .times := by
  intro d v hr
  cases d <;> simp [render, renderTime] at hr
  case time h mi s us =>
    obtain ⟨hv, rfl⟩ := hr
    simpa [acceptable] using fullTime_timeZText h mi s us hv

theorem safeFor_dateTimes : SafeFor .dateTime .dateTimes := by
  intro d v hr
  cases d <;> simp [render, renderDateTime] at hr
  case dateTime y m dd h mi s us =>
    obtain ⟨⟨h1, h2⟩, rfl⟩ := hr
    simpa [acceptable] using dateTime_text y m dd h mi s us h1 h2

theorem safeFor_ipv4 : SafeFor .ipv4 (.ips (some .v4)) := by
  intro d v hr
  cases d <;> simp [render, renderIp4] at hr
  case ip4 n =>
    obtain ⟨hv, rfl⟩ := hr
    simp [acceptable, ipv4Address, ipv4Value_ipv4Text n hv]

theorem safeFor_uuids : SafeFor .uuid .uuids := by
  intro d v hr
  cases d <;> simp [render, renderUuid] at hr
  case uuid n =>
    obtain ⟨_, rfl⟩ := hr
    simpa [acceptable] using uuidString_uuidText n

/-- `inSupport` only answers `true` for nodes the strategy can yield -/
theorem inSupport_sound (g : ScalarGen) (v : ValueNode) (h : inSupport g v = true) : ∃ d, render g d = some v := by
  unfold inSupport at h
  cases hu : unrender g v with
  | none => simp [hu] at h
  | some d => rw [hu] at h; exact ⟨d, by simpa using h⟩

/-- and it recognises every node an integer strategy yields -/
theorem inSupport_ints (lo hi : Option Int) (n : Int) (h : inRange lo hi n = true) :
    inSupport (.ints lo hi) (.int (intText n)) = true := by
  obtain ⟨h1, h2⟩ := intText_literal n
  simp [inSupport, unrender, h1, h2, render, renderInts, h]



theorem safeFor_ipv6 : SafeFor .ipv6 (.ips (some .v6)) := by
  intro d v hr
  cases d <;> simp [render, renderIp6] at hr
  case ip6 n =>
    obtain ⟨_, rfl⟩ := hr
    simpa [acceptable] using ipv6Address_ipv6Text n

theorem safeFor_ip : SafeFor .ip (.ips none) := by
  intro d v hr
  cases d <;> simp [render, renderIp4, renderIp6] at hr
  case ip4 n =>
    obtain ⟨hv, rfl⟩ := hr
    simp [acceptable, ipv4Address, ipv4Value_ipv4Text n hv]
  case ip6 n =>
    obtain ⟨_, rfl⟩ := hr
    simp [acceptable, ipv6Address_ipv6Text n]

theorem assocGet_mem {α β : Type} [DecidableEq α] (k : α) (v : β) (l : List (α × β))
    (h : assocGet k l = some v) : (k, v) ∈ l := by
  induction l with
  | nil => simp [assocGet] at h
  | cons p rest ih =>
    obtain ⟨k', v'⟩ := p
    unfold assocGet at h
    by_cases hk : k' = k
    · simp only [hk, if_true, Option.some.injEq] at h
      simp [hk, h]
    · simp only [hk, if_false] at h
      exact List.mem_cons_of_mem _ (ih h)

theorem assocGet_dictSet_self {β : Type} (d : List (Name × β)) (k : Name) (v : β) :
    assocGet k (dictSet d k v) = some v := by
  induction d with
  | nil => simp [dictSet, assocGet]
  | cons p rest ih =>
    obtain ⟨k', v'⟩ := p
    unfold dictSet
    by_cases h : k' = k
    · simp [h, assocGet]
    · simp [h, assocGet, ih]

theorem assocGet_dictSet_ne {β : Type} (d : List (Name × β)) (k m : Name) (v : β) (hm : m ≠ k) :
    assocGet m (dictSet d k v) = assocGet m d := by
  induction d with
  | nil => simp [dictSet, assocGet, Ne.symm hm]
  | cons p rest ih =>
    obtain ⟨k', v'⟩ := p
    unfold dictSet
    by_cases h : k' = k
    · subst h
      simp [assocGet, Ne.symm hm]
    · by_cases h2 : k' = m
      · subst h2
        simp [h, assocGet]
      · simp [h, h2, assocGet, ih]

end SV.Proofs.C20
