/-
  Helper lemmas and invariants for the engine LTS (SV.Model.Engine). Property statements live in SV/Props/C05|C11|C12.
-/
import SV.Model.Engine

namespace SV.Proofs.Engine
open SV.Model.Engine

/-! ### the consumer alone: facts that hold for every input sequence -/

def countFailing : List Ev → Nat
  | [] => 0
  | .scenFinished _ st :: es => (if st.failing then 1 else 0) + countFailing es
  | _ :: es => countFailing es

theorem countFailing_append (a b : List Ev) : countFailing (a ++ b) = countFailing a + countFailing b := by
  induction a with
  | nil => simp [countFailing]
  | cons e es ih => cases e <;> simp [countFailing, ih] <;> omega

@[simp] theorem countFailing_nil : countFailing [] = 0 := rfl
@[simp] theorem countFailing_singleton_fin (i : Nat) (st : Status) :
    countFailing [.scenFinished i st] = if st.failing then 1 else 0 := by simp [countFailing]
@[simp] theorem countFailing_interrupted (b : Bool) : countFailing [.interrupted b] = 0 := rfl

@[simp] theorem countFailing_single_other (e : Ev) (h : ∀ i st, e ≠ .scenFinished i st) : countFailing [e] = 0 := by
  cases e <;> simp_all [countFailing]

@[simp] theorem cGot_maxFailures (c : CSt) (e : Ev) (sdy : Bool) :
    (cGot c e sdy).ctl.maxFailures = c.ctl.maxFailures := by
  unfold cGot cInterrupt gotCtl gotIntr gotCtl2 countIfFailing Ctl.countFailure
  cases e <;> simp <;> (repeat' split) <;> simp_all

/-- the loop is only ever (re-)entered with the limit flag down; the counter counts the failing scenarios yielded -/
def CapInv (c : CSt) : Prop :=
  ((c.pc = .preSuite ∨ c.pc = .loop ∨ c.pc = .sawEmpty) → c.ctl.limit = false) ∧
  ∀ m, c.ctl.maxFailures = some m →
    c.ctl.failures = countFailing c.out ∧
    (c.ctl.limit = false → c.ctl.failures < m) ∧
    (c.ctl.limit = true → c.ctl.failures ≤ m)

theorem capInv_cGot (c : CSt) (e : Ev) (sdy : Bool) (hpc : c.pc = .loop) (hi : CapInv c) : CapInv (cGot c e sdy) := by
  have hlim : c.ctl.limit = false := hi.1 (Or.inr (Or.inl hpc))
  constructor
  · unfold cGot cInterrupt gotCtl gotIntr gotCtl2
    by_cases hs : c.ctl.stop = true
    · simp [hs]
    · cases e <;> cases sdy <;>
        simp [hs, countIfFailing, Ctl.countFailure, hlim, Ctl.hasToStop] <;> (repeat' split) <;> simp_all
  · intro m hm
    rw [cGot_maxFailures] at hm
    obtain ⟨hf, hlt, hle⟩ := hi.2 m hm
    have hlt' := hlt hlim
    unfold cGot cInterrupt gotCtl gotIntr gotCtl2
    by_cases hs : c.ctl.stop = true
    · simp [hs, countFailing_append, hf, hlim]; omega
    · cases e with
      | scenFinished id st =>
        cases hfa : st.failing <;> cases sdy <;>
          simp [hs, countIfFailing, hfa, Ctl.countFailure, hm, countFailing_append, hf, hlim, Ctl.hasToStop] <;>
          (try split) <;> simp_all <;> omega
      | _ =>
        cases sdy <;>
          simp [hs, countIfFailing, countFailing_append, countFailing, hf, hlim, Ctl.hasToStop] <;>
          (try split) <;> simp_all <;> omega

theorem capInv_of_eq (c c' : CSt) (hi : CapInv c) (hctl : c'.ctl = c.ctl)
    (hout : countFailing c'.out = countFailing c.out)
    (hpc : (c'.pc = .preSuite ∨ c'.pc = .loop ∨ c'.pc = .sawEmpty) → c.ctl.limit = false) : CapInv c' := by
  constructor
  · intro h; rw [hctl]; exact hpc h
  · intro m hm
    rw [hctl] at hm ⊢
    rw [hout]
    exact hi.2 m hm

theorem capInv_cStep (v : Variant) (c c' : CSt) (i : CIn) (h : cStep v c i = some c') (hi : CapInv c) :
    CapInv c' := by
  have hloop : (c.pc = .preSuite ∨ c.pc = .loop ∨ c.pc = .sawEmpty) → c.ctl.limit = false := hi.1
  cases i with
  | got e sdy =>
    simp only [cStep] at h
    split at h <;> simp at h
    subst h
    exact capInv_cGot c e sdy (by simp_all) hi
  | start =>
    simp only [cStep] at h
    split at h <;> simp at h
    subst h
    exact capInv_of_eq c _ hi rfl (by simp [countFailing_append, countFailing]) (fun _ => hloop (by simp_all))
  | empty =>
    simp only [cStep] at h
    split at h <;> simp at h
    subst h
    exact capInv_of_eq c _ hi rfl rfl (fun _ => hloop (by simp_all))
  | alive a q =>
    simp only [cStep] at h
    split at h
    · split at h
      · simp at h; subst h
        exact capInv_of_eq c _ hi rfl rfl (fun _ => hloop (by simp_all))
      · cases v <;> simp at h <;> subst h
        · exact capInv_of_eq c _ hi rfl rfl (fun _ => hloop (by simp_all))
        · exact capInv_of_eq c _ hi rfl rfl (fun _ => hloop (by simp_all))
    · simp at h
  | ki =>
    simp only [cStep] at h
    split at h <;> simp at h
    subst h
    constructor
    · simp [cInterrupt]
    · intro m hm
      have := hi.2 m (by simpa [cInterrupt] using hm)
      simpa [cInterrupt, countFailing_append] using this
  | joined =>
    simp only [cStep] at h
    split at h <;> simp at h
    subst h
    have e1 : (cClose c).ctl = c.ctl := by simp only [cClose, finalStatus]
    have e2 : countFailing (cClose c).out = countFailing c.out := by
      simp only [cClose, finalStatus]; split <;> simp [countFailing_append, countFailing]
    have e3 : (cClose c).pc = .done := by simp only [cClose, finalStatus]
    exact capInv_of_eq c _ hi e1 e2 (by rw [e3]; simp)

/-- **for every input sequence** the consumer never yields more failing scenarios than `max_failures` -/
def cRun (v : Variant) : CSt → List CIn → Option CSt
  | c, [] => some c
  | c, i :: is => match cStep v c i with
    | some c' => cRun v c' is
    | none => none

theorem capInv_cRun (v : Variant) (c c' : CSt) (is : List CIn) (h : cRun v c is = some c') (hi : CapInv c) :
    CapInv c' := by
  induction is generalizing c with
  | nil => simp [cRun] at h; subst h; exact hi
  | cons i is ih =>
    simp only [cRun] at h
    split at h
    · rename_i c1 h1; exact ih c1 h (capInv_cStep v c c1 i h1 hi)
    · simp at h

theorem capInv_init (m : Option Nat) (hm : m ≠ some 0) : CapInv { ctl := { maxFailures := m } } := by
  constructor
  · simp
  · intro k hk
    simp at hk
    subst hk
    simp [countFailing]
    rcases k with _ | k
    · exact absurd rfl hm
    · omega

/-! ### stop requests are monotone -/

theorem countFailure_stop (c : Ctl) : c.countFailure.stop = c.stop := by
  unfold Ctl.countFailure; split <;> rfl

theorem countFailure_limit_mono (c : Ctl) (h : c.limit = true) : c.countFailure.limit = true := by
  unfold Ctl.countFailure; split <;> simp [h]

theorem cGot_hasToStop_mono (c : CSt) (e : Ev) (sdy : Bool) (h : c.ctl.hasToStop = true) :
    (cGot c e sdy).ctl.hasToStop = true := by
  unfold cGot cInterrupt gotCtl gotIntr gotCtl2 Ctl.hasToStop at *
  by_cases hs : c.ctl.stop = true
  · simp [hs]
  · have hl : c.ctl.limit = true := by simpa [hs] using h
    cases e <;> cases sdy <;> simp [hs, countIfFailing, hl] <;> (repeat' split) <;>
      simp_all [countFailure_limit_mono, countFailure_stop]

theorem cStep_hasToStop_mono (v : Variant) (c c' : CSt) (i : CIn) (h : cStep v c i = some c')
    (hs : c.ctl.hasToStop = true) : c'.ctl.hasToStop = true := by
  cases i with
  | got e sdy =>
    simp only [cStep] at h; split at h <;> simp at h; subst h; exact cGot_hasToStop_mono c e sdy hs
  | start => simp only [cStep] at h; split at h <;> simp at h; subst h; exact hs
  | empty => simp only [cStep] at h; split at h <;> simp at h; subst h; exact hs
  | alive a q =>
    simp only [cStep] at h
    split at h
    · split at h
      · simp at h; subst h; exact hs
      · cases v <;> simp at h <;> subst h <;> exact hs
    · simp at h
  | ki =>
    simp only [cStep] at h; split at h <;> simp at h; subst h
    simp [cInterrupt, Ctl.hasToStop]
  | joined =>
    simp only [cStep] at h; split at h <;> simp at h; subst h
    simpa [cClose, finalStatus] using hs

theorem step_hasToStop_mono (v : Variant) (s s' : St) (h : Step v s s') (hs : s.c.ctl.hasToStop = true) :
    s'.c.ctl.hasToStop = true := by
  cases h with
  | worker => exact hs
  | cStart c' h => exact cStep_hasToStop_mono v _ _ _ h hs
  | cGot e q sdy c' hq h => exact cStep_hasToStop_mono v _ _ _ h hs
  | cEmpty c' hq h => exact cStep_hasToStop_mono v _ _ _ h hs
  | cAlive c' h => exact cStep_hasToStop_mono v _ _ _ h hs
  | cKi c' h => exact cStep_hasToStop_mono v _ _ _ h hs
  | cJoined c' hd h => exact cStep_hasToStop_mono v _ _ _ h hs
  | envStop => simp [Ctl.hasToStop]

/-! ### after a stop request a worker sends at most one more request -/

def isChecked : WSt → Bool
  | .run _ (.cases _ true) => true
  | _ => false

def LateInv (ctl : Ctl) (w : W) : Prop :=
  w.late ≤ 1 ∧ (w.late = 1 → ctl.hasToStop = true ∧ isChecked w.st = false)

theorem lateInv_wStep (ctl : Ctl) (w w' : W) (ops ops' : List Script) (evs : List Ev)
    (h : wStep ctl w ops = some (w', ops', evs)) (hi : LateInv ctl w) : LateInv ctl w' := by
  obtain ⟨st, late⟩ := w
  unfold LateInv at *
  simp only [wStep] at h
  cases st with
  | dead => simp at h
  | head =>
    simp at h; obtain ⟨rfl, _, _⟩ := h
    split <;> simp_all [isChecked]
  | fetching =>
    cases ops with
    | nil => simp at h; obtain ⟨rfl, _, _⟩ := h; simp_all [isChecked]
    | cons sc rest => simp at h; obtain ⟨rfl, _, _⟩ := h; split <;> simp_all [isChecked]
  | run sc pc =>
    cases pc with
    | cases k chk =>
      cases k with
      | zero => simp at h; obtain ⟨rfl, _, _⟩ := h; simp_all [isChecked]
      | succ k =>
        cases chk with
        | false =>
          simp at h
          split at h <;> simp at h <;> obtain ⟨rfl, _, _⟩ := h <;> simp_all [isChecked]
        | true =>
          simp at h; obtain ⟨rfl, _, _⟩ := h
          obtain ⟨h1, h2⟩ := hi
          simp [isChecked] at h1 h2
          by_cases hs : ctl.hasToStop = true
          · simp [hs, isChecked]; omega
          · simp [hs, isChecked]; omega
    | errs k =>
      cases k <;> simp at h <;> obtain ⟨rfl, _, _⟩ := h <;> simp_all [isChecked]
    | toStart => simp at h; obtain ⟨rfl, _, _⟩ := h; simp_all [isChecked]
    | toFinish => simp at h; obtain ⟨rfl, _, _⟩ := h; simp_all [isChecked]
    | intr1 => simp at h; obtain ⟨rfl, _, _⟩ := h; simp_all [isChecked]
    | intr2 => simp at h; obtain ⟨rfl, _, _⟩ := h; simp_all [isChecked]
    | bare => simp at h; obtain ⟨rfl, _, _⟩ := h; simp_all [isChecked]

theorem lateInv_mono (ctl ctl' : Ctl) (w : W) (hm : ctl.hasToStop = true → ctl'.hasToStop = true)
    (hi : LateInv ctl w) : LateInv ctl' w :=
  ⟨hi.1, fun h => ⟨hm (hi.2 h).1, (hi.2 h).2⟩⟩

theorem late_reach (v : Variant) (s0 s : St) (h : Reach v s0 s) (h0 : ∀ w ∈ s0.ws, LateInv s0.c.ctl w) :
    ∀ w ∈ s.ws, LateInv s.c.ctl w := by
  induction h with
  | refl => exact h0
  | step s s' _ hstep ih =>
    have mono := step_hasToStop_mono v s s' hstep
    cases hstep with
    | worker l r w w' ops' evs hws hst hw =>
      intro x hx
      simp only [List.mem_append, List.mem_cons] at hx
      have hwin : w ∈ s.ws := by rw [hws]; simp
      rcases hx with hx | rfl | hx
      · exact ih x (by rw [hws]; simp [hx])
      · exact lateInv_wStep _ _ _ _ _ _ hw (ih w hwin)
      · exact ih x (by rw [hws]; simp [hx])
    | cStart c' h => intro x hx; exact lateInv_mono _ _ _ mono (ih x hx)
    | cGot e q sdy c' hq h => intro x hx; exact lateInv_mono _ _ _ mono (ih x hx)
    | cEmpty c' hq h => intro x hx; exact lateInv_mono _ _ _ mono (ih x hx)
    | cAlive c' h => intro x hx; exact lateInv_mono _ _ _ mono (ih x hx)
    | cKi c' h => intro x hx; exact lateInv_mono _ _ _ mono (ih x hx)
    | cJoined c' hd h => intro x hx; exact lateInv_mono _ _ _ mono (ih x hx)
    | envStop => intro x hx; exact lateInv_mono _ _ _ mono (ih x hx)

theorem capInv_reach (v : Variant) (s0 s : St) (h : Reach v s0 s) (h0 : CapInv s0.c) : CapInv s.c := by
  induction h with
  | refl => exact h0
  | step s s' _ hstep ih =>
    cases hstep with
    | worker => exact ih
    | cStart c' h => exact capInv_cStep v _ _ _ h ih
    | cGot e q sdy c' hq h => exact capInv_cStep v _ _ _ h ih
    | cEmpty c' hq h => exact capInv_cStep v _ _ _ h ih
    | cAlive c' h => exact capInv_cStep v _ _ _ h ih
    | cKi c' h => exact capInv_cStep v _ _ _ h ih
    | cJoined c' hd h => exact capInv_cStep v _ _ _ h ih
    | envStop =>
      exact ⟨fun hp => ih.1 hp, fun m hm => ih.2 m hm⟩

/-! ### nothing put is lost between the queue and the stream -/

def isWorkerEv : Ev → Bool
  | .scenStarted _ | .scenFinished _ _ | .nonFatal _ | .interrupted false => true
  | _ => false

def yieldedW (out : List Ev) : List Ev := out.filter isWorkerEv

theorem wStep_workerEvs (ctl : Ctl) (w w' : W) (ops ops' : List Script) (evs : List Ev)
    (h : wStep ctl w ops = some (w', ops', evs)) : ∀ e ∈ evs, isWorkerEv e = true := by
  obtain ⟨st, late⟩ := w
  simp only [wStep] at h
  cases st with
  | dead => simp at h
  | head => simp at h; obtain ⟨_, _, rfl⟩ := h; simp
  | fetching => cases ops <;> simp at h <;> obtain ⟨_, _, rfl⟩ := h <;> simp
  | run sc pc =>
    cases pc with
    | cases k chk =>
      cases k with
      | zero => simp at h; obtain ⟨_, _, rfl⟩ := h; simp
      | succ k =>
        cases chk
        · simp at h; split at h <;> simp at h <;> obtain ⟨_, _, rfl⟩ := h <;> simp
        · simp at h; obtain ⟨_, _, rfl⟩ := h; simp
    | errs k => cases k <;> simp at h <;> obtain ⟨_, _, rfl⟩ := h <;> simp [isWorkerEv]
    | toStart => simp at h; obtain ⟨_, _, rfl⟩ := h; simp [isWorkerEv]
    | toFinish => simp at h; obtain ⟨_, _, rfl⟩ := h; simp [isWorkerEv]
    | intr1 => simp at h; obtain ⟨_, _, rfl⟩ := h; simp [isWorkerEv]
    | intr2 => simp at h; obtain ⟨_, _, rfl⟩ := h; simp [isWorkerEv]
    | bare => simp at h; obtain ⟨_, _, rfl⟩ := h; simp [isWorkerEv]

theorem cGot_out (c : CSt) (e : Ev) (sdy : Bool) :
    (c.ctl.stop = false → (cGot c e sdy).out = c.out ++ [e]) ∧
    (c.ctl.stop = true → (cGot c e sdy).out = c.out ++ [.interrupted true] ∧ (cGot c e sdy).ctl.stop = true) := by
  unfold cGot cInterrupt
  constructor
  · intro h; simp [h]
  · intro h; simp [h]

theorem cGot_stop_mono (c : CSt) (e : Ev) (sdy : Bool) (h : c.ctl.stop = true) : (cGot c e sdy).ctl.stop = true :=
  ((cGot_out c e sdy).2 h).2

/-- every consumer step other than a yielding `got` appends only consumer-made events and keeps a raised stop flag -/
theorem cStep_other_out (v : Variant) (c c' : CSt) (i : CIn) (h : cStep v c i = some c')
    (hi : ∀ e sdy, i ≠ .got e sdy) :
    yieldedW c'.out = yieldedW c.out ∧ (c.ctl.stop = true → c'.ctl.stop = true) := by
  cases i with
  | got e sdy => exact absurd rfl (hi e sdy)
  | start => simp only [cStep] at h; split at h <;> simp at h; subst h; simp [yieldedW, isWorkerEv]
  | empty => simp only [cStep] at h; split at h <;> simp at h; subst h; simp
  | alive a q =>
    simp only [cStep] at h
    split at h
    · split at h
      · simp at h; subst h; simp
      · cases v <;> simp at h <;> subst h <;> simp
    · simp at h
  | ki => simp only [cStep] at h; split at h <;> simp at h; subst h; simp [cInterrupt, yieldedW, isWorkerEv]
  | joined =>
    simp only [cStep] at h; split at h <;> simp at h; subst h
    simp [cClose, finalStatus, yieldedW, isWorkerEv]

structure HistInv (s : St) : Prop where
  worker : ∀ e ∈ s.hist, isWorkerEv e = true
  split : ∃ d, s.hist = d ++ s.queue ∧
    (yieldedW s.c.out = d ∨ (s.c.ctl.stop = true ∧ yieldedW s.c.out <+: d))

theorem histInv_other (v : Variant) (s : St) (c' : CSt) (i : CIn) (h : cStep v s.c i = some c')
    (hi : ∀ e sdy, i ≠ .got e sdy) (inv : HistInv s) : HistInv { s with c := c' } := by
  obtain ⟨ho, hs⟩ := cStep_other_out v s.c c' i h hi
  refine ⟨inv.worker, ?_⟩
  obtain ⟨d, hd, hy⟩ := inv.split
  refine ⟨d, hd, ?_⟩
  simp only
  rw [ho]
  rcases hy with hy | ⟨h1, h2⟩
  · exact Or.inl hy
  · exact Or.inr ⟨hs h1, h2⟩

theorem histInv_step (v : Variant) (s s' : St) (h : Step v s s') (inv : HistInv s) : HistInv s' := by
  cases h with
  | worker l r w w' ops' evs hws hst hw =>
    have hev := wStep_workerEvs _ _ _ _ _ _ hw
    refine ⟨?_, ?_⟩
    · intro e he
      simp only [List.mem_append] at he
      rcases he with he | he
      · exact inv.worker e he
      · exact hev e he
    · obtain ⟨d, hd, hy⟩ := inv.split
      exact ⟨d, by simp [hd], hy⟩
  | cStart c' h => exact histInv_other v s c' _ h (by simp) inv
  | cEmpty c' hq h => exact histInv_other v s c' _ h (by simp) inv
  | cAlive c' h => exact histInv_other v s c' _ h (by simp) inv
  | cKi c' h => exact histInv_other v s c' _ h (by simp) inv
  | cJoined c' hd h => exact histInv_other v s c' _ h (by simp) inv
  | envStop =>
    refine ⟨inv.worker, ?_⟩
    obtain ⟨d, hd, hy⟩ := inv.split
    refine ⟨d, hd, ?_⟩
    rcases hy with hy | ⟨_, h2⟩
    · exact Or.inl hy
    · exact Or.inr ⟨rfl, h2⟩
  | cGot e q sdy c' hq h =>
    simp only [cStep] at h
    split at h <;> simp at h
    subst h
    refine ⟨inv.worker, ?_⟩
    obtain ⟨d, hd, hy⟩ := inv.split
    have hwe : isWorkerEv e = true := inv.worker e (by rw [hd, hq]; simp)
    refine ⟨d ++ [e], by simp [hd, hq], ?_⟩
    simp only
    by_cases hs : s.c.ctl.stop = true
    · obtain ⟨ho, hst⟩ := (cGot_out s.c e sdy).2 hs
      right
      refine ⟨hst, ?_⟩
      rw [ho]
      have : yieldedW (s.c.out ++ [Ev.interrupted true]) = yieldedW s.c.out := by simp [yieldedW, isWorkerEv]
      rw [this]
      rcases hy with hy | ⟨_, h2⟩
      · rw [hy]; exact List.prefix_append d [e]
      · exact h2.trans (List.prefix_append d [e])
    · have hs' : s.c.ctl.stop = false := by simpa using hs
      have ho := (cGot_out s.c e sdy).1 hs'
      left
      rw [ho]
      rcases hy with hy | ⟨h1, _⟩
      · simp [yieldedW, hwe] at hy ⊢; rw [hy]
      · rw [h1] at hs'; cases hs'

theorem histInv_reach (v : Variant) (s0 s : St) (h : Reach v s0 s) (h0 : HistInv s0) : HistInv s := by
  induction h with
  | refl => exact h0
  | step s s' _ hstep ih => exact histInv_step v s s' hstep ih

/-! ### every operation is run to completion and delivered (repaired consumer) -/

theorem wStep_ops (ctl : Ctl) (w w' : W) (ops ops' : List Script) (evs : List Ev)
    (h : wStep ctl w ops = some (w', ops', evs)) :
    (ops' = ops ∧ w.st ≠ .fetching) ∨ (w.st = .fetching ∧ ops = [] ∧ ops' = [] ∧ w'.st = .dead ∧ evs = []) ∨
    (∃ sc, w.st = .fetching ∧ ops = sc :: ops' ∧ w'.st = .run sc (if sc.bare then .bare else .toStart) ∧ evs = []) := by
  obtain ⟨st, late⟩ := w
  simp only [wStep] at h
  cases st with
  | dead => simp at h
  | head => simp at h; obtain ⟨_, rfl, _⟩ := h; simp
  | fetching =>
    cases ops with
    | nil => simp at h; obtain ⟨rfl, rfl, rfl⟩ := h; simp
    | cons sc rest => simp at h; obtain ⟨rfl, rfl, rfl⟩ := h; simp
  | run sc pc =>
    left
    cases pc with
    | cases k chk =>
      cases k with
      | zero => simp at h; obtain ⟨_, rfl, _⟩ := h; simp
      | succ k =>
        cases chk
        · simp at h; split at h <;> simp at h <;> obtain ⟨_, rfl, _⟩ := h <;> simp
        · simp at h; obtain ⟨_, rfl, _⟩ := h; simp
    | errs k => cases k <;> simp at h <;> obtain ⟨_, rfl, _⟩ := h <;> simp
    | toStart => simp at h; obtain ⟨_, rfl, _⟩ := h; simp
    | toFinish => simp at h; obtain ⟨_, rfl, _⟩ := h; simp
    | intr1 => simp at h; obtain ⟨_, rfl, _⟩ := h; simp
    | intr2 => simp at h; obtain ⟨_, rfl, _⟩ := h; simp
    | bare => simp at h; obtain ⟨_, rfl, _⟩ := h; simp

/-- a worker only dies because of a stop request or because no operation is left -/
theorem wStep_dead (ctl : Ctl) (w w' : W) (ops ops' : List Script) (evs : List Ev)
    (h : wStep ctl w ops = some (w', ops', evs)) (hd : w'.st = .dead) : ctl.hasToStop = true ∨ ops' = [] := by
  obtain ⟨st, late⟩ := w
  simp only [wStep] at h
  cases st with
  | dead => simp at h
  | head =>
    simp at h; obtain ⟨rfl, _, _⟩ := h
    by_cases hs : ctl.hasToStop = true
    · exact Or.inl hs
    · simp [hs] at hd
  | fetching =>
    cases ops with
    | nil => simp at h; obtain ⟨_, rfl, _⟩ := h; exact Or.inr rfl
    | cons sc rest => simp at h; obtain ⟨rfl, _, _⟩ := h; simp at hd
  | run sc pc =>
    exfalso
    cases pc with
    | cases k chk =>
      cases k with
      | zero => simp at h; obtain ⟨rfl, _, _⟩ := h; simp at hd
      | succ k =>
        cases chk
        · simp at h; split at h <;> simp at h <;> obtain ⟨rfl, _, _⟩ := h <;> simp at hd
        · simp at h; obtain ⟨rfl, _, _⟩ := h; simp at hd
    | errs k => cases k <;> simp at h <;> obtain ⟨rfl, _, _⟩ := h <;> simp at hd
    | toStart => simp at h; obtain ⟨rfl, _, _⟩ := h; simp at hd
    | toFinish => simp at h; obtain ⟨rfl, _, _⟩ := h; simp at hd
    | intr1 => simp at h; obtain ⟨rfl, _, _⟩ := h; simp at hd
    | intr2 => simp at h; obtain ⟨rfl, _, _⟩ := h; simp at hd
    | bare => simp at h; obtain ⟨rfl, _, _⟩ := h; simp at hd

def DeadInv (s : St) : Prop := ∀ w ∈ s.ws, w.st = .dead → s.c.ctl.hasToStop = true ∨ s.ops = []

theorem deadInv_step (v : Variant) (s s' : St) (h : Step v s s') (inv : DeadInv s) : DeadInv s' := by
  have mono := step_hasToStop_mono v s s' h
  cases h with
  | worker l r w w' ops' evs hws hst hw =>
    intro x hx hxd
    simp only [List.mem_append, List.mem_cons] at hx
    have hops : s.ops = [] → ops' = [] := by
      intro h0
      rcases wStep_ops _ _ _ _ _ _ hw with ⟨h1, _⟩ | ⟨_, _, h1, _⟩ | ⟨sc, _, h1, _⟩
      · rw [h1, h0]
      · exact h1
      · rw [h0] at h1; cases h1
    rcases hx with hx | rfl | hx
    · rcases inv x (by rw [hws]; simp [hx]) hxd with h1 | h1
      · exact Or.inl h1
      · exact Or.inr (hops h1)
    · exact wStep_dead _ _ _ _ _ _ hw hxd
    · rcases inv x (by rw [hws]; simp [hx]) hxd with h1 | h1
      · exact Or.inl h1
      · exact Or.inr (hops h1)
  | cStart c' h => intro x hx hd; exact (inv x hx hd).imp mono id
  | cGot e q sdy c' hq h => intro x hx hd; exact (inv x hx hd).imp mono id
  | cEmpty c' hq h => intro x hx hd; exact (inv x hx hd).imp mono id
  | cAlive c' h => intro x hx hd; exact (inv x hx hd).imp mono id
  | cKi c' h => intro x hx hd; exact (inv x hx hd).imp mono id
  | cJoined c' hd h => intro x hx hd'; exact (inv x hx hd').imp mono id
  | envStop => intro x hx hd; exact (inv x hx hd).imp mono id

/-- repaired consumer: the loop is only left on a stop request or with every worker dead *and* the queue empty -/
def ClosingInv (s : St) : Prop :=
  (s.c.pc = .closing ∨ s.c.pc = .done) → s.c.ctl.hasToStop = true ∨ (allDead s.ws = true ∧ s.queue = [])

theorem cGot_pc (c : CSt) (e : Ev) (sdy : Bool) :
    (cGot c e sdy).pc = .loop ∨ ((cGot c e sdy).pc = .closing ∧ (cGot c e sdy).ctl.hasToStop = true) := by
  unfold cGot cInterrupt
  by_cases hs : c.ctl.stop = true
  · right; simp [hs, Ctl.hasToStop]
  · simp only [hs, Bool.false_eq_true, if_false]
    by_cases h2 : (gotCtl c.ctl e sdy).hasToStop = true
    · right; simp [h2]
    · left; simp [h2]

theorem wStep_not_dead (ctl : Ctl) (w w' : W) (ops ops' : List Script) (evs : List Ev)
    (h : wStep ctl w ops = some (w', ops', evs)) : w.st ≠ .dead := by
  intro hd
  obtain ⟨st, late⟩ := w
  simp at hd; subst hd
  simp [wStep] at h

theorem closingInv_step (s s' : St) (h : Step .repaired s s') (inv : ClosingInv s) : ClosingInv s' := by
  have mono := step_hasToStop_mono .repaired s s' h
  cases h with
  | worker l r w w' ops' evs hws hst hw =>
    intro hp
    rcases inv hp with h1 | ⟨h1, _⟩
    · exact Or.inl h1
    · exfalso
      have : w.st = .dead := by
        have hw' : w ∈ s.ws := by rw [hws]; simp
        simp only [allDead, List.all_eq_true] at h1
        simpa using h1 w hw'
      exact wStep_not_dead _ _ _ _ _ _ hw this
  | cStart c' h =>
    simp only [cStep] at h; split at h <;> simp at h; subst h
    intro hp; simp at hp
  | cGot e q sdy c' hq h =>
    simp only [cStep] at h; split at h <;> simp at h; subst h
    intro hp
    rcases cGot_pc s.c e sdy with h1 | ⟨_, h2⟩
    · simp only at hp; rw [h1] at hp; simp at hp
    · exact Or.inl h2
  | cEmpty c' hq h =>
    simp only [cStep] at h; split at h <;> simp at h; subst h
    intro hp; simp at hp
  | cAlive c' h =>
    simp only [cStep] at h
    split at h
    · split at h
      · simp at h; subst h; intro hp; simp at hp
      · simp at h; subst h
        intro hp
        simp only at hp
        split at hp
        · rename_i hq hne
          right
          simp at hne hq
          exact ⟨by simpa using hq, hne⟩
        · simp at hp
    · simp at h
  | cKi c' h =>
    simp only [cStep] at h; split at h <;> simp at h; subst h
    intro _; left; simp [cInterrupt, Ctl.hasToStop]
  | cJoined c' hd h =>
    simp only [cStep] at h; split at h <;> simp at h; subst h
    rename_i hpc
    intro _
    have := inv (Or.inl (by simpa using hpc))
    simpa [cClose, finalStatus] using this
  | envStop => intro _; left; simp [Ctl.hasToStop]

/-- the event that closes an operation's script -/
def finishedEv (sc : Script) : Ev := if sc.bare then .nonFatal sc.id else .scenFinished sc.id sc.final

def notIntr : RunPc → Bool
  | .intr1 | .intr2 => false
  | _ => true

/-- where an operation of the initial list is: still queued for a worker, being run, done, or cut short by a stop -/
def ScriptInv (sc : Script) (s : St) : Prop :=
  sc ∈ s.ops ∨ (∃ w ∈ s.ws, ∃ pc, w.st = .run sc pc ∧ notIntr pc = true ∧ (pc = .bare ↔ sc.bare = true)) ∨
    finishedEv sc ∈ s.hist ∨ s.c.ctl.hasToStop = true

theorem wStep_run (ctl : Ctl) (sc : Script) (pc : RunPc) (late : Nat) (w' : W) (ops ops' : List Script) (evs : List Ev)
    (h : wStep ctl ⟨.run sc pc, late⟩ ops = some (w', ops', evs)) (hn : notIntr pc = true)
    (hb : pc = .bare ↔ sc.bare = true) :
    (∃ pc', w'.st = .run sc pc' ∧ notIntr pc' = true ∧ (pc' = .bare ↔ sc.bare = true)) ∨ finishedEv sc ∈ evs ∨
      ctl.hasToStop = true := by
  simp only [wStep] at h
  cases pc with
  | cases k chk =>
    have hnb : ¬ sc.bare = true := fun hh => by have := hb.2 hh; cases this
    cases k with
    | zero => simp at h; obtain ⟨rfl, _, _⟩ := h; left; exact ⟨_, rfl, rfl, by simp [hnb]⟩
    | succ k =>
      cases chk
      · simp at h
        by_cases hs : ctl.hasToStop = true
        · exact Or.inr (Or.inr hs)
        · simp [hs] at h; obtain ⟨rfl, _, _⟩ := h; left; exact ⟨_, rfl, rfl, by simp [hnb]⟩
      · simp at h; obtain ⟨rfl, _, _⟩ := h; left; exact ⟨_, rfl, rfl, by simp [hnb]⟩
  | errs k =>
    have hnb : ¬ sc.bare = true := fun hh => by have := hb.2 hh; cases this
    cases k <;> simp at h <;> obtain ⟨rfl, _, _⟩ := h <;> left <;> exact ⟨_, rfl, rfl, by simp [hnb]⟩
  | toStart =>
    have hnb : ¬ sc.bare = true := fun hh => by have := hb.2 hh; cases this
    simp at h; obtain ⟨rfl, _, _⟩ := h; left; exact ⟨_, rfl, rfl, by simp [hnb]⟩
  | toFinish =>
    have hnb : ¬ sc.bare = true := fun hh => by have := hb.2 hh; cases this
    simp at h; obtain ⟨_, _, rfl⟩ := h
    right; left
    simp [finishedEv, hnb]
  | bare =>
    have hbb : sc.bare = true := hb.1 rfl
    simp at h; obtain ⟨_, _, rfl⟩ := h
    right; left
    simp [finishedEv, hbb]
  | intr1 => simp [notIntr] at hn
  | intr2 => simp [notIntr] at hn

theorem scriptInv_step (v : Variant) (sc : Script) (s s' : St) (h : Step v s s') (inv : ScriptInv sc s) :
    ScriptInv sc s' := by
  have mono := step_hasToStop_mono v s s' h
  have keep : ∀ c', (s.c.ctl.hasToStop = true → c'.ctl.hasToStop = true) →
      ScriptInv sc { s with c := c' } := by
    intro c' hm
    rcases inv with h1 | h1 | h1 | h1
    · exact Or.inl h1
    · exact Or.inr (Or.inl h1)
    · exact Or.inr (Or.inr (Or.inl h1))
    · exact Or.inr (Or.inr (Or.inr (hm h1)))
  cases h with
  | cStart c' h => exact keep c' mono
  | cEmpty c' hq h => exact keep c' mono
  | cAlive c' h => exact keep c' mono
  | cKi c' h => exact keep c' mono
  | cJoined c' hd h => exact keep c' mono
  | envStop => exact keep _ mono
  | cGot e q sdy c' hq h =>
    rcases inv with h1 | h1 | h1 | h1
    · exact Or.inl h1
    · exact Or.inr (Or.inl h1)
    · exact Or.inr (Or.inr (Or.inl h1))
    · exact Or.inr (Or.inr (Or.inr (mono h1)))
  | worker l r w w' ops' evs hws hst hw =>
    rcases inv with h1 | ⟨x, hx, pc, hxs, hn, hb⟩ | h1 | h1
    · -- still in the producer's list
      rcases wStep_ops _ _ _ _ _ _ hw with ⟨h2, _⟩ | ⟨_, h2, _⟩ | ⟨sc', _, h2, h3, _⟩
      · left; simpa [h2] using h1
      · rw [h2] at h1; cases h1
      · rw [h2] at h1
        rcases List.mem_cons.1 h1 with rfl | h4
        · right; left
          refine ⟨w', by simp, _, h3, ?_, ?_⟩
          · split <;> rfl
          · by_cases hbb : sc.bare = true <;> simp [hbb]
        · left; exact h4
    · rw [hws] at hx
      simp only [List.mem_append, List.mem_cons] at hx
      rcases hx with hx | rfl | hx
      · right; left; exact ⟨x, by simp [hx], pc, hxs, hn, hb⟩
      · obtain ⟨st, late⟩ := x
        simp at hxs; subst hxs
        rcases wStep_run _ _ _ _ _ _ _ _ hw hn hb with ⟨pc', h5, h6, h7⟩ | h5 | h5
        · right; left; exact ⟨w', by simp, pc', h5, h6, h7⟩
        · right; right; left; simp [h5]
        · right; right; right; exact h5
      · right; left; exact ⟨x, by simp [hx], pc, hxs, hn, hb⟩
    · right; right; left; simp [h1]
    · right; right; right; exact h1

/-! ### the executable schedule replayer only takes real steps -/

theorem fire_sound (v : Variant) (s s' : St) (l : Label) (h : fire v s l = some s') : Step v s s' := by
  cases l with
  | worker i =>
    simp only [fire] at h
    split at h
    · simp at h
    · rename_i hpc
      split at h
      · simp at h
      · rename_i w hw
        split at h
        · simp at h
        · rename_i w' ops' evs hstep
          simp at h
          subst h
          have hi : i < s.ws.length := by
            rcases List.getElem?_eq_some_iff.1 hw with ⟨hi, _⟩; exact hi
          have hwe : s.ws[i] = w := by
            rcases List.getElem?_eq_some_iff.1 hw with ⟨_, h2⟩; exact h2
          have hsplit : s.ws = s.ws.take i ++ w :: s.ws.drop (i + 1) := by
            rw [← hwe, List.getElem_cons_drop, List.take_append_drop]
          have hset : s.ws.set i w' = s.ws.take i ++ w' :: s.ws.drop (i + 1) := by
            rw [List.set_eq_take_append_cons_drop]; simp [hi]
          rw [hset]
          exact Step.worker s (s.ws.take i) (s.ws.drop (i + 1)) w w' ops' evs hsplit (by simpa using hpc) hstep
  | cStart =>
    simp only [fire, Option.map_eq_some_iff] at h
    obtain ⟨c', hc, rfl⟩ := h
    exact Step.cStart s c' hc
  | cGot sdy =>
    simp only [fire] at h
    split at h
    · simp at h
    · rename_i e q hq
      simp only [Option.map_eq_some_iff] at h
      obtain ⟨c', hc, rfl⟩ := h
      exact Step.cGot s e q sdy c' hq hc
  | cEmpty =>
    simp only [fire] at h
    split at h
    · rename_i hq
      simp only [Option.map_eq_some_iff] at h
      obtain ⟨c', hc, rfl⟩ := h
      exact Step.cEmpty s c' (by simpa using hq) hc
    · simp at h
  | cAlive =>
    simp only [fire, Option.map_eq_some_iff] at h
    obtain ⟨c', hc, rfl⟩ := h
    exact Step.cAlive s c' hc
  | cKi =>
    simp only [fire, Option.map_eq_some_iff] at h
    obtain ⟨c', hc, rfl⟩ := h
    exact Step.cKi s c' hc
  | cJoined =>
    simp only [fire] at h
    split at h
    · rename_i hd
      simp only [Option.map_eq_some_iff] at h
      obtain ⟨c', hc, rfl⟩ := h
      exact Step.cJoined s c' hd hc
    · simp at h
  | envStop =>
    simp only [fire] at h
    simp at h
    subst h
    exact Step.envStop s

theorem fireAll_reach (v : Variant) (s0 s s' : St) (ls : List Label) (hr : Reach v s0 s)
    (h : fireAll v s ls = some s') : Reach v s0 s' := by
  induction ls generalizing s with
  | nil => simp [fireAll] at h; subst h; exact hr
  | cons l ls ih =>
    simp only [fireAll] at h
    split at h
    · rename_i s1 h1
      exact ih s1 (Reach.step s s1 hr (fire_sound v s s1 l h1)) h
    · simp at h

/-! ### initial state -/

theorem histInv_init (ops : List Script) (n : Nat) (m : Option Nat) : HistInv (init ops n m) :=
  ⟨by simp [init], ⟨[], by simp [init], Or.inl (by simp [init, yieldedW])⟩⟩

theorem deadInv_init (ops : List Script) (n : Nat) (m : Option Nat) : DeadInv (init ops n m) := by
  intro w hw hd
  simp [init, List.mem_replicate] at hw
  rw [hw.2] at hd
  cases hd

theorem closingInv_init (ops : List Script) (n : Nat) (m : Option Nat) : ClosingInv (init ops n m) := by
  intro h; simp [init] at h

theorem scriptInv_init (ops : List Script) (n : Nat) (m : Option Nat) (sc : Script) (h : sc ∈ ops) :
    ScriptInv sc (init ops n m) := Or.inl (by simpa [init] using h)

theorem lateInv_init (ops : List Script) (n : Nat) (m : Option Nat) :
    ∀ w ∈ (init ops n m).ws, LateInv (init ops n m).c.ctl w := by
  intro w hw
  simp [init, List.mem_replicate] at hw
  rw [hw.2]
  simp [LateInv]

theorem ws_ne_nil_step (v : Variant) (s s' : St) (h : Step v s s') (hne : s.ws ≠ []) : s'.ws ≠ [] := by
  cases h <;> simp_all

theorem ws_ne_nil_reach (v : Variant) (s0 s : St) (h : Reach v s0 s) (hne : s0.ws ≠ []) : s.ws ≠ [] := by
  induction h with
  | refl => exact hne
  | step s s' _ hstep ih => exact ws_ne_nil_step v s s' hstep ih

theorem deadInv_reach (v : Variant) (s0 s : St) (h : Reach v s0 s) (h0 : DeadInv s0) : DeadInv s := by
  induction h with
  | refl => exact h0
  | step s s' _ hstep ih => exact deadInv_step v s s' hstep ih

theorem closingInv_reach (s0 s : St) (h : Reach .repaired s0 s) (h0 : ClosingInv s0) : ClosingInv s := by
  induction h with
  | refl => exact h0
  | step s s' _ hstep ih => exact closingInv_step s s' hstep ih

theorem scriptInv_reach (v : Variant) (sc : Script) (s0 s : St) (h : Reach v s0 s) (h0 : ScriptInv sc s0) :
    ScriptInv sc s := by
  induction h with
  | refl => exact h0
  | step s s' _ hstep ih => exact scriptInv_step v sc s s' hstep ih

/-! ### interruption markers only exist after a stop request; statuses fold monotonically -/

def isIntrEv : Ev → Bool
  | .interrupted false => true
  | .scenFinished _ .interrupted => true
  | _ => false

def ScriptOk (sc : Script) : Prop := sc.final ≠ .interrupted

structure IntrInv (s : St) : Prop where
  hist : ∀ e ∈ s.hist, isIntrEv e = true → s.c.ctl.hasToStop = true
  ops : ∀ sc ∈ s.ops, ScriptOk sc
  ws : ∀ w ∈ s.ws, ∀ sc pc, w.st = .run sc pc → ScriptOk sc ∧ (notIntr pc = false → s.c.ctl.hasToStop = true)

theorem wStep_intr (ctl : Ctl) (w w' : W) (ops ops' : List Script) (evs : List Ev)
    (h : wStep ctl w ops = some (w', ops', evs))
    (hops : ∀ sc ∈ ops, ScriptOk sc)
    (hw : ∀ sc pc, w.st = .run sc pc → ScriptOk sc ∧ (notIntr pc = false → ctl.hasToStop = true)) :
    (∀ e ∈ evs, isIntrEv e = true → ctl.hasToStop = true) ∧
    (∀ sc pc, w'.st = .run sc pc → ScriptOk sc ∧ (notIntr pc = false → ctl.hasToStop = true)) := by
  obtain ⟨st, late⟩ := w
  simp only [wStep] at h
  cases st with
  | dead => simp at h
  | head => simp at h; obtain ⟨rfl, _, rfl⟩ := h; split <;> simp
  | fetching =>
    cases ops with
    | nil => simp at h; obtain ⟨rfl, _, rfl⟩ := h; simp
    | cons sc rest =>
      simp at h; obtain ⟨rfl, _, rfl⟩ := h
      refine ⟨by simp, ?_⟩
      intro sc' pc' h'
      simp at h'
      obtain ⟨rfl, rfl⟩ := h'
      refine ⟨hops _ (by simp), ?_⟩
      split <;> simp [notIntr]
  | run sc pc =>
    have hsc := (hw sc pc rfl).1
    have hpc := (hw sc pc rfl).2
    cases pc with
    | cases k chk =>
      cases k with
      | zero =>
        simp at h; obtain ⟨rfl, _, rfl⟩ := h
        exact ⟨by simp, fun sc' pc' h' => by simp at h'; obtain ⟨rfl, rfl⟩ := h'; exact ⟨hsc, by simp [notIntr]⟩⟩
      | succ k =>
        cases chk
        · simp at h
          by_cases hs : ctl.hasToStop = true
          · simp [hs] at h; obtain ⟨rfl, _, rfl⟩ := h
            exact ⟨by simp, fun sc' pc' h' => by simp at h'; obtain ⟨rfl, rfl⟩ := h'; exact ⟨hsc, fun _ => hs⟩⟩
          · simp [hs] at h; obtain ⟨rfl, _, rfl⟩ := h
            exact ⟨by simp, fun sc' pc' h' => by simp at h'; obtain ⟨rfl, rfl⟩ := h'; exact ⟨hsc, by simp [notIntr]⟩⟩
        · simp at h; obtain ⟨rfl, _, rfl⟩ := h
          exact ⟨by simp, fun sc' pc' h' => by simp at h'; obtain ⟨rfl, rfl⟩ := h'; exact ⟨hsc, by simp [notIntr]⟩⟩
    | errs k =>
      cases k <;> simp at h <;> obtain ⟨rfl, _, rfl⟩ := h <;>
        exact ⟨by simp [isIntrEv], fun sc' pc' h' => by simp at h'; obtain ⟨rfl, rfl⟩ := h'; exact ⟨hsc, by simp [notIntr]⟩⟩
    | toStart =>
      simp at h; obtain ⟨rfl, _, rfl⟩ := h
      exact ⟨by simp [isIntrEv], fun sc' pc' h' => by simp at h'; obtain ⟨rfl, rfl⟩ := h'; exact ⟨hsc, by simp [notIntr]⟩⟩
    | toFinish =>
      simp at h; obtain ⟨rfl, _, rfl⟩ := h
      refine ⟨?_, by simp⟩
      intro e he hie
      simp at he; subst he
      unfold ScriptOk at hsc
      cases hf : sc.final <;> simp_all [isIntrEv]
    | intr1 =>
      simp at h; obtain ⟨rfl, _, rfl⟩ := h
      have hs := hpc (by simp [notIntr])
      exact ⟨fun _ _ _ => hs, fun sc' pc' h' => by simp at h'; obtain ⟨rfl, rfl⟩ := h'; exact ⟨hsc, fun _ => hs⟩⟩
    | intr2 =>
      simp at h; obtain ⟨rfl, _, rfl⟩ := h
      have hs := hpc (by simp [notIntr])
      exact ⟨fun _ _ _ => hs, by simp⟩
    | bare =>
      simp at h; obtain ⟨rfl, _, rfl⟩ := h
      exact ⟨by simp [isIntrEv], by simp⟩

theorem wStep_ops_sub (ctl : Ctl) (w w' : W) (ops ops' : List Script) (evs : List Ev)
    (h : wStep ctl w ops = some (w', ops', evs)) : ∀ sc ∈ ops', sc ∈ ops := by
  rcases wStep_ops _ _ _ _ _ _ h with ⟨h1, _⟩ | ⟨_, _, h1, _⟩ | ⟨sc, _, h1, _⟩
  · rw [h1]; exact fun _ h => h
  · rw [h1]; simp
  · rw [h1]; intro x hx; simp [hx]

theorem intrInv_step (v : Variant) (s s' : St) (h : Step v s s') (inv : IntrInv s) : IntrInv s' := by
  have mono := step_hasToStop_mono v s s' h
  have keep : ∀ c', (s.c.ctl.hasToStop = true → c'.ctl.hasToStop = true) → IntrInv { s with c := c' } := by
    intro c' hm
    exact ⟨fun e he hi => hm (inv.hist e he hi), inv.ops,
           fun w hw sc pc hst => ⟨(inv.ws w hw sc pc hst).1, fun hn => hm ((inv.ws w hw sc pc hst).2 hn)⟩⟩
  cases h with
  | cStart c' h => exact keep c' mono
  | cEmpty c' hq h => exact keep c' mono
  | cAlive c' h => exact keep c' mono
  | cKi c' h => exact keep c' mono
  | cJoined c' hd h => exact keep c' mono
  | envStop => exact keep _ mono
  | cGot e q sdy c' hq h =>
    exact ⟨fun e he hi => mono (inv.hist e he hi), inv.ops,
           fun w hw sc pc hst => ⟨(inv.ws w hw sc pc hst).1, fun hn => mono ((inv.ws w hw sc pc hst).2 hn)⟩⟩
  | worker l r w w' ops' evs hws hst hw =>
    have hwin : w ∈ s.ws := by rw [hws]; simp
    obtain ⟨h1, h2⟩ := wStep_intr _ _ _ _ _ _ hw inv.ops (inv.ws w hwin)
    refine ⟨?_, ?_, ?_⟩
    · intro e he hi
      simp only [List.mem_append] at he
      rcases he with he | he
      · exact inv.hist e he hi
      · exact h1 e he hi
    · intro sc hsc; exact inv.ops sc (wStep_ops_sub _ _ _ _ _ _ hw sc hsc)
    · intro x hx sc pc hxs
      simp only [List.mem_append, List.mem_cons] at hx
      rcases hx with hx | rfl | hx
      · exact inv.ws x (by rw [hws]; simp [hx]) sc pc hxs
      · exact h2 sc pc hxs
      · exact inv.ws x (by rw [hws]; simp [hx]) sc pc hxs

theorem intrInv_reach (v : Variant) (s0 s : St) (h : Reach v s0 s) (h0 : IntrInv s0) : IntrInv s := by
  induction h with
  | refl => exact h0
  | step s s' _ hstep ih => exact intrInv_step v s s' hstep ih

theorem intrInv_init (ops : List Script) (n : Nat) (m : Option Nat) (hok : ∀ sc ∈ ops, ScriptOk sc) :
    IntrInv (init ops n m) := by
  refine ⟨by simp [init], by simpa [init] using hok, ?_⟩
  intro w hw sc pc hst
  simp [init, List.mem_replicate] at hw
  rw [hw.2] at hst
  cases hst

structure StatusInv (c : CSt) : Prop where
  noIntr : ∀ e ∈ c.out, ∀ i, e ≠ .scenFinished i .interrupted
  fin : ∀ i st, .scenFinished i st ∈ c.out → st ≠ .skip → ∃ x, c.status = some x ∧ st.rank ≤ x.rank
  err : ∀ i, .nonFatal i ∈ c.out → ∃ x, c.status = some x ∧ 2 ≤ x.rank
  notSkip : c.status ≠ some .skip
  intr : c.status = some .interrupted → c.ctl.stop = true
  exec : (∃ e ∈ c.out, isWorkerEv e = true) → c.executed = true

theorem rank_le_three (st : Status) (h : st ≠ .skip) : st.rank ≤ 3 := by
  cases st <;> simp [Status.rank] at * 

theorem rank_le_two (st : Status) (h : st ≠ .skip) (h2 : st ≠ .interrupted) : st.rank ≤ 2 := by
  cases st <;> simp [Status.rank] at *

theorem statusInv_interrupt (c : CSt) (inv : StatusInv c) : StatusInv (cInterrupt c) := by
  refine ⟨?_, ?_, ?_, ?_, ?_, ?_⟩
  · intro e he i
    simp [cInterrupt] at he
    rcases he with he | rfl
    · exact inv.noIntr e he i
    · simp
  · intro i st h hs
    simp [cInterrupt] at h
    exact ⟨.interrupted, by simp [cInterrupt], by simpa [Status.rank] using rank_le_three st hs⟩
  · intro i h
    exact ⟨.interrupted, by simp [cInterrupt], by simp [Status.rank]⟩
  · simp [cInterrupt]
  · intro _; simp [cInterrupt]
  · intro ⟨e, he, hw⟩
    simp [cInterrupt] at he
    rcases he with he | rfl
    · simpa [cInterrupt] using inv.exec ⟨e, he, hw⟩
    · simp [isWorkerEv] at hw

theorem better_spec (status : Option Status) (st : Status) :
    better status st = true ↔ st ≠ .skip ∧ (status = none ∨ ∃ x, status = some x ∧ x.rank < st.rank) := by
  unfold better
  cases status <;> simp

theorem foldStatus_fin (status : Option Status) (e : Ev) (i : Nat) (st : Status) (hsk : st ≠ .skip)
    (hold : ∀ j, e = .nonFatal j → st.rank ≤ 2)
    (h : (∃ x, status = some x ∧ st.rank ≤ x.rank) ∨ e = .scenFinished i st) :
    ∃ x, foldStatus status e = some x ∧ st.rank ≤ x.rank := by
  cases e with
  | nonFatal j => exact ⟨.error, by simp [foldStatus], by simpa [Status.rank] using hold j rfl⟩
  | scenFinished j st' =>
    simp only [foldStatus]
    by_cases hb : better status st' = true
    · simp only [hb, if_true]
      rcases h with ⟨x, hx, hr⟩ | h
      · rcases (better_spec _ _).1 hb with ⟨_, h2 | ⟨y, hy, hlt⟩⟩
        · rw [h2] at hx; cases hx
        · rw [hx] at hy; cases hy; exact ⟨st', rfl, by omega⟩
      · cases h; exact ⟨st, rfl, Nat.le_refl _⟩
    · simp only [hb]
      rcases h with ⟨x, hx, hr⟩ | h
      · exact ⟨x, by simp [hx], hr⟩
      · cases h
        have hnb : ¬ (st ≠ .skip ∧ (status = none ∨ ∃ x, status = some x ∧ x.rank < st.rank)) :=
          fun hh => hb ((better_spec status st).2 hh)
        cases hst : status with
        | none => exact absurd ⟨hsk, Or.inl hst⟩ hnb
        | some x =>
          refine ⟨x, by simp, ?_⟩
          by_cases hc : x.rank < st.rank
          · exact absurd ⟨hsk, Or.inr ⟨x, hst, hc⟩⟩ hnb
          · omega
  | scenStarted j => rcases h with ⟨x, hx, hr⟩ | h <;> simp_all [foldStatus]
  | interrupted b => rcases h with ⟨x, hx, hr⟩ | h <;> simp_all [foldStatus]
  | suiteStarted => rcases h with ⟨x, hx, hr⟩ | h <;> simp_all [foldStatus]
  | suiteFinished s => rcases h with ⟨x, hx, hr⟩ | h <;> simp_all [foldStatus]
  | phaseFinished s b => rcases h with ⟨x, hx, hr⟩ | h <;> simp_all [foldStatus]

theorem foldStatus_err (status : Option Status) (e : Ev)
    (h : (∃ x, status = some x ∧ 2 ≤ x.rank) ∨ ∃ j, e = .nonFatal j) :
    ∃ x, foldStatus status e = some x ∧ 2 ≤ x.rank := by
  cases e with
  | nonFatal j => exact ⟨.error, by simp [foldStatus], by simp [Status.rank]⟩
  | scenFinished j st' =>
    rcases h with ⟨x, hx, hr⟩ | ⟨j, h⟩
    · simp only [foldStatus]
      by_cases hb : better status st' = true
      · simp only [hb, if_true]
        rcases (better_spec _ _).1 hb with ⟨_, h2 | ⟨y, hy, hlt⟩⟩
        · rw [h2] at hx; cases hx
        · rw [hx] at hy; cases hy; exact ⟨st', rfl, by omega⟩
      · simp only [hb]
        exact ⟨x, by simp [hx], hr⟩
    · cases h
  | scenStarted j => rcases h with ⟨x, hx, hr⟩ | ⟨j, h⟩ <;> simp_all [foldStatus]
  | interrupted b => rcases h with ⟨x, hx, hr⟩ | ⟨j, h⟩ <;> simp_all [foldStatus]
  | suiteStarted => rcases h with ⟨x, hx, hr⟩ | ⟨j, h⟩ <;> simp_all [foldStatus]
  | suiteFinished s => rcases h with ⟨x, hx, hr⟩ | ⟨j, h⟩ <;> simp_all [foldStatus]
  | phaseFinished s b => rcases h with ⟨x, hx, hr⟩ | ⟨j, h⟩ <;> simp_all [foldStatus]

theorem foldStatus_notSkip (status : Option Status) (e : Ev) (h : status ≠ some .skip) :
    foldStatus status e ≠ some .skip := by
  cases e with
  | nonFatal j => simp [foldStatus]
  | scenFinished j st' =>
    simp only [foldStatus]
    by_cases hb : better status st' = true
    · simp only [hb, if_true]
      intro h2; cases h2
      exact ((better_spec _ _).1 hb).1 rfl
    · simp only [hb]; exact h
  | _ => simpa [foldStatus] using h

theorem foldStatus_intr (status : Option Status) (e : Ev) (h : foldStatus status e = some .interrupted) :
    status = some .interrupted ∨ ∃ j, e = .scenFinished j .interrupted := by
  cases e with
  | nonFatal j => simp [foldStatus] at h
  | scenFinished j st' =>
    simp only [foldStatus] at h
    by_cases hb : better status st' = true
    · simp only [hb, if_true] at h; cases h; exact Or.inr ⟨j, rfl⟩
    · simp only [hb] at h; exact Or.inl h
  | _ => simp only [foldStatus] at h; exact Or.inl h

theorem gotCtl_stop (ctl : Ctl) (e : Ev) (sdy : Bool) :
    (gotCtl ctl e sdy).stop = gotIntr ctl e sdy := by
  unfold gotCtl
  by_cases h : gotIntr ctl e sdy = true
  · simp [h]
  · simp only [h]
    have : (gotCtl2 ctl e sdy).stop = false := by
      unfold gotIntr at h; simp at h; simpa using h.2
    simpa using this

/-- the loop body for a yielded event that is not an interruption marker -/
theorem statusInv_got (c : CSt) (e : Ev) (sdy : Bool) (inv : StatusInv c) (he : isIntrEv e = false)
    (hwe : isWorkerEv e = true) : StatusInv (cGot c e sdy) := by
  unfold cGot
  by_cases hs : c.ctl.stop = true
  · simp only [hs, if_true]
    exact statusInv_interrupt { c with executed := true }
      ⟨inv.noIntr, inv.fin, inv.err, inv.notSkip, inv.intr, fun _ => rfl⟩
  · simp only [hs, Bool.false_eq_true, if_false]
    have hne : ∀ i, e ≠ .scenFinished i .interrupted := by
      intro i h; subst h; simp [isIntrEv] at he
    refine ⟨?_, ?_, ?_, ?_, ?_, ?_⟩
    · intro x hx i
      simp at hx
      rcases hx with hx | rfl
      · exact inv.noIntr x hx i
      · exact hne i
    · intro i st h hsk
      simp only [List.mem_append, List.mem_singleton] at h
      simp only [gotStatus]
      by_cases hi : gotIntr c.ctl e sdy = true
      · simp only [hi, if_true]
        exact ⟨.interrupted, rfl, by simpa [Status.rank] using rank_le_three st hsk⟩
      · simp only [hi]
        refine foldStatus_fin c.status e i st hsk ?_ ?_
        · intro j hej
          rcases h with h | h
          · exact rank_le_two st hsk (fun h2 => inv.noIntr _ h i (by rw [h2]))
          · rw [hej] at h; cases h
        · rcases h with h | h
          · exact Or.inl (inv.fin i st h hsk)
          · exact Or.inr h.symm
    · intro i h
      simp only [List.mem_append, List.mem_singleton] at h
      simp only [gotStatus]
      by_cases hi : gotIntr c.ctl e sdy = true
      · simp only [hi, if_true]
        exact ⟨.interrupted, rfl, by simp [Status.rank]⟩
      · simp only [hi]
        refine foldStatus_err c.status e ?_
        rcases h with h | h
        · exact Or.inl (inv.err i h)
        · exact Or.inr ⟨i, h.symm⟩
    · simp only [gotStatus]
      by_cases hi : gotIntr c.ctl e sdy = true
      · simp [hi]
      · simp only [hi]; exact foldStatus_notSkip _ _ inv.notSkip
    · intro hst
      simp only [gotStatus] at hst
      simp only [gotCtl_stop]
      by_cases hi : gotIntr c.ctl e sdy = true
      · exact hi
      · exfalso
        simp only [hi] at hst
        rcases foldStatus_intr _ _ hst with h1 | ⟨j, h1⟩
        · exact hs (inv.intr h1)
        · exact hne j h1
    · intro _; rfl

theorem statusInv_other (v : Variant) (c c' : CSt) (i : CIn) (h : cStep v c i = some c')
    (hi : ∀ e sdy, i ≠ .got e sdy) (inv : StatusInv c) : StatusInv c' := by
  cases i with
  | got e sdy => exact absurd rfl (hi e sdy)
  | start =>
    simp only [cStep] at h; split at h <;> simp at h; subst h
    refine ⟨?_, ?_, ?_, inv.notSkip, inv.intr, ?_⟩
    · intro e he i; simp at he; rcases he with he | rfl
      · exact inv.noIntr e he i
      · simp
    · intro i st h; simp at h; exact inv.fin i st h
    · intro i h; simp at h; exact inv.err i h
    · intro ⟨e, he, hw⟩; simp at he; rcases he with he | rfl
      · exact inv.exec ⟨e, he, hw⟩
      · simp [isWorkerEv] at hw
  | empty => simp only [cStep] at h; split at h <;> simp at h; subst h; exact ⟨inv.noIntr, inv.fin, inv.err, inv.notSkip, inv.intr, inv.exec⟩
  | alive a q =>
    simp only [cStep] at h
    split at h
    · split at h
      · simp at h; subst h; exact ⟨inv.noIntr, inv.fin, inv.err, inv.notSkip, inv.intr, inv.exec⟩
      · cases v <;> simp at h <;> subst h <;> exact ⟨inv.noIntr, inv.fin, inv.err, inv.notSkip, inv.intr, inv.exec⟩
    · simp at h
  | ki => simp only [cStep] at h; split at h <;> simp at h; subst h; exact statusInv_interrupt c inv
  | joined =>
    simp only [cStep] at h; split at h <;> simp at h; subst h
    have e1 : (cClose c).status = c.status := by simp only [cClose, finalStatus]
    have e2 : (cClose c).ctl = c.ctl := by simp only [cClose, finalStatus]
    have e3 : (cClose c).executed = c.executed := by simp only [cClose, finalStatus]
    have e4 : ∀ e, e ∈ (cClose c).out → e ∈ c.out ∨ (∃ st, e = .suiteFinished st) ∨ (∃ st b, e = .phaseFinished st b) := by
      intro e he
      simp only [cClose, finalStatus] at he
      simp at he
      rcases he with he | he | he
      · exact Or.inl he
      · exact Or.inr (Or.inl ⟨_, he⟩)
      · exact Or.inr (Or.inr ⟨_, _, he⟩)
    refine ⟨?_, ?_, ?_, by rw [e1]; exact inv.notSkip, by rw [e1, e2]; exact inv.intr, ?_⟩
    · intro e he i
      rcases e4 e he with h1 | ⟨st, rfl⟩ | ⟨st, b, rfl⟩
      · exact inv.noIntr e h1 i
      · simp
      · simp
    · intro i st h hs
      rw [e1]
      rcases e4 _ h with h1 | ⟨st, h1⟩ | ⟨st, b, h1⟩
      · exact inv.fin i st h1 hs
      · cases h1
      · cases h1
    · intro i h
      rw [e1]
      rcases e4 _ h with h1 | ⟨st, h1⟩ | ⟨st, b, h1⟩
      · exact inv.err i h1
      · cases h1
      · cases h1
    · intro ⟨e, he, hw⟩
      rw [e3]
      rcases e4 e he with h1 | ⟨st, rfl⟩ | ⟨st, b, rfl⟩
      · exact inv.exec ⟨e, h1, hw⟩
      · simp [isWorkerEv] at hw
      · simp [isWorkerEv] at hw

theorem statusInv_step (v : Variant) (s s' : St) (h : Step v s s') (inv : StatusInv s.c)
    (hcap : CapInv s.c) (hh : HistInv s) (hj : IntrInv s) : StatusInv s'.c := by
  cases h with
  | worker => exact inv
  | cStart c' h => exact statusInv_other v _ _ _ h (by simp) inv
  | cEmpty c' hq h => exact statusInv_other v _ _ _ h (by simp) inv
  | cAlive c' h => exact statusInv_other v _ _ _ h (by simp) inv
  | cKi c' h => exact statusInv_other v _ _ _ h (by simp) inv
  | cJoined c' hd h => exact statusInv_other v _ _ _ h (by simp) inv
  | envStop => exact ⟨inv.noIntr, inv.fin, inv.err, inv.notSkip, fun _ => rfl, inv.exec⟩
  | cGot e q sdy c' hq h =>
    simp only [cStep] at h; split at h <;> simp at h; subst h
    rename_i hpc
    obtain ⟨d, hd, _⟩ := hh.split
    have hmem : e ∈ s.hist := by rw [hd, hq]; simp
    have hwe := hh.worker e hmem
    by_cases hs : s.c.ctl.stop = true
    · -- the event is dropped: the interrupt arm runs
      unfold cGot
      simp only [hs, if_true]
      exact statusInv_interrupt { s.c with executed := true }
        ⟨inv.noIntr, inv.fin, inv.err, inv.notSkip, inv.intr, fun _ => rfl⟩
    · have hlim : s.c.ctl.limit = false := hcap.1 (Or.inr (Or.inl (by simpa using hpc)))
      have hnot : s.c.ctl.hasToStop = false := by simp [Ctl.hasToStop, hlim]; simpa using hs
      have hie : isIntrEv e = false := by
        cases hie : isIntrEv e
        · rfl
        · have := hj.hist e hmem hie; rw [hnot] at this; cases this
      exact statusInv_got s.c e sdy inv hie hwe

theorem statusInv_init (m : Option Nat) : StatusInv { ctl := { maxFailures := m } } :=
  ⟨by simp, by simp, by simp, by simp, by simp, by simp⟩

/-- all engine invariants together, for every reachable state -/
structure AllInv (s : St) : Prop where
  cap : CapInv s.c
  hist : HistInv s
  intr : IntrInv s
  status : StatusInv s.c

theorem allInv_reach (v : Variant) (s0 s : St) (h : Reach v s0 s) (h0 : AllInv s0) : AllInv s := by
  induction h with
  | refl => exact h0
  | step s s' hr hstep ih =>
    exact ⟨capInv_reach v s s' (Reach.step s s' Reach.refl hstep) ih.cap,
           histInv_step v s s' hstep ih.hist, intrInv_step v s s' hstep ih.intr,
           statusInv_step v s s' hstep ih.status ih.cap ih.hist ih.intr⟩

theorem allInv_init (ops : List Script) (n : Nat) (m : Option Nat) (hm : m ≠ some 0)
    (hok : ∀ sc ∈ ops, ScriptOk sc) : AllInv (init ops n m) :=
  ⟨capInv_init m hm, histInv_init ops n m, intrInv_init ops n m hok, statusInv_init m⟩

/-! ### a closing event never precedes its opening event -/

/-- every occurrence of a ScenarioFinished is preceded by the ScenarioStarted with the same id -/
def OpenBeforeClose (l : List Ev) : Prop :=
  ∀ a b i st, l = a ++ Ev.scenFinished i st :: b → Ev.scenStarted i ∈ a

theorem obc_prefix (p l : List Ev) (hp : p <+: l) (h : OpenBeforeClose l) : OpenBeforeClose p := by
  obtain ⟨r, rfl⟩ := hp
  intro a b i st hab
  exact h a (b ++ r) i st (by rw [hab]; simp)

theorem obc_append_one (l : List Ev) (e : Ev) (h : OpenBeforeClose l)
    (he : ∀ i st, e = .scenFinished i st → Ev.scenStarted i ∈ l) : OpenBeforeClose (l ++ [e]) := by
  intro a b i st hab
  rcases List.append_eq_append_iff.1 hab with ⟨c, hc1, hc2⟩ | ⟨c, hc1, hc2⟩
  · -- a = l ++ c
    cases c with
    | nil =>
      simp at hc1 hc2
      subst hc1
      have : e = .scenFinished i st := by cases hc2.1; rfl
      exact he i st this
    | cons x c =>
      simp at hc2
  · -- l = a ++ c, c ++ [e] = fin :: b
    cases c with
    | nil =>
      simp at hc1 hc2
      subst hc1
      have : e = .scenFinished i st := by cases hc2.1; rfl
      exact he i st this
    | cons x c =>
      simp at hc2
      obtain ⟨rfl, rfl⟩ := hc2
      exact h a c i st hc1

def isMid : RunPc → Bool
  | .cases _ _ | .errs _ | .toFinish | .intr1 => true
  | _ => false

structure BrkInv (s : St) : Prop where
  obc : OpenBeforeClose s.hist
  mid : ∀ w ∈ s.ws, ∀ sc pc, w.st = .run sc pc → isMid pc = true → Ev.scenStarted sc.id ∈ s.hist

/-- what one worker step appends -/
theorem wStep_brk (ctl : Ctl) (w w' : W) (ops ops' : List Script) (evs : List Ev) (hist : List Ev)
    (h : wStep ctl w ops = some (w', ops', evs))
    (hobc : OpenBeforeClose hist)
    (hmid : ∀ sc pc, w.st = .run sc pc → isMid pc = true → Ev.scenStarted sc.id ∈ hist) :
    OpenBeforeClose (hist ++ evs) ∧
    (∀ sc pc, w'.st = .run sc pc → isMid pc = true → Ev.scenStarted sc.id ∈ hist ++ evs) := by
  obtain ⟨st, late⟩ := w
  simp only [wStep] at h
  cases st with
  | dead => simp at h
  | head => simp at h; obtain ⟨rfl, _, rfl⟩ := h; simp; exact ⟨hobc, by split <;> simp⟩
  | fetching =>
    cases ops with
    | nil => simp at h; obtain ⟨rfl, _, rfl⟩ := h; simp; exact hobc
    | cons sc rest =>
      simp at h; obtain ⟨rfl, _, rfl⟩ := h
      simp only [List.append_nil]
      refine ⟨hobc, ?_⟩
      intro sc' pc' h' hm
      simp at h'
      obtain ⟨rfl, rfl⟩ := h'
      split at hm <;> simp [isMid] at hm
  | run sc pc =>
    have hm := hmid sc pc rfl
    cases pc with
    | cases k chk =>
      have hst := hm (by simp [isMid])
      cases k with
      | zero =>
        simp at h; obtain ⟨rfl, _, rfl⟩ := h
        simp only [List.append_nil]
        exact ⟨hobc, fun sc' pc' h' _ => by simp at h'; obtain ⟨rfl, rfl⟩ := h'; exact hst⟩
      | succ k =>
        cases chk
        · simp at h
          split at h <;> simp at h <;> obtain ⟨rfl, _, rfl⟩ := h <;> simp only [List.append_nil] <;>
            exact ⟨hobc, fun sc' pc' h' _ => by simp at h'; obtain ⟨rfl, rfl⟩ := h'; exact hst⟩
        · simp at h; obtain ⟨rfl, _, rfl⟩ := h
          simp only [List.append_nil]
          exact ⟨hobc, fun sc' pc' h' _ => by simp at h'; obtain ⟨rfl, rfl⟩ := h'; exact hst⟩
    | errs k =>
      have hst := hm (by simp [isMid])
      cases k with
      | zero =>
        simp at h; obtain ⟨rfl, _, rfl⟩ := h
        simp only [List.append_nil]
        exact ⟨hobc, fun sc' pc' h' _ => by simp at h'; obtain ⟨rfl, rfl⟩ := h'; exact hst⟩
      | succ k =>
        simp at h; obtain ⟨rfl, _, rfl⟩ := h
        refine ⟨obc_append_one _ _ hobc (by simp), ?_⟩
        intro sc' pc' h' _
        simp at h'; obtain ⟨rfl, rfl⟩ := h'
        simp [hst]
    | toStart =>
      simp at h; obtain ⟨rfl, _, rfl⟩ := h
      refine ⟨obc_append_one _ _ hobc (by simp), ?_⟩
      intro sc' pc' h' _
      simp at h'; obtain ⟨rfl, rfl⟩ := h'
      simp
    | toFinish =>
      have hst := hm (by simp [isMid])
      simp at h; obtain ⟨rfl, _, rfl⟩ := h
      refine ⟨obc_append_one _ _ hobc ?_, by simp⟩
      intro i st he
      cases he
      exact hst
    | intr1 =>
      have hst := hm (by simp [isMid])
      simp at h; obtain ⟨rfl, _, rfl⟩ := h
      refine ⟨obc_append_one _ _ hobc ?_, ?_⟩
      · intro i st he; cases he; exact hst
      · intro sc' pc' h' hm'
        simp at h'; obtain ⟨rfl, rfl⟩ := h'
        simp [isMid] at hm'
    | intr2 =>
      simp at h; obtain ⟨rfl, _, rfl⟩ := h
      exact ⟨obc_append_one _ _ hobc (by simp), by simp⟩
    | bare =>
      simp at h; obtain ⟨rfl, _, rfl⟩ := h
      exact ⟨obc_append_one _ _ hobc (by simp), by simp⟩

theorem brkInv_step (v : Variant) (s s' : St) (h : Step v s s') (inv : BrkInv s) : BrkInv s' := by
  cases h with
  | worker l r w w' ops' evs hws hst hw =>
    have hwin : w ∈ s.ws := by rw [hws]; simp
    obtain ⟨h1, h2⟩ := wStep_brk _ _ _ _ _ _ s.hist hw inv.obc (inv.mid w hwin)
    refine ⟨h1, ?_⟩
    intro x hx sc pc hxs hm
    simp only [List.mem_append, List.mem_cons] at hx
    rcases hx with hx | rfl | hx
    · have := inv.mid x (by rw [hws]; simp [hx]) sc pc hxs hm
      simp [this]
    · exact h2 sc pc hxs hm
    · have := inv.mid x (by rw [hws]; simp [hx]) sc pc hxs hm
      simp [this]
  | cStart c' h => exact ⟨inv.obc, inv.mid⟩
  | cGot e q sdy c' hq h => exact ⟨inv.obc, inv.mid⟩
  | cEmpty c' hq h => exact ⟨inv.obc, inv.mid⟩
  | cAlive c' h => exact ⟨inv.obc, inv.mid⟩
  | cKi c' h => exact ⟨inv.obc, inv.mid⟩
  | cJoined c' hd h => exact ⟨inv.obc, inv.mid⟩
  | envStop => exact ⟨inv.obc, inv.mid⟩

theorem brkInv_reach (v : Variant) (s0 s : St) (h : Reach v s0 s) (h0 : BrkInv s0) : BrkInv s := by
  induction h with
  | refl => exact h0
  | step s s' _ hstep ih => exact brkInv_step v s s' hstep ih

theorem brkInv_init (ops : List Script) (n : Nat) (m : Option Nat) : BrkInv (init ops n m) := by
  refine ⟨?_, ?_⟩
  · intro a b i st h; simp [init] at h
  · intro w hw sc pc hst
    simp [init, List.mem_replicate] at hw
    rw [hw.2] at hst; cases hst

/-- the yielded worker events are a prefix of the put history -/
theorem yielded_prefix (s : St) (inv : HistInv s) : yieldedW s.c.out <+: s.hist := by
  obtain ⟨d, hd, hy⟩ := inv.split
  rcases hy with h | ⟨_, h⟩
  · rw [hd, h]; exact List.prefix_append _ _
  · rw [hd]; exact h.trans (List.prefix_append _ _)

def isClosingEv : Ev → Bool
  | .suiteFinished _ | .phaseFinished _ _ => true
  | _ => false

/-- shape of the stream: SuiteStarted first and only once; the suite's and the phase's closing events last,
    only once, and only when the phase generator has finished -/
structure Shape (c : CSt) : Prop where
  pre : c.pc = .preSuite → c.out = []
  started : c.pc ≠ .preSuite → ∃ o, c.out = .suiteStarted :: o ∧ Ev.suiteStarted ∉ o
  open_ : c.pc ≠ .done → ∀ e ∈ c.out, isClosingEv e = false
  closed : c.pc = .done → ∃ o, c.out = o ++ [.suiteFinished (finalStatus c).1,
      .phaseFinished (finalStatus c).1 (finalStatus c).2] ∧ ∀ e ∈ o, isClosingEv e = false

theorem shape_append (c : CSt) (inv : Shape c) (hpc : c.pc ≠ .preSuite) (hnd : c.pc ≠ .done) (pc' : CPc)
    (st' : Option Status) (ex' : Bool) (ctl' : Ctl) (e : Ev)
    (hpc' : pc' ≠ .preSuite) (hnd' : pc' ≠ .done) (he : isClosingEv e = false) (hs : e ≠ .suiteStarted) :
    Shape { pc := pc', status := st', executed := ex', ctl := ctl', out := c.out ++ [e] } := by
  obtain ⟨o, ho, hno⟩ := inv.started hpc
  refine ⟨fun h => absurd h hpc', fun _ => ⟨o ++ [e], by simp [ho], ?_⟩, ?_, fun h => absurd h hnd'⟩
  · simp [hno]; exact fun h => hs h.symm
  · intro _ x hx
    simp at hx
    rcases hx with hx | rfl
    · exact inv.open_ hnd x hx
    · exact he

theorem shape_same_out (c : CSt) (inv : Shape c) (hpc : c.pc ≠ .preSuite) (hnd : c.pc ≠ .done) (pc' : CPc)
    (st' : Option Status) (ex' : Bool) (ctl' : Ctl) (hpc' : pc' ≠ .preSuite) (hnd' : pc' ≠ .done) :
    Shape { pc := pc', status := st', executed := ex', ctl := ctl', out := c.out } :=
  ⟨fun h => absurd h hpc', fun _ => inv.started hpc, fun _ => inv.open_ hnd, fun h => absurd h hnd'⟩

theorem shape_cStep (v : Variant) (c c' : CSt) (i : CIn) (h : cStep v c i = some c')
    (hi : ∀ e sdy, i = .got e sdy → isWorkerEv e = true) (inv : Shape c) : Shape c' := by
  cases i with
  | start =>
    simp only [cStep] at h; split at h <;> simp at h; subst h
    rename_i hpc
    have hp : c.pc = .preSuite := by simpa using hpc
    have ho := inv.pre hp
    refine ⟨by simp, fun _ => ⟨[], by simp [ho], by simp⟩, ?_, by simp⟩
    intro _ e he
    simp [ho] at he; subst he; rfl
  | got e sdy =>
    simp only [cStep] at h; split at h <;> simp at h; subst h
    rename_i hpc
    have hp : c.pc = .loop := by simpa using hpc
    have hwe := hi e sdy rfl
    unfold cGot cInterrupt
    by_cases hs : c.ctl.stop = true
    · simp only [hs, if_true]
      exact shape_append c inv (by simp [hp]) (by simp [hp]) _ _ _ _ _ (by simp) (by simp) rfl (by simp)
    · simp only [hs, Bool.false_eq_true, if_false]
      refine shape_append c inv (by simp [hp]) (by simp [hp]) _ _ _ _ _ ?_ ?_ ?_ ?_
      · split <;> simp
      · split <;> simp
      · cases e <;> simp [isWorkerEv] at hwe <;> rfl
      · intro h; subst h; simp [isWorkerEv] at hwe
  | empty =>
    simp only [cStep] at h; split at h <;> simp at h; subst h
    rename_i hpc
    have hp : c.pc = .loop := by simpa using hpc
    exact shape_same_out c inv (by simp [hp]) (by simp [hp]) _ _ _ _ (by simp) (by simp)
  | alive a q =>
    simp only [cStep] at h
    split at h
    · rename_i hpc
      have hp : c.pc = .sawEmpty := by simpa using hpc
      split at h
      · simp at h; subst h
        exact shape_same_out c inv (by simp [hp]) (by simp [hp]) _ _ _ _ (by simp) (by simp)
      · cases v <;> simp at h <;> subst h
        · exact shape_same_out c inv (by simp [hp]) (by simp [hp]) _ _ _ _ (by simp) (by simp)
        · refine shape_same_out c inv (by simp [hp]) (by simp [hp]) _ _ _ _ ?_ ?_ <;> split <;> simp
    · simp at h
  | ki =>
    simp only [cStep] at h; split at h <;> simp at h; subst h
    rename_i hpc
    have hp : c.pc ≠ .preSuite ∧ c.pc ≠ .done := by
      simp at hpc; rcases hpc with h | h <;> simp [h]
    unfold cInterrupt
    exact shape_append c inv hp.1 hp.2 _ _ _ _ _ (by simp) (by simp) rfl (by simp)
  | joined =>
    simp only [cStep] at h; split at h <;> simp at h; subst h
    rename_i hpc
    have hp : c.pc = .closing := by simpa using hpc
    obtain ⟨o, ho, hno⟩ := inv.started (by simp [hp])
    have hfs : finalStatus (cClose c) = finalStatus c := by simp [cClose, finalStatus]
    refine ⟨by simp [cClose], fun _ => ⟨o ++ [.suiteFinished (finalStatus c).1, .phaseFinished (finalStatus c).1 (finalStatus c).2],
      by simp [cClose, ho], by simp [hno]⟩, by simp [cClose], ?_⟩
    intro _
    rw [hfs]
    exact ⟨c.out, by simp [cClose], inv.open_ (by simp [hp])⟩

theorem shape_step (v : Variant) (s s' : St) (h : Step v s s') (inv : Shape s.c) (hh : HistInv s) : Shape s'.c := by
  cases h with
  | worker => exact inv
  | cStart c' h => exact shape_cStep v _ _ _ h (by simp) inv
  | cEmpty c' hq h => exact shape_cStep v _ _ _ h (by simp) inv
  | cAlive c' h => exact shape_cStep v _ _ _ h (by simp) inv
  | cKi c' h => exact shape_cStep v _ _ _ h (by simp) inv
  | cJoined c' hd h => exact shape_cStep v _ _ _ h (by simp) inv
  | envStop =>
    exact ⟨inv.pre, inv.started, inv.open_, fun hd => by
      have := inv.closed hd; simpa [finalStatus] using this⟩
  | cGot e q sdy c' hq h =>
    refine shape_cStep v _ _ _ h ?_ inv
    intro e' sdy' heq
    cases heq
    obtain ⟨d, hd, _⟩ := hh.split
    exact hh.worker e (by rw [hd, hq]; simp)

theorem shape_init (m : Option Nat) : Shape { ctl := { maxFailures := m } } :=
  ⟨fun _ => rfl, by simp, by simp, by simp⟩

theorem shape_reach (v : Variant) (ops : List Script) (n : Nat) (m : Option Nat) (s : St)
    (h : Reach v (init ops n m) s) : Shape s.c := by
  have key : ∀ s, Reach v (init ops n m) s → Shape s.c ∧ HistInv s := by
    intro s h
    induction h with
    | refl => exact ⟨shape_init m, histInv_init ops n m⟩
    | step s s' _ hstep ih => exact ⟨shape_step v s s' hstep ih.1 ih.2, histInv_step v s s' hstep ih.2⟩
  exact (key s h).1

/-! ### every announced scenario is closed or still being run -/

def ClosedInv (s : St) : Prop :=
  ∀ i, Ev.scenStarted i ∈ s.hist →
    (∃ st, Ev.scenFinished i st ∈ s.hist) ∨ ∃ w ∈ s.ws, ∃ sc pc, w.st = .run sc pc ∧ sc.id = i ∧ isMid pc = true

/-- one worker step: what it appends and where it goes -/
theorem wStep_closed (ctl : Ctl) (w w' : W) (ops ops' : List Script) (evs : List Ev)
    (h : wStep ctl w ops = some (w', ops', evs)) :
    -- a running, mid-scenario worker either stays mid-scenario on the same script or emits its ScenarioFinished
    (∀ sc pc, w.st = .run sc pc → isMid pc = true →
        (∃ pc', w'.st = .run sc pc' ∧ isMid pc' = true) ∨ ∃ st, Ev.scenFinished sc.id st ∈ evs) ∧
    -- a ScenarioStarted is only emitted by a worker that is mid-scenario afterwards
    (∀ i, Ev.scenStarted i ∈ evs → ∃ sc pc', w'.st = .run sc pc' ∧ sc.id = i ∧ isMid pc' = true) := by
  obtain ⟨st, late⟩ := w
  simp only [wStep] at h
  cases st with
  | dead => simp at h
  | head => simp at h; obtain ⟨rfl, _, rfl⟩ := h; simp
  | fetching =>
    cases ops with
    | nil => simp at h; obtain ⟨rfl, _, rfl⟩ := h; simp
    | cons sc rest => simp at h; obtain ⟨rfl, _, rfl⟩ := h; simp
  | run sc pc =>
    cases pc with
    | cases k chk =>
      cases k with
      | zero =>
        simp at h; obtain ⟨rfl, _, rfl⟩ := h
        refine ⟨?_, by simp⟩
        intro sc' pc' h' _; simp at h'; obtain ⟨rfl, rfl⟩ := h'
        exact Or.inl ⟨_, rfl, rfl⟩
      | succ k =>
        cases chk
        · simp at h
          split at h <;> simp at h <;> obtain ⟨rfl, _, rfl⟩ := h <;> refine ⟨?_, by simp⟩ <;>
            intro sc' pc' h' _ <;> simp at h' <;> obtain ⟨rfl, rfl⟩ := h' <;> exact Or.inl ⟨_, rfl, rfl⟩
        · simp at h; obtain ⟨rfl, _, rfl⟩ := h
          refine ⟨?_, by simp⟩
          intro sc' pc' h' _; simp at h'; obtain ⟨rfl, rfl⟩ := h'
          exact Or.inl ⟨_, rfl, rfl⟩
    | errs k =>
      cases k <;> simp at h <;> obtain ⟨rfl, _, rfl⟩ := h <;> refine ⟨?_, by simp⟩ <;>
        intro sc' pc' h' _ <;> simp at h' <;> obtain ⟨rfl, rfl⟩ := h' <;> exact Or.inl ⟨_, rfl, rfl⟩
    | toStart =>
      simp at h; obtain ⟨rfl, _, rfl⟩ := h
      refine ⟨by intro sc' pc' h' hm; simp at h'; obtain ⟨rfl, rfl⟩ := h'; simp [isMid] at hm, ?_⟩
      intro i hi; simp at hi; subst hi
      exact ⟨sc, _, rfl, rfl, rfl⟩
    | toFinish =>
      simp at h; obtain ⟨rfl, _, rfl⟩ := h
      refine ⟨?_, by simp⟩
      intro sc' pc' h' _; simp at h'; obtain ⟨rfl, rfl⟩ := h'
      exact Or.inr ⟨sc.final, by simp⟩
    | intr1 =>
      simp at h; obtain ⟨rfl, _, rfl⟩ := h
      refine ⟨?_, by simp⟩
      intro sc' pc' h' _; simp at h'; obtain ⟨rfl, rfl⟩ := h'
      exact Or.inr ⟨.interrupted, by simp⟩
    | intr2 =>
      simp at h; obtain ⟨rfl, _, rfl⟩ := h
      exact ⟨by intro sc' pc' h' hm; simp at h'; obtain ⟨rfl, rfl⟩ := h'; simp [isMid] at hm, by simp⟩
    | bare =>
      simp at h; obtain ⟨rfl, _, rfl⟩ := h
      exact ⟨by intro sc' pc' h' hm; simp at h'; obtain ⟨rfl, rfl⟩ := h'; simp [isMid] at hm, by simp⟩

theorem closedInv_step (v : Variant) (s s' : St) (h : Step v s s') (inv : ClosedInv s) : ClosedInv s' := by
  cases h with
  | cStart c' h => exact inv
  | cGot e q sdy c' hq h => exact inv
  | cEmpty c' hq h => exact inv
  | cAlive c' h => exact inv
  | cKi c' h => exact inv
  | cJoined c' hd h => exact inv
  | envStop => exact inv
  | worker l r w w' ops' evs hws hst hw =>
    obtain ⟨h1, h2⟩ := wStep_closed _ _ _ _ _ _ hw
    intro i hi
    simp only [List.mem_append] at hi
    rcases hi with hi | hi
    · rcases inv i hi with ⟨st, hf⟩ | ⟨x, hx, sc, pc, hxs, hid, hm⟩
      · exact Or.inl ⟨st, by simp [hf]⟩
      · rw [hws] at hx
        simp only [List.mem_append, List.mem_cons] at hx
        rcases hx with hx | rfl | hx
        · exact Or.inr ⟨x, by simp [hx], sc, pc, hxs, hid, hm⟩
        · rcases h1 sc pc hxs hm with ⟨pc', h5, h6⟩ | ⟨st, h5⟩
          · exact Or.inr ⟨w', by simp, sc, pc', h5, hid, h6⟩
          · exact Or.inl ⟨st, by rw [← hid]; simp [h5]⟩
        · exact Or.inr ⟨x, by simp [hx], sc, pc, hxs, hid, hm⟩
    · obtain ⟨sc, pc', h5, h6, h7⟩ := h2 i hi
      exact Or.inr ⟨w', by simp, sc, pc', h5, h6, h7⟩

theorem closedInv_reach (v : Variant) (s0 s : St) (h : Reach v s0 s) (h0 : ClosedInv s0) : ClosedInv s := by
  induction h with
  | refl => exact h0
  | step s s' _ hstep ih => exact closedInv_step v s s' hstep ih

theorem closedInv_init (ops : List Script) (n : Nat) (m : Option Nat) : ClosedInv (init ops n m) := by
  intro i hi; simp [init] at hi

end SV.Proofs.Engine
