/-
  Any `Interrupted` in a unit phase's stream (the consumer's own or one a worker reported) ends the stream: the stop
  flag is set, the status is INTERRUPTED, and only the two closing events follow.  Helper lemmas for `SV.Props.C11`.
-/
import SV.Proofs.EngineKi

namespace SV.Proofs.Engine
open SV.Model.Engine

def isAnyIntr : Ev → Bool
  | .interrupted _ => true
  | _ => false

def NoIntr (l : List Ev) : Prop := ∀ e ∈ l, isAnyIntr e = false

theorem noIntr_append_single (l : List Ev) (e : Ev) (h : NoIntr l) (he : isAnyIntr e = false) : NoIntr (l ++ [e]) := by
  intro x hx
  simp only [List.mem_append, List.mem_singleton] at hx
  rcases hx with hx | rfl
  · exact h x hx
  · exact he

def IntrShape (c : CSt) : Prop :=
  NoIntr c.out ∨
  ∃ o b, NoIntr o ∧ c.ctl.stop = true ∧ c.status = some .interrupted ∧
    ((c.pc = .closing ∧ c.out = o ++ [.interrupted b]) ∨
     (c.pc = .done ∧ ∃ st ntt, c.out = o ++ [.interrupted b, .suiteFinished st, .phaseFinished st ntt] ∧
        (c.executed = true → st = .interrupted)))

theorem intrShape_open (c : CSt) (hi : IntrShape c) (hpc : c.pc ≠ .closing) (hpd : c.pc ≠ .done) : NoIntr c.out := by
  rcases hi with h | ⟨o, b, _, _, _, ⟨h, _⟩ | ⟨h, _⟩⟩
  · exact h
  · exact absurd h hpc
  · exact absurd h hpd

theorem intrShape_interrupt (c : CSt) (h : NoIntr c.out) : IntrShape (cInterrupt c) :=
  Or.inr ⟨c.out, true, h, rfl, rfl, Or.inl ⟨rfl, rfl⟩⟩

theorem intrShape_cStep (v : Variant) (c c' : CSt) (i : CIn) (h : cStep v c i = some c') (hi : IntrShape c)
    (he : ∀ e sdy, i = .got e sdy → e ≠ kiEv) : IntrShape c' := by
  cases i with
  | start =>
    simp only [cStep] at h
    split at h
    · rename_i hpc
      have hpc : c.pc = .preSuite := by simpa using hpc
      have hn := intrShape_open c hi (by rw [hpc]; decide) (by rw [hpc]; decide)
      cases h
      exact Or.inl (noIntr_append_single _ _ hn rfl)
    · cases h
  | got e sdy =>
    simp only [cStep] at h
    split at h
    · rename_i hpc
      have hpc : c.pc = .loop := by simpa using hpc
      have hn := intrShape_open c hi (by rw [hpc]; decide) (by rw [hpc]; decide)
      cases h
      unfold cGot
      simp only
      split
      · exact intrShape_interrupt _ hn
      · by_cases hie : isAnyIntr e = true
        · have hef : e = .interrupted false := by
            have hne := he e sdy rfl
            cases e <;> simp [isAnyIntr] at hie
            rename_i b
            cases b
            · rfl
            · exact absurd rfl hne
          subst hef
          have hg : gotIntr c.ctl (.interrupted false) sdy = true := by simp [gotIntr]
          refine Or.inr ⟨c.out, false, hn, ?_, ?_, Or.inl ⟨?_, rfl⟩⟩
          · simp [gotCtl, hg]
          · simp [gotStatus, hg]
          · simp [gotCtl, hg, Ctl.hasToStop]
        · exact Or.inl (noIntr_append_single _ _ hn (by simpa using hie))
    · cases h
  | empty =>
    simp only [cStep] at h
    split at h
    · rename_i hpc
      have hpc : c.pc = .loop := by simpa using hpc
      have hn := intrShape_open c hi (by rw [hpc]; decide) (by rw [hpc]; decide)
      cases h
      exact Or.inl hn
    · cases h
  | alive a q =>
    simp only [cStep] at h
    split at h
    · rename_i hpc
      have hpc : c.pc = .sawEmpty := by simpa using hpc
      have hn := intrShape_open c hi (by rw [hpc]; decide) (by rw [hpc]; decide)
      split at h
      · cases h; exact Or.inl hn
      · cases v <;> (cases h; exact Or.inl hn)
    · cases h
  | ki =>
    simp only [cStep] at h
    split at h
    · rename_i hpc
      have hn : NoIntr c.out := by
        simp only [Bool.or_eq_true, beq_iff_eq] at hpc
        rcases hpc with hpc | hpc <;> exact intrShape_open c hi (by rw [hpc]; decide) (by rw [hpc]; decide)
      cases h
      exact intrShape_interrupt _ hn
    · cases h
  | joined =>
    simp only [cStep] at h
    split at h
    · rename_i hpc
      have hpc : c.pc = .closing := by simpa using hpc
      cases h
      rcases hi with hn | ⟨o, b, ho, hs, hst, ⟨_, hout⟩ | ⟨hd, _⟩⟩
      · refine Or.inl ?_
        intro x hx
        simp only [cClose, List.mem_append, List.mem_cons, List.not_mem_nil, or_false] at hx
        rcases hx with hx | rfl | rfl
        · exact hn x hx
        · rfl
        · rfl
      · refine Or.inr ⟨o, b, ho, hs, hst, Or.inr ⟨rfl, (finalStatus c).1, (finalStatus c).2, ?_, ?_⟩⟩
        · simp [cClose, hout]
        · intro hex
          have hex : c.executed = true := hex
          simp [finalStatus, hex, hst]
      · rw [hpc] at hd; cases hd
    · cases h

structure IntrAnyInv (s : St) : Prop where
  queue : ∀ e ∈ s.queue, e ≠ kiEv
  shape : IntrShape s.c

theorem intrAnyInv_step (v : Variant) (s s' : St) (h : Step v s s') (inv : IntrAnyInv s) : IntrAnyInv s' := by
  cases h with
  | worker l r w w' ops' evs hws hst hw =>
    refine ⟨?_, inv.shape⟩
    intro e he
    simp only [List.mem_append] at he
    rcases he with he | he
    · exact inv.queue e he
    · exact wStep_no_ki _ _ _ _ _ _ hw e he
  | cStart c' h => exact ⟨inv.queue, intrShape_cStep v _ _ _ h inv.shape (fun _ _ h => by cases h)⟩
  | cEmpty c' hq h => exact ⟨inv.queue, intrShape_cStep v _ _ _ h inv.shape (fun _ _ h => by cases h)⟩
  | cAlive c' h => exact ⟨inv.queue, intrShape_cStep v _ _ _ h inv.shape (fun _ _ h => by cases h)⟩
  | cKi c' h => exact ⟨inv.queue, intrShape_cStep v _ _ _ h inv.shape (fun _ _ h => by cases h)⟩
  | cJoined c' hd h => exact ⟨inv.queue, intrShape_cStep v _ _ _ h inv.shape (fun _ _ h => by cases h)⟩
  | cGot e q sdy c' hq h =>
    refine ⟨fun x hx => inv.queue x (by rw [hq]; simp [hx]), ?_⟩
    refine intrShape_cStep v _ _ _ h inv.shape ?_
    intro e' sdy' heq
    cases heq
    exact inv.queue e (by rw [hq]; simp)
  | envStop =>
    refine ⟨inv.queue, ?_⟩
    rcases inv.shape with hn | ⟨o, b, ho, hs, hst, hrest⟩
    · exact Or.inl hn
    · exact Or.inr ⟨o, b, ho, rfl, hst, hrest⟩

theorem intrAnyInv_reach (v : Variant) (s0 s : St) (h : Reach v s0 s) (h0 : IntrAnyInv s0) : IntrAnyInv s := by
  induction h with
  | refl => exact h0
  | step s s' _ hstep ih => exact intrAnyInv_step v s s' hstep ih

theorem intrAnyInv_init (ops : List Script) (n : Nat) (m : Option Nat) : IntrAnyInv (init ops n m) :=
  ⟨by simp [init], Or.inl (by simp [init, NoIntr])⟩

end SV.Proofs.Engine
