/-
  The consumer's own `Interrupted` marker (`except KeyboardInterrupt` / a stop request seen by `unit.execute`):
  it is written at most once, only together with the stop flag and the INTERRUPTED status, and nothing but the two
  closing events ever follows it.  Helper lemmas for `SV.Props.C11`.
-/
import SV.Proofs.Engine

namespace SV.Proofs.Engine
open SV.Model.Engine

abbrev kiEv : Ev := .interrupted true

/-- shape of the consumer's output with respect to its own Interrupted marker -/
def KiShape (c : CSt) : Prop :=
  kiEv ∉ c.out ∨
  ∃ o, kiEv ∉ o ∧ c.ctl.stop = true ∧ c.status = some .interrupted ∧
    ((c.pc = .closing ∧ c.out = o ++ [kiEv]) ∨
     (c.pc = .done ∧ ∃ st ntt, c.out = o ++ [kiEv, .suiteFinished st, .phaseFinished st ntt] ∧
        (c.executed = true → st = .interrupted)))

theorem kiShape_interrupt (c : CSt) (h : kiEv ∉ c.out) : KiShape (cInterrupt c) :=
  Or.inr ⟨c.out, h, rfl, rfl, Or.inl ⟨rfl, rfl⟩⟩

theorem kiShape_open (c : CSt) (hi : KiShape c) (hpc : c.pc ≠ .closing) (hpd : c.pc ≠ .done) : kiEv ∉ c.out := by
  rcases hi with h | ⟨o, _, _, _, ⟨h, _⟩ | ⟨h, _⟩⟩
  · exact h
  · exact absurd h hpc
  · exact absurd h hpd

theorem kiShape_cStep (v : Variant) (c c' : CSt) (i : CIn) (h : cStep v c i = some c') (hi : KiShape c)
    (he : ∀ e sdy, i = .got e sdy → e ≠ kiEv) : KiShape c' := by
  cases i with
  | start =>
    simp only [cStep] at h
    split at h
    · rename_i hpc
      have hpc : c.pc = .preSuite := by simpa using hpc
      have hn := kiShape_open c hi (by rw [hpc]; decide) (by rw [hpc]; decide)
      cases h
      exact Or.inl (by simpa [kiEv] using hn)
    · cases h
  | got e sdy =>
    simp only [cStep] at h
    split at h
    · rename_i hpc
      have hpc : c.pc = .loop := by simpa using hpc
      have hn := kiShape_open c hi (by rw [hpc]; decide) (by rw [hpc]; decide)
      cases h
      unfold cGot
      simp only
      split
      · exact kiShape_interrupt _ hn
      · refine Or.inl ?_
        have := he e sdy rfl
        simp only [List.mem_append, List.mem_singleton, not_or]
        exact ⟨hn, fun h => this h.symm⟩
    · cases h
  | empty =>
    simp only [cStep] at h
    split at h
    · rename_i hpc
      have hpc : c.pc = .loop := by simpa using hpc
      have hn := kiShape_open c hi (by rw [hpc]; decide) (by rw [hpc]; decide)
      cases h
      exact Or.inl hn
    · cases h
  | alive a q =>
    simp only [cStep] at h
    split at h
    · rename_i hpc
      have hpc : c.pc = .sawEmpty := by simpa using hpc
      have hn := kiShape_open c hi (by rw [hpc]; decide) (by rw [hpc]; decide)
      split at h
      · cases h; exact Or.inl hn
      · cases v <;> (cases h; exact Or.inl hn)
    · cases h
  | ki =>
    simp only [cStep] at h
    split at h
    · rename_i hpc
      have hn : kiEv ∉ c.out := by
        simp only [Bool.or_eq_true, beq_iff_eq] at hpc
        rcases hpc with hpc | hpc <;> exact kiShape_open c hi (by rw [hpc]; decide) (by rw [hpc]; decide)
      cases h
      exact kiShape_interrupt _ hn
    · cases h
  | joined =>
    simp only [cStep] at h
    split at h
    · rename_i hpc
      have hpc : c.pc = .closing := by simpa using hpc
      cases h
      rcases hi with hn | ⟨o, ho, hs, hst, ⟨_, hout⟩ | ⟨hd, _⟩⟩
      · refine Or.inl ?_
        simp only [cClose, List.mem_append, not_or]
        exact ⟨hn, by simp [kiEv]⟩
      · refine Or.inr ⟨o, ho, hs, hst, Or.inr ⟨rfl, (finalStatus c).1, (finalStatus c).2, ?_, ?_⟩⟩
        · simp [cClose, hout]
        · intro hex
          have hex : c.executed = true := hex
          simp [finalStatus, hex, hst]
      · rw [hpc] at hd; cases hd
    · cases h

theorem wStep_no_ki (ctl : Ctl) (w w' : W) (ops ops' : List Script) (evs : List Ev)
    (h : wStep ctl w ops = some (w', ops', evs)) : ∀ e ∈ evs, e ≠ kiEv := by
  obtain ⟨st, late⟩ := w
  simp only [wStep] at h
  cases st with
  | dead => simp at h
  | head => simp at h; obtain ⟨_, _, rfl⟩ := h; simp
  | fetching =>
    cases ops with
    | nil => simp at h; obtain ⟨_, _, rfl⟩ := h; simp
    | cons sc rest => simp at h; obtain ⟨_, _, rfl⟩ := h; simp
  | run sc pc =>
    cases pc with
    | cases k chk =>
      cases k with
      | zero => simp at h; obtain ⟨_, _, rfl⟩ := h; simp
      | succ k =>
        cases chk
        · simp at h
          by_cases hs : ctl.hasToStop = true
          · simp [hs] at h; obtain ⟨_, _, rfl⟩ := h; simp
          · simp [hs] at h; obtain ⟨_, _, rfl⟩ := h; simp
        · simp at h; obtain ⟨_, _, rfl⟩ := h; simp
    | errs k => cases k <;> simp at h <;> obtain ⟨_, _, rfl⟩ := h <;> simp [kiEv]
    | toStart => simp at h; obtain ⟨_, _, rfl⟩ := h; simp [kiEv]
    | toFinish => simp at h; obtain ⟨_, _, rfl⟩ := h; simp [kiEv]
    | intr1 => simp at h; obtain ⟨_, _, rfl⟩ := h; simp [kiEv]
    | intr2 => simp at h; obtain ⟨_, _, rfl⟩ := h; simp [kiEv]
    | bare => simp at h; obtain ⟨_, _, rfl⟩ := h; simp [kiEv]

structure KiInv (s : St) : Prop where
  queue : ∀ e ∈ s.queue, e ≠ kiEv
  shape : KiShape s.c

theorem kiInv_step (v : Variant) (s s' : St) (h : Step v s s') (inv : KiInv s) : KiInv s' := by
  cases h with
  | worker l r w w' ops' evs hws hst hw =>
    refine ⟨?_, inv.shape⟩
    intro e he
    simp only [List.mem_append] at he
    rcases he with he | he
    · exact inv.queue e he
    · exact wStep_no_ki _ _ _ _ _ _ hw e he
  | cStart c' h => exact ⟨inv.queue, kiShape_cStep v _ _ _ h inv.shape (fun _ _ h => by cases h)⟩
  | cEmpty c' hq h => exact ⟨inv.queue, kiShape_cStep v _ _ _ h inv.shape (fun _ _ h => by cases h)⟩
  | cAlive c' h => exact ⟨inv.queue, kiShape_cStep v _ _ _ h inv.shape (fun _ _ h => by cases h)⟩
  | cKi c' h => exact ⟨inv.queue, kiShape_cStep v _ _ _ h inv.shape (fun _ _ h => by cases h)⟩
  | cJoined c' hd h => exact ⟨inv.queue, kiShape_cStep v _ _ _ h inv.shape (fun _ _ h => by cases h)⟩
  | cGot e q sdy c' hq h =>
    refine ⟨fun x hx => inv.queue x (by rw [hq]; simp [hx]), ?_⟩
    refine kiShape_cStep v _ _ _ h inv.shape ?_
    intro e' sdy' heq
    cases heq
    exact inv.queue e (by rw [hq]; simp)
  | envStop =>
    refine ⟨inv.queue, ?_⟩
    rcases inv.shape with hn | ⟨o, ho, hs, hst, hrest⟩
    · exact Or.inl hn
    · exact Or.inr ⟨o, ho, rfl, hst, hrest⟩

theorem kiInv_reach (v : Variant) (s0 s : St) (h : Reach v s0 s) (h0 : KiInv s0) : KiInv s := by
  induction h with
  | refl => exact h0
  | step s s' _ hstep ih => exact kiInv_step v s s' hstep ih

theorem kiInv_init (ops : List Script) (n : Nat) (m : Option Nat) : KiInv (init ops n m) :=
  ⟨by simp [init], Or.inl (by simp [init])⟩

end SV.Proofs.Engine
