/-
  SV.Proofs.Plan — helper definitions and lemmas about plan-level streams (used by SV.Props.C11).
-/
import SV.Model.Plan

namespace SV.Proofs.Plan
open SV.Model.Engine SV.Model.Plan

/-- indices of the phases opened / closed in a plan stream -/
def openedPhases : List PEv → List Nat
  | [] => []
  | .phaseStarted i :: r => i :: openedPhases r
  | _ :: r => openedPhases r

def closedPhases : List PEv → List Nat
  | [] => []
  | .phaseFinished i _ _ :: r => i :: closedPhases r
  | _ :: r => closedPhases r

theorem openedPhases_append (a b : List PEv) : openedPhases (a ++ b) = openedPhases a ++ openedPhases b := by
  induction a with
  | nil => rfl
  | cons e r ih => cases e <;> simp [openedPhases, ih]

theorem closedPhases_append (a b : List PEv) : closedPhases (a ++ b) = closedPhases a ++ closedPhases b := by
  induction a with
  | nil => rfl
  | cons e r ih => cases e <;> simp [closedPhases, ih]

theorem openedPhases_inner (i : Nat) (evs : List Ev) : openedPhases (evs.map (.inner i)) = [] := by
  induction evs with
  | nil => rfl
  | cons e r ih => simp [openedPhases, ih]

theorem closedPhases_inner (i : Nat) (evs : List Ev) : closedPhases (evs.map (.inner i)) = [] := by
  induction evs with
  | nil => rfl
  | cons e r ih => simp [closedPhases, ih]

end SV.Proofs.Plan
