/- Lemmas about the stateful phase model (SV.Model.Stateful). -/
import SV.Model.Stateful
import SV.Proofs.Engine

namespace SV.Proofs.Stateful
open SV.Model.Engine (Status better)
open SV.Model.Stateful
open SV.Proofs.Engine (better_spec)

theorem foldl_got_out (gets : List SEv) (c : CSt) : (gets.foldl got c).out = c.out ++ gets := by
  induction gets generalizing c with
  | nil => simp
  | cons e rest ih => simp [List.foldl_cons, ih, got]

theorem foldl_got_executed (gets : List SEv) (c : CSt) (h : gets ≠ []) : (gets.foldl got c).executed = true := by
  induction gets generalizing c with
  | nil => exact absurd rfl h
  | cons e rest ih =>
    simp only [List.foldl_cons]
    cases rest with
    | nil => simp [got]
    | cons e2 r2 => exact ih _ (by simp)

/-- the folded status dominates every non-skipped suite seen so far and is never SKIP -/
def Dominates (status : Option Status) (seen : List SEv) : Prop :=
  status ≠ some .skip ∧ ∀ k st, SEv.suiteFinished k st ∈ seen → st ≠ .skip → ∃ x, status = some x ∧ st.rank ≤ x.rank

theorem dominates_step (status : Option Status) (seen : List SEv) (e : SEv) (h : Dominates status seen) :
    Dominates (foldSuite status e) (seen ++ [e]) := by
  obtain ⟨hns, hd⟩ := h
  cases e with
  | suiteFinished k st =>
    simp only [foldSuite]
    by_cases hb : better status st = true
    · simp only [hb, if_true]
      obtain ⟨hsk, hlt⟩ := (better_spec _ _).1 hb
      refine ⟨by intro h; cases h; exact hsk rfl, ?_⟩
      intro k' st' hm hsk'
      simp only [List.mem_append, List.mem_singleton] at hm
      rcases hm with hm | hm
      · obtain ⟨x, hx, hr⟩ := hd k' st' hm hsk'
        rcases hlt with h0 | ⟨y, hy, hlt⟩
        · rw [h0] at hx; cases hx
        · rw [hx] at hy; cases hy; exact ⟨st, rfl, by omega⟩
      · cases hm; exact ⟨st, rfl, Nat.le_refl _⟩
    · simp only [hb]
      refine ⟨hns, ?_⟩
      intro k' st' hm hsk'
      simp only [List.mem_append, List.mem_singleton] at hm
      rcases hm with hm | hm
      · exact hd k' st' hm hsk'
      · cases hm
        have hnb : ¬ (st ≠ .skip ∧ (status = none ∨ ∃ x, status = some x ∧ x.rank < st.rank)) :=
          fun hh => hb ((better_spec status st).2 hh)
        cases hst : status with
        | none => exact absurd ⟨hsk', Or.inl hst⟩ hnb
        | some x =>
          refine ⟨x, rfl, ?_⟩
          by_cases hc : x.rank < st.rank
          · exact absurd ⟨hsk', Or.inr ⟨x, hst, hc⟩⟩ hnb
          · omega
  | _ =>
    refine ⟨hns, ?_⟩
    intro k' st' hm hsk'
    simp only [List.mem_append, List.mem_singleton] at hm
    rcases hm with hm | hm
    · exact hd k' st' hm hsk'
    · cases hm

theorem foldl_got_dominates (gets : List SEv) (c : CSt) (h : Dominates c.status c.out) :
    Dominates (gets.foldl got c).status (gets.foldl got c).out := by
  induction gets generalizing c with
  | nil => exact h
  | cons e rest ih =>
    simp only [List.foldl_cons]
    exact ih _ (by simpa [got] using dominates_step c.status c.out e h)

/-- suites are announced and closed one after another, never nested, never left open -/
def suitesWf : Option Nat → List SEv → Bool
  | none, [] => true
  | some _, [] => false
  | none, .suiteStarted k :: r => suitesWf (some k) r
  | none, .suiteFinished _ _ :: _ => false
  | some _, .suiteStarted _ :: _ => false
  | some k, .suiteFinished k' _ :: r => k == k' && suitesWf none r
  | o, _ :: r => suitesWf o r

def noSuiteEvents (l : List SEv) : Bool :=
  l.all fun e => match e with | .suiteStarted _ | .suiteFinished _ _ => false | _ => true

theorem suitesWf_inner (k : Nat) (inner rest : List SEv) (h : noSuiteEvents inner = true) :
    suitesWf (some k) (inner ++ rest) = suitesWf (some k) rest := by
  induction inner with
  | nil => rfl
  | cons e r ih =>
    simp only [noSuiteEvents, List.all_cons, Bool.and_eq_true] at h
    obtain ⟨h1, h2⟩ := h
    cases e <;> simp at h1 <;> simp [suitesWf] <;> exact ih (by simpa [noSuiteEvents] using h2)

theorem endOf_noSuite (s : Suite) : noSuiteEvents (endOf s).2.1 = true := by
  unfold endOf; cases s.ending <;> simp [noSuiteEvents]
  split <;> simp

theorem threadEvents_wf (k : Nat) (suites : List Suite) (h : ∀ s ∈ suites, noSuiteEvents s.scen = true) :
    suites ≠ [] → suitesWf none (threadEvents k suites) = true := by
  induction suites generalizing k with
  | nil => intro h0; exact absurd rfl h0
  | cons s rest ih =>
    intro _
    simp only [threadEvents]
    by_cases hi : s.interruptedAtStart = true
    · simp [hi, suitesWf]
    · simp only [hi, Bool.false_eq_true, if_false]
      have hs := h s (by simp)
      have he := endOf_noSuite s
      cases hend : endOf s with
      | mk st rest2 =>
        obtain ⟨evs, cont⟩ := rest2
        rw [hend] at he
        simp only at he ⊢
        simp only [List.cons_append, List.nil_append, suitesWf, List.append_assoc]
        rw [suitesWf_inner k s.scen _ hs, suitesWf_inner k evs _ he]
        simp only [suitesWf, beq_self_eq_true, Bool.true_and]
        by_cases hc : cont = true
        · simp only [hc, if_true]
          cases rest with
          | nil => simp [threadEvents, suitesWf]
          | cons s2 r2 => exact ih (k + 1) (fun x hx => h x (by simp [hx])) (by simp)
        · simp [hc, suitesWf]

end SV.Proofs.Stateful
