/-
  Lemmas about SV.Model.StatefulMachine: frame conditions, the reference automaton for what the thread puts,
  check-failure bookkeeping, stop monotonicity.
-/
import SV.Spec.StatefulMachine

namespace SV.Proofs.SM
open SV.Model.Engine (Status Ctl)
open SV.Model.Stateful (SEv)
open SV.Model.SM SV.Spec.SM

/-! ## frame conditions: what validate / step leave alone -/

/-- the part of the state that only setup / teardown / the suite loop touch -/
structure Frame where
  out : List SEv
  nextId : Nat
  current : Option Nat
  seenRun : List FKey
  completed : Nat
  unique : Bool
  maxExamples : Nat
  deriving DecidableEq

def frame (m : MSt) : Frame := ⟨m.out, m.nextId, m.current, m.seenRun, m.completed, m.unique, m.maxExamples⟩

theorem onFailure_frame (sid : Nat) (s : MSt × List FKey) (f : FKey) : frame (onFailure sid s f).1 = frame s.1 := by
  unfold onFailure; split <;> rfl

theorem foldl_onFailure_frame (sid : Nat) (fs : List FKey) (s : MSt × List FKey) :
    frame (fs.foldl (onFailure sid) s).1 = frame s.1 := by
  induction fs generalizing s with
  | nil => rfl
  | cons f r ih => simp only [List.foldl_cons]; rw [ih, onFailure_frame]

theorem runChecks_frame (sid : Nat) (cs : List CheckOut) (s : MSt × List FKey) :
    frame (runChecks sid s cs).1.1 = frame s.1 := by
  induction cs generalizing s with
  | nil => rfl
  | cons c r ih =>
    cases c with
    | pass => simp only [runChecks]; exact ih s
    | fail fs => simp only [runChecks]; rw [ih, foldl_onFailure_frame]
    | crash => rfl

theorem validate_frame (sid : Nat) (m : MSt) (cs : List CheckOut) : frame (validate sid m cs).1 = frame m := by
  have h := runChecks_frame sid cs (m, [])
  simp only [validate]
  split
  · exact h
  · split <;> exact h

theorem store_frame (m : MSt) (c : CaseKey) (o : Cached) : frame (store m c o) = frame m := by
  unfold store; split <;> rfl

theorem requestStop_frame (m : MSt) (b : Bool) : frame (requestStop m b) = frame m := by
  unfold requestStop; split <;> rfl

theorem step_frame (m : MSt) (s : Step) : frame (step m s).1 = frame m := by
  have hr := requestStop_frame m s.stopBefore
  unfold step
  simp only
  split
  · exact hr
  · split
    · exact hr
    · simp only [frame] at hr ⊢; rw [← hr]; unfold store; split <;> rfl
    · simp only [errored, frame] at hr ⊢; rw [← hr]; unfold store; split <;> rfl
    · rw [store_frame]; exact hr
    · split
      · simp only [errored, frame, attempt] at hr ⊢; rw [← hr]; unfold store; split <;> rfl
      · simp only [frame, attempt] at hr ⊢; rw [← hr]
      · rw [store_frame]; simp only [frame, attempt] at hr ⊢; rw [← hr]
      · have hv := validate_frame ((requestStop m s.stopBefore).current.getD 0) (attempt (requestStop m s.stopBefore)) ‹_›
        have ha : frame (attempt (requestStop m s.stopBefore)) = frame m := by
          simp only [frame, attempt] at hr ⊢; rw [← hr]
        split
        · simp only [frame] at hv ha ⊢; rw [← ha, ← hv]; unfold store; split <;> rfl
        · simp only [frame] at hv ha ⊢; rw [← ha, ← hv]; unfold store; split <;> rfl
        · simp only [errored, frame] at hv ha ⊢; rw [← ha, ← hv]; unfold store; split <;> rfl

theorem runSteps_frame (m : MSt) (steps : List Step) : frame (runSteps m steps).1 = frame m := by
  induction steps generalizing m with
  | nil => rfl
  | cons s r ih =>
    have hs := step_frame m s
    simp only [runSteps]
    split <;> simp_all


/-! ## the reference automaton for what the stateful thread puts into the queue -/

theorem wfRun_append (s : WS) (a b : List SEv) : wfRun s (a ++ b) = (wfRun s a).bind (wfRun · b) := by
  induction a generalizing s with
  | nil => rfl
  | cons e r ih =>
    simp only [List.cons_append, wfRun]
    cases wfStep s e with
    | none => rfl
    | some s' => simpa using ih s'

theorem idsFrom_append (n : Nat) (a b : List SEv) : idsFrom n (a ++ b) = (idsFrom n a).bind (idsFrom · b) := by
  induction a generalizing n with
  | nil => rfl
  | cons e r ih =>
    cases e <;> simp only [List.cons_append, idsFrom, ih]
    split <;> simp

/-- what a state transformer appends to the queue -/
def Puts (m m' : MSt) (evs : List SEv) : Prop := m'.out = m.out ++ evs

theorem Puts.trans {a b c : MSt} {x y : List SEv} (h1 : Puts a b x) (h2 : Puts b c y) : Puts a c (x ++ y) := by
  unfold Puts at *; rw [h2, h1, List.append_assoc]

theorem runSteps_puts (m : MSt) (steps : List Step) : Puts m (runSteps m steps).1 [] := by
  have h := runSteps_frame m steps
  simp only [frame, Frame.mk.injEq] at h
  simp [Puts, h.1]

/-- one scenario puts nothing (failed setup) or exactly its opening and its closing event, with the next fresh id -/
theorem runScenario_puts (m : MSt) (sc : Scenario) :
    (sc.setupFails = true ∧ Puts m (runScenario m sc).1 [] ∧ (runScenario m sc).1.nextId = m.nextId) ∨
    (sc.setupFails = false ∧ ∃ st, Puts m (runScenario m sc).1 [.scenStarted m.nextId, .scenFinished m.nextId st] ∧
      (runScenario m sc).1.nextId = m.nextId + 1) := by
  cases hf : sc.setupFails with
  | true => left; simp [runScenario, setup, hf, Puts]
  | false =>
    right
    refine ⟨rfl, ?_⟩
    simp only [runScenario, setup, hf, Bool.false_eq_true, if_false]
    generalize hm1 : ({ m with current := some m.nextId, nextId := m.nextId + 1, out := m.out ++ [SEv.scenStarted m.nextId] } : MSt) = m1
    have h := runSteps_frame m1 sc.steps
    simp only [frame, Frame.mk.injEq] at h
    refine ⟨((runSteps m1 sc.steps).1.stepStatus.getD .skip), ?_⟩
    cases sc.teardownFails with
    | false =>
      simp only [Bool.false_eq_true, if_false]
      refine ⟨?_, ?_⟩
      · simp only [Puts, teardown, h.1, h.2.2.1]; subst hm1; simp
      · simp only [teardown, h.2.1]; subst hm1; rfl
    | true =>
      simp only [if_true]
      refine ⟨?_, ?_⟩
      · simp only [Puts, teardownFailing, h.1, h.2.2.1]; subst hm1; simp
      · simp only [teardownFailing, h.2.1]; subst hm1; rfl

theorem runScenario_wf (m : MSt) (sc : Scenario) (k : Nat) :
    ∃ evs, Puts m (runScenario m sc).1 evs ∧ wfRun (some k, none) evs = some (some k, none) ∧
      idsFrom m.nextId evs = some (runScenario m sc).1.nextId := by
  rcases runScenario_puts m sc with ⟨_, hp, hn⟩ | ⟨_, st, hp, hn⟩
  · exact ⟨[], hp, rfl, by simp [idsFrom, hn]⟩
  · exact ⟨_, hp, by simp [wfRun, wfStep], by simp [idsFrom, hn]⟩

theorem runMachine_wf (m : MSt) (scens : List Scenario) (k : Nat) :
    ∃ evs, Puts m (runMachine m scens).1 evs ∧ wfRun (some k, none) evs = some (some k, none) ∧
      idsFrom m.nextId evs = some (runMachine m scens).1.nextId := by
  induction scens generalizing m with
  | nil => exact ⟨[], by simp [Puts, runMachine], rfl, rfl⟩
  | cons sc rest ih =>
    obtain ⟨e1, hp1, hw1, hi1⟩ := runScenario_wf m sc k
    simp only [runMachine]
    split
    · exact ⟨e1, hp1, hw1, hi1⟩
    · obtain ⟨e2, hp2, hw2, hi2⟩ := ih (runScenario m sc).1
      exact ⟨e1 ++ e2, hp1.trans hp2, by rw [wfRun_append, hw1]; exact hw2, by rw [idsFrom_append, hi1]; exact hi2⟩


/-! ## the suite loop -/

theorem handle_out (v : Variant) (m : MSt) (ki : Bool) (hyp : HypEnd) :
    (handle v m ki hyp).2.2.1.out = m.out ∧ (handle v m ki hyp).2.2.1.nextId = m.nextId := by
  unfold handle
  split
  · exact ⟨rfl, rfl⟩
  · split
    · exact ⟨rfl, rfl⟩
    · exact ⟨rfl, rfl⟩
    · split <;> exact ⟨rfl, rfl⟩
    · split
      · exact ⟨rfl, rfl⟩
      · split
        · exact ⟨rfl, rfl⟩
        · split <;> exact ⟨rfl, rfl⟩
    · split <;> exact ⟨rfl, rfl⟩
    · exact ⟨rfl, rfl⟩

/-- the events a handler puts before the `finally`: nothing, `Interrupted`, or `NonFatalError` -/
theorem handle_events (v : Variant) (m : MSt) (ki : Bool) (hyp : HypEnd) :
    (handle v m ki hyp).2.1 = [] ∨ (handle v m ki hyp).2.1 = [.interrupted] ∨ (handle v m ki hyp).2.1 = [.nonFatal] := by
  unfold handle
  split
  · simp
  · split
    · simp
    · simp
    · split <;> simp
    · split
      · simp
      · split
        · simp
        · split <;> simp
    · split <;> simp
    · simp

theorem handle_events_wf (v : Variant) (m : MSt) (ki : Bool) (hyp : HypEnd) (k n : Nat) :
    wfRun (some k, none) (handle v m ki hyp).2.1 = some (some k, none) ∧ idsFrom n (handle v m ki hyp).2.1 = some n := by
  rcases handle_events v m ki hyp with h | h | h <;> rw [h] <;> simp [wfRun, wfStep, idsFrom]

theorem suiteStep_wf (v : Variant) (k : Nat) (m0 : MSt) (r : Run) :
    ∃ evs, Puts m0 (suiteStep v k m0 r).1 evs ∧ wfRun (none, none) evs = some (none, none) ∧
      idsFrom m0.nextId evs = some (suiteStep v k m0 r).1.nextId := by
  have hr := requestStop_frame m0 r.stopBeforeSuite
  simp only [frame, Frame.mk.injEq] at hr
  simp only [suiteStep]
  generalize hm : put (requestStop m0 r.stopBeforeSuite) [SEv.suiteStarted k] = m
  have hput : Puts m0 m [.suiteStarted k] := by subst hm; simp [Puts, put, hr.1]
  have hid : m.nextId = m0.nextId := by subst hm; simp [put, hr.2.1]
  split
  · refine ⟨[.suiteStarted k] ++ [.interrupted, .suiteFinished k .interrupted], hput.trans (by simp [Puts, put]), ?_, ?_⟩
    · simp [wfRun, wfStep]
    · simp [idsFrom, put, hid]
  · obtain ⟨e2, hp2, hw2, hi2⟩ := runMachine_wf m r.scens k
    split
    · refine ⟨[.suiteStarted k] ++ (e2 ++ [.suiteFinished k .success]), hput.trans (hp2.trans (by simp [Puts, finish])), ?_, ?_⟩
      · simp only [List.cons_append, List.nil_append, wfRun, wfStep, Option.bind]
        rw [wfRun_append, hw2]; simp [wfRun, wfStep]
      · simp only [List.cons_append, List.nil_append, idsFrom]
        rw [idsFrom_append, ← hid, hi2]; simp [idsFrom, finish]
    · generalize hh : handle v (runMachine m r.scens).1 (List.any (runMachine m r.scens).2 fun x => x == ScenEnd.ki) r.hyp = h
      have ho := handle_out v (runMachine m r.scens).1 (List.any (runMachine m r.scens).2 fun x => x == ScenEnd.ki) r.hyp
      have he := handle_events_wf v (runMachine m r.scens).1 (List.any (runMachine m r.scens).2 fun x => x == ScenEnd.ki) r.hyp k
        (runMachine m r.scens).1.nextId
      rw [hh] at ho he
      refine ⟨[.suiteStarted k] ++ (e2 ++ (h.2.1 ++ [.suiteFinished k h.1])), hput.trans (hp2.trans ?_), ?_, ?_⟩
      · simp [Puts, finish, put, ho.1]
      · simp only [List.cons_append, List.nil_append, wfRun, wfStep, Option.bind]
        rw [wfRun_append, hw2]
        simp only [Option.bind]
        rw [wfRun_append, he.1]; simp [wfRun, wfStep]
      · simp only [List.cons_append, List.nil_append, idsFrom]
        rw [idsFrom_append, ← hid, hi2]
        simp only [Option.bind]
        rw [idsFrom_append, he.2]; simp [idsFrom, finish, put, ho.2]

/-- For every behaviour of Hypothesis, the API and the checks, in every iteration of the loop: what the stateful thread
    puts is accepted by the reference automaton (suites one after the other; scenarios inside a suite, each closed
    under its own id before the next one opens and before the suite closes) and scenario ids are fresh. -/
theorem thread_wf (v : Variant) (k : Nat) (m0 : MSt) (runs : List Run) :
    ∃ evs, Puts m0 (thread v k m0 runs) evs ∧ wfRun (none, none) evs = some (none, none) ∧
      idsFrom m0.nextId evs = some (thread v k m0 runs).nextId := by
  induction runs generalizing k m0 with
  | nil => exact ⟨[], by simp [Puts, thread], rfl, rfl⟩
  | cons r rest ih =>
    obtain ⟨e1, hp1, hw1, hi1⟩ := suiteStep_wf v k m0 r
    simp only [thread]
    split
    · obtain ⟨e2, hp2, hw2, hi2⟩ := ih (k + 1) (suiteStep v k m0 r).1
      exact ⟨e1 ++ e2, hp1.trans hp2, by rw [wfRun_append, hw1]; exact hw2, by rw [idsFrom_append, hi1]; exact hi2⟩
    · exact ⟨e1, hp1, hw1, hi1⟩


/-! ## stop requests: monotone, and nothing is sent once one is pending -/

theorem countFailure_stop (c : Ctl) : c.countFailure.stop = c.stop := by
  unfold Ctl.countFailure; split <;> rfl

theorem countFailure_limit_mono (c : Ctl) (h : c.limit = true) : c.countFailure.limit = true := by
  unfold Ctl.countFailure; split <;> simp [h]

theorem countFailure_hasToStop_mono (c : Ctl) (h : c.hasToStop = true) : c.countFailure.hasToStop = true := by
  simp only [Ctl.hasToStop, Bool.or_eq_true] at h ⊢
  rcases h with h | h
  · left; rw [countFailure_stop]; exact h
  · right; exact countFailure_limit_mono c h

/-- the control-and-traffic part of the state -/
theorem onFailure_calls (sid : Nat) (s : MSt × List FKey) (f : FKey) : (onFailure sid s f).1.calls = s.1.calls := by
  unfold onFailure; split <;> rfl

theorem step_stopped (m : MSt) (s : Step) (h : (requestStop m s.stopBefore).ctl.hasToStop = true) :
    step m s = (requestStop m s.stopBefore, .ki) := by
  simp only [step, h, if_true]

theorem requestStop_hasToStop_mono (m : MSt) (b : Bool) (h : m.ctl.hasToStop = true) :
    (requestStop m b).ctl.hasToStop = true := by
  unfold requestStop; split
  · simp [Ctl.hasToStop]
  · exact h

theorem requestStop_calls (m : MSt) (b : Bool) : (requestStop m b).calls = m.calls := by
  unfold requestStop; split <;> rfl

theorem runSteps_stopped (m : MSt) (steps : List Step) (h : m.ctl.hasToStop = true) :
    (runSteps m steps).1.calls = m.calls ∧ (runSteps m steps).1.ctl.hasToStop = true := by
  cases steps with
  | nil => exact ⟨rfl, h⟩
  | cons s r =>
    have hs := requestStop_hasToStop_mono m s.stopBefore h
    simp only [runSteps, step_stopped m s hs]
    exact ⟨requestStop_calls m s.stopBefore, hs⟩

theorem runScenario_stopped (m : MSt) (sc : Scenario) (h : m.ctl.hasToStop = true) :
    (runScenario m sc).1.calls = m.calls ∧ (runScenario m sc).1.ctl.hasToStop = true := by
  simp only [runScenario, setup]
  split
  · rename_i heq
    split at heq
    · simp only [Prod.mk.injEq] at heq; obtain ⟨rfl, _⟩ := heq; exact ⟨rfl, h⟩
    · simp at heq
  · rename_i m1 heq
    split at heq
    · simp at heq
    · simp only [Prod.mk.injEq, and_true] at heq
      subst heq
      have := runSteps_stopped { m with current := some m.nextId, nextId := m.nextId + 1, out := m.out ++ [SEv.scenStarted m.nextId] }
        sc.steps h
      split
      · exact ⟨by simpa [teardownFailing] using this.1, by simpa [teardownFailing] using this.2⟩
      · exact ⟨by simpa [teardown] using this.1, by simpa [teardown] using this.2⟩

theorem runMachine_stopped (m : MSt) (scens : List Scenario) (h : m.ctl.hasToStop = true) :
    (runMachine m scens).1.calls = m.calls ∧ (runMachine m scens).1.ctl.hasToStop = true := by
  induction scens generalizing m with
  | nil => exact ⟨rfl, h⟩
  | cons sc rest ih =>
    have h1 := runScenario_stopped m sc h
    simp only [runMachine]
    split
    · exact h1
    · have h2 := ih (runScenario m sc).1 h1.2
      exact ⟨h2.1.trans h1.1, h2.2⟩

theorem handle_stopped (v : Variant) (m : MSt) (ki : Bool) (hyp : HypEnd) (h : m.ctl.hasToStop = true) :
    (handle v m ki hyp).2.2.1.calls = m.calls ∧ (handle v m ki hyp).2.2.1.ctl.hasToStop = true := by
  unfold handle
  split
  · exact ⟨rfl, by simp [Ctl.hasToStop]⟩
  · split
    · exact ⟨rfl, h⟩
    · exact ⟨rfl, h⟩
    · split <;> exact ⟨rfl, h⟩
    · split
      · exact ⟨rfl, h⟩
      · split
        · exact ⟨rfl, h⟩
        · split <;> exact ⟨rfl, h⟩
    · split <;> exact ⟨rfl, h⟩
    · exact ⟨rfl, h⟩

theorem suiteStep_stopped (v : Variant) (k : Nat) (m : MSt) (r : Run) (h : m.ctl.hasToStop = true) :
    (suiteStep v k m r).1.calls = m.calls ∧ (suiteStep v k m r).1.ctl.hasToStop = true := by
  have h0 := requestStop_hasToStop_mono m r.stopBeforeSuite h
  have c0 := requestStop_calls m r.stopBeforeSuite
  simp only [suiteStep]
  split
  · exact ⟨by simpa [put] using c0, by simpa [put] using h0⟩
  · have h1 := runMachine_stopped (put (requestStop m r.stopBeforeSuite) [SEv.suiteStarted k]) r.scens (by simpa [put] using h0)
    split
    · exact ⟨by simpa [finish, put] using h1.1.trans c0, by simpa [finish] using h1.2⟩
    · have h2 := handle_stopped v _ (List.any (runMachine (put (requestStop m r.stopBeforeSuite) [SEv.suiteStarted k]) r.scens).2
        fun x => x == ScenEnd.ki) r.hyp h1.2
      exact ⟨by simpa [finish, put] using h2.1.trans (h1.1.trans c0), by simpa [finish, put] using h2.2⟩

/-- Once a stop is pending (stop event set or failure limit reached) the stateful thread sends nothing more, in this or
    any later iteration, whatever Hypothesis does. -/
theorem thread_stopped (v : Variant) (k : Nat) (m : MSt) (runs : List Run) (h : m.ctl.hasToStop = true) :
    (thread v k m runs).calls = m.calls := by
  induction runs generalizing k m with
  | nil => rfl
  | cons r rest ih =>
    have h1 := suiteStep_stopped v k m r h
    simp only [thread]
    split
    · exact (ih (k + 1) _ h1.2).trans h1.1
    · exact h1.1


/-! ## check failures: every new one is recorded, counted and raised -/

/-- bookkeeping invariant of `on_failure` relative to a starting point `(m0, c0)` -/
structure Grows (sid : Nat) (a b : MSt × List FKey) : Prop where
  suite : ∀ f, f ∈ a.1.seenSuite → f ∈ b.1.seenSuite
  coll : ∀ f, f ∈ a.2 → f ∈ b.2
  recd : ∀ x, x ∈ a.1.recorded → x ∈ b.1.recorded
  run : b.1.seenRun = a.1.seenRun
  collSeen : (∀ f, f ∈ a.2 → f ∈ a.1.seenSuite) → ∀ f, f ∈ b.2 → f ∈ b.1.seenSuite

theorem Grows.refl (sid : Nat) (a : MSt × List FKey) : Grows sid a a := ⟨fun _ h => h, fun _ h => h, fun _ h => h, rfl, fun h => h⟩

theorem Grows.trans {sid : Nat} {a b c : MSt × List FKey} (h1 : Grows sid a b) (h2 : Grows sid b c) : Grows sid a c :=
  ⟨fun f h => h2.suite f (h1.suite f h), fun f h => h2.coll f (h1.coll f h), fun x h => h2.recd x (h1.recd x h),
   h2.run.trans h1.run, fun h => h2.collSeen (h1.collSeen h)⟩

theorem onFailure_grows (sid : Nat) (s : MSt × List FKey) (f : FKey) : Grows sid s (onFailure sid s f) := by
  unfold onFailure
  split
  · exact Grows.refl sid s
  · refine ⟨?_, ?_, ?_, rfl, ?_⟩
    · intro g hg; simp [hg]
    · intro g hg; simp [hg]
    · intro x hx; simp [hx]
    · intro h g hg
      simp only [List.mem_append, List.mem_singleton] at hg ⊢
      rcases hg with hg | hg
      · left; exact h g hg
      · right; exact hg

/-- after `on_failure f`: f is known (seen in this suite or in the run); if it was new it is recorded for this scenario
    and collected -/
theorem onFailure_handles (sid : Nat) (s : MSt × List FKey) (f : FKey) :
    (f ∈ (onFailure sid s f).1.seenSuite ∨ f ∈ s.1.seenRun) ∧
    (f ∉ s.1.seenSuite → f ∉ s.1.seenRun → (sid, f) ∈ (onFailure sid s f).1.recorded ∧ f ∈ (onFailure sid s f).2) := by
  unfold onFailure
  split
  · rename_i h
    simp only [Bool.or_eq_true, List.contains_eq_mem, decide_eq_true_eq] at h
    refine ⟨h, fun h1 h2 => ?_⟩
    rcases h with h | h
    · exact absurd h h1
    · exact absurd h h2
  · exact ⟨by simp, fun _ _ => by simp⟩

theorem foldl_onFailure_grows (sid : Nat) (fs : List FKey) (s : MSt × List FKey) :
    Grows sid s (fs.foldl (onFailure sid) s) := by
  induction fs generalizing s with
  | nil => exact Grows.refl sid s
  | cons f r ih => simp only [List.foldl_cons]; exact (onFailure_grows sid s f).trans (ih _)

theorem foldl_onFailure_handles (sid : Nat) (fs : List FKey) (s : MSt × List FKey) (f : FKey) (hf : f ∈ fs) :
    f ∉ s.1.seenSuite → f ∉ s.1.seenRun →
      (sid, f) ∈ (fs.foldl (onFailure sid) s).1.recorded ∧ f ∈ (fs.foldl (onFailure sid) s).2 := by
  induction fs generalizing s with
  | nil => simp at hf
  | cons g r ih =>
    intro h1 h2
    simp only [List.foldl_cons]
    by_cases hg : f = g
    · subst hg
      have h := (onFailure_handles sid s f).2 h1 h2
      have hgr := foldl_onFailure_grows sid r (onFailure sid s f)
      exact ⟨hgr.recd _ h.1, hgr.coll _ h.2⟩
    · have hfr : f ∈ r := by simpa [hg] using hf
      by_cases hs : f ∈ (onFailure sid s g).1.seenSuite
      · -- g's handling cannot have put f there: onFailure only adds g
        exfalso
        unfold onFailure at hs
        split at hs
        · exact h1 hs
        · simp only [List.mem_append, List.mem_singleton] at hs
          rcases hs with hs | hs
          · exact h1 hs
          · exact hg hs
      · exact ih _ hfr hs (by rw [(onFailure_grows sid s g).run]; exact h2)

theorem runChecks_grows (sid : Nat) (cs : List CheckOut) (s : MSt × List FKey) : Grows sid s (runChecks sid s cs).1 := by
  induction cs generalizing s with
  | nil => exact Grows.refl sid s
  | cons c r ih =>
    cases c with
    | pass => simp only [runChecks]; exact ih s
    | fail fs => simp only [runChecks]; exact (foldl_onFailure_grows sid fs s).trans (ih _)
    | crash => exact Grows.refl sid s

theorem runChecks_handles (sid : Nat) (cs : List CheckOut) (s : MSt × List FKey) (f : FKey) (hf : f ∈ failsOf cs) :
    f ∉ s.1.seenSuite → f ∉ s.1.seenRun →
      (sid, f) ∈ (runChecks sid s cs).1.1.recorded ∧ f ∈ (runChecks sid s cs).1.2 := by
  induction cs generalizing s with
  | nil => simp [failsOf] at hf
  | cons c r ih =>
    intro h1 h2
    cases c with
    | pass => simp only [runChecks]; exact ih s (by simpa [failsOf] using hf) h1 h2
    | crash => simp [failsOf] at hf
    | fail fs =>
      simp only [runChecks]
      by_cases hin : f ∈ fs
      · have h := foldl_onFailure_handles sid fs s f hin h1 h2
        have hgr := runChecks_grows sid r (fs.foldl (onFailure sid) s)
        exact ⟨hgr.recd _ h.1, hgr.coll _ h.2⟩
      · have hfr : f ∈ failsOf r := by simpa [failsOf, hin] using hf
        have hg := foldl_onFailure_grows sid fs s
        by_cases hs : f ∈ (fs.foldl (onFailure sid) s).1.seenSuite
        · -- then some member of fs put it there, i.e. f ∈ fs
          exfalso
          clear ih hfr hf hg
          induction fs generalizing s with
          | nil => exact h1 hs
          | cons g t iht =>
            simp only [List.foldl_cons] at hs
            have hng : f ≠ g := fun e => hin (by simp [e])
            have hnt : f ∉ t := fun e => hin (by simp [e])
            refine iht (onFailure sid s g) ?_ ?_ hnt hs
            · unfold onFailure
              split
              · exact h1
              · simp only [List.mem_append, List.mem_singleton]; rintro (h | h); exact h1 h; exact hng h
            · rw [(onFailure_grows sid s g).run]; exact h2
        · exact ih _ hfr hs (by rw [hg.run]; exact h2)

/-- `validate_response`: a failure that is new (not seen in this suite, not seen in the run) among what the checks raise
    before any crash is recorded for this scenario; the call does not end normally; and if no check crashed it is a member
    of the raised group -/
theorem validate_new_failure (sid : Nat) (m : MSt) (cs : List CheckOut) (f : FKey) (hf : f ∈ failsOf cs)
    (h1 : f ∉ m.seenSuite) (h2 : f ∉ m.seenRun) :
    (sid, f) ∈ (validate sid m cs).1.recorded ∧
    ((validate sid m cs).2 = .crash ∨ ∃ fs, (validate sid m cs).2 = .group fs ∧ f ∈ fs) := by
  have h := runChecks_handles sid cs (m, []) f hf h1 h2
  simp only [validate]
  split
  · exact ⟨h.1, Or.inl rfl⟩
  · split
    · rename_i he
      have : (runChecks sid (m, []) cs).1.2 = [] := by simpa using he
      rw [this] at h; simp at h
    · exact ⟨h.1, Or.inr ⟨_, rfl, h.2⟩⟩

theorem store_recorded (m : MSt) (c : CaseKey) (o : Cached) : (store m c o).recorded = m.recorded := by
  unfold store; split <;> rfl

/-- `step`, when it reaches the call: the same, in terms of the step's result and the scenario status -/
theorem step_new_failure (m : MSt) (s : Step) (cs : List CheckOut) (f : FKey)
    (hgo : (requestStop m s.stopBefore).ctl.hasToStop = false) (hcache : lookup (requestStop m s.stopBefore) s.case = none)
    (hcall : s.call = .responds cs) (hf : f ∈ failsOf cs) (h1 : f ∉ m.seenSuite) (h2 : f ∉ m.seenRun) :
    (m.current.getD 0, f) ∈ (step m s).1.recorded ∧
    (((step m s).2 = .exception ∧ (step m s).1.stepStatus = some .error) ∨
     (∃ fs, (step m s).2 = .failureGroup fs ∧ f ∈ fs ∧ (step m s).1.stepStatus = some .failure)) := by
  have hfr := requestStop_frame m s.stopBefore
  simp only [frame, Frame.mk.injEq] at hfr
  have hss : (requestStop m s.stopBefore).seenSuite = m.seenSuite := by unfold requestStop; split <;> rfl
  have hv := validate_new_failure ((requestStop m s.stopBefore).current.getD 0) (attempt (requestStop m s.stopBefore)) cs f hf
    (by simpa [attempt, hss] using h1) (by simpa [attempt, hfr.2.2.2.1] using h2)
  simp only [step, hgo, Bool.false_eq_true, if_false, hcache, hcall]
  rw [hfr.2.2.1] at hv
  obtain ⟨hrec, hres⟩ := hv
  rcases hres with hc | ⟨fs, hg, hin⟩
  · rw [hfr.2.2.1, hc]
    refine ⟨?_, Or.inl ⟨rfl, rfl⟩⟩
    simpa only [errored, store_recorded] using hrec
  · rw [hfr.2.2.1, hg]
    refine ⟨?_, Or.inr ⟨fs, rfl, hin, rfl⟩⟩
    simpa only [store_recorded] using hrec

/-- the status a scenario is closed with agrees with how its last step ended -/
theorem step_res_status (m : MSt) (s : Step) :
    (∀ fs, (step m s).2 = .failureGroup fs → (step m s).1.stepStatus = some .failure) ∧
    ((step m s).2 = .exception → (step m s).1.stepStatus = some .error) := by
  unfold step
  simp only
  split
  · simp
  · split
    · simp
    · simp
    · simp [errored]
    · simp
    · split
      · simp [errored]
      · simp
      · simp
      · split <;> simp_all [errored]

theorem runSteps_end_status (m : MSt) (steps : List Step) :
    (∀ fs, (runSteps m steps).2 = .failureGroup fs → (runSteps m steps).1.stepStatus = some .failure) ∧
    ((runSteps m steps).2 = .exception → (runSteps m steps).1.stepStatus = some .error) := by
  induction steps generalizing m with
  | nil => simp [runSteps]
  | cons s r ih =>
    have hs := step_res_status m s
    simp only [runSteps]
    split
    · exact ih _
    · exact ih _
    · rename_i m' fs heq
      rw [heq] at hs
      exact ⟨fun _ _ => hs.1 fs rfl, by simp⟩
    · rename_i m' heq
      rw [heq] at hs
      exact ⟨by simp, fun _ => hs.2 rfl⟩
    · simp
    · simp

/-- A scenario whose run is ended by a check failure is closed as FAILURE, one ended by an error as ERROR: the closing
    event is the last thing the scenario puts. -/
theorem runScenario_closing_status (m : MSt) (sc : Scenario) (hs : sc.setupFails = false) (ht : sc.teardownFails = false) :
    (∀ fs, (runScenario m sc).2 = .failureGroup fs →
        (runScenario m sc).1.out = m.out ++ [.scenStarted m.nextId, .scenFinished m.nextId .failure]) ∧
    ((runScenario m sc).2 = .exception →
        (runScenario m sc).1.out = m.out ++ [.scenStarted m.nextId, .scenFinished m.nextId .error]) := by
  simp only [runScenario, setup, hs, ht, Bool.false_eq_true, if_false]
  generalize hm1 : ({ m with current := some m.nextId, nextId := m.nextId + 1, out := m.out ++ [SEv.scenStarted m.nextId] } : MSt) = m1
  have h := runSteps_frame m1 sc.steps
  simp only [frame, Frame.mk.injEq] at h
  have he := runSteps_end_status m1 sc.steps
  constructor
  · intro fs hfs
    simp only [teardown, h.1, h.2.2.1, he.1 fs hfs]
    subst hm1; simp
  · intro hx
    simp only [teardown, h.1, h.2.2.1, he.2 hx]
    subst hm1; simp


/-! ## termination of the suite loop -/

/-- what was seen in this suite is from the universe `U` of failures the API can exhibit, and new to the run -/
def Inv (U : List FKey) (m : MSt) : Prop := ∀ f, f ∈ m.seenSuite → f ∈ U ∧ f ∉ m.seenRun

theorem onFailure_inv (U : List FKey) (sid : Nat) (s : MSt × List FKey) (f : FKey) (hf : f ∈ U) (h : Inv U s.1) :
    Inv U (onFailure sid s f).1 := by
  unfold onFailure
  split
  · exact h
  · rename_i hn
    simp only [Bool.or_eq_true, List.contains_eq_mem, decide_eq_true_eq, not_or] at hn
    intro g hg
    simp only [List.mem_append, List.mem_singleton] at hg
    rcases hg with hg | hg
    · exact h g hg
    · subst hg; exact ⟨hf, hn.2⟩

theorem foldl_onFailure_inv (U : List FKey) (sid : Nat) (fs : List FKey) (s : MSt × List FKey) (hf : ∀ f, f ∈ fs → f ∈ U)
    (h : Inv U s.1) : Inv U (fs.foldl (onFailure sid) s).1 := by
  induction fs generalizing s with
  | nil => exact h
  | cons f r ih =>
    simp only [List.foldl_cons]
    exact ih _ (fun g hg => hf g (by simp [hg])) (onFailure_inv U sid s f (hf f (by simp)) h)

theorem runChecks_inv (U : List FKey) (sid : Nat) (cs : List CheckOut) (s : MSt × List FKey) (hf : ∀ f, f ∈ allFails cs → f ∈ U)
    (h : Inv U s.1) : Inv U (runChecks sid s cs).1.1 := by
  induction cs generalizing s with
  | nil => exact h
  | cons c r ih =>
    cases c with
    | pass => simp only [runChecks]; exact ih s (by simpa [allFails] using hf) h
    | crash => exact h
    | fail fs =>
      simp only [runChecks]
      exact ih _ (fun g hg => hf g (by simp [allFails, hg]))
        (foldl_onFailure_inv U sid fs s (fun g hg => hf g (by simp [allFails, hg])) h)

theorem validate_inv (U : List FKey) (sid : Nat) (m : MSt) (cs : List CheckOut) (hf : ∀ f, f ∈ allFails cs → f ∈ U)
    (h : Inv U m) : Inv U (validate sid m cs).1 := by
  have := runChecks_inv U sid cs (m, []) hf h
  simp only [validate]
  split
  · exact this
  · split <;> exact this

/-- the two sets `Inv` talks about -/
def seen (m : MSt) : List FKey × List FKey := (m.seenSuite, m.seenRun)

theorem store_seen (m : MSt) (c : CaseKey) (o : Cached) : seen (store m c o) = seen m := by
  unfold store; split <;> rfl

theorem requestStop_seen (m : MSt) (b : Bool) : seen (requestStop m b) = seen m := by
  unfold requestStop; split <;> rfl

theorem inv_of_seen {U : List FKey} {a b : MSt} (h : seen a = seen b) (hb : Inv U b) : Inv U a := by
  simp only [seen, Prod.mk.injEq] at h
  intro f hf
  rw [h.1] at hf; rw [h.2]; exact hb f hf

@[simp] theorem store_seenSuite (m : MSt) (c : CaseKey) (o : Cached) : (store m c o).seenSuite = m.seenSuite := by
  unfold store; split <;> rfl
@[simp] theorem store_seenRun (m : MSt) (c : CaseKey) (o : Cached) : (store m c o).seenRun = m.seenRun := by
  unfold store; split <;> rfl

@[simp] theorem requestStop_seenSuite (m : MSt) (b : Bool) : (requestStop m b).seenSuite = m.seenSuite := by
  unfold requestStop; split <;> rfl
@[simp] theorem requestStop_seenRun (m : MSt) (b : Bool) : (requestStop m b).seenRun = m.seenRun := by
  unfold requestStop; split <;> rfl

theorem step_inv (U : List FKey) (m : MSt) (s : Step) (hk : ∀ f, f ∈ stepKeys s → f ∈ U) (h : Inv U m) : Inv U (step m s).1 := by
  have h0 : Inv U (requestStop m s.stopBefore) := inv_of_seen (requestStop_seen m s.stopBefore) h
  unfold step
  simp only
  split
  · exact h0
  · split
    · exact h0
    · exact inv_of_seen (by simp [seen]) h0
    · exact inv_of_seen (by simp [seen, errored]) h0
    · exact inv_of_seen (by simp [seen]) h0
    · split
      · exact inv_of_seen (by simp [seen, errored, attempt]) h0
      · exact inv_of_seen (by simp [seen, attempt]) h0
      · exact inv_of_seen (by simp [seen, attempt]) h0
      · rename_i cs hc
        have hv := validate_inv U ((requestStop m s.stopBefore).current.getD 0) (attempt (requestStop m s.stopBefore)) cs
          (fun f hf => hk f (by simp [stepKeys, hc, hf])) (inv_of_seen (by simp [seen, attempt]) h0)
        split
        · exact inv_of_seen (by simp [seen]) hv
        · exact inv_of_seen (by simp [seen]) hv
        · exact inv_of_seen (by simp [seen, errored]) hv

theorem runSteps_inv (U : List FKey) (m : MSt) (steps : List Step) (hk : ∀ f, f ∈ steps.flatMap stepKeys → f ∈ U)
    (h : Inv U m) : Inv U (runSteps m steps).1 := by
  induction steps generalizing m with
  | nil => exact h
  | cons s r ih =>
    have hs := step_inv U m s (fun f hf => hk f (by simp [hf])) h
    have hr : ∀ f, f ∈ r.flatMap stepKeys → f ∈ U := fun f hf => hk f (by
      simp only [List.flatMap_cons, List.mem_append]; exact Or.inr hf)
    simp only [runSteps]
    split <;> simp_all

theorem runScenario_inv (U : List FKey) (m : MSt) (sc : Scenario) (hk : ∀ f, f ∈ scenKeys sc → f ∈ U) (h : Inv U m) :
    Inv U (runScenario m sc).1 := by
  simp only [runScenario, setup]
  split
  · rename_i heq
    split at heq
    · simp only [Prod.mk.injEq] at heq; obtain ⟨rfl, _⟩ := heq; exact h
    · simp at heq
  · rename_i m1 heq
    split at heq
    · simp at heq
    · simp only [Prod.mk.injEq, and_true] at heq
      subst heq
      split
      · exact inv_of_seen (by rfl) (runSteps_inv U _ sc.steps hk (inv_of_seen (by rfl) h))
      · exact inv_of_seen (by rfl) (runSteps_inv U _ sc.steps hk (inv_of_seen (by rfl) h))

theorem runMachine_inv (U : List FKey) (m : MSt) (scens : List Scenario) (hk : ∀ f, f ∈ scens.flatMap scenKeys → f ∈ U)
    (h : Inv U m) : Inv U (runMachine m scens).1 := by
  induction scens generalizing m with
  | nil => exact h
  | cons sc rest ih =>
    have h1 := runScenario_inv U m sc (fun f hf => hk f (by simp [hf])) h
    simp only [runMachine]
    split
    · exact h1
    · exact ih _ (fun f hf => hk f (by simp only [List.flatMap_cons, List.mem_append]; exact Or.inr hf)) h1

/-- `runMachine` leaves the run-level set alone and only ever completes scenarios -/
theorem runScenario_run (m : MSt) (sc : Scenario) :
    (runScenario m sc).1.seenRun = m.seenRun ∧ m.completed ≤ (runScenario m sc).1.completed ∧
    (runScenario m sc).1.maxExamples = m.maxExamples := by
  simp only [runScenario, setup]
  split
  · rename_i heq
    split at heq
    · simp only [Prod.mk.injEq] at heq; obtain ⟨rfl, _⟩ := heq; exact ⟨rfl, Nat.le_refl _, rfl⟩
    · simp at heq
  · rename_i m1 heq
    split at heq
    · simp at heq
    · simp only [Prod.mk.injEq, and_true] at heq
      subst heq
      have h := runSteps_frame { m with current := some m.nextId, nextId := m.nextId + 1, out := m.out ++ [SEv.scenStarted m.nextId] } sc.steps
      simp only [frame, Frame.mk.injEq] at h
      split
      · simp only [teardownFailing]
        exact ⟨h.2.2.2.1, by rw [h.2.2.2.2.1]; exact Nat.le_refl _, h.2.2.2.2.2.2⟩
      · simp only [teardown]
        exact ⟨h.2.2.2.1, by rw [h.2.2.2.2.1]; exact Nat.le_succ _, h.2.2.2.2.2.2⟩

theorem runMachine_run (m : MSt) (scens : List Scenario) :
    (runMachine m scens).1.seenRun = m.seenRun ∧ m.completed ≤ (runMachine m scens).1.completed ∧
    (runMachine m scens).1.maxExamples = m.maxExamples := by
  induction scens generalizing m with
  | nil => exact ⟨rfl, Nat.le_refl _, rfl⟩
  | cons sc rest ih =>
    have h1 := runScenario_run m sc
    simp only [runMachine]
    split
    · exact h1
    · have h2 := ih (runScenario m sc).1
      exact ⟨h2.1.trans h1.1, Nat.le_trans h1.2.1 h2.2.1, h2.2.2.trans h1.2.2⟩

/-- failures of `U` not yet marked as seen in the run, plus the retries the Unsatisfiable arm still allows -/
def mu (U : List FKey) (m : MSt) : Nat :=
  (U.filter (fun f => !decide (f ∈ m.seenRun))).length + (m.maxExamples - m.completed)

theorem filter_len_le (U a b : List FKey) (h : ∀ x, x ∈ a → x ∈ b) :
    (U.filter (fun f => !decide (f ∈ b))).length ≤ (U.filter (fun f => !decide (f ∈ a))).length := by
  induction U with
  | nil => simp
  | cons u r ih =>
    simp only [List.filter_cons]
    by_cases hb : u ∈ b
    · by_cases ha : u ∈ a
      · simpa [ha, hb] using ih
      · simp only [hb, decide_true, Bool.not_true, Bool.false_eq_true, if_false, ha, decide_false,
          Bool.not_false, if_true, List.length_cons]
        omega
    · have ha : u ∉ a := fun x => hb (h u x)
      simpa [ha, hb] using ih

theorem filter_len_lt (U a b : List FKey) (h : ∀ x, x ∈ a → x ∈ b) (f : FKey) (hU : f ∈ U) (ha : f ∉ a) (hb : f ∈ b) :
    (U.filter (fun f => !decide (f ∈ b))).length < (U.filter (fun f => !decide (f ∈ a))).length := by
  induction U with
  | nil => simp at hU
  | cons u r ih =>
    simp only [List.filter_cons]
    by_cases hu : f = u
    · subst hu
      have := filter_len_le r a b h
      simp only [hb, decide_true, Bool.not_true, Bool.false_eq_true, if_false, ha, decide_false,
        Bool.not_false, if_true, List.length_cons]
      omega
    · have hr : f ∈ r := by simpa [hu] using hU
      have := ih hr
      by_cases hub : u ∈ b
      · by_cases hua : u ∈ a
        · simpa [hua, hub] using this
        · simp only [hub, decide_true, Bool.not_true, Bool.false_eq_true, if_false, hua, decide_false,
            Bool.not_false, if_true, List.length_cons]
          omega
      · have hua : u ∉ a := fun x => hub (h u x)
        simpa [hua, hub] using this

def fl (U : List FKey) (m : MSt) : Nat := (U.filter (fun f => !decide (f ∈ m.seenRun))).length

theorem mu_eq (U : List FKey) (m : MSt) : mu U m = fl U m + (m.maxExamples - m.completed) := rfl

/-- a handler that lets the loop continue has made progress: a failure of `U` newly marked as seen in the run, or one
    more of the at most `max_examples` retries used up -/
theorem handle_progress (U : List FKey) (a : MSt) (ki : Bool) (hyp : HypEnd) (hinv : Inv U a)
    (hs : match hyp with | .failureGroup marked => ∃ f, f ∈ marked ∧ f ∈ a.seenSuite | _ => True)
    (hc : (handle .repaired a ki hyp).2.2.2 = true) :
    fl U (handle .repaired a ki hyp).2.2.1 + ((handle .repaired a ki hyp).2.2.1.maxExamples - ((handle .repaired a ki hyp).2.2.1.completed + 1))
      < fl U a + (a.maxExamples - a.completed) := by
  unfold handle at hc ⊢
  cases ki with
  | true => simp at hc
  | false =>
    simp only [Bool.false_eq_true, if_false] at hc ⊢
    cases hyp with
    | ok => simp at hc
    | skipTest => simp at hc
    | otherException => simp at hc
    | failureGroup marked =>
      simp only at hc hs ⊢
      by_cases hl : a.ctl.limit = true
      · simp [hl] at hc
      · simp only [hl, Bool.false_eq_true, if_false]
        obtain ⟨f, hfm, hfs⟩ := hs
        have hfi := hinv f hfs
        have := filter_len_lt U a.seenRun (a.seenRun ++ marked) (fun x hx => by simp [hx]) f hfi.1 hfi.2 (by simp [hfm])
        simp only [fl]
        omega
    | flaky =>
      simp only at hc ⊢
      by_cases hl : a.ctl.limit = true
      · simp [hl] at hc
      · simp only [hl, Bool.false_eq_true, if_false] at hc ⊢
        cases hss : a.seenSuite with
        | nil => simp [hss] at hc
        | cons f t =>
          simp only [List.isEmpty_cons, Bool.false_eq_true, if_false]
          have hfi := hinv f (by simp [hss])
          have := filter_len_lt U a.seenRun (a.seenRun ++ f :: t) (fun x hx => by simp [hx]) f hfi.1 hfi.2 (by simp)
          simp only [fl]
          omega
    | unsatisfiable =>
      simp only at hc ⊢
      by_cases hcp : a.completed > 0
      · simp only [hcp, if_true, decide_eq_true_eq] at hc ⊢
        omega
      · simp [hcp] at hc

/-- shape of an iteration after which the loop continues -/
theorem suiteStep_cont (v : Variant) (k : Nat) (m0 : MSt) (r : Run) (hc : (suiteStep v k m0 r).2 = true) :
    (suiteStep v k m0 r).1 =
      finish (put (handle v (runMachine (put (requestStop m0 r.stopBeforeSuite) [.suiteStarted k]) r.scens).1
                    ((runMachine (put (requestStop m0 r.stopBeforeSuite) [.suiteStarted k]) r.scens).2.any (· == .ki)) r.hyp).2.2.1
                  (handle v (runMachine (put (requestStop m0 r.stopBeforeSuite) [.suiteStarted k]) r.scens).1
                    ((runMachine (put (requestStop m0 r.stopBeforeSuite) [.suiteStarted k]) r.scens).2.any (· == .ki)) r.hyp).2.1) k
             (handle v (runMachine (put (requestStop m0 r.stopBeforeSuite) [.suiteStarted k]) r.scens).1
                    ((runMachine (put (requestStop m0 r.stopBeforeSuite) [.suiteStarted k]) r.scens).2.any (· == .ki)) r.hyp).1 ∧
    (handle v (runMachine (put (requestStop m0 r.stopBeforeSuite) [.suiteStarted k]) r.scens).1
      ((runMachine (put (requestStop m0 r.stopBeforeSuite) [.suiteStarted k]) r.scens).2.any (· == .ki)) r.hyp).2.2.2 = true := by
  by_cases h1 : (put (requestStop m0 r.stopBeforeSuite) [SEv.suiteStarted k]).ctl.stop = true
  · simp [suiteStep, h1] at hc
  · by_cases h2 : ((runMachine (put (requestStop m0 r.stopBeforeSuite) [SEv.suiteStarted k]) r.scens).2.any (· == .baseExc)) = true
    · simp [suiteStep, h1, h2] at hc
    · simp only [suiteStep, h1, h2, Bool.false_eq_true, if_false] at hc ⊢
      exact ⟨trivial, hc⟩

theorem suiteStep_progress (U : List FKey) (k : Nat) (m0 : MSt) (r : Run) (hinv : Inv U m0)
    (hk : ∀ f, f ∈ runKeys r → f ∈ U) (hs : RunSane k m0 r) (hc : (suiteStep .repaired k m0 r).2 = true) :
    mu U (suiteStep .repaired k m0 r).1 < mu U m0 ∧ Inv U (suiteStep .repaired k m0 r).1 := by
  obtain ⟨heq, hcont⟩ := suiteStep_cont .repaired k m0 r hc
  rw [heq]
  refine ⟨?_, fun f hf => by simp [finish] at hf⟩
  generalize hm : put (requestStop m0 r.stopBeforeSuite) [SEv.suiteStarted k] = m at hcont hs ⊢
  have hm0 : Inv U m := by subst hm; exact inv_of_seen (by simp [seen, put]) hinv
  have hmrun : m.seenRun = m0.seenRun ∧ m.completed = m0.completed ∧ m.maxExamples = m0.maxExamples := by
    have := requestStop_frame m0 r.stopBeforeSuite
    simp only [frame, Frame.mk.injEq] at this
    subst hm; exact ⟨this.2.2.2.1, this.2.2.2.2.1, this.2.2.2.2.2.2⟩
  have hri := runMachine_inv U m r.scens hk hm0
  have hrr := runMachine_run m r.scens
  simp only [RunSane, hm] at hs
  have hp := handle_progress U (runMachine m r.scens).1 ((runMachine m r.scens).2.any (· == .ki)) r.hyp hri hs hcont
  simp only [mu_eq, fl, finish, put] at hp ⊢
  rw [hrr.1, hmrun.1, hrr.2.2, hmrun.2.2] at hp
  have hcmp := hrr.2.1
  rw [hmrun.2.1] at hcmp
  omega

theorem suitesRun_bounded (U : List FKey) (k : Nat) (m : MSt) (runs : List Run) (hinv : Inv U m)
    (hk : ∀ r, r ∈ runs → ∀ f, f ∈ runKeys r → f ∈ U) (hs : SaneAll k m runs) :
    suitesRun .repaired k m runs ≤ mu U m + 1 := by
  induction runs generalizing k m with
  | nil => simp [suitesRun]
  | cons r rest ih =>
    simp only [suitesRun]
    split
    · rename_i hc
      have hp := suiteStep_progress U k m r hinv (hk r (by simp)) hs.1 hc
      have := ih (k + 1) _ hp.2 (fun r' hr' => hk r' (by simp [hr'])) (hs.2 hc)
      omega
    · omega

/-! ### the loop as found: an intermittent error keeps it running for ever -/

theorem flakyErrorRun_asFound (k : Nat) (m : MSt) (h : Quiet m) :
    (suiteStep .asFound k m flakyErrorRun).2 = true ∧ Quiet (suiteStep .asFound k m flakyErrorRun).1 ∧
    (suiteStep .asFound k m flakyErrorRun).1.calls = m.calls + 2 := by
  obtain ⟨h1, h2, h3, h4⟩ := h
  cases hu : m.unique <;>
    simp [suiteStep, flakyErrorRun, put, requestStop, h1, h2, h3, h4, hu, runMachine, runScenario, setup, runSteps, step,
      Ctl.hasToStop, lookup, errored, store, attempt, teardown, ScenEnd.propagates, handle, finish, validate, runChecks, Quiet]

theorem flakyErrorRun_repaired (k : Nat) (m : MSt) (h : Quiet m) :
    (suiteStep .repaired k m flakyErrorRun).2 = false ∧
    (suiteStep .repaired k m flakyErrorRun).1.out =
      m.out ++ [.suiteStarted k, .scenStarted m.nextId, .scenFinished m.nextId .error, .scenStarted (m.nextId + 1),
                .scenFinished (m.nextId + 1) .success, .nonFatal, .suiteFinished k .error] := by
  obtain ⟨h1, h2, h3, h4⟩ := h
  cases hu : m.unique <;>
    simp [suiteStep, flakyErrorRun, put, requestStop, h1, h2, h3, h4, hu, runMachine, runScenario, setup, runSteps, step,
      Ctl.hasToStop, lookup, errored, store, attempt, teardown, ScenEnd.propagates, handle, finish, validate, runChecks]

theorem asFound_runs_as_long_as_scripted (n k : Nat) (m : MSt) (h : Quiet m) :
    suitesRun .asFound k m (List.replicate n flakyErrorRun) = n ∧
    (thread .asFound k m (List.replicate n flakyErrorRun)).calls = m.calls + 2 * n := by
  induction n generalizing k m with
  | zero => simp [suitesRun, thread]
  | succ n ih =>
    have hs := flakyErrorRun_asFound k m h
    have := ih (k + 1) _ hs.2.1
    simp only [List.replicate_succ, suitesRun, thread, hs.1, if_true]
    refine ⟨by omega, ?_⟩
    rw [this.2, hs.2.2]; omega


/-! ## the failure limit in the stateful phase: at most `max_failures` scenarios are reported as failed -/

theorem failedScenarios_append (a b : List SEv) : failedScenarios (a ++ b) = failedScenarios a + failedScenarios b := by
  induction a with
  | nil => simp [failedScenarios]
  | cons e r ih =>
    cases e with
    | scenFinished i st => cases st <;> simp [failedScenarios, ih] <;> omega
    | _ => simp [failedScenarios, ih]

/-- the limit flag is set as soon as the counter reaches the limit -/
def K (mx : Nat) (c : Ctl) : Prop := c.maxFailures = some mx ∧ (c.limit = false → c.failures < mx)

theorem countFailure_K (mx : Nat) (c : Ctl) (h : K mx c) : K mx c.countFailure ∧ c.countFailure.failures = c.failures + 1 := by
  obtain ⟨h1, h2⟩ := h
  have e : c.countFailure = { c with failures := c.failures + 1, limit := c.limit || decide (c.failures + 1 ≥ mx) } := by
    unfold Ctl.countFailure; simp [h1]
  rw [e]
  refine ⟨⟨h1, ?_⟩, rfl⟩
  intro hl
  simp only [Bool.or_eq_false_iff, decide_eq_false_iff_not] at hl
  show c.failures + 1 < mx
  omega

/-- `on_failure`: the counter moves exactly with the collected set -/
theorem onFailure_count (mx sid : Nat) (s : MSt × List FKey) (f : FKey) (h : K mx s.1.ctl) :
    K mx (onFailure sid s f).1.ctl ∧
    (onFailure sid s f).1.ctl.failures + s.2.length = s.1.ctl.failures + (onFailure sid s f).2.length := by
  unfold onFailure
  split
  · exact ⟨h, rfl⟩
  · have := countFailure_K mx s.1.ctl h
    refine ⟨this.1, ?_⟩
    simp only [List.length_append, List.length_singleton]
    rw [this.2]; omega

theorem foldl_onFailure_count (mx sid : Nat) (fs : List FKey) (s : MSt × List FKey) (h : K mx s.1.ctl) :
    K mx (fs.foldl (onFailure sid) s).1.ctl ∧
    (fs.foldl (onFailure sid) s).1.ctl.failures + s.2.length = s.1.ctl.failures + (fs.foldl (onFailure sid) s).2.length := by
  induction fs generalizing s with
  | nil => exact ⟨h, rfl⟩
  | cons f r ih =>
    simp only [List.foldl_cons]
    have h1 := onFailure_count mx sid s f h
    have h2 := ih (onFailure sid s f) h1.1
    exact ⟨h2.1, by omega⟩

theorem runChecks_count (mx sid : Nat) (cs : List CheckOut) (s : MSt × List FKey) (h : K mx s.1.ctl) :
    K mx (runChecks sid s cs).1.1.ctl ∧
    (runChecks sid s cs).1.1.ctl.failures + s.2.length = s.1.ctl.failures + (runChecks sid s cs).1.2.length := by
  induction cs generalizing s with
  | nil => exact ⟨h, rfl⟩
  | cons c r ih =>
    cases c with
    | pass => simp only [runChecks]; exact ih s h
    | crash => exact ⟨h, rfl⟩
    | fail fs =>
      simp only [runChecks]
      have h1 := foldl_onFailure_count mx sid fs s h
      have h2 := ih _ h1.1
      exact ⟨h2.1, by omega⟩

/-- `validate_response`: the control invariant is kept, the counter never goes down, and a raised group means at least
    one failure was counted -/
theorem validate_count (mx sid : Nat) (m : MSt) (cs : List CheckOut) (h : K mx m.ctl) :
    K mx (validate sid m cs).1.ctl ∧ m.ctl.failures ≤ (validate sid m cs).1.ctl.failures ∧
    (∀ fs, (validate sid m cs).2 = .group fs → m.ctl.failures + 1 ≤ (validate sid m cs).1.ctl.failures) := by
  have hc := runChecks_count mx sid cs (m, []) h
  simp only [List.length_nil, Nat.add_zero] at hc
  have hle : m.ctl.failures ≤ (runChecks sid (m, []) cs).1.1.ctl.failures := by omega
  simp only [validate]
  split
  · exact ⟨hc.1, hle, by simp⟩
  · split
    · exact ⟨hc.1, hle, by simp⟩
    · rename_i hne
      refine ⟨hc.1, hle, fun fs _ => ?_⟩
      have : (runChecks sid (m, []) cs).1.2.length ≠ 0 := by
        intro h0
        have : (runChecks sid (m, []) cs).1.2 = [] := List.eq_nil_of_length_eq_zero h0
        simp [this] at hne
      show m.ctl.failures + 1 ≤ (runChecks sid (m, []) cs).1.1.ctl.failures
      omega

@[simp] theorem store_ctl (m : MSt) (c : CaseKey) (o : Cached) : (store m c o).ctl = m.ctl := by
  unfold store; split <;> rfl
@[simp] theorem store_stepStatus (m : MSt) (c : CaseKey) (o : Cached) : (store m c o).stepStatus = m.stepStatus := by
  unfold store; split <;> rfl

theorem requestStop_K (mx : Nat) (m : MSt) (b : Bool) (h : K mx m.ctl) :
    K mx (requestStop m b).ctl ∧ (requestStop m b).ctl.failures = m.ctl.failures ∧ (requestStop m b).stepStatus = m.stepStatus := by
  unfold requestStop; split
  · exact ⟨⟨h.1, h.2⟩, rfl, rfl⟩
  · exact ⟨h, rfl, rfl⟩

/-- one step: invariant kept, counter monotone; if the status becomes FAILURE in this step then the limit had not been
    reached before it and the step counted at least one failure -/
theorem step_count (mx : Nat) (m : MSt) (s : Step) (h : K mx m.ctl) :
    K mx (step m s).1.ctl ∧ m.ctl.failures ≤ (step m s).1.ctl.failures ∧
    ((step m s).1.stepStatus = some .failure → m.stepStatus ≠ some .failure →
      m.ctl.failures < mx ∧ m.ctl.failures + 1 ≤ (step m s).1.ctl.failures) := by
  obtain ⟨hk, hf, hs⟩ := requestStop_K mx m s.stopBefore h
  have hle : m.ctl.failures ≤ (requestStop m s.stopBefore).ctl.failures := by omega
  have hkeep : (requestStop m s.stopBefore).stepStatus = some .failure → m.stepStatus ≠ some .failure →
      m.ctl.failures < mx ∧ m.ctl.failures + 1 ≤ (requestStop m s.stopBefore).ctl.failures :=
    fun h1 h2 => absurd (hs ▸ h1) h2
  unfold step
  simp only
  split
  · exact ⟨hk, hle, hkeep⟩
  · rename_i hgo
    have hlim : (requestStop m s.stopBefore).ctl.limit = false := by
      simp only [Ctl.hasToStop, Bool.or_eq_true, not_or, Bool.not_eq_true] at hgo; exact hgo.2
    have hlt : m.ctl.failures < mx := by rw [← hf]; exact hk.2 hlim
    split
    · exact ⟨hk, hle, hkeep⟩
    · refine ⟨?_, ?_, ?_⟩
      · show K mx (store (requestStop m s.stopBefore) s.case .failure).ctl; rw [store_ctl]; exact hk
      · show m.ctl.failures ≤ (store (requestStop m s.stopBefore) s.case .failure).ctl.failures; rw [store_ctl]; exact hle
      · intro h1; simp at h1
    · refine ⟨?_, ?_, ?_⟩
      · show K mx (store (requestStop m s.stopBefore) s.case .exception).ctl; rw [store_ctl]; exact hk
      · show m.ctl.failures ≤ (store (requestStop m s.stopBefore) s.case .exception).ctl.failures; rw [store_ctl]; exact hle
      · intro h1; simp [errored] at h1
    · refine ⟨?_, ?_, ?_⟩
      · show K mx (store (requestStop m s.stopBefore) s.case .baseExc).ctl; rw [store_ctl]; exact hk
      · show m.ctl.failures ≤ (store (requestStop m s.stopBefore) s.case .baseExc).ctl.failures; rw [store_ctl]; exact hle
      · intro h1 h2
        have : (store (requestStop m s.stopBefore) s.case .baseExc).stepStatus = some .failure := h1
        rw [store_stepStatus] at this; exact absurd (hs ▸ this) h2
    · split
      · refine ⟨?_, ?_, ?_⟩
        · show K mx (store (attempt (requestStop m s.stopBefore)) s.case .exception).ctl; rw [store_ctl]; exact hk
        · show m.ctl.failures ≤ (store (attempt (requestStop m s.stopBefore)) s.case .exception).ctl.failures; rw [store_ctl]; exact hle
        · intro h1; simp [errored] at h1
      · refine ⟨hk, hle, ?_⟩
        intro h1; simp at h1
      · refine ⟨?_, ?_, ?_⟩
        · show K mx (store (attempt (requestStop m s.stopBefore)) s.case .baseExc).ctl; rw [store_ctl]; exact hk
        · show m.ctl.failures ≤ (store (attempt (requestStop m s.stopBefore)) s.case .baseExc).ctl.failures; rw [store_ctl]; exact hle
        · intro h1 h2
          have : (store (attempt (requestStop m s.stopBefore)) s.case .baseExc).stepStatus = some .failure := h1
          rw [store_stepStatus] at this; exact absurd (hs ▸ this) h2
      · rename_i cs _
        have hv := validate_count mx ((requestStop m s.stopBefore).current.getD 0) (attempt (requestStop m s.stopBefore)) cs hk
        have hv2 : m.ctl.failures ≤ (validate ((requestStop m s.stopBefore).current.getD 0) (attempt (requestStop m s.stopBefore)) cs).1.ctl.failures :=
          Nat.le_trans hle hv.2.1
        split
        · refine ⟨?_, ?_, ?_⟩
          · show K mx (store _ s.case .none_).ctl; rw [store_ctl]; exact hv.1
          · show m.ctl.failures ≤ (store _ s.case .none_).ctl.failures; rw [store_ctl]; exact hv2
          · intro h1; simp at h1
        · rename_i fs hg
          refine ⟨?_, ?_, ?_⟩
          · show K mx (store _ s.case .failure).ctl; rw [store_ctl]; exact hv.1
          · show m.ctl.failures ≤ (store _ s.case .failure).ctl.failures; rw [store_ctl]; exact hv2
          · intro _ _
            refine ⟨hlt, ?_⟩
            show m.ctl.failures + 1 ≤ (store _ s.case .failure).ctl.failures
            rw [store_ctl]
            have := hv.2.2 fs hg
            have e : (attempt (requestStop m s.stopBefore)).ctl.failures = m.ctl.failures := hf
            omega
        · refine ⟨?_, ?_, ?_⟩
          · show K mx (store _ s.case .exception).ctl; rw [store_ctl]; exact hv.1
          · show m.ctl.failures ≤ (store _ s.case .exception).ctl.failures; rw [store_ctl]; exact hv2
          · intro h1; simp [errored] at h1

theorem step_status_none_or (m : MSt) (s : Step) :
    ((step m s).2 = .returned → (step m s).1.stepStatus = some .success) ∧
    ((step m s).2 = .returnedNone → (step m s).1.stepStatus = m.stepStatus) := by
  have hs : (requestStop m s.stopBefore).stepStatus = m.stepStatus := by unfold requestStop; split <;> rfl
  unfold step
  simp only
  split
  · simp
  · split
    · simp [hs]
    · simp
    · simp [errored]
    · simp
    · split
      · simp [errored]
      · simp
      · simp
      · split <;> simp_all [errored]

theorem runSteps_count (mx : Nat) (m : MSt) (steps : List Step) (h : K mx m.ctl) (hst : m.stepStatus ≠ some .failure) :
    K mx (runSteps m steps).1.ctl ∧ m.ctl.failures ≤ (runSteps m steps).1.ctl.failures ∧
    ((runSteps m steps).1.stepStatus = some .failure →
      ∃ f0, m.ctl.failures ≤ f0 ∧ f0 < mx ∧ f0 + 1 ≤ (runSteps m steps).1.ctl.failures) := by
  induction steps generalizing m with
  | nil => exact ⟨h, Nat.le_refl _, fun hf => absurd hf hst⟩
  | cons s r ih =>
    have hc := step_count mx m s h
    have hn := step_status_none_or m s
    simp only [runSteps]
    split
    · rename_i m' heq
      rw [heq] at hc hn
      dsimp only at hc hn
      have h2 := ih m' hc.1 (by rw [hn.1 rfl]; simp)
      exact ⟨h2.1, by omega, fun hf => by obtain ⟨f0, a, b, c⟩ := h2.2.2 hf; exact ⟨f0, by omega, b, c⟩⟩
    · rename_i m' heq
      rw [heq] at hc hn
      dsimp only at hc hn
      have h2 := ih m' hc.1 (by rw [hn.2 rfl]; exact hst)
      exact ⟨h2.1, by omega, fun hf => by obtain ⟨f0, a, b, c⟩ := h2.2.2 hf; exact ⟨f0, by omega, b, c⟩⟩
    all_goals
      rename_i m' heq
      rw [heq] at hc
      dsimp only at hc
      exact ⟨hc.1, hc.2.1, fun hf => ⟨m.ctl.failures, Nat.le_refl _, (hc.2.2 hf hst).1, (hc.2.2 hf hst).2⟩⟩

/-- between scenarios: the status is cleared, and the failed scenarios reported so far are covered by the counter and by
    the limit -/
def Capped (mx : Nat) (m : MSt) : Prop :=
  K mx m.ctl ∧ m.stepStatus = none ∧ failedScenarios m.out ≤ m.ctl.failures ∧ failedScenarios m.out ≤ mx

theorem runScenario_capped (mx : Nat) (m : MSt) (sc : Scenario) (ht : sc.teardownFails = false) (h : Capped mx m) :
    Capped mx (runScenario m sc).1 := by
  obtain ⟨hk, hst, hf1, hf2⟩ := h
  simp only [runScenario, setup, ht, Bool.false_eq_true, if_false]
  split
  · rename_i heq
    split at heq
    · simp only [Prod.mk.injEq] at heq; obtain ⟨rfl, _⟩ := heq; exact ⟨hk, hst, hf1, hf2⟩
    · simp at heq
  · rename_i m1 heq
    split at heq
    · simp at heq
    · simp only [Prod.mk.injEq, and_true] at heq
      subst heq
      generalize hm1 : ({ m with current := some m.nextId, nextId := m.nextId + 1, out := m.out ++ [SEv.scenStarted m.nextId] } : MSt) = m1
      have hk1 : K mx m1.ctl := by subst hm1; exact hk
      have hs1 : m1.stepStatus ≠ some .failure := by subst hm1; simp [hst]
      have hfr := runSteps_frame m1 sc.steps
      simp only [frame, Frame.mk.injEq] at hfr
      have hc := runSteps_count mx m1 sc.steps hk1 hs1
      have hout : m1.out = m.out ++ [SEv.scenStarted m.nextId] := by subst hm1; rfl
      have hfail : m1.ctl.failures = m.ctl.failures := by subst hm1; rfl
      refine ⟨by simpa [teardown] using hc.1, by simp [teardown], ?_, ?_⟩
      all_goals
        simp only [teardown, hfr.1, hout, failedScenarios_append]
        cases hss : (runSteps m1 sc.steps).1.stepStatus with
        | none => simp [failedScenarios]; omega
        | some st =>
          cases st with
          | failure =>
            obtain ⟨f0, a, b, c⟩ := hc.2.2 hss
            simp [failedScenarios]; omega
          | _ => simp [failedScenarios]; omega

theorem runMachine_capped (mx : Nat) (m : MSt) (scens : List Scenario) (ht : ∀ sc, sc ∈ scens → sc.teardownFails = false)
    (h : Capped mx m) : Capped mx (runMachine m scens).1 := by
  induction scens generalizing m with
  | nil => exact h
  | cons sc rest ih =>
    have h1 := runScenario_capped mx m sc (ht sc (by simp)) h
    simp only [runMachine]
    split
    · exact h1
    · exact ih _ (fun x hx => ht x (by simp [hx])) h1

theorem handle_ctl (v : Variant) (m : MSt) (ki : Bool) (hyp : HypEnd) :
    (handle v m ki hyp).2.2.1.ctl.maxFailures = m.ctl.maxFailures ∧ (handle v m ki hyp).2.2.1.ctl.failures = m.ctl.failures ∧
    (handle v m ki hyp).2.2.1.ctl.limit = m.ctl.limit := by
  unfold handle
  split
  · exact ⟨rfl, rfl, rfl⟩
  · split
    · exact ⟨rfl, rfl, rfl⟩
    · exact ⟨rfl, rfl, rfl⟩
    · split <;> exact ⟨rfl, rfl, rfl⟩
    · split
      · exact ⟨rfl, rfl, rfl⟩
      · split
        · exact ⟨rfl, rfl, rfl⟩
        · split <;> exact ⟨rfl, rfl, rfl⟩
    · split <;> exact ⟨rfl, rfl, rfl⟩
    · exact ⟨rfl, rfl, rfl⟩

theorem handle_events_failed (v : Variant) (m : MSt) (ki : Bool) (hyp : HypEnd) :
    failedScenarios (handle v m ki hyp).2.1 = 0 := by
  rcases handle_events v m ki hyp with h | h | h <;> rw [h] <;> simp [failedScenarios]

theorem suiteStep_capped (mx : Nat) (v : Variant) (k : Nat) (m0 : MSt) (r : Run)
    (ht : ∀ sc, sc ∈ r.scens → sc.teardownFails = false) (h : Capped mx m0) : Capped mx (suiteStep v k m0 r).1 := by
  obtain ⟨hk0, hst0, hf1, hf2⟩ := h
  obtain ⟨hk, hf, hs⟩ := requestStop_K mx m0 r.stopBeforeSuite hk0
  have hout : (requestStop m0 r.stopBeforeSuite).out = m0.out := by
    have := requestStop_frame m0 r.stopBeforeSuite; simp only [frame, Frame.mk.injEq] at this; exact this.1
  have hm : Capped mx (put (requestStop m0 r.stopBeforeSuite) [SEv.suiteStarted k]) :=
    ⟨by simpa [put] using hk, by simp [put, hs, hst0],
     by simp [put, hout, failedScenarios_append, failedScenarios, hf]; exact hf1,
     by simp [put, hout, failedScenarios_append, failedScenarios]; exact hf2⟩
  simp only [suiteStep]
  generalize put (requestStop m0 r.stopBeforeSuite) [SEv.suiteStarted k] = mm at hm ⊢
  split
  · obtain ⟨a, b, c, d⟩ := hm
    exact ⟨by simpa [put] using a, by simpa [put] using b,
           by simp only [put, failedScenarios_append]; simp [failedScenarios]; exact c,
           by simp only [put, failedScenarios_append]; simp [failedScenarios]; exact d⟩
  · have hrm := runMachine_capped mx mm r.scens ht hm
    generalize runMachine mm r.scens = rm at hrm ⊢
    obtain ⟨a, b, c, d⟩ := hrm
    split
    · exact ⟨by simpa [finish] using a, by simp [finish],
             by simp only [finish, failedScenarios_append]; simp [failedScenarios]; exact c,
             by simp only [finish, failedScenarios_append]; simp [failedScenarios]; exact d⟩
    · have hh := handle_ctl v rm.1 (List.any rm.2 fun x => x == ScenEnd.ki) r.hyp
      have ho := handle_out v rm.1 (List.any rm.2 fun x => x == ScenEnd.ki) r.hyp
      have he := handle_events_failed v rm.1 (List.any rm.2 fun x => x == ScenEnd.ki) r.hyp
      generalize handle v rm.1 (List.any rm.2 fun x => x == ScenEnd.ki) r.hyp = hd at hh ho he ⊢
      refine ⟨⟨?_, fun hl => ?_⟩, by simp [finish], ?_, ?_⟩
      · show hd.2.2.1.ctl.maxFailures = some mx
        rw [hh.1]; exact a.1
      · have hl' : hd.2.2.1.ctl.limit = false := hl
        show hd.2.2.1.ctl.failures < mx
        rw [hh.2.1]; rw [hh.2.2] at hl'; exact a.2 hl'
      · show failedScenarios ((hd.2.2.1.out ++ hd.2.1) ++ [SEv.suiteFinished k hd.1]) ≤ hd.2.2.1.ctl.failures
        rw [failedScenarios_append, failedScenarios_append, ho.1, he, hh.2.1]; simp [failedScenarios]; exact c
      · show failedScenarios ((hd.2.2.1.out ++ hd.2.1) ++ [SEv.suiteFinished k hd.1]) ≤ mx
        rw [failedScenarios_append, failedScenarios_append, ho.1, he]; simp [failedScenarios]; exact d

theorem thread_capped (mx : Nat) (v : Variant) (k : Nat) (m : MSt) (runs : List Run) (ht : NoTeardownFault runs)
    (h : Capped mx m) : Capped mx (thread v k m runs) := by
  induction runs generalizing k m with
  | nil => exact h
  | cons r rest ih =>
    have h1 := suiteStep_capped mx v k m r (ht r (by simp)) h
    simp only [thread]
    split
    · exact ih (k + 1) _ (fun r' hr' => ht r' (by simp [hr'])) h1
    · exact h1

end SV.Proofs.SM
