/-
  C01 — positive-mode test data conforms to the API schema.  Property theorems only
  (definitions: SV.Model.C01 / SV.Spec.C01, helper lemmas: SV.Proofs.C01).

  Reading guide.  `transform cfg c S` is the model of `to_json_schema_recursive` (SV.Model.C01), `validF` the shared
  JSON-Schema reference semantics; `envPlain env` reads a schema as plain JSON Schema (what hypothesis-jsonschema
  does with the converted schema), `envRequest env nn` reads it as an OpenAPI schema on the request side
  (nullable, readOnly). The regex and format oracles of `env` are arbitrary.
-/
import SV.Proofs.C01
import SV.Proofs.C01Regex
import SV.Proofs.C01Merge
import SV.Proofs.C01Body
import SV.Proofs.C01Prune

namespace SV.Props.C01
open SV SV.Model.C01 SV.Spec.JsonSchema SV.Spec.C01 SV.Proofs.C01

/-! ## conversion: nullable, pattern/length merging, combinators, arrays, objects — exactness on the fragment -/

/-- **C01_nullable_exact.** For every OpenAPI schema object of the fragment `Frag` (any nesting of nullable,
    type/enum/bounds/length/pattern/format, items, properties, required, additionalProperties, patternProperties,
    allOf/anyOf/oneOf/not; no `$ref`, no readOnly property, no dict literals) the converted schema accepts exactly the
    instances the OpenAPI schema accepts on the request side — provided the pattern rewriter is exact (`PatExact`)
    wherever it is switched on. Holds for both variants of both defect sites (neither is reached inside the fragment
    when `PatExact` holds). -/
theorem C01_nullable_exact (cfg : Cfg) (env : Env) (hnn : cfg.nn = "nullable" ∨ cfg.nn = "x-nullable")
    (hresp : cfg.resp = false) (hp : cfg.updQ = true → PatExact env cfg)
    (f c : Nat) (S v : Json) (hS : Frag cfg.nn f c S = true) (g : Nat) (hg : 2 * f ≤ g) :
    validF g (envPlain env) (transform cfg c S) v = validF f (envRequest env cfg.nn) S v :=
  conv_exact cfg env hnn hresp hp f c S v g hS hg

/-- non-vacuity: a nested schema with nullable at two levels, a pattern with lengths, combinators and an object
    is in the fragment; and the identity rewriter is `PatExact`. -/
example :
    Frag "nullable" 6 12 (.obj [("type", .str "object"), ("nullable", .bool true),
      ("properties", .obj [("a", .obj [("type", .str "string"), ("nullable", .bool true), ("pattern", .str "^[a-z]+$"),
                                         ("maxLength", .num 3 0)]),
                           ("b", .obj [("anyOf", .arr [.obj [("type", .str "integer"), ("minimum", .num 1 0)],
                                                        .obj [("type", .str "array"),
                                                              ("items", .obj [("type", .str "boolean"), ("nullable", .bool true)])]])])]),
      ("required", .arr [.str "a"]), ("additionalProperties", .bool false)]) = true := by
  decide

example (env : Env) : PatExact env {} := by
  intro p lo hi s h; exact absurd rfl h

/-- the theorem applied: `null` passes the converted schema of a nullable string, `5` does not -/
example :
    validF 4 (envPlain {}) (transform {} 6 (.obj [("type", .str "string"), ("nullable", .bool true)])) .null = true ∧
    validF 4 (envPlain {}) (transform {} 6 (.obj [("type", .str "string"), ("nullable", .bool true)])) (.num 5 0) = false := by
  decide

/-! ## readOnly properties are never sent -/

/-- **C01_readonly_never_sent** (repaired variant of `forbid_properties`, proposed_fixes/F4.diff): whatever passes the
    converted schema of a `type: object` schema contains none of its readOnly properties — any number of readOnly
    properties, with or without an earlier `not`, whatever the other keywords are. -/
theorem C01_readonly_never_sent (cfg : Cfg) (hnn : cfg.nn = "nullable" ∨ cfg.nn = "x-nullable")
    (hrep : cfg.vForbid = .repaired) (env : Env) (kvs members : Kvs) (c g : Nat)
    (hty : Json.lookup "type" kvs = some (.str "object")) (hnull : Json.lookup cfg.nn kvs ≠ some (.bool true))
    (href : Json.lookup "$ref" kvs = none)
    (hv : validF (g + 3) (envPlain env) (transform cfg (c + 4) (.obj kvs)) (.obj members) = true) :
    ∀ n ∈ forbiddenNames cfg kvs, Json.lookup n members = none := by
  intro n hn
  refine readonly_core cfg hnn env kvs members c g hty hnull href ?_ hv n hn
  intro X _
  have hne : forbiddenNames cfg kvs ≠ [] := by intro h; rw [h] at hn; cases hn
  simp only [forbid, hrep]
  exact forbidRepaired_shape X _ hne

/-- **C01_readonly_never_sent_partial** (the code as found): the same holds when the object has exactly one readOnly
    property and no `not` keyword of its own. -/
theorem C01_readonly_never_sent_partial (cfg : Cfg) (hnn : cfg.nn = "nullable" ∨ cfg.nn = "x-nullable")
    (hasf : cfg.vForbid = .asFound) (env : Env) (kvs members : Kvs) (c g : Nat)
    (hty : Json.lookup "type" kvs = some (.str "object")) (hnull : Json.lookup cfg.nn kvs ≠ some (.bool true))
    (href : Json.lookup "$ref" kvs = none)
    (n1 : String) (hone : forbiddenNames cfg kvs = [n1]) (hnot : Json.lookup "not" kvs = none)
    (hv : validF (g + 3) (envPlain env) (transform cfg (c + 4) (.obj kvs)) (.obj members) = true) :
    Json.lookup n1 members = none := by
  refine readonly_core cfg hnn env kvs members c g hty hnull href ?_ hv n1 (by rw [hone]; simp)
  intro X hX
  simp only [forbid, hasf, hone]
  exact ⟨_, forbidAsFound_single X n1 (by rw [hX, hnot]), .single n1 rfl⟩

/-- **C01_readonly_never_sent_full_false** (F4): on the snapshot two readOnly properties are forbidden only jointly —
    `{"a": 1}` passes the converted schema although the OpenAPI schema (request side) rejects it; the repaired variant
    rejects it. -/
theorem C01_readonly_never_sent_full_false :
    let s : Json := .obj [("type", .str "object"),
      ("properties", .obj [("a", .obj [("type", .str "integer"), ("readOnly", .bool true)]),
                           ("b", .obj [("type", .str "integer"), ("readOnly", .bool true)])])]
    validF 8 (envPlain {}) (transform {} 8 s) (.obj [("a", .num 1 0)]) = true ∧
    validF 8 (envRequest {} "nullable") s (.obj [("a", .num 1 0)]) = false ∧
    validF 8 (envPlain {}) (transform { vForbid := .repaired } 8 s) (.obj [("a", .num 1 0)]) = false := by
  decide

/-- F4b: a readOnly name merged into an existing `not` schema is no longer forbidden:
    `{type: object, not: {type: string}, properties: {a: readOnly}}` lets `{"a": 1}` through. -/
theorem C01_readonly_prior_not_full_false :
    let s : Json := .obj [("type", .str "object"), ("not", .obj [("type", .str "string")]),
      ("properties", .obj [("a", .obj [("type", .str "integer"), ("readOnly", .bool true)])])]
    validF 8 (envPlain {}) (transform {} 8 s) (.obj [("a", .num 1 0)]) = true ∧
    validF 8 (envRequest {} "nullable") s (.obj [("a", .num 1 0)]) = false ∧
    validF 8 (envPlain {}) (transform { vForbid := .repaired } 8 s) (.obj [("a", .num 1 0)]) = false ∧
    validF 8 (envPlain {}) (transform { vForbid := .repaired } 8 s) (.obj []) = true := by
  decide

/-- non-vacuity of `C01_readonly_never_sent`: a body with two readOnly properties and an ordinary one passes the
    repaired conversion when (and only when) it leaves both out -/
example :
    let kvs : Kvs := [("type", .str "object"),
      ("properties", .obj [("a", .obj [("readOnly", .bool true)]), ("b", .obj [("readOnly", .bool true)]),
                           ("c", .obj [("type", .str "string")])]), ("required", .arr [.str "a", .str "c"])]
    forbiddenNames { vForbid := .repaired } kvs = ["a", "b"] ∧
    validF 3 (envPlain {}) (transform { vForbid := .repaired } 4 (.obj kvs)) (.obj [("c", .str "x")]) = true ∧
    validF 3 (envPlain {}) (transform { vForbid := .repaired } 4 (.obj kvs)) (.obj [("c", .str "x"), ("b", .num 1 0)]) = false := by
  decide


/-! ## the per-location object schema (`parameters_to_json_schema`) -/

/-- **C01_params_object.** What passes the object schema built for one parameter location is exactly: an object that
    contains every required parameter name, contains only declared names, and gives each a value valid for that
    parameter's converted schema (the last declaration of a name wins, as in the code). -/
theorem C01_params_object (cfg : Cfg) (fuel : Nat) (isHeader : Bool) (ps : List Param) (env : Env) (g : Nat) (v : Json) :
    validF (g + 2) (envPlain env) (.obj (paramsToSchema cfg fuel isHeader ps)) v = true ↔
    ∃ members, v = .obj members ∧ (∀ k ∈ paramsRequired ps, (Json.lookup k members).isSome = true) ∧
      ∀ k x, (k, x) ∈ members →
        ∃ s, Json.lookup k (paramsProps cfg fuel isHeader ps) = some s ∧ validF (g + 1) (envPlain env) s x = true :=
  params_object env (paramsProps cfg fuel isHeader ps) (paramsRequired ps) g v

/-- non-vacuity: required `id` present and valid passes; a missing required name or an undeclared one does not -/
example :
    let ps : List Param := [⟨"id", true, [("type", .str "integer")]⟩, ⟨"q", false, [("type", .str "string"), ("nullable", .bool true)]⟩]
    validF 4 (envPlain {}) (.obj (paramsToSchema {} 6 false ps)) (.obj [("id", .num 1 0), ("q", .null)]) = true ∧
    validF 4 (envPlain {}) (.obj (paramsToSchema {} 6 false ps)) (.obj [("q", .str "x")]) = false ∧
    validF 4 (envPlain {}) (.obj (paramsToSchema {} 6 false ps)) (.obj [("id", .num 1 0), ("zz", .num 1 0)]) = false := by
  decide

/-! ## pattern x minLength/maxLength merging (`patterns.update_quantifier`) on the regex model -/

section Regex
open SV.Model.C01Regex SV.Spec.C01Regex SV.Proofs.C01Regex

/-- **C01_pattern_merge_sound.** Pattern anchored at both ends (`^`/`\A` … `$`/`\Z`), middle made of literals and
    repeats of one-character-wide expressions (literal, class, `.`, `\d`…, alternations of those), not a single bare
    literal, repeat bounds well-formed, and either the repaired zero test of `_distribute_length_constraints` or a
    `maxLength` different from the number of literals. Then whenever `update_quantifier` re-renders the pattern (which
    is exactly when `update_pattern_in_schema` drops `minLength`/`maxLength`), every string that matches the new
    pattern matches the old one **and** has a length within `[minLength, maxLength]`: the generator cannot leave the
    documented language. Covers the single-repeat shape and the multi-part distribution algorithm (exact-length
    search and range distribution), for every atom interpretation `sat`. -/
theorem C01_pattern_merge_sound {α : Type} (sat : α → Char → Bool) (v : RxV)
    (first last : Item α) (middle : List (Item α)) (lo hi : Option Nat) (out : List (Item α))
    (hb : isBegin first = true) (he : isEnd last = true) (hs : simpleMiddle middle = true)
    (hwf : wfBounds (repBounds middle)) (hbare : ∀ a, middle ≠ [.lit a])
    (hv : v.zeroMax = .repaired ∨ ∀ h, hi = some h → h ≠ countLits middle) (hhi : ∀ h, hi = some h → h < MAXREPEAT)
    (hq : updateQuantifier v (first :: middle ++ [last]) lo hi = .ok out true) :
    ∃ middle', out = first :: middle' ++ [last] ∧
      ∀ s, SearchAnchored sat middle' s →
        SearchAnchored sat middle s ∧ lo.getD 0 ≤ s.length ∧ ∀ h, hi = some h → s.length ≤ h :=
  updateQuantifier_sound v first last middle lo hi out hb he hs hwf hbare hv hhi hq

/-- **C01_pattern_merge_keeps_some** (the "not reported as impossible" direction): under the same hypotheses, and
    atoms that each admit some character, the re-rendered pattern is matched by at least one string — merging the
    length keywords into the pattern never produces an unsatisfiable pattern. -/
theorem C01_pattern_merge_keeps_some {α : Type} (sat : α → Char → Bool) (hinh : ∀ a, ∃ c, sat a c = true) (v : RxV)
    (first last : Item α) (middle : List (Item α)) (lo hi : Option Nat) (out : List (Item α))
    (hb : isBegin first = true) (he : isEnd last = true) (hs : simpleMiddle middle = true)
    (hwf : wfBounds (repBounds middle)) (hbare : ∀ a, middle ≠ [.lit a])
    (hv : v.zeroMax = .repaired ∨ ∀ h, hi = some h → h ≠ countLits middle) (hhi : ∀ h, hi = some h → h < MAXREPEAT)
    (hq : updateQuantifier v (first :: middle ++ [last]) lo hi = .ok out true) :
    ∃ middle' s, out = first :: middle' ++ [last] ∧ SearchAnchored sat middle' s :=
  updateQuantifier_keeps hinh v first last middle lo hi out hb he hs hwf hbare hv hhi hq

/-- non-vacuity of `C01_pattern_merge_sound`: `^[a-z]+$` with `maxLength 3` is re-rendered as `^([a-z]){1,3}$`, and
    `^a[0-9]{1,4}-[a-z]*$` with `minLength = maxLength = 5` gets the distribution `{1}` / `{2}` -/
example :
    updateQuantifier {} [.at .bos, .rep 1 MAXREPEAT (.atom 0), .at .eos] none (some 3)
      = .ok [.at .bos, .rep 1 3 (.atom 0), .at .eos] true ∧
    updateQuantifier {} [.at .bos, .lit 1, .rep 1 4 (.atom 3), .lit 9, .rep 0 MAXREPEAT (.atom 0), .at .eos] (some 5) (some 5)
      = .ok [.at .bos, .lit 1, .rep 1 1 (.atom 3), .lit 9, .rep 2 2 (.atom 0), .at .eos] true := by
  decide

/-- **C01_pattern_merge_full_false (F5)**: without anchors the merge is unsound — `[a-z]` + `maxLength 3` becomes
    `([a-z]){1,3}`, which "aaaaaaa" matches under search semantics although it is 7 characters long. -/
theorem C01_pattern_merge_unanchored_full_false :
    updateQuantifier {} [(.cls 0 : Item Nat)] none (some 3) = .ok [.rep 1 3 (.atom 0)] true ∧
    SearchFree satW [(.rep 1 3 (.atom 0) : Item Nat)] "aaaaaaa".toList ∧ ¬ ("aaaaaaa".toList.length ≤ 3) := by
  refine ⟨by decide, ⟨"aaaa".toList, "aaa".toList, [], by decide, ?_⟩, by decide⟩
  exact .cat (.rep [['a'], ['a'], ['a']] (fun w hw => by
      simp only [List.mem_cons, List.mem_nil_iff, or_false] at hw
      rcases hw with rfl | rfl | rfl <;> exact .atom (by decide)) (by decide) (.inr (by decide))) .eps

/-- **(F28)**: a repeat of a two-character group — `^(ab)+$` + `maxLength 3` becomes `^(ab){1,3}$` with the length
    keyword dropped; "ababab" (6 characters) matches. -/
theorem C01_pattern_merge_wide_group_full_false :
    updateQuantifier {} [(.at .bos : Item Nat), .rep 1 MAXREPEAT (.cat (.atom 1) (.atom 2)), .at .eos] none (some 3)
      = .ok [.at .bos, .rep 1 3 (.cat (.atom 1) (.atom 2)), .at .eos] true ∧
    SearchAnchored satW [(.rep 1 3 (.cat (.atom 1) (.atom 2)) : Item Nat)] "ababab".toList ∧
    ¬ ("ababab".toList.length ≤ 3) := by
  refine ⟨by decide, ?_, by decide⟩
  exact .cat (.rep [['a', 'b'], ['a', 'b'], ['a', 'b']] (fun w hw => by
      simp only [List.mem_cons, List.mem_nil_iff, or_false] at hw
      rcases hw with rfl | rfl | rfl <;>
        exact Matches.cat (u := ['a']) (w := ['b']) (.atom (by decide)) (.atom (by decide))) (by decide) (.inr (by decide))) .eps

/-- **(F32)**: a bare atom between anchors gets a quantifier — `^a$` + `maxLength 3` becomes `^(a){1,3}$`; "aaa"
    matches the new pattern and does not match `^a$`. -/
theorem C01_pattern_merge_bare_atom_full_false :
    updateQuantifier {} [(.at .bos : Item Nat), .lit 1, .at .eos] none (some 3)
      = .ok [.at .bos, .rep 1 3 (.atom 1), .at .eos] true ∧
    SearchAnchored satW [(.rep 1 3 (.atom 1) : Item Nat)] "aaa".toList ∧
    ¬ SearchAnchored satW [(.lit 1 : Item Nat)] "aaa".toList := by
  refine ⟨by decide, ?_, ?_⟩
  · exact .cat (.rep [['a'], ['a'], ['a']] (fun w hw => by
      simp only [List.mem_cons, List.mem_nil_iff, or_false] at hw
      rcases hw with rfl | rfl | rfl <;> exact .atom (by decide)) (by decide) (.inr (by decide))) .eps
  · intro h
    obtain ⟨u, w, e, h1, h2⟩ := cat_inv h
    have := atom_len h1
    have := eps_inv h2
    subst this
    simp at e
    subst e
    simp at this

/-- **(F36)**: `remaining_max = max_length or MAXREPEAT` — `^a[0-9]*$` + `maxLength 1` is re-rendered with the repeat
    still unbounded (and `maxLength` dropped): "a12" matches; the repaired zero test gives `{0}`. -/
theorem C01_pattern_merge_zero_max_full_false :
    updateQuantifier {} [(.at .bos : Item Nat), .lit 1, .rep 0 MAXREPEAT (.atom 3), .at .eos] none (some 1)
      = .ok [.at .bos, .lit 1, .rep 0 MAXREPEAT (.atom 3), .at .eos] true ∧
    SearchAnchored satW [(.lit 1 : Item Nat), .rep 0 MAXREPEAT (.atom 3)] "a12".toList ∧ ¬ ("a12".toList.length ≤ 1) ∧
    updateQuantifier { zeroMax := .repaired } [(.at .bos : Item Nat), .lit 1, .rep 0 MAXREPEAT (.atom 3), .at .eos] none (some 1)
      = .ok [.at .bos, .lit 1, .rep 0 0 (.atom 3), .at .eos] true := by
  refine ⟨by decide, ?_, by decide, by decide⟩
  exact Matches.cat (u := ['a']) (.atom (by decide)) (.cat (.rep [['1'], ['2']] (fun w hw => by
      simp only [List.mem_cons, List.mem_nil_iff, or_false] at hw
      rcases hw with rfl | rfl <;> exact .atom (by decide)) (by decide) (.inl (by decide))) .eps)

/-- F35: a bare class with `minLength > maxLength` makes the rewriter build `{3,1}` — InternalError -/
theorem C01_pattern_merge_internal_error :
    updateQuantifier {} [(.cls 0 : Item Nat)] (some 3) (some 1) = .internalError ∧
    updateQuantifier { atom := .repaired } [(.cls 0 : Item Nat)] (some 3) (some 1) = .ok [.cls 0] false := by
  decide

/-! ### the string schema `update_pattern_in_schema` leaves (pattern + whichever length keywords stay), any anchoring -/

open SV.Proofs.C01Merge

/-- **C01_pattern_merge_search_monotone.** Whatever positional assertions a pattern carries (`^`, `$`, `\\A`, `\\Z`, `\\b`,
    `\\B`, none, on one side only) and however wide its repeated groups are: a string in which the rewritten pattern
    finds a match is a string in which the original pattern finds one — except for the shape of finding F32 (a single
    bare literal/class between two assertions). `bnd` interprets assertions the model does not name. -/
theorem C01_pattern_merge_search_monotone {α : Type} (sat : α → Char → Bool) (bnd : List Char → List Char → Bool) (v : RxV)
    (items out : List (Item α)) (lo hi : Option Nat) (w : Bool) (hwf : wfItems items)
    (hb : bareBetweenAt items = false) (hq : updateQuantifier v items lo hi = .ok out w) :
    ∀ s, Search sat bnd out s → Search sat bnd items s :=
  fun _ h => updateQuantifier_mono v items out lo hi w hwf hb hq h

/-- **C01_length_keywords_dropped_only_if_anchored.** With the repaired test of `update_pattern_in_schema`
    (`is_anchored`) `minLength`/`maxLength` leave the schema only when the pattern was re-rendered *and* starts with a
    begin-of-string anchor and ends with an end-of-string anchor; word boundaries and other assertions do not count. -/
theorem C01_length_keywords_dropped_only_if_anchored {α : Type} (v : RxV) (sameText : Bool) (items out : List (Item α))
    (lo hi : Option Nat) (hm : mergeLengths v .repaired sameText items lo hi = .ok ⟨out, false⟩) :
    updateQuantifier v items lo hi = .ok out true ∧
    ∃ first middle last, items = first :: middle ++ [last] ∧ isBegin first = true ∧ isEnd last = true :=
  ⟨(mergeLengths_dropped v sameText items out lo hi hm).2,
   isAnchored_shape items (mergeLengths_dropped v sameText items out lo hi hm).1⟩

/-- **C01_pattern_schema_merge_sound.** The string schema that `update_pattern_in_schema` leaves — the (possibly
    rewritten) pattern together with the length keywords that are still there — accepts only strings that the original
    `pattern` + `minLength`/`maxLength` accept, under `re.search` semantics, for *every* anchoring: anchored at both
    ends (lengths dropped; one-character-wide repeats, the hypotheses of `C01_pattern_merge_sound`), anchored on one
    side, delimited by word boundaries, not anchored (lengths kept; any repeats). F32's shape is excluded. -/
theorem C01_pattern_schema_merge_sound {α : Type} (sat : α → Char → Bool) (bnd : List Char → List Char → Bool) (v : RxV)
    (sameText : Bool) (items out : List (Item α)) (lo hi : Option Nat) (keep : Bool)
    (hwf : wfItems items) (hb : bareBetweenAt items = false) (hanch : AnchoredOK v items hi)
    (hm : mergeLengths v .repaired sameText items lo hi = .ok ⟨out, keep⟩) :
    ∀ s, Accepts sat bnd out keep lo hi s → Search sat bnd items s ∧ LenOK lo hi s.length :=
  fun s h => ⟨(mergeLengths_sound v sameText items out lo hi keep hwf hb hanch hm s h).1,
              (mergeLengths_sound v sameText items out lo hi keep hwf hb hanch hm s h).2 rfl⟩

/-- non-vacuity: `\\b[a-z]+\\b` + `maxLength 3` is rewritten with the length kept, `^[a-z]+$` + `maxLength 3` with the
    length dropped; both meet the hypotheses of `C01_pattern_schema_merge_sound` -/
example :
    mergeLengths {} .repaired false [(.at .wordB : Item Nat), .rep 1 MAXREPEAT (.atom 0), .at .wordB] none (some 3)
      = .ok ⟨[.at .wordB, .rep 1 3 (.atom 0), .at .wordB], true⟩ ∧
    mergeLengths {} .repaired false [(.at .bos : Item Nat), .rep 1 MAXREPEAT (.atom 0), .at .eos] none (some 3)
      = .ok ⟨[.at .bos, .rep 1 3 (.atom 0), .at .eos], false⟩ ∧
    isAnchored [(.at .wordB : Item Nat), .rep 1 MAXREPEAT (.atom 0), .at .wordB] = false ∧
    isAnchored [(.at .bos : Item Nat), .rep 1 MAXREPEAT (.atom 0), .at .wordB] = false := by
  decide

example : AnchoredOK ({} : RxV) [(.at .wordB : Item Nat), .rep 1 MAXREPEAT (.atom 0), .at .wordB] (some 3) := by
  intro first middle last e hb _
  simp only [List.cons_append, List.cons.injEq] at e
  rw [← e.1] at hb
  simp [isBegin] at hb

example : AnchoredOK ({} : RxV) [(.at .bos : Item Nat), .rep 1 MAXREPEAT (.atom 0), .at .eos] (some 3) := by
  intro first middle last e _ _
  have hm : middle = [.rep 1 MAXREPEAT (.atom 0)] := by
    rcases middle with _ | ⟨m1, _ | ⟨m2, rest⟩⟩ <;> simp_all
  subst hm
  exact ⟨by decide, .inr (by intro h hh; cases hh; decide), by intro h hh; cases hh; decide⟩

/-- **(the seeded class of F5, word boundaries)**: if the length keywords were dropped for a pattern delimited by word
    boundaries — `\\b[a-z]+\\b` + `maxLength 3` becoming `\\b([a-z]){1,3}\\b` on its own — "ab-ab" (5 characters) would be
    accepted: `\\b` is satisfied in the middle of the string. The as-found length-drop site does exactly that; the
    repaired one keeps `maxLength`. -/
theorem C01_pattern_merge_word_boundary_full_false (bnd : List Char → List Char → Bool) :
    mergeLengths {} .asFound false [(.at .wordB : Item Nat), .rep 1 MAXREPEAT (.atom 0), .at .wordB] none (some 3)
      = .ok ⟨[.at .wordB, .rep 1 3 (.atom 0), .at .wordB], false⟩ ∧
    Accepts satW bnd [(.at .wordB : Item Nat), .rep 1 3 (.atom 0), .at .wordB] false none (some 3) "ab-ab".toList ∧
    ¬ LenOK none (some 3) "ab-ab".toList.length ∧
    ¬ Accepts satW bnd [(.at .wordB : Item Nat), .rep 1 3 (.atom 0), .at .wordB] true none (some 3) "ab-ab".toList := by
  refine ⟨by decide, ⟨⟨[], "ab".toList, "-ab".toList, by decide, ?_⟩, fun h => by cases h⟩, ?_, ?_⟩
  · refine .at (by simp only [atOK]; decide) ?_
    have hrep : Matches satW (itemRe (.rep 1 3 (.atom 0) : Item Nat)) "ab".toList :=
      Matches.rep [['a'], ['b']] (fun w hw => by
        simp only [List.mem_cons, List.mem_nil_iff, or_false] at hw
        rcases hw with rfl | rfl <;> exact .atom (by decide)) (by decide) (.inr (by decide))
    have : SeqAt satW bnd [(.rep 1 3 (.atom 0) : Item Nat), .at .wordB] [] ("ab".toList ++ []) "-ab".toList :=
      .item rfl hrep (.at (by simp only [atOK]; decide) .nil)
    simpa using this
  · intro h; have := h.2 3 rfl; simp at this
  · intro h; have := (h.2 rfl).2 3 rfl; simp at this

end Regex

/-! ## which strategy a request-body alternative gets (`_get_body_strategy` and the strategy caches), over histories -/

section Body
open SV.Model.C01Body SV.Spec.C01Body SV.Proofs.C01Body

/-- **C01_strategy_cache_transparent.** A memo table that is consulted with `key r` and filled with `build r` answers
    every request of every history exactly as if nothing were cached — provided the key separates requests that build
    different things. (Both strategy caches of `_hypothesis.py` are such tables.) -/
theorem C01_strategy_cache_transparent {R K S : Type} [DecidableEq K] (key : R → K) (build : R → S) (rs : List R)
    (hsep : ∀ r ∈ rs, ∀ r' ∈ rs, key r = key r' → build r = build r') :
    runCache key build [] rs = rs.map build :=
  runCache_spec key build rs hsep rs [] (fun _ h => h) (cacheInv_nil key build rs)

/-- **C01_strategy_cache_key_must_separate** (the converse): two requests that share a key but build different things
    make the two-request history answer the second one with the strategy of the first. -/
theorem C01_strategy_cache_key_must_separate {R K S : Type} [DecidableEq K] (key : R → K) (build : R → S) (r r' : R)
    (hk : key r' = key r) (hne : build r ≠ build r') :
    runCache key build [] [r, r'] = [build r, build r] ∧ runCache key build [] [r, r'] ≠ [r, r'].map build := by
  have h : runCache key build [] [r, r'] = [build r, build r] := by
    simp [runCache, getOrBuild, lookupK, hk]
  refine ⟨h, ?_⟩
  rw [h]
  intro e
  simp only [List.map_cons, List.map_nil, List.cons.injEq, and_true, true_and] at e
  exact hne e

/-- **The configured string restrictions survive the strategy caches (repaired keys).**  For every history of requests one
    loaded operation receives — any locations, factories, explicit names, and ANY generation settings per request
    (`allow_x00`, `codec`, custom header strategy: the same operation object used by several tests, runs or configurations)
    — every request is answered with a strategy built under ITS OWN settings, for parameters and for bodies alike. -/
theorem C01_strategy_caches_respect_generation_settings (ps : List GenParamReq) (bs : List GenBodyReq) :
    runCache (genParamKey .repaired) buildGenParam [] ps = ps.map buildGenParam ∧
    runCache (genBodyKey .repaired) buildGenBody [] bs = bs.map buildGenBody := by
  refine ⟨C01_strategy_cache_transparent _ _ ps ?_, C01_strategy_cache_transparent _ _ bs ?_⟩
  · intro r _ r' _ h
    simp only [genParamKey, Prod.mk.injEq, Option.some.injEq] at h
    simp only [buildGenParam, Prod.mk.injEq]; exact h
  · intro r _ r' _ h
    simp only [genBodyKey, Prod.mk.injEq, Option.some.injEq] at h
    simp only [buildGenBody, Prod.mk.injEq]; exact ⟨⟨h.1.1, h.1.2⟩, h.2⟩

/-- as found (finding FC01d): the settings are not in the key — the second configuration is answered with the first one's
    strategy: `allow_x00 = false, codec = ascii` after `allow_x00 = true, codec = utf-8` still yields NULs and non-ASCII -/
theorem C01_strategy_cache_ignores_settings_full_false :
    runCache (genParamKey .asFound) buildGenParam []
        [⟨⟨.positive, "query", []⟩, ⟨true, some "utf-8", none⟩⟩, ⟨⟨.positive, "query", []⟩, ⟨false, some "ascii", none⟩⟩] =
      [(paramKey ⟨.positive, "query", []⟩, ⟨true, some "utf-8", none⟩), (paramKey ⟨.positive, "query", []⟩, ⟨true, some "utf-8", none⟩)] := by
  decide

/-- **C01_body_strategy_is_for_own_alternative.** For every history of body-strategy requests that one operation
    receives (any interleaving of alternatives, repeats, positive and negative factories), every request is answered
    with the strategy of the requested alternative: the user-registered one for its media type, or the one built from
    the conversion of *its own* schema, with the `NOT_SET` branch exactly when it is optional and the factory is not the
    negative one. The cache (keyed by alternative and factory) never shows. -/
theorem C01_body_strategy_is_for_own_alternative (cfg : Cfg) (fuel : Nat) (custom : String → Bool) (alts : List Alt)
    (rs : List BodyReq) (hop : FromOperation alts rs) :
    runBody cfg fuel custom [] rs = rs.map (freshBody cfg fuel custom) :=
  runBody_spec cfg fuel custom rs (bodyKey_separates alts rs hop cfg fuel) rs [] (fun _ h => h)
    (cacheInv_nil bodyKey (buildBody cfg fuel) rs)

/-- **C01_body_conforms_to_own_alternative.** Under the contract of the third-party generator (`hgen`: what
    `from_schema s` yields is valid for `s`), whatever the positive strategy answered at step `i` of any history
    yields is either `NOT_SET` for an optional body, or a value valid for the converted schema of the alternative that
    was requested at that step — never for another alternative's. -/
theorem C01_body_conforms_to_own_alternative (cfg : Cfg) (fuel : Nat) (custom : String → Bool) (alts : List Alt)
    (rs : List BodyReq) (hop : FromOperation alts rs) (env : Env) (g : Nat) (gen : Json → Json → Prop)
    (hgen : ∀ s v, gen s v → validF g (envPlain env) s v = true)
    (i : Nat) (r : BodyReq) (hr : rs[i]? = some r) (hpos : r.factory = .positive) (hcus : custom r.alt.mediaType = false)
    (st : Strat) (hst : (runBody cfg fuel custom [] rs)[i]? = some st) (x : BodyVal) (hy : Yields gen st x) :
    match x with
    | .notSet => r.alt.isRequired = false
    | .val v => validF g (envPlain env) (bodySchema cfg fuel r.alt) v = true := by
  rw [C01_body_strategy_is_for_own_alternative cfg fuel custom alts rs hop, List.getElem?_map, hr] at hst
  simp only [Option.map_some, Option.some.injEq] at hst
  subst hst
  simp only [freshBody, hcus, Bool.false_eq_true, if_false, buildBody, hpos] at hy
  cases x with
  | notSet => simpa [Yields] using hy
  | val v => exact hgen _ _ hy

/-- **C01_body_conforms_to_declared_schema.** Composed with `C01_nullable_exact`: for an alternative that is not a
    form and whose declared schema lies in the fragment, every value the positive strategy of any step of any history
    yields conforms to the OpenAPI schema declared *for the requested media type* (request-side reading). -/
theorem C01_body_conforms_to_declared_schema (cfg : Cfg) (fuel : Nat) (custom : String → Bool) (alts : List Alt)
    (rs : List BodyReq) (hop : FromOperation alts rs) (env : Env) (g f : Nat) (gen : Json → Json → Prop)
    (hgen : ∀ s v, gen s v → validF g (envPlain env) s v = true)
    (hnn : cfg.nn = "nullable" ∨ cfg.nn = "x-nullable") (hresp : cfg.resp = false) (hp : cfg.updQ = true → PatExact env cfg)
    (i : Nat) (r : BodyReq) (hr : rs[i]? = some r) (hpos : r.factory = .positive) (hcus : custom r.alt.mediaType = false)
    (hk : r.alt.kind ≠ .v2form) (hform : r.alt.isForm = false)
    (hS : Frag cfg.nn f fuel (.obj r.alt.schema) = true) (hg : 2 * f ≤ g)
    (st : Strat) (hst : (runBody cfg fuel custom [] rs)[i]? = some st) (v : Json) (hy : Yields gen st (.val v)) :
    validF f (envRequest env cfg.nn) (.obj r.alt.schema) v = true := by
  have h := C01_body_conforms_to_own_alternative cfg fuel custom alts rs hop env g gen hgen i r hr hpos hcus st hst (.val v) hy
  simp only at h
  rw [bodySchema_plain cfg fuel r.alt hk hform] at h
  rw [← C01_nullable_exact cfg env hnn hresp hp f fuel (.obj r.alt.schema) v hS g hg]
  exact h

/-- non-vacuity: an operation with a JSON object and a plain-text code; the history asks for JSON, text (negative),
    text, JSON again — each answer is built from the requested alternative's own schema -/
example :
    let json : Alt := { kind := .v3, mediaType := "application/json", required := true,
                        schema := [("type", .str "object"), ("required", .arr [.str "id"])] }
    let text : Alt := { kind := .v3, mediaType := "text/plain", required := false,
                        schema := [("type", .str "string"), ("nullable", .bool true)] }
    let rs : List BodyReq := [⟨0, json, .positive⟩, ⟨1, text, .negative⟩, ⟨1, text, .positive⟩, ⟨0, json, .positive⟩]
    FromOperation [json, text] rs ∧
    (runBody {} 6 (fun _ => false) [] rs).map (fun st => match st with | .built s _ _ ns => (s.beq (bodySchema {} 6 json), ns) | _ => (false, false))
      = [(true, false), (false, false), (false, true), (true, false)] := by
  refine ⟨?_, by decide⟩
  intro r hr
  simp only [List.mem_cons, List.mem_nil_iff, or_false] at hr
  rcases hr with rfl | rfl | rfl | rfl <;> rfl

/-- **C01_body_cache_keyed_by_operation_full_false**: a table keyed by the operation alone (one key for all its
    alternatives) answers the request for the second alternative with the strategy built for the first. -/
theorem C01_body_cache_keyed_by_operation_full_false :
    let build : Nat × Factory → Nat := fun r => r.1   -- "the schema of alternative number r.1"
    runCache (fun _ : Nat × Factory => ()) build [] [(0, .positive), (1, .positive)] = [0, 0] ∧
    runCache (fun r : Nat × Factory => r) build [] [(0, .positive), (1, .positive)] = [0, 1] := by
  decide

/-- **C01_param_cache_key_determines_schema.** The key of the parameter-strategy cache — (factory, location,
    sorted explicit names) under the operation — determines the factory, the location and the set of excluded names,
    hence the object schema the strategy is built from: two requests with the same key build the same thing. -/
theorem C01_param_cache_key_determines_schema (r r' : ParamReq) (hk : paramKey r = paramKey r') (s : Kvs) :
    r.factory = r'.factory ∧ r.location = r'.location ∧ excludeNames r.exclude s = excludeNames r'.exclude s := by
  simp only [paramKey, Prod.mk.injEq] at hk
  refine ⟨hk.1, hk.2.1, excludeNames_congr _ _ ?_ s⟩
  intro y
  rw [← mem_sortNames y r.exclude, ← mem_sortNames y r'.exclude, hk.2.2]

example :
    paramKey ⟨.positive, "query", ["q", "limit"]⟩ = paramKey ⟨.positive, "query", ["limit", "q"]⟩ ∧
    paramKey ⟨.positive, "query", ["q"]⟩ ≠ paramKey ⟨.positive, "header", ["q"]⟩ := by
  decide

end Body

/-! ### pruning at the reference-depth limit (`remove_optional_references.clean_properties`) -/

namespace Prune
open SV.Model.C01Prune

/-- **Pruning only narrows (repaired).**  For every object level, every set of properties (with or without references, with
    or without single-member combinators), every `required` list, `additionalProperties` allowed or not, and every
    instance: what the pruned schema accepts, the original accepts — so positive data generated below the depth limit
    conforms at this level.  Hypothesis (the recorded finding FC01c): no *required* property is a single-member
    combinator over a reference. -/
theorem prune_narrows_repaired (s : ObjSchema) (o : Inst)
    (hres : ∀ p, p ∈ s.props → p.singleComb = true → s.required.contains p.name = false)
    (h : validPruned .repaired s o = true) : validOrig s o = true :=
  SV.Proofs.C01Prune.pruned_narrows s o hres h

/-- as found (finding FC01b): deleting the definition of an optional reference property lets the generator emit that very
    name with a value that does not conform -/
theorem prune_asFound_full_false :
    validPruned .asFound ⟨[⟨"", true, false⟩], [], true⟩ [("", false)] = true ∧
    validOrig ⟨[⟨"", true, false⟩], [], true⟩ [("", false)] = false ∧
    validPruned .repaired ⟨[⟨"", true, false⟩], [], true⟩ [("", false)] = false := by decide

/-- the hypothesis of `prune_narrows_repaired` is needed (finding FC01c, not repaired): a required `allOf: [{$ref}]`
    property is still dropped -/
theorem prune_required_combinator_full_false :
    validPruned .repaired ⟨[⟨"x", false, true⟩], ["x"], true⟩ [("x", false)] = true ∧
    validOrig ⟨[⟨"x", false, true⟩], ["x"], true⟩ [("x", false)] = false := by decide

/-- non-vacuity: an object with a kept, a forbidden and an undeclared property -/
example : validPruned .repaired ⟨[⟨"a", false, false⟩, ⟨"b", true, false⟩], ["a"], true⟩ [("a", true), ("z", false)] = true ∧
    validOrig ⟨[⟨"a", false, false⟩, ⟨"b", true, false⟩], ["a"], true⟩ [("a", true), ("z", false)] = true := by decide

end Prune

end SV.Props.C01
