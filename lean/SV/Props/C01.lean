/-
  C01 — positive-mode test data conforms to the API schema.  Property theorems only
  (definitions: SV.Model.C01 / SV.Spec.C01, helper lemmas: SV.Proofs.C01).

  Reading guide.  `transform cfg c S` is the model of `to_json_schema_recursive` (SV.Model.C01), `validF` the shared
  JSON-Schema reference semantics; `envPlain env` reads a schema as plain JSON Schema (what hypothesis-jsonschema
  does with the converted schema), `envRequest env nn` reads it as an OpenAPI schema on the request side
  (nullable, readOnly). The regex and format oracles of `env` are arbitrary.
-/
import SV.Proofs.C01

namespace SV.Props.C01
open SV SV.Model.C01 SV.Spec.JsonSchema SV.Spec.C01 SV.Proofs.C01

/-! ## conversion: nullable, pattern/length merging, combinators, arrays, objects — exactness on the fragment -/

/-- **C01_nullable_exact.** For every OpenAPI schema object of the fragment `Frag` (any nesting of nullable,
    type/enum/bounds/length/pattern/format, items, properties, required, additionalProperties, patternProperties,
    allOf/anyOf/oneOf/not; no `$ref`, no readOnly property, no dict literals) the converted schema accepts exactly the
    instances the OpenAPI schema accepts on the request side — provided the pattern rewriter is exact (`PatExact`)
    wherever it is switched on. Holds for both variants of both defect sites (neither is reached inside the fragment
    when `PatExact` holds). -/
theorem C01_nullable_exact (cfg : Cfg) (env : Env) (hnn : cfg.nn = "nullable" ∨ cfg.nn = "x-nullable")
    (hresp : cfg.resp = false) (hp : cfg.updQ = true → PatExact env cfg)
    (f c : Nat) (S v : Json) (hS : Frag cfg.nn f c S = true) (g : Nat) (hg : 2 * f ≤ g) :
    validF g (envPlain env) (transform cfg c S) v = validF f (envRequest env cfg.nn) S v :=
  conv_exact cfg env hnn hresp hp f c S v g hS hg

/-- non-vacuity: a nested schema with nullable at two levels, a pattern with lengths, combinators and an object
    is in the fragment; and the identity rewriter is `PatExact`. -/
example :
    Frag "nullable" 6 12 (.obj [("type", .str "object"), ("nullable", .bool true),
      ("properties", .obj [("a", .obj [("type", .str "string"), ("nullable", .bool true), ("pattern", .str "^[a-z]+$"),
                                         ("maxLength", .num 3 0)]),
                           ("b", .obj [("anyOf", .arr [.obj [("type", .str "integer"), ("minimum", .num 1 0)],
                                                        .obj [("type", .str "array"),
                                                              ("items", .obj [("type", .str "boolean"), ("nullable", .bool true)])]])])]),
      ("required", .arr [.str "a"]), ("additionalProperties", .bool false)]) = true := by
  decide

example (env : Env) : PatExact env {} := by
  intro p lo hi s h; exact absurd rfl h

/-- the theorem applied: `null` passes the converted schema of a nullable string, `5` does not -/
example :
    validF 4 (envPlain {}) (transform {} 6 (.obj [("type", .str "string"), ("nullable", .bool true)])) .null = true ∧
    validF 4 (envPlain {}) (transform {} 6 (.obj [("type", .str "string"), ("nullable", .bool true)])) (.num 5 0) = false := by
  decide

/-! ## readOnly properties are never sent -/

/-- **C01_readonly_never_sent** (repaired variant of `forbid_properties`, proposed_fixes/F4.diff): whatever passes the
    converted schema of a `type: object` schema contains none of its readOnly properties — any number of readOnly
    properties, with or without an earlier `not`, whatever the other keywords are. -/
theorem C01_readonly_never_sent (cfg : Cfg) (hnn : cfg.nn = "nullable" ∨ cfg.nn = "x-nullable")
    (hrep : cfg.vForbid = .repaired) (env : Env) (kvs members : Kvs) (c g : Nat)
    (hty : Json.lookup "type" kvs = some (.str "object")) (hnull : Json.lookup cfg.nn kvs ≠ some (.bool true))
    (href : Json.lookup "$ref" kvs = none)
    (hv : validF (g + 3) (envPlain env) (transform cfg (c + 4) (.obj kvs)) (.obj members) = true) :
    ∀ n ∈ forbiddenNames cfg kvs, Json.lookup n members = none := by
  intro n hn
  refine readonly_core cfg hnn env kvs members c g hty hnull href ?_ hv n hn
  intro X _
  have hne : forbiddenNames cfg kvs ≠ [] := by intro h; rw [h] at hn; cases hn
  simp only [forbid, hrep]
  exact forbidRepaired_shape X _ hne

/-- **C01_readonly_never_sent_partial** (the code as found): the same holds when the object has exactly one readOnly
    property and no `not` keyword of its own. -/
theorem C01_readonly_never_sent_partial (cfg : Cfg) (hnn : cfg.nn = "nullable" ∨ cfg.nn = "x-nullable")
    (hasf : cfg.vForbid = .asFound) (env : Env) (kvs members : Kvs) (c g : Nat)
    (hty : Json.lookup "type" kvs = some (.str "object")) (hnull : Json.lookup cfg.nn kvs ≠ some (.bool true))
    (href : Json.lookup "$ref" kvs = none)
    (n1 : String) (hone : forbiddenNames cfg kvs = [n1]) (hnot : Json.lookup "not" kvs = none)
    (hv : validF (g + 3) (envPlain env) (transform cfg (c + 4) (.obj kvs)) (.obj members) = true) :
    Json.lookup n1 members = none := by
  refine readonly_core cfg hnn env kvs members c g hty hnull href ?_ hv n1 (by rw [hone]; simp)
  intro X hX
  simp only [forbid, hasf, hone]
  exact ⟨_, forbidAsFound_single X n1 (by rw [hX, hnot]), .single n1 rfl⟩

/-- **C01_readonly_never_sent_full_false** (F4): on the snapshot two readOnly properties are forbidden only jointly —
    `{"a": 1}` passes the converted schema although the OpenAPI schema (request side) rejects it; the repaired variant
    rejects it. -/
theorem C01_readonly_never_sent_full_false :
    let s : Json := .obj [("type", .str "object"),
      ("properties", .obj [("a", .obj [("type", .str "integer"), ("readOnly", .bool true)]),
                           ("b", .obj [("type", .str "integer"), ("readOnly", .bool true)])])]
    validF 8 (envPlain {}) (transform {} 8 s) (.obj [("a", .num 1 0)]) = true ∧
    validF 8 (envRequest {} "nullable") s (.obj [("a", .num 1 0)]) = false ∧
    validF 8 (envPlain {}) (transform { vForbid := .repaired } 8 s) (.obj [("a", .num 1 0)]) = false := by
  decide

/-- F4b: a readOnly name merged into an existing `not` schema is no longer forbidden:
    `{type: object, not: {type: string}, properties: {a: readOnly}}` lets `{"a": 1}` through. -/
theorem C01_readonly_prior_not_full_false :
    let s : Json := .obj [("type", .str "object"), ("not", .obj [("type", .str "string")]),
      ("properties", .obj [("a", .obj [("type", .str "integer"), ("readOnly", .bool true)])])]
    validF 8 (envPlain {}) (transform {} 8 s) (.obj [("a", .num 1 0)]) = true ∧
    validF 8 (envRequest {} "nullable") s (.obj [("a", .num 1 0)]) = false ∧
    validF 8 (envPlain {}) (transform { vForbid := .repaired } 8 s) (.obj [("a", .num 1 0)]) = false ∧
    validF 8 (envPlain {}) (transform { vForbid := .repaired } 8 s) (.obj []) = true := by
  decide

/-- non-vacuity of `C01_readonly_never_sent`: a body with two readOnly properties and an ordinary one passes the
    repaired conversion when (and only when) it leaves both out -/
example :
    let kvs : Kvs := [("type", .str "object"),
      ("properties", .obj [("a", .obj [("readOnly", .bool true)]), ("b", .obj [("readOnly", .bool true)]),
                           ("c", .obj [("type", .str "string")])]), ("required", .arr [.str "a", .str "c"])]
    forbiddenNames { vForbid := .repaired } kvs = ["a", "b"] ∧
    validF 3 (envPlain {}) (transform { vForbid := .repaired } 4 (.obj kvs)) (.obj [("c", .str "x")]) = true ∧
    validF 3 (envPlain {}) (transform { vForbid := .repaired } 4 (.obj kvs)) (.obj [("c", .str "x"), ("b", .num 1 0)]) = false := by
  decide

end SV.Props.C01
