/-
  C02 — negative-mode test data really violates the schema and is labelled so.  Property theorems only.
  `valid : Loc → Json → Bool` is an arbitrary validity predicate (instantiated by the reference semantics `validF`
  in the correspondence run); the contract of the third-party strategies is the explicit hypothesis `drawOK`.
-/
import SV.Proofs.C02
import SV.Proofs.C02Explicit

namespace SV.Props.C02
open SV SV.Model.C02 SV.Spec.C02 SV.Spec.JsonSchema SV.Proofs.C02

/-! ## the filter guarantee -/

/-- Every value leaving `negative_schema` violates the schema of the validator (and, for `query`, serialises to a
    non-empty query string), whatever the mutated schema made `from_schema` produce. -/
theorem filter_guarantee (valid nonEmpty : Json → Bool) (isQuery : Bool) (cands : List Json) (x : Json)
    (h : x ∈ negativeSchema valid nonEmpty isQuery cands) :
    valid x = false ∧ (isQuery = true → nonEmpty x = true) ∧ x ∈ cands := by
  unfold negativeSchema at h
  simp only [List.mem_filter, Bool.and_eq_true, Bool.or_eq_true, Bool.not_eq_true'] at h
  refine ⟨h.2.2, ?_, h.1⟩
  intro hq
  rcases h.2.1 with h1 | h1
  · simp [hq] at h1
  · exact h1

/-- … and the validator is the one of the requested schema: after any history of `get_validator` calls (the
    `lru_cache` hashes `CacheKey` on operation and location only), the validator handed out for a key was built
    from that key's schema. -/
theorem validator_is_for_requested_schema (history : List CacheKey) (k : CacheKey) :
    (getValidator (runCache [] history) k).1 = k.schema := by
  have hinv : CacheInv (runCache [] history) := runCache_inv [] history (by intro p hp; simp at hp)
  unfold getValidator
  split
  · rename_i s hs
    exact cacheFind_sound _ k s hinv hs
  · rfl

/-- a cache that compared keys by their hash only would hand out another schema's validator -/
example :
    let k1 : CacheKey := ⟨"GET /a", "query", .obj [("type", .str "object")]⟩
    let k2 : CacheKey := ⟨"GET /a", "query", .obj [("type", .str "array")]⟩
    k1.hash = k2.hash ∧ CacheKey.eq k1 k2 = false := by decide

/-! ## label soundness -/

/-- **Repaired variant: the full statement holds.** -/
theorem labels_sound_repaired : LabelsSoundFull .repaired := by
  intro valid op only d c hd hc
  refine labels_sound_core .repaired valid op only d c hd (by intro h; cases h) ?_ hc
  intro cn _ hl
  simpa [labelled] using hl

/-- **As found: the full statement is false** — a location without parameters is labelled negative
    (operation with a single query parameter; path, headers and cookies are `None` yet labelled). -/
theorem labels_sound_full_false_asFound : ¬ LabelsSoundFull .asFound := by
  intro h
  have := h (fun _ x => x.isNull)
    ⟨[], [], [], [⟨"q", .obj [("type", .str "integer")], true⟩], []⟩ true
    ⟨none, none, none, some (.obj [("q", .str "x")]), 0, none⟩ _ (by decide) rfl
  revert this
  decide

/-- **As found, second witness**: an optional, negatable body drawn as absent is the only "negated" part of the
    case and is labelled negative (every parameter location has a parameter here, so the first witness is excluded). -/
theorem labels_sound_absent_body_witness :
    let valid : Loc → Json → Bool := fun _ x => x.isNull
    let p : Param := ⟨"p", .obj [("type", .str "string")], false⟩
    let op : Op := ⟨[p], [p], [p], [], [⟨true, false⟩]⟩
    let d : Draws := ⟨some .null, some .null, some .null, none, 0, none⟩
    drawOK .asFound valid op .negative d = true ∧
    ∃ c, openapiCases .asFound op true .negative d = .case c ∧
      (Loc.body, Mode.negative) ∈ c.components ∧ valueOf c .body = none ∧
      labelsSound valid (absentOk op .negative d) c = false := by
  refine ⟨by decide, _, rfl, by decide, by decide, by decide⟩

/-- **As found: partial statement.** Label soundness holds for the code as found when every parameter location
    declares at least one parameter and the body (if the operation has one) was drawn present. -/
theorem labels_sound_partial_asFound (valid : Loc → Json → Bool) (op : Op) (only : Bool) (d : Draws) (c : Case)
    (hparams : ∀ l ∈ paramLocs, (op.params l).isEmpty = false)
    (hbody : d.body.isSome = true ∨ op.body.isEmpty = true)
    (hd : drawOK .asFound valid op .negative d = true)
    (hc : openapiCases .asFound op only .negative d = .case c) :
    labelsSound valid (absentOk op .negative d) c = true := by
  refine labels_sound_core .asFound valid op only d c hd (fun _ => hbody) ?_ hc
  intro cn hcn hl
  have hd' := hd
  unfold drawOK at hd'
  simp only [Bool.and_eq_true, List.all_eq_true] at hd'
  have hp : ∀ l ∈ paramLocs, (generateParameter op .negative d l).isGenerated = true := by
    intro l hl
    have := param_value_isSome valid op d l (hd'.1 l hl) (hparams l hl)
    simp [Container.isGenerated, generateParameter, this]
  simp only [containers, List.mem_cons, List.not_mem_nil, or_false] at hcn
  rcases hcn with rfl | rfl | rfl | rfl | rfl
  · exact hp _ (by simp [paramLocs])
  · exact hp _ (by simp [paramLocs])
  · exact hp _ (by simp [paramLocs])
  · exact hp _ (by simp [paramLocs])
  · simp only [labelled] at hl
    simp [Container.isGenerated, hl, bodyContainer_loc]

/-- non-vacuity of the partial statement: all four locations declare a parameter, body present -/
example :
    let valid : Loc → Json → Bool := fun _ x => x.isNull
    let p : Param := ⟨"p", .obj [("type", .str "integer")], true⟩
    let op : Op := ⟨[p], [p], [p], [p], [⟨true, false⟩]⟩
    let d : Draws := ⟨some (.str "x"), some (.str "x"), some (.str "x"), some (.str "x"), 0, some (.str "x")⟩
    (∀ l ∈ paramLocs, (op.params l).isEmpty = false) ∧ (d.body.isSome = true ∨ op.body.isEmpty = true) ∧
    drawOK .asFound valid op .negative d = true ∧
    (∃ c, openapiCases .asFound op true .negative d = .case c) := by
  refine ⟨by decide, by decide, by decide, ⟨_, rfl⟩⟩

/-- non-vacuity: an operation with one negatable query parameter and a draw respecting the contract -/
example :
    let valid : Loc → Json → Bool := fun _ x => x.isNull
    let op : Op := ⟨[], [], [], [⟨"q", .obj [("type", .str "integer")], true⟩], []⟩
    let d : Draws := ⟨none, none, none, some (.obj [("q", .str "x")]), 0, none⟩
    drawOK .repaired valid op .negative d = true ∧
    (∃ c, openapiCases .repaired op true .negative d = .case c) := by
  refine ⟨by decide, ⟨_, rfl⟩⟩

/-! ## fallback, skipping, and "does get negative cases" -/

/-- A parameter location that cannot be negated is generated by the positive strategy and — if labelled at all —
    labelled positive (both variants). -/
theorem fallback_labelled_positive (v : Variant) (op : Op) (only : Bool) (d : Draws) (c : Case) (l : Loc) (m : Mode)
    (hcant : cannotNegate op l = true)
    (hc : openapiCases v op only .negative d = .case c)
    (hm : (l, m) ∈ c.components) : m = .positive := by
  obtain ⟨_, hc⟩ := openapiCases_case v op only d c hc
  subst hc
  obtain ⟨cn, hcn, hloc, hgen, _⟩ := mem_componentsOf _ _ l m hm
  have hg : generatorFor op .negative l = .positive := by
    unfold cannotNegate at hcant
    simp [generatorFor, hcant]
  simp only [containers, List.mem_cons, List.not_mem_nil, or_false] at hcn
  rcases hcn with rfl | rfl | rfl | rfl | rfl
  all_goals first
    | (simp only [generateParameter] at hloc hgen; subst hloc; simp_all)
    | (rw [bodyContainer_loc] at hloc; subst hloc; simp [cannotNegate, isHeaderLoc] at hcant)

/-- … and a body none of whose media types can be negated is generated positively and labelled positive. -/
theorem body_fallback_labelled_positive (v : Variant) (op : Op) (only : Bool) (d : Draws) (c : Case) (m : Mode)
    (hcant : op.body.any (·.canNeg) = false)
    (hc : openapiCases v op only .negative d = .case c)
    (hm : (Loc.body, m) ∈ c.components) : m = .positive := by
  obtain ⟨_, hc⟩ := openapiCases_case v op only d c hc
  subst hc
  obtain ⟨cn, hcn, hloc, hgen, _⟩ := mem_componentsOf _ _ _ m hm
  simp only [containers, List.mem_cons, List.not_mem_nil, or_false] at hcn
  rcases hcn with rfl | rfl | rfl | rfl | rfl
  · simp [generateParameter] at hloc
  · simp [generateParameter] at hloc
  · simp [generateParameter] at hloc
  · simp [generateParameter] at hloc
  · unfold bodyContainer at hgen
    split at hgen
    · simp at hgen
    · simp only [Option.some.injEq] at hgen
      cases m with
      | positive => rfl
      | negative =>
        have := (bodyCandidates_negative_iff op.body).mp hgen
        simp [hcant] at this

/-- why the header/path fallback is right: a `{"type": "string"}` parameter accepts every wire string -/
theorem string_only_accepts_every_wire_string (fuel : Nat) (env : Env) (s : Json) (w : String)
    (hs : isStringOnly s = true) : validF (fuel + 1) env s (.str w) = true := by
  unfold isStringOnly at hs
  split at hs
  · simp [validF, Json.lookup, isNullable, Json.isNull, keywordsOk, typeOk, typeNameOk, enumOk, constOk, numberOk,
      stringOk, lenBoundsOk, natKw, formatOk, arrayOk, objectOk, combinatorsOk]
  · cases hs

/-- Finding FC02c: a plain string path parameter (as `get_schema_for_location` prepares it) cannot be violated on the
    wire — every non-empty spelling conforms — although `can_negate` (canonicalish ≠ {}) calls it negatable. -/
theorem string_path_parameter_cannot_be_violated (fuel : Nat) (env : Env) (w : String) (hw : w.length ≥ 1) :
    partConforms (fuel + 2) env
      (.obj [("properties", .obj [("id", .obj [("type", .str "string"), ("minLength", .num 1 0)])]),
             ("additionalProperties", .bool false), ("type", .str "object"), ("required", .arr [.str "id"])])
      (.obj [("id", .str w)]) = true := by
  have h1 : validF (fuel + 2) env (.obj [("type", .str "string"), ("minLength", .num 1 0)]) (.str w) = true := by
    simp [validF, Json.lookup, isNullable, Json.isNull, keywordsOk, typeOk, typeNameOk, enumOk, constOk, numberOk,
      stringOk, lenBoundsOk, natKw, formatOk, arrayOk, objectOk, combinatorsOk]
    omega
  simp [partConforms, requiredOf, propsOf, Json.lookup, Json.str?, coercedValid, readings, h1]

/-- **Skipped, not failed.** Nothing negatable: with `modes = [negative]` the test is skipped (`SkipTest`), with both
    modes the draw is rejected — never a case with valid data labelled negative (both variants). -/
theorem skip_not_fail (v : Variant) (valid : Loc → Json → Bool) (op : Op) (only : Bool) (d : Draws)
    (hn : negatable op = false)
    (hd : drawOK v valid op .negative d = true) :
    openapiCases v op only .negative d = if only then .skip else .reject := by
  unfold negatable at hn
  simp only [Bool.or_eq_false_iff, List.any_eq_false, Bool.and_eq_true, Bool.not_eq_true', beq_iff_eq, not_and] at hn
  unfold drawOK at hd
  simp only [Bool.and_eq_true, List.all_eq_true] at hd
  have hparam : ∀ l ∈ paramLocs,
      ((generateParameter op .negative d l).isGenerated &&
        (generateParameter op .negative d l).generator == some Mode.negative) = false := by
    intro l hl
    cases hg : generatorFor op .negative l with
    | positive => simp [generateParameter, hg]
    | negative =>
      have he : (op.params l).isEmpty = true := by
        cases h : (op.params l).isEmpty with
        | true => rfl
        | false => exact absurd hg (hn.1 l hl h)
      have hnone := param_value_isNone valid op d l (hd.1 l hl) he
      have hlb : (l == Loc.body) = false := by
        simp [paramLocs] at hl; rcases hl with rfl | rfl | rfl | rfl <;> rfl
      simp [generateParameter, Container.isGenerated, hnone, hlb]
  have hbody : ((bodyContainer op .negative d).isGenerated &&
      (bodyContainer op .negative d).generator == some Mode.negative) = false := by
    unfold bodyContainer
    split
    · simp [Container.isGenerated]
    · cases hg : (bodyCandidates Mode.negative op.body).2 with
      | positive => simp
      | negative =>
        have := (bodyCandidates_negative_iff op.body).mp hg
        simp only [List.any_eq_true] at this
        obtain ⟨x, hx, hxc⟩ := this
        have := hn.2 x hx
        simp [hxc] at this
  have hany : anyNegated (containers op .negative d) = false := by
    simp only [anyNegated, containers, List.any_cons, List.any_nil,
      hparam _ (show Loc.query ∈ paramLocs by simp [paramLocs]),
      hparam _ (show Loc.path ∈ paramLocs by simp [paramLocs]),
      hparam _ (show Loc.header ∈ paramLocs by simp [paramLocs]),
      hparam _ (show Loc.cookie ∈ paramLocs by simp [paramLocs]), hbody, Bool.or_self]
  simp [openapiCases, hany]

/-- **Does get negative cases.** Some input negatable ⇒ every draw respecting the contract yields a case (never
    `SkipTest`, never a rejection by `openapi_cases`) — both variants. -/
theorem negatable_gets_cases (v : Variant) (valid : Loc → Json → Bool) (op : Op) (only : Bool) (d : Draws)
    (hn : negatable op = true)
    (hd : drawOK v valid op .negative d = true) :
    ∃ c, openapiCases v op only .negative d = .case c := by
  have hany : anyNegated (containers op .negative d) = true := by
    unfold negatable at hn
    simp only [Bool.or_eq_true, List.any_eq_true, Bool.and_eq_true, Bool.not_eq_true', beq_iff_eq] at hn
    unfold drawOK at hd
    simp only [Bool.and_eq_true, List.all_eq_true] at hd
    unfold anyNegated
    simp only [List.any_eq_true, Bool.and_eq_true, beq_iff_eq]
    rcases hn with ⟨l, hl, hne, hg⟩ | ⟨x, hx, hxc⟩
    · refine ⟨generateParameter op .negative d l, ?_, ?_, by simp [generateParameter, hg]⟩
      · simp [paramLocs] at hl
        rcases hl with rfl | rfl | rfl | rfl <;> simp [containers]
      · have := param_value_isSome valid op d l (hd.1 l hl) hne
        simp [Container.isGenerated, generateParameter, this]
    · have hne : op.body.isEmpty = false := by
        cases hb : op.body with
        | nil => simp [hb] at hx
        | cons _ _ => rfl
      have hg : (bodyCandidates Mode.negative op.body).2 = .negative :=
        (bodyCandidates_negative_iff op.body).mpr (List.any_eq_true.mpr ⟨x, hx, hxc⟩)
      refine ⟨bodyContainer op .negative d, by simp [containers], ?_, ?_⟩
      · simp [bodyContainer, hne, Container.isGenerated]
      · simp [bodyContainer, hne, hg]
  refine ⟨⟨.negative, componentsOf v (containers op .negative d),
    (containers op .negative d).map fun c => (c.loc, c.value)⟩, ?_⟩
  simp [openapiCases, hany]

/-- non-vacuity of `skip_not_fail`: string-only header, unconstrained body -/
example :
    let valid : Loc → Json → Bool := fun _ _ => true
    let op : Op := ⟨[], [⟨"X-A", .obj [("type", .str "string")], true⟩], [], [], [⟨false, true⟩]⟩
    let d : Draws := ⟨none, some (.obj [("X-A", .str "a")]), none, none, 0, some (.num 1 0)⟩
    negatable op = false ∧ drawOK .asFound valid op .negative d = true ∧ drawOK .repaired valid op .negative d = true := by
  decide

/-! ## the mutations: which instances of the mutated schema are guaranteed to violate the original

All statements are about the JSON-Schema reading the code's own validator uses (`env.oas = .none`, draft 4) for
schemas without `$ref` at the top level (after `prepare_schema` the code inlines or bundles references). -/

/-- `remove_required_property` SUCCESS with property `name`: every object that lacks `name` violates the original
    schema (all fuels, all oracles). -/
theorem removeRequired_negates (d d' : Dict) (name : String) (fuel : Nat) (env : Env) (members : List (String × Json))
    (h : removeRequired d name = (.success, d'))
    (hoas : env.oas = .none) (href : Json.lookup "$ref" d = none)
    (habs : Json.lookup name members = none) :
    validF (fuel + 1) env (.obj d) (.obj members) = false :=
  removeRequired_negates' d d' name fuel env members h hoas href habs

example : ∃ d', removeRequired [("type", .str "object"), ("required", .arr [.str "a", .str "b"]),
    ("properties", .obj [("a", .obj [])])] "a" = (.success, d') := ⟨_, rfl⟩

/-- **It is false as found**: `number` may be changed to `integer`, and every integer is a number — `change_type`
    reports SUCCESS although no instance of the new schema violates the old one (only the final filter protects). -/
theorem changeType_negates_full_false : ¬ ChangeTypeNegatesFull := by
  intro h
  have := h ⟨.body, false⟩ [("type", .str "number")] _ "integer" 1 1 {} (.num 3 0) rfl rfl rfl
    (by intro x hx; simp [Json.lookup] at hx; exact Or.inl ⟨_, hx.symm⟩) (by decide)
  revert this
  decide

/-- **Partial**: unless `integer` was chosen for a schema that admits `number`, every instance of the mutated
    schema violates the original one. -/
theorem changeType_negates_partial (ctx : Ctx) (d d' : Dict) (choice : String) (fuel fuel' : Nat) (env : Env) (v : Json)
    (h : changeType ctx d choice = (.success, d'))
    (hoas : env.oas = .none) (href : Json.lookup "$ref" d = none)
    (hwf : ∀ x, Json.lookup "type" d = some x → (∃ t, x = .str t) ∨ (∃ ts, x = .arr ts))
    (hint : ¬ (Json.lookup "type" d' = some (.str "integer") ∧ (getType d).contains "number" = true))
    (hv : validF (fuel + 1) env (.obj d') v = true) :
    validF (fuel' + 1) env (.obj d) v = false :=
  changeType_negates' ctx d d' choice fuel fuel' env v h hoas href hwf hint hv

example : ∃ d', changeType ⟨.body, false⟩ [("type", .str "integer"), ("minimum", .num 3 0)] "string"
    = (.success, d') ∧ validF 2 {} (.obj d') (.str "x") = true := ⟨_, rfl, by decide⟩

/-- **False as found**: negating `additionalProperties: false` apart from `properties` yields
    `not: {additionalProperties: false}`, which every non-empty object satisfies — including the valid `{"a": 1}`. -/
theorem negate_negates_full_false : ¬ NegateNegatesFull := by
  intro h
  have := h .asFound ⟨.query, false⟩ true
    [("properties", .obj [("a", .obj [])]), ("additionalProperties", .bool false), ("type", .str "object")] _
    "additionalProperties" [] 1 {} (.obj [("a", .num 1 0)]) rfl rfl rfl
    (by intro p hp; simp at hp; rcases hp with rfl | rfl | rfl <;> rfl) (by decide)
  revert this
  decide

/-- **Partial**: when `additionalProperties` is not among the negated keywords, every instance of the mutated
    schema violates the original (the negated keywords form a sub-dictionary of the original, and every remaining
    keyword check is monotone in the dictionary). -/
theorem negate_negates_partial (var : Variant) (ctx : Ctx) (canNeg : Bool) (d d' : Dict) (cand : String)
    (en : List String) (fuel : Nat) (env : Env) (v : Json)
    (h : negateConstraints var ctx canNeg d cand en = (.success, d'))
    (hoas : env.oas = .none) (href : Json.lookup "$ref" d = none) (hfun : DictFun d)
    (hap : ∀ neg, Json.lookup "not" d' = some (.obj neg) → Json.lookup "additionalProperties" neg = none)
    (hv : validF (fuel + 2) env (.obj d') v = true) :
    validF (fuel + 1) env (.obj d) v = false :=
  negate_negates' var ctx canNeg d d' cand en fuel env v h hoas href hfun hap hv

example : ∃ d', negateConstraints .asFound ⟨.body, false⟩ true [("type", .str "integer"), ("minimum", .num 3 0)] "minimum" []
    = (.success, d') ∧ validF 3 {} (.obj d') (.num 1 0) = true := ⟨_, rfl, by decide⟩

/-- **As found**, `negate_constraints` raises `KeyError` on a numeric exclusive bound without its draft-4
    companion keyword (OpenAPI 3.1 form): the operation errors out instead of getting negative cases. -/
theorem negate_keyError_witness :
    (negateConstraints .asFound ⟨.body, false⟩ true [("type", .str "integer"), ("exclusiveMinimum", .num 3 0)]
      "exclusiveMinimum" []).1 = .keyError := by decide

/-- **Repaired** (`if dependency in copied`): `negate_constraints` never raises, for any schema and any choices. -/
theorem negate_never_raises_repaired (ctx : Ctx) (canNeg : Bool) (d : Dict) (cand : String) (en : List String) :
    (negateConstraints .repaired ctx canNeg d cand en).1 ≠ .keyError := by
  unfold negateConstraints
  obtain ⟨r, hr⟩ := negLoop_repaired_some ctx d cand en d []
  simp only [hr]
  repeat' split
  all_goals simp

/-- `change_properties`, relative to the nested mutation: if every instance of the mutated property schema
    violates the original property schema, then every instance of the mutated object schema violates the original
    object schema (the mutated property is made required). -/
theorem changeProperties_negates (d d' props' : Dict) (name : String) (sp sp' : Json) (fuel : Nat) (env : Env)
    (members : List (String × Json))
    (h : changeProperties d props' (some name) = (.success, d'))
    (hoas : env.oas = .none) (href : Json.lookup "$ref" d = none)
    (hsp : Json.lookup name (propsOf d) = some sp)
    (hsp' : Json.lookup name props' = some sp')
    (hprog : ∀ x, validF fuel env sp' x = true → validF fuel env sp x = false)
    (hv : validF (fuel + 1) env (.obj d') (.obj members) = true) :
    validF (fuel + 1) env (.obj d) (.obj members) = false :=
  changeProperties_negates' d d' props' name sp sp' fuel env members h hoas href hsp hsp' hprog hv

example : ∃ d', changeProperties [("type", .str "object"), ("properties", .obj [("a", .obj [("type", .str "integer")])])]
    [("a", .obj [("type", .str "string")])] (some "a") = (.success, d') ∧
    validF 3 {} (.obj d') (.obj [("a", .str "x")]) = true := ⟨_, rfl, by decide⟩

/-- A mutation that reports FAILURE leaves the schema as it was (so `apply_until_success` and the `result |=` folds
    may keep going on the same object). -/
theorem failure_leaves_schema_unchanged :
    (∀ d d' name, removeRequired d name = (.failure, d') → d' = d) ∧
    (∀ ctx d d' c, changeType ctx d c = (.failure, d') → d' = d) ∧
    (∀ d d' props' first, changeProperties d props' first = (.failure, d') → d' = d) :=
  ⟨removeRequired_failure, changeType_failure, changeProperties_failure⟩

/-- `MutationContext.mutate` rejects the draw exactly when no applied mutation succeeded. -/
theorem mutate_rejects_iff_nothing_succeeded (ctx : Ctx) (results : List MResult) (d nk : Dict) (b : Bool) :
    mutateTail ctx results d nk b = none ↔ MResult.success ∉ results := by
  unfold mutateTail
  have := foldl_or_success results .failure
  by_cases hs : results.foldl MResult.or .failure = .success
  · have hm := this.mp hs
    simp at hm
    simp [hs, hm]
  · have hm : MResult.success ∉ results := fun hm => hs (this.mpr (Or.inr hm))
    simp [hs, hm]

/-! ## explicitly supplied values (`headers=` / `--header` / overrides / `as_strategy(query=…)`)

`Variants` = ⟨labels, exclusion, unchanged⟩: the components map (F10), whether `can_negate_*` look at supplied
parameters (FC02d), whether `value == explicit` or "nothing was drawn" drops the generator (FC02e). -/

/-- Without explicit arguments the extended model is the model the theorems above speak about. -/
theorem explicit_none_is_plain (vs : Variants) (op : Op) (only : Bool) (mode : Mode) (d : Draws) :
    openapiCasesX vs op Explicits.none only mode d = openapiCases vs.labels op only mode d := by
  have hb : bodyContainerX op Explicits.none mode d = bodyContainer op mode d := rfl
  have hc : containersX vs op Explicits.none mode d = containers op mode d := by
    simp [containersX, containers, generateParameterX_none, hb]
  simp [openapiCasesX, openapiCases, hc]

/-- **A location whose parameters are all supplied by the caller is never sent through the negative factory**
    (every variant, every mode): `get_parameters_strategy` answers `st.none()` — or, when the fallback chose the
    positive factory, the positive strategy of the empty schema. -/
theorem all_supplied_never_negative_factory (vx : Variant) (op : Op) (rq : Reqs) (ex : Explicits) (mode : Mode) (l : Loc)
    (rem : List Param) (req : List String) (h : allSupplied op ex l = true) :
    strategyFor vx op rq ex mode l ≠ .factory .negative rem req := by
  intro hs
  unfold strategyFor at hs
  obtain ⟨hm, hrem, _, himp⟩ := parametersStrategy_factory _ _ _ _ _ _ _ hs
  have hempty : rem.isEmpty = true := by
    rw [hrem]
    unfold allSupplied at h
    split at h
    · rename_i p e hex
      rw [hex]
      simp only [List.all_eq_true] at h
      simp only [remaining, List.isEmpty_iff, List.filter_eq_nil_iff, Bool.not_eq_true', Bool.not_eq_false]
      exact h
    · cases h
  have := himp hempty
  rw [this] at hm
  cases hm

/-- … with the repaired `can_negate_*` the answer is always `st.none()`. -/
theorem all_supplied_strategy_none_repaired (op : Op) (rq : Reqs) (ex : Explicits) (l : Loc)
    (h : allSupplied op ex l = true) : strategyFor .repaired op rq ex .negative l = .none := by
  rcases parametersStrategy_none_or_factory (op.params l) (rq.at l) (generatorForX .repaired op ex .negative l)
      (excludeNames (ex.param l)) with hs | ⟨rem, req, hs⟩
  · exact hs
  · have hg : generatorForX .repaired op ex .negative l = .negative := by
      unfold allSupplied at h
      split at h
      · rename_i p e hex
        simp only [List.all_eq_true] at h
        have : remaining (op.params l) (excludeNames (some (p :: e))) = [] := by
          simp only [remaining, List.filter_eq_nil_iff, Bool.not_eq_true', Bool.not_eq_false]
          exact h
        simp [generatorForX, judged, hex, this, canNegatePath, canNegateHeaders]
      · cases h
    have hne := all_supplied_never_negative_factory .repaired op rq ex .negative l rem req h
    unfold strategyFor at hne
    rw [hg] at hs hne
    exact absurd hs hne

/-- A location whose strategy is `st.none()` carries no label, and the case holds exactly the caller's value there
    (`None` when nothing was supplied) — the supplied part is nobody's generated data. -/
theorem none_strategy_location_unlabelled (vs : Variants) (hlab : vs.labels = .repaired) (valid : Loc → Json → Bool)
    (op : Op) (rq : Reqs) (ex : Explicits) (only : Bool) (d : Draws) (c : Case) (l : Loc) (hl : l ∈ paramLocs)
    (hs : strategyFor vs.exclusion op rq ex .negative l = .none)
    (hd : drawOKX vs valid op rq ex .negative d = true)
    (hc : openapiCasesX vs op ex only .negative d = .case c) :
    (∀ m, (l, m) ∉ c.components) ∧ valueOf c l = mergeValue (ex.param l) none := by
  obtain ⟨_, hc⟩ := openapiCasesX_case vs op ex only d c hc
  subst hc
  have hd' := hd
  unfold drawOKX at hd'
  simp only [Bool.and_eq_true, List.all_eq_true] at hd'
  have hng := container_of_none_strategy vs valid op rq ex d l hl hs (hd'.1 l hl)
  have hdraw : d.param l = none := by
    have := hd'.1 l hl
    unfold paramDrawOKX at this
    rw [hs] at this
    cases h : d.param l with
    | none => rfl
    | some _ => simp [h] at this
  constructor
  · intro m hm
    obtain ⟨cn, hcn, hloc, _, hl'⟩ := mem_componentsOf _ _ l m hm
    rw [hlab] at hl'
    simp only [labelled] at hl'
    rcases mem_containersX vs op ex .negative d cn hcn with ⟨l', _, rfl⟩ | rfl
    · have : l' = l := by simpa [generateParameterX] using hloc
      subst this
      rw [hng] at hl'; cases hl'
    · rw [bodyContainerX_loc] at hloc
      subst hloc
      simp [paramLocs] at hl
  · have := lookup_loc_valueX vs op ex .negative d .negative
      (componentsOf vs.labels (containersX vs op ex .negative d)) _ (generateParameterX_mem vs op ex .negative d l hl)
    simp only [generateParameterX] at this
    rw [this, hdraw]

/-- non-vacuity: the operation of the demonstration — a constrained header supplied by the caller, an integer query
    parameter left to generate -/
example :
    let valid : Loc → Json → Bool := fun _ _ => false
    let op : Op := ⟨[], [⟨"X-Token", .obj [("type", .str "string"), ("minLength", .num 8 0)], true⟩], [],
                    [⟨"limit", .obj [("type", .str "integer")], true⟩], []⟩
    let rq : Reqs := ⟨[], ["X-Token"], [], ["limit"]⟩
    let ex : Explicits := ⟨none, some [("X-Token", .str "secret-token")], none, none, none⟩
    let d : Draws := ⟨none, none, none, some (.obj [("limit", .num 0 0)]), 0, none⟩
    let vs : Variants := ⟨.repaired, .asFound, .asFound⟩
    allSupplied op ex .header = true ∧ strategyFor vs.exclusion op rq ex .negative .header = .none ∧
    drawOKX vs valid op rq ex .negative d = true ∧ negatableX vs.exclusion op rq ex = true ∧
    (∃ c, openapiCasesX vs op ex true .negative d = .case c) := by
  refine ⟨by decide, rfl, by decide, by decide, ⟨_, rfl⟩⟩

/-- **Repaired: the negative factory only ever sees parameters that can be negated** (by the code's own
    criterion, applied to what is left to generate). -/
theorem negative_factory_only_on_negatable_repaired : NegativeFactoryOnlyOnNegatable .repaired := by
  intro op rq ex l rem req hl hs
  unfold strategyFor at hs
  obtain ⟨hm, hrem, _, himp⟩ := parametersStrategy_factory _ _ _ _ _ _ _ hs
  have hne : rem.isEmpty = false := by
    cases h : rem.isEmpty with
    | false => rfl
    | true => have := himp h; rw [this] at hm; cases hm
  have hg := hm.symm
  unfold generatorForX at hg
  simp only [judged, ← hrem, beq_self_eq_true, Bool.true_and] at hg
  unfold negatableParams
  simp only [hne, Bool.not_false, Bool.true_and, Bool.and_eq_true, Bool.or_eq_true, bne_iff_ne, ne_eq,
    Bool.not_eq_true']
  split at hg
  · cases hg
  · rename_i hcond
    simp only [Bool.or_eq_true, Bool.and_eq_true, beq_iff_eq, Bool.not_eq_true', not_or, not_and,
      Bool.not_eq_false] at hcond
    constructor
    · by_cases hp : l = .path
      · exact Or.inr (hcond.1 hp)
      · exact Or.inl hp
    · cases hh : isHeaderLoc l with
      | false => exact Or.inl rfl
      | true => exact Or.inr (hcond.2 hh)

/-- **As found (FC02d): it is false** — `can_negate_headers` also counts the supplied integer header `X-A`, so the
    negative factory is asked to negate the lone remaining `{type: string}` header `X-B`, which no mutation can. -/
theorem negative_factory_only_on_negatable_false_asFound : ¬ NegativeFactoryOnlyOnNegatable .asFound := by
  intro h
  have := h ⟨[], [⟨"X-A", .obj [("type", .str "integer")], true⟩, ⟨"X-B", .obj [("type", .str "string")], true⟩], [], [], []⟩
    ⟨[], [], [], []⟩ ⟨none, some [("X-A", .str "1")], none, none, none⟩ .header _ _ (by decide) rfl
  revert this
  decide

/-- **Repaired `unchanged` site: the full "does get negative cases" statement with explicit values.** -/
theorem gets_cases_X_repaired (vs : Variants) (hu : vs.unchanged = .repaired) : GetsCasesFullX vs := by
  intro valid op rq ex only d hn hd
  refine gets_cases_core vs valid op rq ex only d hn hd ?_
  intro l hl hneg
  obtain ⟨rem, req, hs⟩ := (isNegativeFactory_iff _).mp hneg
  have hd' := hd
  unfold drawOKX at hd'
  simp only [Bool.and_eq_true, List.all_eq_true] at hd'
  obtain ⟨_, new, x, hdraw, _, _⟩ := container_of_factory_strategy vs valid op rq ex d l _ rem req hs (hd'.1 l hl)
  rw [hu, hdraw]
  simp only [generatorDropped]
  split <;> first | rfl | simp

/-- **As found (FC02e): it is false** — the negative draw `{}` (the required header `X-B` omitted) merges to the
    caller's dict, `value == explicit` drops the generator and the only negated part of the case is lost:
    `SkipTest` although the draw *is* a negative case. -/
theorem gets_cases_X_full_false_asFound : ¬ GetsCasesFullX ⟨.repaired, .asFound, .asFound⟩ := by
  intro h
  obtain ⟨c, hc⟩ := h (fun _ _ => false)
    ⟨[], [⟨"X-A", .obj [("type", .str "integer")], true⟩, ⟨"X-B", .obj [("type", .str "string")], true⟩], [], [], []⟩
    ⟨[], ["X-B"], [], []⟩ ⟨none, some [("X-A", .str "1")], none, none, none⟩ true
    ⟨none, some (.obj []), none, none, 0, none⟩ (by decide) (by decide)
  have hskip : openapiCasesX ⟨.repaired, .asFound, .asFound⟩
    ⟨[], [⟨"X-A", .obj [("type", .str "integer")], true⟩, ⟨"X-B", .obj [("type", .str "string")], true⟩], [], [], []⟩
    ⟨none, some [("X-A", .str "1")], none, none, none⟩ true .negative
    ⟨none, some (.obj []), none, none, 0, none⟩ = .skip := rfl
  rw [hskip] at hc
  cases hc

/-- **As found: partial** — a case is produced whenever the merged value of every negatively generated location
    differs from what the caller supplied. -/
theorem gets_cases_X_partial_asFound (vs : Variants) (valid : Loc → Json → Bool) (op : Op) (rq : Reqs) (ex : Explicits)
    (only : Bool) (d : Draws)
    (hn : negatableX vs.exclusion op rq ex = true)
    (hd : drawOKX vs valid op rq ex .negative d = true)
    (hdiff : ∀ l ∈ paramLocs, isNegativeFactory (strategyFor vs.exclusion op rq ex .negative l) = true →
      sameAsExplicit (mergeValue (ex.param l) (d.param l)) (ex.param l) = false) :
    ∃ c, openapiCasesX vs op ex only .negative d = .case c := by
  refine gets_cases_core vs valid op rq ex only d hn hd ?_
  intro l hl hneg
  cases hu : vs.unchanged with
  | asFound => simpa [generatorDropped] using hdiff l hl hneg
  | repaired =>
    obtain ⟨rem, req, hs⟩ := (isNegativeFactory_iff _).mp hneg
    have hd' := hd
    unfold drawOKX at hd'
    simp only [Bool.and_eq_true, List.all_eq_true] at hd'
    obtain ⟨_, new, x, hdraw, _, _⟩ := container_of_factory_strategy vs valid op rq ex d l _ rem req hs (hd'.1 l hl)
    rw [hdraw]
    simp only [generatorDropped]
    split <;> first | rfl | simp

/-- non-vacuity of the partial statement: the same operation, the draw adds a header -/
example :
    let vs : Variants := ⟨.repaired, .asFound, .asFound⟩
    let op : Op := ⟨[], [⟨"X-A", .obj [("type", .str "integer")], true⟩, ⟨"X-B", .obj [("type", .str "string")], true⟩], [], [], []⟩
    let rq : Reqs := ⟨[], ["X-B"], [], []⟩
    let ex : Explicits := ⟨none, some [("X-A", .str "1")], none, none, none⟩
    let d : Draws := ⟨none, some (.obj [("zz", .str "1")]), none, none, 0, none⟩
    negatableX vs.exclusion op rq ex = true ∧ drawOKX vs (fun _ _ => false) op rq ex .negative d = true ∧
    (∀ l ∈ paramLocs, isNegativeFactory (strategyFor vs.exclusion op rq ex .negative l) = true →
      sameAsExplicit (mergeValue (ex.param l) (d.param l)) (ex.param l) = false) := by
  decide

/-- **Skipped, not failed — with explicit values** (all variants): nothing that is left to generate can be negated
    ⇒ `SkipTest` with `modes = [negative]`, a rejected draw otherwise; never a case. -/
theorem skip_not_fail_X (vs : Variants) (valid : Loc → Json → Bool) (op : Op) (rq : Reqs) (ex : Explicits)
    (only : Bool) (d : Draws)
    (hn : negatableX vs.exclusion op rq ex = false)
    (hd : drawOKX vs valid op rq ex .negative d = true) :
    openapiCasesX vs op ex only .negative d = if only then .skip else .reject :=
  skip_not_fail_X' vs valid op rq ex only d hn hd

/-- non-vacuity: everything supplied -/
example :
    let vs : Variants := ⟨.repaired, .asFound, .asFound⟩
    let op : Op := ⟨[], [⟨"X-A", .obj [("type", .str "integer")], true⟩], [], [⟨"q", .obj [("type", .str "integer")], true⟩], []⟩
    let ex : Explicits := ⟨none, some [("X-A", .str "1")], none, some [("q", .num 1 0)], none⟩
    negatableX vs.exclusion op ⟨[], [], [], []⟩ ex = false ∧
    drawOKX vs (fun _ _ => true) op ⟨[], [], [], []⟩ ex .negative ⟨none, none, none, none, 0, none⟩ = true := by
  decide

/-- **Label soundness with explicit values** (repaired components map; either variant of the two explicit sites). -/
theorem labels_sound_X (vs : Variants) (hl : vs.labels = .repaired) : LabelsSoundFullX vs := by
  intro valid op rq ex only d c hd hc
  exact labels_sound_X' vs hl valid op rq ex only d c hd hc

/-- The strategy cache of `get_parameters_strategy` is keyed by `(factory, location, sorted(exclude))`: equal keys
    give the same strategy, for every operation — a cached strategy is never one built for another exclusion set. -/
theorem strategy_cache_key_sound (f f' : Mode) (l l' : Loc) (e1 e2 : List String)
    (h : stratKey f l e1 = stratKey f' l' e2) (ps : List Param) (rq : List String) :
    f = f' ∧ l = l' ∧ parametersStrategy ps rq f e1 = parametersStrategy ps rq f' e2 := by
  unfold stratKey at h
  injection h with hf hl he
  subst hf hl
  exact ⟨rfl, rfl, parametersStrategy_congr ps rq f e1 e2 (contains_of_sort_eq e1 e2 he)⟩

/-- a key that forgot the exclusion set would hand out the strategy built for other supplied names -/
example :
    parametersStrategy [⟨"a", .obj [], true⟩, ⟨"b", .obj [], true⟩] [] .negative ["a"] = .factory .negative [⟨"b", .obj [], true⟩] [] ∧
    parametersStrategy [⟨"a", .obj [], true⟩, ⟨"b", .obj [], true⟩] [] .negative ["a", "b"] = .none := ⟨rfl, rfl⟩

/-- What the caller supplied reaches the case: a name the drawn part does not mention keeps the supplied value. -/
theorem merge_keeps_supplied_values (e new : Dict) (k : String) (h : k ∉ new.map (·.1)) :
    Json.lookup k (dupdate e new) = Json.lookup k e :=
  lookup_dupdate_not_mem k new e h

/-- **False in full**: a drawn part that violates the reduced location schema only by carrying a supplied name
    overwrites the caller's value and the merged part may conform. -/
theorem merge_keeps_violation_full_false : ¬ MergeKeepsViolationFull := by
  intro h
  have := h (fun _ _ => true) ["a", "b"] [] [("a", .num 1 0)] [("a", .num 2 0)] (by simp [uniqueKeys]) (by decide)
  revert this
  decide

/-- **Partial**: if the drawn part does not mention a supplied name, a violation of the reduced location schema
    (`properties` / `required` without the supplied names, `additionalProperties: false`) is a violation of the
    declared one after merging. -/
theorem merge_keeps_violation_partial (pv : String → Json → Bool) (names req : List String) (e new : Dict)
    (hu : uniqueKeys new)
    (hno : ∀ kv ∈ new, (e.map (·.1)).contains kv.1 = false)
    (h : locValid pv (without names (e.map (·.1))) (without req (e.map (·.1))) new = false) :
    locValid pv names req (dupdate e new) = false :=
  merge_keeps_violation' pv names req e new hu hno h

example : locValid (fun _ _ => true) (without ["a", "b"] ["a"]) (without ["b"] ["a"]) [] = false ∧
    uniqueKeys ([] : Dict) := ⟨by decide, by simp [uniqueKeys]⟩

/-- … and a drawn part that conforms to the reduced schema merges to a conforming part when the supplied values
    themselves conform. -/
theorem merge_keeps_conformance (pv : String → Json → Bool) (names req : List String) (e new : Dict)
    (hu : uniqueKeys new)
    (he : ∀ kv ∈ e, names.contains kv.1 = true ∧ pv kv.1 kv.2 = true)
    (h : locValid pv (without names (e.map (·.1))) (without req (e.map (·.1))) new = true) :
    locValid pv names req (dupdate e new) = true :=
  merge_keeps_conformance' pv names req e new hu he h

example : locValid (fun _ _ => true) (without ["a", "b"] ["a"]) (without ["b"] ["a"]) [("b", .null)] = true ∧
    uniqueKeys [("b", Json.null)] := ⟨by decide, by simp [uniqueKeys]⟩

/-! ## the body strategy and registered media-type strategies -/

/-- **Repaired: a body labelled negative is drawn from the negative factory** (no registered strategy, no `NOT_SET`). -/
theorem negative_body_from_negative_factory_repaired : NegativeBodyFromNegativeFactory .repaired := by
  intro items it hg hit
  unfold bodyCandidatesM at hg hit
  simp only [beq_self_eq_true, if_true] at hg hit
  split at hg
  · cases hg
  · rename_i hne
    simp only [hne, Bool.false_eq_true, if_false, List.mem_filter] at hit
    have hc : it.custom = false := by
      have := hit.2
      simp only [negatableItem, Bool.and_eq_true, Bool.or_eq_true, beq_iff_eq, reduceCtorEq, false_or,
        Bool.not_eq_true'] at this
      exact this.2
    simp [bodyStrategyM, hc]

/-- **As found (FC02g): false** — a media type with a registered strategy whose schema `can_negate` accepts is a
    candidate; the user's own data is labelled negative. -/
theorem negative_body_from_negative_factory_false_asFound : ¬ NegativeBodyFromNegativeFactory .asFound := by
  intro h
  have := h [⟨⟨true, true⟩, true⟩] ⟨⟨true, true⟩, true⟩ (by decide) (by decide)
  revert this
  decide

/-- The candidate selection with registered strategies is the label model's selection on the effective items. -/
theorem bodyCandidatesM_effective (v : Variant) (mode : Mode) (items : List BodyItemM) :
    (bodyCandidatesM v mode items).2 = (bodyCandidates mode (items.map (BodyItemM.effective v))).2 ∧
    (bodyCandidatesM v mode items).1.map (BodyItemM.effective v) = (bodyCandidates mode (items.map (BodyItemM.effective v))).1 := by
  unfold bodyCandidatesM bodyCandidates
  have hf : (items.map (BodyItemM.effective v)).filter (·.canNeg) = (items.filter (negatableItem v)).map (BodyItemM.effective v) := by
    induction items with
    | nil => rfl
    | cons a rest ih =>
      simp only [List.map_cons, List.filter_cons, BodyItemM.effective]
      cases hn : negatableItem v a <;> simp_all [BodyItemM.effective]
  cases mode
  · simp
  · simp only [beq_self_eq_true, if_true, hf, List.isEmpty_map]
    split <;> simp

/-- The positive fallback never uses the negative factory, and only the positive factory may leave an optional body out. -/
theorem body_strategy_absent_only_when_positive (it : BodyItemM) (f m : Mode) (b : Bool)
    (h : bodyStrategyM it f = .factory m b) : m = f ∧ (b = true → f = .positive ∧ it.item.required = false) := by
  unfold bodyStrategyM at h
  split at h
  · cases h
  · injection h with h1 h2
    refine ⟨h1.symm, ?_⟩
    intro hb
    rw [hb] at h2
    cases f <;> simp_all

/-! ## the wire spelling (finding F9) -/

/-- The final filter judges the Python value, the API receives its spelling: `{"q": "123"}` violates
    `q: integer` as a value (so it passes the filter and is labelled negative) but conforms on the wire. -/
theorem wire_spelling_witness :
    let loc : Json := .obj [("type", .str "object"), ("properties", .obj [("q", .obj [("type", .str "integer")])]),
                            ("additionalProperties", .bool false)]
    let part : Json := .obj [("q", .str "123")]
    validF 4 {} loc part = false ∧ partConforms 4 {} loc part = true := by decide

end SV.Props.C02
