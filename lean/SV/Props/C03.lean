/-
  C03 — coverage-phase cases carry labels that match their content.  Property theorems only.
  (helper lemmas: SV/Proofs/C03.lean; model: SV/Model/C03.lean; reference predicates: SV/Spec/C03.lean +
  the shared JSON-Schema semantics SV/Spec/JsonSchema.lean)
-/
import SV.Proofs.C03
import SV.Proofs.C03Cases

namespace SV.Props.C03
open SV SV.Spec.JsonSchema SV.Model.C03 SV.Spec.C03 SV.Proofs.C03

/-! ## numbers: `_positive_number` -/

/-- Full statement for `_positive_number`: whatever the schema, every emitted value's label matches its content
    (oracle answers assumed valid for the schema they were requested for).
    Sites: `vz` zero bound (F6), `vx` exclusive bounds (F7), `vc` crossing guard of the boundary values (F6c). -/
def positive_number_full (vz vx vc : Variant) : Prop :=
  ∀ (fuel : Nat) (env : Env) (kvs : List (String × Json)),
    Sound (fun gv => labelOk (fuel + 1) env (.obj kvs) gv = true) (callSound (fuel + 1) env) (positiveNumber vz vx vc kvs)

/-- C03 / numbers, the generator with all three sites repaired (`is None` tests, draft-4 booleans read as flags,
    exclusive and inclusive bounds combined, every boundary value tested against the opposite bound): on EVERY
    integer/number schema over the numeric keyword family — satisfiable or not, bounds crossing or not, no multiple in
    range or some — every value emitted by `_positive_number` that is not a copied example/default conforms to the
    schema.  (No satisfiability hypothesis: each emitted value is checked against both effective bounds and is a
    multiple by construction.) -/
theorem positive_number_valid (fuel : Nat) (env : Env) (kvs : List (String × Json)) (k : NumKw)
    (hparse : parseNumKw kvs = some k)
    (htype : Json.lookup "type" kvs = some (.str "integer") ∨ Json.lookup "type" kvs = some (.str "number"))
    (hplain : plainKeys kvs)
    (hpos : ∀ x, k.multipleOf = some x → 0 < x) :
    Sound (fun gv => labelOk (fuel + 1) env (.obj kvs) gv = true) (callSound (fuel + 1) env)
      (positiveNumber .repaired .repaired .repaired kvs) :=
  positive_number_valid_of .repaired .repaired .repaired fuel env kvs k rfl hparse htype hplain hpos (by intro h; cases h)

/-- Whatever mix of repairs a tree carries: `_positive_number` is sound away from the defect sites it still has —
    F7 (site `vx`): no exclusive bound that the snapshot misreads (`effMin/effMax` agree with the repaired reading);
    F6 (site `vz`, `not maximum`): an effective maximum that is not 0;
    F6c (site `vc`, no crossing guard): some integer satisfies the schema. -/
theorem positive_number_partial (vz vx vc : Variant) (fuel : Nat) (env : Env) (kvs : List (String × Json)) (k : NumKw)
    (hparse : parseNumKw kvs = some k)
    (htype : Json.lookup "type" kvs = some (.str "integer") ∨ Json.lookup "type" kvs = some (.str "number"))
    (hplain : plainKeys kvs)
    (hpos : ∀ x, k.multipleOf = some x → 0 < x)
    (hsat : vc = .asFound → ∃ n0 : Int, validF (fuel + 1) env (.obj kvs) (.num n0 0) = true)
    (hmin : vx = .asFound → effMin .asFound k = effMin .repaired k)
    (hmax : vx = .asFound → effMax .asFound k = effMax .repaired k)
    (hzero : vz = .asFound → effMax .repaired k ≠ some 0) :
    Sound (fun gv => labelOk (fuel + 1) env (.obj kvs) gv = true) (callSound (fuel + 1) env)
      (positiveNumber vz vx vc kvs) := by
  apply positive_number_valid_of vz vx vc fuel env kvs k _ hparse htype hplain hpos hsat
  have hmn : effMin vx k = effMin .repaired k := by cases vx <;> simp_all
  have hmx : effMax vx k = effMax .repaired k := by cases vx <;> simp_all
  have : numLower vz vc (effMin .repaired k) (effMax .repaired k) k.multipleOf =
         numLower .repaired vc (effMin .repaired k) (effMax .repaired k) k.multipleOf := by
    cases vz with
    | repaired => rfl
    | asFound =>
      unfold numLower
      cases hmx' : effMax .repaired k with
      | none => simp [isAbsent]
      | some m =>
        have : m ≠ 0 := by intro h; subst h; exact hzero rfl hmx'
        simp [isAbsent, this]
  simp only [numBoundary, hmn, hmx, this]

/-- The pre-2d700c38 statement as a corollary: without the crossing guard, satisfiable schemas are handled correctly. -/
theorem positive_number_valid_satisfiable (fuel : Nat) (env : Env) (kvs : List (String × Json)) (k : NumKw)
    (hparse : parseNumKw kvs = some k)
    (htype : Json.lookup "type" kvs = some (.str "integer") ∨ Json.lookup "type" kvs = some (.str "number"))
    (hplain : plainKeys kvs)
    (hpos : ∀ x, k.multipleOf = some x → 0 < x)
    (hsat : ∃ n0 : Int, validF (fuel + 1) env (.obj kvs) (.num n0 0) = true) :
    Sound (fun gv => labelOk (fuel + 1) env (.obj kvs) gv = true) (callSound (fuel + 1) env)
      (positiveNumber .repaired .repaired .asFound kvs) :=
  positive_number_valid_of .repaired .repaired .asFound fuel env kvs k rfl hparse htype hplain hpos (fun _ => hsat)

/-! ### witnesses (replayed on the real code by the harness) -/

private def st0 : St := { orc := [.val (.num 0 0)], seen := [] }
private def badPositive (vz vx vc : Variant) (kvs : List (String × Json)) (n : Int) : Bool :=
  ((positiveNumber vz vx vc kvs st0).out.any fun gv =>
    gv.value == Json.num n 0 && gv.mode == .positive && !(labelOk 2 {} (.obj kvs) gv))
private def allGood (kvs : List (String × Json)) : Bool :=
  (positiveNumber .repaired .repaired .repaired kvs st0).out.all fun gv => labelOk 2 {} (.obj kvs) gv

/-- F6 (site `vz` alone as found): `minimum = maximum = 0` — 1 is emitted as a positive "Near-boundary number";
    the repair does not. -/
def kvsF6 : List (String × Json) := [("type", .str "integer"), ("minimum", .num 0 0), ("maximum", .num 0 0)]
theorem F6_zero_bound_witness : badPositive .asFound .repaired .repaired kvsF6 1 = true ∧ allGood kvsF6 = true := by
  decide

/-- F7 (site `vx` alone as found): draft-4 `exclusiveMinimum: true` next to `minimum: 5` — the snapshot computes
    `True + 1` and emits 2 -/
def kvsF7 : List (String × Json) := [("type", .str "integer"), ("minimum", .num 5 0), ("exclusiveMinimum", .bool true)]
theorem F7_boolean_exclusive_witness : badPositive .repaired .asFound .repaired kvsF7 2 = true ∧ allGood kvsF7 = true := by
  decide

/-- F7 (numeric form): `exclusiveMinimum: 3` makes the snapshot forget `minimum: 10` and emit 4 -/
def kvsF7n : List (String × Json) := [("type", .str "integer"), ("minimum", .num 10 0), ("exclusiveMinimum", .num 3 0)]
theorem F7_numeric_exclusive_witness : badPositive .repaired .asFound .repaired kvsF7n 4 = true ∧ allGood kvsF7n = true := by
  decide

/-- F6c (site `vc` alone as found): `minimum: 1, maximum: 2, multipleOf: 3` — no multiple in range, 3 is emitted as
    "Minimum value" (and 0 as "Maximum value"); with the crossing guard nothing is emitted at all. -/
def kvsUnsat : List (String × Json) :=
  [("type", .str "integer"), ("minimum", .num 1 0), ("maximum", .num 2 0), ("multipleOf", .num 3 0)]
theorem F6c_no_multiple_in_range_witness :
    badPositive .repaired .repaired .asFound kvsUnsat 3 = true ∧ badPositive .repaired .repaired .asFound kvsUnsat 0 = true ∧
    (positiveNumber .repaired .repaired .repaired kvsUnsat st0).out = [] := by
  decide

/-- F6c, second form (the exclusive-bound step moves the maximum below the minimum): `minimum: -3, maximum: -3,
    exclusiveMaximum: true` — -4 is emitted as "Maximum value" and -3 as "Minimum value"; guarded: nothing. -/
def kvsCross : List (String × Json) :=
  [("type", .str "integer"), ("minimum", .num (-3) 0), ("maximum", .num (-3) 0), ("exclusiveMaximum", .bool true)]
theorem F6c_crossing_bounds_witness :
    badPositive .repaired .repaired .asFound kvsCross (-4) = true ∧ badPositive .repaired .repaired .asFound kvsCross (-3) = true ∧
    (positiveNumber .repaired .repaired .repaired kvsCross st0).out = [] := by
  decide

private theorem full_false_of (vz vx vc : Variant) (kvs : List (String × Json))
    (hc : (positiveNumber vz vx vc kvs st0).calls.isEmpty = true)
    (hbad : ((positiveNumber vz vx vc kvs st0).out.all fun gv => labelOk 2 {} (.obj kvs) gv) = false) :
    ¬ positive_number_full vz vx vc := by
  intro h
  have := h 1 {} kvs st0 (by rw [List.isEmpty_iff.1 hc]; intro c h; cases h)
  have hall : ((positiveNumber vz vx vc kvs st0).out.all fun gv => labelOk 2 {} (.obj kvs) gv) = true := by
    simp only [List.all_eq_true]; exact this
  rw [hbad] at hall; cases hall

/-- F6 without an oracle call: `minimum: -1, maximum: 0, multipleOf: 2` — 2 is emitted as "Near-boundary number" -/
def kvsF6m : List (String × Json) :=
  [("type", .str "integer"), ("minimum", .num (-1) 0), ("maximum", .num 0 0), ("multipleOf", .num 2 0)]

/-- each site alone, as found, falsifies the full statement -/
theorem positive_number_full_false_zero : ¬ positive_number_full .asFound .repaired .repaired :=
  full_false_of _ _ _ kvsF6m (by decide) (by decide)
theorem positive_number_full_false_excl : ¬ positive_number_full .repaired .asFound .repaired :=
  full_false_of _ _ _ kvsF7 (by decide) (by decide)
theorem positive_number_full_false_cross : ¬ positive_number_full .repaired .repaired .asFound :=
  full_false_of _ _ _ kvsUnsat (by decide) (by decide)
/-- the snapshot (all three sites as found) -/
theorem positive_number_full_false_asFound : ¬ positive_number_full .asFound .asFound .asFound :=
  full_false_of _ _ _ kvsF7 (by decide) (by decide)

/-- What is still false with all three sites repaired: `_positive_number` reads the numeric keyword family only, so a
    sibling keyword outside it can reject a boundary value (`minimum: 1, not: {maximum: 1}` → 1 "Minimum value").
    This is the part of the statement carried by the hypothesis `plainKeys` of `positive_number_valid`
    (on the real code: finding F9b, positive-next-to-combinator-rejected). -/
def kvsNot : List (String × Json) :=
  [("type", .str "integer"), ("minimum", .num 1 0), ("not", .obj [("maximum", .num 1 0)])]
theorem positive_number_full_false_repaired : ¬ positive_number_full .repaired .repaired .repaired :=
  full_false_of _ _ _ kvsNot (by decide) (by decide)

/-- non-vacuity of `positive_number_valid`: hypotheses met by `{type: integer, minimum: -1, maximum: 4, multipleOf: 2}`
    (the generator emits three values) and by the unsatisfiable `kvsUnsat` (it emits none) -/
example : ∃ kvs k, parseNumKw kvs = some k ∧ Json.lookup "type" kvs = some (.str "integer") ∧ plainKeys kvs ∧
    (∀ x, k.multipleOf = some x → 0 < x) ∧
    ((positiveNumber .repaired .repaired .repaired kvs st0).out.map (·.value.int?)) = [some 0, some 2, some 4] :=
  ⟨[("type", .str "integer"), ("minimum", .num (-1) 0), ("maximum", .num 4 0), ("multipleOf", .num 2 0)],
   ⟨some (-1), some 4, none, none, some 2⟩, by rfl, by rfl, ⟨rfl, rfl, rfl, rfl, rfl, rfl, rfl, rfl⟩,
   by intro x h; cases h; decide, by decide⟩
example : parseNumKw kvsUnsat = some ⟨some 1, some 2, none, none, some 3⟩ ∧ plainKeys kvsUnsat ∧
    ((List.range 17).all fun i => !(validF 2 {} (.obj kvsUnsat) (.num ((i : Int) - 8) 0))) = true :=
  ⟨by rfl, ⟨rfl, rfl, rfl, rfl, rfl, rfl, rfl, rfl⟩, by decide⟩

/-- non-vacuity of `positive_number_partial` for the snapshot (all three sites as found): `{type: integer, minimum: 1,
    maximum: 4}` meets every hypothesis (1 conforms, no exclusive bound, maximum ≠ 0) and four values are emitted -/
example : ∃ kvs k, parseNumKw kvs = some k ∧ Json.lookup "type" kvs = some (.str "integer") ∧ plainKeys kvs ∧
    (∀ x, k.multipleOf = some x → 0 < x) ∧ validF 2 {} (.obj kvs) (.num 1 0) = true ∧
    effMin .asFound k = effMin .repaired k ∧ effMax .asFound k = effMax .repaired k ∧ effMax .repaired k ≠ some 0 ∧
    ((positiveNumber .asFound .asFound .asFound kvs st0).out.map (·.value.int?)) = [some 1, some 2, some 4, some 3] :=
  ⟨[("type", .str "integer"), ("minimum", .num 1 0), ("maximum", .num 4 0)], ⟨some 1, some 4, none, none, none⟩,
   by rfl, by rfl, ⟨rfl, rfl, rfl, rfl, rfl, rfl, rfl, rfl⟩, (by intro x h; cases h), by decide, by rfl, by rfl, by decide, by decide⟩

/-! ## cover_schema_iter -/

/-- A positive-only context yields only values labelled positive — every schema, every oracle, the whole recursion
    (anyOf / oneOf / allOf descents, nested properties and items). -/
theorem cover_positive_only (fuel : Nat) (vs : Vs) (ctx : Ctx) (schema : Json) (st : St) (h : ctx.neg = false) :
    ∀ gv ∈ (coverTop fuel vs ctx schema st).out, gv.mode = .positive := by
  intro gv hg
  exact sound_freshSeen (cover_positive_only_aux fuel vs ctx schema h) st (fun _ _ => trivial) gv hg

/-- A negative-only context yields only values labelled negative. -/
theorem cover_negative_only (fuel : Nat) (vs : Vs) (ctx : Ctx) (schema : Json) (st : St) (h : ctx.pos = false) :
    ∀ gv ∈ (coverTop fuel vs ctx schema st).out, gv.mode = .negative := by
  intro gv hg
  exact sound_freshSeen (cover_negative_only_aux fuel vs ctx schema h) st (fun _ _ => trivial) gv hg

/-- C03 for the numeric keyword family, end to end (any variant vector whose three `_positive_number` sites are
    repaired; the other sites are not reachable from such a schema): for EVERY plain integer/number schema — satisfiable
    or not — (numeric keywords of either exclusive form, multipleOf > 0, any annotation keywords), every generation-mode
    set, every location and every oracle that honours its contract (`oracleOk`: schema requests answered with valid
    instances, `_negative_type` draws of the announced JSON type), every value cover_schema_iter emits carries the
    right label: positives conform, negatives are rejected (copied examples/defaults exempt). -/
theorem cover_numeric_labels (fuel n : Nat) (env : Env) (hoas : env.oas = Oas.none) (ctx : Ctx) (vs : Vs)
    (hz : vs.zero = .repaired) (hx : vs.excl = .repaired) (hc : vs.cross = .repaired)
    (kvs : List (String × Json)) (k : NumKw) (hp : PlainNumeric kvs)
    (hparse : parseNumKw kvs = some k) (hpos : ∀ x, k.multipleOf = some x → 0 < x) :
    Sound (fun gv => labelOk (fuel + 3) env (.obj kvs) gv = true) (oracleOk (fuel + 3) env)
      (coverTop (n + 1) vs ctx (.obj kvs)) :=
  cover_numeric_sound fuel n env hoas ctx vs hz hx hc kvs k hp hparse hpos

/-- The bound arms violate the keyword their description blames, whatever else the schema says:
    `maximum + 1`, `minimum - 1`, and the numeric exclusive bound itself. -/
theorem numeric_negatives_as_described (env : Env) (kvs : List (String × Json)) (path : List String) :
    (∀ n : Int, Json.lookup "maximum" kvs = some (.num n 0) →
        violatesAsDescribed env kvs (GV.neg (.num (n + 1) 0) .greaterThanMaximum path) = true) ∧
    (∀ n : Int, Json.lookup "minimum" kvs = some (.num n 0) →
        violatesAsDescribed env kvs (GV.neg (.num (n - 1) 0) .smallerThanMinimum path) = true) ∧
    (∀ (m : Int) (e : Nat), Json.lookup "exclusiveMaximum" kvs = some (.num m e) →
        violatesAsDescribed env kvs (GV.neg (.num m e) .greaterThanMaximum path) = true) ∧
    (∀ (m : Int) (e : Nat), Json.lookup "exclusiveMinimum" kvs = some (.num m e) →
        violatesAsDescribed env kvs (GV.neg (.num m e) .smallerThanMinimum path) = true) := by
  refine ⟨?_, ?_, ?_, ?_⟩
  · intro n h
    have : maximumOk kvs (n + 1) 0 = false := by
      unfold maximumOk; simp only [h]
      have h1 : numLe (n + 1) 0 n 0 = false := by simp [numLe, pow10]; omega
      have h2 : numLt (n + 1) 0 n 0 = false := by simp [numLt, pow10]; omega
      split <;> simp [h1, h2]
    simp [violatesAsDescribed, GV.neg, this]
  · intro n h
    have : minimumOk kvs (n - 1) 0 = false := by
      unfold minimumOk; simp only [h]
      have h1 : numLe n 0 (n - 1) 0 = false := by simp [numLe, pow10]; omega
      have h2 : numLt n 0 (n - 1) 0 = false := by simp [numLt, pow10]; omega
      split <;> simp [h1, h2]
    simp [violatesAsDescribed, GV.neg, this]
  · intro m e h
    have : maximumOk kvs m e = false := by unfold maximumOk; simp [h, numLt_irrefl]
    simp [violatesAsDescribed, GV.neg, this]
  · intro m e h
    have : minimumOk kvs m e = false := by unfold minimumOk; simp [h, numLt_irrefl]
    simp [violatesAsDescribed, GV.neg, this]

/-- F7b witness: untyped `{maximum: 5, exclusiveMaximum: true}` — the snapshot emits the Python `True` as
    "Value greater than maximum"; the schema accepts it; it does not violate `maximum`. The repair emits no such value. -/
def kvsF7b : List (String × Json) := [("maximum", .num 5 0), ("exclusiveMaximum", .bool true)]
private def ctxN : Ctx := ⟨"body", false, true, []⟩
theorem F7b_boolean_emitted_witness :
    ((coverTop 3 { Vs.repaired with excl := .asFound } ctxN (.obj kvsF7b) { orc := [], seen := [] }).out.any fun gv =>
        gv.value == Json.bool true && gv.mode == .negative && validF 2 {} (.obj kvsF7b) gv.value &&
        !(violatesAsDescribed {} kvsF7b gv)) = true ∧
    ((coverTop 3 Vs.repaired ctxN (.obj kvsF7b) { orc := [], seen := [] }).out.all fun gv =>
        labelOk 2 {} (.obj kvsF7b) gv && violatesAsDescribed {} kvsF7b gv) = true := by
  decide

/-- non-vacuity of `cover_numeric_labels`: `{type: integer, minimum: 0, maximum: 3}` is a plain numeric schema, is
    satisfiable, and with six type draws the generator emits 4 positive and 8 negative values -/
def kvsOk : List (String × Json) := [("type", .str "integer"), ("minimum", .num 0 0), ("maximum", .num 3 0)]
private def orcOk : List Ans :=
  [.val (.num 5 1), .val (.bool false), .val .null, .val (.str ""), .val (.arr [.null, .null]), .val (.obj [])]
example : PlainNumeric kvsOk ∧ parseNumKw kvsOk = some ⟨some 0, some 3, none, none, none⟩ ∧
    validF 3 {} (.obj kvsOk) (.num 0 0) = true ∧
    ((coverTop 2 Vs.repaired ⟨"body", true, true, []⟩ (.obj kvsOk) { orc := orcOk, seen := [] }).out.map
      (·.mode)) = [.positive, .positive, .positive, .positive, .negative, .negative, .negative, .negative, .negative,
                   .negative, .negative, .negative] := by
  refine ⟨⟨?_, ⟨"integer", rfl, Or.inl rfl⟩, ?_, ⟨rfl, rfl, rfl, rfl, rfl, rfl, rfl, rfl⟩⟩, rfl, by decide, by decide⟩
  · intro k v h
    simp only [kvsOk, List.mem_cons, Prod.mk.injEq, List.mem_nil_iff, or_false] at h
    rcases h with ⟨rfl, rfl⟩ | ⟨rfl, rfl⟩ | ⟨rfl, rfl⟩ <;> rfl
  · intro k v h
    simp only [kvsOk, List.mem_cons, Prod.mk.injEq, List.mem_nil_iff, or_false] at h
    rcases h with ⟨rfl, rfl⟩ | ⟨rfl, rfl⟩ | ⟨rfl, rfl⟩ <;> simp

/-! ## strings: `_positive_string` -/

/-- Full statement for `_positive_string` (site `vl`: crossing guard of the boundary lengths, F34) -/
def positive_string_full (vl : Variant) : Prop :=
  ∀ (fuel : Nat) (env : Env) (_ : env.oas = Oas.none) (ctx : Ctx) (kvs : List (String × Json)) (mn0 mx : Option Nat),
    Json.lookup "$ref" kvs = none → lenKw? kvs "minLength" = some mn0 → lenKw? kvs "maxLength" = some mx →
    Sound (fun gv => labelOk (fuel + 1) env (.obj kvs) gv = true) (callSound (fuel + 1) env) (positiveString vl ctx kvs)

/-- C03 / strings, `_positive_string` with the crossing guard (the repair proposed for F34): on EVERY string schema
    (any length bounds, crossing or not, any pattern / format / other keywords next to them) every non-exempt value
    conforms to the schema — the derived requests `{**schema, "minLength": a, "maxLength": b}` only tighten the bounds,
    so an answer valid for the request (oracle contract) is valid for the schema. -/
theorem positive_string_valid : positive_string_full .repaired := by
  intro fuel env hoas ctx kvs mn0 mx href hmn hmx
  exact positive_string_sound .repaired fuel env hoas ctx kvs mn0 mx href hmn hmx (by intro h; cases h)

/-- the code as found: the same on schemas whose length bounds do not cross (minLength ≤ maxLength when both are present) -/
theorem positive_string_partial (vl : Variant) (fuel : Nat) (env : Env) (hoas : env.oas = Oas.none) (ctx : Ctx)
    (kvs : List (String × Json)) (mn0 mx : Option Nat) (href : Json.lookup "$ref" kvs = none)
    (hmn : lenKw? kvs "minLength" = some mn0) (hmx : lenKw? kvs "maxLength" = some mx)
    (hsat : vl = .asFound → ∀ a b, mn0 = some a → mx = some b → a ≤ b) :
    Sound (fun gv => labelOk (fuel + 1) env (.obj kvs) gv = true) (callSound (fuel + 1) env) (positiveString vl ctx kvs) :=
  positive_string_sound vl fuel env hoas ctx kvs mn0 mx href hmn hmx hsat

/-- F34 witness: `{type: string, minLength: 1, maxLength: 0}` — as found three requests are made and an oracle that
    honours its contract ("0" for length 1, "00" for length 2, "" for length 0) yields three strings the schema rejects,
    all labelled positive; with the guard no request is made. -/
def kvsF34 : List (String × Json) := [("type", .str "string"), ("minLength", .num 1 0), ("maxLength", .num 0 0)]
private def ctxB : Ctx := ⟨"body", true, false, []⟩
private def stF34 : St := { orc := [.val (.str "0"), .val (.str "00"), .val (.str "")], seen := [] }
theorem F34_crossing_lengths_witness :
    ((positiveString .asFound ctxB kvsF34 stF34).calls.all fun c =>
        match c.req, c.ans with | .schema s, .val v => validF 2 {} s v | _, _ => false) = true ∧
    ((positiveString .asFound ctxB kvsF34 stF34).out.map fun gv => (gv.desc, labelOk 2 {} (.obj kvsF34) gv)) =
      [(.minLengthString, false), (.nearBoundaryString, false), (.maxLengthString, false)] ∧
    (positiveString .repaired ctxB kvsF34 stF34).calls.isEmpty = true ∧
    (positiveString .repaired ctxB kvsF34 stF34).out = [] := by
  decide

theorem positive_string_full_false_asFound : ¬ positive_string_full .asFound := by
  intro h
  have hs := h 1 {} rfl ctxB kvsF34 (some 1) (some 0) rfl rfl rfl stF34
  have hcalls : ∀ c ∈ (positiveString .asFound ctxB kvsF34 stF34).calls, callSound 2 {} c := by
    intro c hc
    have h1 := (List.all_eq_true.1 F34_crossing_lengths_witness.1) c hc
    obtain ⟨req, ans⟩ := c
    cases req <;> cases ans <;> simp_all [callSound]
  have hall : ((positiveString .asFound ctxB kvsF34 stF34).out.all fun gv => labelOk 2 {} (.obj kvsF34) gv) = true := by
    simp only [List.all_eq_true]; exact hs hcalls
  revert hall; decide

/-- non-vacuity: `{type: string, minLength: 1, maxLength: 3}` meets the hypotheses and the generator makes four
    requests (lengths 1, 2, 3 and 2 again is de-duplicated: three values), the same in both variants -/
example : lenKw? [("type", .str "string"), ("minLength", .num 1 0), ("maxLength", .num 3 0)] "minLength" = some (some 1) ∧
    (∀ vl, ((positiveString vl ⟨"body", true, false, []⟩ [("type", .str "string"), ("minLength", .num 1 0), ("maxLength", .num 3 0)]
        { orc := [.val (.str "a"), .val (.str "ab"), .val (.str "abc")], seen := [] }).out.map (·.desc)) =
      [.minLengthString, .nearBoundaryString, .maxLengthString]) := by
  constructor
  · rfl
  · intro vl; cases vl <;> decide

/-! ## the other proposed-repair sites (modelled so that the correspondence follows the tree; no label theorem) -/

private def ctxPN : Ctx := ⟨"body", true, true, []⟩

/-- F35 witness: `additionalProperties: {}` accepts every extra property; as found the object with the unknown property
    is emitted as "Object with unexpected properties"; repaired (`value is False`): not emitted. -/
def kvsF35 : List (String × Json) :=
  [("type", .str "object"), ("properties", .obj [("a", .obj [("const", .num 1 0)])]), ("additionalProperties", .obj [])]
private def stF35 : St := { orc := [.val (.obj [("a", .num 1 0)])], seen := [] }
theorem F35_additionalProperties_schema_witness :
    ((negArm (fun _ _ => Gen.nil) .repaired .asFound .repaired (ctxN.at "additionalProperties") kvsF35 ["object"]
        "additionalProperties" (.obj []) stF35).out.map fun gv =>
          (gv.desc, gv.mode, validF 3 {} (.obj kvsF35) gv.value)) = [(.unexpectedProperties, .negative, true)] ∧
    (negArm (fun _ _ => Gen.nil) .repaired .repaired .repaired (ctxN.at "additionalProperties") kvsF35 ["object"]
        "additionalProperties" (.obj []) stF35).out = [] := by
  decide

/-- F40 witness: the schema `false` — as found the six "valid" values of `true` are emitted as positives; repaired: nothing -/
theorem F40_false_schema_witness :
    ((coverTop 2 { Vs.repaired with falseSchema := .asFound } ⟨"body", true, false, []⟩ (.bool false)
        { orc := [.val .null, .val .null, .val (.arr []), .val (.obj [])], seen := [] }).out.all fun gv =>
          gv.mode == .positive && !(validF 2 {} (.bool false) gv.value)) = true ∧
    ((coverTop 2 { Vs.repaired with falseSchema := .asFound } ⟨"body", true, false, []⟩ (.bool false)
        { orc := [.val .null, .val .null, .val (.arr []), .val (.obj [])], seen := [] }).out.length) = 7 ∧
    (coverTop 2 Vs.repaired ctxPN (.bool false) { orc := [], seen := [] }).out = [] := by
  decide

/-- F37 witness: `properties {a}, minProperties 1` with template `{a: 0}` — as found `{}` is emitted as
    "Object with only required properties"; repaired: it is not. -/
def kvsF37 : List (String × Json) :=
  [("type", .str "object"), ("properties", .obj [("a", .obj [("const", .num 0 0)])]), ("minProperties", .num 1 0)]
theorem F37_minProperties_witness :
    ((positiveObject .asFound (fun _ => Gen.nil) kvsF37 (.obj [("a", .num 0 0)]) { orc := [], seen := [] }).out.any fun gv =>
        gv.desc == .objectOnlyRequired && !(validF 3 {} (.obj kvsF37) gv.value)) = true ∧
    ((positiveObject .repaired (fun _ => Gen.nil) kvsF37 (.obj [("a", .num 0 0)]) { orc := [], seen := [] }).out.all fun gv =>
        validF 3 {} (.obj kvsF37) gv.value) = true := by
  decide

/-- F36 witness: `required: [a, zz]` with only `a` declared — as found the template schema requires `[a]`, repaired `[a, zz]` -/
def kvsF36 : List (String × Json) :=
  [("type", .str "object"), ("properties", .obj [("a", .obj [("type", .str "integer")])]), ("required", .arr [.str "a", .str "zz"])]
private def requiredIs (t : Option Json) (names : List String) : Bool :=
  match t with
  | some (.obj k) => (match Json.lookup "required" k with | some r => r == Json.arr (names.map Json.str) | none => false)
  | _ => false
theorem F36_template_required_witness :
    requiredIs (templateSchema .asFound 4 kvsF36 "object") ["a"] = true ∧
    requiredIs (templateSchema .repaired 4 kvsF36 "object") ["a", "zz"] = true := by
  decide

/-! ## cases: `_iter_coverage_cases` -/

/-- Full statement (C03_case_label + C03_components_consistent): whatever values cover_schema_iter handed over,
    every assembled case is labelled negative exactly when a part of it is negative / a required parameter was
    removed / a parameter was duplicated / the method is undocumented, and every component label is the label its
    container deserves. -/
def case_labels_full (v : Variant) : Prop :=
  ∀ (inp : OpIn) (cs : List Case), iterCases v inp = some cs → ∀ c ∈ cs, caseLabelOk c = true ∧ compsOk c = true

/-- C03 / cases, repaired `_iter_coverage_cases` (F8: the n-th body case takes the n-th value's mode): the full
    statement holds for every operation, mode set and value stream that is well-formed (`WF`: the first value of each
    generator is positive when positives are requested, all values negative otherwise). -/
theorem case_labels_repaired (inp : OpIn) (hwf : WF inp) (cs : List Case) (he : iterCases .repaired inp = some cs) :
    ∀ c ∈ cs, caseLabelOk c = true ∧ compsOk c = true :=
  iterCases_good inp hwf cs he

/-- The snapshot satisfies the same statement exactly when no body alternative mixes labels after its first value
    (then the F8 site is never exercised). -/
theorem case_labels_asFound_partial (inp : OpIn) (hwf : WF inp)
    (hbody : ∀ b ∈ inp.bodies, ∀ v rest, b.values = v :: rest → ∀ w ∈ rest, w.mode = v.mode)
    (cs : List Case) (he : iterCases .asFound inp = some cs) :
    ∀ c ∈ cs, caseLabelOk c = true ∧ compsOk c = true := by
  apply iterCases_good inp hwf cs
  have : iterCases .asFound inp = iterCases .repaired inp := by
    unfold iterCases
    simp only [fun t => bodyCases_asFound_eq inp.bodies t hbody]
  rw [← this]; exact he

/-- F8 witness: one body alternative yielding a positive then a negative value, modes {positive, negative}.
    Snapshot: the second case is labelled positive with a negative body component; repaired: fine. -/
def inpF8 : OpIn :=
  { params := [], hasBody := true,
    bodies := [⟨"application/json", [⟨.positive, .minimumValue, none⟩, ⟨.negative, .incorrectType, none⟩]⟩],
    methods := [], pos := true, neg := true, negCalls := [] }

theorem F8_body_label_witness :
    (match iterCases .asFound inpF8 with
     | some cs => cs.map (fun c => (c.mode, getAssoc Kind.body c.comps, caseLabelOk c))
     | none => []) = [(.positive, some .positive, true), (.positive, some .negative, false)] ∧
    (match iterCases .repaired inpF8 with
     | some cs => cs.all (fun c => caseLabelOk c && compsOk c)
     | none => false) = true := by
  decide

theorem case_labels_full_false_asFound : ¬ case_labels_full .asFound := by
  intro h
  have hall : (match iterCases .asFound inpF8 with
      | some cs => cs.all (fun c => caseLabelOk c && compsOk c) | none => true) = true := by
    cases hc : iterCases .asFound inpF8 with
    | none => rfl
    | some cs =>
      simp only [List.all_eq_true, Bool.and_eq_true]
      intro c hm; exact h inpF8 cs hc c hm
  revert hall
  decide

/-- F8b/F8c witness — the hypothesis `WF` of `case_labels_repaired` cannot be dropped: a required query parameter
    whose only value is negative (schema `{minimum: 5}`) next to an ordinary one; the repaired variant still labels
    the default case positive (component query negative) and `with_container` hides the negative template value. -/
def inpF8b : OpIn :=
  { params := [⟨"query", "n", true, [⟨.negative, .smallerThanMinimum, none⟩]⟩,
               ⟨"query", "r", false, [⟨.positive, .validBoolean, none⟩, ⟨.positive, .validBoolean, none⟩]⟩],
    hasBody := false, bodies := [], methods := [], pos := true, neg := false, negCalls := [] }

theorem case_labels_full_false_repaired : ¬ case_labels_full .repaired := by
  intro h
  have hall : (match iterCases .repaired inpF8b with
      | some cs => cs.all (fun c => caseLabelOk c && compsOk c) | none => true) = true := by
    cases hc : iterCases .repaired inpF8b with
    | none => rfl
    | some cs =>
      simp only [List.all_eq_true, Bool.and_eq_true]
      intro c hm; exact h inpF8b cs hc c hm
  revert hall
  decide

/-- non-vacuity of `case_labels_repaired`: a well-formed input (two query parameters, a body with mixed labels, both
    modes) produces 8 cases -/
def inpOk : OpIn :=
  { params := [⟨"query", "q", true, [⟨.positive, .minimumValue, none⟩, ⟨.negative, .incorrectType, none⟩]⟩,
               ⟨"query", "r", false, [⟨.positive, .validBoolean, none⟩]⟩],
    hasBody := true,
    bodies := [⟨"application/json", [⟨.positive, .minimumValue, none⟩, ⟨.negative, .incorrectType, none⟩]⟩],
    methods := ["GET"], pos := true, neg := true, negCalls := [[⟨.negative, .unexpectedProperties, none⟩]] }

example : WF inpOk ∧ (match iterCases .repaired inpOk with | some cs => cs.length | none => 0) = 9 := by
  refine ⟨⟨?_, ?_, ?_⟩, by decide⟩
  · intro p hp; simp [inpOk] at hp; rcases hp with rfl | rfl <;> decide
  · intro _
    constructor
    · intro p hp v rest hv; simp [inpOk] at hp; rcases hp with rfl | rfl <;> simp at hv <;> (obtain ⟨rfl, _⟩ := hv; rfl)
    · intro b hb v rest hv; simp [inpOk] at hb; subst hb; simp at hv; obtain ⟨rfl, _⟩ := hv; rfl
  · intro h; simp [inpOk] at h

end SV.Props.C03
