/-
  C03 — coverage-phase cases carry labels that match their content.  Property theorems only.
  (helper lemmas: SV/Proofs/C03.lean; model: SV/Model/C03.lean; reference predicates: SV/Spec/C03.lean +
  the shared JSON-Schema semantics SV/Spec/JsonSchema.lean)
-/
import SV.Proofs.C03
import SV.Proofs.C03Cases
import SV.Proofs.C03Doc

namespace SV.Props.C03
open SV SV.Spec.JsonSchema SV.Model.C03 SV.Spec.C03 SV.Proofs.C03

/-! ## numbers: `_positive_number` -/

/-- Full statement for `_positive_number`: whatever the schema, every emitted value's label matches its content
    (oracle answers assumed valid for the schema they were requested for).
    Sites: `vz` zero bound (F6), `vx` exclusive bounds (F7), `vc` crossing guard of the boundary values (F6c). -/
def positive_number_full (vz vx vc : Variant) : Prop :=
  ∀ (fuel : Nat) (env : Env) (kvs : List (String × Json)),
    Sound (fun gv => labelOk (fuel + 1) env (.obj kvs) gv = true) (callSound (fuel + 1) env) (positiveNumber vz vx vc kvs)

/-- C03 / numbers, the generator with all three sites repaired (`is None` tests, draft-4 booleans read as flags,
    exclusive and inclusive bounds combined, every boundary value tested against the opposite bound): on EVERY
    integer/number schema over the numeric keyword family — satisfiable or not, bounds crossing or not, no multiple in
    range or some — every value emitted by `_positive_number` that is not a copied example/default conforms to the
    schema.  (No satisfiability hypothesis: each emitted value is checked against both effective bounds and is a
    multiple by construction.) -/
theorem positive_number_valid (fuel : Nat) (env : Env) (kvs : List (String × Json)) (k : NumKw)
    (hparse : parseNumKw kvs = some k)
    (htype : Json.lookup "type" kvs = some (.str "integer") ∨ Json.lookup "type" kvs = some (.str "number"))
    (hplain : plainKeys kvs)
    (hpos : ∀ x, k.multipleOf = some x → 0 < x) :
    Sound (fun gv => labelOk (fuel + 1) env (.obj kvs) gv = true) (callSound (fuel + 1) env)
      (positiveNumber .repaired .repaired .repaired kvs) :=
  positive_number_valid_of .repaired .repaired .repaired fuel env kvs k rfl hparse htype hplain hpos (by intro h; cases h)

/-- Whatever mix of repairs a tree carries: `_positive_number` is sound away from the defect sites it still has —
    F7 (site `vx`): no exclusive bound that the snapshot misreads (`effMin/effMax` agree with the repaired reading);
    F6 (site `vz`, `not maximum`): an effective maximum that is not 0;
    F6c (site `vc`, no crossing guard): some integer satisfies the schema. -/
theorem positive_number_partial (vz vx vc : Variant) (fuel : Nat) (env : Env) (kvs : List (String × Json)) (k : NumKw)
    (hparse : parseNumKw kvs = some k)
    (htype : Json.lookup "type" kvs = some (.str "integer") ∨ Json.lookup "type" kvs = some (.str "number"))
    (hplain : plainKeys kvs)
    (hpos : ∀ x, k.multipleOf = some x → 0 < x)
    (hsat : vc = .asFound → ∃ n0 : Int, validF (fuel + 1) env (.obj kvs) (.num n0 0) = true)
    (hmin : vx = .asFound → effMin .asFound k = effMin .repaired k)
    (hmax : vx = .asFound → effMax .asFound k = effMax .repaired k)
    (hzero : vz = .asFound → effMax .repaired k ≠ some 0) :
    Sound (fun gv => labelOk (fuel + 1) env (.obj kvs) gv = true) (callSound (fuel + 1) env)
      (positiveNumber vz vx vc kvs) := by
  apply positive_number_valid_of vz vx vc fuel env kvs k _ hparse htype hplain hpos hsat
  have hmn : effMin vx k = effMin .repaired k := by cases vx <;> simp_all
  have hmx : effMax vx k = effMax .repaired k := by cases vx <;> simp_all
  have : numLower vz vc (effMin .repaired k) (effMax .repaired k) k.multipleOf =
         numLower .repaired vc (effMin .repaired k) (effMax .repaired k) k.multipleOf := by
    cases vz with
    | repaired => rfl
    | asFound =>
      unfold numLower
      cases hmx' : effMax .repaired k with
      | none => simp [isAbsent]
      | some m =>
        have : m ≠ 0 := by intro h; subst h; exact hzero rfl hmx'
        simp [isAbsent, this]
  simp only [numBoundary, hmn, hmx, this]

/-- The pre-2d700c38 statement as a corollary: without the crossing guard, satisfiable schemas are handled correctly. -/
theorem positive_number_valid_satisfiable (fuel : Nat) (env : Env) (kvs : List (String × Json)) (k : NumKw)
    (hparse : parseNumKw kvs = some k)
    (htype : Json.lookup "type" kvs = some (.str "integer") ∨ Json.lookup "type" kvs = some (.str "number"))
    (hplain : plainKeys kvs)
    (hpos : ∀ x, k.multipleOf = some x → 0 < x)
    (hsat : ∃ n0 : Int, validF (fuel + 1) env (.obj kvs) (.num n0 0) = true) :
    Sound (fun gv => labelOk (fuel + 1) env (.obj kvs) gv = true) (callSound (fuel + 1) env)
      (positiveNumber .repaired .repaired .asFound kvs) :=
  positive_number_valid_of .repaired .repaired .asFound fuel env kvs k rfl hparse htype hplain hpos (fun _ => hsat)

/-! ### witnesses (replayed on the real code by the harness) -/

private def st0 : St := { orc := [.val (.num 0 0)], seen := [] }
private def badPositive (vz vx vc : Variant) (kvs : List (String × Json)) (n : Int) : Bool :=
  ((positiveNumber vz vx vc kvs st0).out.any fun gv =>
    gv.value == Json.num n 0 && gv.mode == .positive && !(labelOk 2 {} (.obj kvs) gv))
private def allGood (kvs : List (String × Json)) : Bool :=
  (positiveNumber .repaired .repaired .repaired kvs st0).out.all fun gv => labelOk 2 {} (.obj kvs) gv

/-- F6 (site `vz` alone as found): `minimum = maximum = 0` — 1 is emitted as a positive "Near-boundary number";
    the repair does not. -/
def kvsF6 : List (String × Json) := [("type", .str "integer"), ("minimum", .num 0 0), ("maximum", .num 0 0)]
theorem F6_zero_bound_witness : badPositive .asFound .repaired .repaired kvsF6 1 = true ∧ allGood kvsF6 = true := by
  decide

/-- F7 (site `vx` alone as found): draft-4 `exclusiveMinimum: true` next to `minimum: 5` — the snapshot computes
    `True + 1` and emits 2 -/
def kvsF7 : List (String × Json) := [("type", .str "integer"), ("minimum", .num 5 0), ("exclusiveMinimum", .bool true)]
theorem F7_boolean_exclusive_witness : badPositive .repaired .asFound .repaired kvsF7 2 = true ∧ allGood kvsF7 = true := by
  decide

/-- F7 (numeric form): `exclusiveMinimum: 3` makes the snapshot forget `minimum: 10` and emit 4 -/
def kvsF7n : List (String × Json) := [("type", .str "integer"), ("minimum", .num 10 0), ("exclusiveMinimum", .num 3 0)]
theorem F7_numeric_exclusive_witness : badPositive .repaired .asFound .repaired kvsF7n 4 = true ∧ allGood kvsF7n = true := by
  decide

/-- F6c (site `vc` alone as found): `minimum: 1, maximum: 2, multipleOf: 3` — no multiple in range, 3 is emitted as
    "Minimum value" (and 0 as "Maximum value"); with the crossing guard nothing is emitted at all. -/
def kvsUnsat : List (String × Json) :=
  [("type", .str "integer"), ("minimum", .num 1 0), ("maximum", .num 2 0), ("multipleOf", .num 3 0)]
theorem F6c_no_multiple_in_range_witness :
    badPositive .repaired .repaired .asFound kvsUnsat 3 = true ∧ badPositive .repaired .repaired .asFound kvsUnsat 0 = true ∧
    (positiveNumber .repaired .repaired .repaired kvsUnsat st0).out = [] := by
  decide

/-- F6c, second form (the exclusive-bound step moves the maximum below the minimum): `minimum: -3, maximum: -3,
    exclusiveMaximum: true` — -4 is emitted as "Maximum value" and -3 as "Minimum value"; guarded: nothing. -/
def kvsCross : List (String × Json) :=
  [("type", .str "integer"), ("minimum", .num (-3) 0), ("maximum", .num (-3) 0), ("exclusiveMaximum", .bool true)]
theorem F6c_crossing_bounds_witness :
    badPositive .repaired .repaired .asFound kvsCross (-4) = true ∧ badPositive .repaired .repaired .asFound kvsCross (-3) = true ∧
    (positiveNumber .repaired .repaired .repaired kvsCross st0).out = [] := by
  decide

private theorem full_false_of (vz vx vc : Variant) (kvs : List (String × Json))
    (hc : (positiveNumber vz vx vc kvs st0).calls.isEmpty = true)
    (hbad : ((positiveNumber vz vx vc kvs st0).out.all fun gv => labelOk 2 {} (.obj kvs) gv) = false) :
    ¬ positive_number_full vz vx vc := by
  intro h
  have := h 1 {} kvs st0 (by rw [List.isEmpty_iff.1 hc]; intro c h; cases h)
  have hall : ((positiveNumber vz vx vc kvs st0).out.all fun gv => labelOk 2 {} (.obj kvs) gv) = true := by
    simp only [List.all_eq_true]; exact this
  rw [hbad] at hall; cases hall

/-- F6 without an oracle call: `minimum: -1, maximum: 0, multipleOf: 2` — 2 is emitted as "Near-boundary number" -/
def kvsF6m : List (String × Json) :=
  [("type", .str "integer"), ("minimum", .num (-1) 0), ("maximum", .num 0 0), ("multipleOf", .num 2 0)]

/-- each site alone, as found, falsifies the full statement -/
theorem positive_number_full_false_zero : ¬ positive_number_full .asFound .repaired .repaired :=
  full_false_of _ _ _ kvsF6m (by decide) (by decide)
theorem positive_number_full_false_excl : ¬ positive_number_full .repaired .asFound .repaired :=
  full_false_of _ _ _ kvsF7 (by decide) (by decide)
theorem positive_number_full_false_cross : ¬ positive_number_full .repaired .repaired .asFound :=
  full_false_of _ _ _ kvsUnsat (by decide) (by decide)
/-- the snapshot (all three sites as found) -/
theorem positive_number_full_false_asFound : ¬ positive_number_full .asFound .asFound .asFound :=
  full_false_of _ _ _ kvsF7 (by decide) (by decide)

/-- What is still false with all three sites repaired: `_positive_number` reads the numeric keyword family only, so a
    sibling keyword outside it can reject a boundary value (`minimum: 1, not: {maximum: 1}` → 1 "Minimum value").
    This is the part of the statement carried by the hypothesis `plainKeys` of `positive_number_valid`
    (on the real code: finding F9b, positive-next-to-combinator-rejected). -/
def kvsNot : List (String × Json) :=
  [("type", .str "integer"), ("minimum", .num 1 0), ("not", .obj [("maximum", .num 1 0)])]
theorem positive_number_full_false_repaired : ¬ positive_number_full .repaired .repaired .repaired :=
  full_false_of _ _ _ kvsNot (by decide) (by decide)

/-- non-vacuity of `positive_number_valid`: hypotheses met by `{type: integer, minimum: -1, maximum: 4, multipleOf: 2}`
    (the generator emits three values) and by the unsatisfiable `kvsUnsat` (it emits none) -/
example : ∃ kvs k, parseNumKw kvs = some k ∧ Json.lookup "type" kvs = some (.str "integer") ∧ plainKeys kvs ∧
    (∀ x, k.multipleOf = some x → 0 < x) ∧
    ((positiveNumber .repaired .repaired .repaired kvs st0).out.map (·.value.int?)) = [some 0, some 2, some 4] :=
  ⟨[("type", .str "integer"), ("minimum", .num (-1) 0), ("maximum", .num 4 0), ("multipleOf", .num 2 0)],
   ⟨some (-1), some 4, none, none, some 2⟩, by rfl, by rfl, ⟨rfl, rfl, rfl, rfl, rfl, rfl, rfl, rfl⟩,
   by intro x h; cases h; decide, by decide⟩
example : parseNumKw kvsUnsat = some ⟨some 1, some 2, none, none, some 3⟩ ∧ plainKeys kvsUnsat ∧
    ((List.range 17).all fun i => !(validF 2 {} (.obj kvsUnsat) (.num ((i : Int) - 8) 0))) = true :=
  ⟨by rfl, ⟨rfl, rfl, rfl, rfl, rfl, rfl, rfl, rfl⟩, by decide⟩

/-- non-vacuity of `positive_number_partial` for the snapshot (all three sites as found): `{type: integer, minimum: 1,
    maximum: 4}` meets every hypothesis (1 conforms, no exclusive bound, maximum ≠ 0) and four values are emitted -/
example : ∃ kvs k, parseNumKw kvs = some k ∧ Json.lookup "type" kvs = some (.str "integer") ∧ plainKeys kvs ∧
    (∀ x, k.multipleOf = some x → 0 < x) ∧ validF 2 {} (.obj kvs) (.num 1 0) = true ∧
    effMin .asFound k = effMin .repaired k ∧ effMax .asFound k = effMax .repaired k ∧ effMax .repaired k ≠ some 0 ∧
    ((positiveNumber .asFound .asFound .asFound kvs st0).out.map (·.value.int?)) = [some 1, some 2, some 4, some 3] :=
  ⟨[("type", .str "integer"), ("minimum", .num 1 0), ("maximum", .num 4 0)], ⟨some 1, some 4, none, none, none⟩,
   by rfl, by rfl, ⟨rfl, rfl, rfl, rfl, rfl, rfl, rfl, rfl⟩, (by intro x h; cases h), by decide, by rfl, by rfl, by decide, by decide⟩

/-! ## cover_schema_iter -/

/-- A positive-only context yields only values labelled positive — every schema, every oracle, the whole recursion
    (anyOf / oneOf / allOf descents, nested properties and items). -/
theorem cover_positive_only (fuel : Nat) (vs : Vs) (ctx : Ctx) (schema : Json) (st : St) (h : ctx.neg = false) :
    ∀ gv ∈ (coverTop fuel vs ctx schema st).out, gv.mode = .positive := by
  intro gv hg
  exact sound_freshSeen (cover_positive_only_aux fuel vs ctx schema h) st (fun _ _ => trivial) gv hg

/-- A negative-only context yields only values labelled negative. -/
theorem cover_negative_only (fuel : Nat) (vs : Vs) (ctx : Ctx) (schema : Json) (st : St) (h : ctx.pos = false) :
    ∀ gv ∈ (coverTop fuel vs ctx schema st).out, gv.mode = .negative := by
  intro gv hg
  exact sound_freshSeen (cover_negative_only_aux fuel vs ctx schema h) st (fun _ _ => trivial) gv hg

/-- C03 for the numeric keyword family, end to end (any variant vector whose three `_positive_number` sites are
    repaired; the other sites are not reachable from such a schema): for EVERY plain integer/number schema — satisfiable
    or not — (numeric keywords of either exclusive form, multipleOf > 0, any annotation keywords), every generation-mode
    set, every location and every oracle that honours its contract (`oracleOk`: schema requests answered with valid
    instances, `_negative_type` draws of the announced JSON type), every value cover_schema_iter emits carries the
    right label: positives conform, negatives are rejected (copied examples/defaults exempt). -/
theorem cover_numeric_labels (fuel n : Nat) (env : Env) (hoas : env.oas = Oas.none) (ctx : Ctx) (vs : Vs)
    (hz : vs.zero = .repaired) (hx : vs.excl = .repaired) (hc : vs.cross = .repaired)
    (kvs : List (String × Json)) (k : NumKw) (hp : PlainNumeric kvs)
    (hparse : parseNumKw kvs = some k) (hpos : ∀ x, k.multipleOf = some x → 0 < x) :
    Sound (fun gv => labelOk (fuel + 3) env (.obj kvs) gv = true) (oracleOk (fuel + 3) env)
      (coverTop (n + 1) vs ctx (.obj kvs)) :=
  cover_numeric_sound fuel n env hoas ctx vs hz hx hc kvs k hp hparse hpos

/-- The bound arms violate the keyword their description blames, whatever else the schema says:
    `maximum + 1`, `minimum - 1`, and the numeric exclusive bound itself. -/
theorem numeric_negatives_as_described (env : Env) (kvs : List (String × Json)) (path : List String) :
    (∀ n : Int, Json.lookup "maximum" kvs = some (.num n 0) →
        violatesAsDescribed env kvs (GV.neg (.num (n + 1) 0) .greaterThanMaximum path) = true) ∧
    (∀ n : Int, Json.lookup "minimum" kvs = some (.num n 0) →
        violatesAsDescribed env kvs (GV.neg (.num (n - 1) 0) .smallerThanMinimum path) = true) ∧
    (∀ (m : Int) (e : Nat), Json.lookup "exclusiveMaximum" kvs = some (.num m e) →
        violatesAsDescribed env kvs (GV.neg (.num m e) .greaterThanMaximum path) = true) ∧
    (∀ (m : Int) (e : Nat), Json.lookup "exclusiveMinimum" kvs = some (.num m e) →
        violatesAsDescribed env kvs (GV.neg (.num m e) .smallerThanMinimum path) = true) := by
  refine ⟨?_, ?_, ?_, ?_⟩
  · intro n h
    have : maximumOk kvs (n + 1) 0 = false := by
      unfold maximumOk; simp only [h]
      have h1 : numLe (n + 1) 0 n 0 = false := by simp [numLe, pow10]; omega
      have h2 : numLt (n + 1) 0 n 0 = false := by simp [numLt, pow10]; omega
      split <;> simp [h1, h2]
    simp [violatesAsDescribed, GV.neg, this]
  · intro n h
    have : minimumOk kvs (n - 1) 0 = false := by
      unfold minimumOk; simp only [h]
      have h1 : numLe n 0 (n - 1) 0 = false := by simp [numLe, pow10]; omega
      have h2 : numLt n 0 (n - 1) 0 = false := by simp [numLt, pow10]; omega
      split <;> simp [h1, h2]
    simp [violatesAsDescribed, GV.neg, this]
  · intro m e h
    have : maximumOk kvs m e = false := by unfold maximumOk; simp [h, numLt_irrefl]
    simp [violatesAsDescribed, GV.neg, this]
  · intro m e h
    have : minimumOk kvs m e = false := by unfold minimumOk; simp [h, numLt_irrefl]
    simp [violatesAsDescribed, GV.neg, this]

/-- F7b witness: untyped `{maximum: 5, exclusiveMaximum: true}` — the snapshot emits the Python `True` as
    "Value greater than maximum"; the schema accepts it; it does not violate `maximum`. The repair emits no such value. -/
def kvsF7b : List (String × Json) := [("maximum", .num 5 0), ("exclusiveMaximum", .bool true)]
private def ctxN : Ctx := ⟨"body", false, true, []⟩
theorem F7b_boolean_emitted_witness :
    ((coverTop 3 { Vs.repaired with excl := .asFound } ctxN (.obj kvsF7b) { orc := [], seen := [] }).out.any fun gv =>
        gv.value == Json.bool true && gv.mode == .negative && validF 2 {} (.obj kvsF7b) gv.value &&
        !(violatesAsDescribed {} kvsF7b gv)) = true ∧
    ((coverTop 3 Vs.repaired ctxN (.obj kvsF7b) { orc := [], seen := [] }).out.all fun gv =>
        labelOk 2 {} (.obj kvsF7b) gv && violatesAsDescribed {} kvsF7b gv) = true := by
  decide

/-- non-vacuity of `cover_numeric_labels`: `{type: integer, minimum: 0, maximum: 3}` is a plain numeric schema, is
    satisfiable, and with six type draws the generator emits 4 positive and 8 negative values -/
def kvsOk : List (String × Json) := [("type", .str "integer"), ("minimum", .num 0 0), ("maximum", .num 3 0)]
private def orcOk : List Ans :=
  [.val (.num 5 1), .val (.bool false), .val .null, .val (.str ""), .val (.arr [.null, .null]), .val (.obj [])]
example : PlainNumeric kvsOk ∧ parseNumKw kvsOk = some ⟨some 0, some 3, none, none, none⟩ ∧
    validF 3 {} (.obj kvsOk) (.num 0 0) = true ∧
    ((coverTop 2 Vs.repaired ⟨"body", true, true, []⟩ (.obj kvsOk) { orc := orcOk, seen := [] }).out.map
      (·.mode)) = [.positive, .positive, .positive, .positive, .negative, .negative, .negative, .negative, .negative,
                   .negative, .negative, .negative] := by
  refine ⟨⟨?_, ⟨"integer", rfl, Or.inl rfl⟩, ?_, ⟨rfl, rfl, rfl, rfl, rfl, rfl, rfl, rfl⟩⟩, rfl, by decide, by decide⟩
  · intro k v h
    simp only [kvsOk, List.mem_cons, Prod.mk.injEq, List.mem_nil_iff, or_false] at h
    rcases h with ⟨rfl, rfl⟩ | ⟨rfl, rfl⟩ | ⟨rfl, rfl⟩ <;> rfl
  · intro k v h
    simp only [kvsOk, List.mem_cons, Prod.mk.injEq, List.mem_nil_iff, or_false] at h
    rcases h with ⟨rfl, rfl⟩ | ⟨rfl, rfl⟩ | ⟨rfl, rfl⟩ <;> simp

/-! ## strings: `_positive_string` -/

/-- Full statement for `_positive_string` (site `vl`: crossing guard of the boundary lengths, F34) -/
def positive_string_full (vl : Variant) : Prop :=
  ∀ (fuel : Nat) (env : Env) (_ : env.oas = Oas.none) (ctx : Ctx) (kvs : List (String × Json)) (mn0 mx : Option Nat),
    Json.lookup "$ref" kvs = none → lenKw? kvs "minLength" = some mn0 → lenKw? kvs "maxLength" = some mx →
    Sound (fun gv => labelOk (fuel + 1) env (.obj kvs) gv = true) (callSound (fuel + 1) env) (positiveString vl ctx kvs)

/-- C03 / strings, `_positive_string` with the crossing guard (the repair proposed for F34): on EVERY string schema
    (any length bounds, crossing or not, any pattern / format / other keywords next to them) every non-exempt value
    conforms to the schema — the derived requests `{**schema, "minLength": a, "maxLength": b}` only tighten the bounds,
    so an answer valid for the request (oracle contract) is valid for the schema. -/
theorem positive_string_valid : positive_string_full .repaired := by
  intro fuel env hoas ctx kvs mn0 mx href hmn hmx
  exact positive_string_sound .repaired fuel env hoas ctx kvs mn0 mx href hmn hmx (by intro h; cases h)

/-- the code as found: the same on schemas whose length bounds do not cross (minLength ≤ maxLength when both are present) -/
theorem positive_string_partial (vl : Variant) (fuel : Nat) (env : Env) (hoas : env.oas = Oas.none) (ctx : Ctx)
    (kvs : List (String × Json)) (mn0 mx : Option Nat) (href : Json.lookup "$ref" kvs = none)
    (hmn : lenKw? kvs "minLength" = some mn0) (hmx : lenKw? kvs "maxLength" = some mx)
    (hsat : vl = .asFound → ∀ a b, mn0 = some a → mx = some b → a ≤ b) :
    Sound (fun gv => labelOk (fuel + 1) env (.obj kvs) gv = true) (callSound (fuel + 1) env) (positiveString vl ctx kvs) :=
  positive_string_sound vl fuel env hoas ctx kvs mn0 mx href hmn hmx hsat

/-- F34 witness: `{type: string, minLength: 1, maxLength: 0}` — as found three requests are made and an oracle that
    honours its contract ("0" for length 1, "00" for length 2, "" for length 0) yields three strings the schema rejects,
    all labelled positive; with the guard no request is made. -/
def kvsF34 : List (String × Json) := [("type", .str "string"), ("minLength", .num 1 0), ("maxLength", .num 0 0)]
private def ctxB : Ctx := ⟨"body", true, false, []⟩
private def stF34 : St := { orc := [.val (.str "0"), .val (.str "00"), .val (.str "")], seen := [] }
theorem F34_crossing_lengths_witness :
    ((positiveString .asFound ctxB kvsF34 stF34).calls.all fun c =>
        match c.req, c.ans with | .schema s, .val v => validF 2 {} s v | _, _ => false) = true ∧
    ((positiveString .asFound ctxB kvsF34 stF34).out.map fun gv => (gv.desc, labelOk 2 {} (.obj kvsF34) gv)) =
      [(.minLengthString, false), (.nearBoundaryString, false), (.maxLengthString, false)] ∧
    (positiveString .repaired ctxB kvsF34 stF34).calls.isEmpty = true ∧
    (positiveString .repaired ctxB kvsF34 stF34).out = [] := by
  decide

theorem positive_string_full_false_asFound : ¬ positive_string_full .asFound := by
  intro h
  have hs := h 1 {} rfl ctxB kvsF34 (some 1) (some 0) rfl rfl rfl stF34
  have hcalls : ∀ c ∈ (positiveString .asFound ctxB kvsF34 stF34).calls, callSound 2 {} c := by
    intro c hc
    have h1 := (List.all_eq_true.1 F34_crossing_lengths_witness.1) c hc
    obtain ⟨req, ans⟩ := c
    cases req <;> cases ans <;> simp_all [callSound]
  have hall : ((positiveString .asFound ctxB kvsF34 stF34).out.all fun gv => labelOk 2 {} (.obj kvsF34) gv) = true := by
    simp only [List.all_eq_true]; exact hs hcalls
  revert hall; decide

/-- non-vacuity: `{type: string, minLength: 1, maxLength: 3}` meets the hypotheses and the generator makes four
    requests (lengths 1, 2, 3 and 2 again is de-duplicated: three values), the same in both variants -/
example : lenKw? [("type", .str "string"), ("minLength", .num 1 0), ("maxLength", .num 3 0)] "minLength" = some (some 1) ∧
    (∀ vl, ((positiveString vl ⟨"body", true, false, []⟩ [("type", .str "string"), ("minLength", .num 1 0), ("maxLength", .num 3 0)]
        { orc := [.val (.str "a"), .val (.str "ab"), .val (.str "abc")], seen := [] }).out.map (·.desc)) =
      [.minLengthString, .nearBoundaryString, .maxLengthString]) := by
  constructor
  · rfl
  · intro vl; cases vl <;> decide

/-! ## the other proposed-repair sites (modelled so that the correspondence follows the tree; no label theorem) -/

private def ctxPN : Ctx := ⟨"body", true, true, []⟩

/-- F35 witness: `additionalProperties: {}` accepts every extra property; as found the object with the unknown property
    is emitted as "Object with unexpected properties"; repaired (`value is False`): not emitted. -/
def kvsF35 : List (String × Json) :=
  [("type", .str "object"), ("properties", .obj [("a", .obj [("const", .num 1 0)])]), ("additionalProperties", .obj [])]
private def stF35 : St := { orc := [.val (.obj [("a", .num 1 0)])], seen := [] }
theorem F35_additionalProperties_schema_witness :
    ((negArm (fun _ _ => Gen.nil) .repaired .asFound .repaired (ctxN.at "additionalProperties") kvsF35 ["object"]
        "additionalProperties" (.obj []) stF35).out.map fun gv =>
          (gv.desc, gv.mode, validF 3 {} (.obj kvsF35) gv.value)) = [(.unexpectedProperties, .negative, true)] ∧
    (negArm (fun _ _ => Gen.nil) .repaired .repaired .repaired (ctxN.at "additionalProperties") kvsF35 ["object"]
        "additionalProperties" (.obj []) stF35).out = [] := by
  decide

/-- F40 witness: the schema `false` — as found the six "valid" values of `true` are emitted as positives; repaired: nothing -/
theorem F40_false_schema_witness :
    ((coverTop 2 { Vs.repaired with falseSchema := .asFound } ⟨"body", true, false, []⟩ (.bool false)
        { orc := [.val .null, .val .null, .val (.arr []), .val (.obj [])], seen := [] }).out.all fun gv =>
          gv.mode == .positive && !(validF 2 {} (.bool false) gv.value)) = true ∧
    ((coverTop 2 { Vs.repaired with falseSchema := .asFound } ⟨"body", true, false, []⟩ (.bool false)
        { orc := [.val .null, .val .null, .val (.arr []), .val (.obj [])], seen := [] }).out.length) = 7 ∧
    (coverTop 2 Vs.repaired ctxPN (.bool false) { orc := [], seen := [] }).out = [] := by
  decide

/-- F37 witness: `properties {a}, minProperties 1` with template `{a: 0}` — as found `{}` is emitted as
    "Object with only required properties"; repaired: it is not. -/
def kvsF37 : List (String × Json) :=
  [("type", .str "object"), ("properties", .obj [("a", .obj [("const", .num 0 0)])]), ("minProperties", .num 1 0)]
theorem F37_minProperties_witness :
    ((positiveObject .asFound (fun _ => Gen.nil) kvsF37 (.obj [("a", .num 0 0)]) { orc := [], seen := [] }).out.any fun gv =>
        gv.desc == .objectOnlyRequired && !(validF 3 {} (.obj kvsF37) gv.value)) = true ∧
    ((positiveObject .repaired (fun _ => Gen.nil) kvsF37 (.obj [("a", .num 0 0)]) { orc := [], seen := [] }).out.all fun gv =>
        validF 3 {} (.obj kvsF37) gv.value) = true := by
  decide

/-- F36 witness: `required: [a, zz]` with only `a` declared — as found the template schema requires `[a]`, repaired `[a, zz]` -/
def kvsF36 : List (String × Json) :=
  [("type", .str "object"), ("properties", .obj [("a", .obj [("type", .str "integer")])]), ("required", .arr [.str "a", .str "zz"])]
private def requiredIs (t : Option Json) (names : List String) : Bool :=
  match t with
  | some (.obj k) => (match Json.lookup "required" k with | some r => r == Json.arr (names.map Json.str) | none => false)
  | _ => false
theorem F36_template_required_witness :
    requiredIs (templateSchema .asFound 4 kvsF36 "object") ["a"] = true ∧
    requiredIs (templateSchema .repaired 4 kvsF36 "object") ["a", "zz"] = true := by
  decide

/-! ## cases: `_iter_coverage_cases` -/

/-- Full statement (C03_case_label + C03_components_consistent): whatever values cover_schema_iter handed over,
    every assembled case is labelled negative exactly when a part of it is negative / a required parameter was
    removed / a parameter was duplicated / the method is undocumented, and every component label is the label its
    container deserves. -/
def case_labels_full (v : Variant) : Prop :=
  ∀ (inp : OpIn) (cs : List Case), iterCases v inp = some cs → ∀ c ∈ cs, caseLabelOk c = true ∧ compsOk c = true

/-- C03 / cases, repaired `_iter_coverage_cases` (F8: the n-th body case takes the n-th value's mode): the full
    statement holds for every operation, mode set and value stream that is well-formed (`WF`: the first value of each
    generator is positive when positives are requested, all values negative otherwise). -/
theorem case_labels_repaired (inp : OpIn) (hwf : WF inp) (cs : List Case) (he : iterCases .repaired inp = some cs) :
    ∀ c ∈ cs, caseLabelOk c = true ∧ compsOk c = true :=
  iterCases_good inp hwf cs he

/-- The snapshot satisfies the same statement exactly when no body alternative mixes labels after its first value
    (then the F8 site is never exercised). -/
theorem case_labels_asFound_partial (inp : OpIn) (hwf : WF inp)
    (hbody : ∀ b ∈ inp.bodies, ∀ v rest, b.values = v :: rest → ∀ w ∈ rest, w.mode = v.mode)
    (cs : List Case) (he : iterCases .asFound inp = some cs) :
    ∀ c ∈ cs, caseLabelOk c = true ∧ compsOk c = true := by
  apply iterCases_good inp hwf cs
  have : iterCases .asFound inp = iterCases .repaired inp := by
    unfold iterCases
    simp only [fun t => bodyCases_asFound_eq inp.bodies t hbody]
  rw [← this]; exact he

/-- F8 witness: one body alternative yielding a positive then a negative value, modes {positive, negative}.
    Snapshot: the second case is labelled positive with a negative body component; repaired: fine. -/
def inpF8 : OpIn :=
  { params := [], hasBody := true,
    bodies := [⟨"application/json", [⟨.positive, .minimumValue, none⟩, ⟨.negative, .incorrectType, none⟩]⟩],
    methods := [], pos := true, neg := true, negCalls := [] }

theorem F8_body_label_witness :
    (match iterCases .asFound inpF8 with
     | some cs => cs.map (fun c => (c.mode, getAssoc Kind.body c.comps, caseLabelOk c))
     | none => []) = [(.positive, some .positive, true), (.positive, some .negative, false)] ∧
    (match iterCases .repaired inpF8 with
     | some cs => cs.all (fun c => caseLabelOk c && compsOk c)
     | none => false) = true := by
  decide

theorem case_labels_full_false_asFound : ¬ case_labels_full .asFound := by
  intro h
  have hall : (match iterCases .asFound inpF8 with
      | some cs => cs.all (fun c => caseLabelOk c && compsOk c) | none => true) = true := by
    cases hc : iterCases .asFound inpF8 with
    | none => rfl
    | some cs =>
      simp only [List.all_eq_true, Bool.and_eq_true]
      intro c hm; exact h inpF8 cs hc c hm
  revert hall
  decide

/-- F8b/F8c witness — the hypothesis `WF` of `case_labels_repaired` cannot be dropped: a required query parameter
    whose only value is negative (schema `{minimum: 5}`) next to an ordinary one; the repaired variant still labels
    the default case positive (component query negative) and `with_container` hides the negative template value. -/
def inpF8b : OpIn :=
  { params := [⟨"query", "n", true, [⟨.negative, .smallerThanMinimum, none⟩]⟩,
               ⟨"query", "r", false, [⟨.positive, .validBoolean, none⟩, ⟨.positive, .validBoolean, none⟩]⟩],
    hasBody := false, bodies := [], methods := [], pos := true, neg := false, negCalls := [] }

theorem case_labels_full_false_repaired : ¬ case_labels_full .repaired := by
  intro h
  have hall : (match iterCases .repaired inpF8b with
      | some cs => cs.all (fun c => caseLabelOk c && compsOk c) | none => true) = true := by
    cases hc : iterCases .repaired inpF8b with
    | none => rfl
    | some cs =>
      simp only [List.all_eq_true, Bool.and_eq_true]
      intro c hm; exact h inpF8b cs hc c hm
  revert hall
  decide

/-- non-vacuity of `case_labels_repaired`: a well-formed input (two query parameters, a body with mixed labels, both
    modes) produces 8 cases -/
def inpOk : OpIn :=
  { params := [⟨"query", "q", true, [⟨.positive, .minimumValue, none⟩, ⟨.negative, .incorrectType, none⟩]⟩,
               ⟨"query", "r", false, [⟨.positive, .validBoolean, none⟩]⟩],
    hasBody := true,
    bodies := [⟨"application/json", [⟨.positive, .minimumValue, none⟩, ⟨.negative, .incorrectType, none⟩]⟩],
    methods := ["GET"], pos := true, neg := true, negCalls := [[⟨.negative, .unexpectedProperties, none⟩]] }

example : WF inpOk ∧ (match iterCases .repaired inpOk with | some cs => cs.length | none => 0) = 9 := by
  refine ⟨⟨?_, ?_, ?_⟩, by decide⟩
  · intro p hp; simp [inpOk] at hp; rcases hp with rfl | rfl <;> decide
  · intro _
    constructor
    · intro p hp v rest hv; simp [inpOk] at hp; rcases hp with rfl | rfl <;> simp at hv <;> (obtain ⟨rfl, _⟩ := hv; rfl)
    · intro b hb v rest hv; simp [inpOk] at hb; subst hb; simp at hv; obtain ⟨rfl, _⟩ := hv; rfl
  · intro h; simp [inpOk] at h

/-! ## cases against the API description: undocumented methods, required parameters -/

private theorem toOpIn_some {x : DocIn} {item : PathItem} (hres : pathItemOf x.doc = some item) {inp : OpIn}
    (hin : toOpIn x = some inp) :
    inp.params = zipStreams (operationParameters item x.opMethod) x.streams ∧
    inp.methods = unexpectedMethods item x.cfg ∧ inp.neg = x.neg := by
  unfold toOpIn at hin
  rw [resolve_eq_pathItemOf, hres] at hin
  simp only at hin
  split at hin
  · simp only [Option.some.injEq] at hin; subst hin; exact ⟨rfl, rfl, rfl⟩
  · cases hin

private theorem undocumented_of_unexpected {x : DocIn} {item : PathItem} (hres : pathItemOf x.doc = some item)
    {m : String} (hm : m ∈ unexpectedMethods item x.cfg) : documents x.doc m = false := by
  have := (mem_unexpectedMethods item x.cfg m).mp hm
  simp only [documents, hres, this.2, Bool.and_false]

/-- C03 / cases, against the document.  For every API description (path item inline or behind a reference, any
    further fields in it, any set of operations, parameters declared at the path level, the operation level or both),
    every `unexpected_methods` configuration, every mode set and every well-formed value stream, each case the repaired
    `_iter_coverage_cases` produces
      * is labelled negative exactly when it is sent with a method the path does not document or one of its parts is
        negative / a parameter was removed / duplicated (`caseLabelOkDoc`; the document is read by `documents`, not by
        the code's operation map),
      * carries component labels that agree with its contents (`compsOk`),
      * says only true things about the document in its description (`descOkDoc`): 'Unspecified HTTP method: M' is
        sent with M and M is not documented; 'Missing p at loc' names a parameter the operation requires. -/
theorem case_labels_doc_repaired (x : DocIn) (item : PathItem) (hd : WFDoc x item) (inp : OpIn)
    (hin : toOpIn x = some inp) (hwf : WF inp) (cs : List Case) (he : iterCases .repaired inp = some cs) :
    ∀ c ∈ cs, caseLabelOkDoc x.doc x.opMethod c = true ∧ compsOk c = true ∧ descOkDoc x.doc x.opMethod c = true := by
  obtain ⟨hparams, hmethods, _⟩ := toOpIn_some hd.resolves hin
  intro c hc
  obtain ⟨hlabel, hcomps⟩ := iterCases_good inp hwf cs he c hc
  refine ⟨?_, hcomps, ?_⟩
  · rcases iterCases_shape .repaired inp cs he c hc with ⟨hnone, _, _⟩ | ⟨_, m, hm, hsome, _, hmode⟩
    · unfold caseLabelOk caseSpecNegative at hlabel
      unfold caseLabelOkDoc caseSpecNegativeDoc sentMethod partsNegative
      rw [hnone] at hlabel ⊢
      simpa [hd.opDocumented] using hlabel
    · rw [hmethods] at hm
      have hund := undocumented_of_unexpected hd.resolves hm
      unfold caseLabelOkDoc caseSpecNegativeDoc sentMethod
      simp [hsome, hund, hmode]
  · rcases iterCases_shape .repaired inp cs he c hc with ⟨_, hnm, hmiss⟩ | ⟨_, m, hm, hsome, hdesc, _⟩
    · unfold descOkDoc
      split
      · rename_i m hdm; exact absurd hdm (hnm m)
      · rename_i n l hdm
        obtain ⟨_, _, p, hp, rfl, rfl, hreq⟩ := hmiss _ _ hdm
        rw [hparams] at hp
        obtain ⟨d, hdmem, hn, hl, hr⟩ := mem_zipStreams _ _ p hp
        rw [hn, hl, required_of_operationParameters x.doc item hd.resolves x.opMethod hd.ownNoDup hd.sharedNoDup d hdmem,
          ← hr, hreq]
      · rfl
    · rw [hmethods] at hm
      have hund := undocumented_of_unexpected hd.resolves hm
      unfold descOkDoc sentMethod
      simp [hdesc, hsome, hund]

/-- Whatever the variant and whatever the value streams: a case described as 'Unspecified HTTP method: M' is sent with
    M, is labelled negative, and the path does not document M; every other case is sent with the operation's own
    method.  (In particular the operation's own method, being documented, is never presented as unspecified.) -/
theorem unspecified_method_is_undocumented (vb : Variant) (x : DocIn) (item : PathItem)
    (hres : pathItemOf x.doc = some item) (inp : OpIn) (hin : toOpIn x = some inp) (cs : List Case)
    (he : iterCases vb inp = some cs) :
    ∀ c ∈ cs, (c.method = none ∧ ∀ m, c.desc ≠ .unspecifiedMethod m) ∨
      ∃ m, c.method = some m ∧ c.desc = .unspecifiedMethod m ∧ c.mode = Mode.negative ∧ documents x.doc m = false := by
  obtain ⟨_, hmethods, _⟩ := toOpIn_some hres hin
  intro c hc
  rcases iterCases_shape vb inp cs he c hc with ⟨hnone, hnm, _⟩ | ⟨_, m, hm, hsome, hdesc, hmode⟩
  · exact Or.inl ⟨hnone, hnm⟩
  · rw [hmethods] at hm
    exact Or.inr ⟨m, hsome, hdesc, hmode, undocumented_of_unexpected hres hm⟩

/-- The 'Unspecified HTTP method' block is exact: when the configured methods are HTTP methods (the CLI admits nothing
    else), a method gets a case of its own if and only if negative cases are requested, the method is in the effective
    configuration (`None`/empty: the seven defaults) and the path does not document it. -/
theorem unspecified_method_cases_exact (vb : Variant) (x : DocIn) (item : PathItem)
    (hres : pathItemOf x.doc = some item) (hcfg : ∀ m ∈ effectiveUnexpected x.cfg, m ∈ httpMethods)
    (inp : OpIn) (hin : toOpIn x = some inp) (cs : List Case) (he : iterCases vb inp = some cs) (m : String) :
    (∃ c ∈ cs, c.method = some m) ↔ (x.neg = true ∧ m ∈ effectiveUnexpected x.cfg ∧ documents x.doc m = false) := by
  obtain ⟨_, hmethods, hneg⟩ := toOpIn_some hres hin
  constructor
  · rintro ⟨c, hc, hcm⟩
    rcases iterCases_shape vb inp cs he c hc with ⟨hnone, _, _⟩ | ⟨hn, m', hm', hsome, _, _⟩
    · rw [hnone] at hcm; cases hcm
    · rw [hsome] at hcm
      simp only [Option.some.injEq] at hcm
      subst hcm
      rw [hmethods] at hm'
      exact ⟨hneg ▸ hn, ((mem_unexpectedMethods item x.cfg _).mp hm').1, undocumented_of_unexpected hres hm'⟩
  · rintro ⟨hn, hm, hund⟩
    have hhttp : httpMethods.contains m = true := by simpa using hcfg m hm
    have hkeys : item.keys.contains m = false := by
      simp only [documents, hres, hhttp, Bool.true_and] at hund
      exact hund
    have hmem : m ∈ inp.methods := by
      rw [hmethods]; exact (mem_unexpectedMethods item x.cfg m).mpr ⟨hm, hkeys⟩
    obtain ⟨c, hc, hcm, _⟩ := iterCases_methods_complete vb inp cs he (hneg ▸ hn) m hmem
    exact ⟨c, hc, hcm⟩

/-- Whatever the variant and the value streams: a case described as 'Missing p at loc' names a parameter that the
    operation requires according to the description (own declaration first, else the path-level one). -/
theorem missing_case_names_required_parameter (vb : Variant) (x : DocIn) (item : PathItem) (hd : WFDoc x item)
    (inp : OpIn) (hin : toOpIn x = some inp) (cs : List Case) (he : iterCases vb inp = some cs) :
    ∀ c ∈ cs, ∀ n l, c.desc = .missing n l → requiresParam x.doc x.opMethod n l = true := by
  obtain ⟨hparams, _, _⟩ := toOpIn_some hd.resolves hin
  intro c hc n l hdm
  rcases iterCases_shape vb inp cs he c hc with ⟨_, _, hmiss⟩ | ⟨_, m, _, _, hdesc, _⟩
  · obtain ⟨_, _, p, hp, rfl, rfl, hreq⟩ := hmiss _ _ hdm
    rw [hparams] at hp
    obtain ⟨d, hdmem, hn, hl, hr⟩ := mem_zipStreams _ _ p hp
    rw [hn, hl, required_of_operationParameters x.doc item hd.resolves x.opMethod hd.ownNoDup hd.sharedNoDup d hdmem,
      ← hr, hreq]
  · rw [hdesc] at hdm; cases hdm

/-- non-vacuity: a description whose path item sits behind a reference, with a path-level required header that the
    operation overrides as optional, a further path-level required query parameter, two documented methods and a
    custom `unexpected_methods` (HEAD is not among the defaults) -/
def itemRef : PathItem :=
  { keys := ["summary", "parameters", "get", "post"],
    shared := [⟨"X-A", "header", true⟩, ⟨"q", "query", true⟩],
    own := [("get", []), ("post", [⟨"X-A", "header", false⟩])] }

def docRef : Doc := { entry := .ref "Users", pathItems := [("Other", ⟨["put"], [], []⟩), ("Users", itemRef)] }

def dinRef : DocIn :=
  { doc := docRef, opMethod := "post", cfg := some ["head", "get", "put"],
    streams := [[⟨.positive, .validString, none⟩], [⟨.positive, .minimumValue, none⟩, ⟨.negative, .incorrectType, none⟩]],
    hasBody := false, bodies := [], pos := true, neg := true, negCalls := [] }

/-- the reference is followed: POST and GET are documented, PUT and HEAD are not; the raw `paths` entry has no such keys -/
example : documents docRef "post" = true ∧ documents docRef "get" = true ∧ documents docRef "put" = false ∧
    documents docRef "head" = false ∧ documents docRef "parameters" = false ∧
    requiresParam docRef "post" "X-A" "header" = false ∧ requiresParam docRef "get" "X-A" "header" = true ∧
    requiresParam docRef "post" "q" "query" = true := by decide

example : WFDoc dinRef itemRef := ⟨rfl, by decide, by decide, by decide⟩

/-- 7 cases: default, one more value of `q`, HEAD and PUT (GET is documented behind the reference), duplicate `q`,
    missing `q` (the header is optional for POST), and 'only required' of the header block is absent (no required header) -/
example : (match toOpIn dinRef with
    | some inp => (match iterCases .repaired inp with
        | some cs => cs.map (fun c => (c.method, c.mode, c.desc.render))
        | none => [])
    | none => []) =
    [(none, .positive, "default-positive"), (none, .negative, "incorrect-type"),
     (some "head", .negative, "unspecified-method:head"), (some "put", .negative, "unspecified-method:put"),
     (none, .negative, "duplicate:q"), (none, .negative, "missing:q:query")] := by decide

/-! ## the consumers of the labels -/

/-- One case, any origin: if its label and its description are right for the document (`caseLabelOkDoc`, `descOkDoc`)
    and only 'Unspecified HTTP method' cases override the method, then on the response of a server that implements
    the description (`Conforms`: 405 + Allow for an undocumented method, a client error for a negative part, 2xx
    otherwise) none of `negative_data_rejection`, `positive_data_acceptance`, `unsupported_method` fails. -/
theorem consumers_pass_on_conforming_response (d : Doc) (opm : String) (c : Case) (r : Resp) (onlyAdditional : Bool)
    (hop : documents d opm = true) (hl : caseLabelOkDoc d opm c = true) (hd : descOkDoc d opm c = true)
    (hm : c.method.isSome = true → isUnexpectedMethodCase c = true) (hr : Conforms d opm c r) :
    negativeDataRejectionFails c r onlyAdditional = false ∧ positiveDataAcceptanceFails c r = false ∧
    unsupportedMethodFails c r = false := by
  unfold Conforms at hr
  by_cases hdoc : documents d (sentMethod opm c) = false
  · rw [if_pos hdoc] at hr
    have hu : isUnexpectedMethodCase c = true := by
      apply hm
      cases hcm : c.method with
      | none => simp [sentMethod, hcm, hop] at hdoc
      | some m => rfl
    simp [negativeDataRejectionFails, positiveDataAcceptanceFails, unsupportedMethodFails, hu, hr.1, hr.2]
  · rw [if_neg hdoc] at hr
    have hdoc' : documents d (sentMethod opm c) = true := by simpa using hdoc
    have hu : isUnexpectedMethodCase c = false := by
      unfold isUnexpectedMethodCase
      split
      · rename_i m hdm
        unfold descOkDoc at hd
        rw [hdm] at hd
        simp only [Bool.and_eq_true, beq_iff_eq, Bool.not_eq_true'] at hd
        rw [hd.1, hd.2] at hdoc'
        cases hdoc'
      · rfl
    unfold caseLabelOkDoc caseSpecNegativeDoc at hl
    rw [hdoc'] at hl
    by_cases hp : partsNegative c = true
    · rw [if_pos hp] at hr
      have hmode : c.mode = Mode.negative := by simpa [hp] using hl
      have hs : negativeAllowed r.status = true := by
        simp only [List.mem_cons, List.mem_nil_iff, or_false] at hr
        rcases hr with h | h | h <;> rw [h] <;> decide
      simp [negativeDataRejectionFails, positiveDataAcceptanceFails, unsupportedMethodFails, hu, hmode, hs]
    · rw [if_neg hp] at hr
      have hp' : partsNegative c = false := by simpa using hp
      have hmode : c.mode = Mode.positive := by
        cases hcm : c.mode with
        | positive => rfl
        | negative => simp [hcm, hp'] at hl
      have hs : positiveAllowed r.status = true := by
        simp [positiveAllowed, hr.1, hr.2]
      simp [negativeDataRejectionFails, positiveDataAcceptanceFails, unsupportedMethodFails, hu, hmode, hs]

/-- C03 / consumers: every case of the repaired `_iter_coverage_cases` (any description, configuration, mode set,
    well-formed value streams) passes the three label-driven checks on every response of a conforming server. -/
theorem coverage_cases_pass_on_conforming_server (x : DocIn) (item : PathItem) (hd : WFDoc x item) (inp : OpIn)
    (hin : toOpIn x = some inp) (hwf : WF inp) (cs : List Case) (he : iterCases .repaired inp = some cs) :
    ∀ c ∈ cs, ∀ (r : Resp) (onlyAdditional : Bool), Conforms x.doc x.opMethod c r →
      negativeDataRejectionFails c r onlyAdditional = false ∧ positiveDataAcceptanceFails c r = false ∧
      unsupportedMethodFails c r = false := by
  intro c hc r oa hr
  obtain ⟨hl, _, hdesc⟩ := case_labels_doc_repaired x item hd inp hin hwf cs he c hc
  refine consumers_pass_on_conforming_response x.doc x.opMethod c r oa hd.opDocumented hl hdesc ?_ hr
  intro hsome
  rcases unspecified_method_is_undocumented .repaired x item hd.resolves inp hin cs he c hc with ⟨hnone, _⟩ | ⟨m, _, hdm, _⟩
  · rw [hnone] at hsome; cases hsome
  · simp [isUnexpectedMethodCase, hdm]

/-- Why the description has to be true: a case presented as 'Unspecified HTTP method' makes `unsupported_method`
    fail on every response that is not 405 + Allow — for a documented method, on every correct response. -/
theorem unsupported_method_fails_unless_405 (c : Case) (r : Resp) (m : String) (hdesc : c.desc = .unspecifiedMethod m)
    (hreq : r.requestMethod ≠ "OPTIONS") (hs : r.status ≠ 405) : unsupportedMethodFails c r = true := by
  simp [unsupportedMethodFails, isUnexpectedMethodCase, hdesc, hreq, hs]

/-- Full statement for `missing_required_header`: it complains only about cases from which a header the operation
    requires was removed. -/
def missing_required_header_full (vh : Variant) : Prop :=
  ∀ (vb : Variant) (x : DocIn) (item : PathItem), WFDoc x item → ∀ (inp : OpIn), toOpIn x = some inp →
    ∀ (cs : List Case), iterCases vb inp = some cs → ∀ c ∈ cs, ∀ (r : Resp) (allowed : List Nat),
      missingRequiredHeaderFails vh c r allowed = true →
        ∃ n, c.desc = .missing n "header" ∧ requiresParam x.doc x.opMethod n "header" = true

private theorem mrh_of_desc_missing (vb : Variant) (x : DocIn) (item : PathItem) (hd : WFDoc x item) (inp : OpIn)
    (hin : toOpIn x = some inp) (cs : List Case) (he : iterCases vb inp = some cs) (c : Case) (hc : c ∈ cs)
    (n l : String) (hdm : c.desc = .missing n l) (hloc : c.parameterLocation = some "header") :
    ∃ n, c.desc = .missing n "header" ∧ requiresParam x.doc x.opMethod n "header" = true := by
  have hreq := missing_case_names_required_parameter vb x item hd inp hin cs he c hc n l hdm
  rcases iterCases_shape vb inp cs he c hc with ⟨_, _, hmiss⟩ | ⟨_, m, _, _, hdesc, _⟩
  · obtain ⟨_, hpl, _⟩ := hmiss n l hdm
    rw [hpl] at hloc
    simp only [Option.some.injEq] at hloc
    subst hloc
    exact ⟨n, hdm, hreq⟩
  · rw [hdesc] at hdm; cases hdm

/-- C03 / consumers, `missing_required_header` reading only 'Missing `name` at location' (proposed repair of FC03a). -/
theorem missing_required_header_repaired : missing_required_header_full .repaired := by
  intro vb x item hd inp hin cs he c hc r allowed hf
  simp only [missingRequiredHeaderFails, Bool.and_eq_true, beq_iff_eq] at hf
  obtain ⟨⟨⟨⟨_, _⟩, hloc⟩, hread⟩, _⟩ := hf
  cases hdm : c.desc with
  | missing n l =>
    obtain ⟨n', h1, h2⟩ := mrh_of_desc_missing vb x item hd inp hin cs he c hc n l hdm hloc
    exact ⟨n', by rw [← hdm]; exact h1, h2⟩
  | value dd =>
    rw [hdm] at hread
    cases dd <;> simp [descReadAsMissing] at hread
  | _ => rw [hdm] at hread; simp [descReadAsMissing] at hread

/-- The check as found: the same, for every case that is not a value-level 'Missing required property …' case. -/
theorem missing_required_header_partial (vb : Variant) (x : DocIn) (item : PathItem) (hd : WFDoc x item) (inp : OpIn)
    (hin : toOpIn x = some inp) (cs : List Case) (he : iterCases vb inp = some cs) :
    ∀ c ∈ cs, (∀ p, c.desc ≠ .value (.missingRequired p)) → ∀ (r : Resp) (allowed : List Nat),
      missingRequiredHeaderFails .asFound c r allowed = true →
        ∃ n, c.desc = .missing n "header" ∧ requiresParam x.doc x.opMethod n "header" = true := by
  intro c hc hnot r allowed hf
  simp only [missingRequiredHeaderFails, Bool.and_eq_true, beq_iff_eq] at hf
  obtain ⟨⟨⟨⟨_, _⟩, hloc⟩, hread⟩, _⟩ := hf
  cases hdm : c.desc with
  | missing n l =>
    obtain ⟨n', h1, h2⟩ := mrh_of_desc_missing vb x item hd inp hin cs he c hc n l hdm hloc
    exact ⟨n', by rw [← hdm]; exact h1, h2⟩
  | value dd =>
    rw [hdm] at hread
    cases dd with
    | missingRequired p => exact absurd hdm (hnot p)
    | _ => simp [descReadAsMissing] at hread
  | _ => rw [hdm] at hread; simp [descReadAsMissing] at hread

/-- FC03a witness: a required header `X-Obj` with an object schema; its value stream holds the negative value
    'Missing required property: a' — the header is sent, `{}` lacks `a`.  A server answering 400 to that request is taken
    to task by `missing_required_header` (allowed: 406) although no header is missing. -/
def dinFC03a : DocIn :=
  { doc := { entry := .inline ⟨["get"], [], [("get", [⟨"X-Obj", "header", true⟩])]⟩, pathItems := [] },
    opMethod := "get", cfg := none,
    streams := [[⟨.positive, .validObject, none⟩, ⟨.negative, .missingRequired "a", none⟩]],
    hasBody := false, bodies := [], pos := true, neg := true, negCalls := [] }

theorem FC03a_missing_property_read_as_missing_header :
    (match toOpIn dinFC03a with
     | some inp => (match iterCases .repaired inp with
        | some cs => cs.filterMap fun c =>
            if missingRequiredHeaderFails .asFound c ⟨400, false, "GET"⟩ [406] then
              some (c.desc.render, missingRequiredHeaderFails .repaired c ⟨400, false, "GET"⟩ [406])
            else none
        | none => [])
     | none => []) = [("missing-required:a", false), ("missing:X-Obj:header", true)] := by
  decide

theorem missing_required_header_full_false_asFound : ¬ missing_required_header_full .asFound := by
  intro h
  have hwf : WFDoc dinFC03a ⟨["get"], [], [("get", [⟨"X-Obj", "header", true⟩])]⟩ := ⟨rfl, by decide, by decide, by decide⟩
  cases hin : toOpIn dinFC03a with
  | none => revert hin; decide
  | some inp =>
    cases hcs : iterCases .repaired inp with
    | none => revert hcs; rw [show inp = (toOpIn dinFC03a).get (by decide) from by simp [hin]]; decide
    | some cs =>
      have key : (cs.all fun c => !missingRequiredHeaderFails .asFound c ⟨400, false, "GET"⟩ [406] ||
          (match c.desc with | .missing _ "header" => true | _ => false)) = true := by
        rw [List.all_eq_true]
        intro c hc
        by_cases hf : missingRequiredHeaderFails .asFound c ⟨400, false, "GET"⟩ [406] = true
        · obtain ⟨n, hdm, _⟩ := h .repaired dinFC03a _ hwf inp hin cs hcs c hc _ _ hf
          simp [hdm]
        · simp [hf]
      have : cs = (iterCases .repaired ((toOpIn dinFC03a).get (by decide))).get (by decide) := by
        have : inp = (toOpIn dinFC03a).get (by decide) := by simp [hin]
        subst this
        simp [hcs]
      rw [this] at key
      revert key
      decide

/-- non-vacuity of the conforming-server statement: the cases of `dinRef` against three responses -/
example : (match toOpIn dinRef with
    | some inp => (match iterCases .repaired inp with
        | some cs => cs.map fun c =>
            (decide (Conforms docRef "post" c ⟨200, false, "POST"⟩), decide (Conforms docRef "post" c ⟨400, false, "POST"⟩),
             decide (Conforms docRef "post" c ⟨405, true, "PUT"⟩))
        | none => [])
    | none => []) =
    [(true, false, false), (false, true, false), (false, false, true), (false, false, true), (false, true, false),
     (false, true, false)] := by decide

end SV.Props.C03
