/-
  C03 — coverage-phase cases carry labels that match their content.  Property theorems only.
  (helper lemmas: SV/Proofs/C03.lean; model: SV/Model/C03.lean; reference predicates: SV/Spec/C03.lean +
  the shared JSON-Schema semantics SV/Spec/JsonSchema.lean)
-/
import SV.Proofs.C03

namespace SV.Props.C03
open SV SV.Spec.JsonSchema SV.Model.C03 SV.Spec.C03 SV.Proofs.C03

/-! ## numbers: `_positive_number` -/

/-- Full statement for `_positive_number`: whatever the schema, every emitted value's label matches its content
    (oracle answers assumed valid for the schema they were requested for). -/
def positive_number_full (vz vx : Variant) : Prop :=
  ∀ (fuel : Nat) (env : Env) (kvs : List (String × Json)),
    Sound (fun gv => labelOk (fuel + 1) env (.obj kvs) gv = true) (callSound (fuel + 1) env) (positiveNumber vz vx kvs)

/-- C03 / numbers, repaired generator (`is None` tests, draft-4 booleans read as flags, exclusive and inclusive
    bounds combined): on every satisfiable integer/number schema over the numeric keyword family, every value
    emitted by `_positive_number` that is not a copied example/default conforms to the schema. -/
theorem positive_number_valid (fuel : Nat) (env : Env) (kvs : List (String × Json)) (k : NumKw)
    (hparse : parseNumKw kvs = some k)
    (htype : Json.lookup "type" kvs = some (.str "integer") ∨ Json.lookup "type" kvs = some (.str "number"))
    (hplain : plainKeys kvs)
    (hpos : ∀ x, k.multipleOf = some x → 0 < x)
    (hsat : ∃ n0 : Int, validF (fuel + 1) env (.obj kvs) (.num n0 0) = true) :
    Sound (fun gv => labelOk (fuel + 1) env (.obj kvs) gv = true) (callSound (fuel + 1) env)
      (positiveNumber .repaired .repaired kvs) :=
  positive_number_valid_of .repaired .repaired fuel env kvs k rfl hparse htype hplain hpos hsat

/-- Whatever mix of repairs a tree carries: `_positive_number` is sound away from the defect sites it still has —
    F7 (site `vx`): no exclusive bound that the snapshot misreads (`effMin/effMax` agree with the repaired reading);
    F6 (site `vz`, `not maximum`): an effective maximum that is not 0. -/
theorem positive_number_partial (vz vx : Variant) (fuel : Nat) (env : Env) (kvs : List (String × Json)) (k : NumKw)
    (hparse : parseNumKw kvs = some k)
    (htype : Json.lookup "type" kvs = some (.str "integer") ∨ Json.lookup "type" kvs = some (.str "number"))
    (hplain : plainKeys kvs)
    (hpos : ∀ x, k.multipleOf = some x → 0 < x)
    (hsat : ∃ n0 : Int, validF (fuel + 1) env (.obj kvs) (.num n0 0) = true)
    (hmin : vx = .asFound → effMin .asFound k = effMin .repaired k)
    (hmax : vx = .asFound → effMax .asFound k = effMax .repaired k)
    (hzero : vz = .asFound → effMax .repaired k ≠ some 0) :
    Sound (fun gv => labelOk (fuel + 1) env (.obj kvs) gv = true) (callSound (fuel + 1) env)
      (positiveNumber vz vx kvs) := by
  apply positive_number_valid_of vz vx fuel env kvs k _ hparse htype hplain hpos hsat
  have hmn : effMin vx k = effMin .repaired k := by cases vx <;> simp_all
  have hmx : effMax vx k = effMax .repaired k := by cases vx <;> simp_all
  have : numLower vz (effMin .repaired k) (effMax .repaired k) k.multipleOf =
         numLower .repaired (effMin .repaired k) (effMax .repaired k) k.multipleOf := by
    cases vz with
    | repaired => rfl
    | asFound =>
      unfold numLower
      cases hmx' : effMax .repaired k with
      | none => simp [isAbsent]
      | some m =>
        have : m ≠ 0 := by intro h; subst h; exact hzero rfl hmx'
        simp [isAbsent, this]
  simp only [numBoundary, hmn, hmx, this]

/-! ### witnesses (replayed on the real code by the harness) -/

private def st0 : St := { orc := [.val (.num 0 0)], seen := [] }
private def badPositive (v : Variant) (kvs : List (String × Json)) (n : Int) : Bool :=
  ((positiveNumber v v kvs st0).out.any fun gv =>
    gv.value == Json.num n 0 && gv.mode == .positive && !(labelOk 2 {} (.obj kvs) gv))

/-- F6: `minimum = maximum = 0` — the snapshot emits 1 as a positive "Near-boundary number"; the repair does not. -/
def kvsF6 : List (String × Json) := [("type", .str "integer"), ("minimum", .num 0 0), ("maximum", .num 0 0)]
theorem F6_zero_bound_witness : badPositive .asFound kvsF6 1 = true ∧
    ((positiveNumber .repaired .repaired kvsF6 st0).out.all fun gv => labelOk 2 {} (.obj kvsF6) gv) = true := by
  decide

/-- F7: draft-4 `exclusiveMinimum: true` next to `minimum: 5` — the snapshot computes `True + 1` and emits 2 -/
def kvsF7 : List (String × Json) := [("type", .str "integer"), ("minimum", .num 5 0), ("exclusiveMinimum", .bool true)]
theorem F7_boolean_exclusive_witness : badPositive .asFound kvsF7 2 = true ∧
    ((positiveNumber .repaired .repaired kvsF7 st0).out.all fun gv => labelOk 2 {} (.obj kvsF7) gv) = true := by
  decide

/-- F7 (numeric form): `exclusiveMinimum: 3` makes the snapshot forget `minimum: 10` and emit 4 -/
def kvsF7n : List (String × Json) := [("type", .str "integer"), ("minimum", .num 10 0), ("exclusiveMinimum", .num 3 0)]
theorem F7_numeric_exclusive_witness : badPositive .asFound kvsF7n 4 = true ∧
    ((positiveNumber .repaired .repaired kvsF7n st0).out.all fun gv => labelOk 2 {} (.obj kvsF7n) gv) = true := by
  decide

theorem positive_number_full_false_asFound : ¬ positive_number_full .asFound .asFound := by
  intro h
  have hc : (positiveNumber .asFound .asFound kvsF7 st0).calls = [] := by rfl
  have := h 1 {} kvsF7 st0 (by rw [hc]; intro c h; cases h)
  revert this
  decide

/-- The full statement also fails for the repaired generator, but only on schemas no number satisfies
    (`minimum: 1, maximum: 2, multipleOf: 3` → 3 is emitted as "Minimum value"). -/
def kvsUnsat : List (String × Json) :=
  [("type", .str "integer"), ("minimum", .num 1 0), ("maximum", .num 2 0), ("multipleOf", .num 3 0)]
theorem positive_number_full_false_repaired : ¬ positive_number_full .repaired .repaired := by
  intro h
  have hc : (positiveNumber .repaired .repaired kvsUnsat st0).calls = [] := by rfl
  have := h 1 {} kvsUnsat st0 (by rw [hc]; intro c h; cases h)
  revert this
  decide

/-- non-vacuity of `positive_number_valid`: hypotheses met by `{type: integer, minimum: -1, maximum: 4, multipleOf: 2}`
    and the generator emits four values -/
example : ∃ kvs k, parseNumKw kvs = some k ∧ Json.lookup "type" kvs = some (.str "integer") ∧
    (∀ x, k.multipleOf = some x → 0 < x) ∧ validF 2 {} (.obj kvs) (.num 0 0) = true ∧
    ((positiveNumber .repaired .repaired kvs st0).out.map (·.value.int?)) = [some 0, some 2, some 4] :=
  ⟨[("type", .str "integer"), ("minimum", .num (-1) 0), ("maximum", .num 4 0), ("multipleOf", .num 2 0)],
   ⟨some (-1), some 4, none, none, some 2⟩, by rfl, by rfl, by intro x h; cases h; decide, by decide, by decide⟩

end SV.Props.C03
