/-
  C04 — response conformance checks agree with the API documentation.  Property theorems only
  (definitions: SV/Model/C04.lean, SV/Spec/C04.lean; helper lemmas: SV/Proofs/C04.lean).

  `V schema instance` is JSON-Schema validity (third-party `jsonschema` behind the OpenAPI→JSON-Schema conversion);
  every theorem holds for EVERY `V`.  Theorems ending in `_repaired` are about the proposed repairs of the four
  defect sites, `_asFound_partial` about the pinned code on the sub-domain where it is right, `asFound_*` witnesses
  refute the full statement for the pinned code (replayed on the real code by harness/corr/c04.py).
-/
import SV.Proofs.C04

namespace SV.Props.C04
open SV SV.Model.C04 SV.Spec.C04 SV.Proofs.C04

/-! ## status keys: `expand_status_code` -/

/-- For every key made of digits and `X`/`x` (any length ≥ 1) `expand_status_code` does not raise. -/
theorem expand_total (k : List Char) (hk : k.all (fun c => c.isDigit || isX c) = true) (hne : k ≠ []) :
    ∃ l, expandStatusCode k = some l :=
  ⟨_, expand_eq k hk hne⟩

/-- `n ∈ expand_status_code(k)` iff `k` covers `n` arithmetically (least significant digit first: each position is
    `X` or the corresponding decimal digit of `n`, and nothing of `n` is left over) — for every key string over
    digits and `X`/`x` of any length, and for `default`. -/
theorem expand_mem (k : List Char) (hk : keyWf k = true) (n : Nat) : keyCovers k n = keyMatches k n :=
  keyCovers_eq_wf k hk n

/-- `2XX` covers exactly 200‥299. -/
theorem expand_2XX (n : Nat) : keyCovers "2XX".toList n = true ↔ 200 ≤ n ∧ n ≤ 299 := by
  rw [expand_mem _ (by decide)]
  have e : "2XX".toList = ['2', 'X', 'X'] := by decide
  rw [e]
  simp only [keyMatches, List.isEmpty_cons, Bool.not_false, Bool.true_and, List.reverse_cons, List.reverse_nil,
    List.nil_append, List.cons_append, matchRev]
  have h1 : isX 'X' = true := by decide
  have h2 : isX '2' = false := by decide
  have h3 : Char.isDigit '2' = true := by decide
  have h4 : digitVal '2' = 2 := by decide
  simp only [h1, h2, h3, h4, Bool.true_or, Bool.true_and, Bool.false_or, Bool.and_eq_true, beq_iff_eq]
  omega

/-- `str(status)` is always a key that covers `status`. -/
theorem explicit_key_covers (n : Nat) : keyMatches (digitsOf n) n = true := (digitsOf_spec n).2.2

/-- `default` is not a range key. -/
theorem default_is_no_range (n : Nat) : keyCovers defaultKey n = false ∧ keyMatches defaultKey n = false :=
  ⟨default_not_covered n, default_not_matched n⟩

/-! ## status_code_conformance -/

/-- `status_code_conformance` raises `UndefinedStatusCode` iff neither an explicit key, nor a range key, nor
    `default` documents the status — and otherwise passes; it never crashes on well-formed keys. -/
theorem status_exact (doc : Doc) (r : Resp) (hk : keysWf doc = true) :
    statusCheck doc r = if devStatus doc r then .ok [.undefinedStatus] else .ok [] :=
  SV.Proofs.C04.status_exact doc r hk

/-- The repaired lookup used by the other three checks is the documented order explicit > range > default. -/
theorem lookup_repaired (doc : Doc) (hk : keysWf doc = true) (n : Nat) :
    lookupDef .repaired doc n = specLookup doc n :=
  lookup_repaired_eq_spec doc hk n

/-- The lookup as found (explicit key or `default` only) is right exactly when no range key is the only match. -/
theorem lookup_asFound_partial (doc : Doc) (n : Nat) (hk : keysWf doc = true) (hr : noRangeOnly doc n = true) :
    lookupDef .asFound doc n = specLookup doc n :=
  lookup_asFound_eq_spec doc n hk hr

/-! ## media types -/

/-- `media_types.parse` (with `_parseparam`'s quote bookkeeping) is the plain reading "text before the first `;`,
    trimmed, split at the first `/`, lower-cased" whenever no `"` precedes the first `;`. -/
theorem parse_plain (s : List Char) (hp : plainMedia s = true) : parseMedia s = refParse s :=
  parse_eq_refParse s hp

/-- `parse` raises exactly when its key has no `/`. -/
theorem parse_none_iff (s : List Char) : parseMedia s = none ↔ (headerKey s).contains '/' = false := by
  unfold parseMedia
  rw [← splitFirst_none]
  cases splitFirst '/' (headerKey s) <;> simp

/-- Parameters are ignored: `type/subtype;anything` parses like `type/subtype` (no `;` or `"` in `type/subtype`). -/
theorem parse_params_ignored (mt rest : List Char) (h1 : mt.contains ';' = false) (h2 : mt.contains '"' = false) :
    parseMedia (mt ++ ';' :: rest) = parseMedia mt := by
  have htw : ∀ (l : List Char), l.contains ';' = false → ∀ tl, (l ++ ';' :: tl).takeWhile (· != ';') = l := by
    intro l
    induction l with
    | nil => intro _ tl; simp
    | cons c l ih =>
      intro h tl
      simp only [List.contains_cons, Bool.or_eq_false_iff] at h
      have hc : (c != ';') = true := by
        have : c ≠ ';' := by intro e; subst e; simp at h
        simpa using this
      simp [hc, ih h.2 tl]
  have htw' : ∀ (l : List Char), l.contains ';' = false → l.takeWhile (· != ';') = l := by
    intro l
    induction l with
    | nil => intro _; rfl
    | cons c l ih =>
      intro h
      simp only [List.contains_cons, Bool.or_eq_false_iff] at h
      have hc : (c != ';') = true := by
        have : c ≠ ';' := by intro e; subst e; simp at h
        simpa using this
      simp [hc, ih h.2]
  have p1 : plainMedia (mt ++ ';' :: rest) = true := by
    unfold plainMedia; rw [htw mt h1 rest]; simpa using h2
  have p2 : plainMedia mt = true := by
    unfold plainMedia; rw [htw' mt h1]; simpa using h2
  rw [parse_eq_refParse _ p1, parse_eq_refParse _ p2]
  unfold refParse
  rw [htw mt h1 rest, htw' mt h1]

/-- The four-way test of `content_type_conformance` is coverage `(m = * ∨ m = m') ∧ (s = * ∨ s = s')`. -/
theorem rangeMatch_covers (e r : List Char × List Char) : rangeMatch e r = covers e r :=
  rangeMatch_eq_covers e r

/-! ## the three checks that depend on the lookup, repaired variants: exact for every document and response -/

theorem content_type_exact_repaired (vs : Variants) (doc : Doc) (r : Resp) (hv : vs.lookup = .repaired)
    (hk : keysWf doc = true) (hm : docMediaWf doc = true) (hp : respMediaPlain r = true) :
    (contentTypeCheck vs doc r).reports = devContentType doc r :=
  content_type_core vs doc r (by rw [hv]; exact lookup_repaired_eq_spec doc hk _) hm hp

theorem headers_exact_repaired (V : Json → Json → Bool) (vs : Variants) (doc : Doc) (r : Resp)
    (hv : vs.lookup = .repaired) (hh : vs.hdrRef = .repaired) (hk : keysWf doc = true) :
    (headersCheck V vs doc r).reports = devHeaders V doc r :=
  headers_core V vs doc r (by rw [hv]; exact lookup_repaired_eq_spec doc hk _) (by intro _ _ _ _; rw [hh]; rfl)

theorem body_exact_repaired (V : Json → Json → Bool) (vs : Variants) (doc : Doc) (r : Resp)
    (hv : vs.lookup = .repaired) (hmv : vs.media = .repaired) (hk : keysWf doc = true) (hm : docMediaWf doc = true)
    (ct : List Char) (rc : List Char × List Char)
    (hct : r.contentType = some ct) (hp : plainMedia ct = true) (hrc : refParse ct = some rc) :
    (bodyCheck V vs doc r).reports = devBody V doc r ∧ (bodyCheck V vs doc r).isError = false :=
  body_core V vs doc r (by rw [hv]; exact lookup_repaired_eq_spec doc hk _) ct rc hct hp hrc
    (fun d hd => by rw [hmv]; exact selectSchema_repaired doc d r ct rc hct hp hrc (content_wf doc _ d hm hd))

/-- C04 for the repaired code: for every validity oracle, every well-formed document and every response (any
    status, Content-Type present/absent/unreadable, any headers, JSON or malformed body) the four checks together
    report a failure iff the response deviates from the documentation, and no exception escapes. -/
theorem verdict_repaired (V : Json → Json → Bool) (doc : Doc) (r : Resp)
    (hk : keysWf doc = true) (hm : docMediaWf doc = true) (hp : respMediaPlain r = true)
    (hw : producesWf doc = true) :
    (runAll V Variants.allRepaired doc r).reports = deviates V doc r ∧
      (runAll V Variants.allRepaired doc r).isError = false :=
  SV.Proofs.C04.verdict_repaired V doc r hk hm hp hw

/-! ## the code as found -/

/-- C04 for the code as found holds on the sub-domain: the status is documented explicitly or by no range key,
    every response documents at most one media type, no required header is documented through `$ref`, and the
    Content-Type is absent, empty or readable. -/
theorem verdict_asFound_partial (V : Json → Json → Bool) (doc : Doc) (r : Resp)
    (hk : keysWf doc = true) (hm : docMediaWf doc = true) (hp : respMediaPlain r = true)
    (hw : producesWf doc = true)
    (h1 : noRangeOnly doc r.status = true) (h2 : singleMedia doc = true) (h3 : noRequiredRefHeader doc = true)
    (h4 : ctNoCrash r = true) :
    (runAll V Variants.allAsFound doc r).reports = deviates V doc r ∧
      (runAll V Variants.allAsFound doc r).isError = false :=
  SV.Proofs.C04.verdict_asFound_partial V doc r hk hm hp hw h1 h2 h3 h4

/-! ### witnesses: each dropped hypothesis is necessary (kernel-checked; replayed on the real code by the harness) -/

/-- F11 (i): 200 text/plain without X-Rate against a `2XX`-only document passes every check as found (all three
    lookup-dependent aspects deviate); the repaired checks report it. -/
theorem asFound_range_only_miss :
    let r : Resp := ⟨200, some "text/plain".toList, [], some (.obj [])⟩
    runAll V0 Variants.allAsFound docRange r = .ok [] ∧
    devContentType docRange r = true ∧ devHeaders V0 docRange r = true ∧
    runAll V0 Variants.allRepaired docRange r = .ok [.undefinedContentType, .missingHeaders] := by
  decide

/-- F11 (i), body: 200 application/json `{}` (required `id` missing) against the `2XX`-only document passes. -/
theorem asFound_range_only_body_miss :
    let r : Resp := ⟨200, some "application/json".toList, [("x-rate".toList, "1".toList)], some (.obj [])⟩
    runAll V0 Variants.allAsFound docRange r = .ok [] ∧ devBody V0 docRange r = true ∧
    runAll V0 Variants.allRepaired docRange r = .ok [.bodySchema] := by
  decide

/-- F11 (ii), false alarm: a conforming JSON object is validated against the XML media type's schema. -/
theorem asFound_first_media_false_alarm :
    let r : Resp := ⟨200, some "application/json".toList, [], some idOne⟩
    runAll V0 Variants.allAsFound docTwoMedia r = .ok [.bodySchema] ∧ deviates V0 docTwoMedia r = false ∧
    runAll V0 Variants.allRepaired docTwoMedia r = .ok [] := by
  decide

/-- F11 (ii), miss: the JSON string "x" violates the JSON media type's schema and passes. -/
theorem asFound_first_media_miss :
    let r : Resp := ⟨200, some "application/json".toList, [], some (.str "x")⟩
    runAll V0 Variants.allAsFound docTwoMedia r = .ok [] ∧ devBody V0 docTwoMedia r = true ∧
    runAll V0 Variants.allRepaired docTwoMedia r = .ok [.bodySchema] := by
  decide

/-- a required header documented through `$ref` may be missing -/
theorem asFound_ref_header_miss :
    let r : Resp := ⟨200, none, [], none⟩
    runAll V0 Variants.allAsFound docRefHeader r = .ok [] ∧ devHeaders V0 docRefHeader r = true ∧
    runAll V0 Variants.allRepaired docRefHeader r = .ok [.missingHeaders] := by
  decide

/-- a malformed Content-Type crashes the schema check (and with it `run_checks`) instead of being reported -/
theorem asFound_malformed_content_type_crash :
    let r : Resp := ⟨200, some "garbage".toList, [], some idOne⟩
    bodyCheck V0 Variants.allAsFound docJson r = .error ∧ runAll V0 Variants.allAsFound docJson r = .error ∧
    deviates V0 docJson r = true ∧
    runAll V0 Variants.allRepaired docJson r = .ok [.malformedMediaType] := by
  decide

/-- The full statement is false for the code as found: well-formedness alone does not give the equivalence. -/
theorem verdict_asFound_full_false :
    ¬ ∀ (V : Json → Json → Bool) (doc : Doc) (r : Resp), keysWf doc = true → docMediaWf doc = true →
        respMediaPlain r = true → producesWf doc = true →
        (runAll V Variants.allAsFound doc r).reports = deviates V doc r := by
  intro h
  have := h V0 docTwoMedia ⟨200, some "application/json".toList, [], some idOne⟩ (by decide) (by decide) (by decide)
    (by decide)
  revert this
  decide

/-! ### non-vacuity: the hypotheses are met by concrete non-trivial documents / responses -/

example : keysWf docRange = true ∧ docMediaWf docRange = true ∧ producesWf docRange = true ∧
    respMediaPlain ⟨200, some "text/plain".toList, [], some (.obj [])⟩ = true := by decide

/-- `verdict_asFound_partial` is not vacuous: all hypotheses hold and the response deviates (body). -/
example :
    let r : Resp := ⟨200, some "application/json; charset=utf-8".toList, [], some (.obj [])⟩
    keysWf docJson = true ∧ docMediaWf docJson = true ∧ respMediaPlain r = true ∧ producesWf docJson = true ∧
    noRangeOnly docJson r.status = true ∧ singleMedia docJson = true ∧ noRequiredRefHeader docJson = true ∧
    ctNoCrash r = true ∧ deviates V0 docJson r = true ∧
    runAll V0 Variants.allAsFound docJson r = .ok [.bodySchema] := by decide

example : keyWf "20x".toList = true ∧ keyMatches "20x".toList 204 = true ∧ keyMatches "20x".toList 214 = false := by
  decide

example : plainMedia "Application/JSON ; charset=\"a;b\"".toList = true ∧
    parseMedia "Application/JSON ; charset=\"a;b\"".toList = some ("application".toList, "json".toList) := by decide

example : parseMedia "application/json;charset=utf-8".toList = parseMedia "application/json".toList := by decide

/-- `body_exact_repaired` is not vacuous: a readable JSON Content-Type, and the body aspect deviates -/
example :
    let r : Resp := ⟨204, some "application/json".toList, [("x-rate".toList, "7".toList)], some (.obj [])⟩
    keysWf docRange = true ∧ docMediaWf docRange = true ∧ plainMedia "application/json".toList = true ∧
    refParse "application/json".toList = some ("application".toList, "json".toList) ∧
    devBody V0 docRange r = true ∧ bodyCheck V0 Variants.allRepaired docRange r = .ok [.bodySchema] := by decide

/-- `headers_exact_repaired`: typed header read through the string coercion -/
example :
    devHeaders V0 docRange ⟨200, none, [("x-rate".toList, "abc".toList)], none⟩ = true ∧
    devHeaders V0 docRange ⟨200, none, [("x-rate".toList, "42".toList)], none⟩ = false := by decide

/-- without the hypothesis of `parse_plain` the two readings differ -/
example : parseMedia "a/\"b;c\"".toList ≠ refParse "a/\"b;c\"".toList := by decide

end SV.Props.C04
