/-
  C04 — response conformance checks agree with the API documentation.  Property theorems only
  (definitions: SV/Model/C04.lean, SV/Spec/C04.lean; helper lemmas: SV/Proofs/C04.lean).

  `V schema instance` is JSON-Schema validity (third-party `jsonschema` behind the OpenAPI→JSON-Schema conversion);
  every theorem holds for EVERY `V`.  Theorems ending in `_repaired` are about the proposed repairs of the six
  defect sites, `_asFound_partial` about the pinned code on the sub-domain where it is right, `asFound_*` witnesses
  refute the full statement for the pinned code (replayed on the real code by harness/corr/c04.py).
  In the `formats` section validity is `W fmt schema instance`, a function of the format predicate `fmt` the
  validator is handed, and `F f v` is the truth of "v conforms to format f"; the theorems hold for EVERY `W` and `F`.
-/
import SV.Proofs.C04

namespace SV.Props.C04
open SV SV.Model.C04 SV.Spec.C04 SV.Proofs.C04

/-! ## status keys: `expand_status_code` -/

/-- For every key made of digits and `X`/`x` (any length ≥ 1) `expand_status_code` does not raise. -/
theorem expand_total (k : List Char) (hk : k.all (fun c => c.isDigit || isX c) = true) (hne : k ≠ []) :
    ∃ l, expandStatusCode k = some l :=
  ⟨_, expand_eq k hk hne⟩

/-- `n ∈ expand_status_code(k)` iff `k` covers `n` arithmetically (least significant digit first: each position is
    `X` or the corresponding decimal digit of `n`, and nothing of `n` is left over) — for every key string over
    digits and `X`/`x` of any length, and for `default`. -/
theorem expand_mem (k : List Char) (hk : keyWf k = true) (n : Nat) : keyCovers k n = keyMatches k n :=
  keyCovers_eq_wf k hk n

/-- `2XX` covers exactly 200‥299. -/
theorem expand_2XX (n : Nat) : keyCovers "2XX".toList n = true ↔ 200 ≤ n ∧ n ≤ 299 := by
  rw [expand_mem _ (by decide)]
  have e : "2XX".toList = ['2', 'X', 'X'] := by decide
  rw [e]
  simp only [keyMatches, List.isEmpty_cons, Bool.not_false, Bool.true_and, List.reverse_cons, List.reverse_nil,
    List.nil_append, List.cons_append, matchRev]
  have h1 : isX 'X' = true := by decide
  have h2 : isX '2' = false := by decide
  have h3 : Char.isDigit '2' = true := by decide
  have h4 : digitVal '2' = 2 := by decide
  simp only [h1, h2, h3, h4, Bool.true_or, Bool.true_and, Bool.false_or, Bool.and_eq_true, beq_iff_eq]
  omega

/-- `str(status)` is always a key that covers `status`. -/
theorem explicit_key_covers (n : Nat) : keyMatches (digitsOf n) n = true := (digitsOf_spec n).2.2

/-- `default` is not a range key. -/
theorem default_is_no_range (n : Nat) : keyCovers defaultKey n = false ∧ keyMatches defaultKey n = false :=
  ⟨default_not_covered n, default_not_matched n⟩

/-! ## status_code_conformance -/

/-- `status_code_conformance` raises `UndefinedStatusCode` iff neither an explicit key, nor a range key, nor
    `default` documents the status — and otherwise passes; it never crashes on well-formed keys. -/
theorem status_exact (doc : Doc) (r : Resp) (hk : keysWf doc = true) :
    statusCheck doc r = if devStatus doc r then .ok [.undefinedStatus] else .ok [] :=
  SV.Proofs.C04.status_exact doc r hk

/-- The repaired lookup used by the other three checks is the documented order explicit > range > default. -/
theorem lookup_repaired (doc : Doc) (hk : keysWf doc = true) (n : Nat) :
    lookupDef .repaired doc n = specLookup doc n :=
  lookup_repaired_eq_spec doc hk n

/-- The lookup as found (explicit key or `default` only) is right exactly when no range key is the only match. -/
theorem lookup_asFound_partial (doc : Doc) (n : Nat) (hk : keysWf doc = true) (hr : noRangeOnly doc n = true) :
    lookupDef .asFound doc n = specLookup doc n :=
  lookup_asFound_eq_spec doc n hk hr

/-! ## media types -/

/-- `media_types.parse` (with `_parseparam`'s quote bookkeeping) is the plain reading "text before the first `;`,
    trimmed, split at the first `/`, lower-cased" whenever no `"` precedes the first `;`. -/
theorem parse_plain (s : List Char) (hp : plainMedia s = true) : parseMedia s = refParse s :=
  parse_eq_refParse s hp

/-- `parse` raises exactly when its key has no `/`. -/
theorem parse_none_iff (s : List Char) : parseMedia s = none ↔ (headerKey s).contains '/' = false := by
  unfold parseMedia
  rw [← splitFirst_none]
  cases splitFirst '/' (headerKey s) <;> simp

/-- Parameters are ignored: `type/subtype;anything` parses like `type/subtype` (no `;` or `"` in `type/subtype`). -/
theorem parse_params_ignored (mt rest : List Char) (h1 : mt.contains ';' = false) (h2 : mt.contains '"' = false) :
    parseMedia (mt ++ ';' :: rest) = parseMedia mt := by
  have htw : ∀ (l : List Char), l.contains ';' = false → ∀ tl, (l ++ ';' :: tl).takeWhile (· != ';') = l := by
    intro l
    induction l with
    | nil => intro _ tl; simp
    | cons c l ih =>
      intro h tl
      simp only [List.contains_cons, Bool.or_eq_false_iff] at h
      have hc : (c != ';') = true := by
        have : c ≠ ';' := by intro e; subst e; simp at h
        simpa using this
      simp [hc, ih h.2 tl]
  have htw' : ∀ (l : List Char), l.contains ';' = false → l.takeWhile (· != ';') = l := by
    intro l
    induction l with
    | nil => intro _; rfl
    | cons c l ih =>
      intro h
      simp only [List.contains_cons, Bool.or_eq_false_iff] at h
      have hc : (c != ';') = true := by
        have : c ≠ ';' := by intro e; subst e; simp at h
        simpa using this
      simp [hc, ih h.2]
  have p1 : plainMedia (mt ++ ';' :: rest) = true := by
    unfold plainMedia; rw [htw mt h1 rest]; simpa using h2
  have p2 : plainMedia mt = true := by
    unfold plainMedia; rw [htw' mt h1]; simpa using h2
  rw [parse_eq_refParse _ p1, parse_eq_refParse _ p2]
  unfold refParse
  rw [htw mt h1 rest, htw' mt h1]

/-- The four-way test of `content_type_conformance` is coverage `(m = * ∨ m = m') ∧ (s = * ∨ s = s')`. -/
theorem rangeMatch_covers (e r : List Char × List Char) : rangeMatch e r = covers e r :=
  rangeMatch_eq_covers e r

/-! ## the three checks that depend on the lookup, repaired variants: exact for every document and response -/

theorem content_type_exact_repaired (vs : Variants) (doc : Doc) (r : Resp) (hv : vs.lookup = .repaired)
    (hk : keysWf doc = true) (hm : docMediaWf doc = true) (hp : respMediaPlain r = true) :
    (contentTypeCheck vs doc r).reports = devContentType doc r :=
  content_type_core vs doc r (by rw [hv]; exact lookup_repaired_eq_spec doc hk _) hm hp

/-- A documented header is reported iff it is required and absent, or present and valid under NO reading of its text
    as a value of a documented type (own type, type of the `$ref` target, type list, null when nullable). -/
theorem headers_exact_repaired (V : Json → Json → Bool) (vs : Variants) (doc : Doc) (r : Resp)
    (hv : vs.lookup = .repaired) (hh : vs.hdrRef = .repaired) (hkw : vs.hdrKw = .repaired)
    (hty : vs.hdrType = .repaired) (hk : keysWf doc = true) :
    (headersCheck V vs doc r).reports = devHeaders V doc r :=
  headers_core V vs doc r (by rw [hv]; exact lookup_repaired_eq_spec doc hk _) (by intro _ _ _ _; rw [hh]; rfl)
    (by intro _ _ h _ value; rw [valueInvalid_repaired V vs _ h value hkw hty,
          valueInvalid_repaired V Variants.allRepaired _ h value rfl rfl])

/-- The preparation and coercion of a header schema as found (keyword filter, `nullable` → `anyOf`, type default,
    coercion by the top-level `type`) give the documented reading on plain schemas: inline, supported keywords only,
    not nullable, `type` absent or one name. -/
theorem header_value_asFound_partial (V : Json → Json → Bool) (fl : Flavour) (h : HeaderDef) (value : List Char)
    (hk : keywordsSupported fl h.schema = true) (hp : plainType fl h = true) :
    valueInvalid V Variants.allAsFound fl h value = !((readings fl h value).any (V (prepSchema h.schema))) := by
  rw [valueInvalid_asFound_plain V fl h value hk hp, valueInvalid_repaired V Variants.allRepaired fl h value rfl rfl]

theorem body_exact_repaired (V : Json → Json → Bool) (vs : Variants) (doc : Doc) (r : Resp)
    (hv : vs.lookup = .repaired) (hmv : vs.media = .repaired) (hk : keysWf doc = true) (hm : docMediaWf doc = true)
    (ct : List Char) (rc : List Char × List Char)
    (hct : r.contentType = some ct) (hp : plainMedia ct = true) (hrc : refParse ct = some rc) :
    (bodyCheck V vs doc r).reports = devBody V doc r ∧ (bodyCheck V vs doc r).isError = false :=
  body_core V vs doc r (by rw [hv]; exact lookup_repaired_eq_spec doc hk _) ct rc hct hp hrc
    (fun d hd => by rw [hmv]; exact selectSchema_repaired doc d r ct rc hct hp hrc (content_wf doc _ d hm hd))

/-- C04 for the repaired code: for every validity oracle, every well-formed document and every response (any
    status, Content-Type present/absent/unreadable, any headers, JSON or malformed body) the four checks together
    report a failure iff the response deviates from the documentation, and no exception escapes. -/
theorem verdict_repaired (V : Json → Json → Bool) (doc : Doc) (r : Resp)
    (hk : keysWf doc = true) (hm : docMediaWf doc = true) (hp : respMediaPlain r = true)
    (hw : producesWf doc = true) :
    (runAll V Variants.allRepaired doc r).reports = deviates V doc r ∧
      (runAll V Variants.allRepaired doc r).isError = false :=
  SV.Proofs.C04.verdict_repaired V doc r hk hm hp hw

/-! ## the code as found -/

/-- C04 for the code as found holds on the sub-domain: the status is documented explicitly or by no range key,
    every response documents at most one media type, no required header is documented through `$ref`, the
    Content-Type is absent, empty or readable, and every header schema is plain (inline, supported keywords only,
    not nullable, `type` absent or one name). -/
theorem verdict_asFound_partial (V : Json → Json → Bool) (doc : Doc) (r : Resp)
    (hk : keysWf doc = true) (hm : docMediaWf doc = true) (hp : respMediaPlain r = true)
    (hw : producesWf doc = true)
    (h1 : noRangeOnly doc r.status = true) (h2 : singleMedia doc = true) (h3 : noRequiredRefHeader doc = true)
    (h4 : ctNoCrash r = true) (h5 : plainHeaders doc = true) :
    (runAll V Variants.allAsFound doc r).reports = deviates V doc r ∧
      (runAll V Variants.allAsFound doc r).isError = false :=
  SV.Proofs.C04.verdict_asFound_partial V doc r hk hm hp hw h1 h2 h3 h4 h5

/-! ### witnesses: each dropped hypothesis is necessary (kernel-checked; replayed on the real code by the harness) -/

/-- F11 (i): 200 text/plain without X-Rate against a `2XX`-only document passes every check as found (all three
    lookup-dependent aspects deviate); the repaired checks report it. -/
theorem asFound_range_only_miss :
    let r : Resp := ⟨200, some "text/plain".toList, [], some (.obj [])⟩
    runAll V0 Variants.allAsFound docRange r = .ok [] ∧
    devContentType docRange r = true ∧ devHeaders V0 docRange r = true ∧
    runAll V0 Variants.allRepaired docRange r = .ok [.undefinedContentType, .missingHeaders] := by
  decide

/-- F11 (i), body: 200 application/json `{}` (required `id` missing) against the `2XX`-only document passes. -/
theorem asFound_range_only_body_miss :
    let r : Resp := ⟨200, some "application/json".toList, [("x-rate".toList, "1".toList)], some (.obj [])⟩
    runAll V0 Variants.allAsFound docRange r = .ok [] ∧ devBody V0 docRange r = true ∧
    runAll V0 Variants.allRepaired docRange r = .ok [.bodySchema] := by
  decide

/-- F11 (ii), false alarm: a conforming JSON object is validated against the XML media type's schema. -/
theorem asFound_first_media_false_alarm :
    let r : Resp := ⟨200, some "application/json".toList, [], some idOne⟩
    runAll V0 Variants.allAsFound docTwoMedia r = .ok [.bodySchema] ∧ deviates V0 docTwoMedia r = false ∧
    runAll V0 Variants.allRepaired docTwoMedia r = .ok [] := by
  decide

/-- F11 (ii), miss: the JSON string "x" violates the JSON media type's schema and passes. -/
theorem asFound_first_media_miss :
    let r : Resp := ⟨200, some "application/json".toList, [], some (.str "x")⟩
    runAll V0 Variants.allAsFound docTwoMedia r = .ok [] ∧ devBody V0 docTwoMedia r = true ∧
    runAll V0 Variants.allRepaired docTwoMedia r = .ok [.bodySchema] := by
  decide

/-- a required header documented through `$ref` may be missing -/
theorem asFound_ref_header_miss :
    let r : Resp := ⟨200, none, [], none⟩
    runAll V0 Variants.allAsFound docRefHeader r = .ok [] ∧ devHeaders V0 docRefHeader r = true ∧
    runAll V0 Variants.allRepaired docRefHeader r = .ok [.missingHeaders] := by
  decide

/-- a malformed Content-Type crashes the schema check (and with it `run_checks`) instead of being reported -/
theorem asFound_malformed_content_type_crash :
    let r : Resp := ⟨200, some "garbage".toList, [], some idOne⟩
    bodyCheck V0 Variants.allAsFound docJson r = .error ∧ runAll V0 Variants.allAsFound docJson r = .error ∧
    deviates V0 docJson r = true ∧
    runAll V0 Variants.allRepaired docJson r = .ok [.malformedMediaType] := by
  decide

/-- a `nullable` header of a non-string type is unsatisfiable as found: `anyOf [integer, null]` ends up beside the
    defaulted `type: string`, the value is not coerced, and the conforming `5` is reported -/
theorem asFound_nullable_typed_header_false_alarm :
    runAll V1 Variants.allAsFound (hdrDoc false nullIntSchema none) (hdrResp "5") = .ok [.headerSchema] ∧
    deviates V1 (hdrDoc false nullIntSchema none) (hdrResp "5") = false ∧
    runAll V1 Variants.allRepaired (hdrDoc false nullIntSchema none) (hdrResp "5") = .ok [] ∧
    runAll V1 Variants.allRepaired (hdrDoc false nullIntSchema none) (hdrResp "null") = .ok [] ∧
    runAll V1 Variants.allRepaired (hdrDoc false nullIntSchema none) (hdrResp "abc") = .ok [.headerSchema] := by
  decide

/-- a header whose schema is a `$ref` to an integer schema is never coerced as found: the conforming `5` is reported -/
theorem asFound_ref_header_schema_false_alarm :
    runAll V1 Variants.allAsFound (hdrDoc false refSchema (some intSchema)) (hdrResp "5") = .ok [.headerSchema] ∧
    deviates V1 (hdrDoc false refSchema (some intSchema)) (hdrResp "5") = false ∧
    runAll V1 Variants.allRepaired (hdrDoc false refSchema (some intSchema)) (hdrResp "5") = .ok [] ∧
    runAll V1 Variants.allRepaired (hdrDoc false refSchema (some intSchema)) (hdrResp "abc") = .ok [.headerSchema] := by
  decide

/-- OpenAPI 3.1 `type: [integer, null]`: a type list is not understood by the coercion as found -/
theorem asFound_type_list_header_false_alarm :
    runAll V1 Variants.allAsFound (hdrDoc true typeListSchema none) (hdrResp "5") = .ok [.headerSchema] ∧
    deviates V1 (hdrDoc true typeListSchema none) (hdrResp "5") = false ∧
    runAll V1 Variants.allRepaired (hdrDoc true typeListSchema none) (hdrResp "5") = .ok [] := by
  decide

/-- OpenAPI 3.1 `const` is dropped from the header schema by the 3.0 keyword list: the violating `b` passes -/
theorem asFound_const_header_miss :
    runAll V1 Variants.allAsFound (hdrDoc true constSchema none) (hdrResp "b") = .ok [] ∧
    deviates V1 (hdrDoc true constSchema none) (hdrResp "b") = true ∧
    runAll V1 Variants.allRepaired (hdrDoc true constSchema none) (hdrResp "b") = .ok [.headerSchema] ∧
    keywordsSupported .openapi31 constSchema = false := by
  decide

/-- The full statement is false for the code as found: well-formedness alone does not give the equivalence. -/
theorem verdict_asFound_full_false :
    ¬ ∀ (V : Json → Json → Bool) (doc : Doc) (r : Resp), keysWf doc = true → docMediaWf doc = true →
        respMediaPlain r = true → producesWf doc = true →
        (runAll V Variants.allAsFound doc r).reports = deviates V doc r := by
  intro h
  have := h V0 docTwoMedia ⟨200, some "application/json".toList, [], some idOne⟩ (by decide) (by decide) (by decide)
    (by decide)
  revert this
  decide

/-! ### non-vacuity: the hypotheses are met by concrete non-trivial documents / responses -/

example : keysWf docRange = true ∧ docMediaWf docRange = true ∧ producesWf docRange = true ∧
    respMediaPlain ⟨200, some "text/plain".toList, [], some (.obj [])⟩ = true := by decide

/-- `verdict_asFound_partial` is not vacuous: all hypotheses hold and the response deviates (body). -/
example :
    let r : Resp := ⟨200, some "application/json; charset=utf-8".toList, [], some (.obj [])⟩
    keysWf docJson = true ∧ docMediaWf docJson = true ∧ respMediaPlain r = true ∧ producesWf docJson = true ∧
    noRangeOnly docJson r.status = true ∧ singleMedia docJson = true ∧ noRequiredRefHeader docJson = true ∧
    ctNoCrash r = true ∧ plainHeaders docJson = true ∧ deviates V0 docJson r = true ∧
    runAll V0 Variants.allAsFound docJson r = .ok [.bodySchema] := by decide

example : keyWf "20x".toList = true ∧ keyMatches "20x".toList 204 = true ∧ keyMatches "20x".toList 214 = false := by
  decide

example : plainMedia "Application/JSON ; charset=\"a;b\"".toList = true ∧
    parseMedia "Application/JSON ; charset=\"a;b\"".toList = some ("application".toList, "json".toList) := by decide

example : parseMedia "application/json;charset=utf-8".toList = parseMedia "application/json".toList := by decide

/-- `body_exact_repaired` is not vacuous: a readable JSON Content-Type, and the body aspect deviates -/
example :
    let r : Resp := ⟨204, some "application/json".toList, [("x-rate".toList, "7".toList)], some (.obj [])⟩
    keysWf docRange = true ∧ docMediaWf docRange = true ∧ plainMedia "application/json".toList = true ∧
    refParse "application/json".toList = some ("application".toList, "json".toList) ∧
    devBody V0 docRange r = true ∧ bodyCheck V0 Variants.allRepaired docRange r = .ok [.bodySchema] := by decide

/-- `headers_exact_repaired`: typed header read through the string coercion -/
example :
    devHeaders V0 docRange ⟨200, none, [("x-rate".toList, "abc".toList)], none⟩ = true ∧
    devHeaders V0 docRange ⟨200, none, [("x-rate".toList, "42".toList)], none⟩ = false := by decide

/-- without the hypothesis of `parse_plain` the two readings differ -/
example : parseMedia "a/\"b;c\"".toList ≠ refParse "a/\"b;c\"".toList := by decide

/-- `header_value_asFound_partial` / `plainHeaders` are not vacuous: a typed header, read through the coercion -/
example :
    let d := hdrDoc false intSchema none
    plainHeaders d = true ∧ keysWf d = true ∧ noRangeOnly d 200 = true ∧
    runAll V1 Variants.allAsFound d (hdrResp "abc") = .ok [.headerSchema] ∧ deviates V1 d (hdrResp "abc") = true ∧
    runAll V1 Variants.allAsFound d (hdrResp "42") = .ok [] := by decide

/-! ## formats: which documented `format`s are enforced -/

/-- The checker handed to both `jsonschema.validate` calls (the 2020-12 one) knows exactly the defined formats of the
    JSON-Schema validation vocabulary: no defined format goes unenforced, no other name is enforced. -/
theorem checker_formats_exact (f : String) : Draft.d202012.formats.contains f = assertedFormats.contains f := by
  simp only [Draft.formats, assertedFormats, List.contains_cons, List.contains_nil, Bool.or_false]
  rw [Bool.eq_iff_iff]
  simp only [Bool.or_eq_true, beq_iff_eq]
  grind

/-- Header values are checked against every defined format, for every flavour of document and every truth `F`. -/
theorem header_checker_exact (fl : Flavour) (F : String → Json → Bool) :
    checkerFmt (headerChecker fl) F = specFmt F := by
  funext f v
  simp only [checkerFmt, specFmt, headerChecker, checker_formats_exact]

/-- Bodies likewise. -/
theorem body_checker_exact (fl : Flavour) (F : String → Json → Bool) :
    checkerFmt (bodyChecker fl) F = specFmt F := by
  funext f v
  simp only [checkerFmt, specFmt, bodyChecker, checker_formats_exact]

/-- Every older checker knows a subset of what the 2020-12 checker knows: handing over the newest one never loses a
    format, whatever validator class the document's version selects. -/
theorem newest_checker_greatest (d : Draft) (f : String) (h : d.formats.contains f = true) :
    Draft.d202012.formats.contains f = true := by
  cases d <;>
    simp only [Draft.formats, List.contains_cons, List.contains_nil, Bool.or_false, Bool.or_eq_true, beq_iff_eq] at h ⊢ <;>
    grind

/-- The choice matters: the validator class's own checker (Draft 4 for Swagger 2.0 and OpenAPI 3.0) leaves these
    defined formats unenforced; for OpenAPI 3.1 the two checkers coincide. -/
theorem own_checker_gap :
    assertedFormats.filter (fun f => !((validatorCls .swagger2).formats.contains f)) =
      ["date", "time", "duration", "idn-hostname", "uri-reference", "iri", "iri-reference", "uuid", "uri-template",
       "json-pointer", "relative-json-pointer"] ∧
    assertedFormats.filter (fun f => !((validatorCls .openapi30).formats.contains f)) =
      ["date", "time", "duration", "idn-hostname", "uri-reference", "iri", "iri-reference", "uuid", "uri-template",
       "json-pointer", "relative-json-pointer"] ∧
    assertedFormats.filter (fun f => !((validatorCls .openapi31).formats.contains f)) = [] := by
  decide

/-- C04 with formats, repaired variants: for every validity `W` (a function of the format predicate it is handed),
    every truth `F` of the format predicates, every well-formed document of any flavour and every response, the four
    checks report iff the response deviates from the documentation read with every defined format enforced. -/
theorem verdict_formats_repaired (W : (String → Json → Bool) → Json → Json → Bool) (F : String → Json → Bool)
    (doc : Doc) (r : Resp) (hk : keysWf doc = true) (hm : docMediaWf doc = true) (hp : respMediaPlain r = true)
    (hw : producesWf doc = true) :
    (runAllF W F Variants.allRepaired doc r).reports = deviatesF W F doc r ∧
      (runAllF W F Variants.allRepaired doc r).isError = false := by
  unfold runAllF deviatesF
  rw [header_checker_exact, body_checker_exact]
  exact SV.Proofs.C04.verdict_repaired (W (specFmt F)) doc r hk hm hp hw

/-- The same for the code as found on its sub-domain: the format checkers need no extra hypothesis. -/
theorem verdict_formats_asFound_partial (W : (String → Json → Bool) → Json → Json → Bool) (F : String → Json → Bool)
    (doc : Doc) (r : Resp) (hk : keysWf doc = true) (hm : docMediaWf doc = true) (hp : respMediaPlain r = true)
    (hw : producesWf doc = true)
    (h1 : noRangeOnly doc r.status = true) (h2 : singleMedia doc = true) (h3 : noRequiredRefHeader doc = true)
    (h4 : ctNoCrash r = true) (h5 : plainHeaders doc = true) :
    (runAllF W F Variants.allAsFound doc r).reports = deviatesF W F doc r ∧
      (runAllF W F Variants.allAsFound doc r).isError = false := by
  unfold runAllF deviatesF
  rw [header_checker_exact, body_checker_exact]
  exact SV.Proofs.C04.verdict_asFound_partial (W (specFmt F)) doc r hk hm hp hw h1 h2 h3 h4 h5

/-- Non-vacuity and necessity, in all three flavours: a header and a body that violate `format: uuid` are both
    reported and do deviate, conforming ones pass — and with the validator class's own checker in the header check
    (Draft 4 for 2.0 / 3.0) the violating header would pass although it deviates. -/
theorem format_enforced_witness :
    (∀ v : Bool × Bool, v ∈ [(true, false), (false, false), (false, true)] →
      runAllF W0 F0 Variants.allAsFound (docUuid v.1 v.2) (uuidResp "zzzzzzzz-zzzz-zzzz-zzzz-zzzzzzzzzzzz" "nope") =
        .ok [.headerSchema, .bodySchema] ∧
      deviatesF W0 F0 (docUuid v.1 v.2) (uuidResp "zzzzzzzz-zzzz-zzzz-zzzz-zzzzzzzzzzzz" "nope") = true ∧
      runAllF W0 F0 Variants.allAsFound (docUuid v.1 v.2) (uuidResp goodUuid goodUuid) = .ok [] ∧
      deviatesF W0 F0 (docUuid v.1 v.2) (uuidResp goodUuid goodUuid) = false) ∧
    headersCheck (W0 (checkerFmt (validatorCls .openapi30) F0)) Variants.allRepaired (docUuid false false)
      (uuidResp "zzzzzzzz-zzzz-zzzz-zzzz-zzzzzzzzzzzz" goodUuid) = .ok [] ∧
    devHeaders (W0 (specFmt F0)) (docUuid false false) (uuidResp "zzzzzzzz-zzzz-zzzz-zzzz-zzzzzzzzzzzz" goodUuid) = true := by
  decide

/-- a format outside the vocabulary (`int32`) is an annotation for checker and specification alike -/
example (F : String → Json → Bool) (v : Json) :
    checkerFmt (headerChecker .openapi30) F "int32" v = true ∧ specFmt F "int32" v = true := by
  constructor <;> simp [checkerFmt, specFmt, headerChecker, Draft.formats, assertedFormats]

/-- the hypotheses of `verdict_formats_asFound_partial` are met by the uuid document -/
example :
    let d := docUuid false false
    let r := uuidResp "zzzzzzzz-zzzz-zzzz-zzzz-zzzzzzzzzzzz" goodUuid
    keysWf d = true ∧ docMediaWf d = true ∧ respMediaPlain r = true ∧ producesWf d = true ∧
    noRangeOnly d r.status = true ∧ singleMedia d = true ∧ noRequiredRefHeader d = true ∧ ctNoCrash r = true ∧
    plainHeaders d = true ∧ deviatesF W0 F0 d r = true := by decide

end SV.Props.C04
