/-
  C05 — no failure or internal error is ever lost: it reaches the report and the exit code.
  Property theorems only; models in SV/Model/Engine.lean + Plan.lean + C05Stat.lean (the CLI failure store),
  invariants in SV/Proofs/Engine.lean + C05Stat.lean,
  tables regenerated from /repo in SV/Generated/Engine.lean.
-/
import SV.Proofs.Engine
import SV.Proofs.Stateful
import SV.Proofs.StatefulMachine
import SV.Model.Plan
import SV.Generated.Engine
import SV.Proofs.C05Stat

namespace SV.Props.C05
open SV.Model.Engine SV.Model.Plan SV.Proofs.Engine

/-! ### tables read from the source -/

/-- the model's status order is the one in engine/__init__.py -/
theorem status_order_matches_source :
    SV.Generated.Engine.statusOrder =
      [("SUCCESS", Status.success.rank), ("FAILURE", Status.failure.rank), ("ERROR", Status.error.rank),
       ("INTERRUPTED", Status.interrupted.rank), ("SKIP", Status.skip.rank)] := by decide

/-- every `except` arm of `run_test` other than skip / KeyboardInterrupt reports FAILURE or ERROR, the ladder ends in
    a catch-all `Exception` arm, and only a normal return of the test body yields SUCCESS -/
theorem ladder_total :
    (SV.Generated.Engine.ladder.all fun (names, statuses, ret) =>
      names.contains "SkipTest" || names.contains "KeyboardInterrupt" ||
        (!ret && !statuses.isEmpty && statuses.all fun s => s == "FAILURE" || s == "ERROR")) = true ∧
    (SV.Generated.Engine.ladder.getLast?.map (·.1)) = some ["Exception"] ∧
    SV.Generated.Engine.ladderBody = ["SUCCESS"] := by decide

/-- the CLI turns exactly NonFatalError and enabled FAILURE/ERROR phases into exit code 1 -/
theorem exit_rule_matches_source :
    SV.Generated.Engine.exitStatuses = ["ERROR", "FAILURE"] ∧ SV.Generated.Engine.exitOnNonFatal = true ∧
    SV.Generated.Engine.exitNeedsEnabled = true := by decide

/-! ### the status fold never hides a failure (all schedules, all stop points) -/

/-- In every reachable state of the unit phase, a yielded failing scenario or a yielded NonFatalError forces the
    running phase status to FAILURE/ERROR/INTERRUPTED, and INTERRUPTED only after a stop request. -/
theorem fold_never_hides (v : Variant) (ops : List Script) (n : Nat) (m : Option Nat) (s : St)
    (hm : m ≠ some 0) (hok : ∀ sc ∈ ops, ScriptOk sc)
    (hr : Reach v (init ops n m) s) :
    (∀ i st, Ev.scenFinished i st ∈ s.c.out → st.failing = true →
        ∃ x, s.c.status = some x ∧ 1 ≤ x.rank ∧ x ≠ .skip ∧ (x = .interrupted → s.c.ctl.stop = true)) ∧
    (∀ i, Ev.nonFatal i ∈ s.c.out →
        ∃ x, s.c.status = some x ∧ 2 ≤ x.rank ∧ x ≠ .skip ∧ (x = .interrupted → s.c.ctl.stop = true)) := by
  have inv := (allInv_reach v _ s hr (allInv_init ops n m hm hok)).status
  constructor
  · intro i st hmem hf
    have hsk : st ≠ .skip := by intro h; subst h; simp [Status.failing] at hf
    obtain ⟨x, hx, hrk⟩ := inv.fin i st hmem hsk
    refine ⟨x, hx, ?_, ?_, ?_⟩
    · have : 1 ≤ st.rank := by cases st <;> simp [Status.failing, Status.rank] at *
      omega
    · intro h; subst h; exact inv.notSkip hx
    · intro h; subst h; exact inv.intr hx
  · intro i hmem
    obtain ⟨x, hx, hrk⟩ := inv.err i hmem
    refine ⟨x, hx, hrk, ?_, ?_⟩
    · intro h; subst h; exact inv.notSkip hx
    · intro h; subst h; exact inv.intr hx

/-- the closing events carry exactly the folded status -/
theorem closing_events (c : CSt) :
    (cClose c).out = c.out ++ [.suiteFinished (finalStatus c).1, .phaseFinished (finalStatus c).1 (finalStatus c).2] := by
  simp [cClose]

/-- a phase that yielded a worker event is never closed as "nothing to test" and, if that event was a failing
    scenario or an error and no stop was requested, is closed as FAILURE or ERROR -/
theorem closed_as_failed (c : CSt) (inv : StatusInv c) (hstop : c.ctl.stop = false)
    (h : (∃ i st, Ev.scenFinished i st ∈ c.out ∧ st.failing = true) ∨ ∃ i, Ev.nonFatal i ∈ c.out) :
    (finalStatus c).2 = false ∧ (finalStatus c).1.failing = true := by
  have hex : c.executed = true := by
    rcases h with ⟨i, st, hm, _⟩ | ⟨i, hm⟩
    · exact inv.exec ⟨_, hm, rfl⟩
    · exact inv.exec ⟨_, hm, rfl⟩
  have : ∃ x, c.status = some x ∧ 1 ≤ x.rank := by
    rcases h with ⟨i, st, hm, hf⟩ | ⟨i, hm⟩
    · have hsk : st ≠ .skip := by intro h; subst h; simp [Status.failing] at hf
      obtain ⟨x, hx, hr⟩ := inv.fin i st hm hsk
      have : 1 ≤ st.rank := by cases st <;> simp [Status.failing, Status.rank] at *
      exact ⟨x, hx, by omega⟩
    · obtain ⟨x, hx, hr⟩ := inv.err i hm
      exact ⟨x, hx, by omega⟩
  obtain ⟨x, hx, hr⟩ := this
  have hns : x ≠ .skip := by intro h; subst h; exact inv.notSkip hx
  have hni : x ≠ .interrupted := by
    intro h; subst h; have := inv.intr hx; rw [hstop] at this; cases this
  simp only [finalStatus, hex, hx]
  cases x <;> simp [Status.failing, Status.rank] at *

/-! ### delivery: nothing a worker reports is lost (all schedules) -/

/-- **Repaired consumer.** In every run that reaches the end of the phase without a stop request or failure limit,
    the queue is empty, every event ever put by a worker was yielded in order, and every operation's closing event
    (its ScenarioFinished, or the lone NonFatalError of a load error) is in the stream. -/
theorem delivery_repaired (ops : List Script) (n : Nat) (m : Option Nat) (s : St) (hn : 0 < n)
    (hr : Reach .repaired (init ops n m) s) (hdone : s.c.pc = .done) (hns : s.c.ctl.hasToStop = false) :
    s.queue = [] ∧ yieldedW s.c.out = s.hist ∧ ∀ sc ∈ ops, finishedEv sc ∈ s.c.out := by
  have hcl := closingInv_reach _ s hr (closingInv_init ops n m) (Or.inr hdone)
  rw [hns] at hcl
  obtain ⟨hdead, hq⟩ : allDead s.ws = true ∧ s.queue = [] := by
    rcases hcl with h | h
    · cases h
    · exact h
  have hh := histInv_reach _ _ s hr (histInv_init ops n m)
  obtain ⟨d, hd, hy⟩ := hh.split
  have hstop : s.c.ctl.stop = false := by
    simp [Ctl.hasToStop] at hns; exact hns.1
  have hyd : yieldedW s.c.out = d := by
    rcases hy with h | ⟨h, _⟩
    · exact h
    · rw [hstop] at h; cases h
  have hhist : yieldedW s.c.out = s.hist := by rw [hd, hq, hyd]; simp
  refine ⟨hq, hhist, ?_⟩
  intro sc hsc
  have hne : s.ws ≠ [] := ws_ne_nil_reach _ _ s hr (by
    simp only [init]; intro h; have := congrArg List.length h; simp at this; omega)
  have hops : s.ops = [] := by
    obtain ⟨w, hw⟩ := List.exists_mem_of_ne_nil _ hne
    have hwd : w.st = .dead := by
      simp only [allDead, List.all_eq_true] at hdead
      simpa using hdead w hw
    rcases deadInv_reach _ _ s hr (deadInv_init ops n m) w hw hwd with h | h
    · rw [hns] at h; cases h
    · exact h
  rcases scriptInv_reach _ sc _ s hr (scriptInv_init ops n m sc hsc) with h | ⟨w, hw, pc, hst, _⟩ | h | h
  · rw [hops] at h; cases h
  · exfalso
    simp only [allDead, List.all_eq_true] at hdead
    have := hdead w hw
    rw [hst] at this
    simp at this
  · have : finishedEv sc ∈ yieldedW s.c.out := by rw [hhist]; exact h
    exact (List.mem_filter.1 this).1
  · rw [hns] at h; cases h

/-- **Pinned snapshot.** The same statement is false for the consumer as found: one worker, one passing operation —
    the consumer times out on the empty queue, the worker then reports its scenario and exits, the consumer sees no
    live worker and leaves. Both events are lost and the phase is closed as "nothing to test". -/
def lostTrace : List Label :=
  [.cStart, .worker 0, .worker 0, .cEmpty, .worker 0, .worker 0, .worker 0, .worker 0, .worker 0, .worker 0,
   .cAlive, .cJoined]

theorem delivery_asFound_false :
    ∃ s, Reach .asFound (init [⟨7, 0, 0, .success, false⟩] 1 none) s ∧ s.c.pc = .done ∧
      s.c.ctl.hasToStop = false ∧ s.queue = [.scenStarted 7, .scenFinished 7 .success] ∧
      s.c.out = [.suiteStarted, .suiteFinished .skip, .phaseFinished .skip true] := by
  have h : ∃ s, fireAll .asFound (init [⟨7, 0, 0, .success, false⟩] 1 none) lostTrace = some s ∧ s.c.pc = .done ∧
      s.c.ctl.hasToStop = false ∧ s.queue = [.scenStarted 7, .scenFinished 7 .success] ∧
      s.c.out = [.suiteStarted, .suiteFinished .skip, .phaseFinished .skip true] := by
    decide
  obtain ⟨s, hf, rest⟩ := h
  exact ⟨s, fireAll_reach _ _ _ s _ Reach.refl hf, rest⟩

/-- the same schedule is harmless for the repaired consumer: it goes back to the loop instead of leaving -/
theorem repaired_survives_lostTrace :
    (fireAll .repaired (init [⟨7, 0, 0, .success, false⟩] 1 none) (lostTrace.take 11)).map (·.c.pc) = some .loop := by
  decide

/-! ### exit code -/

/-- exit code 1 ⇔ some NonFatalError or some enabled phase finished FAILURE/ERROR -/
theorem exit_code_spec (enabled : Nat → Bool) (evs : List PEv) :
    exitCode enabled evs = 1 ↔
      (∃ i j, PEv.inner i (.nonFatal j) ∈ evs) ∨
      (∃ i st r, PEv.phaseFinished i st r ∈ evs ∧ enabled i = true ∧ st.failing = true) := by
  induction evs with
  | nil => simp [exitCode]
  | cons e rest ih =>
    cases e with
    | inner i x =>
      cases x with
      | nonFatal j => simp [exitCode]; exact Or.inl ⟨i, j, Or.inl ⟨rfl, rfl⟩⟩
      | _ => simp only [exitCode, ih]; simp
    | phaseFinished i st r =>
      by_cases hc : (enabled i && st.failing) = true
      · simp only [exitCode, hc, if_true, true_iff]
        simp at hc
        exact Or.inr ⟨i, st, r, by simp, hc.1, hc.2⟩
      · simp only [exitCode, hc, Bool.false_eq_true, if_false, ih]
        simp at hc
        constructor
        · rintro (⟨a, b, h⟩ | ⟨a, st', r', h, h2, h3⟩)
          · exact Or.inl ⟨a, b, by simp [h]⟩
          · exact Or.inr ⟨a, st', r', by simp [h], h2, h3⟩
        · rintro (⟨a, b, h⟩ | ⟨a, st', r', h, h2, h3⟩)
          · simp at h; exact Or.inl ⟨a, b, h⟩
          · simp at h
            rcases h with ⟨rfl, rfl, rfl⟩ | h
            · exfalso; have := hc h2; rw [this] at h3; cases h3
            · exact Or.inr ⟨a, st', r', h, h2, h3⟩
    | engineStarted => simp only [exitCode, ih]; simp
    | phaseStarted i => simp only [exitCode, ih]; simp
    | interrupted => simp only [exitCode, ih]; simp
    | engineFinished => simp only [exitCode, ih]; simp

/-- exit code is 0 or 1 -/
theorem exit_code_range (enabled : Nat → Bool) (evs : List PEv) : exitCode enabled evs = 0 ∨ exitCode enabled evs = 1 := by
  induction evs with
  | nil => simp [exitCode]
  | cons e rest ih =>
    cases e with
    | inner i x => cases x <;> simp [exitCode, ih]
    | phaseFinished i st r => simp only [exitCode]; split <;> simp [ih]
    | _ => simpa [exitCode] using ih

/-- non-vacuity: the hypotheses of `delivery_repaired` are met by a real terminal state (one worker, two operations,
    one of them failing) and the failing scenario is in the stream -/
example : ∃ s, fireAll .repaired (init [⟨1, 1, 0, .failure, false⟩, ⟨2, 0, 0, .success, false⟩] 1 none)
      [.cStart, .worker 0, .worker 0, .worker 0, .worker 0, .worker 0, .worker 0, .worker 0, .worker 0,
       .cGot false, .cGot false, .worker 0, .worker 0, .worker 0, .worker 0, .worker 0, .worker 0, .cGot false, .cGot false,
       .worker 0, .worker 0, .cEmpty, .cAlive, .cJoined] = some s ∧
      s.c.pc = .done ∧ s.c.ctl.hasToStop = false ∧ Ev.scenFinished 1 .failure ∈ s.c.out ∧
      s.c.out.getLast? = some (.phaseFinished .failure false) := by
  decide

/-! ### end to end: from any schedule of a unit phase to the process exit code -/

/-- the result of a finished unit phase as the plan sees it: what it yielded before its closing PhaseFinished, the
    status and "nothing to test" flag of that event, and the control state left behind -/
def phaseRunOf (c : CSt) : PhaseRun :=
  { evs := c.out.dropLast, status := (finalStatus c).1, nothingToTest := (finalStatus c).2, ctl := c.ctl }

theorem exitCode_append_one (enabled : Nat → Bool) (a b : List PEv) (h : exitCode enabled a = 1) :
    exitCode enabled (a ++ b) = 1 := by
  rw [exit_code_spec] at h ⊢
  rcases h with ⟨i, j, hm⟩ | ⟨i, st, r, hm, h2, h3⟩
  · exact Or.inl ⟨i, j, by simp [hm]⟩
  · exact Or.inr ⟨i, st, r, by simp [hm], h2, h3⟩

theorem exitCode_of_mem_phaseFinished (enabled : Nat → Bool) (evs : List PEv) (i : Nat) (st : Status) (r : Option Reason)
    (hm : PEv.phaseFinished i st r ∈ evs) (he : enabled i = true) (hf : st.failing = true) : exitCode enabled evs = 1 :=
  (exit_code_spec enabled evs).2 (Or.inr ⟨i, st, r, hm, he, hf⟩)

/-- **End to end, all schedules.** Take a plan whose first runnable phase `p` is an enabled unit phase, and let that
    phase end in *any* terminal state `s` reachable by the LTS (any number of workers, any interleaving) without a stop
    request. If the stream of that phase contains a failing scenario or a NonFatalError, the process exit code is 1. -/
theorem failing_scenario_gives_exit_1 (v : Variant) (ops : List Script) (n : Nat) (m : Option Nat) (s : St)
    (hm : m ≠ some 0) (hok : ∀ sc ∈ ops, ScriptOk sc)
    (hr : Reach v (init ops n m) s) (_hdone : s.c.pc = .done) (hstop : s.c.ctl.stop = false)
    (hfail : (∃ i st, Ev.scenFinished i st ∈ s.c.out ∧ st.failing = true) ∨ ∃ i, Ev.nonFatal i ∈ s.c.out)
    (run : Nat → Ctl → PhaseRun) (p : PhaseCfg) (rest : List PhaseCfg) (ctl : Ctl)
    (hen : p.enabled = true) (hgo : ctl.hasToStop = false) (hrun : run p.idx ctl = phaseRunOf s.c)
    (enabled : Nat → Bool) (hen' : enabled p.idx = true) :
    exitCode enabled (execute run ctl (p :: rest)) = 1 := by
  have inv := (allInv_reach v _ s hr (allInv_init ops n m hm hok)).status
  obtain ⟨hntt, hf⟩ := closed_as_failed s.c inv hstop hfail
  have hcs : ctl.stop = false := by simp [Ctl.hasToStop] at hgo; exact hgo.1
  unfold execute
  simp only [hcs, Bool.false_eq_true, if_false]
  apply exitCode_of_mem_phaseFinished enabled _ p.idx (finalStatus s.c).1
    (if (finalStatus s.c).2 then some Reason.nothingToTest else if ctl.limit then some Reason.failureLimit else p.reason)
  · simp only [runPhases, hen, hgo, Bool.not_false, Bool.and_self, if_true, hrun, phaseRunOf]
    simp
  · exact hen'
  · exact hf

/-- **Converse, repaired consumer.** If such a phase ends without stop or limit and the fold says "not failed", then
    every operation of the phase has its closing event in the stream and none of those scenarios failed: exit code 0
    is only reachable through operations that were all run to completion and reported. -/
theorem clean_phase_means_all_operations_reported (ops : List Script) (n : Nat) (m : Option Nat) (s : St) (hn : 0 < n)
    (hm : m ≠ some 0) (hok : ∀ sc ∈ ops, ScriptOk sc)
    (hr : Reach .repaired (init ops n m) s) (hdone : s.c.pc = .done) (hns : s.c.ctl.hasToStop = false)
    (hclean : (finalStatus s.c).1.failing = false) :
    (∀ sc ∈ ops, finishedEv sc ∈ s.c.out) ∧ (∀ i st, Ev.scenFinished i st ∈ s.c.out → st.failing = false) ∧
      (∀ i, Ev.nonFatal i ∉ s.c.out) := by
  have hd := delivery_repaired ops n m s hn hr hdone hns
  have inv := (allInv_reach .repaired _ s hr (allInv_init ops n m hm hok)).status
  have hstop : s.c.ctl.stop = false := by simp [Ctl.hasToStop] at hns; exact hns.1
  refine ⟨hd.2.2, ?_, ?_⟩
  · intro i st hmem
    cases hf : st.failing with
    | false => rfl
    | true =>
      have := (closed_as_failed s.c inv hstop (Or.inl ⟨i, st, hmem, hf⟩)).2
      rw [hclean] at this; cases this
  · intro i hmem
    have := (closed_as_failed s.c inv hstop (Or.inr ⟨i, hmem⟩)).2
    rw [hclean] at this; cases this

/-! ### the stateful phase -/

open SV.Model.Stateful in
/-- The stateful consumer yields every event it obtains, in order, then (on Ctrl-C) `Interrupted`, then exactly one
    PhaseFinished; nothing is dropped or reordered. -/
theorem stateful_consumer_delivers (gets : List SEv) (ki : Bool) :
    ∃ st ntt, (consume gets ki).out = gets ++ (if ki then [.interrupted] else []) ++ [.phaseFinished st ntt] := by
  unfold consume close interrupt
  cases ki <;> simp [SV.Proofs.Stateful.foldl_got_out]

open SV.Model.Stateful in
/-- The stateful phase status dominates every non-skipped suite status: a failed (check failure, flaky) or errored
    (internal error ⇒ NonFatalError + SuiteFinished(ERROR)) suite makes the phase FAILURE / ERROR. -/
theorem stateful_status_dominates (gets : List SEv) (k : Nat) (st : Status)
    (hm : SEv.suiteFinished k st ∈ gets) (hsk : st ≠ .skip) :
    ∃ x ntt, (consume gets false).out.getLast? = some (.phaseFinished x ntt) ∧ st.rank ≤ x.rank ∧ ntt = false := by
  have hd := SV.Proofs.Stateful.foldl_got_dominates gets {} ⟨by simp, by simp⟩
  have hout := SV.Proofs.Stateful.foldl_got_out gets {}
  have hne : gets ≠ [] := by intro h; rw [h] at hm; cases hm
  have hex := SV.Proofs.Stateful.foldl_got_executed gets {} hne
  obtain ⟨x, hx, hr⟩ := hd.2 k st (by rw [hout]; simpa using hm) hsk
  refine ⟨x, false, ?_, hr, rfl⟩
  unfold consume close
  simp [hex, hx]

open SV.Model.Stateful in
/-- every way `InstrumentedStateMachine.run` can end other than a normal return, a skip or an interrupt closes its
    suite as FAILURE or ERROR, and an internal error additionally puts a NonFatalError -/
theorem stateful_run_end_reported (s : Suite) (h : s.ending ≠ .ok ∧ s.ending ≠ .skipTest ∧ s.ending ≠ .keyboardInterrupt ∧
      s.ending ≠ .unsatisfiableRetry ∧ s.ending ≠ .unsatisfiableGiveUp) :
    (endOf s).1.failing = true ∧ (s.ending = .otherException → SEv.nonFatal ∈ (endOf s).2.1) := by
  obtain ⟨h1, h2, h3, h4, h5⟩ := h
  unfold endOf
  cases he : s.ending <;> simp_all [Status.failing]
  split <;> simp

/-! ### the CLI reporting layer: `Statistic.on_scenario_finished` and `ExecutionContext.on_event`

`run h` is the store after the history `h` of finished scenarios; `allF` is what a consumer iterating
`ctx.statistic.failures` (FAILURES section, JUnit report, failure counters) reads.  Case ids are fresh random strings
(`generate_random_case_id`: 6 base-62 characters from an RNG of its own): the hypothesis `(caseIds h).Nodup` says that
they do not collide, and `distinct_case_ids_needed` shows it cannot be dropped. -/

section Store
open SV.Model.C05Stat SV.Spec.C05Stat SV.Proofs.C05Stat

/-- **No failure is lost by the store.** For every history of finished scenarios with pairwise distinct case ids,
    every failure carried by a failing check of any scenario is held by exactly one group of the final store — whatever
    came later under the same label (other phases, further stateful scenarios), the store only grows. -/
theorem statistic_keeps_every_failure (h : List Recorder) (hid : (caseIds h).Nodup) (r : Recorder) (f : Nat)
    (hr : r ∈ h) (hf : failsIn r f) : (allF (run h).failures).count f = 1 := by
  have hi := run_inv h hid f
  have ha := foldl_adds f h Stat.init r hr hf
  rw [hi]
  unfold ind
  unfold run
  simp [ha]

/-- the first scenario / case in which a failure of the history is seen exists and is a case of the history that
    carries it (so the next theorem is not vacuous) -/
theorem first_seen_exists (h : List Recorder) (r : Recorder) (f : Nat) (hr : r ∈ h) (hf : failsIn r f) :
    ∃ l c, firstSeen f h = some (l, c) ∧ (∃ r' ∈ h, r'.label = l ∧ c ∈ r'.cases) ∧ caseHas f c = true :=
  firstSeen_of_failsIn f h r hr hf

/-- **The failure is recorded with the request that caused it.** The group holding a failure is stored under the
    label of the scenario and the id of the case where the failure was first seen, names that case, carries that
    case's response and the code sample of one of that case's failing checks; `unique_failures_map` points to it. -/
theorem statistic_failure_with_its_request (h : List Recorder) (hid : (caseIds h).Nodup) (f l : Nat) (c : CaseRec)
    (hfs : firstSeen f h = some (l, c)) :
    heldAt (run h).failures l c f = true ∧ ndGet f (run h).unique = some c.id := by
  obtain ⟨⟨gs, g, h1, h2, h3, h4, h5, h6⟩, hu⟩ := foldl_location f l c h Stat.init (by simp [Stat.init, ndGet]) hfs hid
  refine ⟨?_, hu⟩
  unfold run
  simp only [heldAt, h1, h2]
  simp [h3, h4, h5, h6]

/-- nothing is reported twice and nothing is invented -/
theorem statistic_reports_nothing_else (h : List Recorder) (hid : (caseIds h).Nodup) (f : Nat) :
    (allF (run h).failures).count f ≤ 1 ∧ (f ∈ allF (run h).failures → ∃ r ∈ h, failsIn r f) := by
  have hi := run_inv h hid f
  refine ⟨by rw [hi]; exact ind_le_one _ _, ?_⟩
  intro hm
  have hpos : 0 < (allF (run h).failures).count f := List.count_pos_iff.2 hm
  rw [hi] at hpos
  have hsome : (ndGet f (run h).unique).isSome = true := by
    unfold ind at hpos
    split at hpos
    · assumption
    · cases hpos
  rcases foldl_unique_origin f h Stat.init hsome with h0 | h0
  · simp [Stat.init, ndGet] at h0
  · exact h0

/-- one more finished scenario never removes a failure from the store -/
theorem statistic_store_only_grows (h : List Recorder) (r : Recorder) (hid : (caseIds (h ++ [r])).Nodup) (f : Nat) :
    (allF (run h).failures).count f ≤ (allF (run (h ++ [r])).failures).count f := by
  have hid' : (caseIds h).Nodup := by
    have : caseIds (h ++ [r]) = caseIds h ++ caseIds [r] := by simp [caseIds]
    rw [this] at hid
    exact (List.nodup_append.1 hid).1
  rw [run_inv h hid' f, run_inv (h ++ [r]) hid f]
  have : run (h ++ [r]) = onScenarioFinished (run h) r := by simp [run, List.foldl_append]
  rw [this, osf_unique]
  exact ind_mono_acc (run h) r f

/-- the judge the harness applies to the store of the real `ExecutionContext` accepts the model's store -/
theorem statistic_satisfies_judge (h : List Recorder) (hid : (caseIds h).Nodup) :
    keepsAll h (run h).failures = true ∧ invented h (run h).failures = [] := by
  constructor
  · simp only [keepsAll, judge, List.all_map, List.all_eq_true]
    intro f hf
    obtain ⟨r, hr, hfi⟩ := failsIn_of_mem_failuresOf h f (List.mem_eraseDups.1 hf)
    obtain ⟨l, c, hfs, _⟩ := first_seen_exists h r f hr hfi
    have h1 := statistic_keeps_every_failure h hid r f hr hfi
    have h2 := (statistic_failure_with_its_request h hid f l c hfs).1
    simp [hfs, h1, h2]
  · simp only [invented, List.filter_eq_nil_iff]
    intro f hf
    obtain ⟨r, hr, c, hc, s, hs⟩ := (statistic_reports_nothing_else h hid f).2 hf
    have : f ∈ failuresOf h := by
      simp only [failuresOf, List.mem_flatMap, List.mem_filterMap]
      exact ⟨r, hr, c, hc, some (f, s), hs, rfl⟩
    simp [this]

/-- the case counters: `total_cases`, `cases_without_checks` count the cases of the history, and with distinct case
    ids `cases_with_failures` is the number of groups in the store -/
theorem statistic_counters (h : List Recorder) :
    (run h).total = casesTotal h ∧ (run h).withoutChecks = casesWithoutChecks h ∧
      ((caseIds h).Nodup → (run h).withFailures = groupCount (run h).failures) := by
  refine ⟨by simp [run, foldl_total, Stat.init], by simp [run, foldl_withoutChecks, Stat.init], ?_⟩
  intro hid
  apply foldl_withFailures h Stat.init [] _ _ (by simpa using hid) (by simp [Stat.init, groupCount])
  · intro f; simp [Stat.init, allF, ind, ndGet]
  · intro lg hlg; simp [Stat.init] at hlg

/-- **The hypothesis on case ids cannot be dropped**: two scenarios of one label that reuse a case id — the group of
    the first is overwritten and its failure is gone. -/
theorem distinct_case_ids_needed :
    ∃ (h : List Recorder) (r : Recorder) (f : Nat), r ∈ h ∧ failsIn r f ∧ (allF (run h).failures).count f = 0 :=
  ⟨[⟨3, [⟨10, [some (7, 100)], some 50⟩]⟩, ⟨3, [⟨10, [some (8, 101)], some 51⟩]⟩],
   ⟨3, [⟨10, [some (7, 100)], some 50⟩]⟩, 7, by simp, ⟨⟨10, [some (7, 100)], some 50⟩, by simp, 100, by simp⟩, by decide⟩

/-- **The class of the seeded change**: starting the per-label store of every scenario from an empty dict (instead of
    what is stored under the label) loses the failure of the earlier scenario as soon as a later scenario of the same
    label brings a new failure — with distinct case ids. -/
theorem overwrite_variant_loses_failure :
    ∃ (h : List Recorder) (r : Recorder) (f : Nat), (caseIds h).Nodup ∧ r ∈ h ∧ failsIn r f ∧
      (allF (runV .empty h).failures).count f = 0 ∧ (allF (runV .stored h).failures).count f = 1 :=
  ⟨[⟨3, [⟨10, [some (7, 100)], some 50⟩]⟩, ⟨3, [⟨11, [some (8, 101)], some 51⟩]⟩],
   ⟨3, [⟨10, [some (7, 100)], some 50⟩]⟩, 7, by decide, by simp,
   ⟨⟨10, [some (7, 100)], some 50⟩, by simp, 100, by simp⟩, by decide, by decide⟩

/-- non-vacuity: two phases of one operation (label 3) failing differently, then two stateful scenarios (label 9)
    where the second repeats a failure and brings a new one — every failure is held once, where it was first seen -/
example : let h : List Recorder :=
      [⟨3, [⟨10, [none, some (7, 100)], some 50⟩]⟩, ⟨3, [⟨11, [], none⟩, ⟨12, [some (7, 102), some (8, 102)], some 52⟩]⟩,
       ⟨9, [⟨13, [some (5, 103)], some 53⟩]⟩, ⟨9, [⟨14, [some (5, 104)], some 54⟩, ⟨15, [some (6, 105), none], some 55⟩]⟩]
    (caseIds h).Nodup ∧ (judge h (run h).failures) =
      [⟨7, 1, some (3, 10), true⟩, ⟨8, 1, some (3, 12), true⟩, ⟨5, 1, some (9, 13), true⟩, ⟨6, 1, some (9, 15), true⟩] ∧
    (run h).total = 6 ∧ (run h).withFailures = 4 ∧ (run h).withoutChecks = 1 := by decide

/-! ### `ExecutionContext.on_event`: the store and the exit code of a whole stream -/

open SV.Model.Plan in
/-- The CLI context after a stream: its exit code is the fold `exitCode` of the engine model over the stream with the
    recorders forgotten, and its store is the history of the recorders of the stream. -/
theorem cli_context_spec (enabled : Nat → Bool) (evs : List CEv) :
    (ctxRun enabled evs).exit = exitCode enabled (evs.map CEv.erase) ∧
    (ctxRun enabled evs).stat = run (recorders evs) :=
  ⟨foldl_onEvent_exit enabled evs {} rfl, foldl_onEvent_stat enabled evs {}⟩

open SV.Model.Plan in
/-- **A failing check reaches the report and the exit code.** In a stream (fresh case ids) containing a finished
    scenario of phase `i` one of whose checks failed with `f`, and the closing event of that enabled phase with the
    status FAILURE/ERROR (which `closed_as_failed` / `failing_scenario_gives_exit_1` establish for every schedule of
    the unit phase), the CLI ends with exit code 1 and its store holds `f` exactly once, under the scenario and case
    where it was first seen. -/
theorem failure_reaches_report_and_exit (enabled : Nat → Bool) (evs : List CEv)
    (hid : (caseIds (recorders evs)).Nodup) (i k : Nat) (st : Status) (r : Recorder) (f : Nat)
    (hs : CEv.scenario i k st r ∈ evs) (hf : failsIn r f)
    (hp : ∃ st' reason, CEv.plain (.phaseFinished i st' reason) ∈ evs ∧ enabled i = true ∧ st'.failing = true) :
    (ctxRun enabled evs).exit = 1 ∧ (allF (ctxRun enabled evs).stat.failures).count f = 1 ∧
      ∃ l c, firstSeen f (recorders evs) = some (l, c) ∧ heldAt (ctxRun enabled evs).stat.failures l c f = true := by
  obtain ⟨he, hst⟩ := cli_context_spec enabled evs
  obtain ⟨st', reason, hm, hen, hfl⟩ := hp
  have hr := mem_recorders evs i k st r hs
  refine ⟨?_, ?_, ?_⟩
  · rw [he]
    apply exitCode_of_mem_phaseFinished enabled _ i st' reason _ hen hfl
    exact List.mem_map.2 ⟨_, hm, rfl⟩
  · rw [hst]; exact statistic_keeps_every_failure _ hid r f hr hf
  · obtain ⟨l, c, hfs, _⟩ := first_seen_exists _ r f hr hf
    exact ⟨l, c, hfs, by rw [hst]; exact (statistic_failure_with_its_request _ hid f l c hfs).1⟩

open SV.Model.Plan in
/-- composition with the engine model: a CLI stream whose engine events are those of a plan whose first phase is an
    enabled unit phase that (under any schedule) yielded a failing scenario or an error ends with exit code 1 -/
theorem cli_exit_for_failing_unit_phase (v : Variant) (ops : List Script) (n : Nat) (m : Option Nat) (s : St)
    (hm : m ≠ some 0) (hok : ∀ sc ∈ ops, ScriptOk sc)
    (hr : Reach v (init ops n m) s) (hdone : s.c.pc = .done) (hstop : s.c.ctl.stop = false)
    (hfail : (∃ i st, Ev.scenFinished i st ∈ s.c.out ∧ st.failing = true) ∨ ∃ i, Ev.nonFatal i ∈ s.c.out)
    (runp : Nat → Ctl → PhaseRun) (p : PhaseCfg) (rest : List PhaseCfg) (ctl : Ctl)
    (hen : p.enabled = true) (hgo : ctl.hasToStop = false) (hrun : runp p.idx ctl = phaseRunOf s.c)
    (enabled : Nat → Bool) (hen' : enabled p.idx = true)
    (evs : List CEv) (hevs : evs.map CEv.erase = execute runp ctl (p :: rest)) :
    (ctxRun enabled evs).exit = 1 := by
  rw [(cli_context_spec enabled evs).1, hevs]
  exact failing_scenario_gives_exit_1 v ops n m s hm hok hr hdone hstop hfail runp p rest ctl hen hgo hrun enabled hen'

/-- non-vacuity of `failure_reaches_report_and_exit`: a FUZZING-like phase 3 with a failing scenario, closed as
    FAILURE -/
example : let evs : List CEv :=
      [.plain .engineStarted, .plain (.phaseStarted 3), .scenario 3 0 .failure ⟨1, [⟨10, [some (7, 100)], some 50⟩]⟩,
       .plain (.phaseFinished 3 .failure none), .plain .engineFinished]
    (caseIds (recorders evs)).Nodup ∧ (ctxRun (fun _ => true) evs).exit = 1 ∧
      (allF (ctxRun (fun _ => true) evs).stat.failures) = [7] := by decide

/-! ### `_execute`: the loop around `on_event` and the handlers, and `sys.exit` -/

open SV.Model.Plan in
/-- without a handler fault `_execute` exits with the fold of the engine model over the whole stream, and the handlers
    have seen the context of the whole stream -/
theorem cli_execute_no_fault (enabled : Nat → Bool) (evs : List CEv) :
    executeCli enabled none evs = (.exit (exitCode enabled (evs.map CEv.erase)), ctxRun enabled evs) := by
  unfold executeCli
  rw [execLoop_none]
  have := (cli_context_spec enabled evs).1
  unfold ctxRun at this ⊢
  rw [this]

open SV.Model.Plan in
/-- **Exit code 0 only for a clean run.** `_execute` ends with `sys.exit(0)` only if no handler raised while an event
    was delivered (a fault in event handling is never swallowed) and the stream holds no NonFatalError and no enabled
    phase finished FAILURE/ERROR. -/
theorem cli_exit_zero_only_if_clean (enabled : Nat → Bool) (fault : Option (Nat × Bool)) (evs : List CEv)
    (h : (executeCli enabled fault evs).1 = .exit 0) :
    (∀ k ab, fault = some (k, ab) → evs.length ≤ k) ∧ exitCode enabled (evs.map CEv.erase) = 0 := by
  obtain ⟨h1, h2⟩ := execLoop_exit0 enabled fault evs 0 {} h
  refine ⟨?_, ?_⟩
  · intro k ab hk
    rcases h1 k ab hk with h | h
    · omega
    · omega
  · rw [← (cli_context_spec enabled evs).1]; exact h2

/-- non-vacuity: a clean stream exits 0; the same stream with a handler raising at event 1 does not; `click.Abort`
    gives exit code 1 -/
example : let evs : List CEv := [.plain .engineStarted, .scenario 3 0 .success ⟨1, [⟨10, [none], some 50⟩]⟩,
      .plain (.phaseFinished 3 .success none), .plain .engineFinished]
    (executeCli (fun _ => true) none evs).1 = .exit 0 ∧ (executeCli (fun _ => true) (some (1, false)) evs).1 = .raised ∧
      (executeCli (fun _ => true) (some (1, true)) evs).1 = .exit 1 ∧
      (executeCli (fun _ => true) (some (7, false)) evs).1 = .exit 0 := by decide

end Store


/-! ### the stateful phase: the instrumented state machine -/

namespace StatefulMachine
open SV.Model.SM SV.Spec.SM

/-- **A new check failure in a stateful step is never lost.**  For every state of the stateful context and every step
    that gets as far as the call (no stop pending, not answered from the unique-input cache): if some configured check
    raises a failure that has not been seen in this suite nor marked as seen in the run (and no earlier check crashed),
    then the failure is recorded for the running scenario, the step does not return normally and the scenario status
    becomes FAILURE with the failure in the raised group — or ERROR if a later check crashed. -/
theorem new_failure_reported (m : MSt) (s : Step) (cs : List CheckOut) (f : FKey)
    (hgo : (requestStop m s.stopBefore).ctl.hasToStop = false) (hcache : lookup (requestStop m s.stopBefore) s.case = none)
    (hcall : s.call = .responds cs) (hf : f ∈ failsOf cs) (h1 : f ∉ m.seenSuite) (h2 : f ∉ m.seenRun) :
    (m.current.getD 0, f) ∈ (step m s).1.recorded ∧
    (((step m s).2 = .exception ∧ (step m s).1.stepStatus = some .error) ∨
     (∃ fs, (step m s).2 = .failureGroup fs ∧ f ∈ fs ∧ (step m s).1.stepStatus = some .failure)) :=
  SV.Proofs.SM.step_new_failure m s cs f hgo hcache hcall hf h1 h2

/-- **The scenario says so.**  A scenario whose run is ended by a failure group is closed as FAILURE, one ended by an
    error as ERROR, for every state and every list of steps Hypothesis runs. -/
theorem scenario_closed_as_failed (m : MSt) (sc : Scenario) (hs : sc.setupFails = false) (ht : sc.teardownFails = false) :
    (∀ fs, (runScenario m sc).2 = .failureGroup fs →
        (runScenario m sc).1.out = m.out ++ [.scenStarted m.nextId, .scenFinished m.nextId .failure]) ∧
    ((runScenario m sc).2 = .exception →
        (runScenario m sc).1.out = m.out ++ [.scenStarted m.nextId, .scenFinished m.nextId .error]) :=
  SV.Proofs.SM.runScenario_closing_status m sc hs ht

/-- **An intermittent internal error is reported (repaired Flaky arm).**  When a run ends Flaky although no check failed
    in the suite, the loop puts a `NonFatalError`, closes the suite as ERROR and stops. -/
theorem intermittent_error_reported_repaired (k : Nat) (m : MSt) (h : Quiet m) :
    (suiteStep .repaired k m flakyErrorRun).2 = false ∧
    (suiteStep .repaired k m flakyErrorRun).1.out =
      m.out ++ [.suiteStarted k, .scenStarted m.nextId, .scenFinished m.nextId .error, .scenStarted (m.nextId + 1),
                .scenFinished (m.nextId + 1) .success, .nonFatal, .suiteFinished k .error] :=
  SV.Proofs.SM.flakyErrorRun_repaired k m h

/-- as found: the same run is closed as FAILURE without any error event, and the loop goes on -/
theorem intermittent_error_asFound_not_reported :
    (suiteStep .asFound 0 {} flakyErrorRun).2 = true ∧ SV.Model.Stateful.SEv.nonFatal ∉ (suiteStep .asFound 0 {} flakyErrorRun).1.out ∧
    (suiteStep .asFound 0 {} flakyErrorRun).1.out.getLast? = some (.suiteFinished 0 .failure) := by
  decide

/-- non-vacuity of `new_failure_reported`: second check raises failures 7 and 8, 7 is already known from this suite -/
example : (step { seenSuite := [7], current := some 4 } ⟨1, false, .responds [.pass, .fail [7, 8]]⟩) =
    ({ seenSuite := [7, 8], current := some 4, recorded := [(4, 8)], calls := 1, stepStatus := some .failure }, .failureGroup [8]) := by
  decide

end StatefulMachine

end SV.Props.C05
