/-
  C05 — no failure or internal error is ever lost: it reaches the report and the exit code.
  Property theorems only; models in SV/Model/Engine.lean + Plan.lean, invariants in SV/Proofs/Engine.lean,
  tables regenerated from /repo in SV/Generated/Engine.lean.
-/
import SV.Proofs.Engine
import SV.Proofs.Stateful
import SV.Model.Plan
import SV.Generated.Engine

namespace SV.Props.C05
open SV.Model.Engine SV.Model.Plan SV.Proofs.Engine

/-! ### tables read from the source -/

/-- the model's status order is the one in engine/__init__.py -/
theorem status_order_matches_source :
    SV.Generated.Engine.statusOrder =
      [("SUCCESS", Status.success.rank), ("FAILURE", Status.failure.rank), ("ERROR", Status.error.rank),
       ("INTERRUPTED", Status.interrupted.rank), ("SKIP", Status.skip.rank)] := by decide

/-- every `except` arm of `run_test` other than skip / KeyboardInterrupt reports FAILURE or ERROR, the ladder ends in
    a catch-all `Exception` arm, and only a normal return of the test body yields SUCCESS -/
theorem ladder_total :
    (SV.Generated.Engine.ladder.all fun (names, statuses, ret) =>
      names.contains "SkipTest" || names.contains "KeyboardInterrupt" ||
        (!ret && !statuses.isEmpty && statuses.all fun s => s == "FAILURE" || s == "ERROR")) = true ∧
    (SV.Generated.Engine.ladder.getLast?.map (·.1)) = some ["Exception"] ∧
    SV.Generated.Engine.ladderBody = ["SUCCESS"] := by decide

/-- the CLI turns exactly NonFatalError and enabled FAILURE/ERROR phases into exit code 1 -/
theorem exit_rule_matches_source :
    SV.Generated.Engine.exitStatuses = ["ERROR", "FAILURE"] ∧ SV.Generated.Engine.exitOnNonFatal = true ∧
    SV.Generated.Engine.exitNeedsEnabled = true := by decide

/-! ### the status fold never hides a failure (all schedules, all stop points) -/

/-- In every reachable state of the unit phase, a yielded failing scenario or a yielded NonFatalError forces the
    running phase status to FAILURE/ERROR/INTERRUPTED, and INTERRUPTED only after a stop request. -/
theorem fold_never_hides (v : Variant) (ops : List Script) (n : Nat) (m : Option Nat) (s : St)
    (hm : m ≠ some 0) (hok : ∀ sc ∈ ops, ScriptOk sc)
    (hr : Reach v (init ops n m) s) :
    (∀ i st, Ev.scenFinished i st ∈ s.c.out → st.failing = true →
        ∃ x, s.c.status = some x ∧ 1 ≤ x.rank ∧ x ≠ .skip ∧ (x = .interrupted → s.c.ctl.stop = true)) ∧
    (∀ i, Ev.nonFatal i ∈ s.c.out →
        ∃ x, s.c.status = some x ∧ 2 ≤ x.rank ∧ x ≠ .skip ∧ (x = .interrupted → s.c.ctl.stop = true)) := by
  have inv := (allInv_reach v _ s hr (allInv_init ops n m hm hok)).status
  constructor
  · intro i st hmem hf
    have hsk : st ≠ .skip := by intro h; subst h; simp [Status.failing] at hf
    obtain ⟨x, hx, hrk⟩ := inv.fin i st hmem hsk
    refine ⟨x, hx, ?_, ?_, ?_⟩
    · have : 1 ≤ st.rank := by cases st <;> simp [Status.failing, Status.rank] at *
      omega
    · intro h; subst h; exact inv.notSkip hx
    · intro h; subst h; exact inv.intr hx
  · intro i hmem
    obtain ⟨x, hx, hrk⟩ := inv.err i hmem
    refine ⟨x, hx, hrk, ?_, ?_⟩
    · intro h; subst h; exact inv.notSkip hx
    · intro h; subst h; exact inv.intr hx

/-- the closing events carry exactly the folded status -/
theorem closing_events (c : CSt) :
    (cClose c).out = c.out ++ [.suiteFinished (finalStatus c).1, .phaseFinished (finalStatus c).1 (finalStatus c).2] := by
  simp [cClose]

/-- a phase that yielded a worker event is never closed as "nothing to test" and, if that event was a failing
    scenario or an error and no stop was requested, is closed as FAILURE or ERROR -/
theorem closed_as_failed (c : CSt) (inv : StatusInv c) (hstop : c.ctl.stop = false)
    (h : (∃ i st, Ev.scenFinished i st ∈ c.out ∧ st.failing = true) ∨ ∃ i, Ev.nonFatal i ∈ c.out) :
    (finalStatus c).2 = false ∧ (finalStatus c).1.failing = true := by
  have hex : c.executed = true := by
    rcases h with ⟨i, st, hm, _⟩ | ⟨i, hm⟩
    · exact inv.exec ⟨_, hm, rfl⟩
    · exact inv.exec ⟨_, hm, rfl⟩
  have : ∃ x, c.status = some x ∧ 1 ≤ x.rank := by
    rcases h with ⟨i, st, hm, hf⟩ | ⟨i, hm⟩
    · have hsk : st ≠ .skip := by intro h; subst h; simp [Status.failing] at hf
      obtain ⟨x, hx, hr⟩ := inv.fin i st hm hsk
      have : 1 ≤ st.rank := by cases st <;> simp [Status.failing, Status.rank] at *
      exact ⟨x, hx, by omega⟩
    · obtain ⟨x, hx, hr⟩ := inv.err i hm
      exact ⟨x, hx, by omega⟩
  obtain ⟨x, hx, hr⟩ := this
  have hns : x ≠ .skip := by intro h; subst h; exact inv.notSkip hx
  have hni : x ≠ .interrupted := by
    intro h; subst h; have := inv.intr hx; rw [hstop] at this; cases this
  simp only [finalStatus, hex, hx]
  cases x <;> simp [Status.failing, Status.rank] at *

/-! ### delivery: nothing a worker reports is lost (all schedules) -/

/-- **Repaired consumer.** In every run that reaches the end of the phase without a stop request or failure limit,
    the queue is empty, every event ever put by a worker was yielded in order, and every operation's closing event
    (its ScenarioFinished, or the lone NonFatalError of a load error) is in the stream. -/
theorem delivery_repaired (ops : List Script) (n : Nat) (m : Option Nat) (s : St) (hn : 0 < n)
    (hr : Reach .repaired (init ops n m) s) (hdone : s.c.pc = .done) (hns : s.c.ctl.hasToStop = false) :
    s.queue = [] ∧ yieldedW s.c.out = s.hist ∧ ∀ sc ∈ ops, finishedEv sc ∈ s.c.out := by
  have hcl := closingInv_reach _ s hr (closingInv_init ops n m) (Or.inr hdone)
  rw [hns] at hcl
  obtain ⟨hdead, hq⟩ : allDead s.ws = true ∧ s.queue = [] := by
    rcases hcl with h | h
    · cases h
    · exact h
  have hh := histInv_reach _ _ s hr (histInv_init ops n m)
  obtain ⟨d, hd, hy⟩ := hh.split
  have hstop : s.c.ctl.stop = false := by
    simp [Ctl.hasToStop] at hns; exact hns.1
  have hyd : yieldedW s.c.out = d := by
    rcases hy with h | ⟨h, _⟩
    · exact h
    · rw [hstop] at h; cases h
  have hhist : yieldedW s.c.out = s.hist := by rw [hd, hq, hyd]; simp
  refine ⟨hq, hhist, ?_⟩
  intro sc hsc
  have hne : s.ws ≠ [] := ws_ne_nil_reach _ _ s hr (by
    simp only [init]; intro h; have := congrArg List.length h; simp at this; omega)
  have hops : s.ops = [] := by
    obtain ⟨w, hw⟩ := List.exists_mem_of_ne_nil _ hne
    have hwd : w.st = .dead := by
      simp only [allDead, List.all_eq_true] at hdead
      simpa using hdead w hw
    rcases deadInv_reach _ _ s hr (deadInv_init ops n m) w hw hwd with h | h
    · rw [hns] at h; cases h
    · exact h
  rcases scriptInv_reach _ sc _ s hr (scriptInv_init ops n m sc hsc) with h | ⟨w, hw, pc, hst, _⟩ | h | h
  · rw [hops] at h; cases h
  · exfalso
    simp only [allDead, List.all_eq_true] at hdead
    have := hdead w hw
    rw [hst] at this
    simp at this
  · have : finishedEv sc ∈ yieldedW s.c.out := by rw [hhist]; exact h
    exact (List.mem_filter.1 this).1
  · rw [hns] at h; cases h

/-- **Pinned snapshot.** The same statement is false for the consumer as found: one worker, one passing operation —
    the consumer times out on the empty queue, the worker then reports its scenario and exits, the consumer sees no
    live worker and leaves. Both events are lost and the phase is closed as "nothing to test". -/
def lostTrace : List Label :=
  [.cStart, .worker 0, .worker 0, .cEmpty, .worker 0, .worker 0, .worker 0, .worker 0, .worker 0, .worker 0,
   .cAlive, .cJoined]

theorem delivery_asFound_false :
    ∃ s, Reach .asFound (init [⟨7, 0, 0, .success, false⟩] 1 none) s ∧ s.c.pc = .done ∧
      s.c.ctl.hasToStop = false ∧ s.queue = [.scenStarted 7, .scenFinished 7 .success] ∧
      s.c.out = [.suiteStarted, .suiteFinished .skip, .phaseFinished .skip true] := by
  have h : ∃ s, fireAll .asFound (init [⟨7, 0, 0, .success, false⟩] 1 none) lostTrace = some s ∧ s.c.pc = .done ∧
      s.c.ctl.hasToStop = false ∧ s.queue = [.scenStarted 7, .scenFinished 7 .success] ∧
      s.c.out = [.suiteStarted, .suiteFinished .skip, .phaseFinished .skip true] := by
    decide
  obtain ⟨s, hf, rest⟩ := h
  exact ⟨s, fireAll_reach _ _ _ s _ Reach.refl hf, rest⟩

/-- the same schedule is harmless for the repaired consumer: it goes back to the loop instead of leaving -/
theorem repaired_survives_lostTrace :
    (fireAll .repaired (init [⟨7, 0, 0, .success, false⟩] 1 none) (lostTrace.take 11)).map (·.c.pc) = some .loop := by
  decide

/-! ### exit code -/

/-- exit code 1 ⇔ some NonFatalError or some enabled phase finished FAILURE/ERROR -/
theorem exit_code_spec (enabled : Nat → Bool) (evs : List PEv) :
    exitCode enabled evs = 1 ↔
      (∃ i j, PEv.inner i (.nonFatal j) ∈ evs) ∨
      (∃ i st r, PEv.phaseFinished i st r ∈ evs ∧ enabled i = true ∧ st.failing = true) := by
  induction evs with
  | nil => simp [exitCode]
  | cons e rest ih =>
    cases e with
    | inner i x =>
      cases x with
      | nonFatal j => simp [exitCode]; exact Or.inl ⟨i, j, Or.inl ⟨rfl, rfl⟩⟩
      | _ => simp only [exitCode, ih]; simp
    | phaseFinished i st r =>
      by_cases hc : (enabled i && st.failing) = true
      · simp only [exitCode, hc, if_true, true_iff]
        simp at hc
        exact Or.inr ⟨i, st, r, by simp, hc.1, hc.2⟩
      · simp only [exitCode, hc, Bool.false_eq_true, if_false, ih]
        simp at hc
        constructor
        · rintro (⟨a, b, h⟩ | ⟨a, st', r', h, h2, h3⟩)
          · exact Or.inl ⟨a, b, by simp [h]⟩
          · exact Or.inr ⟨a, st', r', by simp [h], h2, h3⟩
        · rintro (⟨a, b, h⟩ | ⟨a, st', r', h, h2, h3⟩)
          · simp at h; exact Or.inl ⟨a, b, h⟩
          · simp at h
            rcases h with ⟨rfl, rfl, rfl⟩ | h
            · exfalso; have := hc h2; rw [this] at h3; cases h3
            · exact Or.inr ⟨a, st', r', h, h2, h3⟩
    | engineStarted => simp only [exitCode, ih]; simp
    | phaseStarted i => simp only [exitCode, ih]; simp
    | interrupted => simp only [exitCode, ih]; simp
    | engineFinished => simp only [exitCode, ih]; simp

/-- exit code is 0 or 1 -/
theorem exit_code_range (enabled : Nat → Bool) (evs : List PEv) : exitCode enabled evs = 0 ∨ exitCode enabled evs = 1 := by
  induction evs with
  | nil => simp [exitCode]
  | cons e rest ih =>
    cases e with
    | inner i x => cases x <;> simp [exitCode, ih]
    | phaseFinished i st r => simp only [exitCode]; split <;> simp [ih]
    | _ => simpa [exitCode] using ih

/-- non-vacuity: the hypotheses of `delivery_repaired` are met by a real terminal state (one worker, two operations,
    one of them failing) and the failing scenario is in the stream -/
example : ∃ s, fireAll .repaired (init [⟨1, 1, 0, .failure, false⟩, ⟨2, 0, 0, .success, false⟩] 1 none)
      [.cStart, .worker 0, .worker 0, .worker 0, .worker 0, .worker 0, .worker 0, .worker 0, .worker 0,
       .cGot false, .cGot false, .worker 0, .worker 0, .worker 0, .worker 0, .worker 0, .worker 0, .cGot false, .cGot false,
       .worker 0, .worker 0, .cEmpty, .cAlive, .cJoined] = some s ∧
      s.c.pc = .done ∧ s.c.ctl.hasToStop = false ∧ Ev.scenFinished 1 .failure ∈ s.c.out ∧
      s.c.out.getLast? = some (.phaseFinished .failure false) := by
  decide

/-! ### end to end: from any schedule of a unit phase to the process exit code -/

/-- the result of a finished unit phase as the plan sees it: what it yielded before its closing PhaseFinished, the
    status and "nothing to test" flag of that event, and the control state left behind -/
def phaseRunOf (c : CSt) : PhaseRun :=
  { evs := c.out.dropLast, status := (finalStatus c).1, nothingToTest := (finalStatus c).2, ctl := c.ctl }

theorem exitCode_append_one (enabled : Nat → Bool) (a b : List PEv) (h : exitCode enabled a = 1) :
    exitCode enabled (a ++ b) = 1 := by
  rw [exit_code_spec] at h ⊢
  rcases h with ⟨i, j, hm⟩ | ⟨i, st, r, hm, h2, h3⟩
  · exact Or.inl ⟨i, j, by simp [hm]⟩
  · exact Or.inr ⟨i, st, r, by simp [hm], h2, h3⟩

theorem exitCode_of_mem_phaseFinished (enabled : Nat → Bool) (evs : List PEv) (i : Nat) (st : Status) (r : Option Reason)
    (hm : PEv.phaseFinished i st r ∈ evs) (he : enabled i = true) (hf : st.failing = true) : exitCode enabled evs = 1 :=
  (exit_code_spec enabled evs).2 (Or.inr ⟨i, st, r, hm, he, hf⟩)

/-- **End to end, all schedules.** Take a plan whose first runnable phase `p` is an enabled unit phase, and let that
    phase end in *any* terminal state `s` reachable by the LTS (any number of workers, any interleaving) without a stop
    request. If the stream of that phase contains a failing scenario or a NonFatalError, the process exit code is 1. -/
theorem failing_scenario_gives_exit_1 (v : Variant) (ops : List Script) (n : Nat) (m : Option Nat) (s : St)
    (hm : m ≠ some 0) (hok : ∀ sc ∈ ops, ScriptOk sc)
    (hr : Reach v (init ops n m) s) (_hdone : s.c.pc = .done) (hstop : s.c.ctl.stop = false)
    (hfail : (∃ i st, Ev.scenFinished i st ∈ s.c.out ∧ st.failing = true) ∨ ∃ i, Ev.nonFatal i ∈ s.c.out)
    (run : Nat → Ctl → PhaseRun) (p : PhaseCfg) (rest : List PhaseCfg) (ctl : Ctl)
    (hen : p.enabled = true) (hgo : ctl.hasToStop = false) (hrun : run p.idx ctl = phaseRunOf s.c)
    (enabled : Nat → Bool) (hen' : enabled p.idx = true) :
    exitCode enabled (execute run ctl (p :: rest)) = 1 := by
  have inv := (allInv_reach v _ s hr (allInv_init ops n m hm hok)).status
  obtain ⟨hntt, hf⟩ := closed_as_failed s.c inv hstop hfail
  have hcs : ctl.stop = false := by simp [Ctl.hasToStop] at hgo; exact hgo.1
  unfold execute
  simp only [hcs, Bool.false_eq_true, if_false]
  apply exitCode_of_mem_phaseFinished enabled _ p.idx (finalStatus s.c).1
    (if (finalStatus s.c).2 then some Reason.nothingToTest else if ctl.limit then some Reason.failureLimit else p.reason)
  · simp only [runPhases, hen, hgo, Bool.not_false, Bool.and_self, if_true, hrun, phaseRunOf]
    simp
  · exact hen'
  · exact hf

/-- **Converse, repaired consumer.** If such a phase ends without stop or limit and the fold says "not failed", then
    every operation of the phase has its closing event in the stream and none of those scenarios failed: exit code 0
    is only reachable through operations that were all run to completion and reported. -/
theorem clean_phase_means_all_operations_reported (ops : List Script) (n : Nat) (m : Option Nat) (s : St) (hn : 0 < n)
    (hm : m ≠ some 0) (hok : ∀ sc ∈ ops, ScriptOk sc)
    (hr : Reach .repaired (init ops n m) s) (hdone : s.c.pc = .done) (hns : s.c.ctl.hasToStop = false)
    (hclean : (finalStatus s.c).1.failing = false) :
    (∀ sc ∈ ops, finishedEv sc ∈ s.c.out) ∧ (∀ i st, Ev.scenFinished i st ∈ s.c.out → st.failing = false) ∧
      (∀ i, Ev.nonFatal i ∉ s.c.out) := by
  have hd := delivery_repaired ops n m s hn hr hdone hns
  have inv := (allInv_reach .repaired _ s hr (allInv_init ops n m hm hok)).status
  have hstop : s.c.ctl.stop = false := by simp [Ctl.hasToStop] at hns; exact hns.1
  refine ⟨hd.2.2, ?_, ?_⟩
  · intro i st hmem
    cases hf : st.failing with
    | false => rfl
    | true =>
      have := (closed_as_failed s.c inv hstop (Or.inl ⟨i, st, hmem, hf⟩)).2
      rw [hclean] at this; cases this
  · intro i hmem
    have := (closed_as_failed s.c inv hstop (Or.inr ⟨i, hmem⟩)).2
    rw [hclean] at this; cases this

/-! ### the stateful phase -/

open SV.Model.Stateful in
/-- The stateful consumer yields every event it obtains, in order, then (on Ctrl-C) `Interrupted`, then exactly one
    PhaseFinished; nothing is dropped or reordered. -/
theorem stateful_consumer_delivers (gets : List SEv) (ki : Bool) :
    ∃ st ntt, (consume gets ki).out = gets ++ (if ki then [.interrupted] else []) ++ [.phaseFinished st ntt] := by
  unfold consume close interrupt
  cases ki <;> simp [SV.Proofs.Stateful.foldl_got_out]

open SV.Model.Stateful in
/-- The stateful phase status dominates every non-skipped suite status: a failed (check failure, flaky) or errored
    (internal error ⇒ NonFatalError + SuiteFinished(ERROR)) suite makes the phase FAILURE / ERROR. -/
theorem stateful_status_dominates (gets : List SEv) (k : Nat) (st : Status)
    (hm : SEv.suiteFinished k st ∈ gets) (hsk : st ≠ .skip) :
    ∃ x ntt, (consume gets false).out.getLast? = some (.phaseFinished x ntt) ∧ st.rank ≤ x.rank ∧ ntt = false := by
  have hd := SV.Proofs.Stateful.foldl_got_dominates gets {} ⟨by simp, by simp⟩
  have hout := SV.Proofs.Stateful.foldl_got_out gets {}
  have hne : gets ≠ [] := by intro h; rw [h] at hm; cases hm
  have hex := SV.Proofs.Stateful.foldl_got_executed gets {} hne
  obtain ⟨x, hx, hr⟩ := hd.2 k st (by rw [hout]; simpa using hm) hsk
  refine ⟨x, false, ?_, hr, rfl⟩
  unfold consume close
  simp [hex, hx]

open SV.Model.Stateful in
/-- every way `InstrumentedStateMachine.run` can end other than a normal return, a skip or an interrupt closes its
    suite as FAILURE or ERROR, and an internal error additionally puts a NonFatalError -/
theorem stateful_run_end_reported (s : Suite) (h : s.ending ≠ .ok ∧ s.ending ≠ .skipTest ∧ s.ending ≠ .keyboardInterrupt ∧
      s.ending ≠ .unsatisfiableRetry ∧ s.ending ≠ .unsatisfiableGiveUp) :
    (endOf s).1.failing = true ∧ (s.ending = .otherException → SEv.nonFatal ∈ (endOf s).2.1) := by
  obtain ⟨h1, h2, h3, h4, h5⟩ := h
  unfold endOf
  cases he : s.ending <;> simp_all [Status.failing]

end SV.Props.C05
