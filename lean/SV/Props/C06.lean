/-
  C06 — the HTTP request on the wire is exactly the generated case.  Property theorems only.
-/
import SV.Proofs.C06
import SV.Proofs.C06Style
import SV.Proofs.C06Url
import SV.Proofs.C06Headers
import SV.Proofs.C06Session
import SV.Proofs.C06Template
import SV.Proofs.C06Entries

namespace SV.Props.C06
open SV.Model.C06 SV.Spec.C06 SV.Proofs.C06

/-- RFC 3986 round trip, all byte strings, every `safe` set that does not contain "%":
    strict percent-decoding of `quote(bs, safe)` gives back `bs`. -/
theorem pct_roundtrip (safe : Nat → Bool) (hs : safe 37 = false) (bs : Bytes) (hb : IsBytes bs) :
    pctDecode (quoteWith safe bs) = some bs :=
  pctDecode_quoteWith safe hs bs hb

/-! ### path parameter values (F12) -/

/-- What the code as found puts on the wire, exactly: every generated path value is received with its spaces
    replaced by "+" (and otherwise intact), for all byte strings. -/
theorem path_asFound_exact (bs : Bytes) (hb : IsBytes bs) :
    decodeSegment (pathSegment .asFound (.str bs)) = some (bs.map spaceToPlus) := by
  simp only [pathSegment, quoteAll, jsonifyTop, formatVal, quoteAllStr]
  by_cases h1 : bs = [46]
  · subst h1; decide
  · by_cases h2 : bs = [46, 46]
    · subst h2; decide
    · simp only [beq_iff_eq, h1, h2, if_false, quotePlus_eq, decodeSegment, plusflat_segment bs hb, if_true,
        pctDecode_plusflat bs hb]

/-- Full statement for the repaired `quote_all` (`quote(value, safe="")`): every byte string is recovered. -/
theorem path_roundtrip_repaired : PathRoundtrip .repaired := by
  intro bs hb
  simp only [pathSegment, quoteAll, jsonifyTop, formatVal, quoteAllStr]
  by_cases h1 : bs = [46]
  · subst h1; decide
  · by_cases h2 : bs = [46, 46]
    · subst h2; decide
    · simp only [beq_iff_eq, h1, h2, if_false, decodeSegment, quoteStrict_segment bs hb, if_true]
      exact pctDecode_quoteWith safeNone rfl bs hb

/-- The full statement is false for the code as found: "a b" is received as "a+b". -/
theorem path_roundtrip_full_false : ¬ PathRoundtrip .asFound := by
  intro h
  have := h [97, 32, 98] (by intro b hb; simp at hb; omega)
  revert this
  decide

/-- Strongest statement for the code as found: values without a space are recovered. -/
theorem path_roundtrip_partial (bs : Bytes) (hb : IsBytes bs) (hsp : 32 ∉ bs) :
    decodeSegment (pathSegment .asFound (.str bs)) = some bs := by
  rw [path_asFound_exact bs hb, map_spaceToPlus_id bs hsp]

/-- non-vacuity of `path_roundtrip_partial`: a non-trivial value with reserved and non-ASCII bytes, and "." -/
example : decodeSegment (pathSegment .asFound (.str [47, 37, 195, 169, 43])) = some [47, 37, 195, 169, 43] ∧
    decodeSegment (pathSegment .asFound (.str [46])) = some [46] ∧ pathSegment .asFound (.str [46]) = [37, 50, 69] := by
  decide

/-- **UTF-8 round trip** (RFC 3629): the strict decoder recovers every string of Unicode scalar values. -/
theorem utf8_roundtrip (s : Str) (h : ∀ c ∈ s, isScalar c = true) : utf8Decode (utf8 s) = some s :=
  utf8Decode_utf8 s h

/-- **Path values as text.**  For every Unicode string (scalar values; surrogates are filtered by `is_valid_path`):
    percent-decoding the segment written by the repaired `quote_all` and UTF-8-decoding the bytes gives the
    generated string; as found, the same holds for strings without a space. -/
theorem path_text_roundtrip (v : Variant) (s : Str) (h : ∀ c ∈ s, isScalar c = true)
    (hv : v = .repaired ∨ 32 ∉ s) :
    (decodeSegment (pathSegment v (.str (utf8 s)))).bind utf8Decode = some s := by
  have hb := utf8_isBytes s h
  have hseg : decodeSegment (pathSegment v (.str (utf8 s))) = some (utf8 s) := by
    cases v
    · rcases hv with hv | hv
      · cases hv
      · apply path_roundtrip_partial _ hb
        intro hm
        simp only [utf8, List.mem_flatMap] at hm
        obtain ⟨c, hc, hmc⟩ := hm
        have : c = 32 := by
          unfold utf8Char at hmc
          split at hmc
          · simp at hmc; exact hmc.symm
          · split at hmc
            · simp at hmc; omega
            · split at hmc
              · simp at hmc; omega
              · simp at hmc; omega
        exact hv (this ▸ hc)
    · exact path_roundtrip_repaired _ hb
  rw [hseg]
  exact utf8Decode_utf8 s h

/-! ### URL composition: `prepare_url` = base path ⧺ "/" ⧺ instantiated template -/

/-- **URL join.**  For every base path made of clean segments (with its trailing slash) and every instantiated path
    template made of clean segments, `unquote(urljoin(base, quote(path.lstrip("/"))))` is exactly the base segments
    followed by the path segments, joined by "/" — nothing normalised away, nothing re-encoded. -/
theorem url_join (bsegs psegs : List Bytes) (hb : BaseOk bsegs) (hp : PathOk psegs) :
    prepareUrlPath (slashJoin ([] :: bsegs ++ [[]])) (47 :: slashJoin psegs) = slashJoin ([] :: bsegs ++ psegs) := by
  simp only [slashJoin_eq]
  exact prepareUrlPath_clean bsegs psegs hb hp

/-- a base path without its trailing slash gives the same URL (`if not base_url.endswith("/"): base_url += "/"`) -/
theorem url_join_trailing_slash (bpath path : Bytes) (h : lastD 0 bpath ≠ 47) :
    prepareUrlPath bpath path = prepareUrlPath (bpath ++ [47]) path := by
  have h1 : (lastD 0 bpath == 47) = false := by simpa using h
  have h2 : (lastD 0 (bpath ++ [47]) == 47) = true := by simp [lastD_append_singleton]
  simp only [prepareUrlPath, h1, h2, Bool.false_eq_true, if_false, if_true]

/-- every generated path value (any non-empty byte string, either variant of `quote_all`) is written as one clean
    segment: no "/", never a dot-segment ("." and ".." are spelled `%2E`, `%2E%2E`), never empty — so `url_join`
    applies to all of them and the path structure of the template survives. -/
theorem path_value_is_clean_segment (v : Variant) (bs : Bytes) (hb : IsBytes bs) (hne : bs ≠ []) :
    47 ∉ pathSegment v (.str bs) ∧ pathSegment v (.str bs) ≠ [46] ∧ pathSegment v (.str bs) ≠ [46, 46] ∧
    IsBytes (pathSegment v (.str bs)) ∧ pathSegment v (.str bs) ≠ [] :=
  pathSegment_clean v bs hb hne

/-- non-vacuity of `url_join`, and the reason for the `%2E` spelling: base "/api/", template "/u/{id}/x".
    The value "." written `%2E` survives; a literal "." would be removed by `urljoin`. -/
theorem dot_value_survives :
    prepareUrlPath [47, 97, 112, 105, 47] [47, 117, 47, 37, 50, 69, 47, 120] = [47, 97, 112, 105, 47, 117, 47, 37, 50, 69, 47, 120] ∧
    prepareUrlPath [47, 97, 112, 105, 47] [47, 117, 47, 46, 47, 120] = [47, 97, 112, 105, 47, 117, 47, 120] := by
  decide

/-- `BaseOk` is necessary: a percent-encoded "/" inside the configured base URL is decoded by the final `unquote`
    ("/a%2Fb" becomes "/a/b/…": the request goes to another path than configured). -/
theorem base_percent_encoding_lost :
    prepareUrlPath [47, 97, 37, 50, 70, 98] [47, 117] = [47, 97, 47, 98, 47, 117] := by
  decide

example : BaseOk [[97, 112, 105]] ∧ PathOk [[117], [37, 50, 69], [120]] := by
  refine ⟨?_, by simp, ?_, ?_⟩
  · intro s hs; simp at hs; subst hs; decide
  · intro s hs
    simp at hs
    rcases hs with rfl | rfl | rfl <;> refine ⟨by decide, by decide, by decide, ?_⟩ <;> intro b hb <;> simp at hb <;> omega
  · intro s hs
    simp [dropLast] at hs
    rcases hs with rfl | rfl <;> decide

/-- **The path on the wire is the template with every variable replaced by its percent-encoded value.**
    For every clean base path, every template of literal segments and variables, every non-empty byte-string value:
    the URL path that `prepare_url` returns splits into exactly the base segments followed by the template's segments,
    and a conforming server reads every literal as itself and every variable as its generated value —
    for the repaired `quote_all`; as found, for values without a space. -/
theorem wire_path (v : Variant) (bsegs : List Bytes) (ts : List TSeg) (hb : BaseOk bsegs) (ht : TemplateOk ts)
    (hv : v = .repaired ∨ ∀ bs, TSeg.val bs ∈ ts → 32 ∉ bs) :
    segments (prepareUrlPath (slashJoin ([] :: bsegs ++ [[]])) (47 :: slashJoin (ts.map (instSeg v))))
      = [] :: bsegs ++ ts.map (instSeg v) ∧
    ∀ t ∈ ts, decodeSegment (instSeg v t) = some (expectSeg t) := by
  have hp := pathOk_of_template v ts ht
  constructor
  · rw [url_join bsegs _ hb hp, segments_eq_splitSlash, slashJoin_eq]
    apply splitSlash_joinSlash _ (by simp)
    intro x hx
    simp only [List.cons_append, List.mem_cons, List.mem_append] at hx
    rcases hx with rfl | hx | hx
    · simp
    · exact (hb x hx).2.2.2.1
    · exact (hp.2.1 x hx).1
  · intro t hmem
    have hok := ht.2.1 t hmem
    cases t with
    | lit s => exact decodeSegment_lit s hok.1
    | val bs =>
      simp only [instSeg, expectSeg]
      rcases hv with rfl | hsp
      · exact path_roundtrip_repaired bs hok.1
      · cases v
        · exact path_roundtrip_partial bs hok.1 (hsp bs hmem)
        · exact path_roundtrip_repaired bs hok.1

/-- non-vacuity of `wire_path`: base "/api", template "/u/{id}/x", id = "é/." -/
example : TemplateOk [.lit [117], .val [195, 169, 47, 46], .lit [120]] := by
  refine ⟨by simp, ?_, ?_⟩
  · intro t ht
    simp at ht
    rcases ht with rfl | rfl | rfl
    · exact ⟨by decide, by decide, by decide⟩
    · exact ⟨by intro b hb; simp at hb; omega, by simp⟩
    · exact ⟨by decide, by decide, by decide⟩
  · intro t ht
    simp [dropLast] at ht
    rcases ht with rfl | rfl <;> simp

/-! ### parameter styles: decoder ∘ serializer = coercion (F13 and the style table) -/

/-- **Style round trip, general form** (all cells, all names, all values).  For every cell of the
    location × style × explode × type table that denotes a single string and that the serializer handles
    (`goodCell`: all of them once both table sites are repaired; all but `knownBadCell` as found), every value of the declared
    type that satisfies the no-delimiter hypothesis `Decodable` and (as found) contains no boolean / null:
    the wire text is defined and the reference decoder of the declared style returns the coerced value. -/
theorem style_roundtrip (vt vm vs : Variant) (c : Cell) (name : Str) (x : Val) (sh : Shape)
    (hgood : goodCell vt vm c = true) (hsh : cellShape c = some sh) (hd : Decodable name sh x) (hs : StrOk vs x) :
    ∃ w, cellWire vt vm vs c name x = some w ∧ decodeCell c name w = some (coerce x) := by
  simp only [decodeCell, hsh, Option.bind_some]
  obtain ⟨loc, style, explode, ty⟩ := c
  cases vt <;> cases vm <;> cases loc <;> rcases style with _ | (_|_|_|_|_|_|_|_) <;> rcases explode with _ | _ | _ <;> cases ty <;>
  first
    | exact absurd hgood (by decide)
    | (have := Option.some.inj hsh; subst this
       first
        | exact cell_via_single' rfl rfl hd hs
        | exact cell_via_toString' rfl rfl hd hs
        | exact cell_plain_nil' rfl hd
        | exact cell_plain_toString' rfl hd hs)

/-- Full statement with both sites repaired. -/
theorem style_roundtrip_repaired : StyleRoundtrip .repaired .repaired .repaired := by
  intro c name x sh hsingle hsh hd
  exact style_roundtrip .repaired .repaired .repaired c name x sh (by simp [goodCell, hsingle]) hsh hd (Or.inl rfl)

/-- The full statement is false for the code as found: `matrix`, `explode: false`, `["x","y"]` for parameter `p` is
    written `;x,y` — without `p=` — which the matrix decoder rejects. -/
theorem style_roundtrip_full_false : ¬ StyleRoundtrip .asFound .asFound .asFound := by
  intro h
  obtain ⟨w, hw, hdec⟩ := h ⟨.path, some .matrix, some false, .array⟩ [112] (.arr [.str [120], .str [121]]) .matrixList
    (by decide) (by decide) (by refine ⟨⟨by simp, ?_⟩, by simp [spell]⟩; intro x hx; simp at hx; rcases hx with rfl | rfl <;> simp [spell])
  have : w = [59, 120, 44, 121] := by
    have : cellWire .asFound .asFound .asFound ⟨.path, some .matrix, some false, .array⟩ [112] (.arr [.str [120], .str [121]])
        = some [59, 120, 44, 121] := by decide
    rw [this] at hw; exact (Option.some.inj hw).symm
  subst this
  revert hdec
  decide

/-- Strongest statement for the code as found (the partial form): outside the known-bad cells, for values without
    booleans / null. -/
theorem style_roundtrip_partial (c : Cell) (name : Str) (x : Val) (sh : Shape)
    (hsingle : singleStringCell c = true) (hbad : knownBadCell c = false) (hsh : cellShape c = some sh)
    (hd : Decodable name sh x) (hplain : allPlain x = true) :
    ∃ w, cellWire .asFound .asFound .asFound c name x = some w ∧ decodeCell c name w = some (coerce x) := by
  have h1 : badDefaultsCell c = false ∧ badMatrixCell c = false := by simpa [knownBadCell] using hbad
  exact style_roundtrip .asFound .asFound .asFound c name x sh (by simp [goodCell, hsingle, h1.1, h1.2]) hsh hd (Or.inr hplain)

/-- every single-string cell has a reference shape (the hypothesis `cellShape c = some sh` is never the obstacle) -/
theorem singleString_has_shape (c : Cell) (h : singleStringCell c = true) : ∃ sh, cellShape c = some sh := by
  obtain ⟨loc, style, explode, ty⟩ := c
  cases loc <;> rcases style with _ | (_|_|_|_|_|_|_|_) <;> rcases explode with _ | _ | _ <;> cases ty <;>
  first
    | exact absurd h (by decide)
    | exact ⟨_, rfl⟩

/-- the as-found table yields **no** serializer at all for a path array / object whose `style` is absent (default
    `simple`): the list reaches `str.format` and is written with Python's `repr` -/
theorem path_default_style_not_serialized (name : Str) (e : Option Bool) (ty : Ty) :
    defConvs .asFound ⟨name, ⟨.path, none, e, ty⟩, none⟩ = [] ∧
    defConvs .repaired ⟨name, ⟨.path, none, none, .array⟩, none⟩ = [.delimited 44] := by
  rcases e with _ | _ | _ <;> cases ty <;> exact ⟨rfl, rfl⟩

/-- …and for header objects / path `simple` objects whose `explode` is absent (default `false`) -/
theorem absent_explode_object_not_serialized (name : Str) :
    defConvs .asFound ⟨name, ⟨.header, none, none, .object⟩, none⟩ = [.toString] ∧
    defConvs .asFound ⟨name, ⟨.path, some .simple, none, .object⟩, none⟩ = [] ∧
    defConvs .asFound ⟨name, ⟨.query, none, none, .object⟩, none⟩ = [] ∧
    defConvs .asFound ⟨name, ⟨.cookie, none, none, .array⟩, none⟩ = [.toString] := by
  refine ⟨rfl, rfl, rfl, rfl⟩

/-- F13 — the no-delimiter hypothesis is necessary: `["a,b"]` in a non-exploded `form` query parameter is written
    `a,b` and read back as two items (both variants: nothing escapes the delimiter). -/
theorem delimiter_inside_item_lost (vt vm vs : Variant) :
    cellWire vt vm vs ⟨.query, some .form, some false, .array⟩ [112] (.arr [.str [97, 44, 98]]) = some [97, 44, 98] ∧
    decodeCell ⟨.query, some .form, some false, .array⟩ [112] [97, 44, 98] = some (.arr [[97], [98]]) ∧
    coerce (.arr [.str [97, 44, 98]]) = .arr [[97, 44, 98]] := by
  cases vt <;> cases vm <;> cases vs <;> decide

/-- the empty array and the array holding one empty string are the same text -/
theorem empty_array_ambiguous (vt vs : Variant) (d : Nat) (name : Str) :
    convStr vt vs name (.delimited d) (.arr []) = convStr vt vs name (.delimited d) (.arr [.str []]) := by
  simp [convStr, iterItems, joinWith, itemStr]
  cases vs <;> rfl

/-- booleans and null inside arrays are written with Python's `str` as found (`True`), not with the JSON spelling -/
theorem python_repr_inside_array :
    cellWire .asFound .asFound .asFound ⟨.query, some .form, some false, .array⟩ [112] (.arr [.bool true, .null])
      = some (lit "True,None") ∧
    cellWire .asFound .asFound .repaired ⟨.query, some .form, some false, .array⟩ [112] (.arr [.bool true, .null])
      = some (lit "true,null") := by
  decide

/-- `label_primitive` keeps falsy values (repaired in /repo, finding FC06d: `if new:` used to write integer 0, `false`
    and the empty string as the empty text, which removes the path segment): 0 is written `.0` and read back. -/
theorem label_zero_kept (vt vm vs : Variant) :
    cellWire vt vm vs ⟨.path, some .label, none, .other⟩ [112] (.prim (.int 0)) = some (lit ".0") ∧
    decodeCell ⟨.path, some .label, none, .other⟩ [112] (lit ".0") = some (.prim (lit "0")) := by
  cases vt <;> cases vm <;> cases vs <;> decide

/-- non-vacuity of `style_roundtrip` / `style_roundtrip_partial`: a concrete good cell, value and decoding -/
example : goodCell .asFound .asFound ⟨.path, some .label, some true, .object⟩ = true ∧
    cellShape ⟨.path, some .label, some true, .object⟩ = some .labelKvs ∧
    cellWire .asFound .asFound .asFound ⟨.path, some .label, some true, .object⟩ [112] (.obj [([114], .int 1), ([103], .str [50])])
      = some (lit ".r=1.g=2") ∧
    decodeCell ⟨.path, some .label, some true, .object⟩ [112] (lit ".r=1.g=2") = some (.obj [([114], [49]), ([103], [50])]) := by
  decide

example : Decodable [112] .labelKvs (.obj [([114], .int 1), ([103], .str [50])]) := by
  refine ⟨by simp, ?_⟩
  intro kv hkv
  simp at hkv
  rcases hkv with rfl | rfl <;> decide

/-! ### headers: nothing but the case, the configuration and the documented additions -/

/-- **Only expected headers.**  Every header name of the request built by `serialize_case` (either transport) is a
    generated header, a configured header, `User-Agent`, the test-case id header, `Content-Type`, or a header
    returned by the body serializer (only the multipart boundary `Content-Type` in this code base). -/
theorem headers_only_expected (norm : Str → Str) (t : Transport) (caseH cfg : Option Headers) (ua tcid : Str × Str)
    (ct : Str) (mediaType : Option Str) (multipart bodySet : Bool) (extra : Headers) :
    ∀ x ∈ (finalHeaders norm t caseH cfg ua tcid ct mediaType multipart bodySet extra).map (fun e => norm e.1),
      x ∈ (caseH.getD []).map (fun e => norm e.1) ∨ x ∈ (cfg.getD []).map (fun e => norm e.1) ∨
      x = norm ua.1 ∨ x = norm tcid.1 ∨ x = norm ct ∨ x ∈ extra.map (fun e => norm e.1) := by
  intro x hx
  unfold finalHeaders at hx
  rcases keys_extra norm extra _ x hx with h | h
  · right; right; right; right; right; exact h
  · have hprep : ∀ y ∈ (prepareHeaders norm caseH cfg ua tcid).map (fun e => norm e.1),
        y ∈ (caseH.getD []).map (fun e => norm e.1) ∨ y ∈ (cfg.getD []).map (fun e => norm e.1) ∨
        y = norm ua.1 ∨ y = norm tcid.1 := by
      intro y hy
      unfold prepareHeaders at hy
      rcases keys_hSetDefault norm _ _ _ y hy with h1 | h1
      · right; right; right; exact h1
      · rcases keys_hSetDefault norm _ _ _ y h1 with h2 | h2
        · right; right; left; exact h2
        · cases cfg with
          | none => left; exact h2
          | some c =>
            by_cases hc : c.isEmpty = true
            · simp only [applyCfg, hc, if_true] at h2; left; exact h2
            · simp only [applyCfg, hc] at h2
              rcases keys_hUpdate norm _ c y h2 with h3 | h3
              · right; left; exact h3
              · left; exact h3
    have hct : ∀ y ∈ (contentTypeStep norm t ct mediaType multipart bodySet
        (prepareHeaders norm caseH cfg ua tcid)).map (fun e => norm e.1),
        y = norm ct ∨ y ∈ (prepareHeaders norm caseH cfg ua tcid).map (fun e => norm e.1) := by
      intro y hy
      unfold contentTypeStep at hy
      split at hy
      · right; exact hy
      · split at hy
        · right; exact hy
        · cases t
          · simp only at hy
            split at hy
            · right; exact hy
            · exact keys_hSetDefault norm _ _ _ y hy
          · exact keys_hSet norm _ _ _ y hy
    rcases hct x h with h1 | h1
    · right; right; right; right; left; exact h1
    · rcases hprep x h1 with h2 | h2 | h2 | h2
      · left; exact h2
      · right; left; exact h2
      · right; right; left; exact h2
      · right; right; right; left; exact h2

/-- **A generated header reaches the wire** with its generated value unless the user configured a header of the
    same name (requests transport; on WSGI additionally the name must not be `Content-Type`, which that transport
    always overwrites when there is a body). -/
theorem generated_header_sent (norm : Str → Str) (caseH cfg : Option Headers) (ua tcid : Str × Str)
    (ct : Str) (mediaType : Option Str) (multipart bodySet : Bool) (extra : Headers) (k v : Str)
    (hk : hGet norm k (caseH.getD []) = some v) (hcfg : norm k ∉ (cfg.getD []).map (fun e => norm e.1)) :
    hGet norm k (finalHeaders norm .requests caseH cfg ua tcid ct mediaType multipart bodySet extra) = some v := by
  unfold finalHeaders
  apply hGet_extra_some
  have hp : hGet norm k (prepareHeaders norm caseH cfg ua tcid) = some v := by
    rw [hGet_prepareHeaders norm k caseH cfg ua tcid hcfg, hk]
  unfold contentTypeStep
  split
  · exact hp
  · split
    · exact hp
    · simp only
      split
      · exact hp
      · rw [hGet_hSetDefault, hp]

/-- **Content-Type = the case's media type** (requests transport) whenever the case has a body and a non-multipart
    media type and neither the case nor the configuration sets a `Content-Type` header themselves. -/
theorem content_type_is_media_type (norm : Str → Str) (caseH cfg : Option Headers) (ua tcid : Str × Str)
    (ct m : Str) (extra : Headers) (hm : m ≠ [])
    (h1 : norm ct ∉ (caseH.getD []).map (fun e => norm e.1)) (h2 : norm ct ∉ (cfg.getD []).map (fun e => norm e.1))
    (h3 : norm ct ≠ norm ua.1) (h4 : norm ct ≠ norm tcid.1) :
    hGet norm ct (finalHeaders norm .requests caseH cfg ua tcid ct (some m) false true extra) = some m := by
  unfold finalHeaders
  apply hGet_extra_some
  have hp : hGet norm ct (prepareHeaders norm caseH cfg ua tcid) = none := by
    rw [hGet_prepareHeaders norm ct caseH cfg ua tcid h2, hGet_none_of_notin norm ct _ h1]
    simp [h3, h4]
  have hme : m.isEmpty = false := by cases m with | nil => exact absurd rfl hm | cons a b => rfl
  simp only [contentTypeStep, hme, Bool.not_true, Bool.or_self, Bool.false_eq_true, if_false]
  rw [hGet_hSetDefault, hp]
  simp

/-- the WSGI transport overwrites a generated `Content-Type` header with the media type (the requests transport keeps
    the generated one): witness -/
theorem wsgi_overwrites_generated_content_type :
    hGet id (lit "Content-Type") (finalHeaders id .wsgi (some [(lit "Content-Type", lit "text/x")]) none
      (lit "User-Agent", lit "s") (lit "X-Schemathesis-TestCaseId", lit "1") (lit "Content-Type")
      (some (lit "application/json")) false true []) = some (lit "application/json") ∧
    hGet id (lit "Content-Type") (finalHeaders id .requests (some [(lit "Content-Type", lit "text/x")]) none
      (lit "User-Agent", lit "s") (lit "X-Schemathesis-TestCaseId", lit "1") (lit "Content-Type")
      (some (lit "application/json")) false true []) = some (lit "text/x") := by
  decide

/-! ### histories of calls: a request is determined by its own case and its own configuration -/

/-- **`send` does not change the case** when `merge_at` works on a copy (every transport, every client policy, whatever
    the call configures and whatever the application answers). -/
theorem send_leaves_case_unchanged (via : Via) (pol : ClientPolicy) (vp : Variant) (cl : Clients) (c : CaseS) (a : Call) :
    (send via pol .repaired vp cl c a).2.1 = c :=
  send_repaired_case via pol vp cl c a

/-- **History independence** (full statement; a new client for every call, `merge_at` on a copy, `params` honoured):
    for every history of calls — any cases, any interleaving, any configuration per call, any `Set-Cookie` answers, calls
    with and without a session of the user's — through any of the three transports, every request sent without a session
    of the user's carries exactly the cookies and the query entries of its own case as generated and its own
    configuration, the recorded request is the one that was sent, and no case is changed by being sent. -/
theorem history_independent (via : Via) : HistoryIndependent via .perCall .repaired .repaired := by
  intro cl store calls hs
  exact trace_of_send via .perCall .repaired .repaired (fun _ => True)
    (fun cl c a hq hc _ => goodSend_repaired via cl c a hq hc) cl store calls hs (fun _ _ => trivial)

/-- non-vacuity: a history in which a response sets cookies, a case is sent twice and a session of the user's is used -/
example : (runTrace .wsgi .perCall .repaired .repaired ⟨[], [(lit "u", lit "1")]⟩
      [⟨some [(lit "q", lit "x")], some [(lit "sid", lit "g")]⟩, ⟨none, none⟩]
      [(0, ⟨some [(lit "p", lit "c")], some [(lit "auth", lit "c")], false, [(lit "w", some (lit "s"))]⟩),
       (1, ⟨none, none, true, [(lit "w", some (lit "s"))]⟩),
       (0, ⟨none, none, false, []⟩)]).map (fun e => (e.out.wire.query, e.out.wire.cookies)) =
    [([(lit "q", lit "x"), (lit "p", lit "c")], [(lit "sid", lit "g"), (lit "auth", lit "c")]),
     ([], [(lit "u", lit "1")]),
     ([(lit "q", lit "x")], [(lit "sid", lit "g")])] := by
  decide

/-- **A client kept per application breaks it** (the full statement is false for `.perApp`): the cookie set by the
    answer to the first call is sent with the second call, whose case has no cookies.  Kernel-checked witness. -/
theorem memoized_client_leaks : ¬ HistoryIndependent .wsgi .perApp .repaired .repaired := by
  intro h
  have := h ⟨[], []⟩ [⟨none, none⟩, ⟨some [(lit "q", lit "x")], none⟩]
    [(0, ⟨none, none, false, [(lit "session", some (lit "s3"))]⟩), (1, ⟨none, none, false, []⟩)]
    (by decide)
    ⟨1, ⟨none, none, false, []⟩, ⟨⟨[(lit "q", lit "x")], [(lit "session", lit "s3")]⟩, ⟨[(lit "q", lit "x")], []⟩⟩,
      ⟨some [(lit "q", lit "x")], none⟩⟩
    (by decide) ⟨some [(lit "q", lit "x")], none⟩ (by decide)
  have h2 := (this.2 rfl).1
  revert h2
  decide

/-- **The code as found** (`merge_at` updates the case's own dict, `params` shadowed) **does not have the property**:
    the parameters and cookies configured for one call are written into the case and are sent again with the next call
    of the same case, which configures nothing.  Kernel-checked witness. -/
theorem history_independent_full_false : ¬ HistoryIndependent .wsgi .perCall .asFound .asFound := by
  intro h
  have := h ⟨[], []⟩ [⟨some [(lit "q", lit "x")], some [(lit "sid", lit "1")]⟩]
    [(0, ⟨some [(lit "p", lit "1")], some [(lit "auth", lit "A")], false, []⟩), (0, ⟨none, none, false, []⟩)]
    (by decide)
    ⟨0, ⟨none, none, false, []⟩,
      ⟨⟨[(lit "q", lit "x"), (lit "p", lit "1")], [(lit "sid", lit "1"), (lit "auth", lit "A")]⟩,
       ⟨[(lit "q", lit "x"), (lit "p", lit "1")], [(lit "sid", lit "1"), (lit "auth", lit "A")]⟩⟩,
      ⟨some [(lit "q", lit "x"), (lit "p", lit "1")], some [(lit "sid", lit "1"), (lit "auth", lit "A")]⟩⟩
    (by decide) ⟨some [(lit "q", lit "x")], some [(lit "sid", lit "1")]⟩ (by decide)
  have h2 := (this.2 rfl).2.1
  revert h2
  decide

/-- **`params` shadowed in `RequestsTransport.serialize_case`** (with `merge_at` already on a copy): the request recorded
    by the WSGI transport lacks the configured parameters that were sent.  Kernel-checked witness. -/
theorem shadowed_params_break_the_record : ¬ HistoryIndependent .wsgi .perCall .repaired .asFound := by
  intro h
  have := h ⟨[], []⟩ [⟨none, none⟩] [(0, ⟨some [(lit "p", lit "1")], none, false, []⟩)]
    (by decide)
    ⟨0, ⟨some [(lit "p", lit "1")], none, false, []⟩, ⟨⟨[(lit "p", lit "1")], []⟩, ⟨[], []⟩⟩, ⟨none, none⟩⟩
    (by decide) ⟨none, none⟩ (by decide)
  have h2 := (this.2 rfl).2.2
  revert h2
  decide

/-- **Strongest statement for the code as found**: history independence holds for all histories in which no call
    configures `params` or `cookies` (what the engine does: it passes only headers), for every transport. -/
theorem history_independent_partial (via : Via) (cl : Clients) (store : List CaseS) (calls : List (Nat × Call))
    (hs : ∀ c ∈ store, WF (c.query.getD []) ∧ WF (c.cookies.getD []))
    (hcalls : ∀ p ∈ calls, p.2.params = none ∧ p.2.cookies = none) :
    ∀ e ∈ runTrace via .perCall .asFound .asFound cl store calls, ∀ c, store[e.ix]? = some c →
      e.caseAfter = c ∧
      (e.call.explicit = false →
        e.out.wire.cookies = ownCookies c e.call ∧ e.out.wire.query = ownQuery c e.call ∧
        recordedOk c e.call e.out = true) := by
  apply trace_of_send via .perCall .asFound .asFound (fun a => a.params = none ∧ a.cookies = none) _ cl store calls hs hcalls
  intro cl c a hq hc hp
  rw [send_asFound_unconfigured via .perCall cl c a hq hc hp.1 hp.2]
  exact goodSend_repaired via cl c a hq hc

/-- non-vacuity of `history_independent_partial`: responses set cookies, the case is sent twice -/
example : (∀ c ∈ [(⟨some [(lit "q", lit "x")], some [(lit "sid", lit "g")]⟩ : CaseS)], WF (c.query.getD []) ∧ WF (c.cookies.getD [])) ∧
    (∀ p ∈ [((0 : Nat), (⟨none, none, false, [(lit "w", some (lit "s"))]⟩ : Call)), (0, ⟨none, none, false, []⟩)],
      p.2.params = none ∧ p.2.cookies = none) ∧
    (runTrace .wsgi .perCall .asFound .asFound ⟨[], []⟩ [⟨some [(lit "q", lit "x")], some [(lit "sid", lit "g")]⟩]
      [(0, ⟨none, none, false, [(lit "w", some (lit "s"))]⟩), (0, ⟨none, none, false, []⟩)]).length = 2 := by
  decide

/-- **A call with a session of the user's (WSGI)**: every cookie the call asks for arrives with its value, and every
    received cookie is one of those or is held by that session — for every client policy and both `merge_at` variants. -/
theorem session_wire_only_expected (pol : ClientPolicy) (vm vp : Variant) (cl : Clients) (c : CaseS) (a : Call)
    (hx : a.explicit = true) (hc : WF (c.cookies.getD [])) :
    (∀ k v, dGet k (ownCookies c a) = some v → dGet k (send .wsgi pol vm vp cl c a).1.wire.cookies = some v) ∧
    (∀ k v, dGet k (send .wsgi pol vm vp cl c a).1.wire.cookies = some v →
      dGet k (ownCookies c a) = some v ∨ (dGet k (ownCookies c a) = none ∧ dGet k cl.userJar = some v)) := by
  have hX : WF (ownCookies c a) := WF_dUpdate _ _ hc
  have hw : (send .wsgi pol vm vp cl c a).1.wire.cookies = dUpdate cl.userJar (ownCookies c a) := by
    simp [send, startJar, hx, callCookies, ownCookies]
  rw [hw]
  constructor
  · intro k v h
    exact dGet_dUpdate_of_get k v _ _ hX h
  · intro k v h
    rw [dGet_dUpdate_wf k _ _ hX] at h
    cases hg : dGet k (ownCookies c a) with
    | some w => rw [hg] at h; left; exact h
    | none => rw [hg] at h; right; exact ⟨rfl, h⟩

/-- **The cookies of a call do not stay in the client** (WSGI `cookie_handler`): after the call, the jar that is kept —
    the user's session, or the client kept for the application under `.perApp` — holds no cookie under any name the call
    asked for, whatever the application answered. -/
theorem case_cookies_do_not_persist (pol : ClientPolicy) (vm vp : Variant) (cl : Clients) (c : CaseS) (a : Call)
    (k : Str) (hk : k ∈ dKeys (ownCookies c a)) :
    (a.explicit = true → dGet k (send .wsgi pol vm vp cl c a).2.2.userJar = none) ∧
    (a.explicit = false → pol = .perApp → dGet k (send .wsgi pol vm vp cl c a).2.2.appJar = none) := by
  constructor
  · intro hx
    simp only [send, storeJar, hx, if_true]
    rw [dGet_dDelAll]
    simp [callCookies, ownCookies] at hk ⊢
    simp [hk]
  · intro hx hp
    subst hp
    simp only [send, storeJar, hx, Bool.false_eq_true, if_false]
    rw [dGet_dDelAll]
    simp [callCookies, ownCookies] at hk ⊢
    simp [hk]

/-- **A session of the user's only ever gains what the application sets**: a cookie held by the session after a call
    was held before or was set by that call's response. -/
theorem session_jar_only_from_responses (pol : ClientPolicy) (vm vp : Variant) (cl : Clients) (c : CaseS) (a : Call)
    (hx : a.explicit = true) (k v : Str)
    (h : dGet k (send .wsgi pol vm vp cl c a).2.2.userJar = some v) :
    dGet k cl.userJar = some v ∨ (k, some v) ∈ a.setCookies := by
  simp only [send, storeJar, startJar, hx, if_true] at h
  rw [dGet_dDelAll] at h
  by_cases hk : k ∈ dKeys (callCookies c a)
  · simp [hk] at h
  · simp only [hk, if_false] at h
    rcases dGet_applySetCookies k v _ _ h with h1 | h1
    · left
      rw [dGet_dUpdate_notin k _ _ hk] at h1
      exact h1
    · right; exact h1

/-- **`cookie_handler` cleans up**: with an empty jar and an answer without `Set-Cookie`, the client's jar is empty again
    after the call, so a client kept per application would leak only what responses set. -/
theorem cookie_handler_cleans_up (vm vp : Variant) (cl : Clients) (c : CaseS) (a : Call)
    (hx : a.explicit = false) (hj : cl.appJar = []) (hs : a.setCookies = []) :
    (send .wsgi .perApp vm vp cl c a).2.2.appJar = [] := by
  simp only [send, storeJar, startJar, hx, Bool.false_eq_true, if_false, hj, hs, applySetCookies, List.foldl_nil]
  apply eq_nil_of_all_none
  intro k
  rw [dGet_dDelAll]
  by_cases hk : k ∈ dKeys (callCookies c a)
  · simp [hk]
  · simp only [hk, if_false]
    rw [dGet_dUpdate_notin k _ _ hk]
    rfl

/-- as found, `cookie_handler` deletes by name: a cookie of the user's own session that the case shadows is gone from
    the session afterwards (witness; not a violation of this property: nothing is added to a request) -/
theorem session_cookie_shadowed_by_case_is_deleted :
    (send .wsgi .perCall .asFound .asFound ⟨[], [(lit "sid", lit "u")]⟩ ⟨none, some [(lit "sid", lit "g")]⟩
      ⟨none, none, true, []⟩).2.2.userJar = [] := by
  decide


/-! ### the coverage phase: one `Template`, many cases -/

/-- **Coverage cases do not depend on the cases built before them.**  For every template (whatever values its
    containers hold), every serializer configuration and every history of cases built from it (`unmodified` / `with_body`,
    `with_parameter`, `with_container` in any order and number): with the copy taken at the entry of `_serialize` the
    template is left exactly as it was, and the containers of the k-th case are those a fresh template with the same
    contents gives — each generated value is serialized once, never cumulatively. -/
theorem template_history_independent (cfg : TplCfg) (t : Tpl) (ops : List TOp) :
    runT .entry cfg t ops = ops.map (fun op => (stepT .entry cfg t op).2) ∧
    ∀ op, (stepT .entry cfg t op).1 = t :=
  ⟨SV.Proofs.C06Template.runT_entry cfg t ops, SV.Proofs.C06Template.stepT_entry_state cfg t⟩

set_option synthInstance.maxSize 2048 in
/-- **The entry copy is needed.**  If only the style serializer gets a copy, `quote_all` rewrites the template's own path
    container: the generated value `a b` is sent as `a%20b` by the first case and as `a%2520b` by the second. -/
theorem template_late_copy_history_dependent :
    (runT .beforeSerializer ⟨.repaired, .repaired, .repaired, .repaired, fun _ => []⟩
        ⟨[(.path, [(lit "id", .prim (.str (lit "a b")))])]⟩ [.unmodified, .unmodified])[0]? =
      some [(.path, some [(lit "id", .prim (.str (lit "a%20b")))])] ∧
    (runT .beforeSerializer ⟨.repaired, .repaired, .repaired, .repaired, fun _ => []⟩
        ⟨[(.path, [(lit "id", .prim (.str (lit "a b")))])]⟩ [.unmodified, .unmodified])[1]? =
      some [(.path, some [(lit "id", .prim (.str (lit "a%2520b")))])] := by
  decide

set_option synthInstance.maxSize 2048 in
/-- non-vacuity of `template_history_independent`: a history with the entry copy; the third case is the first again -/
example :
    (runT .entry ⟨.repaired, .repaired, .repaired, .repaired, fun _ => []⟩
        ⟨[(.path, [(lit "id", .prim (.str (lit "a b")))]), (.query, [(lit "q", .prim (.int 1))])]⟩
        [.unmodified, .withParameter .query (lit "q") (.prim (.bool true)), .unmodified])[2]? =
      some [(.path, some [(lit "id", .prim (.str (lit "a%20b")))]), (.query, some [(lit "q", .prim (.str (lit "1")))])] ∧
    (runT .entry ⟨.repaired, .repaired, .repaired, .repaired, fun _ => []⟩
        ⟨[(.path, [(lit "id", .prim (.str (lit "a b")))]), (.query, [(lit "q", .prim (.int 1))])]⟩
        [.unmodified, .withParameter .query (lit "q") (.prim (.bool true)), .unmodified])[1]? =
      some [(.path, some [(lit "id", .prim (.str (lit "a%20b")))]), (.query, some [(lit "q", .prim (.str (lit "true")))])] := by
  decide

/-! ### query parameters spread over several entries -/

section Entries
open SV.Proofs.C06Entries

/-- **Exploded form arrays.**  For every parameter name and every array of primitives (any length, booleans and nulls
    included): the query string carries one entry per item under the parameter's name, in order, each spelled as JSON
    spells it — and the reference reading of `style: form, explode: true` gives the generated array back. -/
theorem exploded_array_roundtrip (vt vm vs : Variant) (name : Str) (xs : List Prim) :
    ∃ es, cellEntries vt vm vs arrayCell name (.arr xs) = some es ∧ decodeFormExplodedArray name es = coerce (.arr xs) :=
  ⟨_, array_entries vt vm vs name xs, array_decodes name xs⟩

/-- **Exploded form objects.**  For every non-empty object with pairwise different member names: one entry per member
    under the member's name, read back as the generated object. -/
theorem exploded_object_roundtrip (vt vm vs : Variant) (name : Str) (kvs : List (Str × Prim)) (hne : kvs ≠ [])
    (hnd : (kvs.map (·.1)).Nodup) :
    ∃ es, cellEntries vt vm vs objectCell name (.obj kvs) = some es ∧ decodeFormExplodedObject es = coerce (.obj kvs) :=
  ⟨_, object_entries vt vm vs name kvs hne hnd, object_decodes kvs⟩

/-- **deepObject.**  For every non-empty object with pairwise different member names — whatever characters the names
    contain — the entries are `name[member]=value` and the reference decoder gives the generated object back. -/
theorem deep_object_roundtrip (vt vm vs : Variant) (name : Str) (kvs : List (Str × Prim)) (hne : kvs ≠ [])
    (hnd : (kvs.map (·.1)).Nodup) :
    ∃ es, cellEntries vt vm vs deepCell name (.obj kvs) = some es ∧ decodeDeepObject name es = coerce (.obj kvs) :=
  ⟨_, deep_entries vt vm vs name kvs hne hnd, deep_decodes name kvs⟩

/-- what `jsonify_python_specific_types` has to do inside lists: an item left as Python's `None` is not an entry at all
    (requests drops it) — here: the entries of `[null, 1]` are two, `null` spelled out -/
example : cellEntries .repaired .repaired .repaired arrayCell (lit "ids") (.arr [.null, .int 1]) =
    some [(lit "ids", lit "null"), (lit "ids", lit "1")] := by decide

/-- the empty object is sent as an empty value under the parameter's own name (not covered by the round trip) -/
example : cellEntries .repaired .repaired .repaired deepCell (lit "f") (.obj []) = some [(lit "f", [])] := by decide

end Entries

end SV.Props.C06
