/-
  C07 — exactly the selected operations are tested, in every phase.  Property theorems only.

  Reading guide.  `rx` (regular expressions) and the predicate columns of a `View` (user functions, `--include-by`
  expressions) are universally quantified: every theorem holds for all patterns and predicates.
  `FSNorm fs` ("every stored method value is upper-cased") holds for every filter set built through the API
  (`reachable_filter_sets_normalised`, `cli_into_spec`).
-/
import SV.Proofs.C07Hist

namespace SV.Props.C07
open SV.Model.C07 SV.Spec.C07 SV.Proofs.C07

/-! ## filters -/

/-- `FilterSet.match` is the selection rule: some include filter (or none defined) and no exclude filter. -/
theorem match_spec (rx : Rx) (fs : FilterSet) (c : Ctx) :
    matchFS rx fs c = true ↔
      (fs.includes = [] ∨ ∃ f ∈ fs.includes, ∀ m ∈ f, m.eval rx c = true) ∧
      ¬ ∃ f ∈ fs.excludes, ∀ m ∈ f, m.eval rx c = true := by
  unfold matchFS
  by_cases hex : fs.excludes.any (evalFilter rx c) = true
  · simp only [hex, if_true, Bool.false_eq_true, false_iff]
    rintro ⟨_, h⟩
    apply h
    simpa [evalFilter, List.any_eq_true, List.all_eq_true] using hex
  · have hex' : ¬ ∃ f ∈ fs.excludes, ∀ m ∈ f, m.eval rx c = true := by
      simpa [evalFilter, List.any_eq_true, List.all_eq_true] using hex
    simp only [hex, Bool.false_eq_true, if_false]
    cases hin : fs.includes with
    | nil => simp [hex']
    | cons f rest =>
      simp only [List.isEmpty_cons, Bool.false_eq_true, if_false]
      constructor
      · intro h
        refine ⟨Or.inr ?_, by simpa [hin] using hex'⟩
        simpa [evalFilter, List.any_eq_true, List.all_eq_true] using h
      · rintro ⟨h | h, _⟩
        · cases h
        · simpa [evalFilter, List.any_eq_true, List.all_eq_true] using h

/-- Every kind of matcher (value, list, regex, deprecated, predicate; on name, method, path, tag, operationId), as
    `_add_filter` stores it, holds exactly when the stated criterion holds of the operation's facts — in particular
    an absent tag list / operationId satisfies nothing and HTTP methods compare case-insensitively. -/
theorem stored_matcher_meaning (rx : Rx) (c : Ctx) (m : Matcher) :
    (normMatcher m).eval rx c = (criterionOf m).holds rx (factsOfCtx c) :=
  eval_criterion_ctx rx c m

/-- One `include(...)`/`exclude(...)` call that succeeds adds exactly one filter, to the right side, and that filter
    is the conjunction of the call's criteria. -/
theorem call_meaning (fs fs' : FilterSet) (inc : Bool) (a : FilterArgs) (h : addFilter fs inc a = .ok fs') :
    ∃ f : Filter,
      fs' = (if inc then { fs with includes := fs.includes ++ [f] } else { fs with excludes := fs.excludes ++ [f] }) ∧
      ∀ (rx : Rx) (c : Ctx), evalFilter rx c f = conjHolds rx (factsOfCtx c) (argsCriteria a) := by
  obtain ⟨ms, hb, _, _, _, hfs⟩ := addFilter_ok fs fs' inc a h
  exact ⟨ms, hfs, fun rx c => buildMatchers_meaning rx c a ms hb⟩

/-- non-vacuity of `call_meaning` / `exclude_only_shrinks`: `exclude(method="delete", tag=["x"])` succeeds and stores
    one normalised two-matcher filter -/
example : addFilter FilterSet.empty false
      { FilterArgs.none with method := ⟨some (.one "delete".toList), none⟩, tag := ⟨some (.many ["x".toList]), none⟩ } =
    .ok ⟨[], [[.value .method (.one "DELETE".toList), .value .tag (.many ["x".toList])]]⟩ := by
  rfl

/-- `_add_filter` refuses exactly: a value together with a regex for one attribute; no criterion at all; a filter
    already present on either side. -/
theorem call_errors (fs : FilterSet) (inc : Bool) (a : FilterArgs) :
    (addFilter fs inc a = .error .expectedAndRegex ↔ buildMatchers a = .error .expectedAndRegex) ∧
    (addFilter fs inc a = .error .emptyFilter ↔ buildMatchers a = .ok []) ∧
    (addFilter fs inc a = .error .filterExists ↔
      ∃ ms, buildMatchers a = .ok ms ∧ ms ≠ [] ∧ (ms ∈ fs.includes ∨ ms ∈ fs.excludes)) := by
  unfold addFilter
  cases hb : buildMatchers a with
  | error e =>
    have : e = .expectedAndRegex := by
      unfold buildMatchers at hb
      split at hb <;> simp at hb
      exact hb.symm
    subst this
    simp
  | ok ms =>
    cases ms with
    | nil => simp
    | cons m rest =>
      by_cases hx : (fs.includes.contains (m :: rest) || fs.excludes.contains (m :: rest)) = true
      · have hx' : (m :: rest) ∈ fs.includes ∨ (m :: rest) ∈ fs.excludes := by simpa using hx
        simp only [List.isEmpty_cons, Bool.false_eq_true, if_false, hx, if_true]
        simp [hx']
      · have hx' : ¬ ((m :: rest) ∈ fs.includes ∨ (m :: rest) ∈ fs.excludes) := by simpa using hx
        simp only [List.isEmpty_cons, Bool.false_eq_true, if_false, hx]
        cases inc <;> simp [hx']

/-- `exclude(..., deprecated=True)`: without a custom function the flag is one more conjunct of the call's filter; next
    to a custom function it is stored as a separate exclusion of all deprecated operations (test-pinned behaviour). -/
theorem exclude_deprecated_meaning (fs fs' : FilterSet) (a : FilterArgs) (h : schemaExclude fs a true = .ok fs') :
    (a.func = none → ∃ f : Filter, fs' = { fs with excludes := fs.excludes ++ [f] } ∧
      ∀ (rx : Rx) (c : Ctx), evalFilter rx c f =
        (c.view.deprecated && conjHolds rx (factsOfCtx c) (argsCriteria a))) ∧
    (a.func ≠ none → ∃ f : Filter, fs' = { fs with excludes := fs.excludes ++ [[.func .isDeprecated], f] } ∧
      ∀ (rx : Rx) (c : Ctx), evalFilter rx c f = conjHolds rx (factsOfCtx c) (argsCriteria a)) := by
  unfold schemaExclude at h
  simp only [if_true] at h
  constructor
  · intro hf
    simp only [hf] at h
    obtain ⟨f, hfs, hev⟩ := call_meaning _ _ _ _ h
    refine ⟨f, by simpa using hfs, ?_⟩
    intro rx c
    rw [hev rx c]
    simp [argsCriteria, funcCriteria, hf, conjHolds, Criterion.holds, factsOfCtx]
  · intro hf
    cases hfa : a.func with
    | none => exact absurd hfa hf
    | some g =>
      simp only [hfa] at h
      cases h1 : addFilter fs false { FilterArgs.none with func := some .isDeprecated } with
      | error e => simp [h1] at h
      | ok fs1 =>
        simp only [h1] at h
        obtain ⟨ms1, hb1, _, _, _, hfs1⟩ := addFilter_ok _ _ _ _ h1
        have : ms1 = [.func .isDeprecated] := by
          have : buildMatchers { FilterArgs.none with func := some .isDeprecated } = .ok [.func .isDeprecated] := rfl
          rw [this] at hb1
          cases hb1; rfl
        subst this
        obtain ⟨f, hfs, hev⟩ := call_meaning _ _ _ _ h
        refine ⟨f, ?_, hev⟩
        subst hfs1
        simpa using hfs

/-- non-vacuity of `exclude_deprecated_meaning`: both shapes succeed -/
example : (match schemaExclude FilterSet.empty { FilterArgs.none with method := ⟨some (.one "get".toList), none⟩ } true,
                 schemaExclude FilterSet.empty (funcArgs (.user 0)) true with
           | .ok a, .ok b => a.excludes.length == 1 && b.excludes.length == 2
           | _, _ => false) = true := by
  decide

/-- Every filter set that the Python API can build (any sequence of `include`/`exclude(..., deprecated=…)` calls
    starting from an empty one) is in normal form. -/
theorem reachable_filter_sets_normalised (cs : List Call) (fs : FilterSet)
    (h : applyCalls FilterSet.empty cs = .ok fs) : FSNorm fs :=
  applyCalls_norm cs _ _ empty_norm h

/-- For a normal-form filter set `FilterSet.match` computes the property's selection rule on the operation's facts. -/
theorem match_is_selection (rx : Rx) (fs : FilterSet) (c : Ctx) (h : FSNorm fs) :
    matchFS rx fs c = selectedFS rx fs (factsOfCtx c) :=
  match_eq_selectedFS rx fs c h

/-- Adding an exclusion never adds an operation. -/
theorem exclude_only_shrinks (rx : Rx) (fs fs' : FilterSet) (a : FilterArgs) (c : Ctx)
    (h : addFilter fs false a = .ok fs') (hm : matchFS rx fs' c = true) : matchFS rx fs c = true := by
  obtain ⟨ms, _, _, _, _, hfs⟩ := addFilter_ok fs fs' false a h
  subst hfs
  simp only [Bool.false_eq_true, if_false] at hm
  rw [match_spec] at hm ⊢
  refine ⟨hm.1, ?_⟩
  rintro ⟨f, hf, hall⟩
  exact hm.2 ⟨f, by simp [hf], hall⟩

/-! ## documents: iteration, statistic -/

/-- `_should_skip`: non-operation keys are always skipped; for operation keys the `is_empty` shortcut is sound and the
    answer is the negated `FilterSet.match`. -/
theorem shouldSkip_spec (rx : Rx) (fs : FilterSet) (o : Op) (vs : ViewSel) :
    shouldSkip rx fs o vs = if isHttp o.method then !(matchFS rx fs (ctxOf o vs)) else true := by
  by_cases h : isHttp o.method = true
  · simp [h, shouldSkip_http rx fs o vs h]
  · simp [shouldSkip, h]

/-- `get_all_operations` offers exactly the selected operations, in document order. -/
theorem iteration_agrees (rx : Rx) (fs : FilterSet) (doc : Doc) (h : FSNorm fs) :
    getAllOperations rx fs doc = offered rx fs doc := by
  unfold getAllOperations offered operations
  rw [List.filter_filter]
  apply filter_congr_mem
  intro o _
  by_cases hh : isHttp o.method = true
  · simp [hh, shouldSkip_http rx fs o .res hh, match_eq_selectedFS rx fs _ h, factsOf_eq]
  · simp [hh]

/-- No operation that fails the selection rule is ever offered, and every selected one is. -/
theorem offered_iff_selected (rx : Rx) (fs : FilterSet) (doc : Doc) (h : FSNorm fs) (o : Op) :
    o ∈ getAllOperations rx fs doc ↔
      o ∈ doc ∧ isHttp o.method = true ∧ selectedFS rx fs (factsOf o .res) = true := by
  rw [iteration_agrees rx fs doc h]
  simp only [offered, operations, List.mem_filter]
  constructor
  · rintro ⟨⟨a, b⟩, c⟩; exact ⟨a, b, c⟩
  · rintro ⟨a, b, c⟩; exact ⟨⟨a, b⟩, c⟩

/-- Repaired `_measure_statistic`: "selected / total" operations are what is offered / defined. -/
theorem statistic_operations_repaired (rx : Rx) (fs : FilterSet) (doc : Doc) :
    (measureStatistic .repaired rx fs doc).opsTotal = (operations doc).length ∧
    (measureStatistic .repaired rx fs doc).opsSelected = (getAllOperations rx fs doc).length := by
  have := statSelected_eq .repaired rx fs doc (fun _ _ _ => rfl)
  simp [measureStatistic, this, operations, httpOps]

/-- As found: the counts are right whenever the filters give the same verdict on the unresolved and on the resolved
    definition of every operation (e.g. no predicate looks through a `$ref`). -/
theorem statistic_operations_partial (rx : Rx) (fs : FilterSet) (doc : Doc)
    (hview : ∀ o ∈ doc, isHttp o.method = true → shouldSkip rx fs o .raw = shouldSkip rx fs o .res) :
    (measureStatistic .asFound rx fs doc).opsTotal = (operations doc).length ∧
    (measureStatistic .asFound rx fs doc).opsSelected = (getAllOperations rx fs doc).length := by
  have := statSelected_eq .asFound rx fs doc hview
  simp [measureStatistic, this, operations, httpOps]

/-- The full statement for the code as found. -/
def statistic_operations_full : Prop :=
  ∀ (rx : Rx) (fs : FilterSet) (doc : Doc),
    (measureStatistic .asFound rx fs doc).opsSelected = (getAllOperations rx fs doc).length

theorem statistic_operations_full_false : ¬ statistic_operations_full := by
  intro h
  have := h (fun _ _ => false) predFilter refParamDoc
  revert this
  decide

/-- non-vacuity of `statistic_operations_partial`: a filter on the method satisfies the hypothesis on that document -/
example : ∀ o ∈ refParamDoc, isHttp o.method = true →
    shouldSkip (fun _ _ => false) ⟨[], [[.value .method (.one "GET".toList)]]⟩ o .raw =
    shouldSkip (fun _ _ => false) ⟨[], [[.value .method (.one "GET".toList)]]⟩ o .res := by
  decide

/-! ## links, transitions, state-machine rules -/

/-- Every transition of the state machine joins two offered operations: an excluded operation is never the source
    or the target of a stateful link. -/
theorem no_transition_for_excluded (rx : Rx) (fs : FilterSet) (doc : Doc) (ts : List Transition)
    (h : collectTransitions rx fs doc = some ts) (t : Transition) (ht : t ∈ ts) :
    t.source ∈ (getAllOperations rx fs doc).map Op.oasLabel ∧
    t.target ∈ (getAllOperations rx fs doc).map Op.oasLabel := by
  unfold collectTransitions at h
  simp only at h
  split at h
  · simp only [Option.some.injEq] at h
    subst h
    simp only [List.mem_filterMap] at ht
    obtain ⟨p, hp, hk⟩ := ht
    unfold keepTransition at hk
    cases hr : resolveTarget doc p.2.target with
    | none => simp [hr] at hk
    | some tg =>
      simp only [hr] at hk
      split at hk
      · rename_i hc
        simp only [Option.some.injEq] at hk
        subst hk
        refine ⟨?_, by simpa using hc⟩
        have := (mem_linkPairs _ p).1 hp
        exact List.mem_map.2 ⟨p.1, this.1, rfl⟩
      · simp at hk
  · simp at h

/-- … and conversely every link between two offered operations is a transition. -/
theorem transitions_complete (rx : Rx) (fs : FilterSet) (doc : Doc) (ts : List Transition)
    (h : collectTransitions rx fs doc = some ts) (o tg : Op) (l : Link)
    (ho : o ∈ getAllOperations rx fs doc) (hl : l ∈ o.links) (hr : resolveTarget doc l.target = some tg)
    (htg : tg ∈ getAllOperations rx fs doc) :
    (⟨o.oasLabel, l.status, l.name, tg.oasLabel⟩ : Transition) ∈ ts := by
  unfold collectTransitions at h
  simp only at h
  split at h
  · simp only [Option.some.injEq] at h
    subst h
    simp only [List.mem_filterMap]
    refine ⟨(o, l), (mem_linkPairs _ (o, l)).2 ⟨ho, hl⟩, ?_⟩
    have : ((getAllOperations rx fs doc).map Op.oasLabel).contains tg.oasLabel = true := by
      simp only [List.contains_iff_mem]
      exact List.mem_map.2 ⟨tg, htg, rfl⟩
    unfold keepTransition
    simp only [hr]
    rw [if_pos this]
  · simp at h

/-- Every rule of the generated state machine (link rules and `RANDOM -> op` entry rules) concerns offered
    operations only. -/
theorem no_rule_for_excluded (rx : Rx) (fs : FilterSet) (doc : Doc) (rs : List Rule)
    (h : stateMachineRules rx fs doc = some rs) (r : Rule) (hr : r ∈ rs) :
    match r with
    | .link t => t.source ∈ (getAllOperations rx fs doc).map Op.oasLabel ∧
                 t.target ∈ (getAllOperations rx fs doc).map Op.oasLabel
    | .root l => l ∈ (getAllOperations rx fs doc).map Op.oasLabel := by
  unfold stateMachineRules at h
  cases hc : collectTransitions rx fs doc with
  | none => simp [hc] at h
  | some ts =>
    simp only [hc, Option.some.injEq] at h
    subst h
    simp only [List.mem_flatMap] at hr
    obtain ⟨target, htarget, hr⟩ := hr
    split at hr
    · simp only [List.mem_append, List.mem_map, List.mem_filter] at hr
      rcases hr with ⟨t, ⟨ht, _⟩, rfl⟩ | hr
      · exact no_transition_for_excluded rx fs doc ts hc t ht
      · split at hr
        · simp only [List.mem_singleton] at hr
          subst hr
          exact List.mem_map.2 ⟨target, htarget, rfl⟩
        · simp at hr
    · simp at hr

/-- The reported "selected links" count equals the number of transitions the state machine actually has, for
    documents with distinct operation keys and operationIds, whenever statistic and iteration see the same filter
    verdicts (always for the repaired statistic). -/
theorem statistic_links_agree (v : Variant) (rx : Rx) (fs : FilterSet) (doc : Doc) (hk : WellKeyed doc)
    (hview : ∀ o ∈ doc, isHttp o.method = true → shouldSkip rx fs o (statView v) = shouldSkip rx fs o .res)
    (ts : List Transition) (h : collectTransitions rx fs doc = some ts) :
    (measureStatistic v rx fs doc).linksSelected = ts.length ∧
    (measureStatistic v rx fs doc).linksTotal = (linkPairs (operations doc)).length := by
  have hsel := statSelected_eq v rx fs doc hview
  unfold collectTransitions at h
  simp only at h
  split at h
  · rename_i hall
    simp only [Option.some.injEq] at h
    subst h
    refine ⟨?_, by simp [measureStatistic, operations, httpOps]⟩
    simp only [measureStatistic, hsel]
    symm
    apply length_filterMap_eq
    intro p hp
    have hres : (resolveTarget doc p.2.target).isSome = true := by
      have := List.all_eq_true.1 hall p hp
      simpa using this
    exact keep_isSome_eq rx fs doc hk p hres
  · simp at h

/-- non-vacuity of `statistic_links_agree`, `no_transition_for_excluded`, `transitions_complete`: a two-operation
    document with a link by operationId; excluding the target drops the transition and the count -/
example :
    collectTransitions (fun _ _ => false) ⟨[], [[.value .method (.one "DELETE".toList)]]⟩ linkDoc = some [] ∧
    collectTransitions (fun _ _ => false) FilterSet.empty linkDoc =
      some [⟨"GET /a".toList, "200".toList, "L".toList, "DELETE /a".toList⟩] ∧
    (measureStatistic .asFound (fun _ _ => false) FilterSet.empty linkDoc).linksSelected = 1 ∧
    (measureStatistic .asFound (fun _ _ => false) ⟨[], [[.value .method (.one "DELETE".toList)]]⟩ linkDoc).linksSelected = 0 := by
  decide

/-- the hypothesis `WellKeyed` of `statistic_links_agree` holds of that document -/
example : WellKeyed linkDoc := ⟨by decide, by decide⟩

/-- non-vacuity of `no_rule_for_excluded`: the same document yields an entry rule and a link rule -/
example : stateMachineRules (fun _ _ => false) FilterSet.empty linkDoc =
    some [.root "GET /a".toList, .link ⟨"GET /a".toList, "200".toList, "L".toList, "DELETE /a".toList⟩] := by
  decide

/-! ## command line -/

/-- `FilterArguments.into` denotes the documented meaning of the options: each `--include-X v` is an alternative,
    all `--include-X-regex` options together are one alternative, `--include-by` is an alternative; every exclude
    option (value, regex, `--exclude-by`, `--exclude-deprecated`) is its own exclusion. -/
theorem cli_into_spec (c : CliArgs) (fs : FilterSet) (h : cliInto c = .ok fs) :
    FSNorm fs ∧ ∀ (rx : Rx) (x : Ctx), matchFS rx fs x = cliSelected rx c (factsOfCtx x) := by
  unfold cliInto at h
  split at h
  · simp at h
  · cases h1 : addEach true FilterSet.empty (cliIncludeCalls c) with
    | error e => simp [h1] at h
    | ok fs1 =>
      simp only [h1] at h
      obtain ⟨hn1, fi, hfs1, hi⟩ := addEach_meaning true _ _ _ empty_norm h1
      obtain ⟨hn, fe, hfs, he⟩ := addEach_meaning false _ _ _ hn1 h
      refine ⟨hn, ?_⟩
      intro rx x
      simp only [if_true, FilterSet.empty, List.nil_append] at hfs1
      subst hfs1
      simp only [Bool.false_eq_true, if_false, List.nil_append] at hfs
      subst hfs
      have hinc := cliIncludes_eq c
      have hexc := cliExcludes_eq c
      have hia : fi.any (evalFilter rx x) = (cliIncludes c).any (conjHolds rx (factsOfCtx x)) := by
        have := congrArg (fun l => l.any id) (hi rx x)
        simpa [List.any_map, hinc, Function.comp_def] using this
      have hea : fe.any (evalFilter rx x) = (cliExcludes c).any (conjHolds rx (factsOfCtx x)) := by
        have := congrArg (fun l => l.any id) (he rx x)
        simpa [List.any_map, hexc, Function.comp_def] using this
      have hie : fi.isEmpty = (cliIncludes c).isEmpty := by
        have := congrArg List.length (hi rx x)
        simp only [List.length_map] at this
        rw [hinc]
        cases fi <;> cases hc : cliIncludeCalls c <;> simp [hc] at this ⊢
      simp only [matchFS_bool, cliSelected, selected, hia, hea, hie]

/-- non-vacuity of `cli_into_spec`: `--include-method get --include-path-regex R0 --include-tag-regex R1
    --exclude-deprecated` builds two include filters (the regex options combined into one) and one exclude filter -/
example : cliInto cliExample =
    .ok ⟨[[.value .method (.one "GET".toList)], [.regex .path 0, .regex .tag 1]], [[.func .isDeprecated]]⟩ := by
  rfl

/-- Duplicate values of one option are rejected before anything is built. -/
theorem cli_duplicates_rejected (c : CliArgs) (h : hasDup c.includeMethod = true) :
    cliInto c = .error .duplicateValues := by
  simp [cliInto, h]

/-! ## lazy fixtures -/

/-- The full statement: what a lazy fixture offers is what the fixture schema's and the lazy object's filters
    select together. -/
def lazy_full (v : Variant) : Prop :=
  ∀ (rx : Rx) (fixture lz : FilterSet) (doc : Doc), FSNorm fixture → FSNorm lz →
    getAllOperations rx (lazyFilterSet v fixture lz) doc = lazyOffered rx fixture lz doc

/-- As found, the excluded `DELETE /a` is offered. -/
theorem lazy_full_false : ¬ lazy_full .asFound := by
  intro h
  have hn : FSNorm excludeDelete := by
    constructor
    · intro f hf; simp [excludeDelete] at hf
    · intro f hf
      simp [excludeDelete] at hf
      subst hf
      intro m hm
      simp at hm
      subst hm
      decide
  have := h (fun _ _ => false) excludeDelete FilterSet.empty deleteDoc hn empty_norm
  revert this
  decide

/-- Repaired (`get_schema` pools the two filter sets): the full statement holds. -/
theorem lazy_repaired : lazy_full .repaired := by
  intro rx fixture lz doc hf hl
  have hn : FSNorm (lazyFilterSet .repaired fixture lz) :=
    ⟨union_norm _ _ hf.1 hl.1, union_norm _ _ hf.2 hl.2⟩
  unfold getAllOperations lazyOffered operations
  rw [List.filter_filter]
  apply filter_congr_mem
  intro o _
  by_cases hh : isHttp o.method = true
  · simp only [hh, Bool.true_and, shouldSkip_http rx _ o .res hh, Bool.not_not, factsOf_eq]
    have e1 := fun f (h : f ∈ fixture.includes) => evalFilter_norm rx (ctxOf o .res) f (hf.1 f h)
    have e2 := fun f (h : f ∈ fixture.excludes) => evalFilter_norm rx (ctxOf o .res) f (hf.2 f h)
    have e3 := fun f (h : f ∈ lz.includes) => evalFilter_norm rx (ctxOf o .res) f (hl.1 f h)
    have e4 := fun f (h : f ∈ lz.excludes) => evalFilter_norm rx (ctxOf o .res) f (hl.2 f h)
    simp only [matchFS_bool, lazyFilterSet, union_any, union_isEmpty, lazySelected, selected, List.map_append,
      List.any_append, List.any_map, List.isEmpty_map, Function.comp_def,
      any_congr_mem _ _ _ e1, any_congr_mem _ _ _ e2, any_congr_mem _ _ _ e3, any_congr_mem _ _ _ e4]
    cases fixture.includes <;> cases lz.includes <;> simp
  · simp [hh]

/-- Repaired: an operation excluded on the fixture's schema is never offered through the lazy fixture. -/
theorem lazy_repaired_respects_fixture_excludes (rx : Rx) (fixture lz : FilterSet) (doc : Doc) (o : Op)
    (ho : o ∈ getAllOperations rx (lazyFilterSet .repaired fixture lz) doc) :
    fixture.excludes.any (evalFilter rx (ctxOf o .res)) = false := by
  have h := (mem_getAll rx _ doc o).1 ho
  have hh := isHttp_of_mem_httpOps doc o h.1
  have hs := h.2
  rw [shouldSkip_http rx _ o .res hh] at hs
  simp only [Bool.not_eq_false'] at hs
  rw [match_spec] at hs
  cases hx : fixture.excludes.any (evalFilter rx (ctxOf o .res)) with
  | false => rfl
  | true =>
    exfalso
    apply hs.2
    simp only [List.any_eq_true] at hx
    obtain ⟨f, hf, hev⟩ := hx
    refine ⟨f, ?_, by simpa [evalFilter, List.all_eq_true] using hev⟩
    simp [lazyFilterSet, unionFilters, hf]

/-- As found, the statement holds only when the fixture's schema carries no filters of its own. -/
theorem lazy_partial (rx : Rx) (lz : FilterSet) (doc : Doc) (hl : FSNorm lz) :
    getAllOperations rx (lazyFilterSet .asFound FilterSet.empty lz) doc = lazyOffered rx FilterSet.empty lz doc := by
  have := lazy_repaired rx FilterSet.empty lz doc empty_norm hl
  rw [← this]
  have : lazyFilterSet .repaired FilterSet.empty lz = lz := by
    obtain ⟨i, e⟩ := lz
    simp [lazyFilterSet, unionFilters, FilterSet.empty]
  rw [this]
  rfl

/-! ## derivation histories: schemas derived from schemas, shared `FilterSet` objects, lazy chains

  `include`/`exclude` of a schema (or lazy schema) build the new object's filters *in place* on a clone of the parent's
  mutable `FilterSet`.  The theorems below are about every history of such derivations over any number of freshly
  loaded schemas / `from_fixture` objects (steps: `include`/`exclude` on any object, `clone()`/`parametrize()`,
  `get_schema`, a command-line run building its `FilterSet` in place): every object that was ever created keeps
  selecting what its own filters select. -/

/-- After any history, every object's `FilterSet` (its two `set` objects in the heap) holds exactly the immutable value
    the property assigns to that object: its parent's filters at the time it was derived plus its own call (pooled
    filters for `get_schema`), irrespective of everything that happened afterwards. -/
theorem history_refines_values (v : Variant) (n : Nat) (ops : List HOp) :
    (hrun v (HState.roots n) ops).values = vrun v (List.replicate n FilterSet.empty) ops :=
  (hrun_refines v ops _ _ (roots_refines n)).vals_eq

/-- … and every step reports exactly the refusal the value semantics prescribes (for the parent's own filters:
    "already exists" is judged against the parent's filters, never against a sibling's). -/
theorem history_refusals_agree (v : Variant) (n : Nat) (ops : List HOp) (op : HOp) :
    (hstep v (hrun v (HState.roots n) ops) op).2 = vstepErr (vrun v (List.replicate n FilterSet.empty) ops) op :=
  (hstep_refines v _ _ (hrun_refines v ops _ _ (roots_refines n)) op).2.1

/-- Nothing that is done later — deriving from it, deriving from something else, refused calls (including an
    `exclude(func, deprecated=True)` whose second half is refused), sharing, resolving lazy fixtures — changes an
    existing object: it is still the `i`-th object and its `FilterSet` denotes the same filters. -/
theorem derivation_never_changes_existing (v : Variant) (n : Nat) (ops later : List HOp) (i : Nat) (r : FSRef)
    (h : (hrun v (HState.roots n) ops).objs[i]? = some r) :
    (hrun v (HState.roots n) (ops ++ later)).objs[i]? = some r ∧
    denote (hrun v (HState.roots n) (ops ++ later)).heap r = denote (hrun v (HState.roots n) ops).heap r := by
  have R := hrun_refines v ops _ _ (roots_refines n)
  obtain ⟨x, t, ht⟩ := hrun_frame v later _ _ R
  rw [hrun_append]
  have hb := R.bound r (List.mem_of_getElem? h)
  refine ⟨?_, denote_ext x r hb.1 hb.2⟩
  rw [ht, List.getElem?_append_left (by
    have := List.getElem?_eq_some_iff.1 h
    obtain ⟨hlt, _⟩ := this
    exact hlt)]
  exact h

/-- Hence whatever is observed of an existing schema — the operations offered, the reported counts, the state-machine
    transitions — is the same before and after any later steps. -/
theorem later_derivations_do_not_change_offered (v : Variant) (n : Nat) (ops later : List HOp) (i : Nat) (r : FSRef)
    (h : (hrun v (HState.roots n) ops).objs[i]? = some r) (sv : Variant) (rx : Rx) (doc : Doc) :
    getAllOperations rx (denote (hrun v (HState.roots n) (ops ++ later)).heap r) doc =
      getAllOperations rx (denote (hrun v (HState.roots n) ops).heap r) doc ∧
    measureStatistic sv rx (denote (hrun v (HState.roots n) (ops ++ later)).heap r) doc =
      measureStatistic sv rx (denote (hrun v (HState.roots n) ops).heap r) doc ∧
    collectTransitions rx (denote (hrun v (HState.roots n) (ops ++ later)).heap r) doc =
      collectTransitions rx (denote (hrun v (HState.roots n) ops).heap r) doc := by
  rw [(derivation_never_changes_existing v n ops later i r h).2]
  exact ⟨rfl, rfl, rfl⟩

/-- Every object of every history offers exactly the operations the property's selection rule selects for the
    filters that object stands for (in document order), and its value is in normal form — so all theorems above about
    filter sets apply to each object at every moment. -/
theorem history_objects_offer_selected (v : Variant) (n : Nat) (ops : List HOp) (i : Nat) (r : FSRef)
    (h : (hrun v (HState.roots n) ops).objs[i]? = some r) (rx : Rx) (doc : Doc) :
    ∃ fs, (vrun v (List.replicate n FilterSet.empty) ops)[i]? = some fs ∧ FSNorm fs ∧
      getAllOperations rx (denote (hrun v (HState.roots n) ops).heap r) doc = offered rx fs doc := by
  have R := hrun_refines v ops _ _ (roots_refines n)
  have hg := refines_get R i
  rw [h] at hg
  simp only [Option.map_some] at hg
  have hn := vrun_norm v ops _ (replicate_empty_norm n) _ (List.mem_of_getElem? hg)
  exact ⟨_, hg, hn, iteration_agrees rx _ doc hn⟩

/-- `FilterArguments.into` fills a `FilterSet` of its own, in place: no `set` object that existed before is changed,
    and the object handed to the loaded schema denotes the filter set `cli_into_spec` speaks about (same refusals). -/
theorem cli_into_in_place (h : Heap) (c : CliArgs) :
    (∀ a, a < h.next → (cliIntoAt h c).1.cells a = h.cells a) ∧
    (∀ e, cliInto c = .error e → (cliIntoAt h c).2 = .error e) ∧
    (∀ fs, cliInto c = .ok fs → ∃ r, (cliIntoAt h c).2 = .ok r ∧ denote (cliIntoAt h c).1 r = fs) := by
  obtain ⟨x, e, o⟩ := cliIntoAt_spec h c
  refine ⟨x.same, e, ?_⟩
  intro fs hfs
  obtain ⟨r, q1, _, q3⟩ := o fs hfs
  exact ⟨r, q1, q3⟩

/-- The value semantics only ever appends: an object's filters are fixed when it is created. -/
theorem history_values_append_only (v : Variant) (vals : List FilterSet) (op : HOp) :
    ∃ t, vstep v vals op = vals ++ t :=
  vstep_prefix v vals op

/-- non-vacuity of the history theorems (both variants of `get_schema`): a freshly loaded schema (0) and a
    `from_fixture` object (1); `public`, `staff = public.include(tag="admin")`, `safe`, a lazy exclusion of deprecated
    operations resolved against `public`, a clone of `public`, a refused repeat of `include(tag="public")`, and a
    command-line run (`FilterArguments.into` + assignment).  `public` (object 2) still has its single include filter
    at the end. -/
example :
    (hrun .repaired (HState.roots 2) demoHistory).values =
      [FilterSet.empty, FilterSet.empty, ⟨[tagFilter "public"], []⟩, ⟨[tagFilter "public", tagFilter "admin"], []⟩,
       ⟨[], [tagFilter "internal"]⟩, ⟨[], [[.func .isDeprecated]]⟩, ⟨[tagFilter "public"], [[.func .isDeprecated]]⟩,
       ⟨[tagFilter "public"], []⟩,
       ⟨[[.value .method (.one "GET".toList)], [.regex .path 0, .regex .tag 1]], [[.func .isDeprecated]]⟩] ∧
    (hrun .asFound (HState.roots 2) demoHistory).values[6]? = some ⟨[], [[.func .isDeprecated]]⟩ ∧
    (hstep .repaired (hrun .repaired (HState.roots 2) (demoHistory.take 6)) (.derive 2 ⟨true, false, tagArgs "public"⟩)).2
      = some .filterExists := by
  decide

/-- why the copies in `FilterSet.clone` carry the guarantee: the constructor keeps a non-empty set it is given
    (`arg or set()`), so a `FilterSet` built directly from `public`'s sets shares them, and adding `admin` to it changes
    what `public` denotes. -/
example :
    let s := hrun .repaired (HState.roots 1) [.derive 0 ⟨true, false, tagArgs "public"⟩]
    let shared := fsInit s.heap 4 5
    s.objs[1]? = some ⟨4, 5⟩ ∧ denote s.heap ⟨4, 5⟩ = ⟨[tagFilter "public"], []⟩ ∧ shared.2.inc = 4 ∧
    denote (addFilterAt shared.1 shared.2 true (tagArgs "admin")).1 ⟨4, 5⟩ =
      ⟨[tagFilter "public", tagFilter "admin"], []⟩ := by
  decide

/-! ## GraphQL -/

/-- GraphQL: iteration offers exactly the selected fields and the statistic counts them. -/
theorem graphql_agrees (rx : Rx) (fs : FilterSet) (doc : Doc) (h : FSNorm fs) :
    gqlAllOperations rx fs doc = gqlOffered rx fs doc ∧
    gqlStatistic rx fs doc = (doc.length, (gqlOffered rx fs doc).length) := by
  have : gqlAllOperations rx fs doc = gqlOffered rx fs doc := by
    unfold gqlAllOperations gqlOffered
    apply filter_congr_mem
    intro o _
    simp [gqlShouldSkip, match_eq_selectedFS rx fs _ h, gqlFactsOf_eq]
  refine ⟨this, ?_⟩
  rw [← this]
  rfl

end SV.Props.C07
