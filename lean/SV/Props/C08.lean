/-
  C08 — every documented operation is offered with its effective parameters, or reported.  Property theorems only.
-/
import SV.Proofs.C08Cache
import SV.Proofs.C08Witness
import SV.Proofs.C10

namespace SV.Props.C08
open SV.Model.C08 SV.Spec.C08 SV.Proofs.C08

/-! ## effective parameters -/

/-- The repaired merge is exactly the effective-parameter list of the statement. -/
theorem merge_repaired_effective (op shared : List Param) :
    mergeEntries .repaired (op.map .param) (shared.map .param) = (effective op shared).map .param := by
  have h : ∀ sp, overriddenBy (op.map .param) sp = op.any (fun o => overrides o sp) := by
    intro sp
    simp [overriddenBy, List.any_map, Function.comp_def, sameKey, overrides]
  simp only [mergeEntries, effective, List.map_append, List.filter_map]
  congr 2
  apply List.filter_congr
  intro s _
  simp [h]

/-- C08, effective inputs (repaired merge): an operation built from resolved operation-level parameters `op` and
    path-level parameters `shared` is offered with exactly the effective parameters, split by location and in
    order; everything else in its containers is a security parameter (tag 0) appended behind them; its body
    alternatives are all the documented ones. -/
theorem C08_effective (cfg : Cfg) (hm : cfg.merge = .repaired) (d : Doc) (path method : String) (od : OpDef)
    (op shared : List Param) (o : Operation)
    (h : buildOp cfg d path method od (op.map .param) (shared.map .param) = .ok o) :
    (∃ s, o.pathParams = inLoc "path" (effective op shared) ++ s ∧ ∀ p ∈ s, p.tag = 0) ∧
    (∃ s, o.headers = inLoc "header" (effective op shared) ++ s ∧ ∀ p ∈ s, p.tag = 0) ∧
    (∃ s, o.cookies = inLoc "cookie" (effective op shared) ++ s ∧ ∀ p ∈ s, p.tag = 0) ∧
    (∃ s, o.query = inLoc "query" (effective op shared) ++ s ∧ ∀ p ∈ s, p.tag = 0) ∧
    o.path = path ∧ o.method = method ∧ collectBodies od.body = .ok o.body := by
  unfold buildOp at h
  rw [hm, merge_repaired_effective] at h
  split at h
  · cases h
  · rename_i ps hps
    have hps' := collectParams_ok _ _ hps
    subst hps'
    split at h
    · cases h
    · rename_i bs hbs
      obtain ⟨f1, f2, f3, f4, f5, f6⟩ := foldl_addParam_empty (effective op shared) path method
      obtain ⟨e1, e2, e3, ⟨s1, g1, t1⟩, ⟨s2, g2, t2⟩, ⟨s3, g3, t3⟩, ⟨s4, g4, t4⟩⟩ := processSchemes_ext _ _ _ _ h
      simp only [f1, f2, f3, f4, f5, f6] at e1 e2 e3 g1 g2 g3 g4
      exact ⟨⟨s1, g1, t1⟩, ⟨s2, g2, t2⟩, ⟨s3, g3, t3⟩, ⟨s4, g4, t4⟩, e1, e2, by rw [hbs, e3]⟩

/-- …so the replay predicate `conforms` used by the harness holds for every operation the repaired model builds from
    tagged definitions. -/
theorem C08_effective_conforms (cfg : Cfg) (hm : cfg.merge = .repaired) (d : Doc) (path method : String) (od : OpDef)
    (op shared : List Param) (o : Operation) (htag : ∀ p ∈ op ++ shared, p.tag ≠ 0)
    (h : buildOp cfg d path method od (op.map .param) (shared.map .param) = .ok o) :
    conforms op shared o = true := by
  obtain ⟨⟨s1, g1, t1⟩, ⟨s2, g2, t2⟩, ⟨s3, g3, t3⟩, ⟨s4, g4, t4⟩, _⟩ := C08_effective cfg hm d path method od op shared o h
  have hin : ∀ l, ∀ p ∈ inLoc l (effective op shared), p.tag ≠ 0 := by
    intro l p hp
    exact htag p (mem_effective _ _ _ (List.mem_filter.mp hp).1)
  simp only [conforms, g1, g2, g3, g4, filter_own _ _ (hin _) t1, filter_own _ _ (hin _) t2,
    filter_own _ _ (hin _) t3, filter_own _ _ (hin _) t4]
  simp

/-- C08, "overridden by operation-level parameters of the same name and location" (repaired merge): when neither
    level repeats a (name, location) pair, the effective parameters do not either, and the definition that reaches
    the generated schema for a name in a location (`parameters_to_json_schema`: later entries overwrite earlier
    ones) is the unique effective one - the operation-level definition whenever there is one. -/
theorem C08_override_wins (op shared : List Param) (h1 : distinctKeys op = true) (h2 : distinctKeys shared = true)
    (q : Param) (hq : q ∈ effective op shared) (n l : String) (hn : q.name = some n) (hl : q.loc = some l) :
    schemaWinner n (inLoc l (effective op shared)) = some q := by
  unfold schemaWinner
  rw [distinct_unique _ (distinct_effective op shared h1 h2) q hq n l hn hl]
  rfl

/-- every operation-level parameter is effective -/
theorem C08_operation_level_kept (op shared : List Param) (q : Param) (hq : q ∈ op) : q ∈ effective op shared := by
  simp [effective, hq]

/-- a path-level parameter is effective iff no operation-level parameter has its name and location -/
theorem C08_path_level_kept_iff (op shared : List Param) (s : Param) (hs : s ∈ shared) (hns : s ∉ op) :
    s ∈ effective op shared ↔ ∀ o ∈ op, ¬ (o.name = s.name ∧ o.loc = s.loc) := by
  simp only [effective, List.mem_append, List.mem_filter, hs, hns, false_or, true_and, Bool.not_eq_true',
    List.any_eq_false, overrides, Bool.and_eq_true, decide_eq_true_eq]

/-! ### the tree as found: the path-level definition wins (F14) -/

/-- as found, GET /a is offered with both definitions of `q`, and the generated schema takes the path-level one;
    the repaired variant offers only the operation-level definition -/
theorem merge_asFound_witness :
    (iterate Cfg.asFound wMergeDoc).1 =
      [.ok ⟨"/a", "get", [], [], [], [⟨some "q", some "query", false, 1⟩, ⟨some "q", some "query", true, 2⟩], []⟩] ∧
    schemaWinner "q" [⟨some "q", some "query", false, 1⟩, ⟨some "q", some "query", true, 2⟩]
      = some ⟨some "q", some "query", true, 2⟩ ∧
    effective wOp wShared = wOp ∧
    (iterate Cfg.repaired wMergeDoc).1 = [.ok ⟨"/a", "get", [], [], [], [⟨some "q", some "query", false, 1⟩], []⟩] := by
  decide

/-- the full statement fails for the merge as found -/
theorem C08_effective_full_false :
    ¬ (∀ (op shared : List Param), mergeEntries .asFound (op.map .param) (shared.map .param)
        = (effective op shared).map .param) := by
  intro h
  exact absurd (h wOp wShared) (by decide)

/-- non-vacuity of `C08_effective` / `C08_override_wins`: a concrete operation with an overridden and a kept
    path-level parameter -/
example :
    buildOp Cfg.repaired wMergeDoc "/a" "get" ⟨none, [], .absent, none⟩
      (([⟨some "q", some "query", false, 1⟩] : List Param).map .param)
      (([⟨some "q", some "query", true, 2⟩, ⟨some "id", some "path", true, 3⟩] : List Param).map .param)
      = .ok ⟨"/a", "get", [⟨some "id", some "path", true, 3⟩], [], [], [⟨some "q", some "query", false, 1⟩], []⟩ ∧
    distinctKeys [⟨some "q", some "query", true, 2⟩, ⟨some "id", some "path", true, 3⟩] = true := by
  decide

/-! ## security parameters -/

/-- C08, security parameters: whenever an operation is built, every active `apiKey` scheme (listed in the operation's
    own `security` or, absent that, the global one) whose location is a parameter location has a parameter of its name
    defined in that location - the document's own definition if there is one (then nothing is added), otherwise the
    generated one - and every active `http` scheme contributes the `Authorization` header. (That only tag-0 parameters
    are appended, behind the effective ones, is part of `C08_effective`.) -/
theorem C08_security (cfg : Cfg) (d : Doc) (path method : String) (od : OpDef) (op shared : List REntry) (o : Operation)
    (h : buildOp cfg d path method od op shared = .ok o) (s : SecScheme) (hs : s ∈ d.schemes)
    (hact : (od.security.getD d.globalSec).contains s.key = true) :
    (∀ n l, s.type = some "apiKey" → s.name = some n → s.loc = some l →
        (l = "query" ∨ l = "header" ∨ l = "cookie" ∨ l = "path") → ∃ p, getParameter o n l = .ok (some p)) ∧
    (s.type = some "http" → s.name = none → httpAuthParam ∈ o.headers) := by
  unfold buildOp at h
  split at h
  · cases h
  · split at h
    · cases h
    · refine ⟨?_, ?_⟩
      · intro n l ht hn hl hloc
        refine processSchemes_defines _ _ _ _ s n l hs hact ht hn hl ?_ h
        rcases hloc with rfl | rfl | rfl | rfl <;> simp [container]
      · intro ht hn
        exact processSchemes_http _ _ _ _ s hs hact ht hn h

/-- non-vacuity of `C08_security`: GET /a defines the api key itself (nothing is added), POST /a overrides the global
    requirement and gets the `Authorization` header -/
example : (iterate Cfg.repaired wSecDoc).1 =
    [.ok ⟨"/a", "get", [], [], [], [⟨some "key", some "query", false, 5⟩], []⟩,
     .ok ⟨"/a", "post", [], [httpAuthParam], [], [], []⟩] := by decide

/-! ## references to parameters -/

/-- `resolve_all` with `RECURSION_DEPTH_LIMIT - 8`: a chain of up to 9 references ends in the parameter definition;
    the 10th reference is handed on unresolved, the operation is reported (the entry has no `in`), not dropped -/
theorem reference_depth_witness :
    (iterate Cfg.repaired (chainDoc 3)).1 = [.ok ⟨"/a", "get", [], [], [], [⟨some "p", some "query", false, 7⟩], []⟩] ∧
    (iterate Cfg.repaired (chainDoc 8)).1 = [.ok ⟨"/a", "get", [], [], [], [⟨some "p", some "query", false, 7⟩], []⟩] ∧
    (iterate Cfg.repaired (chainDoc 9)).1 = [.err "/a" (some "get") .key] := by
  decide

/-! ## every documented operation is offered or reported -/

/-- C08, "none is silently dropped" (TypeError handled like the other schema errors): the generator never dies, and
    the sequence of labels (path, method) of what `get_all_operations` yields - `Ok` operations and `Err`s alike -
    is exactly the sequence of documented operations: one entry per HTTP-method key of every usable path item, one
    entry naming the path for a path item that cannot be resolved. Nothing is dropped, nothing is invented, every
    error names its path. -/
theorem C08_total (cfg : Cfg) (ht : cfg.typeErr = .repaired) (d : Doc) :
    (iterate cfg d).2 = none ∧ (iterate cfg d).1.map label = documented d := by
  have h1 := iterPaths_noraise cfg ht d d.paths
  refine ⟨h1, ?_⟩
  simp only [iterate, iterEvents, documented, List.map_map, Function.comp_def]
  exact iterPaths_labels' cfg d d.paths h1

/-- each documented operation individually: it is offered, or reported with its path and method -/
theorem C08_total_each (cfg : Cfg) (ht : cfg.typeErr = .repaired) (d : Doc) (p : String) (m : Option String)
    (h : (p, m) ∈ documented d) :
    (∃ o, Item.ok o ∈ (iterate cfg d).1 ∧ o.path = p ∧ some o.method = m) ∨
    (∃ e, Item.err p m e ∈ (iterate cfg d).1) := by
  rw [← (C08_total cfg ht d).2] at h
  obtain ⟨it, hit, hl⟩ := List.mem_map.mp h
  cases it with
  | ok o =>
    left
    simp only [label, Prod.mk.injEq] at hl
    exact ⟨o, hit, hl.1, hl.2⟩
  | err p' m' e =>
    right
    simp only [label, Prod.mk.injEq] at hl
    obtain ⟨rfl, rfl⟩ := hl
    exact ⟨e, hit⟩

/-! ### the tree as found: a non-object parameter entry kills the generator (FC08a) -/

/-- as found: TypeError escapes, GET /a is not reported and GET /b is neither offered nor reported;
    repaired: GET /a is reported with its path and method, GET /b is offered -/
theorem total_asFound_witness :
    iterate Cfg.asFound wTypeDoc = ([], some .type) ∧
    documented wTypeDoc = [("/a", some "get"), ("/b", some "get")] ∧
    iterate Cfg.repaired wTypeDoc = ([.err "/a" (some "get") .type, .ok ⟨"/b", "get", [], [], [], [], []⟩], none) := by
  decide

/-- the full statement fails for the tree as found -/
theorem C08_total_full_false :
    ¬ (∀ d : Doc, (iterate Cfg.asFound d).2 = none ∧ (iterate Cfg.asFound d).1.map label = documented d) := by
  intro h
  exact absurd (h wTypeDoc).1 (by decide)

/-- what holds for the tree as found (any variant): whenever the generator runs to completion, nothing was dropped
    or invented - the only way to lose an operation is the escaping exception -/
theorem C08_total_partial (cfg : Cfg) (d : Doc) (h : (iterate cfg d).2 = none) :
    (iterate cfg d).1.map label = documented d := by
  simp only [iterate, iterEvents, documented, List.map_map, Function.comp_def] at h ⊢
  exact iterPaths_labels' cfg d d.paths h

/-- non-vacuity of `C08_total_partial` for the variant as found -/
example : (iterate Cfg.asFound wMergeDoc).2 = none ∧ documented wMergeDoc = [("/a", some "get")] := by decide

/-! ## the three look-ups refine the abstract (path, method) ⇀ operation map, for every access order -/

/-- C08, look-ups (scope repaired): in **every** state reachable by any sequence of complete iterations and look-ups
    (and of step-wise iteration, when the generator does not keep a scope pushed while suspended), each look-up
    answers exactly what the document alone determines - the operation of the abstract map, or the same class of
    error - whatever was accessed before and through whichever index. -/
theorem C08_lookup_refines (cfg : Cfg) (hls : cfg.lookupScope = .repaired) (d : Doc) (hwf : wfDoc d = true)
    (hu : uniqueIds cfg d = true) (hp : populateOk cfg d = true) (s : St) (hr : Reach cfg d s) :
    (∀ p m, httpMethods.contains (lower m) = true →
        answer (step cfg d s (.byPM p m)).2 = abstractOp cfg d p (lower m)) ∧
    (∀ i, answer (step cfg d s (.byId i)).2 = idAnswer cfg d i) ∧
    (∀ r, answer (step cfg d s (.byRef r)).2 = refAnswer cfg d r) := by
  have g := reach_good cfg d hls hwf hu hp s hr
  have htop := g.top
  refine ⟨?_, ?_, ?_⟩
  · intro p m hm
    simp only [step, htop]
    exact (byPM_spec g.inv hls hu hp p m hm).2
  · intro i
    simp only [step, htop]
    exact (byId_spec g.inv hls hwf hp i).2
  · intro r
    simp only [step, htop]
    exact (byRef_spec (cfg := cfg) g.inv r).2

/-- the abstract map is what iteration offers: an operation is offered by `get_all_operations` iff it is the abstract
    map's entry for its own (path, method) under an HTTP-method key -/
theorem C08_abstract_map_is_iteration (cfg : Cfg) (d : Doc) (hwf : wfDoc d = true) (hn : (iterate cfg d).2 = none)
    (o : Operation) :
    Item.ok o ∈ (iterate cfg d).1 ↔
      (abstractOp cfg d o.path o.method = .ok o ∧ httpMethods.contains o.method = true) :=
  ⟨iterate_sound cfg d hwf o, fun h => iterate_complete cfg d hn o.path o.method o h.2 h.1⟩

/-- C08, "looking an operation up by path and method … returns that same operation": in every reachable state,
    `schema[p][m]` returns an operation iff iteration offers one for (p, lower-cased m), and then it is that one. -/
theorem C08_lookup_by_path_method (cfg : Cfg) (hls : cfg.lookupScope = .repaired) (d : Doc) (hwf : wfDoc d = true)
    (hu : uniqueIds cfg d = true) (hp : populateOk cfg d = true) (hn : (iterate cfg d).2 = none)
    (s : St) (hr : Reach cfg d s) (p m : String) (hm : httpMethods.contains (lower m) = true) (o : Operation) :
    answer (step cfg d s (.byPM p m)).2 = .ok o ↔
      (Item.ok o ∈ (iterate cfg d).1 ∧ o.path = p ∧ o.method = lower m) := by
  rw [(C08_lookup_refines cfg hls d hwf hu hp s hr).1 p m hm]
  constructor
  · intro h
    have hpm : o.path = p ∧ o.method = lower m := by
      unfold abstractOp at h
      split at h
      · cases h
      · split at h
        · cases h
        · exact buildIn_path_method _ _ _ _ _ _ _ _ _ h
    exact ⟨iterate_complete cfg d hn p (lower m) o hm h, hpm⟩
  · rintro ⟨h1, rfl, h3⟩
    rw [← h3]
    exact (iterate_sound cfg d hwf o h1).1

/-- … "by operationId": the answer is the operation iteration offers for the documented (path, method) that carries
    this operationId -/
theorem C08_lookup_by_id (cfg : Cfg) (hls : cfg.lookupScope = .repaired) (d : Doc) (hwf : wfDoc d = true)
    (hu : uniqueIds cfg d = true) (hp : populateOk cfg d = true) (hn : (iterate cfg d).2 = none)
    (s : St) (hr : Reach cfg d s) (i : String) (o : Operation) :
    answer (step cfg d s (.byId i)).2 = .ok o ↔
      (Item.ok o ∈ (iterate cfg d).1 ∧ hasId d i o.path o.method) := by
  rw [(C08_lookup_refines cfg hls d hwf hu hp s hr).2.1 i]
  constructor
  · intro h
    unfold idAnswer at h
    cases hen : assoc i (allDefs cfg d) with
    | none => rw [hen] at h; cases h
    | some en =>
      rw [hen] at h
      dsimp only at h
      obtain ⟨s1, s2, s3, s4⟩ := allDefs_sound cfg d hwf hp i en hen
      have hpm : o.path = en.path ∧ o.method = en.method := by
        rw [abstractOp_some s1 s2] at h
        exact buildIn_path_method _ _ _ _ _ _ _ _ _ h
      rw [hpm.1, hpm.2]
      exact ⟨iterate_complete cfg d hn en.path en.method o s3 h, ⟨_, en.op, s1, s2, s3, s4⟩⟩
  · rintro ⟨h1, me, od, h2, h3, h4, h5⟩
    rw [idAnswer_of_doc hu hp h2 h3 h4 h5]
    exact (iterate_sound cfg d hwf o h1).1

/-- … "or by JSON reference" `#/paths/<path>/<method>`, for a path item written in place -/
theorem C08_lookup_by_reference (cfg : Cfg) (hls : cfg.lookupScope = .repaired) (d : Doc) (hwf : wfDoc d = true)
    (hu : uniqueIds cfg d = true) (hp : populateOk cfg d = true) (hn : (iterate cfg d).2 = none)
    (s : St) (hr : Reach cfg d s) (r : RefKey) (item : PathItem) (hin : assoc r.path d.paths = some (.inline item))
    (hm : httpMethods.contains r.method = true) (o : Operation) :
    answer (step cfg d s (.byRef r)).2 = .ok o ↔
      (Item.ok o ∈ (iterate cfg d).1 ∧ o.path = r.path ∧ o.method = r.method) := by
  rw [(C08_lookup_refines cfg hls d hwf hu hp s hr).2.2 r]
  have hitem : itemOf d r.path = .ok ⟨base, item⟩ := by simp [itemOf, hin, resolvePathItem]
  unfold refAnswer
  rw [hin]
  dsimp only
  cases hod : assoc r.method item.entries with
  | none =>
    dsimp only
    constructor
    · intro h; cases h
    · rintro ⟨h1, h2, h3⟩
      have := (iterate_sound cfg d hwf o h1).1
      rw [h2, h3, abstractOp_none hitem hod] at this
      cases this
  | some od =>
    dsimp only
    constructor
    · intro h
      have hpm : o.path = r.path ∧ o.method = r.method := by
        rw [abstractOp_some hitem hod] at h
        exact buildIn_path_method _ _ _ _ _ _ _ _ _ h
      exact ⟨iterate_complete cfg d hn r.path r.method o hm h, hpm⟩
    · rintro ⟨h1, h2, h3⟩
      rw [← h2, ← h3]
      exact (iterate_sound cfg d hwf o h1).1

/-- C08, "returns that same operation" as identity: whichever of the three look-ups hands out an operation, and
    whatever admitted accesses happen in between, two look-ups that return the operation of the same (path, method)
    return the same element of the cache's operation list - one instance per operation, for every access order. -/
theorem C08_same_instance (cfg : Cfg) (hls : cfg.lookupScope = .repaired) (d : Doc) (hwf : wfDoc d = true)
    (hu : uniqueIds cfg d = true) (hp : populateOk cfg d = true) (s : St) (hr : Reach cfg d s)
    (a1 a2 : Access) (between : List Access) (h1 : Admitted cfg a1) (h2 : Admitted cfg a2)
    (hb : ∀ a ∈ between, Admitted cfg a) (i1 i2 : Nat) (o1 o2 : Operation)
    (r1 : (step cfg d s a1).2 = .op i1 o1)
    (r2 : (step cfg d (runSt cfg d (step cfg d s a1).1 between) a2).2 = .op i2 o2)
    (hsame : o1.path = o2.path ∧ o1.method = o2.method) : i1 = i2 := by
  have g0 := reach_good cfg d hls hwf hu hp s hr
  have sh1 := step_shape cfg d hp s g0 a1
  have hr1 : Reach cfg d (step cfg d s a1).1 := .step s a1 hr h1.1 h1.2
  have g1 := reach_good cfg d hls hwf hu hp _ hr1
  obtain ⟨ho1, k1, hk1⟩ := sh1.out i1 o1 r1
  obtain ⟨me1, hm1, hc1⟩ := g1.inv.key_canonical k1 i1 o1 hk1 ho1
  have hr2 : Reach cfg d (runSt cfg d (step cfg d s a1).1 between) := reach_runSt cfg d _ hr1 between hb
  have hk1' := mono_runSt cfg d hls hwf hu hp _ hr1 between hb k1 i1 hk1
  have g2 := reach_good cfg d hls hwf hu hp _ hr2
  have sh2 := step_shape cfg d hp _ g2 a2
  have hr3 : Reach cfg d (step cfg d (runSt cfg d (step cfg d s a1).1 between) a2).1 := .step _ a2 hr2 h2.1 h2.2
  have g3 := reach_good cfg d hls hwf hu hp _ hr3
  obtain ⟨ho2, k2, hk2⟩ := sh2.out i2 o2 r2
  obtain ⟨me2, hm2, hc2⟩ := g3.inv.key_canonical k2 i2 o2 hk2 ho2
  have hk1'' := sh2.mono k1 i1 hk1'
  rw [hsame.1] at hm1
  rw [hm1] at hm2
  cases hm2
  rw [hsame.1, hsame.2] at hc1
  rw [hc1, ← hc2, hk2] at hk1''
  cases hk1''
  rfl

/-! ## resolution scope -/

/-- every public operation that runs to completion - a complete iteration, starting a generator, each of the three
    look-ups, whether it succeeds or raises - leaves the resolver's scope stack as it found it -/
theorem C08_scope_balanced (cfg : Cfg) (d : Doc) (s : St) (a : Access) (h : a ≠ .iterNext) :
    (step cfg d s a).1.stack = s.stack := by
  cases a <;> first | rfl | exact absurd rfl h

/-- with a generator that does not stay inside the path item's scope while suspended, the stack is the root scope
    alone in every reachable state, also between two `next()` calls: every look-up resolves from the root scope -/
theorem C08_scope_root (cfg : Cfg) (d : Doc) (s : St) (hr : Reach cfg d s) : s.stack = [base] ∧ s.top = base := by
  have h := (reach_calm cfg d s hr).susp
  simp [St.stack, St.top, h]

/-! ### the tree as found: look-ups resolve outside the path item's scope (F15, F15b, F15c, FC08b) -/

/-- F15: iteration offers GET /a with the definitions of `sub/common.json` (tags 2, 1); as found,
    `schema["/a"]["get"]` silently takes the shared parameter from the root's `common.json` (tag 3) and
    `get_operation_by_id("getA")` takes both from there (tags 4, 3); repaired, both return what iteration offers -/
theorem lookup_scope_asFound_witness :
    (iterate Cfg.asFound wScopeDoc).1.head? = some (.ok ⟨"/a", "get", [], [], [], qp 2 1, []⟩) ∧
    run Cfg.asFound wScopeDoc St.init [.byPM "/a" "get"] = [.op 0 ⟨"/a", "get", [], [], [], qp 2 3, []⟩] ∧
    run Cfg.asFound wScopeDoc St.init [.byId "getA"] = [.op 0 ⟨"/a", "get", [], [], [], qp 4 3, []⟩] ∧
    run Cfg.repaired wScopeDoc St.init [.byPM "/a" "get", .byId "getA"] =
      [.op 0 ⟨"/a", "get", [], [], [], qp 2 1, []⟩, .op 0 ⟨"/a", "get", [], [], [], qp 2 1, []⟩] := by
  decide

/-- the same layout without the second `common.json`: both look-ups raise RefResolutionError where iteration offers
    the operation -/
theorem lookup_scope_asFound_witness_error :
    run Cfg.asFound { wScopeDoc with links := [((0, "sub/items.json"), 1), ((1, "common.json"), 2)] } St.init
      [.byPM "/a" "get", .byId "getA"] = [.err .ref, .err .ref] := by
  decide

/-- the full look-up statement fails for the tree as found -/
theorem C08_lookup_refines_full_false :
    ¬ (∀ (d : Doc) (s : St), Reach Cfg.asFound d s → ∀ p m, httpMethods.contains (lower m) = true →
        answer (step Cfg.asFound d s (.byPM p m)).2 = abstractOp Cfg.asFound d p (lower m)) := by
  intro h
  exact absurd (h wScopeDoc St.init .init "/a" "get" (by decide)) (by decide)

/-- F15b (both variants): the reference `#/paths/~1a/get` - `APIOperation.operation_reference` of the operation
    iteration offers - is unresolvable when the path item sits behind `$ref` -/
theorem lookup_by_reference_referenced_item_witness :
    run Cfg.asFound wScopeDoc St.init [.byRef ⟨false, "/a", "get"⟩] = [.err .ref] ∧
    run Cfg.repaired wScopeDoc St.init [.byRef ⟨false, "/a", "get"⟩] = [.err .ref] ∧
    (abstractOp Cfg.repaired wScopeDoc "/a" "get" = .ok ⟨"/a", "get", [], [], [], qp 2 1, []⟩) := by
  decide

/-- F15c: as found, a look-up made while `get_all_operations` is suspended inside the path item of `/a` runs in the
    scope of `sub/items.json`: `schema["/b"]["get"]` gets tag 1 instead of tag 3, the wrong `MethodMap` and operation
    stay cached after the iteration has finished, and the stack holds the foreign scope in between;
    `get_operation_by_id` and `get_operation_by_reference` fail. Repaired: the fresh answer (tag 3), root scope. -/
theorem suspend_asFound_witness :
    run Cfg.asFound wScopeDoc St.init [.iterStart, .iterNext, .byPM "/b" "get", .iterNext, .iterNext, .byPM "/b" "get"] =
      [.unit, .next (some (.ok ⟨"/a", "get", [], [], [], qp 2 1, []⟩)) none,
       .op 0 ⟨"/b", "get", [], [], [], [⟨some "p", some "query", false, 1⟩], []⟩,
       .next (some (.ok ⟨"/b", "get", [], [], [], [⟨some "p", some "query", false, 3⟩], []⟩)) none,
       .next none none,
       .op 0 ⟨"/b", "get", [], [], [], [⟨some "p", some "query", false, 1⟩], []⟩] ∧
    (step Cfg.asFound wScopeDoc (step Cfg.asFound wScopeDoc St.init .iterStart).1 .iterNext).1.stack =
      [base, ⟨1, some "/items/I1"⟩] ∧
    run Cfg.asFound wScopeDoc St.init [.iterStart, .iterNext, .byId "getB"] =
      [.unit, .next (some (.ok ⟨"/a", "get", [], [], [], qp 2 1, []⟩)) none, .err .ref] ∧
    run Cfg.asFound wScopeDoc St.init [.byPM "/b" "get"] =
      [.op 0 ⟨"/b", "get", [], [], [], [⟨some "p", some "query", false, 3⟩], []⟩] ∧
    run Cfg.repaired wScopeDoc St.init [.iterStart, .iterNext, .byPM "/b" "get"] =
      [.unit, .next (some (.ok ⟨"/a", "get", [], [], [], qp 2 1, []⟩)) none,
       .op 0 ⟨"/b", "get", [], [], [], [⟨some "p", some "query", false, 3⟩], []⟩] := by
  decide

/-- FC08b: as found, one unresolvable path item makes `get_operation_by_id("getC")` raise RefResolutionError, then
    OperationNotFound, for an operation iteration offers - unless `schema["/c"]["get"]` was used before: the answer
    depends on the history. Repaired: the operation, in both orders. -/
theorem populate_asFound_witness :
    run Cfg.asFound wPopulateDoc St.init [.byId "getC", .byId "getC"] = [.err .ref, .err .key] ∧
    run Cfg.asFound wPopulateDoc St.init [.byPM "/c" "get", .byId "getC"] =
      [.op 0 ⟨"/c", "get", [], [], [], [], []⟩, .op 0 ⟨"/c", "get", [], [], [], [], []⟩] ∧
    run Cfg.repaired wPopulateDoc St.init [.byId "getC", .byId "getC"] =
      [.op 0 ⟨"/c", "get", [], [], [], [], []⟩, .op 0 ⟨"/c", "get", [], [], [], [], []⟩] ∧
    (iterate Cfg.asFound wPopulateDoc).1.map label = [("/b", some "get"), ("/0", none), ("/c", some "get")] := by
  decide

/-- non-vacuity of the look-up theorems: the hypotheses hold for the multi-file witness in the repaired variant, and
    a state with a populated cache is reachable -/
example : wfDoc wScopeDoc = true ∧ uniqueIds Cfg.repaired wScopeDoc = true ∧ populateOk Cfg.repaired wScopeDoc = true ∧
    (iterate Cfg.repaired wScopeDoc).2 = none ∧ hasId wScopeDoc "getA" "/a" "get" := by
  refine ⟨by decide, by decide, by decide, by decide, ?_⟩
  exact ⟨⟨⟨1, some "/items/I1"⟩, ⟨[.ref "common.json" "/params/P1"],
      [("get", ⟨some "getA", [.ref "common.json" "/params/P2"], .absent, none⟩)]⟩⟩,
    ⟨some "getA", [.ref "common.json" "/params/P2"], .absent, none⟩, by decide, by decide, by decide, rfl⟩

example : Reach Cfg.repaired wScopeDoc
    (step Cfg.repaired wScopeDoc (step Cfg.repaired wScopeDoc St.init (.byId "getA")).1 .iterStart).1 :=
  .step _ _ (.step _ _ .init rfl (Or.inl rfl)) rfl (Or.inl rfl)

/-- the hypotheses also hold for the tree as found on single-file documents (what the as-found variant is proved for:
    look-ups are then correct for all orders of complete iterations and look-ups whenever `lookupScope` is repaired;
    the witness above shows the as-found scope handling is not) -/
example : wfDoc wMergeDoc = true ∧ uniqueIds Cfg.asFound wMergeDoc = true ∧ populateOk Cfg.asFound wMergeDoc = true := by
  decide


/-! ### the path named by a reference: `get_operation_by_reference` decodes the JSON-pointer segment -/

/-- **A reference names its path.**  `#/paths/<escaped path>/<method>` is decoded with `.replace("~1", "/").replace("~0", "~")`
    (the function `SV.Model.C10.unescape`, shared with the link expressions of C10): for every path text, also one that
    itself contains `~`, `~0`, `~1` or `/`, decoding the escaped path gives the path back — so the look-up by reference is
    made for the documented path, whatever characters it contains. -/
theorem C08_reference_names_its_path (p : SV.Model.C10.Str) :
    SV.Model.C10.unescape (SV.Spec.C10.escape p) = p :=
  SV.Proofs.C10.unescape_escape p

/-- the replacements in the other order are wrong exactly on paths that contain text looking like an escape:
    `/f~1g` is written `~1f~01g` and would be read back as `/f/g` -/
theorem C08_reference_swapped_decoding_false :
    SV.Model.C10.unescapeSwapped (SV.Spec.C10.escape "/f~1g".toList) = "/f/g".toList ∧
    SV.Model.C10.unescape (SV.Spec.C10.escape "/f~1g".toList) = "/f~1g".toList := by
  decide

end SV.Props.C08
