/-
  C09 — the printed curl command re-sends the same request.  Property theorems only.

  Vocabulary (lean/SV/Model/C09.lean, lean/SV/Spec/C09.lean):
    shlexQuote, generate, argvOf      the code (shlex.quote, curl.generate, the argv it is meant to denote)
    shParse, curlSem                  the reference semantics of sh word splitting and of curl's options
    reproduces auto o cmd             the property: sh + curl turn `cmd` into the request `o`, up to automatic headers
    wf r                              what `requests` and HTTP syntax guarantee of a prepared request
    Variants ⟨emptyHeader, dataAt, filter⟩   asFound | repaired at the three sites of defect F16
    run mk h, findFailureData         the recorder after a history of operations; ScenarioRecorder.find_failure_data
    expectedData h id, lastSent, lastCase   the specification: what the report of a failure of test case `id` stands for
    codeSample vs tbl prep fd         failure_data.case.as_curl_command(headers=failure_data.headers, verify=…)
-/
import SV.Proofs.C09

namespace SV.Props.C09
open SV.Model.C09 SV.Spec.C09 SV.Proofs.C09

/-! ### shell level: quoting is inverted by word splitting + quote removal, for every string -/

/-- `shlex.quote s` is read back by a POSIX shell as the single word `s`, for every NUL-free string. -/
theorem shell_roundtrip_word (s : Str) (h : noNul s = true) : shParse (shlexQuote s) = some [s] := by
  have := shParse_render [s] (by simpa using h)
  simpa [render, renderTail] using this

/-- Any argument vector of NUL-free strings, quoted word by word and joined by blanks, is read back unchanged. -/
theorem shell_roundtrip (argv : List Str) (h : ∀ w ∈ argv, noNul w = true) : shParse (render argv) = some argv :=
  shParse_render argv h

/-- Quoting never lets a word leak into its neighbours: in any parser state, after `quote s` the state is the one
    reached by appending `s` literally to the current word. (The accumulator form the two theorems above rest on.) -/
theorem shell_roundtrip_in_context (s : Str) (h : noNul s = true) (w : Bool) (cur : Str) (done : List Str) (rest : Str) :
    shGo .un w cur done (shlexQuote s ++ rest) = shGo .un true (s.reverse ++ cur) done rest :=
  shGo_quote s h w cur done rest

/-- The command text `curl.generate` prints denotes exactly `argvOf`: method printed unquoted (hence `methodOk`),
    everything else through `shlex.quote`; for every variant, table and well-formed request. -/
theorem generate_parses (vs : Variants) (tbl : Table) (r : Req) (hwf : wf r = true) :
    shParse (generate vs tbl r) = some (argvOf vs tbl r) := by
  have hm : methodOk r.method = true := by
    simp only [wf, Bool.and_eq_true] at hwf
    exact hwf.1.1.1
  rw [generate_eq_render vs tbl r hm]
  exact shParse_render _ (argvOf_noNul vs tbl r hwf)

/-- A method that is not a shell-safe word breaks the command (it is the only unquoted piece): witness. -/
theorem unquoted_method_witness :
    shParse (generate ⟨.repaired, .repaired, .repaired⟩ [] ⟨"A B".toList, "http://h/".toList, none, true, [], []⟩)
      ≠ some (argvOf ⟨.repaired, .repaired, .repaired⟩ [] ⟨"A B".toList, "http://h/".toList, none, true, [], []⟩) := by
  decide

/-! ### curl level: what the argument vector makes curl send -/

/-- curl, given the argument vector of the command, either reads the body from a file (code as found, body
    starting with '@') or sends one request with the method, URL, body and `--insecure` flag of the original and
    exactly those kept headers whose `-H` text curl does not discard. -/
theorem curl_interprets (vs : Variants) (tbl : Table) (r : Req) (hwf : wf r = true) :
    curlSem (argvOf vs tbl r) =
      if vs.dataAt = .asFound ∧ bodyStartsAt (bodyOf r.body) = true then .readsFile
      else .request r.method r.url ((filterHeaders vs.filter tbl r.known r.headers).filterMap (sentOf vs.emptyHeader))
        (bodyOf r.body) (!r.verify) :=
  curlSem_argvOf vs tbl r hwf

/-- curl discards `-H 'k: '` and keeps everything else the code emits (code as found). -/
theorem header_on_wire_asFound (k v : Str) (hk : nameOk k = true) (hv : valueOk v = true) :
    headerSent (headerArg .asFound k v) = if v.isEmpty then none else some (k, v) := by
  simpa [headerArg] using headerSent_colon k v hk hv

/-- with `-H 'k;'` for an empty value every header reaches the wire (repaired). -/
theorem header_on_wire_repaired (k v : Str) (hk : nameOk k = true) (hv : valueOk v = true) :
    headerSent (headerArg .repaired k v) = some (k, v) :=
  headerSent_repaired k v hk hv

/-! ### the property -/

/-- **Full statement, repaired code.** For every table of automatic headers and every well-formed prepared
    request, the command printed by the repaired `generate`, run through sh and curl, sends the same method, URL,
    body, only headers of the original and every header of it that is not automatic. -/
theorem reproduces_repaired : ReproducesAll ⟨.repaired, .repaired, .repaired⟩ := by
  intro tbl r hwf
  rw [reproduces_iff _ tbl tbl r hwf]
  have hall : ∀ kv ∈ r.headers, nameOk kv.1 = true ∧ valueOk kv.2 = true := by
    simp only [wf, Bool.and_eq_true, List.all_eq_true] at hwf
    exact hwf.2
  have hkept : ∀ kv ∈ filterHeaders .repaired tbl r.known r.headers, nameOk kv.1 = true ∧ valueOk kv.2 = true :=
    fun kv hkv => hall kv (List.mem_filter.1 hkv).1
  have hs := sent_eq .repaired _ hkept
  simp only at hs
  simp only [hs, headersOk, Bool.and_eq_true, List.all_eq_true, Bool.or_eq_true]
  refine ⟨by simp, ?_, ?_⟩
  · intro kv hkv
    simpa using (List.mem_filter.1 hkv).1
  · intro kv hkv
    by_cases ha : isAuto tbl kv = true
    · exact Or.inl ha
    · right
      simp only [List.contains_eq_mem, decide_eq_true_eq, filterHeaders, List.mem_filter]
      refine ⟨hkv, ?_⟩
      simp only [isAuto, Bool.not_eq_true] at ha
      simp [ha]

/-- The same for any code table `tbl` that treats as automatic only what the specification's table `auto` does. -/
theorem reproduces_repaired_tables (tbl auto : Table) (r : Req) (hwf : wf r = true)
    (hsub : ∀ kv ∈ r.headers, isAutoValued tbl kv.1 kv.2 = true → isAuto auto kv = true) :
    reproduces auto (original r) (generate ⟨.repaired, .repaired, .repaired⟩ tbl r) = true := by
  rw [reproduces_iff _ tbl auto r hwf]
  have hall : ∀ kv ∈ r.headers, nameOk kv.1 = true ∧ valueOk kv.2 = true := by
    simp only [wf, Bool.and_eq_true, List.all_eq_true] at hwf
    exact hwf.2
  have hkept : ∀ kv ∈ filterHeaders .repaired tbl r.known r.headers, nameOk kv.1 = true ∧ valueOk kv.2 = true :=
    fun kv hkv => hall kv (List.mem_filter.1 hkv).1
  have hs := sent_eq .repaired _ hkept
  simp only at hs
  simp only [hs, headersOk, Bool.and_eq_true, List.all_eq_true, Bool.or_eq_true]
  refine ⟨by simp, ?_, ?_⟩
  · intro kv hkv
    simpa using (List.mem_filter.1 hkv).1
  · intro kv hkv
    by_cases ha : isAuto auto kv = true
    · exact Or.inl ha
    · right
      simp only [List.contains_eq_mem, decide_eq_true_eq, filterHeaders, List.mem_filter]
      refine ⟨hkv, ?_⟩
      have : isAutoValued tbl kv.1 kv.2 = false := by
        cases h : isAutoValued tbl kv.1 kv.2 with
        | false => rfl
        | true => exact absurd (hsub kv hkv h) ha
      simp [this]

/-- **Code as found, strongest true statement.** The command re-sends the request whenever (1) no kept header has
    an empty value, (2) the body does not start with '@', (3) every header with a library name that the case did not
    generate carries the automatic value. Each hypothesis is necessary: see the three `…_lost` theorems. -/
theorem reproduces_asFound_partial (tbl auto : Table) (r : Req) (hwf : wf r = true)
    (h1 : ∀ kv ∈ filterHeaders .asFound tbl r.known r.headers, kv.2.isEmpty = false)
    (h2 : bodyStartsAt (bodyOf r.body) = false)
    (h3 : ∀ kv ∈ r.headers, isExcluded tbl kv.1 = true → r.known.contains kv.1 = false → isAuto auto kv = true) :
    reproduces auto (original r) (generate ⟨.asFound, .asFound, .asFound⟩ tbl r) = true := by
  rw [reproduces_iff _ tbl auto r hwf]
  have hall : ∀ kv ∈ r.headers, nameOk kv.1 = true ∧ valueOk kv.2 = true := by
    simp only [wf, Bool.and_eq_true, List.all_eq_true] at hwf
    exact hwf.2
  have hkept : ∀ kv ∈ filterHeaders .asFound tbl r.known r.headers, nameOk kv.1 = true ∧ valueOk kv.2 = true :=
    fun kv hkv => hall kv (List.mem_filter.1 hkv).1
  have hs := sent_eq .asFound _ hkept
  simp only at hs
  have hfil : (filterHeaders .asFound tbl r.known r.headers).filter (fun kv => !kv.2.isEmpty)
      = filterHeaders .asFound tbl r.known r.headers :=
    List.filter_eq_self.2 fun kv hkv => by simp [h1 kv hkv]
  simp only [hs, hfil, h2, headersOk, Bool.and_eq_true, List.all_eq_true, Bool.or_eq_true]
  refine ⟨by simp, ?_, ?_⟩
  · intro kv hkv
    simpa using (List.mem_filter.1 hkv).1
  · intro kv hkv
    by_cases ha : isAuto auto kv = true
    · exact Or.inl ha
    · right
      simp only [List.contains_eq_mem, decide_eq_true_eq, filterHeaders, List.mem_filter]
      refine ⟨hkv, ?_⟩
      cases hk : r.known.contains kv.1 with
      | true => simp [← List.contains_eq_mem, hk]
      | false =>
        cases he : isExcluded tbl kv.1 with
        | false => simp
        | true => exact absurd (h3 kv hkv he hk) ha

/-- F16b, in general: with the code as found **no** request whose body starts with '@' is reproduced. -/
theorem asFound_dataAt_lost (ve vf : Variant) (tbl auto : Table) (r : Req) (hwf : wf r = true)
    (hat : bodyStartsAt (bodyOf r.body) = true) :
    reproduces auto (original r) (generate ⟨ve, .asFound, vf⟩ tbl r) = false := by
  rw [reproduces_iff _ tbl auto r hwf]
  simp [hat]

/-- F16a, in general: with the code as found a kept, non-automatic header with an empty value is never reproduced. -/
theorem asFound_emptyHeader_lost (vd vf : Variant) (tbl auto : Table) (r : Req) (hwf : wf r = true) (k : Str)
    (hmem : (k, []) ∈ filterHeaders vf tbl r.known r.headers) (hna : isAuto auto (k, []) = false) :
    reproduces auto (original r) (generate ⟨.asFound, vd, vf⟩ tbl r) = false := by
  rw [reproduces_iff _ tbl auto r hwf]
  have hall : ∀ kv ∈ r.headers, nameOk kv.1 = true ∧ valueOk kv.2 = true := by
    simp only [wf, Bool.and_eq_true, List.all_eq_true] at hwf
    exact hwf.2
  have hkept : ∀ kv ∈ filterHeaders vf tbl r.known r.headers, nameOk kv.1 = true ∧ valueOk kv.2 = true :=
    fun kv hkv => hall kv (List.mem_filter.1 hkv).1
  have hs := sent_eq .asFound _ hkept
  simp only at hs
  have hin : (k, []) ∈ r.headers := (List.mem_filter.1 hmem).1
  have hnot : ¬ (k, ([] : Str)) ∈ (filterHeaders vf tbl r.known r.headers).filter (fun kv => !kv.2.isEmpty) := by
    simp [List.mem_filter]
  have : headersOk auto r.headers ((filterHeaders vf tbl r.known r.headers).filter fun kv => !kv.2.isEmpty) = false := by
    simp only [headersOk, Bool.and_eq_false_iff]
    right
    rw [Bool.eq_false_iff]
    intro hc
    have := List.all_eq_true.1 hc (k, []) hin
    simp only [hna, Bool.false_or, List.contains_eq_mem, decide_eq_true_eq] at this
    exact hnot this
  simp [hs, this]

/-- F16c, in general: with the filter as found a header with a library name that the case did not generate and
    whose value is not the automatic one is never reproduced. -/
theorem asFound_filter_lost (ve vd : Variant) (tbl auto : Table) (r : Req) (hwf : wf r = true) (kv : Str × Str)
    (hmem : kv ∈ r.headers) (hex : isExcluded tbl kv.1 = true) (hk : r.known.contains kv.1 = false)
    (hna : isAuto auto kv = false) :
    reproduces auto (original r) (generate ⟨ve, vd, .asFound⟩ tbl r) = false := by
  rw [reproduces_iff _ tbl auto r hwf]
  have hall : ∀ kv ∈ r.headers, nameOk kv.1 = true ∧ valueOk kv.2 = true := by
    simp only [wf, Bool.and_eq_true, List.all_eq_true] at hwf
    exact hwf.2
  have hkept : ∀ kv ∈ filterHeaders .asFound tbl r.known r.headers, nameOk kv.1 = true ∧ valueOk kv.2 = true :=
    fun kv hkv => hall kv (List.mem_filter.1 hkv).1
  have hk' : ¬ kv.1 ∈ r.known := by simpa using hk
  have hnk : ¬ kv ∈ filterHeaders .asFound tbl r.known r.headers := by
    simp [filterHeaders, List.mem_filter, hex, hk']
  have hnot : ¬ kv ∈ (filterHeaders .asFound tbl r.known r.headers).filterMap (sentOf ve) := by
    rw [sent_eq ve _ hkept]
    cases ve with
    | repaired => exact hnk
    | asFound => exact fun h => hnk (List.mem_filter.1 h).1
  have : headersOk auto r.headers ((filterHeaders .asFound tbl r.known r.headers).filterMap (sentOf ve)) = false := by
    simp only [headersOk, Bool.and_eq_false_iff]
    right
    rw [Bool.eq_false_iff]
    intro hc
    have := List.all_eq_true.1 hc kv hmem
    simp only [hna, Bool.false_or, List.contains_eq_mem, decide_eq_true_eq] at this
    exact hnot this
  simp [this]

/-- The headers curl sends appear in the order of the prepared request (a sub-list of it), for every variant. -/
theorem generate_keeps_header_order (vs : Variants) (tbl : Table) (r : Req) (hwf : wf r = true) :
    ((filterHeaders vs.filter tbl r.known r.headers).filterMap (sentOf vs.emptyHeader)).Sublist r.headers := by
  have hall : ∀ kv ∈ r.headers, nameOk kv.1 = true ∧ valueOk kv.2 = true := by
    simp only [wf, Bool.and_eq_true, List.all_eq_true] at hwf
    exact hwf.2
  have hkept : ∀ kv ∈ filterHeaders vs.filter tbl r.known r.headers, nameOk kv.1 = true ∧ valueOk kv.2 = true :=
    fun kv hkv => hall kv (List.mem_filter.1 hkv).1
  rw [sent_eq vs.emptyHeader _ hkept]
  cases vs.emptyHeader with
  | repaired => exact List.filter_sublist
  | asFound => exact List.Sublist.trans List.filter_sublist List.filter_sublist

/-! ### the full statement is false for the code as found: kernel-checked witnesses (defect F16) -/

/-- F16a: `curl -X GET -H 'X-Empty: ' http://h/` does not send `X-Empty`. -/
theorem reproduces_full_false_emptyHeader (vd vf : Variant) : ¬ ReproducesAll ⟨.asFound, vd, vf⟩ := by
  intro h
  have := h [] ⟨"GET".toList, "http://h/".toList, none, true, [("X-Empty".toList, [])], []⟩ (by decide)
  cases vd <;> cases vf <;> revert this <;> decide

/-- F16b: `curl -X POST -d @etc http://h/` posts the content of the file `etc`, not the text "@etc". -/
theorem reproduces_full_false_dataAt (ve vf : Variant) : ¬ ReproducesAll ⟨ve, .asFound, vf⟩ := by
  intro h
  have := h [] ⟨"POST".toList, "http://h/".toList, some "@etc".toList, true, [], []⟩ (by decide)
  cases ve <;> cases vf <;> revert this <;> decide

/-- F16c: a user-configured `Accept: application/json` is filtered out; curl then sends `Accept: */*`. -/
theorem reproduces_full_false_filter (ve vd : Variant) : ¬ ReproducesAll ⟨ve, vd, .asFound⟩ := by
  intro h
  have := h [("Accept".toList, some "*/*".toList)]
    ⟨"GET".toList, "http://h/".toList, none, true, [("Accept".toList, "application/json".toList)], []⟩ (by decide)
  cases ve <;> cases vd <;> revert this <;> decide

/-! ### `bytes.decode("utf-8", errors="replace")` on text payloads -/

/-- A bytes payload that is the UTF-8 encoding of a text is decoded to exactly that text (no replacement
    character, nothing merged or dropped): the model of `body.decode("utf-8", errors="replace")` inverts UTF-8. -/
theorem utf8_text_roundtrip (s : Str) : utf8DecodeReplace (utf8Encode s) = s := by
  unfold utf8DecodeReplace utf8Encode
  exact utf8Go_text s _ (by have := flatMap_len s; omega)

/-- the formula is the one of Lean's own UTF-8 encoder -/
theorem utf8Enc_eq_core (c : Char) : (String.utf8EncodeChar c).map UInt8.toNat = utf8Enc c := by
  have hv := char_valid c
  unfold String.utf8EncodeChar utf8Enc
  simp only [Char.toNat] at *
  generalize c.val.toNat = v at *
  by_cases h1 : v ≤ 0x7f
  · simp [h1]; omega
  · by_cases h2 : v ≤ 0x7ff
    · simp [h1, h2]; omega
    · by_cases h3 : v ≤ 0xffff
      · simp [h1, h2, h3]; omega
      · simp [h1, h2, h3]; omega


/-- A payload of ASCII bytes is decoded to the same characters (no replacement character is introduced). -/
theorem utf8_ascii (bs : List Nat) (h : ∀ b ∈ bs, b < 128) : utf8DecodeReplace bs = bs.map Char.ofNat := by
  unfold utf8DecodeReplace
  generalize hf : bs.length + 1 = fuel
  have hle : bs.length < fuel := by omega
  clear hf
  induction bs generalizing fuel with
  | nil => cases fuel <;> simp [utf8Go]
  | cons b rest ih =>
    cases fuel with
    | zero => simp at hle
    | succ f =>
      have hb : b < 128 := h b (by simp)
      have := ih (fun x hx => h x (by simp [hx])) f (by simp at hle; omega)
      simp [utf8Go, hb, this]

/-! ### which request the failure report stands for (`ScenarioRecorder.find_failure_data` + the `on_failure` glue) -/

/-- **Selection, every history.** After any sequence of recorder operations, `find_failure_data` returns exactly
    what the property asks for: the test case most recently recorded under the id the failure is reported for (the
    one it names, else the case under validation), the headers of the request most recently sent *for that id*, and
    the `verify` flag of *its* response — and fails exactly when one of them is not on record. -/
theorem find_failure_data_selects {σ : Type} (mk : FailureData → σ) (h : List Op) (pid : Str) (f : Option Str) :
    findFailureData (run mk h) pid f = expectedData h (failingId pid f) :=
  findFailureData_run mk h pid f

/-- The check is stored under the id of the case the sample was built for, which is the id the failure is reported
    for (`record_check_failure(case_id=failure_data.case.id, …)`). -/
theorem failure_stored_under_reported_id {σ : Type} (mk : FailureData → σ) (h : List Op) (n pid : Str) (f : Option Str)
    (fd : FailureData) (hok : findFailureData (run mk h) pid f = .ok fd) :
    fd.case.id = failingId pid f ∧
      dGet (run mk (h ++ [.onFailure n pid f])).checks (failingId pid f)
        = some ((dGet (run mk h).checks (failingId pid f)).getD [] ++ [⟨n, some (mk fd)⟩]) := by
  have hid : fd.case.id = failingId pid f := by
    rw [findFailureData_run] at hok
    exact expectedData_id h _ fd hok
  refine ⟨hid, ?_⟩
  rw [run_snoc]
  simp [step, hok, dGet_appendCheck, hid]

/-- **Every sample in the final report.** Whatever the history, a failed check listed under test case `k` carries
    the sample built from the case and the exchange that were on record for `k` itself when the failure was
    reported (after some prefix of the history). -/
theorem recorded_samples_are_for_their_case {σ : Type} (mk : FailureData → σ) (h : List Op) (k : Str)
    (nodes : List (CheckNode σ)) (node : CheckNode σ) (s : σ)
    (hk : dGet (run mk h).checks k = some nodes) (hmem : node ∈ nodes) (hs : node.sample = some s) :
    ∃ n fd, n ≤ h.length ∧ expectedData (h.take n) k = .ok fd ∧ s = mk fd :=
  samplesOk_run mk h k nodes node s hk hmem hs

/-- **End to end.** For every code variant that reproduces prepared requests (`ReproducesAll`, proved for the
    repaired code), every history, and every reported failure: the code sample re-sends the request that was sent
    for the reported test case — its method, URL, body, the first value of each of its headers, and the `verify`
    flag of its response — provided re-preparing the case with those headers gives that request again (`Faithful`:
    `requests` is idempotent here, up to the order of the header fields) and the request is well-formed. -/
theorem failure_sample_reproduces (vs : Variants) (hall : ReproducesAll vs) (tbl : Table)
    (prep : Nat → List (Str × Str) → Prepared) {σ : Type} (mk : FailureData → σ) (h : List Op) (pid : Str)
    (f : Option Str) (fd : FailureData) (hok : findFailureData (run mk h) pid f = .ok fd) :
    ∃ ia, lastSent h (failingId pid f) = some ia ∧ ia.verify = some fd.verify
      ∧ lastCase h (failingId pid f) = some fd.case ∧ firstValues ia.request.headers = .ok fd.headers
      ∧ (Faithful prep fd.case ia fd.headers → wf (preparedReq (prep fd.case.obj fd.headers) fd.verify) = true →
          reproduces tbl (sentOriginal ia fd.headers fd.verify) (codeSample vs tbl prep fd) = true) := by
  rw [findFailureData_run] at hok
  unfold expectedData at hok
  cases hc : lastCase h (failingId pid f) with
  | none => simp [hc] at hok
  | some c =>
    cases hi : lastSent h (failingId pid f) with
    | none => simp [hc, hi] at hok
    | some ia =>
      cases hv : ia.verify with
      | none => simp [hc, hi, hv] at hok
      | some v =>
        cases hh : firstValues ia.request.headers with
        | error e => simp [hc, hi, hv, hh] at hok
        | ok hs =>
          simp only [hc, hi, hv, hh, Except.ok.injEq] at hok
          subst hok
          refine ⟨ia, rfl, hv, rfl, hh, ?_⟩
          intro hfa hwf
          obtain ⟨h1, h2, h3, h4⟩ := hfa
          rw [codeSample_eq]
          exact reproduces_of_faithful vs hall tbl _ _ ia _ h1 h2 h3 h4 hwf

/-- the same, instantiated with the repaired `generate` (the code of the snapshot after the F16 fixes) -/
theorem failure_sample_reproduces_repaired (tbl : Table) (prep : Nat → List (Str × Str) → Prepared) {σ : Type}
    (mk : FailureData → σ) (h : List Op) (pid : Str) (f : Option Str) (fd : FailureData)
    (hok : findFailureData (run mk h) pid f = .ok fd) :
    ∃ ia, lastSent h (failingId pid f) = some ia ∧ ia.verify = some fd.verify
      ∧ (Faithful prep fd.case ia fd.headers → wf (preparedReq (prep fd.case.obj fd.headers) fd.verify) = true →
          reproduces tbl (sentOriginal ia fd.headers fd.verify)
            (codeSample ⟨.repaired, .repaired, .repaired⟩ tbl prep fd) = true) := by
  obtain ⟨ia, h1, h2, _, _, h5⟩ := failure_sample_reproduces _ reproduces_repaired tbl prep mk h pid f fd hok
  exact ⟨ia, h1, h2, h5⟩

/-- **Necessity: the headers must be those of the failing request.** A command printed (by the repaired code) for
    a prepared request that carries a header which is neither automatic nor a header of the original request does
    not reproduce the original — whatever else agrees. (The shape of taking the recorded request from another test
    case, e.g. the parent's credentials shown for the derived no-auth request.) -/
theorem sample_with_foreign_header_fails (tbl auto : Table) (r : Req) (hwf : wf r = true) (o : Original)
    (kv : Str × Str) (hmem : kv ∈ r.headers) (hkeep : isAutoValued tbl kv.1 kv.2 = false)
    (hforeign : o.headers.contains kv = false) :
    reproduces auto o (generate ⟨.repaired, .repaired, .repaired⟩ tbl r) = false := by
  rw [reproduces_generate _ tbl auto r hwf o]
  have hall : ∀ kv ∈ r.headers, nameOk kv.1 = true ∧ valueOk kv.2 = true := by
    simp only [wf, Bool.and_eq_true, List.all_eq_true] at hwf
    exact hwf.2
  have hkept : ∀ kv ∈ filterHeaders .repaired tbl r.known r.headers, nameOk kv.1 = true ∧ valueOk kv.2 = true :=
    fun kv hkv => hall kv (List.mem_filter.1 hkv).1
  have hs := sent_eq .repaired _ hkept
  simp only at hs
  have hin : kv ∈ filterHeaders .repaired tbl r.known r.headers := by
    simp [filterHeaders, List.mem_filter, hmem, hkeep]
  have : headersOk auto o.headers (filterHeaders .repaired tbl r.known r.headers) = false := by
    simp only [headersOk, Bool.and_eq_false_iff]
    left
    rw [Bool.eq_false_iff]
    intro hc
    have := List.all_eq_true.1 hc kv hin
    simp at this
    simp [this] at hforeign
  simp [hs, sameRequest, this]

/-- Witness (kernel-checked): in the `ignored_auth` scenario the code's selection reproduces the derived request,
    the command built from the parent's exchange does not (it carries the valid key the failing request lacked). -/
theorem parent_request_witness :
    findFailureData (run (codeSample ⟨.repaired, .repaired, .repaired⟩ [] wPrep) wHistory) "P".toList (some "D".toList)
        = .ok ⟨⟨"D".toList, 1⟩, [("X-Tenant".toList, "it's acme".toList)], false⟩
    ∧ reproduces [] (sentOriginal ⟨wDerivedReq, some false⟩ [("X-Tenant".toList, "it's acme".toList)] false)
        (codeSample ⟨.repaired, .repaired, .repaired⟩ [] wPrep
          ⟨⟨"D".toList, 1⟩, [("X-Tenant".toList, "it's acme".toList)], false⟩) = true
    ∧ reproduces [] (sentOriginal ⟨wDerivedReq, some false⟩ [("X-Tenant".toList, "it's acme".toList)] false)
        (codeSample ⟨.repaired, .repaired, .repaired⟩ [] wPrep wParentData) = false := by
  refine ⟨by decide +kernel, by decide +kernel, by decide +kernel⟩

/-! ### "headers that curl / requests add on their own": the code's table against the specification's own statement

  `Clients` is what the harness measures on the real `requests` transport and the real curl; `mayOmit c o kv` is the
  specification's statement of when a field of the original may be missing from the command (curl sends the same
  field by itself, or it is a transport artefact); `specAuto c o` is the same as a table; `reproducesOnWire` is the
  property stated on everything curl sends, its own fields included.  None of them reads `get_excluded_headers()`. -/

/-- The specification's table says exactly: the field may be missing iff curl sends the same one by itself or it is a
    transport artefact. -/
theorem spec_table_is_may_omit (c : Clients) (o : Original) (kv : Str × Str) :
    isAuto (specAuto c o) kv = mayOmit c o kv :=
  specAuto_isAuto c o kv

/-- **The table `get_excluded_headers()` builds hides only automatic fields** — for every list of defaults
    `requests` may report, every `USER_AGENT` and label name, every pair of clients that agrees with them
    (`ClientsAgree`, measured on every run), every request and every header name and value. -/
theorem excluded_only_automatic (c : Clients) (defaults : List (Str × Str)) (ua h : Str)
    (hag : ClientsAgree c defaults ua h) (o : Original) (k v : Str)
    (hhid : isAutoValued (excludedTable defaults ua h) k v = true) : mayOmit c o (k, v) = true := by
  obtain ⟨hdef, hua, hspell, hid⟩ := hag
  obtain ⟨e, he, hname, hval⟩ := (isAutoValued_iff _ k v).1 hhid
  have hart : isArtefact c (e.1, v) = true → mayOmit c o (k, v) = true := by
    intro ha
    rw [← mayOmit_congr c o e.1 k v hname]
    simp [mayOmit, ha]
  rcases excludedTable_entry defaults ua h e hspell he with ⟨_, hn⟩ | rfl | ⟨kv, hkv, rfl, hnu⟩
  · apply hart
    rcases hn with hn | hn | hn
    · simp [isArtefact, framingNames, hn, sameName]
    · simp [isArtefact, framingNames, hn, sameName]
    · simp only [isArtefact, hn, hid, Bool.or_true, Bool.true_or]
  · apply hart
    have : v = ua := by
      rcases hval with hval | hval
      · simp at hval
      · simpa using hval.symm
    simpa [this] using hua
  · apply hart
    have : v = kv.2 := by
      rcases hval with hval | hval
      · simp at hval
      · simpa using hval.symm
    simpa [this] using hdef kv hkv hnu

/-- The decidable test the harness applies to the table of the tree under test is sound: a table that passes it
    hides only automatic fields, for every request. -/
theorem table_within_spec_sound (c : Clients) (tbl : Table) (hw : tableWithin c tbl = true) (o : Original) (k v : Str)
    (hhid : isAutoValued tbl k v = true) : mayOmit c o (k, v) = true := by
  obtain ⟨e, he, hname, hval⟩ := (isAutoValued_iff _ k v).1 hhid
  have hent := List.all_eq_true.1 hw e he
  rw [← mayOmit_congr c o e.1 k v hname]
  rcases hval with hval | hval
  · simp only [hval, Bool.or_eq_true] at hent
    simp only [mayOmit, isArtefact, Bool.or_eq_true]
    right; left; exact hent
  · simp only [hval] at hent
    exact staticAuto_sub c o e.1 v hent

/-- **Full statement against the independent specification, repaired code with its own table.** For every pair of
    clients, every defaults list / `USER_AGENT` / label name they agree with, and every well-formed prepared request:
    the command sends method, URL, body, only fields of the original, and every field of the original except those
    curl sends by itself with the same value or that are transport artefacts. -/
theorem reproduces_repaired_clients (c : Clients) (defaults : List (Str × Str)) (ua h : Str)
    (hag : ClientsAgree c defaults ua h) (r : Req) (hwf : wf r = true) :
    reproduces (specAuto c (original r)) (original r)
      (generate ⟨.repaired, .repaired, .repaired⟩ (excludedTable defaults ua h) r) = true := by
  apply reproduces_repaired_tables _ _ r hwf
  intro kv _ hhid
  rw [spec_table_is_may_omit]
  exact excluded_only_automatic c defaults ua h hag (original r) kv.1 kv.2 hhid

/-- … and for any table that passes the harness' test (the table read from the tree under test). -/
theorem reproduces_repaired_within (c : Clients) (tbl : Table) (hw : tableWithin c tbl = true) (r : Req)
    (hwf : wf r = true) :
    reproduces (specAuto c (original r)) (original r) (generate ⟨.repaired, .repaired, .repaired⟩ tbl r) = true := by
  apply reproduces_repaired_tables _ _ r hwf
  intro kv _ hhid
  rw [spec_table_is_may_omit]
  exact table_within_spec_sound c tbl hw (original r) kv.1 kv.2 hhid

/-- What curl sends in full for the command: its own fields (`Host`, `User-Agent`, `Accept`, with data
    `Content-Length` / `Content-Type`) unless the text of a kept header addresses the same name, then the kept
    headers it does not discard. -/
theorem curl_sends_for_command (c : Clients) (vs : Variants) (tbl : Table) (r : Req) (hwf : wf r = true) :
    curlWire c (argvOf vs tbl r) =
      if vs.dataAt = .asFound ∧ bodyStartsAt (bodyOf r.body) = true then none
      else some (wireOf c ((filterHeaders vs.filter tbl r.known r.headers).map fun kv => headerArg vs.emptyHeader kv.1 kv.2)
        r.url (bodyOf r.body) ((filterHeaders vs.filter tbl r.known r.headers).filterMap (sentOf vs.emptyHeader))) := by
  unfold curlWire
  rw [curlSem_argvOf vs tbl r hwf, headerTexts_argvOf vs tbl r hwf]
  by_cases hc : vs.dataAt = .asFound ∧ bodyStartsAt (bodyOf r.body) = true
  · simp only [hc, and_self, if_true]
  · simp only [hc, if_false]

/-- The verdict of the table form of the property (with the specification's table) is a verdict about the wire: if
    it accepts a command `generate` prints for a request with one field per name, every field of the original is
    among the fields curl really sends — its own included — or is a transport artefact. -/
theorem table_verdict_is_wire_verdict (c : Clients) (vd vf : Variant) (tbl : Table) (r : Req) (hwf : wf r = true)
    (hu : namesUnique r.headers = true)
    (h : reproduces (specAuto c (original r)) (original r) (generate ⟨.repaired, vd, vf⟩ tbl r) = true) :
    reproducesOnWire c (original r) (generate ⟨.repaired, vd, vf⟩ tbl r) = true :=
  onWire_of_table c vd vf tbl r hwf hu h

/-- **Full statement on the wire.** -/
theorem reproduces_on_wire_repaired (c : Clients) (defaults : List (Str × Str)) (ua h : Str)
    (hag : ClientsAgree c defaults ua h) (r : Req) (hwf : wf r = true) (hu : namesUnique r.headers = true) :
    reproducesOnWire c (original r) (generate ⟨.repaired, .repaired, .repaired⟩ (excludedTable defaults ua h) r) = true :=
  onWire_of_table c _ _ _ r hwf hu (reproduces_repaired_clients c defaults ua h hag r hwf)

/-- **Necessity: a table must not hide more.** Whatever table the code uses: a header the case did not generate,
    which the table hides (its name is listed as "never shown", or with this value) although it is not automatic, is
    never reproduced — for every variant of the printing and every such request. (The shape of listing
    `Accept-Encoding` as never shown: an explicit `Accept-Encoding: identity` disappears from the command.) -/
theorem overbroad_table_lost (ve vd : Variant) (tbl auto : Table) (r : Req) (hwf : wf r = true) (kv : Str × Str)
    (hmem : kv ∈ r.headers) (hhid : isAutoValued tbl kv.1 kv.2 = true) (hk : r.known.contains kv.1 = false)
    (hna : isAuto auto kv = false) :
    reproduces auto (original r) (generate ⟨ve, vd, .repaired⟩ tbl r) = false := by
  rw [reproduces_iff _ tbl auto r hwf]
  have hall : ∀ kv ∈ r.headers, nameOk kv.1 = true ∧ valueOk kv.2 = true := by
    simp only [wf, Bool.and_eq_true, List.all_eq_true] at hwf
    exact hwf.2
  have hkept : ∀ kv ∈ filterHeaders .repaired tbl r.known r.headers, nameOk kv.1 = true ∧ valueOk kv.2 = true :=
    fun kv hkv => hall kv (List.mem_filter.1 hkv).1
  have hk' : ¬ kv.1 ∈ r.known := by simpa using hk
  have hnk : ¬ kv ∈ filterHeaders .repaired tbl r.known r.headers := by
    simp [filterHeaders, List.mem_filter, hhid, hk']
  have hnot : ¬ kv ∈ (filterHeaders .repaired tbl r.known r.headers).filterMap (sentOf ve) := by
    rw [sent_eq ve _ hkept]
    cases ve with
    | repaired => exact hnk
    | asFound => exact fun h => hnk (List.mem_filter.1 h).1
  have : headersOk auto r.headers ((filterHeaders .repaired tbl r.known r.headers).filterMap (sentOf ve)) = false := by
    simp only [headersOk, Bool.and_eq_false_iff]
    right
    rw [Bool.eq_false_iff]
    intro hc
    have := List.all_eq_true.1 hc kv hmem
    simp only [hna, Bool.false_or, List.contains_eq_mem, decide_eq_true_eq] at this
    exact hnot this
  simp [this]

/-- Witness (kernel-checked), with the clients as measured (requests 2.x: `Accept-Encoding: gzip, deflate`; curl
    7.88.1): for a request with an explicit `Accept-Encoding: identity` the table the code builds yields a command
    that reproduces it — in table form and on the wire —, the same table with `Accept-Encoding` listed as never
    shown yields one that does not; the harness' test tells the two tables apart. -/
theorem never_shown_entry_witness :
    reproduces (specAuto wClients (original wIdentityReq)) (original wIdentityReq)
        (generate ⟨.repaired, .repaired, .repaired⟩ wTable wIdentityReq) = true
    ∧ reproducesOnWire wClients (original wIdentityReq)
        (generate ⟨.repaired, .repaired, .repaired⟩ wTable wIdentityReq) = true
    ∧ reproduces (specAuto wClients (original wIdentityReq)) (original wIdentityReq)
        (generate ⟨.repaired, .repaired, .repaired⟩ wTableNeverShown wIdentityReq) = false
    ∧ reproducesOnWire wClients (original wIdentityReq)
        (generate ⟨.repaired, .repaired, .repaired⟩ wTableNeverShown wIdentityReq) = false
    ∧ tableWithin wClients wTable = true ∧ tableWithin wClients wTableNeverShown = false := by
  refine ⟨by decide +kernel, by decide +kernel, by decide +kernel, by decide +kernel, by decide +kernel, by decide +kernel⟩

/-! ### output sanitization enabled: only the redacted values may differ -/

/-- With nothing redacted the clause is the property itself: whatever reproduces the request also does so "up to
    redacted values" (for every list of spellings of the replacement). -/
theorem redacted_is_weaker (ms : List Str) (auto : Table) (o : Original) (cmd : Str)
    (h : reproduces auto o cmd = true) : reproducesRedacted ms auto o cmd = true :=
  reproduces_redacted_of_reproduces ms auto o cmd h

/-- What the clause accepts: the command denotes one request with the method, body and `--insecure` of the original
    and its URL up to the query values; every field it sends has the name of a field of the original and either that field's
    value or a spelling of the replacement text — nothing else may differ. -/
theorem redacted_accepts_only_replacements (ms : List Str) (auto : Table) (o : Original) (cmd : Str) (argv : List Str)
    (m u : Str) (hs : List (Str × Str)) (b : Option Str) (k : Bool)
    (hp : shParse cmd = some argv) (hc : curlSem argv = .request m u hs b k)
    (h : reproducesRedacted ms auto o cmd = true) :
    m = o.method ∧ bodyOf b = bodyOf o.body ∧ k = !o.verify ∧ urlBase u = urlBase o.url
      ∧ ∀ kv ∈ hs, ∃ ov ∈ o.headers, ov.1 = kv.1 ∧ (ov.2 = kv.2 ∨ kv.2 ∈ ms) :=
  redacted_accepts_only ms auto o cmd argv m u hs b k hp hc h

/-- **The sanitized code sample.** `prepare_request(…, sanitize=True)` hands `generate` the request with the values of
    the sensitive keys replaced (`sanitizeFlat`: key among the configured keys or containing a configured marker) and
    a URL that is a redaction of the original's: for every configuration, every table that hides only automatic
    fields and has no entry whose value is the replacement text, the command printed by the repaired `generate`
    sends the original request up to the redacted values. -/
theorem sanitized_command_reproduces_redacted (cfg : SanConfig) (ms : List Str) (hm : cfg.replacement ∈ ms)
    (tbl auto : Table) (r : Req) (url' : Str)
    (hwf : wf ⟨r.method, url', r.body, r.verify, sanitizeFlat cfg r.headers, r.known⟩ = true)
    (hurl : urlRedacted ms r.url url' = true)
    (hsub : ∀ k v, isAutoValued tbl k v = true → isAuto auto (k, v) = true)
    (hrep : ∀ e ∈ tbl, e.2 ≠ some cfg.replacement) :
    reproducesRedacted ms auto (original r)
      (generate ⟨.repaired, .repaired, .repaired⟩ tbl
        ⟨r.method, url', r.body, r.verify, sanitizeFlat cfg r.headers, r.known⟩) = true :=
  sanitized_reproduces_redacted cfg ms hm tbl auto r url' hwf hurl hsub hrep

/-- Witness (kernel-checked): for a request with credentials in a header and in the query, the command printed for
    the sanitized request is accepted by the clause and not by the plain property; a command that also changes a
    value it does not show as redacted (the tenant) is rejected by both. -/
theorem sanitized_witness :
    sanitizeFlat wSanCfg wSecretReq.headers
        = [("X-Tenant".toList, "blue team".toList), ("Authorization".toList, "[Filtered]".toList),
           ("X-Monkey".toList, "[Filtered]".toList)]
    ∧ reproducesRedacted wMarkers [] (original wSecretReq) (generate ⟨.repaired, .repaired, .repaired⟩ [] wSecretShown) = true
    ∧ reproduces [] (original wSecretReq) (generate ⟨.repaired, .repaired, .repaired⟩ [] wSecretShown) = false
    ∧ reproducesRedacted wMarkers [] (original wSecretReq) (generate ⟨.repaired, .repaired, .repaired⟩ [] wSecretWrong) = false := by
  refine ⟨by decide +kernel, by decide +kernel, by decide +kernel, by decide +kernel⟩

/-! ### the report: `format_failures` prints the command on an indented line -/

/-- The failure report shows the command after an indentation of blanks (`"Reproduce with: \n\n    {curl}"`): a
    POSIX shell reads the indented line as the same words, for any command text and any indentation. -/
theorem indented_command_reads_the_same (n : Nat) (cmd : Str) :
    shParse (List.replicate n ' ' ++ cmd) = shParse cmd := by
  induction n with
  | zero => rfl
  | succ k ih =>
    have h : shParse (' ' :: (List.replicate k ' ' ++ cmd)) = shParse (List.replicate k ' ' ++ cmd) := by
      simp [shParse, shGo, NUL, pushWord]
    simpa [List.replicate_succ] using h.trans ih

/-- … hence the line of the report reproduces whatever the code sample reproduces. -/
theorem report_line_reproduces (auto : Table) (o : Original) (n : Nat) (cmd : Str) :
    reproduces auto o (List.replicate n ' ' ++ cmd) = reproduces auto o cmd := by
  unfold reproduces
  rw [indented_command_reads_the_same]

/-! ### non-vacuity: the hypotheses are met by concrete, non-trivial requests -/

/-- a well-formed request with quotes, blanks, `$`, an empty header value and a body starting with '@' -/
example : wf ⟨"POST".toList, "http://h/x?a=b&c='".toList, some "@it's $HOME `x`".toList, false,
    [("X-Empty".toList, []), ("A".toList, "b \"c\"".toList), ("Accept".toList, "text/html".toList)], ["A".toList]⟩ = true := by
  decide

/-- … which the repaired command reproduces and the command as found does not -/
example : reproduces [("Accept".toList, some "*/*".toList)]
    (original ⟨"POST".toList, "http://h/x?a=b&c='".toList, some "@it's $HOME `x`".toList, false,
      [("X-Empty".toList, []), ("A".toList, "b \"c\"".toList), ("Accept".toList, "text/html".toList)], ["A".toList]⟩)
    (generate ⟨.repaired, .repaired, .repaired⟩ [("Accept".toList, some "*/*".toList)]
      ⟨"POST".toList, "http://h/x?a=b&c='".toList, some "@it's $HOME `x`".toList, false,
      [("X-Empty".toList, []), ("A".toList, "b \"c\"".toList), ("Accept".toList, "text/html".toList)], ["A".toList]⟩) = true := by
  decide +kernel

example : reproduces [("Accept".toList, some "*/*".toList)]
    (original ⟨"POST".toList, "http://h/x?a=b&c='".toList, some "@it's $HOME `x`".toList, false,
      [("X-Empty".toList, []), ("A".toList, "b \"c\"".toList), ("Accept".toList, "text/html".toList)], ["A".toList]⟩)
    (generate ⟨.asFound, .asFound, .asFound⟩ [("Accept".toList, some "*/*".toList)]
      ⟨"POST".toList, "http://h/x?a=b&c='".toList, some "@it's $HOME `x`".toList, false,
      [("X-Empty".toList, []), ("A".toList, "b \"c\"".toList), ("Accept".toList, "text/html".toList)], ["A".toList]⟩) = false := by
  decide +kernel

/-- hypotheses of `reproduces_asFound_partial` are satisfiable by a request with headers, body and quoting -/
example : let r : Req := ⟨"PUT".toList, "http://h/it's".toList, some "{\"a\": \"'\"}".toList, true,
      [("Content-Type".toList, "application/json".toList), ("Accept".toList, "*/*".toList), ("X-A".toList, "1".toList)], []⟩
    let tbl : Table := [("Accept".toList, some "*/*".toList)]
    wf r = true ∧ (∀ kv ∈ filterHeaders .asFound tbl r.known r.headers, kv.2.isEmpty = false)
      ∧ bodyStartsAt (bodyOf r.body) = false
      ∧ (∀ kv ∈ r.headers, isExcluded tbl kv.1 = true → r.known.contains kv.1 = false → isAuto tbl kv = true) := by
  decide

/-- hypotheses of the three `…_lost` theorems are satisfiable -/
example : (("X-Empty".toList, []) : Str × Str) ∈ filterHeaders .asFound [] [] [("X-Empty".toList, [])]
    ∧ isAuto [] ("X-Empty".toList, []) = false := by decide
example : bodyStartsAt (bodyOf (some "@etc".toList)) = true := by decide
example : isExcluded [("Accept".toList, some "*/*".toList)] "accept".toList = true
    ∧ isAuto [("Accept".toList, some "*/*".toList)] ("accept".toList, "application/json".toList) = false := by decide

/-- recorder theorems: the scenario of the witness meets the hypotheses of `failure_sample_reproduces`
    (a successful selection, a faithful `prepare_request`, a well-formed request with quoting) -/
example : let fd : FailureData := ⟨⟨"D".toList, 1⟩, [("X-Tenant".toList, "it's acme".toList)], false⟩
    findFailureData (run (fun fd => fd) wHistory) "P".toList (some "D".toList) = .ok fd
      ∧ Faithful wPrep fd.case ⟨wDerivedReq, some false⟩ fd.headers
      ∧ wf (preparedReq (wPrep fd.case.obj fd.headers) fd.verify) = true := by
  refine ⟨by decide +kernel, ⟨rfl, rfl, rfl, fun _ => Iff.rfl⟩, by decide +kernel⟩

/-- … of `recorded_samples_are_for_their_case` / `failure_stored_under_reported_id`: the failed check is listed
    under the derived case `D`, not under the parent -/
example : dGet (run (fun fd => fd) wHistory).checks "D".toList
      = some [⟨"ignored_auth".toList, some ⟨⟨"D".toList, 1⟩, [("X-Tenant".toList, "it's acme".toList)], false⟩⟩]
    ∧ dGet (run (fun fd => fd) wHistory).checks "P".toList = none := by
  refine ⟨by decide +kernel, by decide +kernel⟩

/-- … of `sample_with_foreign_header_fails`: the parent's key is a kept header that the derived request lacks -/
example : (("X-API-Key".toList, "valid-key".toList) : Str × Str) ∈ wParentData.headers
    ∧ isAutoValued [] "X-API-Key".toList "valid-key".toList = false
    ∧ (sentOriginal ⟨wDerivedReq, some false⟩ [("X-Tenant".toList, "it's acme".toList)] false).headers.contains
        ("X-API-Key".toList, "valid-key".toList) = false := by
  refine ⟨by decide, by decide, by decide⟩

/-- the error cases of the selection are reachable: no exchange on record, an exchange without a response -/
example : findFailureData (run (fun fd => fd) [.recordCase none ⟨"P".toList, 0⟩]) "P".toList none = .error .keyError
    ∧ findFailureData (run (fun fd => fd) [.recordCase none ⟨"P".toList, 0⟩, .recordRequest "P".toList wParentReq])
        "P".toList (some []) = .error .assertionError := by
  refine ⟨by decide +kernel, by decide +kernel⟩

/-- the table theorems: the measured clients agree with the measured inputs of `get_excluded_headers()`, the table
    built from them hides the automatic `Accept-Encoding` and not an explicit one, and passes the harness' test -/
example : ClientsAgree wClients wDefaults "schemathesis/dev".toList wCaseId := by
  refine ⟨by decide, by decide, by decide, by decide⟩
example : isAutoValued wTable "accept-encoding".toList "gzip, deflate".toList = true
    ∧ isAutoValued wTable "Accept-Encoding".toList "identity".toList = false
    ∧ wTable.length = 7 ∧ tableOutside wClients wTableNeverShown = [("Accept-Encoding".toList, none)] := by
  refine ⟨by decide +kernel, by decide +kernel, by decide +kernel, by decide +kernel⟩

/-- … of `reproduces_repaired_clients` / `reproduces_on_wire_repaired` / `table_verdict_is_wire_verdict`: a well-formed
    request with one field per name, automatic and explicit fields side by side -/
example : wf wIdentityReq = true ∧ namesUnique wIdentityReq.headers = true := by
  refine ⟨by decide +kernel, by decide +kernel⟩

/-- … of `overbroad_table_lost`: the explicit field is hidden by the over-broad table, not generated by the case, and
    not automatic for the specification -/
example : (("Accept-Encoding".toList, "identity".toList) : Str × Str) ∈ wIdentityReq.headers
    ∧ isAutoValued wTableNeverShown "Accept-Encoding".toList "identity".toList = true
    ∧ wIdentityReq.known.contains "Accept-Encoding".toList = false
    ∧ isAuto (specAuto wClients (original wIdentityReq)) ("Accept-Encoding".toList, "identity".toList) = false := by
  refine ⟨by decide, by decide +kernel, by decide, by decide +kernel⟩

/-- … of `curl_sends_for_command`: for that request curl sends its own `Host`, `User-Agent`, `Accept`,
    `Content-Length`, then the kept fields; its own `Content-Type` is left out because a kept field addresses the name -/
example : curlWire wClients (argvOf ⟨.repaired, .repaired, .repaired⟩ wTable wIdentityReq)
    = some [("Host".toList, "127.0.0.1:8080".toList), ("User-Agent".toList, "curl/7.88.1".toList),
            ("Accept".toList, "*/*".toList), ("Content-Length".toList, "10".toList),
            ("X-Tenant".toList, "blue team".toList), ("Accept-Encoding".toList, "identity".toList),
            ("Content-Type".toList, "text/plain".toList)] := by
  decide +kernel

/-- … of the sanitization theorems: the witness request meets the hypotheses of `sanitized_command_reproduces_redacted`
    (a well-formed sanitized request, a redacted URL, the replacement among the spellings) and of
    `redacted_accepts_only_replacements` (the command parses to one request) -/
example : wf wSecretShown = true ∧ urlRedacted wMarkers wSecretReq.url wSecretShown.url = true
    ∧ wSanCfg.replacement ∈ wMarkers
    ∧ wSecretShown.headers = sanitizeFlat wSanCfg wSecretReq.headers
    ∧ (shParse (generate ⟨.repaired, .repaired, .repaired⟩ [] wSecretShown)).isSome = true := by
  refine ⟨by decide +kernel, by decide +kernel, by decide, by decide +kernel, by decide +kernel⟩

end SV.Props.C09
