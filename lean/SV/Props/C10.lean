/-
  C10 — stateful links pass exactly the data their expressions denote.  Property theorems only.
-/
import SV.Proofs.C10Parser
import SV.Proofs.C10Link

namespace SV.Props.C10
open SV.Model.C10 SV.Spec.C10 SV.Proofs.C10

/-! ## lexer -/

/-- The lexer partitions its input: the token texts, concatenated, are the expression — for every string. -/
theorem lexer_partition (e : Str) : ((tokenize e).map (·.value)).flatten = e :=
  lexF_values _ _ _ (Nat.le_refl _)

/-- Termination argument of the cursor machine: every iteration consumes at least one symbol, so any fuel of at
    least `|e|` yields the same tokens (the fuel the model supplies is never exhausted). -/
theorem lexer_fuel_suffices (e : Str) (n : Nat) (h : e.length ≤ n) : lexF n 0 e = tokenize e :=
  lexF_fuel n 0 e h

/-- no empty token -/
theorem lexer_tokens_nonempty (e : Str) : ∀ t ∈ tokenize e, t.value ≠ [] :=
  lexF_nonempty _ _ _

/-- `Token.end` is the offset of the token's last symbol, so `expr[t.end + 1:]` (what `take_extractor` inspects) is
    exactly the text of the tokens that follow `t`. -/
theorem lexer_positions (e : Str) (pre : List Token) (t : Token) (post : List Token)
    (h : tokenize e = pre ++ t :: post) :
    t.end_ + 1 = ((pre.map (·.value)).flatten).length + t.value.length ∧
      e.drop (t.end_ + 1) = (post.map (·.value)).flatten := by
  obtain ⟨h1, h2⟩ := lexF_positions e.length 0 e (Nat.le_refl _) pre t post h
  refine ⟨by omega, ?_⟩
  rw [h2]; congr 1; omega

example : tokenize "ID_{$response.body#/a}b}".toList =
    [⟨"ID_".toList, 2, .string⟩, ⟨"{".toList, 3, .lbracket⟩, ⟨"$response".toList, 12, .variable⟩,
     ⟨".".toList, 13, .dot⟩, ⟨"body".toList, 17, .string⟩, ⟨"#/a".toList, 20, .pointer⟩,
     ⟨"}".toList, 21, .rbracket⟩, ⟨"b".toList, 22, .string⟩, ⟨"}".toList, 23, .rbracket⟩] := by decide

/-! ## JSON pointers -/

/-- `value.replace("~1", "/").replace("~0", "~")` is RFC 6901 decoding (one left-to-right pass) on every string,
    including `~01`, stray `~` and `~~`. -/
theorem unescape_is_rfc6901_decoding (s : Str) : unescape s = decode s := unescape_eq_decode s

/-- escape/unescape round trip, for all strings -/
theorem unescape_escape_roundtrip (s : Str) : unescape (escape s) = s := unescape_escape s

/-- pointer round trip: the pointer built from any path of member names / indices resolves by walking that path -/
theorem resolve_mkPointer (v : Variant) (doc : J) (toks : List Str) :
    resolvePointer v doc (mkPointer toks) = walk v doc toks := by
  cases toks with
  | nil => rfl
  | cons t ts =>
    have h := pointer_tokens_roundtrip t ts
    rw [mkPointer_cons] at h ⊢
    simp only [resolvePointer, beq_self_eq_true, if_true, h]

/-- every member of every object is addressable: one-level instance of the round trip, for all key strings -/
theorem resolve_member (v : Variant) (k : Str) (kvs : List (Str × J)) :
    resolvePointer v (.obj kvs) (mkPointer [k]) = match lookup k kvs with | some x => .ok x | none => .unres := by
  rw [resolve_mkPointer]
  simp only [walk, stepInto]
  cases lookup k kvs <;> rfl

/-- With the repair of F17 `resolve_pointer` IS RFC 6901 evaluation, for every document and every pointer text. -/
theorem resolve_repaired_eq_spec (doc : J) (p : Str) : resolvePointer .repaired doc p = specResolve doc p :=
  resolve_repaired_spec doc p

/-- the full statement for the code as found: `resolve_pointer` = RFC 6901 evaluation -/
def resolve_full : Prop := ∀ (doc : J) (p : Str), resolvePointer .asFound doc p = specResolve doc p

private def arr11 : J :=
  .obj [("a".toList, .arr (([10, 20, 30, 40, 50, 60, 70, 80, 90, 100, 110] : List Int).map fun i => .num i 0))]

/-- F17: the index spellings `-1`, `01`, `1_0`, ` 1` address array items in the code as found; RFC 6901 says
    unresolvable. -/
theorem resolve_full_false : ¬ resolve_full := by
  intro h
  have h1 : (resolvePointer .asFound arr11 ("/a/".toList ++ "-1".toList) matches .ok _) = true := by decide
  have h2 : (specResolve arr11 ("/a/".toList ++ "-1".toList) matches .ok _) = false := by decide
  rw [h arr11 _, h2] at h1
  cases h1

theorem resolve_asFound_witnesses :
    (resolvePointer .asFound arr11 ("/a/".toList ++ "-1".toList) matches .ok (.num 110 0)) ∧
    (resolvePointer .asFound arr11 "/a/01".toList matches .ok (.num 20 0)) ∧
    (resolvePointer .asFound arr11 "/a/1_0".toList matches .ok (.num 110 0)) ∧
    (resolvePointer .asFound arr11 "/a/ 1".toList matches .ok (.num 20 0)) ∧
    (specResolve arr11 ("/a/".toList ++ "-1".toList) matches .unres) ∧ (specResolve arr11 "/a/01".toList matches .unres) ∧
    (specResolve arr11 "/a/1_0".toList matches .unres) ∧ (specResolve arr11 "/a/ 1".toList matches .unres) := by
  decide

/-- The code as found agrees with RFC 6901 on every pointer none of whose reference tokens is one of the extra
    spellings `int()` accepts (sign, leading zeros, underscores, surrounding whitespace, non-ASCII digits). -/
theorem resolve_asFound_partial (doc : J) (p : Str)
    (h : ∀ toks, refTokens p = some toks → ∀ t ∈ toks, lenientIndex t = false) :
    resolvePointer .asFound doc p = specResolve doc p := by
  rw [← resolve_repaired_eq_spec]
  cases p with
  | nil => rfl
  | cons c t =>
    simp only [resolvePointer]
    by_cases hc : c = '/'
    · subst hc
      simp only [beq_self_eq_true, if_true]
      apply walk_asFound_eq_repaired
      have := h ((rawTokens [] t).map decode) (by simp [refTokens])
      intro tok htok
      apply this
      simp only [splitOn_cons_sep, List.drop_one, List.tail_cons] at htok
      rw [rawTokens_nil_eq_split]
      simpa [unescape_eq_decode] using htok
    · have : (c == '/') = false := by simpa using hc
      simp [this]

/-- non-vacuity of `resolve_asFound_partial`: a pointer with escapes and a canonical index meets the hypothesis -/
example : (∀ toks, refTokens "/a~1b/2/m~0n".toList = some toks → ∀ t ∈ toks, lenientIndex t = false) := by
  intro toks h t ht
  have : toks = ["a/b".toList, "2".toList, "m~n".toList] := by
    have h' : refTokens "/a~1b/2/m~0n".toList = some ["a/b".toList, "2".toList, "m~n".toList] := by decide
    rw [h'] at h; exact (Option.some.inj h).symm
  subst this
  revert t ht
  decide

/-- canonical indices mean the same to `int()` and to RFC 6901 -/
theorem canonical_index_agrees (tok : Str) (n : Nat) (h : rfcIndex tok = some n) : pyInt tok = some (n : Int) :=
  pyInt_of_rfcIndex tok n h

/-! ## response keys -/

/-- `match_status_code(key)` accepts exactly the statuses whose decimal digits fit the key pattern (`X` = any
    digit), for every key over digits and `X`/`x` and every status. -/
theorem status_match_iff (key : Str) (status : Nat) (h : validKey key = true) :
    matchStatus key status = some (keyMatches key status) := matchStatus_spec key status h

/-- an exact three-digit key matches exactly that code -/
theorem status_exact (a b c : Char) (s : Nat) (ha : isAsciiDigit a = true) (hb : isAsciiDigit b = true)
    (hc : isAsciiDigit c = true) :
    keyMatches [a, b, c] s = true ↔ s = digitVal a * 100 + digitVal b * 10 + digitVal c := by
  have := digitVal_lt a ha; have := digitVal_lt b hb; have := digitVal_lt c hc
  have xa : isX a = false := by
    simp only [isX, Bool.or_eq_false_iff, beq_eq_false_iff_ne]; constructor <;> (rintro rfl; simp [isAsciiDigit] at ha)
  have xb : isX b = false := by
    simp only [isX, Bool.or_eq_false_iff, beq_eq_false_iff_ne]; constructor <;> (rintro rfl; simp [isAsciiDigit] at hb)
  have xc : isX c = false := by
    simp only [isX, Bool.or_eq_false_iff, beq_eq_false_iff_ne]; constructor <;> (rintro rfl; simp [isAsciiDigit] at hc)
  simp only [keyMatches, List.reverse_cons, List.reverse_nil, List.nil_append, List.cons_append, patMatchR, xa, xb,
    xc, ha, hb, hc, Bool.false_or, Bool.true_and, Bool.and_eq_true, beq_iff_eq]
  omega

/-- an `NXX` key matches exactly the hundred codes starting with `N` -/
theorem status_range (a x y : Char) (s : Nat) (ha : isAsciiDigit a = true) (hx : isX x = true) (hy : isX y = true) :
    keyMatches [a, x, y] s = true ↔ digitVal a * 100 ≤ s ∧ s < digitVal a * 100 + 100 := by
  have := digitVal_lt a ha
  have xa : isX a = false := by
    simp only [isX, Bool.or_eq_false_iff, beq_eq_false_iff_ne]; constructor <;> (rintro rfl; simp [isAsciiDigit] at ha)
  simp only [keyMatches, List.reverse_cons, List.reverse_nil, List.nil_append, List.cons_append, patMatchR, xa, hx,
    hy, ha, Bool.false_or, Bool.true_or, Bool.true_and, Bool.and_eq_true, beq_iff_eq]
  omega

/-- `make_response_filter` = the reference relation: exact / wildcard by digits, `default` = no other documented key
    matches — for all sets of documented keys over digits/`X`/`default` and all statuses. -/
theorem status_filter_spec (key : Str) (allKeys : List Str) (status : Nat)
    (hk : key = sDefault ∨ validKey key = true) (hall : ∀ k ∈ allKeys, k = sDefault ∨ validKey k = true) :
    responseFilter key allKeys status = some (specFollows key allKeys status) := by
  unfold responseFilter specFollows
  by_cases hd : key = sDefault
  · simp [hd, matchDefault_spec allKeys status hall]
  · have hv : validKey key = true := by
      rcases hk with h | h
      · exact absurd h hd
      · exact h
    have : (key == sDefault) = false := by simpa using hd
    simp [this, matchStatus_spec key status hv]

/-- A response is stored only under a key it matches, and under the first such link key: `make_response_matcher`
    returns `k` ⇒ `k` is a link key, its filter accepts, and no earlier link key's filter does. -/
theorem matcher_sound (allKeys links : List Str) (status : Nat) (k : Str)
    (h : responseMatcher allKeys status links = some (some k)) :
    ∃ pre post, links = pre ++ k :: post ∧ responseFilter k allKeys status = some true ∧
      ∀ k' ∈ pre, responseFilter k' allKeys status ≠ some true := by
  unfold responseMatcher at h
  split at h
  · simp only [Option.some.injEq] at h
    exact firstMatch_sound allKeys status links k h
  · simp at h

/-- … hence a link is followed only from a response whose status matches the link's response key. -/
theorem link_followed_only_from_matching_status (allKeys links : List Str) (status : Nat) (k : Str)
    (hall : ∀ k ∈ allKeys, k = sDefault ∨ validKey k = true) (hl : ∀ k ∈ links, k = sDefault ∨ validKey k = true)
    (h : responseMatcher allKeys status links = some (some k)) : specFollows k allKeys status = true := by
  obtain ⟨pre, post, hlinks, hf, _⟩ := matcher_sound allKeys links status k h
  have hk := hl k (by simp [hlinks])
  rw [status_filter_spec k allKeys status hk hall] at hf
  simpa using hf

example : responseMatcher ["200".toList, "2XX".toList, "default".toList] 201
    ["default".toList, "2XX".toList, "200".toList] = some (some "2XX".toList) := by decide

example : responseMatcher ["200".toList, "4XX".toList, "default".toList] 500
    ["200".toList, "default".toList] = some (some "default".toList) := by decide

/-- **At the call site.**  For every operation — whatever response keys it documents and whichever of them carry links —
    the state machine stores a response under link key `k` only if `k` is the key the *documented* keys select for that
    status: in particular a link under `default` is not followed from a response that a link-less documented key covers. -/
theorem operation_link_followed_per_documentation (responses : List (Str × Bool)) (status : Nat) (k : Str)
    (hall : ∀ r ∈ responses, r.1 = sDefault ∨ validKey r.1 = true)
    (h : operationMatcher responses status = some (some k)) :
    specFollows k (responses.map (·.1)) status = true ∧ (k, true) ∈ responses := by
  unfold operationMatcher at h
  have hk : ∀ k' ∈ (responses.filter (·.2)).map (·.1), k' = sDefault ∨ validKey k' = true := by
    intro k' hk'
    simp only [List.mem_map, List.mem_filter] at hk'
    obtain ⟨r, ⟨hr, _⟩, rfl⟩ := hk'
    exact hall r hr
  have hkeys : ∀ k' ∈ responses.map (·.1), k' = sDefault ∨ validKey k' = true := by
    intro k' hk'
    simp only [List.mem_map] at hk'
    obtain ⟨r, hr, rfl⟩ := hk'
    exact hall r hr
  refine ⟨link_followed_only_from_matching_status _ _ status k hkeys hk h, ?_⟩
  obtain ⟨pre, post, hlinks, _, _⟩ := matcher_sound _ _ status k h
  have : k ∈ (responses.filter (·.2)).map (·.1) := by rw [hlinks]; simp
  simp only [List.mem_map, List.mem_filter] at this
  obtain ⟨r, ⟨hr, hb⟩, rfl⟩ := this
  obtain ⟨a, b⟩ := r
  simp only at hb ⊢
  subst hb
  exact hr

/-- the link-less keys matter: with only the link keys in view a `507` answer of an operation documenting
    `default` (link), `5XX` (no link), `500` (link) would be stored under `default` -/
example : operationMatcher [("default".toList, true), ("5XX".toList, false), ("500".toList, true)] 507 = some none ∧
    responseMatcher ["default".toList, "500".toList] 507 ["default".toList, "500".toList] = some (some "default".toList) := by
  decide

/-! ## parser -/

/-- The parser reads only the tokens' texts and types: `expr[current_end + 1:]`, which `take_extractor` inspects, is
    the text of the remaining tokens. -/
theorem parser_position_free (cfg : PCfg) (rx : RxOracle) (e : Str) :
    parse cfg rx e = parseT cfg rx ((tokenize e).map vt) := parse_eq_parseT cfg rx e

/-- Parser soundness against the grammar (parser ∘ printer = identity): every well-formed link value — a bare
    expression, or text with embedded `{expression}`s, over all names, pointers (with `~0 ~1` escapes, anything but
    `}`), `#regex:` extractors with one group — parses to exactly the nodes it denotes.  With the embedded whole-body
    reference repaired (finding FC10b) this holds for the whole grammar; for the code as found, for every value
    without `{$request.body}` / `{$response.body}`. Independent of the stray-pointer site. -/
theorem parser_sound (cfg : PCfg) (rx : RxOracle) (t : Template) (hwf : wfTemplate rx t = true)
    (hb : cfg.embBody = .repaired ∨ noWholeBody t = true) : parse cfg rx (render t) = .ok (nodesOf t) :=
  parse_render cfg rx t hwf hb

/-- Malformed expressions are rejected: a `$`-word (a `$` and everything up to the next `$ . { } #`) other than `$url`,
    `$method`, `$statusCode`, `$request`, `$response` anywhere in the expression — top level, inside braces, after
    `$request.` … — makes the parser raise, in every variant. -/
theorem parser_rejects_unknown_variable (cfg : PCfg) (rx : RxOracle) (e : Str) (t : Token) (ht : t ∈ tokenize e)
    (hv : t.type = .variable) (hk : isKw t.value = false) : ∃ err, parse cfg rx e = .error err := by
  cases h : parse cfg rx e with
  | error err => exact ⟨err, rfl⟩
  | ok ns =>
    have := parse_variables_known cfg rx e ns h t ht hv
    rw [hk] at this
    cases this

example : (⟨"$foo".toList, 5, .variable⟩ : Token) ∈ tokenize "x{$foo}".toList ∧ isKw "$foo".toList = false := by
  decide

/-- Malformed expressions are rejected: nested braces, a closing brace without an open one, or an embedding left
    open (braces = the `{` / `}` tokens, i.e. every brace outside a pointer) make the parser raise, in every variant. -/
theorem parser_rejects_unbalanced_braces (cfg : PCfg) (rx : RxOracle) (e : Str)
    (h : braceBalanced false ((tokenize e).map (·.type)) = false) : ∃ err, parse cfg rx e = .error err := by
  cases hp : parse cfg rx e with
  | error err => exact ⟨err, rfl⟩
  | ok ns =>
    have := parse_balanced cfg rx e ns hp
    rw [h] at this
    cases this

example : braceBalanced false ((tokenize "{$url}}".toList).map (·.type)) = false ∧
    braceBalanced false ((tokenize "a{{$url}".toList).map (·.type)) = false ∧
    braceBalanced false ((tokenize "{$url}{$request.body#/a{}".toList).map (·.type)) = true := by decide

/-- the full statement for the parser as found -/
def parser_full : Prop :=
  ∀ (rx : RxOracle) (t : Template), wfTemplate rx t = true →
    parse ⟨.asFound, .asFound⟩ rx (render t) = .ok (nodesOf t)

/-- FC10b: `{$request.body}` is grammatical but rejected by the code as found -/
theorem parser_full_false : ¬ parser_full := by
  intro h
  have h0 := h (fun _ => none) (.parts [.emb (.request (.body none))]) (by decide)
  have h1 : (parse ⟨.asFound, .asFound⟩ (fun _ => none)
      (render (.parts [.emb (.request (.body none))]))).toOption = none := by decide
  rw [h0] at h1
  cases h1

/-- non-vacuity of `parser_sound`, and what the repaired site yields on the witness -/
example : wfTemplate (fun p => if p == "/users/(.+)".toList then some 1 else none)
    (.parts [.lit "ID_".toList, .emb (.response (.header "Location".toList (some "/users/(.+)".toList))), .dot,
             .emb (.request (.body (some "/a~1b/0".toList)))]) = true := by decide

example : (parse ⟨.asFound, .repaired⟩ (fun _ => none) "{$request.body}".toList).toOption =
    some [.bodyRequest none] := by decide

/-- FC10a: text from `#` on is dropped from a constant by the code as found; the repaired parser keeps it. -/
theorem stray_pointer_witness :
    (parse ⟨.asFound, .asFound⟩ (fun _ => none) "ID#1".toList).toOption = some [.str "ID".toList] ∧
    (parse ⟨.repaired, .asFound⟩ (fun _ => none) "ID#1".toList).toOption =
      some [.str "ID".toList, .str "#1".toList] := by
  decide

/-! ## evaluation -/

/-- Evaluation law: for every well-formed link value and every source exchange, evaluating the text gives what the
    syntax denotes under the reference evaluator (RFC 6901 pointers, case-insensitive headers, typed value for a bare
    expression, string for a template, unresolvable if any part is) — for the repaired variants. -/
theorem eval_sound (cfg : Cfg) (rx : RxOracle) (ext : ExtOracle) (ctx : Ctx) (t : Template)
    (hidx : cfg.idx = .repaired) (hwf : wfTemplate rx t = true)
    (hb : cfg.p.embBody = .repaired ∨ noWholeBody t = true) :
    evalStr cfg rx ext ctx (render t) = specEval ext ctx t :=
  evalStr_render cfg rx ext ctx t hidx hwf hb

private def ctx0 : Ctx :=
  { url := [], method := "get".toList, status := 200, query := none, path := none, headers := none, reqBody := .null,
    respHeaders := [], respBody := some (.obj [("items".toList, .arr [.num 1 0, .num 2 0])]) }

/-- the full statement for the code as found (all three sites as found) -/
def eval_full : Prop :=
  ∀ (rx : RxOracle) (ext : ExtOracle) (ctx : Ctx) (t : Template), wfTemplate rx t = true →
    evalStr ⟨.asFound, ⟨.asFound, .asFound⟩⟩ rx ext ctx (render t) = specEval ext ctx t

/-- F17 reaches link values: the pointer `/items/` + `-1` after `$response.body#` evaluates to the last item instead
    of being unresolvable. -/
theorem eval_full_false : ¬ eval_full := by
  intro h
  have h0 := h (fun _ => none) (fun _ _ => none) ctx0
    (.bare (.response (.body (some ("/items/".toList ++ "-1".toList))))) (by decide)
  have h1 : (evalStr ⟨.asFound, ⟨.asFound, .asFound⟩⟩ (fun _ => none) (fun _ _ => none) ctx0
      (render (.bare (.response (.body (some ("/items/".toList ++ "-1".toList)))))) matches .ok (.ok _)) = true := by
    decide
  have h2 : (specEval (fun _ _ => none) ctx0
      (.bare (.response (.body (some ("/items/".toList ++ "-1".toList))))) matches .ok (.ok _)) = false := by decide
  rw [h0, h2] at h1
  cases h1

/-! ## link data → derived request -/

/-- `extract_parameters` + the `kwargs` comprehension of `into_step_input`: the value passed for `name` in a
    container is the evaluation of the LAST link parameter defined for it, provided that is `Ok`, not `None` and
    not UNRESOLVABLE; otherwise nothing is passed (the name is left to the generator). Unresolvable values and
    evaluation errors are therefore never sent. -/
theorem step_input_values (ev : J → Extracted) (ps : List Param) (c n : Str) :
    (lookup c (stepKwargs (extractParams ev ps []))).bind (lookup n) =
      match lastParam ps c n with
      | some e => (match ev e with | .ok (.ok j) => if j.isNull then none else some j | _ => none)
      | none => none := by
  rw [show stepKwargs (extractParams ev ps []) =
      (extractParams ev ps []).map (fun (c, data) => (c, data.filterMap keepValue)) from rfl, lookup_map_snd]
  have hspec := extractParams_spec ev ps [] c n
  have hnd := extractParams_nodup ev ps [] (by simp [lookup])
  cases hl : lookup c (extractParams ev ps []) with
  | none =>
    simp only [hl, Option.bind_none] at hspec
    simp only [Option.map_none, Option.bind_none]
    cases hp : lastParam ps c n with
    | none => rfl
    | some e => simp [hp] at hspec
  | some data =>
    simp only [hl, Option.bind_some] at hspec
    simp only [Option.map_some, Option.bind_some, lookup_kept n data (hnd c data hl), supplied, hspec]
    cases hp : lastParam ps c n with
    | none => simp [lookup]
    | some e =>
      simp only
      cases ev e with
      | error x => rfl
      | ok v => cases v <;> rfl

/-- Link-supplied values override generated ones (`get_parameters_value`): whatever the generator adds for the
    names it was asked to generate (all but the explicit ones), the link's value is what the case carries. -/
theorem step_input_override (explicit : List (Str × J)) (generated : Option (List (Str × J))) (n : Str) (v : J)
    (h : lookup n explicit = some v) (hex : ∀ new, generated = some new → lookup n new = none) :
    ∃ final, mergeExplicit explicit generated = some final ∧ lookup n final = some v := by
  have hne : explicit.isEmpty = false := by cases explicit <;> simp_all [lookup]
  unfold mergeExplicit
  simp only [hne, Bool.false_eq_true, if_false]
  cases generated with
  | none => exact ⟨explicit, rfl, h⟩
  | some new => exact ⟨_, rfl, by rw [lookup_dictMerge_absent n explicit new (hex new rfl)]; exact h⟩

example : mergeExplicit [("id".toList, .num 7 0)] (some [("q".toList, .str "x".toList)]) =
    some [("id".toList, .num 7 0), ("q".toList, .str "x".toList)] := rfl

/-- `merge_body`: every member of the link's body is in the request body with the link's value; members the link
    does not name keep the generated value. -/
theorem merge_body_members (r : Extracted) (g new : List (Str × J)) (hr : r = .ok (.ok (.obj new)))
    (hnd : keysNodup new) (k : Str) :
    ∃ fb, finalBody (some r) true (.obj g) = .obj fb ∧
      (∀ v, lookup k new = some v → lookup k fb = some v) ∧ (lookup k new = none → lookup k fb = lookup k g) := by
  subst hr
  exact ⟨dictMerge g new, rfl, fun v hv => lookup_dictMerge_present k v g new hnd hv,
    fun hn => lookup_dictMerge_absent k g new hn⟩

/-- a usable link body replaces a non-object body (or is the body when `merge_body` is off and it was passed as
    `kwargs["body"]`); an unusable one (error, UNRESOLVABLE) never touches the request -/
theorem body_replaced_or_untouched (r : Option Extracted) (merge : Bool) (generated : J) :
    (usableBody r = none → finalBody r merge generated = generated ∧ bodyKwarg r merge = none) ∧
    (∀ new, usableBody r = some new → merge = false → bodyKwarg r merge = some new) ∧
    (∀ new, usableBody r = some new → merge = true → (∀ g, generated ≠ .obj g) → finalBody r merge generated = new) := by
  refine ⟨fun h => ?_, fun new h hm => ?_, fun new h hm hg => ?_⟩
  · simp only [finalBody, bodyKwarg, h]
    cases merge <;> simp
  · simp [bodyKwarg, hm, h]
  · subst hm
    simp only [finalBody, h]
    cases generated with
    | obj g => exact absurd rfl (hg g)
    | _ => cases new <;> rfl

/-! ## the `lru_cache` keyed by case id -/

/-- If outputs with equal case ids are the same exchange as far as extraction is concerned (ids are unique per case),
    then the cached `extract` always returns what `_extract_impl` would compute, and the cache stays consistent. -/
theorem cache_key_sound {α β} (compute : α → β) (idOf : α → Str) (cache : List (Str × β)) (out : α)
    (hid : ∀ o1 o2, idOf o1 = idOf o2 → compute o1 = compute o2)
    (hc : ∀ i r, lookup i cache = some r → ∃ o, idOf o = i ∧ r = compute o) :
    (cachedExtract compute idOf cache out).1 = compute out ∧
      ∀ i r, lookup i (cachedExtract compute idOf cache out).2 = some r → ∃ o, idOf o = i ∧ r = compute o := by
  unfold cachedExtract
  cases hl : lookup (idOf out) cache with
  | some r =>
    obtain ⟨o, ho, hr⟩ := hc _ _ hl
    exact ⟨by simp [hr, hid o out ho], hc⟩
  | none =>
    refine ⟨rfl, ?_⟩
    intro i r hi
    simp only [lookup] at hi
    split at hi
    · rename_i heq
      simp only [beq_iff_eq] at heq
      cases hi
      exact ⟨out, heq.symm, rfl⟩
    · exact hc i r hi

end SV.Props.C10
