/-
  C11 — the engine event stream is a well-formed, properly nested protocol.  Property theorems only.
-/
import SV.Proofs.Engine
import SV.Proofs.EngineKi
import SV.Proofs.EngineIntrAny
import SV.Proofs.Stateful
import SV.Proofs.StatefulMachine
import SV.Model.Plan
import SV.Proofs.Plan
import SV.Generated.Engine

namespace SV.Props.C11
open SV.Model.Engine SV.Model.Plan SV.Proofs.Engine SV.Proofs.Plan

/-- the phases are listed in the fixed order the property names -/
theorem phase_order_matches_source :
    SV.Generated.Engine.phaseOrder = ["PROBING", "EXAMPLES", "COVERAGE", "FUZZING", "STATEFUL_TESTING"] := by decide

/-! ### inside a unit phase (all schedules, all stop points, any number of workers) -/

/-- SuiteStarted comes first and only once; the suite's and the phase's closing events come last, exactly once, carry
    the same status, and appear only when the phase generator has finished. -/
theorem suite_bracket (v : Variant) (ops : List Script) (n : Nat) (m : Option Nat) (s : St)
    (hr : Reach v (init ops n m) s) :
    (s.c.pc = .preSuite → s.c.out = []) ∧
    (s.c.pc ≠ .preSuite → ∃ o, s.c.out = .suiteStarted :: o ∧ Ev.suiteStarted ∉ o) ∧
    (s.c.pc ≠ .done → ∀ e ∈ s.c.out, isClosingEv e = false) ∧
    (s.c.pc = .done → ∃ o st ntt, s.c.out = o ++ [.suiteFinished st, .phaseFinished st ntt] ∧
        ∀ e ∈ o, isClosingEv e = false) := by
  have sh := shape_reach v ops n m s hr
  refine ⟨sh.pre, sh.started, sh.open_, fun hd => ?_⟩
  obtain ⟨o, ho, hno⟩ := sh.closed hd
  exact ⟨o, _, _, ho, hno⟩

/-- a ScenarioFinished is never yielded before the ScenarioStarted with the same id -/
theorem open_before_close (v : Variant) (ops : List Script) (n : Nat) (m : Option Nat) (s : St)
    (hr : Reach v (init ops n m) s) : OpenBeforeClose (yieldedW s.c.out) := by
  have hb := brkInv_reach v _ s hr (brkInv_init ops n m)
  have hh := histInv_reach v _ s hr (histInv_init ops n m)
  exact obc_prefix _ _ (yielded_prefix s hh) hb.obc

/-- the worker events in the stream are, in order, a prefix of what the workers reported: nothing is reordered,
    duplicated or invented -/
theorem stream_is_prefix_of_reports (v : Variant) (ops : List Script) (n : Nat) (m : Option Nat) (s : St)
    (hr : Reach v (init ops n m) s) : yieldedW s.c.out <+: s.hist :=
  yielded_prefix s (histInv_reach v _ s hr (histInv_init ops n m))

/-- the phase is at least as bad as its worst scenario: at the end, the status of the closing events dominates (in
    the source's status order) every non-skipped scenario in the stream -/
theorem status_monotone (v : Variant) (ops : List Script) (n : Nat) (m : Option Nat) (s : St)
    (hm : m ≠ some 0) (hok : ∀ sc ∈ ops, ScriptOk sc)
    (hr : Reach v (init ops n m) s) (i : Nat) (st : Status)
    (hmem : Ev.scenFinished i st ∈ s.c.out) (hsk : st ≠ .skip) :
    st.rank ≤ (finalStatus s.c).1.rank ∧ (finalStatus s.c).2 = false := by
  have inv := (allInv_reach v _ s hr (allInv_init ops n m hm hok)).status
  obtain ⟨x, hx, hle⟩ := inv.fin i st hmem hsk
  have hex := inv.exec ⟨_, hmem, rfl⟩
  simp [finalStatus, hex, hx, hle]

/-- **Repaired consumer, no stop request and no failure limit:** every announced scenario is closed in the stream. -/
theorem closed_unless_stopped (ops : List Script) (n : Nat) (m : Option Nat) (s : St)
    (hr : Reach .repaired (init ops n m) s) (hdone : s.c.pc = .done) (hns : s.c.ctl.hasToStop = false)
    (i : Nat) (hi : Ev.scenStarted i ∈ s.c.out) : ∃ st, Ev.scenFinished i st ∈ s.c.out := by
  have hcl := closingInv_reach _ s hr (closingInv_init ops n m) (Or.inr hdone)
  rw [hns] at hcl
  obtain ⟨hdead, hq⟩ : allDead s.ws = true ∧ s.queue = [] := by
    rcases hcl with h | h
    · cases h
    · exact h
  have hh := histInv_reach _ _ s hr (histInv_init ops n m)
  obtain ⟨d, hd, hy⟩ := hh.split
  have hstop : s.c.ctl.stop = false := by simp [Ctl.hasToStop] at hns; exact hns.1
  have hhist : yieldedW s.c.out = s.hist := by
    rcases hy with h | ⟨h, _⟩
    · rw [hd, hq, h]; simp
    · rw [hstop] at h; cases h
  have hih : Ev.scenStarted i ∈ s.hist := by
    rw [← hhist]; exact List.mem_filter.2 ⟨hi, rfl⟩
  rcases closedInv_reach _ _ s hr (closedInv_init ops n m) i hih with ⟨st, hf⟩ | ⟨w, hw, sc, pc, hst, _⟩
  · refine ⟨st, ?_⟩
    have : Ev.scenFinished i st ∈ yieldedW s.c.out := by rw [hhist]; exact hf
    exact (List.mem_filter.1 this).1
  · exfalso
    simp only [allDead, List.all_eq_true] at hdead
    have := hdead w hw
    rw [hst] at this
    simp at this

/-- **Finding (failure limit, ≥ 2 workers):** the run is *not* interrupted, yet an announced scenario stays unclosed —
    worker 1 announced scenario 2, then the limit was reached on scenario 1 and the consumer left the loop. -/
theorem unclosed_at_failure_limit :
    ∃ s, Reach .repaired (init [⟨1, 0, 0, .failure, false⟩, ⟨2, 1, 0, .success, false⟩] 2 (some 1)) s ∧
      s.c.pc = .done ∧ s.c.ctl.stop = false ∧ Ev.scenStarted 2 ∈ s.c.out ∧
      (∀ st, Ev.scenFinished 2 st ∉ s.c.out) := by
  have h : ∃ s, fireAll .repaired (init [⟨1, 0, 0, .failure, false⟩, ⟨2, 1, 0, .success, false⟩] 2 (some 1))
      [.cStart, .worker 0, .worker 0, .worker 1, .worker 1, .worker 0, .worker 1, .worker 0, .worker 0, .worker 0,
       .cGot false, .cGot false, .cGot false, .worker 0, .worker 1, .worker 1, .worker 1, .worker 1,
       .cJoined] = some s ∧
      s.c.pc = .done ∧ s.c.ctl.stop = false ∧ Ev.scenStarted 2 ∈ s.c.out ∧
      s.c.out.all (fun e => match e with | .scenFinished 2 _ => false | _ => true) = true := by
    decide
  obtain ⟨s, hf, h1, h2, h3, h4⟩ := h
  refine ⟨s, fireAll_reach _ _ _ s _ Reach.refl hf, h1, h2, h3, ?_⟩
  intro st hmem
  rw [List.all_eq_true] at h4
  have := h4 _ hmem
  simp at this

/-- **The consumer's own Interrupted event** (a KeyboardInterrupt or a stop request seen by `unit.execute`), on every
    schedule and with any number of workers: when it is in the stream the stop flag is set and the phase status is
    INTERRUPTED; it is the last event of the still-open stream, and once the phase is closed only the two closing
    events follow it, carrying INTERRUPTED whenever any worker event had been consumed. -/
theorem consumer_interrupt_is_final (v : Variant) (ops : List Script) (n : Nat) (m : Option Nat) (s : St)
    (hr : Reach v (init ops n m) s) (hmem : Ev.interrupted true ∈ s.c.out) :
    s.c.ctl.stop = true ∧ s.c.status = some .interrupted ∧
    ∃ o, Ev.interrupted true ∉ o ∧
      ((s.c.pc = .closing ∧ s.c.out = o ++ [.interrupted true]) ∨
       (s.c.pc = .done ∧ ∃ st ntt, s.c.out = o ++ [.interrupted true, .suiteFinished st, .phaseFinished st ntt] ∧
          (s.c.executed = true → st = .interrupted))) := by
  rcases (kiInv_reach v _ s hr (kiInv_init ops n m)).shape with hn | ⟨o, ho, hs, hst, hrest⟩
  · exact absurd hmem hn
  · exact ⟨hs, hst, o, ho, hrest⟩

/-- the consumer announces an interruption at most once per phase, and never while it is still reading the queue -/
theorem consumer_interrupt_at_most_once (v : Variant) (ops : List Script) (n : Nat) (m : Option Nat) (s : St)
    (hr : Reach v (init ops n m) s) :
    s.c.out.count (.interrupted true) ≤ 1 ∧
    (s.c.pc ≠ .closing → s.c.pc ≠ .done → Ev.interrupted true ∉ s.c.out) := by
  have inv := (kiInv_reach v _ s hr (kiInv_init ops n m)).shape
  refine ⟨?_, fun h1 h2 => kiShape_open s.c inv h1 h2⟩
  rcases inv with hn | ⟨o, ho, _, _, ⟨_, hout⟩ | ⟨_, st, ntt, hout, _⟩⟩
  · rw [List.count_eq_zero.2 hn]; omega
  · rw [hout, List.count_append, List.count_eq_zero.2 ho]; simp
  · rw [hout, List.count_append, List.count_eq_zero.2 ho]; simp

/-- workers never put the consumer's marker on the queue (their own Interrupted is a different report) -/
theorem workers_never_report_consumer_interrupt (v : Variant) (ops : List Script) (n : Nat) (m : Option Nat) (s : St)
    (hr : Reach v (init ops n m) s) : ∀ e ∈ s.queue, e ≠ .interrupted true :=
  (kiInv_reach v _ s hr (kiInv_init ops n m)).queue

/-- non-vacuity: Ctrl-C right after SuiteStarted, the worker sees the stop flag and exits, the phase is closed -/
example : ∃ s, Reach .repaired (init [⟨1, 1, 0, .success, false⟩] 1 none) s ∧ s.c.pc = .done ∧
    s.c.out = [.suiteStarted, .interrupted true, .suiteFinished .skip, .phaseFinished .skip true] := by
  have h : ∃ s, fireAll .repaired (init [⟨1, 1, 0, .success, false⟩] 1 none) [.cStart, .cKi, .worker 0, .cJoined] = some s ∧
      s.c.pc = .done ∧
      s.c.out = [.suiteStarted, .interrupted true, .suiteFinished .skip, .phaseFinished .skip true] := by decide
  obtain ⟨s, hf, h1, h2⟩ := h
  exact ⟨s, fireAll_reach _ _ _ s _ Reach.refl hf, h1, h2⟩

/-- non-vacuity of the executed arm: a stop request seen after one consumed event closes the phase as INTERRUPTED -/
example : ∃ s, Reach .repaired (init [⟨1, 1, 0, .success, false⟩] 1 none) s ∧ s.c.pc = .done ∧ s.c.executed = true ∧
    s.c.out = [.suiteStarted, .scenStarted 1, .interrupted true, .suiteFinished .interrupted,
               .phaseFinished .interrupted false] := by
  have h : ∃ s, fireAll .repaired (init [⟨1, 1, 0, .success, false⟩] 1 none)
      [.cStart, .worker 0, .worker 0, .worker 0, .cGot false, .worker 0, .envStop, .worker 0, .worker 0, .worker 0,
       .worker 0, .cGot false, .worker 0, .cJoined] = some s ∧
      s.c.pc = .done ∧ s.c.executed = true ∧
      s.c.out = [.suiteStarted, .scenStarted 1, .interrupted true, .suiteFinished .interrupted,
                 .phaseFinished .interrupted false] := by decide
  obtain ⟨s, hf, h1, h2, h3⟩ := h
  exact ⟨s, fireAll_reach _ _ _ s _ Reach.refl hf, h1, h2, h3⟩

/-- **Any Interrupted ends the unit phase's stream**, whoever reported it (the consumer or a worker), on every
    schedule: before it no Interrupted occurs, with it the stop flag is set and the status is INTERRUPTED, and after it
    come only the two closing events (INTERRUPTED whenever a worker event had been consumed). -/
theorem any_interrupt_ends_the_stream (v : Variant) (ops : List Script) (n : Nat) (m : Option Nat) (s : St)
    (hr : Reach v (init ops n m) s) (e : Ev) (hmem : e ∈ s.c.out) (hie : isAnyIntr e = true) :
    s.c.ctl.stop = true ∧ s.c.status = some .interrupted ∧
    ∃ o b, NoIntr o ∧
      ((s.c.pc = .closing ∧ s.c.out = o ++ [.interrupted b]) ∨
       (s.c.pc = .done ∧ ∃ st ntt, s.c.out = o ++ [.interrupted b, .suiteFinished st, .phaseFinished st ntt] ∧
          (s.c.executed = true → st = .interrupted))) := by
  rcases (intrAnyInv_reach v _ s hr (intrAnyInv_init ops n m)).shape with hn | ⟨o, b, ho, hs, hst, hrest⟩
  · have := hn e hmem
    rw [hie] at this
    cases this
  · exact ⟨hs, hst, o, b, ho, hrest⟩

/-- non-vacuity: a stop request while the worker is between requests; the worker reports ScenarioFinished(INTERRUPTED)
    and Interrupted, the consumer passes the first on and closes the phase as INTERRUPTED -/
example : ∃ s, Reach .repaired (init [⟨1, 1, 0, .success, false⟩] 1 none) s ∧ s.c.pc = .done ∧
    (∃ e ∈ s.c.out, isAnyIntr e = true) := by
  have h : ∃ s, fireAll .repaired (init [⟨1, 1, 0, .success, false⟩] 1 none)
      [.cStart, .worker 0, .worker 0, .worker 0, .envStop, .worker 0, .worker 0, .worker 0, .worker 0,
       .cGot false, .cJoined] = some s ∧
      s.c.pc = .done ∧ s.c.out.any isAnyIntr = true := by decide
  obtain ⟨s, hf, h1, h2⟩ := h
  refine ⟨s, fireAll_reach _ _ _ s _ Reach.refl hf, h1, ?_⟩
  simpa [List.any_eq_true] using h2

/-! ### the plan: phases in order, each opened and closed once -/


/-- When no KeyboardInterrupt escapes a phase generator: the phases opened are a prefix of the configured list, in
    order, and exactly the opened phases are closed, once each, in the same order. -/
theorem phases_opened_and_closed_in_order (run : Nat → Ctl → PhaseRun) (hrun : ∀ i c, (run i c).escapedKi = false)
    (ctl : Ctl) (phases : List PhaseCfg) :
    openedPhases (runPhases run ctl phases) <+: phases.map (·.idx) ∧
    closedPhases (runPhases run ctl phases) = openedPhases (runPhases run ctl phases) := by
  induction phases generalizing ctl with
  | nil => simp [runPhases, openedPhases, closedPhases]
  | cons p rest ih =>
    simp only [runPhases]
    by_cases hc : (p.enabled && !ctl.hasToStop) = true
    · simp only [hc, if_true, hrun, Bool.false_eq_true, if_false]
      by_cases hs : (run p.idx ctl).ctl.stop = true
      · simp [hs, openedPhases_append, closedPhases_append, openedPhases_inner, closedPhases_inner, openedPhases,
          closedPhases]
      · obtain ⟨h1, h2⟩ := ih (run p.idx ctl).ctl
        simp only [hs, Bool.false_eq_true, if_false]
        simp only [openedPhases_append, closedPhases_append, openedPhases_inner, closedPhases_inner, openedPhases,
          closedPhases, List.nil_append, List.append_nil, List.map_cons, List.cons_append]
        exact ⟨List.prefix_cons_inj _ |>.2 h1, by rw [h2]⟩
    · simp only [hc, Bool.false_eq_true, if_false]
      by_cases hs : ctl.stop = true
      · simp [hs, openedPhases, closedPhases]
      · obtain ⟨h1, h2⟩ := ih ctl
        simp only [hs, Bool.false_eq_true, if_false]
        simp only [List.cons_append, List.nil_append, openedPhases, closedPhases, List.map_cons]
        exact ⟨List.prefix_cons_inj _ |>.2 h1, by rw [h2]⟩

/-- exactly one start first and exactly one finish last -/
theorem engine_bracket (run : Nat → Ctl → PhaseRun) (ctl : Ctl) (phases : List PhaseCfg) :
    ∃ mid, execute run ctl phases = .engineStarted :: mid ++ [.engineFinished] :=
  ⟨if ctl.stop then [] else runPhases run ctl phases, by simp [execute]⟩

/-- **Finding (interrupt outside the phase's own handlers):** if a KeyboardInterrupt leaves a phase generator (it is
    raised while the pool is joined, or between `yield SuiteStarted` and the `try`), the plan's handler reports the
    interruption and finishes — the phase (and its suite) is never closed. -/
theorem phase_unclosed_when_ki_escapes :
    let run : Nat → Ctl → PhaseRun := fun _ c => ⟨[.suiteStarted], .interrupted, false, { c with stop := true }, true⟩
    execute run {} [⟨1, true, none⟩] =
      [.engineStarted, .phaseStarted 1, .inner 1 .suiteStarted, .interrupted, .engineFinished] := by
  decide

/-- non-vacuity for `closed_unless_stopped`/`status_monotone`: a two-worker run to completion -/
example : ∃ s, fireAll .repaired (init [⟨1, 1, 0, .failure, false⟩, ⟨2, 0, 1, .error, false⟩] 2 none)
      ([.cStart] ++ List.replicate 8 (.worker 0) ++ List.replicate 9 (.worker 1) ++ List.replicate 2 (.worker 0) ++
       List.replicate 5 (.cGot false) ++ [.cEmpty, .cAlive, .cJoined]) = some s ∧
      s.c.pc = .done ∧ s.c.ctl.hasToStop = false ∧ s.c.out.getLast? = some (.phaseFinished .error false) := by
  decide

/-! ### the stateful phase: suites are opened and closed one after another, also on every error path -/

open SV.Model.Stateful SV.Proofs.Stateful in
/-- Whatever way each state-machine run ends (normal, check failure, flaky, unsatisfiable, internal error, Ctrl-C,
    interrupted before it starts), the thread's stream opens and closes its suites strictly one after another: the
    `finally` closes the suite on every path. -/
theorem stateful_suites_bracketed (k : Nat) (suites : List Suite) (h : ∀ s ∈ suites, noSuiteEvents s.scen = true)
    (hne : suites ≠ []) : suitesWf none (threadEvents k suites) = true :=
  threadEvents_wf k suites h hne


/-! ### the stateful phase, scenarios included: the instrumented state machine under every Hypothesis behaviour -/

open SV.Model.SM SV.Spec.SM in
/-- **Everything the stateful thread puts is well nested, for every environment.**  Whatever scenarios Hypothesis
    decides to run in whichever iteration (machines whose construction fails, steps that pass, fail checks, hit errors,
    are interrupted, are cut short by a stop request or by the unique-input cache; runs that end normally, with a
    failure group, flaky, unsatisfiable, with an internal error, with Ctrl-C or another BaseException), whatever the API
    answers and the checks raise: the events are accepted by the reference automaton `wfRun` — suites strictly one after
    the other, every scenario opened inside a suite and closed under its own identifier before anything else happens in
    that suite and before the suite is closed, `Interrupted` / `NonFatalError` only inside a suite and outside a
    scenario — and scenario identifiers are fresh (`idsFrom`). -/
theorem stateful_thread_wellformed (v : SV.Model.SM.Variant) (runs : List Run) (m0 : MSt) (h0 : m0.out = []) :
    wfRun (none, none) (thread v 0 m0 runs).out = some (none, none) ∧
    idsFrom m0.nextId (thread v 0 m0 runs).out = some (thread v 0 m0 runs).nextId := by
  obtain ⟨evs, hp, hw, hi⟩ := SV.Proofs.SM.thread_wf v 0 m0 runs
  unfold SV.Proofs.SM.Puts at hp
  rw [h0, List.nil_append] at hp
  rw [hp]
  exact ⟨hw, hi⟩

open SV.Model.SM SV.Spec.SM in
/-- non-vacuity: two iterations — a failing scenario and an errored one (then Flaky), then a clean run — give a stream
    of two bracketed suites with three scenarios -/
example :
    (thread .repaired 0 {} [⟨[⟨false, [⟨1, false, .responds [.fail [7]]⟩], false⟩, ⟨false, [⟨2, false, .raises⟩], false⟩], .flaky, false⟩,
                            ⟨[⟨false, [⟨1, false, .responds [.fail [7]]⟩], false⟩], .ok, false⟩]).out =
      [.suiteStarted 0, .scenStarted 1, .scenFinished 1 .failure, .scenStarted 2, .scenFinished 2 .error, .suiteFinished 0 .failure,
       .suiteStarted 1, .scenStarted 3, .scenFinished 3 .success, .suiteFinished 1 .success] := by
  decide

open SV.Model.SM SV.Spec.SM in
/-- **Recorded finding F18d, as a theorem about the model:** "a phase is at least as bad as its worst scenario" fails in
    the stateful phase when an error does not repeat on replay — the errored scenario sits in a suite closed as FAILURE.
    (Holds for both variants of the Flaky arm whenever the suite also saw a check failure.) -/
theorem stateful_status_monotone_full_false :
    ∃ runs : List Run, (SV.Model.Stateful.SEv.scenFinished 2 .error) ∈ (thread .asFound 0 {} runs).out ∧
      (SV.Model.Stateful.SEv.suiteFinished 0 .failure) ∈ (thread .asFound 0 {} runs).out ∧ Status.rank .failure < Status.rank .error :=
  ⟨[⟨[⟨false, [⟨1, false, .responds [.fail [7]]⟩], false⟩, ⟨false, [⟨2, false, .raises⟩], false⟩], .flaky, false⟩, ⟨[], .ok, false⟩], by decide⟩

end SV.Props.C11
