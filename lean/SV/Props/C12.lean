/-
  C12 — execution limits and stop requests are honoured.  Property theorems only.
-/
import SV.Proofs.Engine
import SV.Proofs.StatefulMachine
import SV.Model.C12Settings
import SV.Model.Plan

namespace SV.Props.C12
open SV.Model.Engine SV.Model.Plan SV.Proofs.Engine

/-- **max-failures, all schedules.** In every reachable state of a unit phase (any number of workers, any
    interleaving, any stop point) the stream contains at most `max_failures` failed or errored scenarios. -/
theorem failure_cap (v : Variant) (ops : List Script) (n m : Nat) (hm : 0 < m) (s : St)
    (hr : Reach v (init ops n (some m)) s) : countFailing s.c.out ≤ m := by
  have inv := capInv_reach v _ s hr (capInv_init (some m) (by simp; omega))
  have hmf : s.c.ctl.maxFailures = some m := by
    -- the configured limit never changes
    have : ∀ s, Reach v (init ops n (some m)) s → s.c.ctl.maxFailures = some m := by
      intro s h
      induction h with
      | refl => simp [init]
      | step s s' _ hstep ih =>
        cases hstep with
        | worker => exact ih
        | envStop => exact ih
        | cStart c' h => simp only [cStep] at h; split at h <;> simp at h; subst h; exact ih
        | cEmpty c' hq h => simp only [cStep] at h; split at h <;> simp at h; subst h; exact ih
        | cKi c' h => simp only [cStep] at h; split at h <;> simp at h; subst h; simpa [cInterrupt] using ih
        | cJoined c' hd h => simp only [cStep] at h; split at h <;> simp at h; subst h; simpa [cClose] using ih
        | cGot e q sdy c' hq h =>
          simp only [cStep] at h; split at h <;> simp at h; subst h
          simp only [cGot_maxFailures]; exact ih
        | cAlive c' h =>
          simp only [cStep] at h
          split at h
          · split at h
            · simp at h; subst h; exact ih
            · cases v <;> simp at h <;> subst h <;> exact ih
          · simp at h
    exact this s hr
  obtain ⟨hf, hlt, hle⟩ := inv.2 m hmf
  rw [← hf]
  cases hl : s.c.ctl.limit
  · exact Nat.le_of_lt (hlt hl)
  · exact hle hl

/-- the limit is reached exactly when the counter says so (so the phases after it are skipped for that reason) -/
theorem count_failure_limit (c : Ctl) (m : Nat) (hm : c.maxFailures = some m) :
    c.countFailure.limit = (c.limit || decide (c.failures + 1 ≥ m)) ∧ c.countFailure.failures = c.failures + 1 := by
  simp [Ctl.countFailure, hm]

/-- **after the limit**: every remaining phase is announced and immediately closed as
    SKIP / "failure limit reached", whatever its configuration (no stop request pending) -/
theorem phases_after_limit_skipped (run : Nat → Ctl → PhaseRun) (ctl : Ctl) (hl : ctl.limit = true)
    (hs : ctl.stop = false) (phases : List PhaseCfg) :
    runPhases run ctl phases =
      phases.flatMap fun p => [.phaseStarted p.idx, .phaseFinished p.idx .skip (some .failureLimit)] := by
  induction phases with
  | nil => simp [runPhases]
  | cons p rest ih =>
    simp [runPhases, Ctl.hasToStop, hl, hs, ih]

/-- **after a stop request, all schedules**: a worker sends at most one more request (the one whose stop test it had
    already passed) -/
theorem at_most_one_send_after_stop (v : Variant) (ops : List Script) (n : Nat) (m : Option Nat) (s : St)
    (hr : Reach v (init ops n m) s) : ∀ w ∈ s.ws, w.late ≤ 1 :=
  fun w hw => (late_reach v _ s hr (lateInv_init ops n m) w hw).1

/-- **after a stop request**: nothing a worker produced is yielded any more — in particular no ScenarioStarted -/
theorem nothing_yielded_after_stop (v : Variant) (s s' : St) (h : Step v s s') (hs : s.c.ctl.stop = true) :
    yieldedW s'.c.out = yieldedW s.c.out ∧ s'.c.ctl.stop = true := by
  cases h with
  | worker => exact ⟨rfl, hs⟩
  | envStop => exact ⟨rfl, rfl⟩
  | cStart c' h => have := cStep_other_out v _ _ _ h (by simp); exact ⟨this.1, this.2 hs⟩
  | cEmpty c' hq h => have := cStep_other_out v _ _ _ h (by simp); exact ⟨this.1, this.2 hs⟩
  | cAlive c' h => have := cStep_other_out v _ _ _ h (by simp); exact ⟨this.1, this.2 hs⟩
  | cKi c' h => have := cStep_other_out v _ _ _ h (by simp); exact ⟨this.1, this.2 hs⟩
  | cJoined c' hd h => have := cStep_other_out v _ _ _ h (by simp); exact ⟨this.1, this.2 hs⟩
  | cGot e q sdy c' hq h =>
    simp only [cStep] at h; split at h <;> simp at h; subst h
    obtain ⟨ho, hst⟩ := (cGot_out s.c e sdy).2 hs
    exact ⟨by simp only; rw [ho]; simp [yieldedW, isWorkerEv], hst⟩

/-- a stop or limit request is never withdrawn -/
theorem stop_is_monotone (v : Variant) (s s' : St) (h : Step v s s') (hs : s.c.ctl.hasToStop = true) :
    s'.c.ctl.hasToStop = true := step_hasToStop_mono v s s' h hs

/-- **after a stop request, for the rest of the phase** (any number of further steps, any schedule): the worker events
    in the stream stay exactly those that were there when the request was made, and the request stays in force -/
theorem nothing_yielded_after_stop_ever (v : Variant) (s s' : St) (h : Reach v s s') (hs : s.c.ctl.stop = true) :
    yieldedW s'.c.out = yieldedW s.c.out ∧ s'.c.ctl.stop = true := by
  induction h with
  | refl => exact ⟨rfl, hs⟩
  | step a b _ hstep ih =>
    have := nothing_yielded_after_stop v a b hstep ih.2
    exact ⟨this.1.trans ih.1, this.2⟩

/-- a stop or limit request is never withdrawn, however the phase continues -/
theorem stop_is_monotone_ever (v : Variant) (s s' : St) (h : Reach v s s') (hs : s.c.ctl.hasToStop = true) :
    s'.c.ctl.hasToStop = true := by
  induction h with
  | refl => exact hs
  | step a b _ hstep ih => exact step_hasToStop_mono v a b hstep ih

/-! ### unique inputs: the outcome cache as a set -/

/-- `cached_test_func` with `unique_inputs`: a key already in the cache is not sent again -/
def sendUnique (cache : List Nat) (key : Nat) : List Nat × Bool :=
  if cache.contains key then (cache, false) else (key :: cache, true)

def sentKeys : List Nat → List Nat → List Nat
  | _, [] => []
  | cache, k :: ks => let (c', sent) := sendUnique cache k; (if sent then [k] else []) ++ sentKeys c' ks

theorem unique_inputs_never_repeat (cache keys : List Nat) :
    (sentKeys cache keys).Nodup ∧ ∀ k ∈ sentKeys cache keys, k ∉ cache := by
  induction keys generalizing cache with
  | nil => simp [sentKeys]
  | cons k ks ih =>
    simp only [sentKeys, sendUnique]
    by_cases hc : cache.contains k = true
    · simp only [hc, if_true]
      simpa using ih cache
    · simp only [hc, Bool.false_eq_true, if_false, if_true]
      obtain ⟨h1, h2⟩ := ih (k :: cache)
      refine ⟨?_, ?_⟩
      · simp only [List.singleton_append, List.nodup_cons]
        exact ⟨fun hk => by have := h2 k hk; simp at this, h1⟩
      · intro x hx
        simp only [List.singleton_append, List.mem_cons] at hx
        rcases hx with rfl | hx
        · simpa using hc
        · have := h2 x hx; simp at this; exact this.2

/-- non-vacuity of `failure_cap`: two workers, three failing operations, limit 2 — the third failure is not yielded -/
example : ∃ s, fireAll .repaired (init [⟨1, 0, 0, .failure, false⟩, ⟨2, 0, 0, .error, false⟩, ⟨3, 0, 0, .failure, false⟩] 2 (some 2))
      [.cStart, .worker 0, .worker 0, .worker 1, .worker 1, .worker 0, .worker 0, .worker 0, .worker 0,
       .worker 1, .worker 1, .worker 1, .worker 1, .worker 0, .worker 0, .worker 0, .worker 0, .worker 0, .worker 0,
       .cGot false, .cGot false, .cGot false, .cGot false] = some s ∧
      countFailing s.c.out = 2 ∧ s.c.ctl.limit = true ∧ s.c.pc = .closing ∧ s.queue.length = 2 := by
  decide


/-! ### the stateful phase: the instrumented state machine and its loop -/

namespace StatefulMachine
open SV.Model.SM SV.Spec.SM

/-- **Nothing is sent once a stop is pending.**  If the stop event is set or the failure limit is reached, the stateful
    thread performs no further call — in the current run or in any later iteration — whatever Hypothesis does. (The
    stateful phase has one thread; the request in flight when the stop arrives is the "one further request".) -/
theorem nothing_sent_after_stop (v : SV.Model.SM.Variant) (k : Nat) (m : MSt) (runs : List Run) (h : m.ctl.hasToStop = true) :
    (thread v k m runs).calls = m.calls :=
  SV.Proofs.SM.thread_stopped v k m runs h

/-- **The loop ends (repaired Flaky arm).**  Let `U` list the failures the API can exhibit. However many iterations the
    environment is prepared to go through (`runs` may be arbitrarily long) and whatever happens in them, the loop
    performs at most `|U| + max_examples + 1` iterations, provided the environment is sane (`SaneAll`: a FailureGroup
    re-raised by Hypothesis contains a failure collected in that run). -/
theorem loop_terminates_repaired (U : List FKey) (m : MSt) (runs : List Run) (h0 : m.seenSuite = [])
    (hk : ∀ r, r ∈ runs → ∀ f, f ∈ runKeys r → f ∈ U) (hs : SaneAll 0 m runs) :
    suitesRun .repaired 0 m runs ≤ U.length + m.maxExamples + 1 := by
  have h := SV.Proofs.SM.suitesRun_bounded U 0 m runs (by intro f hf; simp [h0] at hf) hk hs
  have : SV.Proofs.SM.mu U m ≤ U.length + m.maxExamples := by
    simp only [SV.Proofs.SM.mu]
    have := List.length_filter_le (fun f => !decide (f ∈ m.seenRun)) U
    omega
  omega

/-- **As found the loop need not end** (and with it "no more than max-failures failed or errored scenarios are
    reported"): an error that does not repeat when Hypothesis replays the scenario makes every iteration end Flaky with
    nothing to mark as seen; the loop performs as many iterations as the environment is prepared for, each with a new
    errored scenario and two more requests, whatever `max_failures` is. -/
theorem loop_asFound_unbounded (n : Nat) (mf : Option Nat) :
    suitesRun .asFound 0 { ctl := { maxFailures := mf } } (List.replicate n flakyErrorRun) = n ∧
    (thread .asFound 0 { ctl := { maxFailures := mf } } (List.replicate n flakyErrorRun)).calls = 2 * n := by
  have := SV.Proofs.SM.asFound_runs_as_long_as_scripted n 0 { ctl := { maxFailures := mf } } ⟨rfl, rfl, rfl, rfl⟩
  simpa using this

/-- **max-failures in the stateful phase.**  With `max_failures = mx ≥ 1`, for every behaviour of Hypothesis, the API and
    the checks over any number of iterations (no `teardown` metric fault): at most `mx` scenarios are reported as FAILED.
    (Each failed scenario counted at least one new failure before the limit was reached; once it is reached no step runs.)
    Errored scenarios are not capped by the code — an error ends the loop instead — see `loop_asFound_unbounded` for
    what that meant before the Flaky arm was repaired. -/
theorem failed_scenarios_capped (mx : Nat) (v : SV.Model.SM.Variant) (m : MSt) (runs : List Run)
    (h0 : m.ctl = { maxFailures := some mx }) (hs : m.stepStatus = none) (ho : m.out = []) (hmx : 0 < mx)
    (ht : NoTeardownFault runs) :
    failedScenarios (thread v 0 m runs).out ≤ mx := by
  have hc : SV.Proofs.SM.Capped mx m := by
    refine ⟨⟨by rw [h0], fun _ => by rw [h0]; exact hmx⟩, hs, by rw [ho, h0]; simp [failedScenarios], by rw [ho]; simp [failedScenarios]⟩
  exact (SV.Proofs.SM.thread_capped mx v 0 m runs ht hc).2.2.2

/-- non-vacuity: limit 1, two scenarios each failing a check — the second one never gets to its call -/
example : failedScenarios (thread .repaired 0 { ctl := { maxFailures := some 1 } }
      [⟨[⟨false, [⟨1, false, .responds [.fail [7]]⟩], false⟩, ⟨false, [⟨2, false, .responds [.fail [8]]⟩], false⟩], .flaky, false⟩]).out = 1 ∧
    (thread .repaired 0 { ctl := { maxFailures := some 1 } }
      [⟨[⟨false, [⟨1, false, .responds [.fail [7]]⟩], false⟩, ⟨false, [⟨2, false, .responds [.fail [8]]⟩], false⟩], .flaky, false⟩]).calls = 1 := by
  decide

/-- the same environment under the repaired arm: one iteration -/
theorem loop_repaired_stops (n : Nat) : suitesRun .repaired 0 {} (List.replicate (n + 1) flakyErrorRun) = 1 := by
  have := (SV.Proofs.SM.flakyErrorRun_repaired 0 {} ⟨rfl, rfl, rfl, rfl⟩).1
  simp [List.replicate_succ, suitesRun, this]

/-- non-vacuity of `loop_terminates_repaired`: three iterations, each marking a new failure of `U = [1, 2, 3]` -/
example : SaneAll 0 {} [⟨[⟨false, [⟨1, false, .responds [.fail [1]]⟩], false⟩], .failureGroup [1], false⟩,
                         ⟨[⟨false, [⟨1, false, .responds [.fail [1, 2]]⟩], false⟩], .flaky, false⟩,
                         ⟨[⟨false, [⟨1, false, .responds [.fail [2, 1]]⟩], false⟩], .ok, false⟩] ∧
    suitesRun .repaired 0 {} [⟨[⟨false, [⟨1, false, .responds [.fail [1]]⟩], false⟩], .failureGroup [1], false⟩,
                         ⟨[⟨false, [⟨1, false, .responds [.fail [1, 2]]⟩], false⟩], .flaky, false⟩,
                         ⟨[⟨false, [⟨1, false, .responds [.fail [2, 1]]⟩], false⟩], .ok, false⟩] = 3 := by
  refine ⟨⟨⟨1, by decide, by decide⟩, fun _ => ⟨trivial, fun _ => ⟨trivial, fun _ => trivial⟩⟩⟩, by decide⟩

end StatefulMachine

/-! ### the configured Hypothesis settings reach the test (`create_test`) -/

namespace Settings
open SV.Model.C12Settings

/-- **What the user configured is what the test runs with**, whatever Hypothesis profile is active in the process:
    `max_examples`, `stateful_step_count` and `derandomize` are the configured values; the deadline is the configured one
    unless it was left at the active default, in which case it is schemathesis' own; the phases are the configured ones
    without `explain` (and without `generate` / `reuse` for a test that is not a fuzzing one). -/
theorem configured_settings_reach_the_test (active stock c : S) (fuzzing : Bool) :
    (effective .active active stock (some c) fuzzing).maxExamples = c.maxExamples ∧
    (effective .active active stock (some c) fuzzing).stepCount = c.stepCount ∧
    (effective .active active stock (some c) fuzzing).derandomize = c.derandomize ∧
    (effective .active active stock (some c) fuzzing).deadline = (if c.deadline = active.deadline then defaultDeadline else c.deadline) ∧
    (effective .active active stock (some c) fuzzing).phases =
      (if fuzzing then c.phases.filter (· ≠ .explain)
       else (c.phases.filter (· ≠ .explain)).filter fun p => p ≠ .reuse ∧ p ≠ .generate) := by
  have hp : ∀ {α : Type} [DecidableEq α] (x y : α), pick x y y = x := by
    intro α _ x y; unfold pick; split
    · rfl
    · rename_i h; simp only [ne_eq, Decidable.not_not] at h; exact h.symm
  cases fuzzing <;> simp only [effective, if_true, hp, Bool.false_eq_true, if_false, and_self, true_and]
  all_goals
    unfold pick
    by_cases hd : c.deadline = active.deadline
    · simp [hd]
    · simp [hd]

/-- **Comparing with the stock profile instead is wrong** exactly when another profile is active: configured
    `max_examples = 100` (the stock value) under an active profile with 140 would run 140 examples. -/
theorem stock_comparison_full_false :
    (effective .stock ⟨140, 50, none, false, [.explicit, .reuse, .generate, .target, .shrink, .explain]⟩
                      ⟨100, 50, some 200, false, [.explicit, .reuse, .generate, .target, .shrink, .explain]⟩
                      (some ⟨100, 50, none, false, [.generate]⟩) true).maxExamples = 140 ∧
    (effective .active ⟨140, 50, none, false, [.explicit, .reuse, .generate, .target, .shrink, .explain]⟩
                       ⟨100, 50, some 200, false, [.explicit, .reuse, .generate, .target, .shrink, .explain]⟩
                       (some ⟨100, 50, none, false, [.generate]⟩) true).maxExamples = 100 := by decide

/-- **A configured rate limit (like every other setting) stays until a call names it again.**  For every history of
    `configure(...)` calls on one schema, each setting holds the last value a call gave for it, or its initial value when
    no call names it — in particular `configure(rate_limit=r)` followed by any calls that do not mention `rate_limit`
    leaves the limiter of `r` in place. -/
theorem configure_last_given_wins (s : SchemaCfg) (calls : List ConfigureCall) :
    (calls.foldl configure s).rate = (lastGiven (·.rate) calls).getD s.rate ∧
    (calls.foldl configure s).baseUrl = (lastGiven (·.baseUrl) calls).getD s.baseUrl ∧
    (calls.foldl configure s).generation = (lastGiven (·.generation) calls).getD s.generation := by
  induction calls generalizing s with
  | nil => exact ⟨rfl, rfl, rfl⟩
  | cons c rest ih =>
    simp only [List.foldl_cons, lastGiven]
    obtain ⟨h1, h2, h3⟩ := ih (configure s c)
    refine ⟨?_, ?_, ?_⟩
    · rw [h1]; cases lastGiven (·.rate) rest <;> simp [configure]
    · rw [h2]; cases lastGiven (·.baseUrl) rest <;> simp [configure]
    · rw [h3]; cases lastGiven (·.generation) rest <;> simp [configure]

/-- non-vacuity: a limit, then a base URL: the limit is still there -/
example : (([⟨none, none, some (some 10), none, none, none⟩, ⟨some (some 1), none, none, none, none, none⟩] : List ConfigureCall).foldl
    configure ⟨none, none, none, some 0, some 0, none⟩).rate = some 10 := by decide

end Settings

end SV.Props.C12
