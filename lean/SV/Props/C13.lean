/-
  C13 — a fixed seed reproduces the same sequence of requests.  Property theorems only.
-/
import SV.Model.C13
import SV.Generated.C13

namespace SV.Props.C13
open SV.Model.C13

/-! ### what the source says about its entropy sites (table regenerated on every run) -/

def classOf (s : String × String × String × String × String × String) : Source := Source.ofString s.2.2.2.2.1
def phaseOf (s : String × String × String × String × String × String) : String := s.2.2.2.2.2

/-- every generation site found in the source is one the rules know -/
theorem all_sites_classified :
    (SV.Generated.C13.sites.all fun s => classOf s != .unclassified) = true := by decide

/-- the per-operation Hypothesis test of the unit phases is seeded from the configured seed -/
theorem unit_phases_seeded_from_config :
    (SV.Generated.C13.sites.any fun s =>
      s.1 == "generation/hypothesis/builder.py" && s.2.1 == "create_test" && s.2.2.1 == "hypothesis.seed" &&
      s.2.2.2.1 == "config.seed") = true := by decide

/-- the stateful state machine is seeded from the configured seed (incremented per suite) -/
theorem stateful_seeded :
    (SV.Generated.C13.sites.any fun s =>
      s.1 == "engine/phases/stateful/_executor.py" && s.2.2.1 == "hypothesis.seed" && s.2.2.2.1 == "seed") = true := by
  decide

/-- every site of the fuzzing / stateful machinery is deterministic given the seed -/
theorem fuzzing_and_stateful_sites_deterministic :
    (SV.Generated.C13.sites.all fun s =>
      !(phaseOf s == "unit" || phaseOf s == "stateful") || (classOf s).deterministic) = true := by decide

/-- the explicit single-example draws of the examples and coverage phases are either all derandomized (repaired) or all
    of the "simplest example first" kind (pinned snapshot) — never a mixture, never unclassified -/
theorem single_example_sites_uniform :
    (SV.Generated.C13.sites.all fun s =>
      !(phaseOf s == "coverage" || phaseOf s == "examples") || classOf s == .envSeed ||
        classOf s == (if SV.Generated.C13.generateOneDerandomized then .derandomized else .simplestFirst)) = true := by
  decide

/-! ### non-interference: deterministic sites make the request sequence a function of the seed -/

theorem flatMap_congr_sites (g : Gen) (hg : Honest g) (sites : List Source)
    (hs : ∀ s ∈ sites, s.deterministic = true) (seed : Seed) (e1 e2 : Env) (op : Op) :
    (sites.flatMap fun src => g src seed e1 op) = (sites.flatMap fun src => g src seed e2 op) := by
  induction sites with
  | nil => rfl
  | cons s rest ih =>
    simp only [List.flatMap_cons]
    rw [hg s (hs s (by simp)) seed e1 e2 op, ih (fun x hx => hs x (by simp [hx]))]

/-- **Same seed ⇒ same requests, whatever the rest of the process state is**, for any Hypothesis (`g`) that honours its
    seeding contract, provided every site of the phase is deterministic. -/
theorem same_seed_same_requests (g : Gen) (hg : Honest g) (sites : List Source)
    (hs : ∀ s ∈ sites, s.deterministic = true) (seed : Seed) (e1 e2 : Env) (ops : List Op) :
    sequential g sites seed e1 ops = sequential g sites seed e2 ops := by
  unfold sequential opRequests
  induction ops with
  | nil => rfl
  | cons op rest ih =>
    simp only [List.flatMap_cons]
    rw [flatMap_congr_sites g hg sites hs seed e1 e2 op, ih]

/-- the hypothesis is necessary: with one environment-dependent site two runs with the same seed can differ -/
theorem unseeded_site_breaks_it :
    ∃ (g : Gen), Honest g ∧ sequential g [.simplestFirst] 1 0 [7] ≠ sequential g [.simplestFirst] 1 1 [7] := by
  refine ⟨fun src _ env _ => if src.deterministic then [0] else [env], ?_, by decide⟩
  intro src h seed e1 e2 op
  simp [h]

/-! ### several workers: the order may change, the requests per operation may not -/

theorem inter_perm {α : Type} (ls : List (List α)) (r : List α) (h : Inter ls r) : r.Perm ls.flatten := by
  induction h with
  | done ls h =>
    have : ls.flatten = [] := by
      induction ls with
      | nil => rfl
      | cons l rest ih =>
        have hl := h l (by simp)
        subst hl
        simpa using ih (fun x hx => h x (by simp [hx]))
    rw [this]
  | take pre post x l r _ ih =>
    simp only [List.flatten_append, List.flatten_cons, List.cons_append] at *
    exact (List.Perm.cons x ih).trans (List.perm_middle.symm)

theorem inter_filter {α : Type} (p : α → Bool) (ls : List (List α)) (r : List α) (h : Inter ls r) :
    Inter (ls.map (·.filter p)) (r.filter p) := by
  induction h with
  | done ls h =>
    refine Inter.done _ ?_
    intro l hl
    simp only [List.mem_map] at hl
    obtain ⟨l0, h0, rfl⟩ := hl
    rw [h l0 h0]; rfl
  | take pre post x l r _ ih =>
    simp only [List.map_append, List.map_cons] at *
    by_cases hp : p x = true
    · simp only [List.filter_cons, hp, if_true]
      exact Inter.take _ _ _ _ _ ih
    · simp only [List.filter_cons, hp]
      exact ih

/-- an interleaving in which at most one list is non-empty is that list -/
theorem inter_single {α : Type} (ls : List (List α)) (r : List α) (h : Inter ls r) (pre post : List (List α)) (l : List α)
    (hls : ls = pre ++ l :: post) (hpre : ∀ x ∈ pre, x = []) (hpost : ∀ x ∈ post, x = []) : r = l := by
  induction h generalizing pre post l with
  | done ls h => subst hls; exact (h l (by simp)).symm
  | take pre' post' x l' r _ ih =>
    -- the non-empty list `x :: l'` must be `l`
    have hmem : (x :: l') ∈ pre ++ l :: post := by rw [← hls]; simp
    simp only [List.mem_append, List.mem_cons] at hmem
    rcases hmem with hm | hm | hm
    · exact absurd (hpre _ hm) (by simp)
    · subst hm
      -- positions agree: everything else is empty on both sides
      have key : ∀ (a b c d : List (List α)) (u : List α), a ++ u :: b = c ++ u :: d → u ≠ [] →
          (∀ y ∈ c, y = []) → (∀ y ∈ d, y = []) → a = c ∧ b = d := by
        intro a b c d u heq hne hc hd
        induction a generalizing c with
        | nil =>
          cases c with
          | nil => simp at heq; exact ⟨rfl, heq⟩
          | cons y c' =>
            simp at heq
            exact absurd (hc y (by simp)) (by rw [← heq.1]; exact hne)
        | cons z a' iha =>
          cases c with
          | nil =>
            simp at heq
            obtain ⟨h1, h2⟩ := heq
            subst h1
            have : z ∈ d := by rw [← h2]; simp
            exact absurd (hd z this) hne
          | cons y c' =>
            simp at heq
            obtain ⟨h1, h2⟩ := heq
            obtain ⟨h3, h4⟩ := iha c' h2 (fun y hy => hc y (by simp [hy]))
            exact ⟨by rw [h1, h3], h4⟩
      obtain ⟨h1, h2⟩ := key pre' post' pre post (x :: l') hls (by simp) hpre hpost
      subst h1 h2
      rw [ih pre' post' l' rfl hpre hpost]
    · exact absurd (hpost _ hm) (by simp)

/-- **Per-operation requests are independent of the number of workers and of the interleaving**: if the requests of
    operation `o` are all produced by one worker (each operation is taken from the producer exactly once), then in any
    interleaving of the workers' streams the sub-sequence addressed to `o` is exactly that worker's. -/
theorem per_operation_requests_preserved {α : Type} (isO : α → Bool) (ls : List (List α)) (obs : List α)
    (h : Inter ls obs) (pre post : List (List α)) (l : List α) (hls : ls = pre ++ l :: post)
    (hpre : ∀ x ∈ pre, x.filter isO = []) (hpost : ∀ x ∈ post, x.filter isO = []) :
    obs.filter isO = l.filter isO := by
  have hf := inter_filter isO ls obs h
  refine inter_single _ _ hf (pre.map (·.filter isO)) (post.map (·.filter isO)) (l.filter isO) (by rw [hls]; simp) ?_ ?_
  · intro x hx; simp only [List.mem_map] at hx; obtain ⟨y, hy, rfl⟩ := hx; exact hpre y hy
  · intro x hx; simp only [List.mem_map] at hx; obtain ⟨y, hy, rfl⟩ := hx; exact hpost y hy

/-- and as multisets nothing is lost or duplicated -/
theorem workers_same_multiset {α : Type} (ls : List (List α)) (obs : List α) (h : Inter ls obs) :
    obs.Perm ls.flatten := inter_perm ls obs h

/-- non-vacuity: two workers, three operations, an actual interleaving -/
example : Inter [[(1, 10), (1, 11), (3, 30)], [(2, 20)]] [(1, 10), (2, 20), (1, 11), (3, 30)] := by
  refine Inter.take [] [[(2, 20)]] _ _ _ ?_
  refine Inter.take [[(1, 11), (3, 30)]] [] _ _ _ ?_
  refine Inter.take [] [[]] _ _ _ ?_
  refine Inter.take [] [[]] _ _ _ ?_
  exact Inter.done _ (by simp)

end SV.Props.C13
