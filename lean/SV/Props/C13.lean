/-
  C13 — a fixed seed reproduces the same sequence of requests.  Property theorems only.
-/
import SV.Model.C13
import SV.Generated.C13
import SV.Proofs.C13

namespace SV.Props.C13
open SV.Model.C13 SV.Spec.C13 SV.Proofs.C13

/-! ### what the source says about its entropy sites (table regenerated on every run) -/

def classOf (s : String × String × String × String × String × String) : Source := Source.ofString s.2.2.2.2.1
def phaseOf (s : String × String × String × String × String × String) : String := s.2.2.2.2.2

/-- every generation site found in the source is one the rules know -/
theorem all_sites_classified :
    (SV.Generated.C13.sites.all fun s => classOf s != .unclassified) = true := by decide

/-- the per-operation Hypothesis test of the unit phases is seeded from the configured seed -/
theorem unit_phases_seeded_from_config :
    (SV.Generated.C13.sites.any fun s =>
      s.1 == "generation/hypothesis/builder.py" && s.2.1 == "create_test" && s.2.2.1 == "hypothesis.seed" &&
      s.2.2.2.1 == "config.seed") = true := by decide

/-- the stateful state machine is seeded from the configured seed (incremented per suite) -/
theorem stateful_seeded :
    (SV.Generated.C13.sites.any fun s =>
      s.1 == "engine/phases/stateful/_executor.py" && s.2.2.1 == "hypothesis.seed" && s.2.2.2.1 == "seed") = true := by
  decide

/-- every site of the fuzzing / stateful machinery is deterministic given the seed -/
theorem fuzzing_and_stateful_sites_deterministic :
    (SV.Generated.C13.sites.all fun s =>
      !(phaseOf s == "unit" || phaseOf s == "stateful") || (classOf s).deterministic) = true := by decide

/-- the explicit single-example draws of the examples and coverage phases are either all derandomized (repaired) or all
    of the "simplest example first" kind (pinned snapshot) — never a mixture, never unclassified -/
theorem single_example_sites_uniform :
    (SV.Generated.C13.sites.all fun s =>
      !(phaseOf s == "coverage" || phaseOf s == "examples") || classOf s == .envSeed ||
        classOf s == (if SV.Generated.C13.generateOneDerandomized then .derandomized else .simplestFirst)) = true := by
  decide

/-! ### non-interference: deterministic sites make the request sequence a function of the seed -/

theorem flatMap_congr_sites (g : Gen) (hg : Honest g) (sites : List Source)
    (hs : ∀ s ∈ sites, s.deterministic = true) (seed : Seed) (e1 e2 : Env) (op : Op) :
    (sites.flatMap fun src => g src seed e1 op) = (sites.flatMap fun src => g src seed e2 op) := by
  induction sites with
  | nil => rfl
  | cons s rest ih =>
    simp only [List.flatMap_cons]
    rw [hg s (hs s (by simp)) seed e1 e2 op, ih (fun x hx => hs x (by simp [hx]))]

/-- **Same seed ⇒ same requests, whatever the rest of the process state is**, for any Hypothesis (`g`) that honours its
    seeding contract, provided every site of the phase is deterministic. -/
theorem same_seed_same_requests (g : Gen) (hg : Honest g) (sites : List Source)
    (hs : ∀ s ∈ sites, s.deterministic = true) (seed : Seed) (e1 e2 : Env) (ops : List Op) :
    sequential g sites seed e1 ops = sequential g sites seed e2 ops := by
  unfold sequential opRequests
  induction ops with
  | nil => rfl
  | cons op rest ih =>
    simp only [List.flatMap_cons]
    rw [flatMap_congr_sites g hg sites hs seed e1 e2 op, ih]

/-- the hypothesis is necessary: with one environment-dependent site two runs with the same seed can differ -/
theorem unseeded_site_breaks_it :
    ∃ (g : Gen), Honest g ∧ sequential g [.simplestFirst] 1 0 [7] ≠ sequential g [.simplestFirst] 1 1 [7] := by
  refine ⟨fun src _ env _ => if src.deterministic then [0] else [env], ?_, by decide⟩
  intro src h seed e1 e2 op
  simp [h]

/-! ### several workers: the order may change, the requests per operation may not -/

theorem inter_perm {α : Type} (ls : List (List α)) (r : List α) (h : Inter ls r) : r.Perm ls.flatten := by
  induction h with
  | done ls h =>
    have : ls.flatten = [] := by
      induction ls with
      | nil => rfl
      | cons l rest ih =>
        have hl := h l (by simp)
        subst hl
        simpa using ih (fun x hx => h x (by simp [hx]))
    rw [this]
  | take pre post x l r _ ih =>
    simp only [List.flatten_append, List.flatten_cons, List.cons_append] at *
    exact (List.Perm.cons x ih).trans (List.perm_middle.symm)

theorem inter_filter {α : Type} (p : α → Bool) (ls : List (List α)) (r : List α) (h : Inter ls r) :
    Inter (ls.map (·.filter p)) (r.filter p) := by
  induction h with
  | done ls h =>
    refine Inter.done _ ?_
    intro l hl
    simp only [List.mem_map] at hl
    obtain ⟨l0, h0, rfl⟩ := hl
    rw [h l0 h0]; rfl
  | take pre post x l r _ ih =>
    simp only [List.map_append, List.map_cons] at *
    by_cases hp : p x = true
    · simp only [List.filter_cons, hp, if_true]
      exact Inter.take _ _ _ _ _ ih
    · simp only [List.filter_cons, hp]
      exact ih

/-- an interleaving in which at most one list is non-empty is that list -/
theorem inter_single {α : Type} (ls : List (List α)) (r : List α) (h : Inter ls r) (pre post : List (List α)) (l : List α)
    (hls : ls = pre ++ l :: post) (hpre : ∀ x ∈ pre, x = []) (hpost : ∀ x ∈ post, x = []) : r = l := by
  induction h generalizing pre post l with
  | done ls h => subst hls; exact (h l (by simp)).symm
  | take pre' post' x l' r _ ih =>
    -- the non-empty list `x :: l'` must be `l`
    have hmem : (x :: l') ∈ pre ++ l :: post := by rw [← hls]; simp
    simp only [List.mem_append, List.mem_cons] at hmem
    rcases hmem with hm | hm | hm
    · exact absurd (hpre _ hm) (by simp)
    · subst hm
      -- positions agree: everything else is empty on both sides
      have key : ∀ (a b c d : List (List α)) (u : List α), a ++ u :: b = c ++ u :: d → u ≠ [] →
          (∀ y ∈ c, y = []) → (∀ y ∈ d, y = []) → a = c ∧ b = d := by
        intro a b c d u heq hne hc hd
        induction a generalizing c with
        | nil =>
          cases c with
          | nil => simp at heq; exact ⟨rfl, heq⟩
          | cons y c' =>
            simp at heq
            exact absurd (hc y (by simp)) (by rw [← heq.1]; exact hne)
        | cons z a' iha =>
          cases c with
          | nil =>
            simp at heq
            obtain ⟨h1, h2⟩ := heq
            subst h1
            have : z ∈ d := by rw [← h2]; simp
            exact absurd (hd z this) hne
          | cons y c' =>
            simp at heq
            obtain ⟨h1, h2⟩ := heq
            obtain ⟨h3, h4⟩ := iha c' h2 (fun y hy => hc y (by simp [hy]))
            exact ⟨by rw [h1, h3], h4⟩
      obtain ⟨h1, h2⟩ := key pre' post' pre post (x :: l') hls (by simp) hpre hpost
      subst h1 h2
      rw [ih pre' post' l' rfl hpre hpost]
    · exact absurd (hpost _ hm) (by simp)

/-- **Per-operation requests are independent of the number of workers and of the interleaving**: if the requests of
    operation `o` are all produced by one worker (each operation is taken from the producer exactly once), then in any
    interleaving of the workers' streams the sub-sequence addressed to `o` is exactly that worker's. -/
theorem per_operation_requests_preserved {α : Type} (isO : α → Bool) (ls : List (List α)) (obs : List α)
    (h : Inter ls obs) (pre post : List (List α)) (l : List α) (hls : ls = pre ++ l :: post)
    (hpre : ∀ x ∈ pre, x.filter isO = []) (hpost : ∀ x ∈ post, x.filter isO = []) :
    obs.filter isO = l.filter isO := by
  have hf := inter_filter isO ls obs h
  refine inter_single _ _ hf (pre.map (·.filter isO)) (post.map (·.filter isO)) (l.filter isO) (by rw [hls]; simp) ?_ ?_
  · intro x hx; simp only [List.mem_map] at hx; obtain ⟨y, hy, rfl⟩ := hx; exact hpre y hy
  · intro x hx; simp only [List.mem_map] at hx; obtain ⟨y, hy, rfl⟩ := hx; exact hpost y hy

/-- and as multisets nothing is lost or duplicated -/
theorem workers_same_multiset {α : Type} (ls : List (List α)) (obs : List α) (h : Inter ls obs) :
    obs.Perm ls.flatten := inter_perm ls obs h

/-- non-vacuity: two workers, three operations, an actual interleaving -/
example : Inter [[(1, 10), (1, 11), (3, 30)], [(2, 20)]] [(1, 10), (2, 20), (1, 11), (3, 30)] := by
  refine Inter.take [] [[(2, 20)]] _ _ _ ?_
  refine Inter.take [[(1, 11), (3, 30)]] [] _ _ _ ?_
  refine Inter.take [] [[]] _ _ _ ?_
  refine Inter.take [] [[]] _ _ _ ?_
  exact Inter.done _ (by simp)

/-! ### the state that workers share: lazily initialised members of the schema object

The theorems above take the requests of an operation as given.  What a worker obtains from the schema object while
the other workers are running is covered here: `lrun` is the transition system of workers asking for a lazily built
cell (check / build / publish, optionally under a lock), over every schedule. -/

/-- **Publish after build (or build under the readers' lock) ⇒ every worker finds the complete object**, for every
    number of workers and every interleaving of their steps. -/
theorem lazy_cell_every_worker_sees_the_built_value (c : LCfg) (hc : c.parts ≤ c.publishAt ∨ c.locked = true)
    (sched : List Tid) : CellSafe c (lrun c sched) :=
  (lrun_inv c hc sched).done_full

/-- the hypothesis is necessary: `self._x = obj` before the loop that fills `obj`, no lock — the second worker finds the
    attribute set, uses the object and sees none of its two parts -/
theorem publish_before_build_unsafe :
    (lrun ⟨2, 0, false⟩ [0, 0, 1, 1]).pc 1 = .done 0 ∧ ¬ CellSafe ⟨2, 0, false⟩ (lrun ⟨2, 0, false⟩ [0, 0, 1, 1]) := by
  have h : (lrun ⟨2, 0, false⟩ [0, 0, 1, 1]).pc 1 = .done 0 := by decide
  exact ⟨h, fun hs => absurd (hs 1 0 h) (by decide)⟩

/-- the same early assignment is harmless when the guarded block runs under a lock that readers take too -/
theorem publish_before_build_under_lock_safe (sched : List Tid) : CellSafe ⟨2, 0, true⟩ (lrun ⟨2, 0, true⟩ sched) :=
  lazy_cell_every_worker_sees_the_built_value _ (Or.inr rfl) sched

/-- two workers may both find the attribute missing and both build: each still ends with a complete object -/
example : (lrun ⟨2, 2, false⟩ [0, 1, 0, 1, 0, 1, 0, 1, 0, 1, 0, 1]).pc 0 = .done 2 ∧
    (lrun ⟨2, 2, false⟩ [0, 1, 0, 1, 0, 1, 0, 1, 0, 1, 0, 1]).pc 1 = .done 2 := by decide

/-- every lazily initialised member found in the source assigns `self._x` after the object is built, or under a lock -/
theorem lazy_members_publish_after_build_or_locked :
    (SV.Generated.C13Shared.lazyMembers.all fun (m : LazyRow) => m.publishAfterBuild || m.lock != "") = true := by decide

/-- the table is about the members the workers use: the converted components and the resolver are in it -/
theorem lazy_members_table_covers_components_and_resolver :
    (SV.Generated.C13Shared.lazyMembers.any fun (m : LazyRow) => m.member == "_rewritten_components") = true ∧
    (SV.Generated.C13Shared.lazyMembers.any fun (m : LazyRow) => m.member == "_resolver") = true := by decide

/-- table and transition system together: for every lazily initialised member of the schema object as it is written in
    the source, under every schedule, every worker that uses it finds it completely built -/
theorem every_lazy_member_is_cell_safe (m : LazyRow) (hm : m ∈ SV.Generated.C13Shared.lazyMembers) (sched : List Tid) :
    CellSafe m.cfg (lrun m.cfg sched) := by
  have hall := lazy_members_publish_after_build_or_locked
  rw [List.all_eq_true] at hall
  have h := hall m hm
  refine lazy_cell_every_worker_sees_the_built_value _ ?_ sched
  simp only [LazyRow.cfg]
  cases hp : m.publishAfterBuild
  · right; simpa [hp] using h
  · left; simp

/-! ### the state that workers share: the resolver's stack of resolution scopes -/

/-- **Lock held during resolution ⇒ every thread reads its own scope.**  If every access to the shared stack (pushes,
    pops, reads of the current scope, reads of the whole stack for the cache key) is made by the thread that holds the
    lock, and a thread leaves the stack as it found it when it lets the lock go, then in every interleaving every read
    returns exactly what it returns when the thread has the stack for itself. -/
theorem locked_stack_reads_own_scope (base : List Scope) (tr : List SEv) (h : disc base none base tr = true) :
    sharedObs base tr = privObs (fun _ => base) tr :=
  disc_obs base tr none base (fun _ => base) h ⟨rfl, fun _ => rfl⟩

/-- non-vacuity: two threads, nested resolution, re-entered lock -/
example : disc [0] none [0]
    [(0, .acq), (0, .readAll), (0, .readTop), (0, .push 5), (0, .acq), (0, .readTop), (0, .push 6), (0, .pop), (0, .rel),
     (0, .pop), (0, .rel), (1, .acq), (1, .readAll), (1, .readTop), (1, .push 7), (1, .pop), (1, .rel)] = true := by decide

/-- the lock is taken for the cache lookup only and released while the reference is resolved: the second thread resolves
    its relative reference against the first thread's scope -/
theorem lock_released_during_resolution_reads_foreign_scope :
    let tr : List SEv := [(0, .acq), (0, .rel), (0, .readTop), (0, .push 5), (1, .acq), (1, .rel), (1, .readTop),
                          (1, .push 7), (1, .pop), (0, .pop)]
    disc [0] none [0] tr = false ∧ sharedObs [0] tr = [(0, [0]), (1, [5])] ∧
      privObs (fun _ => [0]) tr = [(0, [0]), (1, [0])] := by decide

/-- the cache key is computed from the stack before the lock is taken: it is computed from the other thread's scopes -/
theorem key_read_before_lock_reads_foreign_scope :
    let tr : List SEv := [(0, .readAll), (0, .acq), (0, .readTop), (0, .push 5), (1, .readAll), (0, .pop), (0, .rel),
                          (1, .acq), (1, .readTop), (1, .push 7), (1, .pop), (1, .rel)]
    disc [0] none [0] tr = false ∧ sharedObs [0] tr = [(0, [0]), (0, [0]), (1, [5, 0]), (1, [0])] ∧
      privObs (fun _ => [0]) tr = [(0, [0]), (0, [0]), (1, [0]), (1, [0])] := by decide

/-- a second code path (the iteration over operations) moves the stack without that lock: a thread that does hold the
    lock still resolves against the iterating thread's scope -/
theorem second_path_without_the_lock_reads_foreign_scope :
    let tr : List SEv := [(0, .push 9), (1, .acq), (1, .readTop), (1, .push 7), (1, .pop), (1, .rel), (0, .pop)]
    disc [0] none [0] tr = false ∧ sharedObs [0] tr = [(1, [9])] ∧ privObs (fun _ => [0]) tr = [(1, [0])] := by decide

/-- in `_rewrite_references` every access that resolves a reference or moves the scope stack is made under one and the
    same lock (the reads of `_scopes_stack` for the cache key are the subject of the next theorem) -/
theorem inlining_resolution_under_one_lock :
    SV.Generated.C13Shared.inliningLock != "" ∧
    (SV.Generated.C13Shared.resolverSites.all fun s =>
      !(isInlining s.1 && touchesStack s.2.1 && s.2.1 != "_scopes_stack") ||
        s.2.2 == SV.Generated.C13Shared.inliningLock) = true ∧
    (SV.Generated.C13Shared.resolverSites.any fun s => isInlining s.1 && s.2.1 == "resolving") = true := by decide

/-- every access to the shared resolver is under that lock, or belongs to one of the two classes that the source as found
    leaves outside it (the key computation; the users other than inlining) — uniformly per class, never a mixture -/
theorem resolver_sites_uniform :
    (SV.Generated.C13Shared.resolverSites.all fun s =>
      !touchesStack s.2.1 || s.2.2 == SV.Generated.C13Shared.inliningLock ||
        (isInlining s.1 && s.2.1 == "_scopes_stack" && !SV.Generated.C13Shared.keyReadUnderLock && s.2.2 == "") ||
        (!isInlining s.1 && !SV.Generated.C13Shared.otherSitesUnderLock && s.2.2 == "")) = true := by decide

end SV.Props.C13
