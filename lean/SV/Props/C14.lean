/-
  C14 — configured credentials and overrides reach every request.  Property theorems only.
-/
import SV.Model.C14
import SV.Spec.C14
import SV.Proofs.C14

namespace SV.Props.C14
open SV.Model.C14 SV.Spec.C14 SV.Proofs.C14

/-! ### the merge chain: the user's value wins -/

/-- `d.update(other)`: every key of `other` ends up with the value of its last binding in `other`
    (`add_coverage`, stateful `before_call`: the override is written over the generated container) -/
theorem update_wins (d other : Dict) (k : Key) (v : String) (h : lastIn k other = some v) :
    dlookup k (dupdate d other) = some v := by
  rw [update_spec, h]

/-- keys the update list does not mention keep their value: an explicit (user) value survives the merge with
    whatever was generated for the remaining parameters (`get_parameters_value`) -/
theorem update_keeps (d other : Dict) (k : Key) (hno : lastIn k other = none) :
    dlookup k (dupdate d other) = dlookup k d := by
  rw [update_spec, hno]

theorem explicit_survives_merge (explicit : Dict) (generated : Option Dict) (k : Key)
    (hdisj : ∀ g, generated = some g → ∀ kv ∈ g, (k == kv.1) = false) :
    dlookup k (mergeExplicit explicit generated) = dlookup k explicit := by
  cases generated with
  | none => rfl
  | some g => exact update_keeps explicit g k (lastIn_none_of_absent k g (hdisj g rfl))

theorem override_wins (container : Dict) (override : Dict) (k : Key) (v : String)
    (h : lastIn k override = some v) : dlookup k (applyOverride (some container) override) = some v :=
  update_wins container override k v h

/-! ### CaseInsensitiveDict -/

/-- **`prepare_headers`: every user-configured header is on the request with the user's value**, in whatever
    spelling the case or the user wrote the name, and whatever the case itself carries under that name -/
theorem prepare_headers_user_wins (caseHeaders : Option Dict) (user : Dict) (ua cid : String) (k : Key) (v : String)
    (h : lastInCI k user = some v) :
    lookupCI k (prepareHeaders caseHeaders (some user) ua cid) = some v := by
  unfold prepareHeaders
  have hne : user.isEmpty = false := by
    cases user with
    | nil => simp [lastInCI] at h
    | cons _ _ => rfl
  simp only [hne, Bool.false_eq_true, if_false]
  apply lookupCI_setdefault
  apply lookupCI_setdefault
  rw [updateCI_spec, h]

/-- without a user value, what the case carries stays -/
theorem prepare_headers_keeps_case (caseHeaders : Dict) (user : Option Dict) (ua cid : String) (k : Key) (v : String)
    (h : lastInCI k caseHeaders = some v) (hu : ∀ u, user = some u → lastInCI k u = none) :
    lookupCI k (prepareHeaders (some caseHeaders) user ua cid) = some v := by
  unfold prepareHeaders
  apply lookupCI_setdefault
  apply lookupCI_setdefault
  have hc : lookupCI k (updateCI [] caseHeaders) = some v := by rw [updateCI_spec, h]
  cases user with
  | none => exact hc
  | some u =>
    simp only
    split
    · exact hc
    · rw [updateCI_spec, hu u rfl]; exact hc

/-- `get_strategy_kwargs` passes every configured header except User-Agent on to the generators -/
theorem strategy_headers_complete (config : Dict) (k : Key) (v : String) (h : (k, v) ∈ config)
    (hua : lower k ≠ lower userAgent) : (k, v) ∈ strategyHeaders config := by
  unfold strategyHeaders
  exact List.mem_filter.2 ⟨h, by simpa using hua⟩

/-! ### auth storages -/

theorem test_storage_first (t schema global : List (Option Nat)) : chooseStorage (some t) schema global = some t := rfl

theorem schema_storage_before_global (schema global : List (Option Nat)) (h : schema ≠ []) :
    chooseStorage none schema global = some schema := by
  cases schema with
  | nil => exact absurd rfl h
  | cons _ _ => rfl

theorem first_with_data_spec (ps : List (Option Nat)) (i d : Nat) (h : firstWithData ps = some (i, d)) :
    ps[i]? = some (some d) ∧ ∀ j, j < i → ps[j]? = some none := by
  induction ps generalizing i with
  | nil => simp [firstWithData] at h
  | cons p r ih =>
    cases p with
    | some x =>
      simp [firstWithData] at h
      obtain ⟨rfl, rfl⟩ := h
      simp
    | none =>
      simp only [firstWithData, Option.map_eq_some_iff] at h
      obtain ⟨⟨i', d'⟩, hr, heq⟩ := h
      simp at heq
      obtain ⟨rfl, rfl⟩ := heq
      obtain ⟨h1, h2⟩ := ih i' hr
      refine ⟨by simpa using h1, ?_⟩
      intro j hj
      cases j with
      | zero => rfl
      | succ j => simpa using h2 j (by omega)

/-! ### the auth cache: at most one fetch per refresh interval, for all interleavings and clock advances -/

/-- consecutive fetches are at least `interval` apart (newest first) -/
def Spaced (interval : Nat) : List Nat → Prop
  | [] => True
  | [_] => True
  | a :: b :: r => a ≥ b + interval ∧ Spaced interval (b :: r)

def Settled (s : CacheSt) : Prop :=
  match s.entry with
  | none => s.fetches = []
  | some e => ∃ f rest, s.fetches = f :: rest ∧ e.expires ≥ f + s.interval

structure CacheInv (s : CacheSt) : Prop where
  spaced : Spaced s.interval s.fetches
  past : ∀ f ∈ s.fetches, f ≤ s.clock
  unlocked : s.lock = false → ∀ t ∈ s.threads, t.critical = false
  one : ∀ l t r, s.threads = l ++ t :: r → t.critical = true →
          (∀ x ∈ l, x.critical = false) ∧ (∀ x ∈ r, x.critical = false)
  held : (∃ t ∈ s.threads, t.critical = true) → s.lock = true
  settled : (∀ t ∈ s.threads, t.busyFetching = false) → Settled s
  busy : (∃ t ∈ s.threads, t.busyFetching = true) → s.fetches ≠ []

theorem mem_split_cases {α} (l r l' r' : List α) (a b : α) (h : l ++ a :: r = l' ++ b :: r') :
    (l = l' ∧ a = b ∧ r = r') ∨ (∃ m, l' = l ++ a :: m ∧ r = m ++ b :: r') ∨ (∃ m, l = l' ++ b :: m ∧ r' = m ++ a :: r) := by
  rcases List.append_eq_append_iff.1 h with ⟨c, h1, h2⟩ | ⟨c, h1, h2⟩
  · cases c with
    | nil => simp at h1 h2; left; exact ⟨h1.symm, h2.1, h2.2⟩
    | cons x c => simp at h2; right; left; exact ⟨c, by rw [h1, h2.1], h2.2⟩
  · cases c with
    | nil => simp at h1 h2; left; exact ⟨h1, h2.1.symm, h2.2.symm⟩
    | cons x c => simp at h2; right; right; exact ⟨c, by rw [h1, h2.1], h2.2⟩

/-- replacing one non-critical thread state by another non-critical one changes nothing the invariant looks at -/
theorem inv_swap_noncritical (s : CacheSt) (l r : List TPc) (t t' : TPc) (h : s.threads = l ++ t :: r)
    (ht : t.critical = false) (ht' : t'.critical = false) (inv : CacheInv s) :
    CacheInv { s with threads := l ++ t' :: r } := by
  have hb : t.busyFetching = false := by cases t <;> simp_all [TPc.critical, TPc.busyFetching]
  have hb' : t'.busyFetching = false := by cases t' <;> simp_all [TPc.critical, TPc.busyFetching]
  have memOld : ∀ x, x ∈ l ++ t' :: r → x = t' ∨ x ∈ s.threads := by
    intro x hx; simp at hx; rcases hx with hx | rfl | hx
    · right; rw [h]; simp [hx]
    · left; rfl
    · right; rw [h]; simp [hx]
  refine ⟨inv.spaced, inv.past, ?_, ?_, ?_, ?_, ?_⟩
  · intro hl x hx
    rcases memOld x hx with rfl | hx
    · exact ht'
    · exact inv.unlocked hl x hx
  · intro l2 t2 r2 heq hc
    simp only at heq
    rcases mem_split_cases _ _ _ _ _ _ heq with ⟨rfl, rfl, rfl⟩ | ⟨m, rfl, rfl⟩ | ⟨m, rfl, rfl⟩
    · rw [ht'] at hc; cases hc
    · have := inv.one (l ++ t :: m) t2 r2 (by rw [h]; simp) hc
      constructor
      · intro x hx; simp at hx; rcases hx with hx | rfl | hx
        · exact this.1 x (by simp [hx])
        · exact ht'
        · exact this.1 x (by simp [hx])
      · exact this.2
    · have := inv.one l2 t2 (m ++ t :: r) (by rw [h]; simp) hc
      constructor
      · exact this.1
      · intro x hx; simp at hx; rcases hx with hx | rfl | hx
        · exact this.2 x (by simp [hx])
        · exact ht'
        · exact this.2 x (by simp [hx])
  · intro ⟨x, hx, hc⟩
    rcases memOld x hx with rfl | hx
    · rw [ht'] at hc; cases hc
    · exact inv.held ⟨x, hx, hc⟩
  · intro hall
    have : ∀ x ∈ s.threads, x.busyFetching = false := by
      intro x hx; rw [h] at hx; simp at hx; rcases hx with hx | rfl | hx
      · exact hall x (by simp [hx])
      · exact hb
      · exact hall x (by simp [hx])
    exact inv.settled this
  · intro ⟨x, hx, hc⟩
    rcases memOld x hx with rfl | hx
    · rw [hb'] at hc; cases hc
    · exact inv.busy ⟨x, hx, hc⟩

theorem spaced_cons (interval a : Nat) (l : List Nat) (h : Spaced interval l)
    (ha : ∀ b r, l = b :: r → a ≥ b + interval) : Spaced interval (a :: l) := by
  cases l with
  | nil => trivial
  | cons b r => exact ⟨ha b r rfl, h⟩

theorem cacheInv_step (s s' : CacheSt) (h : CStep s s') (inv : CacheInv s) : CacheInv s' := by
  cases h with
  | tick d =>
    exact ⟨inv.spaced, fun f hf => Nat.le_trans (inv.past f hf) (Nat.le_add_right _ _), inv.unlocked, inv.one,
           inv.held, inv.settled, inv.busy⟩
  | call l r h => exact inv_swap_noncritical s l r _ _ h rfl rfl inv
  | check1 l r e h =>
    refine inv_swap_noncritical s l r _ _ h rfl ?_ inv
    split
    · rfl
    · split <;> rfl
  | again l r d h => exact inv_swap_noncritical s l r _ _ h rfl rfl inv
  | acquire l r h hl =>
    have hnc := inv.unlocked hl
    have hall : ∀ x ∈ l ++ TPc.locked :: r, x = .locked ∨ x.critical = false := by
      intro x hx; simp at hx; rcases hx with hx | rfl | hx
      · right; exact hnc x (by rw [h]; simp [hx])
      · left; rfl
      · right; exact hnc x (by rw [h]; simp [hx])
    refine ⟨inv.spaced, inv.past, by simp, ?_, fun _ => rfl, ?_, ?_⟩
    · intro l2 t2 r2 heq hc
      simp only at heq
      rcases mem_split_cases _ _ _ _ _ _ heq with ⟨rfl, rfl, rfl⟩ | ⟨m, rfl, rfl⟩ | ⟨m, rfl, rfl⟩
      · exact ⟨fun x hx => hnc x (by rw [h]; simp [hx]), fun x hx => hnc x (by rw [h]; simp [hx])⟩
      · have := hnc t2 (by rw [h]; simp); rw [this] at hc; cases hc
      · have := hnc t2 (by rw [h]; simp); rw [this] at hc; cases hc
    · intro _
      have : ∀ x ∈ s.threads, x.busyFetching = false := by
        intro x hx; have := hnc x hx; cases x <;> simp_all [TPc.critical, TPc.busyFetching]
      exact inv.settled this
    · intro ⟨x, hx, hc⟩
      rcases hall x hx with rfl | h2
      · simp [TPc.busyFetching] at hc
      · cases x <;> simp_all [TPc.critical, TPc.busyFetching]
  | check2Hit l r x h he hx =>
    have hone := inv.one l .locked r h rfl
    have hnc : ∀ y ∈ l ++ TPc.done x.data :: r, y.critical = false := by
      intro y hy; simp at hy; rcases hy with hy | rfl | hy
      · exact hone.1 y hy
      · rfl
      · exact hone.2 y hy
    refine ⟨inv.spaced, inv.past, fun _ => hnc, ?_, ?_, ?_, ?_⟩
    · intro l2 t2 r2 heq hc
      have := hnc t2 (by simp only at heq; rw [heq]; simp); rw [this] at hc; cases hc
    · intro ⟨y, hy, hc⟩; have := hnc y hy; rw [this] at hc; cases hc
    · intro _
      have : ∀ y ∈ s.threads, y.busyFetching = false := by
        intro y hy; rw [h] at hy; simp at hy; rcases hy with hy | rfl | hy
        · have := hone.1 y hy; cases y <;> simp_all [TPc.critical, TPc.busyFetching]
        · rfl
        · have := hone.2 y hy; cases y <;> simp_all [TPc.critical, TPc.busyFetching]
      exact inv.settled this
    · intro ⟨y, hy, hc⟩; have := hnc y hy; cases y <;> simp_all [TPc.critical, TPc.busyFetching]
  | check2Miss l r h hx =>
    have hone := inv.one l .locked r h rfl
    have hlock : s.lock = true := inv.held ⟨.locked, by rw [h]; simp, rfl⟩
    have hsettled : Settled s := by
      apply inv.settled
      intro y hy; rw [h] at hy; simp at hy; rcases hy with hy | rfl | hy
      · have := hone.1 y hy; cases y <;> simp_all [TPc.critical, TPc.busyFetching]
      · rfl
      · have := hone.2 y hy; cases y <;> simp_all [TPc.critical, TPc.busyFetching]
    refine ⟨?_, ?_, ?_, ?_, fun _ => hlock, ?_, by simp⟩
    · apply spaced_cons _ _ _ inv.spaced
      intro b rest hb
      unfold Settled at hsettled
      cases he : s.entry with
      | none => rw [he] at hsettled; simp only at hsettled; rw [hsettled] at hb; cases hb
      | some e =>
        rw [he] at hsettled; simp only at hsettled
        obtain ⟨f, rest', hf, hexp⟩ := hsettled
        rw [hf] at hb; cases hb
        have : s.clock ≥ e.expires := by simpa [expired, he] using hx
        omega
    · intro f hf; simp at hf; rcases hf with rfl | hf
      · exact Nat.le_refl _
      · exact inv.past f hf
    · intro hl; rw [hlock] at hl; cases hl
    · intro l2 t2 r2 heq hc
      simp only at heq
      rcases mem_split_cases _ _ _ _ _ _ heq with ⟨rfl, rfl, rfl⟩ | ⟨m, rfl, rfl⟩ | ⟨m, rfl, rfl⟩
      · exact hone
      · have := hone.2 t2 (by simp); rw [this] at hc; cases hc
      · have := hone.1 t2 (by simp); rw [this] at hc; cases hc
    · intro hall
      have := hall .fetching (by simp)
      simp [TPc.busyFetching] at this
  | fetched l r d h =>
    have hone := inv.one l .fetching r h rfl
    have hlock : s.lock = true := inv.held ⟨.fetching, by rw [h]; simp, rfl⟩
    refine ⟨inv.spaced, inv.past, ?_, ?_, fun _ => hlock, ?_, ?_⟩
    · intro hl; rw [hlock] at hl; cases hl
    · intro l2 t2 r2 heq hc
      simp only at heq
      rcases mem_split_cases _ _ _ _ _ _ heq with ⟨rfl, rfl, rfl⟩ | ⟨m, rfl, rfl⟩ | ⟨m, rfl, rfl⟩
      · exact hone
      · have := hone.2 t2 (by simp); rw [this] at hc; cases hc
      · have := hone.1 t2 (by simp); rw [this] at hc; cases hc
    · intro hall
      have := hall (.gotData d) (by simp)
      simp [TPc.busyFetching] at this
    · intro _; exact inv.busy ⟨.fetching, by rw [h]; simp, rfl⟩
  | store l r d h =>
    have hone := inv.one l (.gotData d) r h rfl
    have hnc : ∀ y ∈ l ++ TPc.done d :: r, y.critical = false := by
      intro y hy; simp at hy; rcases hy with hy | rfl | hy
      · exact hone.1 y hy
      · rfl
      · exact hone.2 y hy
    have hne := inv.busy ⟨.gotData d, by rw [h]; simp, rfl⟩
    refine ⟨inv.spaced, inv.past, fun _ => hnc, ?_, ?_, ?_, ?_⟩
    · intro l2 t2 r2 heq hc
      have := hnc t2 (by simp only at heq; rw [heq]; simp); rw [this] at hc; cases hc
    · intro ⟨y, hy, hc⟩; have := hnc y hy; rw [this] at hc; cases hc
    · intro _
      unfold Settled
      simp only
      cases hf : s.fetches with
      | nil => exact absurd hf hne
      | cons f rest =>
        refine ⟨f, rest, rfl, ?_⟩
        have := inv.past f (by rw [hf]; simp)
        omega
    · intro ⟨y, hy, hc⟩; have := hnc y hy; cases y <;> simp_all [TPc.critical, TPc.busyFetching]

/-- **C14 (auth cache): for every interleaving of any number of concurrent callers and every behaviour of the clock,
    any two consecutive calls of the underlying provider are at least `refresh_interval` apart.** -/
theorem cache_fetches_spaced (interval n : Nat) (s : CacheSt)
    (h : CReach { interval := interval, threads := List.replicate n .idle } s) : Spaced interval s.fetches := by
  have key : CacheInv s := by
    induction h with
    | refl =>
      refine ⟨trivial, by simp, ?_, ?_, ?_, fun _ => by simp [Settled], ?_⟩
      · intro _ t ht; simp [List.mem_replicate] at ht; rw [ht.2]; rfl
      · intro l t r heq hc
        have : t ∈ List.replicate n TPc.idle := by simp only at heq; rw [heq]; simp
        simp [List.mem_replicate] at this; rw [this.2] at hc; cases hc
      · intro ⟨t, ht, hc⟩; simp [List.mem_replicate] at ht; rw [ht.2] at hc; cases hc
      · intro ⟨t, ht, hc⟩; simp [List.mem_replicate] at ht; rw [ht.2] at hc; cases hc
    | step s s' _ hstep ih => exact cacheInv_step s s' hstep ih
  have hint : s.interval = interval := by
    clear key
    induction h with
    | refl => rfl
    | step s s' _ hstep ih => cases hstep <;> exact ih
  rw [← hint]
  exact key.spaced

/-- non-vacuity: two callers race; exactly one fetch happens, the loser returns the winner's token -/
example : ∃ s, CReach { interval := 300, threads := [.idle, .idle] } s ∧ s.fetches = [0] ∧
    s.threads = [.done 42, .done 42] := by
  refine ⟨{ interval := 300, threads := [.done 42, .done 42], fetches := [0], entry := some ⟨42, 300⟩ }, ?_, rfl, rfl⟩
  let s0 : CacheSt := { interval := 300, threads := [.idle, .idle] }
  have r1 := CReach.step _ _ (CReach.refl (s0 := s0)) (CStep.call s0 [] [.idle] rfl)
  have r2 := CReach.step _ _ r1 (CStep.call _ [.read1 none] [] rfl)
  have r3 := CReach.step _ _ r2 (CStep.check1 _ [] [.read1 none] none rfl)
  have r4 := CReach.step _ _ r3 (CStep.check1 _ [.wantLock] [] none rfl)
  have r5 := CReach.step _ _ r4 (CStep.acquire _ [] [.wantLock] rfl rfl)
  have r6 := CReach.step _ _ r5 (CStep.check2Miss _ [] [.wantLock] rfl rfl)
  have r7 := CReach.step _ _ r6 (CStep.fetched _ [] [.wantLock] 42 rfl)
  have r8 := CReach.step _ _ r7 (CStep.store _ [] [.wantLock] 42 rfl)
  have r9 := CReach.step _ _ r8 (CStep.acquire _ [.done 42] [] rfl rfl)
  have r10 := CReach.step _ _ r9 (CStep.check2Hit _ [.done 42] [] ⟨42, 300⟩ rfl rfl rfl)
  exact r10

/-! ### parameter overrides: which entries apply (`Override.for_operation`) -/

/-- **`for_operation` hands out exactly the applicable entries**: the name `n` gets the value `v` in location `l`
    iff the operation declares `n` in `l` and the user configured `n = v` for `l` — a same-named parameter of another
    location, or of a sibling operation on the same path, plays no role -/
theorem for_operation_exact (o : Overrides) (op : Op) (l : Loc) (n : Key) (v : String) :
    dlookup n (forOperation o op l) = some v ↔ Applies o op l n v := by
  rw [forOperation_lookup]
  unfold Applies
  by_cases h : (l, n) ∈ op.params <;> simp [h]

/-- nothing is handed out for a name the operation does not declare in that location -/
theorem for_operation_only_declared (o : Overrides) (op : Op) (l : Loc) (n : Key) (h : (l, n) ∉ op.params) :
    dlookup n (forOperation o op l) = none := by
  rw [forOperation_lookup]; simp [h]

/-- non-vacuity: `k` is declared as a header and as a query parameter; only the `--set-query` entry is configured -/
example : Applies (fun l => if l = .query then [("k".toList, "Q")] else [])
    ⟨"/r".toList, "get".toList, [(.headers, "k".toList), (.query, "k".toList)]⟩ .query "k".toList "Q" ∧
    ¬ Applies (fun l => if l = .query then [("k".toList, "Q")] else [])
    ⟨"/r".toList, "get".toList, [(.headers, "k".toList), (.query, "k".toList)]⟩ .headers "k".toList "Q" := by decide

/-! ### the stateful site (`before_call`) -/

/-- **stateful `before_call`: every applicable override is on the case with the user's value**, whatever the
    generators or the link produced for that name (query, cookies, path parameters) -/
theorem before_call_user_wins (o : Overrides) (op : Op) (case : Containers) (l : Loc) (n : Key) (v : String)
    (hl : l ≠ .headers) (h : Applies o op l n v) :
    ∃ c, beforeCall o op case l = some c ∧ dlookup n c = some v := by
  unfold beforeCall beforeCallWith
  rw [forOperation_nonempty o op l n v h]
  exact ⟨_, rfl, containerUpdate_plain_wins l _ _ n v hl (forOperation_lastIn o op l n v h)⟩

/-- the same for headers, read the way the transport reads them (`CaseInsensitiveDict(case.headers)[n]`) -/
theorem before_call_user_wins_headers (o : Overrides) (op : Op) (case : Containers) (n : Key) (v : String)
    (h : Applies o op .headers n v) (hc : HeaderConsistent o op n v)
    (hci : ∀ d, case .headers = some d → CIUnique d) :
    ∃ c, beforeCall o op case .headers = some c ∧ wireLookup .headers n c = some v := by
  unfold beforeCall beforeCallWith
  rw [forOperation_nonempty o op .headers n v h]
  refine ⟨_, rfl, ?_⟩
  have hlast := forOperation_lastInCI o op n v h hc
  have hlook : dlookup n (forOperation o op .headers) = some v := (for_operation_exact o op .headers n v).2 h
  have plain : wireLookup .headers n (dupdate [] (forOperation o op .headers)) = some v := by
    unfold wireLookup
    simp only
    rw [wire_headers_eq]
    apply lastInCI_of_consistent
    · exact dlookup_some_mem _ _ _ (update_wins _ _ _ _ (forOperation_lastIn o op .headers n v h))
    · intro k' v' hm he
      rcases mem_dupdate _ _ _ hm with hm | hm
      · simp at hm
      · exact hc k' v' (forOperation_mem o op .headers (k', v') hm) he
  unfold containerUpdate
  cases hcase : case .headers with
  | none => exact plain
  | some d =>
    simp only
    split
    · exact plain
    · unfold wireLookup
      simp only
      rw [wire_headers_eq, lastInCI_eq_lookupCI _ _ (ciunique_updateCI _ _ (hci d hcase)), updateCI_spec, hlast]

/-- **no invention**: a name the operation does not declare in a location keeps whatever the case had there
    (query, cookies, path parameters) -/
theorem before_call_no_invention (o : Overrides) (op : Op) (case : Containers) (l : Loc) (n : Key)
    (hl : l ≠ .headers) (h : (l, n) ∉ op.params) :
    dlookup n ((beforeCall o op case l).getD []) = dlookup n ((case l).getD []) := by
  have hnone : lastIn n (forOperation o op l) = none := by
    cases hx : lastIn n (forOperation o op l) with
    | none => rfl
    | some w => exact absurd (forOperation_mem o op l (n, w) (lastIn_some_mem _ _ _ hx)).1 h
  unfold beforeCall beforeCallWith
  split
  · rfl
  · simp only [Option.getD_some]
    unfold containerUpdate
    cases hcase : case l with
    | none => simp only [Option.getD_none]; exact update_keeps _ _ _ hnone
    | some d =>
      simp only [Option.getD_some]
      split
      · rename_i he
        rw [update_keeps _ _ _ hnone]
        cases d with
        | nil => rfl
        | cons _ _ => simp at he
      · cases l <;> first | exact absurd rfl hl | exact update_keeps _ _ _ hnone

/-- an operation without any applicable entry is left completely alone -/
theorem before_call_identity (o : Overrides) (op : Op) (case : Containers)
    (h : ∀ l n, (l, n) ∈ op.params → dlookup n (o l) = none) : beforeCall o op case = case := by
  funext l
  unfold beforeCall beforeCallWith
  have : forOperation o op l = [] := by
    cases hf : forOperation o op l with
    | nil => rfl
    | cons x r =>
      have hm := forOperation_mem o op l x (by rw [hf]; simp)
      have := h l x.1 hm.1
      rw [hm.2] at this; cases this
  simp [this]

/-! ### the unit-phase sites (`get_strategy_kwargs`, `merge_explicit`, `add_coverage`, `get_parameters_value`) -/

/-- `get_strategy_kwargs` passes every applicable override on — for headers only when no `--header` is configured
    (code as found) -/
theorem strategy_kwargs_carries_partial (o : Overrides) (op : Op) (net : Dict) (l : Loc) (n : Key) (v : String)
    (h : Applies o op l n v) (hside : l ≠ .headers ∨ net = []) :
    ∃ c, strategyKwargsWith .asFound (forOperation o op) net l = some c ∧ dlookup n c = some v := by
  have hne := forOperation_nonempty o op l n v h
  have hlook := (for_operation_exact o op l n v).2 h
  unfold strategyKwargsWith
  rcases hside with hl | hnet
  · cases l <;> first | exact absurd rfl hl | (simp only [hne]; exact ⟨_, rfl, hlook⟩)
  · subst hnet
    cases l <;> (simp only [hne, List.isEmpty_nil]; exact ⟨_, rfl, hlook⟩)

/-- FC14a, the code as found: with any `--header` configured the applicable `--set-header` entry is not passed on -/
theorem strategy_kwargs_carries_full_false :
    ∃ (o : Overrides) (op : Op) (net : Dict) (n : Key) (v : String), Applies o op .headers n v ∧
      ∃ c, strategyKwargsWith .asFound (forOperation o op) net .headers = some c ∧ dlookup n c = none :=
  ⟨fun l => if l = .headers then [("X-Key".toList, "USER")] else [], ⟨"/a".toList, "get".toList, [(.headers, "X-Key".toList)]⟩,
   [("X-B".toList, "1")], "X-Key".toList, "USER", by decide, _, rfl, by decide⟩

/-- … and the repaired form (`{**headers, **override}`) passes every applicable entry on, in every location -/
theorem strategy_kwargs_carries_repaired (o : Overrides) (op : Op) (net : Dict) (l : Loc) (n : Key) (v : String)
    (h : Applies o op l n v) :
    ∃ c, strategyKwargsWith .repaired (forOperation o op) net l = some c ∧ dlookup n c = some v := by
  have hne := forOperation_nonempty o op l n v h
  have hlook := (for_operation_exact o op l n v).2 h
  unfold strategyKwargsWith
  cases l <;> try (simp only [hne]; exact ⟨_, rfl, hlook⟩)
  simp only [hne]
  split
  · exact ⟨_, rfl, hlook⟩
  · exact ⟨_, rfl, update_wins _ _ _ _ (forOperation_lastIn o op .headers n v h)⟩

/-- what the unit phases hand to the generators never contains a name the operation does not declare there
    (apart from the configured `--header`s, which go to every operation) -/
theorem strategy_kwargs_no_invention (V : Variant) (o : Overrides) (op : Op) (net : Dict) (l : Loc) (n : Key)
    (hl : l ≠ .headers) (h : (l, n) ∉ op.params) :
    dlookup n ((strategyKwargsWith V (forOperation o op) net l).getD []) = none := by
  have hnone := for_operation_only_declared o op l n h
  unfold strategyKwargsWith
  cases l <;> first | exact absurd rfl hl | (simp only []; split <;> simp [dlookup, hnone])

/-- **every phase**: a request of the examples, coverage, fuzzing or stateful phase for an operation carries every
    applicable `--set-query`, `--set-cookie`, `--set-path` entry with the user's value, whatever the schema examples (`d.2`)
    and the generated / link-derived data (`d.1`) hold under that name.  (`hgen`: the generators were asked to
    leave explicitly given names out — `get_parameters_strategy(…, exclude=…)`.) -/
theorem every_phase_carries_override (V : Variant) (ph : Phase) (o : Overrides) (op : Op) (net : Dict)
    (d : Containers × Containers) (l : Loc) (n : Key) (v : String) (hl : l ≠ .headers) (h : Applies o op l n v)
    (hgen : ph = .fuzzing ∨ ph = .examples → ∀ g, d.1 l = some g → ∀ kv ∈ g, (n == kv.1) = false) :
    ∃ c, phaseContainers V ph net (forOperation o op) d l = some c ∧ dlookup n c = some v := by
  have hne := forOperation_nonempty o op l n v h
  have hlook := (for_operation_exact o op l n v).2 h
  have hlast := forOperation_lastIn o op l n v h
  have hkw : strategyKwargsWith V (forOperation o op) net l = some (forOperation o op l) := by
    unfold strategyKwargsWith
    cases l <;> first | exact absurd rfl hl | simp only [hne, Bool.false_eq_true, if_false]
  cases ph with
  | stateful => exact before_call_user_wins o op d.1 l n v hl h
  | coverage =>
    simp only [phaseContainers, coverageWith, hkw]
    cases d.1 l with
    | none => exact ⟨_, rfl, hlook⟩
    | some c => cases l <;> first | exact absurd rfl hl | exact ⟨_, rfl, update_wins _ _ _ _ hlast⟩
  | fuzzing =>
    simp only [phaseContainers, explicitMerge, hkw, hne, Bool.false_eq_true, if_false]
    refine ⟨_, rfl, ?_⟩
    rw [explicit_survives_merge _ _ _ (hgen (Or.inl rfl))]
    exact hlook
  | examples =>
    simp only [phaseContainers, explicitMerge, examplesMergeWith, hkw]
    cases d.2 l with
    | none =>
      simp only [hne, Bool.false_eq_true, if_false]
      refine ⟨_, rfl, ?_⟩
      rw [explicit_survives_merge _ _ _ (hgen (Or.inr rfl))]
      exact hlook
    | some e =>
      have hw : dlookup n (dupdate e (forOperation o op l)) = some v := update_wins _ _ _ _ hlast
      have hne2 : (dupdate e (forOperation o op l)).isEmpty = false := by
        cases hx : dupdate e (forOperation o op l) with
        | nil => rw [hx] at hw; simp [dlookup] at hw
        | cons _ _ => rfl
      simp only [hne2, Bool.false_eq_true, if_false]
      refine ⟨_, rfl, ?_⟩
      rw [explicit_survives_merge _ _ _ (hgen (Or.inr rfl))]
      exact hw

/-! ### sequences of requests: history independence -/

/-- **history independence (code as found, every site)**: over every sequence of prepared requests, what the site
    does for the k-th request depends only on the configuration and that request's own operation and data — never on
    the operations prepared before it -/
theorem site_history_independent {K α β : Type} [DecidableEq K] (o : Overrides) (f : Overrides → α → β)
    (c : List (K × Overrides)) (steps : List (Op × α)) :
    siteRun (.perCall : Resolver K) o f c steps = steps.map fun s => f (forOperation o s.1) s.2 := by
  induction steps generalizing c with
  | nil => rfl
  | cons s rest ih =>
    obtain ⟨op, a⟩ := s
    simp only [siteRun, resolve, List.map_cons]
    rw [ih]

/-- **"resolve once" rewrites**: a site that memoises `for_operation` under a key that determines the applicable
    entries (the operation itself, its label within one document, …) behaves like the per-call code on every
    sequence of requests -/
theorem site_memo_sound {K α β : Type} [DecidableEq K] (o : Overrides) (S : Op → Prop) (key : Op → K)
    (hk : KeySound o S key) (f : Overrides → α → β) (steps : List (Op × α)) (hS : ∀ s ∈ steps, S s.1) :
    siteRun (.memo key) o f [] steps = steps.map fun s => f (forOperation o s.1) s.2 := by
  suffices H : ∀ (c : List (K × Overrides)),
      (∀ k a, memoGet k c = some a → ∀ op', S op' → key op' = k → a = forOperation o op') →
      siteRun (.memo key) o f c steps = steps.map fun s => f (forOperation o s.1) s.2 from
    H [] (by intro k a hm; simp [memoGet] at hm)
  induction steps with
  | nil => intro c _; rfl
  | cons s rest ih =>
    intro c hc
    obtain ⟨op, a⟩ := s
    have hstep := memoGet_cons_ok o S key hk c op (hS (op, a) (by simp)) hc
    simp only [siteRun, List.map_cons]
    rw [hstep.1, ih (fun s hs => hS s (by simp [hs])) _ hstep.2]

/-- … and only then: a key that identifies two operations with different applicable entries changes what some
    sequence of requests gets -/
theorem site_memo_sound_iff {K : Type} [DecidableEq K] (o : Overrides) (S : Op → Prop) (key : Op → K) :
    (∀ steps : List (Op × Unit), (∀ s ∈ steps, S s.1) →
      siteRun (.memo key) o (fun a _ => a) [] steps = steps.map fun s => forOperation o s.1) ↔ KeySound o S key := by
  constructor
  · intro h op op' hS hS' hkey
    have := h [(op, ()), (op', ())] (by intro s hs; simp at hs; rcases hs with rfl | rfl <;> assumption)
    simp only [siteRun, resolve, memoGet, hkey, if_true, List.map_cons, List.map_nil, List.cons.injEq, and_true,
      true_and] at this
    exact this
  · intro hk steps hS
    exact site_memo_sound o S key hk _ steps hS

/-- keyed by the operation itself a memo table is always sound -/
theorem memo_by_operation_sound (o : Overrides) : KeySound o (fun _ => True) (fun op => op) := by
  intro op op' _ _ h; exact congrArg (forOperation o) h

/-- **stateful phase, every sequence of steps**: the k-th request carries every override that applies to its own
    operation, whichever operations (siblings on the same path template included) were called before it -/
theorem stateful_every_request_carries_override (o : Overrides) (steps : List (Op × Containers)) (k : Nat)
    (op : Op) (case : Containers) (hk : steps[k]? = some (op, case)) (l : Loc) (n : Key) (v : String)
    (hl : l ≠ .headers) (h : Applies o op l n v) :
    ∃ r c, (statefulRun (.perCall : Resolver Unit) o steps)[k]? = some r ∧ r l = some c ∧ dlookup n c = some v := by
  unfold statefulRun
  rw [site_history_independent]
  obtain ⟨c, hc1, hc2⟩ := before_call_user_wins o op case l n v hl h
  refine ⟨beforeCall o op case, c, ?_, hc1, hc2⟩
  simp [hk, beforeCall]

/-- … and a request for an operation that does not declare the name gets nothing invented, whatever ran before -/
theorem stateful_no_invention (o : Overrides) (steps : List (Op × Containers)) (k : Nat)
    (op : Op) (case : Containers) (hk : steps[k]? = some (op, case)) (l : Loc) (n : Key)
    (hl : l ≠ .headers) (h : (l, n) ∉ op.params) :
    ∃ r, (statefulRun (.perCall : Resolver Unit) o steps)[k]? = some r ∧
      dlookup n ((r l).getD []) = dlookup n ((case l).getD []) := by
  unfold statefulRun
  rw [site_history_independent]
  exact ⟨beforeCall o op case, by simp [hk, beforeCall], before_call_no_invention o op case l n hl h⟩

/-- **the seeded class: a memo table keyed by the path template is not history independent.**  `PATCH /users/{id}`
    (does not declare `api_key`) runs first; the `GET` on the same path that declares it then goes out without the
    user's `--set-query api_key=…` -/
theorem memo_by_path_loses_override :
    ∃ (o : Overrides) (steps : List (Op × Containers)) (k : Nat) (op : Op) (case : Containers) (n : Key) (v : String),
      steps[k]? = some (op, case) ∧ Applies o op .query n v ∧
      ((statefulRun (.memo Op.path) o steps)[k]?.bind fun r => (r .query).bind (dlookup n)) = none :=
  ⟨fun l => if l = .query then [("api_key".toList, "SECRET")] else [],
   [(⟨"/users/{id}".toList, "patch".toList, [(.path, "id".toList)]⟩, fun _ => none),
    (⟨"/users/{id}".toList, "get".toList, [(.path, "id".toList), (.query, "api_key".toList)]⟩, fun _ => none)],
   1, ⟨"/users/{id}".toList, "get".toList, [(.path, "id".toList), (.query, "api_key".toList)]⟩, fun _ => none,
   "api_key".toList, "SECRET", rfl, by decide, by decide⟩

/-- … and in the other order it *invents* nothing but leaks: the `GET` runs first, the `PATCH` that does not declare
    `api_key` is then sent with it -/
theorem memo_by_path_invents_override :
    ∃ (o : Overrides) (steps : List (Op × Containers)) (k : Nat) (op : Op) (case : Containers) (n : Key) (v : String),
      steps[k]? = some (op, case) ∧ (Loc.query, n) ∉ op.params ∧ (case .query).bind (dlookup n) = none ∧
      ((statefulRun (.memo Op.path) o steps)[k]?.bind fun r => (r .query).bind (dlookup n)) = some v :=
  ⟨fun l => if l = .query then [("api_key".toList, "SECRET")] else [],
   [(⟨"/users/{id}".toList, "get".toList, [(.path, "id".toList), (.query, "api_key".toList)]⟩, fun _ => none),
    (⟨"/users/{id}".toList, "patch".toList, [(.path, "id".toList)]⟩, fun _ => none)],
   1, ⟨"/users/{id}".toList, "patch".toList, [(.path, "id".toList)]⟩, fun _ => none,
   "api_key".toList, "SECRET", rfl, by decide, rfl, by decide⟩

/-- non-vacuity of the sequence theorems: the same two steps under the per-call code -/
example : ((statefulRun (.perCall : Resolver Unit) (fun l => if l = .query then [("api_key".toList, "SECRET")] else [])
    [(⟨"/users/{id}".toList, "patch".toList, [(.path, "id".toList)]⟩, fun _ => none),
     (⟨"/users/{id}".toList, "get".toList, [(.path, "id".toList), (.query, "api_key".toList)]⟩, fun _ => none)])[1]?.bind
      fun r => (r .query).bind (dlookup "api_key".toList)) = some "SECRET" := by decide

/-! ### non-vacuity of the hypotheses used above -/

/-- `HeaderConsistent` / `CIUnique` are satisfiable together with `Applies`: one `--set-header`, a generated header of
    the same name in another spelling -/
example :
    let o : Overrides := fun l => if l = .headers then [("X-Key".toList, "USER")] else []
    let op : Op := ⟨"/a".toList, "get".toList, [(.headers, "X-Key".toList)]⟩
    let case : Containers := fun l => if l = .headers then some [("x-key".toList, "generated")] else none
    Applies o op .headers "X-Key".toList "USER" ∧ HeaderConsistent o op "X-Key".toList "USER" ∧
    (∀ d, case .headers = some d → CIUnique d) ∧
    wireLookupO .headers "X-KEY".toList (beforeCall o op case .headers) = some "USER" := by
  refine ⟨by decide, ?_, ?_, by decide⟩
  · intro n' v' h _
    have h2 := h.2
    simp only [if_true, dlookup] at h2
    split at h2
    · simpa using h2.symm
    · cases h2
  · intro d hd
    simp only [if_true, Option.some.injEq] at hd
    subst hd
    simp [CIUnique]

/-- the hypotheses of `every_phase_carries_override` are satisfiable in the two phases that need `hgen` -/
example (ph : Phase) :
    let o : Overrides := fun l => if l = .query then [("api_key".toList, "USER")] else []
    let op : Op := ⟨"/a".toList, "get".toList, [(.query, "api_key".toList), (.query, "page".toList)]⟩
    let d : Containers × Containers := (fun l => if l = .query then some [("page".toList, "1")] else none,
                                        fun l => if l = .query then some [("api_key".toList, "YOUR_API_KEY")] else none)
    ∃ c, phaseContainers .asFound ph [("X-B".toList, "1")] (forOperation o op) d .query = some c ∧
      dlookup "api_key".toList c = some "USER" := by
  intro o op d
  apply every_phase_carries_override .asFound ph o op _ d .query "api_key".toList "USER" (by decide) (by decide)
  intro _ g hg kv hkv
  simp only [d, if_true, Option.some.injEq] at hg
  subst hg
  simp only [List.mem_singleton] at hkv
  subst hkv
  decide

/-- `KeySound` for a key coarser than the operation: within a document whose operations are identified by
    (path, method), the label is a sound key; the bare path is not (`memo_by_path_loses_override`) -/
example :
    let a : Op := ⟨"/u/{id}".toList, "get".toList, [(.query, "k".toList)]⟩
    let b : Op := ⟨"/u/{id}".toList, "patch".toList, []⟩
    KeySound (fun _ => [("k".toList, "v")]) (fun op => op = a ∨ op = b) (fun op => (op.path, op.method)) := by
  intro a b op op' h h' hk
  rcases h with rfl | rfl <;> rcases h' with rfl | rfl <;> first | rfl | (exact absurd hk (by decide))

/-! ### the provider's `requests` auth object and the body serializer -/

/-- **A `requests` auth object registered with `set_from_requests` reaches the request whatever the body serializer
    returns** (no body, `data=`, `json=`, `files=`, extra headers, even an `auth` entry of its own): `case._auth` is written
    into the keyword arguments after the serializer's result. -/
theorem requests_auth_reaches_request (ser : Option Dict) (a : String) :
    dlookup authKey (transportExtra .serializerThenAuth ser (some a)) = some a := by
  simp only [transportExtra]
  exact lookup_set_same _ authKey a

/-- filled in the other order the credentials are lost for every request that has a body -/
theorem requests_auth_other_order_full_false :
    dlookup authKey (transportExtra .authThenSerializer (some [("data".toList, "x")]) (some "basic")) = none ∧
    dlookup authKey (transportExtra .authThenSerializer none (some "basic")) = some "basic" := by decide


/-! ### the session shared by concurrent workers -/

private theorem filterMap_field_set (cfg : List Nat) : (cfg.map SessStep.set).filterMap SessStep.field? = cfg := by
  induction cfg with
  | nil => rfl
  | cons a l ih => simp [SessStep.field?, ih]

private theorem publish_not_in_sets (cfg : List Nat) (t : Nat) : ((cfg.map SessStep.set).take t).contains .publish = false := by
  induction cfg generalizing t with
  | nil => simp
  | cons a l ih =>
    cases t with
    | zero => simp
    | succ n => simpa [List.contains_cons] using ih n

/-- **Every worker sends its requests through a fully configured session** — whatever the moment at which a second
    worker looks the session up while the first one is still building it (all interleavings of the look-up with the
    builder's steps, any set of configured settings): the session is published only after its last setting. -/
theorem worker_session_configured (cfg : List Nat) (t : Nat) : workerSession cfg (publishLast cfg) t = cfg := by
  unfold workerSession publishedAt sessionFieldsAt publishLast
  by_cases ht : t ≤ cfg.length
  · have : (cfg.map SessStep.set ++ [SessStep.publish]).take t = (cfg.map SessStep.set).take t := by
      rw [List.take_append_of_le_length (by simpa using ht)]
    rw [this, publish_not_in_sets]
    simp
  · have hlen : (cfg.map SessStep.set ++ [SessStep.publish]).length ≤ t := by simp; omega
    rw [List.take_of_length_le hlen, List.filterMap_append, filterMap_field_set]
    simp [SessStep.field?]

/-- published before it is configured, the session reaches a worker without the credentials: after the first step the
    second worker holds a session with none of the configured settings (non-empty configuration) -/
theorem publish_first_loses_settings (c : Nat) (cfg : List Nat) : workerSession (c :: cfg) (publishFirst (c :: cfg)) 1 = [] := by
  simp [workerSession, publishedAt, sessionFieldsAt, publishFirst, SessStep.field?]

end SV.Props.C14
