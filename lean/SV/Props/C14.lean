/-
  C14 — configured credentials and overrides reach every request.  Property theorems only.
-/
import SV.Model.C14

namespace SV.Props.C14
open SV.Model.C14

/-! ### the merge chain: the user's value wins -/

theorem lookup_set_same (d : Dict) (k : Key) (v : String) : dlookup k (dset d k v) = some v := by
  induction d with
  | nil => simp [dset, dlookup]
  | cons kv r ih =>
    obtain ⟨k', v'⟩ := kv
    by_cases h : (k == k') = true
    · simp [dset, dlookup, h]
    · simp [dset, dlookup, h, ih]

theorem lookup_set_other (d : Dict) (k k2 : Key) (v : String) (hne : (k2 == k) = false) :
    dlookup k2 (dset d k v) = dlookup k2 d := by
  induction d with
  | nil => simp [dset, dlookup, hne]
  | cons kv r ih =>
    obtain ⟨k', v'⟩ := kv
    by_cases h : (k == k') = true
    · have hk : k = k' := by simpa using h
      subst hk
      simp [dset, dlookup, hne]
    · simp only [dset, h, dlookup]
      by_cases h2 : (k2 == k') = true
      · simp [dlookup, h2]
      · simp [dlookup, h2, ih]

/-- the value of the last binding of `k` in an update list -/
def lastIn (k : Key) : Dict → Option String
  | [] => none
  | kv :: rest => match lastIn k rest with
    | some v => some v
    | none => if k == kv.1 then some kv.2 else none

theorem update_spec (d other : Dict) (k : Key) :
    dlookup k (dupdate d other) = match lastIn k other with | some v => some v | none => dlookup k d := by
  unfold dupdate
  induction other generalizing d with
  | nil => simp [lastIn]
  | cons kv rest ih =>
    simp only [List.foldl_cons, lastIn]
    rw [ih]
    cases hl : lastIn k rest with
    | some v => rfl
    | none =>
      simp only
      by_cases hk : (k == kv.1) = true
      · have : k = kv.1 := by simpa using hk
        simp only [hk, if_true]
        rw [this]; exact lookup_set_same _ _ _
      · simp only [hk]
        exact lookup_set_other _ _ _ _ (by simpa using hk)

/-- `d.update(other)`: every key of `other` ends up with the value of its last binding in `other`
    (`add_coverage`, stateful `before_call`: the override is written over the generated container) -/
theorem update_wins (d other : Dict) (k : Key) (v : String) (h : lastIn k other = some v) :
    dlookup k (dupdate d other) = some v := by
  rw [update_spec, h]

/-- keys the update list does not mention keep their value: an explicit (user) value survives the merge with
    whatever was generated for the remaining parameters (`get_parameters_value`) -/
theorem update_keeps (d other : Dict) (k : Key) (hno : lastIn k other = none) :
    dlookup k (dupdate d other) = dlookup k d := by
  rw [update_spec, hno]

theorem lastIn_none_of_absent (k : Key) (other : Dict) (h : ∀ kv ∈ other, (k == kv.1) = false) :
    lastIn k other = none := by
  induction other with
  | nil => rfl
  | cons kv rest ih =>
    simp only [lastIn, ih (fun x hx => h x (by simp [hx])), h kv (by simp)]
    simp

theorem explicit_survives_merge (explicit : Dict) (generated : Option Dict) (k : Key)
    (hdisj : ∀ g, generated = some g → ∀ kv ∈ g, (k == kv.1) = false) :
    dlookup k (mergeExplicit explicit generated) = dlookup k explicit := by
  cases generated with
  | none => rfl
  | some g => exact update_keeps explicit g k (lastIn_none_of_absent k g (hdisj g rfl))

theorem override_wins (container : Dict) (override : Dict) (k : Key) (v : String)
    (h : lastIn k override = some v) : dlookup k (applyOverride (some container) override) = some v :=
  update_wins container override k v h

/-! ### CaseInsensitiveDict -/

theorem lookupCI_setCI_same (d : Dict) (k k2 : Key) (v : String) (h : lower k2 = lower k) :
    lookupCI k2 (setCI d k v) = some v := by
  induction d with
  | nil => simp [setCI, lookupCI, h]
  | cons kv r ih =>
    obtain ⟨k', v'⟩ := kv
    by_cases hk : (lower k == lower k') = true
    · simp [setCI, lookupCI, hk, h]
    · have : (lower k2 == lower k') = false := by rw [h]; simpa using hk
      simp [setCI, lookupCI, hk, this, ih]

theorem lookupCI_setCI_other (d : Dict) (k k2 : Key) (v : String) (hne : lower k2 ≠ lower k) :
    lookupCI k2 (setCI d k v) = lookupCI k2 d := by
  induction d with
  | nil => simp [setCI, lookupCI, hne]
  | cons kv r ih =>
    obtain ⟨k', v'⟩ := kv
    by_cases hk : (lower k == lower k') = true
    · have e : lower k = lower k' := by simpa using hk
      have h1 : (lower k2 == lower k') = false := by rw [← e]; simpa using hne
      have h2 : (lower k2 == lower k) = false := by simpa using hne
      simp [setCI, lookupCI, hk, h1, h2]
    · simp only [setCI, hk, lookupCI]
      by_cases h2 : (lower k2 == lower k') = true
      · simp [lookupCI, h2]
      · simp [lookupCI, h2, ih]

def lastInCI (k : Key) : Dict → Option String
  | [] => none
  | kv :: rest => match lastInCI k rest with
    | some v => some v
    | none => if lower k == lower kv.1 then some kv.2 else none

theorem updateCI_spec (d other : Dict) (k : Key) :
    lookupCI k (updateCI d other) = match lastInCI k other with | some v => some v | none => lookupCI k d := by
  unfold updateCI
  induction other generalizing d with
  | nil => simp [lastInCI]
  | cons kv rest ih =>
    simp only [List.foldl_cons, lastInCI]
    rw [ih]
    cases hl : lastInCI k rest with
    | some v => rfl
    | none =>
      simp only
      by_cases hk : (lower k == lower kv.1) = true
      · simp only [hk, if_true]
        exact lookupCI_setCI_same _ _ _ _ (by simpa using hk)
      · simp only [hk]
        exact lookupCI_setCI_other _ _ _ _ (by simpa using hk)

theorem lookupCI_congr (d : Dict) (k k2 : Key) (h : lower k2 = lower k) : lookupCI k2 d = lookupCI k d := by
  induction d with
  | nil => rfl
  | cons kv r ih => obtain ⟨k', v'⟩ := kv; simp [lookupCI, h, ih]

theorem lookupCI_setdefault (d : Dict) (k k2 : Key) (v v2 : String) (h : lookupCI k2 d = some v2) :
    lookupCI k2 (setdefaultCI d k v) = some v2 := by
  unfold setdefaultCI
  cases hl : lookupCI k d with
  | some _ => exact h
  | none =>
    simp only
    by_cases he : lower k2 = lower k
    · exfalso
      rw [lookupCI_congr d k k2 he, hl] at h; cases h
    · rw [lookupCI_setCI_other _ _ _ _ he]; exact h

/-- **`prepare_headers`: every user-configured header is on the request with the user's value**, in whatever
    spelling the case or the user wrote the name, and whatever the case itself carries under that name -/
theorem prepare_headers_user_wins (caseHeaders : Option Dict) (user : Dict) (ua cid : String) (k : Key) (v : String)
    (h : lastInCI k user = some v) :
    lookupCI k (prepareHeaders caseHeaders (some user) ua cid) = some v := by
  unfold prepareHeaders
  have hne : user.isEmpty = false := by
    cases user with
    | nil => simp [lastInCI] at h
    | cons _ _ => rfl
  simp only [hne, Bool.false_eq_true, if_false]
  apply lookupCI_setdefault
  apply lookupCI_setdefault
  rw [updateCI_spec, h]

/-- without a user value, what the case carries stays -/
theorem prepare_headers_keeps_case (caseHeaders : Dict) (user : Option Dict) (ua cid : String) (k : Key) (v : String)
    (h : lastInCI k caseHeaders = some v) (hu : ∀ u, user = some u → lastInCI k u = none) :
    lookupCI k (prepareHeaders (some caseHeaders) user ua cid) = some v := by
  unfold prepareHeaders
  apply lookupCI_setdefault
  apply lookupCI_setdefault
  have hc : lookupCI k (updateCI [] caseHeaders) = some v := by rw [updateCI_spec, h]
  cases user with
  | none => exact hc
  | some u =>
    simp only
    split
    · exact hc
    · rw [updateCI_spec, hu u rfl]; exact hc

/-- `get_strategy_kwargs` passes every configured header except User-Agent on to the generators -/
theorem strategy_headers_complete (config : Dict) (k : Key) (v : String) (h : (k, v) ∈ config)
    (hua : lower k ≠ lower userAgent) : (k, v) ∈ strategyHeaders config := by
  unfold strategyHeaders
  exact List.mem_filter.2 ⟨h, by simpa using hua⟩

/-! ### auth storages -/

theorem test_storage_first (t schema global : List (Option Nat)) : chooseStorage (some t) schema global = some t := rfl

theorem schema_storage_before_global (schema global : List (Option Nat)) (h : schema ≠ []) :
    chooseStorage none schema global = some schema := by
  cases schema with
  | nil => exact absurd rfl h
  | cons _ _ => rfl

theorem first_with_data_spec (ps : List (Option Nat)) (i d : Nat) (h : firstWithData ps = some (i, d)) :
    ps[i]? = some (some d) ∧ ∀ j, j < i → ps[j]? = some none := by
  induction ps generalizing i with
  | nil => simp [firstWithData] at h
  | cons p r ih =>
    cases p with
    | some x =>
      simp [firstWithData] at h
      obtain ⟨rfl, rfl⟩ := h
      simp
    | none =>
      simp only [firstWithData, Option.map_eq_some_iff] at h
      obtain ⟨⟨i', d'⟩, hr, heq⟩ := h
      simp at heq
      obtain ⟨rfl, rfl⟩ := heq
      obtain ⟨h1, h2⟩ := ih i' hr
      refine ⟨by simpa using h1, ?_⟩
      intro j hj
      cases j with
      | zero => rfl
      | succ j => simpa using h2 j (by omega)

/-! ### the auth cache: at most one fetch per refresh interval, for all interleavings and clock advances -/

/-- consecutive fetches are at least `interval` apart (newest first) -/
def Spaced (interval : Nat) : List Nat → Prop
  | [] => True
  | [_] => True
  | a :: b :: r => a ≥ b + interval ∧ Spaced interval (b :: r)

def Settled (s : CacheSt) : Prop :=
  match s.entry with
  | none => s.fetches = []
  | some e => ∃ f rest, s.fetches = f :: rest ∧ e.expires ≥ f + s.interval

structure CacheInv (s : CacheSt) : Prop where
  spaced : Spaced s.interval s.fetches
  past : ∀ f ∈ s.fetches, f ≤ s.clock
  unlocked : s.lock = false → ∀ t ∈ s.threads, t.critical = false
  one : ∀ l t r, s.threads = l ++ t :: r → t.critical = true →
          (∀ x ∈ l, x.critical = false) ∧ (∀ x ∈ r, x.critical = false)
  held : (∃ t ∈ s.threads, t.critical = true) → s.lock = true
  settled : (∀ t ∈ s.threads, t.busyFetching = false) → Settled s
  busy : (∃ t ∈ s.threads, t.busyFetching = true) → s.fetches ≠ []

theorem mem_split_cases {α} (l r l' r' : List α) (a b : α) (h : l ++ a :: r = l' ++ b :: r') :
    (l = l' ∧ a = b ∧ r = r') ∨ (∃ m, l' = l ++ a :: m ∧ r = m ++ b :: r') ∨ (∃ m, l = l' ++ b :: m ∧ r' = m ++ a :: r) := by
  rcases List.append_eq_append_iff.1 h with ⟨c, h1, h2⟩ | ⟨c, h1, h2⟩
  · cases c with
    | nil => simp at h1 h2; left; exact ⟨h1.symm, h2.1, h2.2⟩
    | cons x c => simp at h2; right; left; exact ⟨c, by rw [h1, h2.1], h2.2⟩
  · cases c with
    | nil => simp at h1 h2; left; exact ⟨h1, h2.1.symm, h2.2.symm⟩
    | cons x c => simp at h2; right; right; exact ⟨c, by rw [h1, h2.1], h2.2⟩

/-- replacing one non-critical thread state by another non-critical one changes nothing the invariant looks at -/
theorem inv_swap_noncritical (s : CacheSt) (l r : List TPc) (t t' : TPc) (h : s.threads = l ++ t :: r)
    (ht : t.critical = false) (ht' : t'.critical = false) (inv : CacheInv s) :
    CacheInv { s with threads := l ++ t' :: r } := by
  have hb : t.busyFetching = false := by cases t <;> simp_all [TPc.critical, TPc.busyFetching]
  have hb' : t'.busyFetching = false := by cases t' <;> simp_all [TPc.critical, TPc.busyFetching]
  have memOld : ∀ x, x ∈ l ++ t' :: r → x = t' ∨ x ∈ s.threads := by
    intro x hx; simp at hx; rcases hx with hx | rfl | hx
    · right; rw [h]; simp [hx]
    · left; rfl
    · right; rw [h]; simp [hx]
  refine ⟨inv.spaced, inv.past, ?_, ?_, ?_, ?_, ?_⟩
  · intro hl x hx
    rcases memOld x hx with rfl | hx
    · exact ht'
    · exact inv.unlocked hl x hx
  · intro l2 t2 r2 heq hc
    simp only at heq
    rcases mem_split_cases _ _ _ _ _ _ heq with ⟨rfl, rfl, rfl⟩ | ⟨m, rfl, rfl⟩ | ⟨m, rfl, rfl⟩
    · rw [ht'] at hc; cases hc
    · have := inv.one (l ++ t :: m) t2 r2 (by rw [h]; simp) hc
      constructor
      · intro x hx; simp at hx; rcases hx with hx | rfl | hx
        · exact this.1 x (by simp [hx])
        · exact ht'
        · exact this.1 x (by simp [hx])
      · exact this.2
    · have := inv.one l2 t2 (m ++ t :: r) (by rw [h]; simp) hc
      constructor
      · exact this.1
      · intro x hx; simp at hx; rcases hx with hx | rfl | hx
        · exact this.2 x (by simp [hx])
        · exact ht'
        · exact this.2 x (by simp [hx])
  · intro ⟨x, hx, hc⟩
    rcases memOld x hx with rfl | hx
    · rw [ht'] at hc; cases hc
    · exact inv.held ⟨x, hx, hc⟩
  · intro hall
    have : ∀ x ∈ s.threads, x.busyFetching = false := by
      intro x hx; rw [h] at hx; simp at hx; rcases hx with hx | rfl | hx
      · exact hall x (by simp [hx])
      · exact hb
      · exact hall x (by simp [hx])
    exact inv.settled this
  · intro ⟨x, hx, hc⟩
    rcases memOld x hx with rfl | hx
    · rw [hb'] at hc; cases hc
    · exact inv.busy ⟨x, hx, hc⟩

theorem spaced_cons (interval a : Nat) (l : List Nat) (h : Spaced interval l)
    (ha : ∀ b r, l = b :: r → a ≥ b + interval) : Spaced interval (a :: l) := by
  cases l with
  | nil => trivial
  | cons b r => exact ⟨ha b r rfl, h⟩

theorem cacheInv_step (s s' : CacheSt) (h : CStep s s') (inv : CacheInv s) : CacheInv s' := by
  cases h with
  | tick d =>
    exact ⟨inv.spaced, fun f hf => Nat.le_trans (inv.past f hf) (Nat.le_add_right _ _), inv.unlocked, inv.one,
           inv.held, inv.settled, inv.busy⟩
  | call l r h => exact inv_swap_noncritical s l r _ _ h rfl rfl inv
  | check1 l r e h =>
    refine inv_swap_noncritical s l r _ _ h rfl ?_ inv
    split
    · rfl
    · split <;> rfl
  | again l r d h => exact inv_swap_noncritical s l r _ _ h rfl rfl inv
  | acquire l r h hl =>
    have hnc := inv.unlocked hl
    have hall : ∀ x ∈ l ++ TPc.locked :: r, x = .locked ∨ x.critical = false := by
      intro x hx; simp at hx; rcases hx with hx | rfl | hx
      · right; exact hnc x (by rw [h]; simp [hx])
      · left; rfl
      · right; exact hnc x (by rw [h]; simp [hx])
    refine ⟨inv.spaced, inv.past, by simp, ?_, fun _ => rfl, ?_, ?_⟩
    · intro l2 t2 r2 heq hc
      simp only at heq
      rcases mem_split_cases _ _ _ _ _ _ heq with ⟨rfl, rfl, rfl⟩ | ⟨m, rfl, rfl⟩ | ⟨m, rfl, rfl⟩
      · exact ⟨fun x hx => hnc x (by rw [h]; simp [hx]), fun x hx => hnc x (by rw [h]; simp [hx])⟩
      · have := hnc t2 (by rw [h]; simp); rw [this] at hc; cases hc
      · have := hnc t2 (by rw [h]; simp); rw [this] at hc; cases hc
    · intro _
      have : ∀ x ∈ s.threads, x.busyFetching = false := by
        intro x hx; have := hnc x hx; cases x <;> simp_all [TPc.critical, TPc.busyFetching]
      exact inv.settled this
    · intro ⟨x, hx, hc⟩
      rcases hall x hx with rfl | h2
      · simp [TPc.busyFetching] at hc
      · cases x <;> simp_all [TPc.critical, TPc.busyFetching]
  | check2Hit l r x h he hx =>
    have hone := inv.one l .locked r h rfl
    have hnc : ∀ y ∈ l ++ TPc.done x.data :: r, y.critical = false := by
      intro y hy; simp at hy; rcases hy with hy | rfl | hy
      · exact hone.1 y hy
      · rfl
      · exact hone.2 y hy
    refine ⟨inv.spaced, inv.past, fun _ => hnc, ?_, ?_, ?_, ?_⟩
    · intro l2 t2 r2 heq hc
      have := hnc t2 (by simp only at heq; rw [heq]; simp); rw [this] at hc; cases hc
    · intro ⟨y, hy, hc⟩; have := hnc y hy; rw [this] at hc; cases hc
    · intro _
      have : ∀ y ∈ s.threads, y.busyFetching = false := by
        intro y hy; rw [h] at hy; simp at hy; rcases hy with hy | rfl | hy
        · have := hone.1 y hy; cases y <;> simp_all [TPc.critical, TPc.busyFetching]
        · rfl
        · have := hone.2 y hy; cases y <;> simp_all [TPc.critical, TPc.busyFetching]
      exact inv.settled this
    · intro ⟨y, hy, hc⟩; have := hnc y hy; cases y <;> simp_all [TPc.critical, TPc.busyFetching]
  | check2Miss l r h hx =>
    have hone := inv.one l .locked r h rfl
    have hlock : s.lock = true := inv.held ⟨.locked, by rw [h]; simp, rfl⟩
    have hsettled : Settled s := by
      apply inv.settled
      intro y hy; rw [h] at hy; simp at hy; rcases hy with hy | rfl | hy
      · have := hone.1 y hy; cases y <;> simp_all [TPc.critical, TPc.busyFetching]
      · rfl
      · have := hone.2 y hy; cases y <;> simp_all [TPc.critical, TPc.busyFetching]
    refine ⟨?_, ?_, ?_, ?_, fun _ => hlock, ?_, by simp⟩
    · apply spaced_cons _ _ _ inv.spaced
      intro b rest hb
      unfold Settled at hsettled
      cases he : s.entry with
      | none => rw [he] at hsettled; simp only at hsettled; rw [hsettled] at hb; cases hb
      | some e =>
        rw [he] at hsettled; simp only at hsettled
        obtain ⟨f, rest', hf, hexp⟩ := hsettled
        rw [hf] at hb; cases hb
        have : s.clock ≥ e.expires := by simpa [expired, he] using hx
        omega
    · intro f hf; simp at hf; rcases hf with rfl | hf
      · exact Nat.le_refl _
      · exact inv.past f hf
    · intro hl; rw [hlock] at hl; cases hl
    · intro l2 t2 r2 heq hc
      simp only at heq
      rcases mem_split_cases _ _ _ _ _ _ heq with ⟨rfl, rfl, rfl⟩ | ⟨m, rfl, rfl⟩ | ⟨m, rfl, rfl⟩
      · exact hone
      · have := hone.2 t2 (by simp); rw [this] at hc; cases hc
      · have := hone.1 t2 (by simp); rw [this] at hc; cases hc
    · intro hall
      have := hall .fetching (by simp)
      simp [TPc.busyFetching] at this
  | fetched l r d h =>
    have hone := inv.one l .fetching r h rfl
    have hlock : s.lock = true := inv.held ⟨.fetching, by rw [h]; simp, rfl⟩
    refine ⟨inv.spaced, inv.past, ?_, ?_, fun _ => hlock, ?_, ?_⟩
    · intro hl; rw [hlock] at hl; cases hl
    · intro l2 t2 r2 heq hc
      simp only at heq
      rcases mem_split_cases _ _ _ _ _ _ heq with ⟨rfl, rfl, rfl⟩ | ⟨m, rfl, rfl⟩ | ⟨m, rfl, rfl⟩
      · exact hone
      · have := hone.2 t2 (by simp); rw [this] at hc; cases hc
      · have := hone.1 t2 (by simp); rw [this] at hc; cases hc
    · intro hall
      have := hall (.gotData d) (by simp)
      simp [TPc.busyFetching] at this
    · intro _; exact inv.busy ⟨.fetching, by rw [h]; simp, rfl⟩
  | store l r d h =>
    have hone := inv.one l (.gotData d) r h rfl
    have hnc : ∀ y ∈ l ++ TPc.done d :: r, y.critical = false := by
      intro y hy; simp at hy; rcases hy with hy | rfl | hy
      · exact hone.1 y hy
      · rfl
      · exact hone.2 y hy
    have hne := inv.busy ⟨.gotData d, by rw [h]; simp, rfl⟩
    refine ⟨inv.spaced, inv.past, fun _ => hnc, ?_, ?_, ?_, ?_⟩
    · intro l2 t2 r2 heq hc
      have := hnc t2 (by simp only at heq; rw [heq]; simp); rw [this] at hc; cases hc
    · intro ⟨y, hy, hc⟩; have := hnc y hy; rw [this] at hc; cases hc
    · intro _
      unfold Settled
      simp only
      cases hf : s.fetches with
      | nil => exact absurd hf hne
      | cons f rest =>
        refine ⟨f, rest, rfl, ?_⟩
        have := inv.past f (by rw [hf]; simp)
        omega
    · intro ⟨y, hy, hc⟩; have := hnc y hy; cases y <;> simp_all [TPc.critical, TPc.busyFetching]

/-- **C14 (auth cache): for every interleaving of any number of concurrent callers and every behaviour of the clock,
    any two consecutive calls of the underlying provider are at least `refresh_interval` apart.** -/
theorem cache_fetches_spaced (interval n : Nat) (s : CacheSt)
    (h : CReach { interval := interval, threads := List.replicate n .idle } s) : Spaced interval s.fetches := by
  have key : CacheInv s := by
    induction h with
    | refl =>
      refine ⟨trivial, by simp, ?_, ?_, ?_, fun _ => by simp [Settled], ?_⟩
      · intro _ t ht; simp [List.mem_replicate] at ht; rw [ht.2]; rfl
      · intro l t r heq hc
        have : t ∈ List.replicate n TPc.idle := by simp only at heq; rw [heq]; simp
        simp [List.mem_replicate] at this; rw [this.2] at hc; cases hc
      · intro ⟨t, ht, hc⟩; simp [List.mem_replicate] at ht; rw [ht.2] at hc; cases hc
      · intro ⟨t, ht, hc⟩; simp [List.mem_replicate] at ht; rw [ht.2] at hc; cases hc
    | step s s' _ hstep ih => exact cacheInv_step s s' hstep ih
  have hint : s.interval = interval := by
    clear key
    induction h with
    | refl => rfl
    | step s s' _ hstep ih => cases hstep <;> exact ih
  rw [← hint]
  exact key.spaced

/-- non-vacuity: two callers race; exactly one fetch happens, the loser returns the winner's token -/
example : ∃ s, CReach { interval := 300, threads := [.idle, .idle] } s ∧ s.fetches = [0] ∧
    s.threads = [.done 42, .done 42] := by
  refine ⟨{ interval := 300, threads := [.done 42, .done 42], fetches := [0], entry := some ⟨42, 300⟩ }, ?_, rfl, rfl⟩
  let s0 : CacheSt := { interval := 300, threads := [.idle, .idle] }
  have r1 := CReach.step _ _ (CReach.refl (s0 := s0)) (CStep.call s0 [] [.idle] rfl)
  have r2 := CReach.step _ _ r1 (CStep.call _ [.read1 none] [] rfl)
  have r3 := CReach.step _ _ r2 (CStep.check1 _ [] [.read1 none] none rfl)
  have r4 := CReach.step _ _ r3 (CStep.check1 _ [.wantLock] [] none rfl)
  have r5 := CReach.step _ _ r4 (CStep.acquire _ [] [.wantLock] rfl rfl)
  have r6 := CReach.step _ _ r5 (CStep.check2Miss _ [] [.wantLock] rfl rfl)
  have r7 := CReach.step _ _ r6 (CStep.fetched _ [] [.wantLock] 42 rfl)
  have r8 := CReach.step _ _ r7 (CStep.store _ [] [.wantLock] 42 rfl)
  have r9 := CReach.step _ _ r8 (CStep.acquire _ [.done 42] [] rfl rfl)
  have r10 := CReach.step _ _ r9 (CStep.check2Hit _ [.done 42] [] ⟨42, 300⟩ rfl rfl rfl)
  exact r10

end SV.Props.C14
