/-
  C15 — with sanitization on, secrets never appear in any output.  Property theorems only.
  Non-interference form: inputs that differ at sensitive positions only (`lowEq…`) are rendered identically.
  The tables of `SV.Generated.C15` are regenerated from core/output/sanitization.py on every run.
-/
import SV.Proofs.C15
import SV.Generated.C15

namespace SV.Props.C15
open SV.Model.C15 SV.Spec.C15 SV.Proofs.C15 SV.Generated.C15

/-! ## A. the key predicate -/

/-- The code's test is the reference predicate: exact key or marker substring of the lower-cased name. -/
theorem isSensitive_iff (cfg : Config) (name : Str) : isSensitive cfg name = true ↔ Sensitive cfg name := by
  unfold isSensitive Sensitive
  simp only [Bool.or_eq_true, List.contains_iff_mem, List.any_eq_true, isInfix_iff]

/-- The executable reference predicate used by the replay agrees with the code's test. -/
theorem sensitiveB_agrees (cfg : Config) (name : Str) : sensitiveB cfg name = isSensitive cfg name :=
  sensitiveB_eq cfg name

/-- Every case spelling of a name is classified alike. -/
theorem isSensitive_case_insensitive (cfg : Config) (a b : Str) (h : lower a = lower b) :
    isSensitive cfg a = isSensitive cfg b := by
  unfold isSensitive; rw [h]

example : lower "AuThOrIzAtIoN".toList = lower "authorization".toList := by decide

/-- No dead table entries: the code lower-cases the name, so an entry with an upper-case letter could never match. -/
theorem default_tables_lowercase :
    defaultKeys.all (fun k => lower k == k) = true ∧ defaultMarkers.all (fun m => lower m == m) = true := by
  decide

/-- No empty marker (an empty marker would redact every name). -/
theorem default_markers_nonempty : defaultMarkers.all (fun m => !m.isEmpty) = true := by decide

/-- The names the property statement lists are covered by the tables as they are in the source now. -/
theorem statement_names_in_default_tables :
    (["authorization", "cookie", "set-cookie", "api_key", "api-key", "apikey", "x-api-key", "token", "password",
      "secret", "session", "sessionid", "csrftoken", "x-csrftoken"].map String.toList).all
        (fun k => defaultKeys.contains k) = true ∧
    (["token", "key", "secret", "password", "auth", "session"].map String.toList).all
        (fun m => defaultMarkers.contains m) = true := by
  decide

/-- Under the default configuration every spelling of every table key is sensitive … -/
theorem default_key_any_spelling (name : Str) (h : lower name ∈ defaultKeys) :
    isSensitive defaultConfig name = true := by
  rw [isSensitive_iff]; exact Or.inl h

/-- … and so is every name that contains a marker in any spelling. -/
theorem default_marker_any_spelling (name m : Str) (hm : m ∈ defaultMarkers) (h : m <:+: lower name) :
    isSensitive defaultConfig name = true := by
  rw [isSensitive_iff]; exact Or.inr ⟨m, hm, h⟩

example : lower "AUTHORIZATION".toList ∈ defaultKeys ∧ "key".toList ∈ defaultMarkers := by decide

example : isSensitive defaultConfig "X-Custom-TOKEN-Header".toList = true ∧
    isSensitive defaultConfig "SET-COOKIE".toList = true ∧ isSensitive defaultConfig "X-Plain".toList = false := by
  decide

/-! ## B. configuration -/

/-- `from_config` with nothing set is the base configuration. -/
theorem fromConfig_notset (base : Config) : base.fromConfig none none none = base := by
  cases base; rfl

/-- Custom lists replace the predicate by exactly the configured one (lower-cased). -/
theorem fromConfig_exact (base : Config) (r : Option Str) (ks ms : List Str) (name : Str) :
    isSensitive (base.fromConfig r (some ks) (some ms)) name = true ↔
      lower name ∈ ks.map lower ∨ ∃ m ∈ ms.map lower, m <:+: lower name := by
  rw [isSensitive_iff]; rfl

/-- Only the lists that are set change. -/
theorem fromConfig_keys_only (base : Config) (ks : List Str) (name : Str) :
    isSensitive (base.fromConfig none (some ks) none) name = true ↔
      lower name ∈ ks.map lower ∨ ∃ m ∈ base.markers, m <:+: lower name := by
  rw [isSensitive_iff]; rfl

/-- `extend` is exactly the union of the old predicate and the added lists. -/
theorem extend_exact (base : Config) (ks ms : List Str) (name : Str) :
    isSensitive (base.extend (some ks) (some ms)) name =
      (isSensitive base name || isSensitive ⟨ks.map lower, ms.map lower, base.replacement⟩ name) := by
  unfold isSensitive Config.extend
  simp only [List.contains_append, List.any_append]
  cases List.contains base.keys (lower name) <;> cases List.contains (ks.map lower) (lower name) <;>
    cases base.markers.any (fun m => isInfix m (lower name)) <;> simp

/-- `extend` never un-protects a name. -/
theorem extend_monotone (base : Config) (ks ms : Option (List Str)) (name : Str)
    (h : isSensitive base name = true) : isSensitive (base.extend ks ms) name = true := by
  unfold isSensitive Config.extend at *
  simp only [Bool.or_eq_true] at h ⊢
  rcases h with h | h
  · left; cases ks <;> simp_all
  · right; cases ms <;> simp_all [List.any_append]

/-! ### histories of `configure` / `extend` calls -/

private theorem apply_keeps_key (cur : Config) (c : CfgCall) (x : Str) (h : x ∈ cur.keys) (hn : c.resetsKeys = false) :
    x ∈ (c.apply cur).keys := by
  cases c with
  | configure r ks ms => cases ks <;> simp_all [CfgCall.apply, Config.fromConfig, CfgCall.resetsKeys]
  | extend ks ms => cases ks <;> simp_all [CfgCall.apply, Config.extend]

private theorem apply_keeps_marker (cur : Config) (c : CfgCall) (x : Str) (h : x ∈ cur.markers) (hn : c.resetsMarkers = false) :
    x ∈ (c.apply cur).markers := by
  cases c with
  | configure r ks ms => cases ms <;> simp_all [CfgCall.apply, Config.fromConfig, CfgCall.resetsMarkers]
  | extend ks ms => cases ms <;> simp_all [CfgCall.apply, Config.extend]

private theorem run_keeps_key (post : List CfgCall) (cur : Config) (x : Str) (h : x ∈ cur.keys)
    (hn : ∀ c ∈ post, c.resetsKeys = false) : x ∈ (runCalls cur post).keys := by
  induction post generalizing cur with
  | nil => exact h
  | cons c rest ih =>
    exact ih (c.apply cur) (apply_keeps_key cur c x h (hn c (by simp))) (fun d hd => hn d (by simp [hd]))

private theorem run_keeps_marker (post : List CfgCall) (cur : Config) (x : Str) (h : x ∈ cur.markers)
    (hn : ∀ c ∈ post, c.resetsMarkers = false) : x ∈ (runCalls cur post).markers := by
  induction post generalizing cur with
  | nil => exact h
  | cons c rest ih =>
    exact ih (c.apply cur) (apply_keeps_marker cur c x h (hn c (by simp))) (fun d hd => hn d (by simp [hd]))

/-- **A name registered once stays protected**: in every history of `configure` / `extend` calls, a name registered by
    some call as an exact key is redacted (in any spelling) under the final configuration, unless a *later* `configure`
    call gives a new key list.  In particular a later `configure(replacement=…)` or `configure(sensitive_markers=…)`
    does not un-protect it. -/
theorem registered_key_stays_protected (init : Config) (pre post : List CfgCall) (c : CfgCall) (k name : Str)
    (hreg : c.registersKey k) (hlater : ∀ d ∈ post, d.resetsKeys = false) (hname : lower name = lower k) :
    isSensitive (runCalls init (pre ++ c :: post)) name = true := by
  have hsplit : runCalls init (pre ++ c :: post) = runCalls (c.apply (runCalls init pre)) post := by
    simp [runCalls, List.foldl_append]
  have hin : lower k ∈ (c.apply (runCalls init pre)).keys := by
    cases c with
    | configure r ks ms =>
      cases ks with
      | none => exact absurd hreg (by simp [CfgCall.registersKey])
      | some l => simpa [CfgCall.apply, Config.fromConfig] using ⟨k, hreg, rfl⟩
    | extend ks ms =>
      cases ks with
      | none => exact absurd hreg (by simp [CfgCall.registersKey])
      | some l => simp only [CfgCall.apply, Config.extend, List.mem_append, List.mem_map]; exact Or.inr ⟨k, hreg, rfl⟩
  have := run_keeps_key post _ _ hin hlater
  rw [hsplit]
  unfold isSensitive
  rw [hname]
  simp [List.contains_iff_mem, this]

/-- the same for markers: a registered marker keeps redacting every name that contains it -/
theorem registered_marker_stays_protected (init : Config) (pre post : List CfgCall) (c : CfgCall) (m name : Str)
    (hreg : c.registersMarker m) (hlater : ∀ d ∈ post, d.resetsMarkers = false) (hname : lower m <:+: lower name) :
    isSensitive (runCalls init (pre ++ c :: post)) name = true := by
  have hsplit : runCalls init (pre ++ c :: post) = runCalls (c.apply (runCalls init pre)) post := by
    simp [runCalls, List.foldl_append]
  have hin : lower m ∈ (c.apply (runCalls init pre)).markers := by
    cases c with
    | configure r ks ms =>
      cases ms with
      | none => exact absurd hreg (by simp [CfgCall.registersMarker])
      | some l => simpa [CfgCall.apply, Config.fromConfig] using ⟨m, hreg, rfl⟩
    | extend ks ms =>
      cases ms with
      | none => exact absurd hreg (by simp [CfgCall.registersMarker])
      | some l => simp only [CfgCall.apply, Config.extend, List.mem_append, List.mem_map]; exact Or.inr ⟨m, hreg, rfl⟩
  have hfin := run_keeps_marker post _ _ hin hlater
  rw [hsplit, isSensitive_iff]
  exact Or.inr ⟨lower m, hfin, hname⟩

/-- `configure` restarted from a pristine configuration drops what was registered before: `extend(keys=[X-Tenant])`
    followed by `configure(replacement="#")` leaves `x-tenant` unprotected (and it is protected in the tree's reading). -/
theorem configure_from_pristine_full_false :
    let h := [CfgCall.extend (some ["X-Tenant".toList]) none, CfgCall.configure (some "#".toList) none none]
    isSensitive (runCallsFromPristine defaultConfig h) "x-tenant".toList = false ∧
    isSensitive (runCalls defaultConfig h) "x-tenant".toList = true := by decide

example : isSensitive defaultConfig "X-Tenant".toList = false ∧
    isSensitive (defaultConfig.extend (some ["X-TENANT".toList]) none) "x-tenant".toList = true := by decide

/-! ## C. sanitize_value -/

mutual
  /-- Non-interference of `sanitize_value`: values that differ at sensitive positions only give the same output
      (any nesting of dicts and lists). -/
  theorem sanV_noninterference (cfg : Config) : ∀ a b, lowEq cfg a b = true → sanV cfg a = sanV cfg b
    | .leaf a, .leaf b, h => by simpa [lowEq, sanV] using h
    | .list xs, .list ys, h => by
        simp only [lowEq] at h
        simp [sanV, sanList_noninterference cfg xs ys h]
    | .dict xs, .dict ys, h => by
        simp only [lowEq] at h
        simp [sanV, sanKvs_noninterference cfg xs ys h]
    | .leaf _, .list _, h => by simp [lowEq] at h
    | .leaf _, .dict _, h => by simp [lowEq] at h
    | .list _, .leaf _, h => by simp [lowEq] at h
    | .list _, .dict _, h => by simp [lowEq] at h
    | .dict _, .leaf _, h => by simp [lowEq] at h
    | .dict _, .list _, h => by simp [lowEq] at h
  theorem sanList_noninterference (cfg : Config) :
      ∀ a b, lowEqList cfg a b = true → sanList cfg a = sanList cfg b
    | [], [], _ => rfl
    | x :: xs, y :: ys, h => by
        simp only [lowEqList, Bool.and_eq_true] at h
        simp [sanList, sanV_noninterference cfg x y h.1, sanList_noninterference cfg xs ys h.2]
    | [], _ :: _, h => by simp [lowEqList] at h
    | _ :: _, [], h => by simp [lowEqList] at h
  theorem sanKvs_noninterference (cfg : Config) :
      ∀ a b, lowEqKvs cfg a b = true → sanKvs cfg a = sanKvs cfg b
    | [], [], _ => rfl
    | (k, x) :: xs, (k', y) :: ys, h => by
        simp only [lowEqKvs, Bool.and_eq_true, beq_iff_eq] at h
        obtain ⟨⟨hk, hv⟩, hr⟩ := h
        subst hk
        simp only [sanKvs, sanKvs_noninterference cfg xs ys hr]
        by_cases hs : isSensitive cfg k = true
        · simp only [hs, if_true] at hv ⊢
          rw [redact_congr cfg x y (beq_iff_eq.mp hv)]
        · simp only [hs] at hv ⊢
          simp [sanV_noninterference cfg x y hv]
    | [], _ :: _, h => by simp [lowEqKvs] at h
    | _ :: _, [], h => by simp [lowEqKvs] at h
end

mutual
  /-- Exactness ("changes exactly that set"): the output determines everything outside the sensitive positions. -/
  theorem sanV_exact (cfg : Config) : ∀ a b, sanV cfg a = sanV cfg b → lowEq cfg a b = true
    | .leaf a, .leaf b, h => by simpa [lowEq, sanV] using h
    | .list xs, .list ys, h => by
        simp only [sanV, Val.list.injEq] at h
        simp [lowEq, sanList_exact cfg xs ys h]
    | .dict xs, .dict ys, h => by
        simp only [sanV, Val.dict.injEq] at h
        simp [lowEq, sanKvs_exact cfg xs ys h]
    | .leaf _, .list _, h => by simp [sanV] at h
    | .leaf _, .dict _, h => by simp [sanV] at h
    | .list _, .leaf _, h => by simp [sanV] at h
    | .list _, .dict _, h => by simp [sanV] at h
    | .dict _, .leaf _, h => by simp [sanV] at h
    | .dict _, .list _, h => by simp [sanV] at h
  theorem sanList_exact (cfg : Config) : ∀ a b, sanList cfg a = sanList cfg b → lowEqList cfg a b = true
    | [], [], _ => rfl
    | x :: xs, y :: ys, h => by
        simp only [sanList, List.cons.injEq] at h
        simp [lowEqList, sanV_exact cfg x y h.1, sanList_exact cfg xs ys h.2]
    | [], _ :: _, h => by simp [sanList] at h
    | _ :: _, [], h => by simp [sanList] at h
  theorem sanKvs_exact (cfg : Config) : ∀ a b, sanKvs cfg a = sanKvs cfg b → lowEqKvs cfg a b = true
    | [], [], _ => rfl
    | (k, x) :: xs, (k', y) :: ys, h => by
        simp only [sanKvs, List.cons.injEq, Prod.mk.injEq] at h
        obtain ⟨⟨hk, hv⟩, hr⟩ := h
        subst hk
        simp only [lowEqKvs, sanKvs_exact cfg xs ys hr, beq_self_eq_true, Bool.true_and, Bool.and_true]
        by_cases hs : isSensitive cfg k = true
        · simp only [hs, if_true] at hv ⊢
          simpa using redact_inj cfg x y hv
        · simp only [hs] at hv ⊢
          simpa using sanV_exact cfg x y hv
    | [], _ :: _, h => by simp [sanKvs] at h
    | _ :: _, [], h => by simp [sanKvs] at h
end

mutual
  /-- The output is a correct redaction of the input in the sense of the reference predicate: replacement at every
      sensitive position, the input's own value everywhere else, same shape and names. -/
  theorem sanV_correct (cfg : Config) : ∀ v, okV cfg v (sanV cfg v) = true
    | .leaf s => by simp [sanV, okV]
    | .list xs => by simp [sanV, okV, sanList_correct cfg xs]
    | .dict kvs => by simp [sanV, okV, sanKvs_correct cfg kvs]
  theorem sanList_correct (cfg : Config) : ∀ xs, okList cfg xs (sanList cfg xs) = true
    | [] => rfl
    | x :: xs => by simp [sanList, okList, sanV_correct cfg x, sanList_correct cfg xs]
  theorem sanKvs_correct (cfg : Config) : ∀ kvs, okKvs cfg kvs (sanKvs cfg kvs) = true
    | [] => rfl
    | (k, v) :: rest => by
        simp only [sanKvs, okKvs, sanKvs_correct cfg rest, beq_self_eq_true, Bool.true_and, Bool.and_true,
          sensitiveB_eq]
        by_cases hs : isSensitive cfg k = true
        · simp only [hs, if_true]
          cases v <;> simp [redact, Val.isList, okSecret]
        · simp only [hs]
          simpa using sanV_correct cfg v
end

mutual
  /-- … and it is the only correct redaction. -/
  theorem sanV_unique (cfg : Config) : ∀ v w, okV cfg v w = true → w = sanV cfg v
    | .leaf a, .leaf b, h => by simp [okV] at h; simp [sanV, h]
    | .list xs, .list ys, h => by simp only [okV] at h; simp [sanV, sanList_unique cfg xs ys h]
    | .dict xs, .dict ys, h => by simp only [okV] at h; simp [sanV, sanKvs_unique cfg xs ys h]
    | .leaf _, .list _, h => by simp [okV] at h
    | .leaf _, .dict _, h => by simp [okV] at h
    | .list _, .leaf _, h => by simp [okV] at h
    | .list _, .dict _, h => by simp [okV] at h
    | .dict _, .leaf _, h => by simp [okV] at h
    | .dict _, .list _, h => by simp [okV] at h
  theorem sanList_unique (cfg : Config) : ∀ xs ys, okList cfg xs ys = true → ys = sanList cfg xs
    | [], [], _ => rfl
    | x :: xs, y :: ys, h => by
        simp only [okList, Bool.and_eq_true] at h
        simp [sanList, sanV_unique cfg x y h.1, sanList_unique cfg xs ys h.2]
    | [], _ :: _, h => by simp [okList] at h
    | _ :: _, [], h => by simp [okList] at h
  theorem sanKvs_unique (cfg : Config) : ∀ xs ys, okKvs cfg xs ys = true → ys = sanKvs cfg xs
    | [], [], _ => rfl
    | (k, x) :: xs, (k', y) :: ys, h => by
        simp only [okKvs, Bool.and_eq_true, beq_iff_eq, sensitiveB_eq] at h
        obtain ⟨⟨hk, hv⟩, hr⟩ := h
        subst hk
        simp only [sanKvs, ← sanKvs_unique cfg xs ys hr, List.cons.injEq, Prod.mk.injEq, true_and, and_true]
        by_cases hs : isSensitive cfg k = true
        · simp only [hs, if_true] at hv ⊢
          unfold okSecret at hv
          unfold redact
          split at hv <;> simp_all [Val.isList]
        · simp only [hs] at hv ⊢
          simpa using sanV_unique cfg x y hv
    | [], _ :: _, h => by simp [okKvs] at h
    | _ :: _, [], h => by simp [okKvs] at h
end

mutual
  /-- The output differs from the input at sensitive positions only. -/
  theorem sanV_lowEq_input (cfg : Config) : ∀ v, lowEq cfg (sanV cfg v) v = true
    | .leaf s => by simp [sanV, lowEq]
    | .list xs => by simp [sanV, lowEq, sanList_lowEq_input cfg xs]
    | .dict kvs => by simp [sanV, lowEq, sanKvs_lowEq_input cfg kvs]
  theorem sanList_lowEq_input (cfg : Config) : ∀ xs, lowEqList cfg (sanList cfg xs) xs = true
    | [] => rfl
    | x :: xs => by simp [sanList, lowEqList, sanV_lowEq_input cfg x, sanList_lowEq_input cfg xs]
  theorem sanKvs_lowEq_input (cfg : Config) : ∀ kvs, lowEqKvs cfg (sanKvs cfg kvs) kvs = true
    | [] => rfl
    | (k, v) :: rest => by
        simp only [sanKvs, lowEqKvs, sanKvs_lowEq_input cfg rest, beq_self_eq_true, Bool.true_and, Bool.and_true]
        by_cases hs : isSensitive cfg k = true
        · simp [hs, redact_isList]
        · simp only [hs]
          simpa using sanV_lowEq_input cfg v
end

/-- Sanitizing twice changes nothing more. -/
theorem sanV_idempotent (cfg : Config) (v : Val) : sanV cfg (sanV cfg v) = sanV cfg v :=
  sanV_noninterference cfg _ _ (sanV_lowEq_input cfg v)

/-- Point form: the value held under a sensitive name anywhere in a dict does not influence the output. -/
theorem sanKvs_secret_irrelevant (cfg : Config) (pre post : List (Str × Val)) (k : Str) (s₁ s₂ : Val)
    (hk : isSensitive cfg k = true) (hl : s₁.isList = s₂.isList) :
    sanKvs cfg (pre ++ (k, s₁) :: post) = sanKvs cfg (pre ++ (k, s₂) :: post) := by
  induction pre with
  | nil => simp [sanKvs, hk, redact_congr cfg s₁ s₂ hl]
  | cons p pre ih => obtain ⟨k', v'⟩ := p; simp [sanKvs, ih]

/-- non-vacuity: a nested value with two secrets; the non-secret parts survive -/
example :
    let a := Val.dict [("user".toList, .leaf "bob".toList), ("Api-Key".toList, .leaf "S1".toList),
                       ("items".toList, .list [.dict [("password".toList, .list [.leaf "S2".toList])]])]
    let b := Val.dict [("user".toList, .leaf "bob".toList), ("Api-Key".toList, .leaf "T1".toList),
                       ("items".toList, .list [.dict [("password".toList, .list [])]])]
    lowEq defaultConfig a b = true ∧ mentionsV "bob".toList (sanV defaultConfig a) = true ∧
      mentionsV "S1".toList (sanV defaultConfig a) = false ∧ mentionsV "S2".toList (sanV defaultConfig a) = false := by
  decide

/-- Recorded headers / the parsed query (`dict[str, list[str]]`) are the one-level case of `sanitize_value`. -/
theorem sanMulti_is_sanV (cfg : Config) (d : List (Str × List Str)) :
    multiToVal (sanMulti cfg d) = sanV cfg (multiToVal d) := by
  unfold multiToVal
  simp only [sanV, Val.dict.injEq]
  induction d with
  | nil => simp [sanMulti, sanKvs]
  | cons p rest ih =>
    obtain ⟨k, vs⟩ := p
    have hl : ∀ l : List Str, sanList cfg (l.map Val.leaf) = l.map Val.leaf := by
      intro l; induction l with
      | nil => rfl
      | cons x l ihl => simp [sanList, sanV, ihl]
    simp only [sanMulti_cons, List.map_cons, sanKvs, ih]
    by_cases hs : isSensitive cfg k = true
    · simp [hs, redact, Val.isList]
    · simp [hs, sanV, hl]

/-! ## D. sanitize_url -/

/-- Non-interference of `sanitize_url`: URLs that differ only in their userinfo and in the values of sensitive query
    parameters are rendered identically. -/
theorem sanitizeUrl_noninterference (cfg : Config) (a b : Url) (h : lowEqUrl cfg a b = true) :
    sanitizeUrl cfg a = sanitizeUrl cfg b :=
  sanitizeUrl_ni cfg a b h

/-- Point form, userinfo: whatever stands before the last `@` of the authority is irrelevant. -/
theorem sanitizeUrl_userinfo_irrelevant (cfg : Config) (u : Url) (s₁ s₂ host : Str) (hh : '@' ∉ host) :
    sanitizeUrl cfg { u with netloc := s₁ ++ '@' :: host } = sanitizeUrl cfg { u with netloc := s₂ ++ '@' :: host } := by
  apply sanitizeUrl_ni
  simp [lowEqUrl, hasUserinfo_userinfo, hostOf_userinfo _ _ hh, lowEqMulti_refl]

/-- Point form, query: the value of a sensitive query parameter at any position is irrelevant. -/
theorem sanitizeUrl_query_secret_irrelevant (cfg : Config) (u : Url) (pre post : List (Str × Str)) (k s₁ s₂ : Str)
    (hk : isSensitive cfg k = true) :
    sanitizeUrl cfg { u with query := pre ++ (k, s₁) :: post } = sanitizeUrl cfg { u with query := pre ++ (k, s₂) :: post } := by
  apply sanitizeUrl_ni
  simp [lowEqUrl, parseQs_lowEq cfg _ _ (lowEqPairs_point cfg pre post k s₁ s₂ hk)]

/-- `sanitize_url`'s result is the reference redaction of its input: scheme, host, path and fragment kept, userinfo
    replaced wholesale, and — read back as a multi-map — the query carries the replacement under every sensitive name and
    the original values elsewhere. -/
theorem sanitizeUrl_correct (cfg : Config) (u : Url) : okUrl cfg u (sanitizeUrl cfg u) = true :=
  sanitizeUrl_ok cfg u

example : sanitizeUrl defaultConfig ⟨"http".toList, "usr:pw@h:80".toList, "/x".toList,
      [("q".toList, "1".toList), ("Api_Key".toList, "S".toList), ("q".toList, "2".toList)], []⟩ =
    ⟨"http".toList, "[Filtered]@h:80".toList, "/x".toList,
      [("q".toList, "1".toList), ("q".toList, "2".toList), ("Api_Key".toList, "[Filtered]".toList)], []⟩ := by decide

/-! ## E. output channels -/

/-- VCR cassette entry, sanitization on: interactions that differ in secrets only (URL userinfo, sensitive query values,
    values of sensitive request / response header names) give the same entry. -/
theorem vcrEntry_noninterference (cfg : Config) (a b : Interaction) (h : lowEqInteraction cfg a b = true) :
    vcrEntry cfg true a = vcrEntry cfg true b := by
  unfold lowEqInteraction at h
  simp only [Bool.and_eq_true] at h
  obtain ⟨⟨hu, hq⟩, hr⟩ := h
  simp only [vcrEntry, if_true, Entry.mk.injEq]
  refine ⟨sanitizeUrl_ni cfg _ _ hu, sanMulti_ni cfg _ _ hq, ?_⟩
  cases ha : a.respHeaders <;> cases hb : b.respHeaders <;> simp_all [lowEqOptMulti]
  exact sanMulti_ni cfg _ _ hr

/-- non-vacuity: two interactions that differ in five secrets (userinfo, query token, request `Authorization`, request
    `Cookie`, response `Set-Cookie`) and in nothing else -/
example : lowEqInteraction defaultConfig
    ⟨⟨"http".toList, "u:S1@h".toList, "/a".toList, [("token".toList, "S2".toList), ("q".toList, "1".toList)], []⟩,
      [("Authorization".toList, ["Bearer S3".toList]), ("COOKIE".toList, ["sid=S4".toList]), ("Accept".toList, ["*/*".toList])],
      some [("set-cookie".toList, ["sid=S5".toList]), ("content-type".toList, ["application/json".toList])]⟩
    ⟨⟨"http".toList, "u:T1@h".toList, "/a".toList, [("token".toList, "T2".toList), ("q".toList, "1".toList)], []⟩,
      [("Authorization".toList, ["Bearer T3".toList]), ("COOKIE".toList, ["sid=T4".toList, "x".toList]), ("Accept".toList, ["*/*".toList])],
      some [("set-cookie".toList, ["sid=T5".toList]), ("content-type".toList, ["application/json".toList])]⟩ = true := by decide

/-- HAR entry: same statement (the HAR fields are functions of the sanitized URL and headers). -/
theorem harEntry_noninterference (cfg : Config) (a b : Interaction) (h : lowEqInteraction cfg a b = true) :
    harEntry cfg true a = harEntry cfg true b := by
  unfold harEntry
  rw [vcrEntry_noninterference cfg a b h]

/-- Sanitization off: both cassette writers emit the recorded values. -/
theorem cassette_off_raw (cfg : Config) (i : Interaction) :
    vcrEntry cfg false i = ⟨i.uri, i.reqHeaders, i.respHeaders⟩ ∧
    harEntry cfg false i = ⟨i.uri, i.uri.query, firstValues i.reqHeaders, i.respHeaders.map firstValues⟩ := by
  simp [vcrEntry, harEntry]

/-- The cassette entry is the reference redaction of the recorded interaction (URL, request and response headers). -/
theorem vcrEntry_correct (cfg : Config) (i : Interaction) : okEntry cfg i (vcrEntry cfg true i) = true := by
  simp only [okEntry, vcrEntry, if_true, sanitizeUrl_ok, okMulti_sanMulti, Bool.true_and]
  cases i.respHeaders <;> simp [okOptMulti, okMulti_sanMulti]

/-- Reproduction command, code as found: non-interference holds for secrets *held under sensitive names* only … -/
theorem prepare_asFound_partial (cfg : Config) (a b : Kwargs) (h : lowEqKwargsNamed cfg a b = true) :
    prepareRequest .asFound cfg true a = prepareRequest .asFound cfg true b := by
  unfold lowEqKwargsNamed at h
  simp only [Bool.and_eq_true, beq_iff_eq] at h
  obtain ⟨⟨⟨⟨hu, hh⟩, hc⟩, hp⟩, ha⟩ := h
  have hd : ∀ x y, lowEqOptDict cfg x y = true → sanOptDict cfg x = sanOptDict cfg y := by
    intro x y hxy
    cases x with
    | none => cases y <;> simp_all [lowEqOptDict]
    | some l =>
      cases y with
      | none => simp [lowEqOptDict] at hxy
      | some l' =>
        have := sanKvs_noninterference cfg l l' (by simpa [lowEqOptDict] using hxy)
        cases l <;> cases l' <;> simp_all [sanOptDict, truthy, lowEqOptDict, lowEqKvs]
  have : sanitizeKwargs cfg a = sanitizeKwargs cfg b := by
    obtain ⟨au, ah, ac, ap, aa⟩ := a
    obtain ⟨bu, bh, bc, bp, ba⟩ := b
    simp only [sanitizeKwargs, Kwargs.mk.injEq]
    exact ⟨sanitizeUrl_ni cfg _ _ hu, sanHeaders_ni cfg _ _ hh, hd _ _ hc, hd _ _ hp, ha⟩
  simp [prepareRequest, this]

example : lowEqKwargsNamed defaultConfig
    ⟨⟨"http".toList, "u:p1@h".toList, "/a".toList, [], []⟩, [("X-Api-Key".toList, "k1".toList)],
      some [("sessionid".toList, .leaf "c1".toList), ("theme".toList, .leaf "dark".toList)], none, none⟩
    ⟨⟨"http".toList, "u:p2@h".toList, "/a".toList, [], []⟩, [("X-Api-Key".toList, "k2".toList)],
      some [("sessionid".toList, .leaf "c2".toList), ("theme".toList, .leaf "dark".toList)], none, none⟩ = true := by decide

/-- … and the full statement (the cookie jar and the auth credentials are secrets too) is false for it:
    a cookie value under a non-sensitive cookie name is printed in the `Cookie` header, … -/
theorem prepare_asFound_cookie_leak :
    let kw : Kwargs := ⟨⟨"http".toList, "h".toList, "/a".toList, [], []⟩, [("X-Plain".toList, "ok".toList)],
                        some [("foo".toList, .leaf "COOKIESECRET".toList)], none, none⟩
    isSensitive defaultConfig "Cookie".toList = true ∧
    mentionsPrepared "COOKIESECRET".toList (prepareRequest .asFound defaultConfig true kw) = true ∧
    mentionsPrepared "COOKIESECRET".toList (prepareRequest .repaired defaultConfig true kw) = false := by
  decide

/-- … and basic-auth credentials attached to the case are printed in the `Authorization` header. -/
theorem prepare_asFound_auth_leak :
    let kw : Kwargs := ⟨⟨"http".toList, "h".toList, "/a".toList, [], []⟩, [("Authorization".toList, "Bearer x".toList)],
                        none, none, some ("usr".toList, "AUTHSECRET".toList)⟩
    mentionsPrepared "AUTHSECRET".toList (prepareRequest .asFound defaultConfig true kw) = true ∧
    mentionsPrepared "AUTHSECRET".toList (prepareRequest .repaired defaultConfig true kw) = false := by
  decide

/-- Reproduction command, repaired (sanitize what `prepare()` produced): full non-interference — URL userinfo, sensitive
    query / header / parameter values, the whole cookie jar and the auth credentials do not influence the output,
    whenever `Cookie` and `Authorization` are sensitive names. -/
theorem prepare_repaired_noninterference (cfg : Config) (a b : Kwargs)
    (hcookie : isSensitive cfg "Cookie".toList = true) (hauth : isSensitive cfg "Authorization".toList = true)
    (h : lowEqKwargs cfg a b = true) :
    prepareRequest .repaired cfg true a = prepareRequest .repaired cfg true b := by
  unfold lowEqKwargs at h
  simp only [Bool.and_eq_true, beq_iff_eq] at h
  obtain ⟨⟨⟨⟨hu, hh⟩, hc⟩, hp⟩, ha⟩ := h
  obtain ⟨au, ah, ac, ap, aa⟩ := a
  obtain ⟨bu, bh, bc, bp, ba⟩ := b
  simp only at hu hh hc hp ha
  have e1 := sanitizeUrl_ni cfg _ _ hu
  have e2 := sanHeaders_ni cfg _ _ hh
  have e4 : sanOptDict cfg ap = sanOptDict cfg bp := by
    cases ap with
    | none => cases bp <;> simp_all [lowEqOptDict]
    | some l =>
      cases bp with
      | none => simp [lowEqOptDict] at hp
      | some l' =>
        have := sanKvs_noninterference cfg l l' (by simpa [lowEqOptDict] using hp)
        cases l <;> cases l' <;> simp_all [sanOptDict, truthy, lowEqOptDict, lowEqKvs]
  have hc' : truthy (sanOptDict cfg ac) = truthy (sanOptDict cfg bc) := by
    rw [truthy_sanOptDict, truthy_sanOptDict, hc]
  simp only [prepareRequest, Bool.not_true, Bool.false_eq_true, if_false, sanitizeKwargs, requestsPrepare, sanPrepared,
    e1, e2, e4, Prepared.mk.injEq, true_and]
  apply map_authStage_congr cfg _ _ _ _ hauth
  · cases aa <;> cases ba <;> simp_all
  · exact map_cookieStage_congr cfg _ _ _ hcookie hc'

example : lowEqKwargs defaultConfig
    ⟨⟨"http".toList, "u:p1@h".toList, "/a".toList, [("token".toList, "t1".toList)], []⟩, [("X-Api-Key".toList, "k1".toList)],
      some [("foo".toList, .leaf "c1".toList)], some [("q".toList, .leaf "x".toList)], some ("u".toList, "pw1".toList)⟩
    ⟨⟨"http".toList, "u:p2@h".toList, "/a".toList, [("token".toList, "t2".toList)], []⟩, [("X-Api-Key".toList, "k2".toList)],
      some [("bar".toList, .leaf "c2".toList), ("baz".toList, .leaf "c3".toList)], some [("q".toList, .leaf "x".toList)],
      some ("v".toList, "pw2".toList)⟩ = true ∧
    isSensitive defaultConfig "Cookie".toList = true ∧ isSensitive defaultConfig "Authorization".toList = true := by decide

/-- Sanitization off: the request is prepared from the raw kwargs (both variants). -/
theorem prepare_off_raw (v : Variant) (cfg : Config) (kw : Kwargs) : prepareRequest v cfg false kw = requestsPrepare kw := by
  simp [prepareRequest]

/-- The repaired reproduction command carries the replacement under every sensitive header name. -/
theorem prepare_repaired_headers_redacted (cfg : Config) (kw : Kwargs) :
    okPreparedHeaders cfg (prepareRequest .repaired cfg true kw).headers = true := by
  simp only [prepareRequest, Bool.not_true, Bool.false_eq_true, if_false, sanPrepared, okPreparedHeaders, List.all_map,
    List.all_eq_true]
  intro x _
  obtain ⟨k, v⟩ := x
  simp only [Function.comp, redactHeader, sensitiveB_eq]
  by_cases hs : isSensitive cfg k = true <;> simp [hs]

/-- JUnit `<failure message>` and the console failure block embed the stored code sample and nothing else that is
    sanitization-relevant: their non-interference is that of the reproduction command. -/
theorem failureBlock_noninterference (cfg : Config) (a b : Kwargs)
    (hcookie : isSensitive cfg "Cookie".toList = true) (hauth : isSensitive cfg "Authorization".toList = true)
    (h : lowEqKwargs cfg a b = true) :
    failureBlock (prepareRequest .repaired cfg true a) = failureBlock (prepareRequest .repaired cfg true b) := by
  unfold failureBlock
  exact prepare_repaired_noninterference cfg a b hcookie hauth h

/-! ### the cassette's `command:` field -/

/-- Code as found: the command line is echoed verbatim whatever the sanitization setting — the secret is in the output. -/
theorem commandRepr_asFound_leaks :
    let args := [Arg.word "run".toList, .word "--auth".toList, .word "usr:ARGSECRET".toList,
                 .word "-H".toList, .word "X-Api-Key: HDRSECRET".toList]
    mentionsCommand "ARGSECRET".toList (commandRepr .asFound defaultConfig true "/venv/bin/st".toList args) = true ∧
    mentionsCommand "HDRSECRET".toList (commandRepr .asFound defaultConfig true "/venv/bin/st".toList args) = true ∧
    mentionsCommand "ARGSECRET".toList (commandRepr .repaired defaultConfig true "/venv/bin/st".toList args) = false ∧
    mentionsCommand "HDRSECRET".toList (commandRepr .repaired defaultConfig true "/venv/bin/st".toList args) = false := by
  decide

/-- Sanitization off (or an entry point other than the CLI): the field is the raw command line / the fixed marker. -/
theorem commandRepr_off_raw (v : Variant) (cfg : Config) (argv0 : Str) (args : List Arg) :
    commandRepr v cfg false argv0 args = .unknown ∨ commandRepr v cfg false argv0 args = .st (rawArgs args) := by
  unfold commandRepr
  generalize (endsWith argv0 "schemathesis".toList || endsWith argv0 "st".toList) = c
  cases c <;> cases v <;> simp

/-- Repaired, the words before an option are parsed on their own: the rendering of a command line splits at any point
    where no auth / header option is waiting for its value. -/
theorem sanArgs_append (cfg : Config) : ∀ (pre rest : List Arg), dangling pre = false →
    sanArgs cfg (pre ++ rest) = sanArgs cfg pre ++ sanArgs cfg rest
  | [], rest, _ => by simp [sanArgs]
  | [a], rest, h => by
    simp only [dangling, Bool.or_eq_false_iff] at h
    cases rest with
    | nil => simp [sanArgs]
    | cons b rest => simp [sanArgs, h.1, h.2]
  | a :: b :: pre, rest, h => by
    simp only [dangling] at h
    by_cases h1 : a.isOpt authOpts = true
    · simp only [h1, Bool.true_or, if_true] at h
      simp [sanArgs, h1, sanArgs_append cfg pre rest h]
    · by_cases h2 : a.isOpt headerOpts = true
      · simp only [h2, Bool.or_true, if_true] at h
        simp [sanArgs, h1, h2, sanArgs_append cfg pre rest h]
      · simp only [h1, h2, Bool.false_eq_true, Bool.or_self, if_false] at h
        have := sanArgs_append cfg (b :: pre) rest h
        simp only [List.cons_append] at this ⊢
        simp [sanArgs, h1, h2, this]

/-- Repaired: the word that follows `-a` / `--auth` anywhere on the command line does not influence the field. -/
theorem commandRepr_repaired_auth_irrelevant (cfg : Config) (argv0 : Str) (pre post : List Arg) (opt : Arg) (s₁ s₂ : Arg)
    (hpre : dangling pre = false) (hopt : opt.isOpt authOpts = true) :
    commandRepr .repaired cfg true argv0 (pre ++ opt :: s₁ :: post) =
    commandRepr .repaired cfg true argv0 (pre ++ opt :: s₂ :: post) := by
  unfold commandRepr
  simp only [if_true, sanArgs_append cfg pre _ hpre, sanArgs, hopt]

/-- Repaired: the value of a header given as `NAME: VALUE` after `-H` / `--header` does not influence the field when the
    name is sensitive. -/
theorem commandRepr_repaired_header_irrelevant (cfg : Config) (argv0 : Str) (pre post : List Arg) (opt : Arg)
    (name s₁ s₂ : Str) (hpre : dangling pre = false) (hopt : opt.isOpt headerOpts = true)
    (hnoauth : opt.isOpt authOpts = false) (hname : ':' ∉ name) (hsens : isSensitive cfg (strip name) = true) :
    commandRepr .repaired cfg true argv0 (pre ++ opt :: .word (name ++ ':' :: s₁) :: post) =
    commandRepr .repaired cfg true argv0 (pre ++ opt :: .word (name ++ ':' :: s₂) :: post) := by
  unfold commandRepr
  simp only [if_true, sanArgs_append cfg pre _ hpre, sanArgs, hopt, hnoauth, Bool.false_eq_true, if_false, Arg.raw,
    sanHeaderArg, partitionColon_name name _ hname [], List.reverse_nil, List.nil_append, hsens]

example : (Arg.word "-H".toList).isOpt headerOpts = true ∧ (Arg.word "-H".toList).isOpt authOpts = false ∧
    ':' ∉ "X-Api-Key".toList ∧ isSensitive defaultConfig (strip "X-Api-Key".toList) = true := by decide

/-- Repaired: a URL word (schema location, `--base-url` value, …) that is not an option value is rendered through
    `sanitize_url`: userinfo and sensitive query values are irrelevant. -/
theorem commandRepr_repaired_url_irrelevant (cfg : Config) (argv0 : Str) (pre post : List Arg) (r₁ r₂ : Str) (u₁ u₂ : Url)
    (hpre : dangling pre = false) (hpost : post ≠ [])
    (hr₁ : sanAttached cfg r₁ attachedForms = none) (hr₂ : sanAttached cfg r₂ attachedForms = none)
    (ho₁ : (Arg.url r₁ u₁).isOpt authOpts = false ∧ (Arg.url r₁ u₁).isOpt headerOpts = false)
    (ho₂ : (Arg.url r₂ u₂).isOpt authOpts = false ∧ (Arg.url r₂ u₂).isOpt headerOpts = false)
    (h : lowEqUrl cfg u₁ u₂ = true) :
    commandRepr .repaired cfg true argv0 (pre ++ .url r₁ u₁ :: post) =
    commandRepr .repaired cfg true argv0 (pre ++ .url r₂ u₂ :: post) := by
  unfold commandRepr
  obtain ⟨b, rest, rfl⟩ : ∃ b rest, post = b :: rest := by
    cases post with
    | nil => exact absurd rfl hpost
    | cons b rest => exact ⟨b, rest, rfl⟩
  simp only [if_true, sanArgs_append cfg pre _ hpre, sanArgs, ho₁.1, ho₁.2, ho₂.1, ho₂.2, Bool.false_eq_true, if_false,
    sanArg0, Arg.raw, hr₁, hr₂, sanitizeUrl_ni cfg u₁ u₂ h]

example : dangling [Arg.word "run".toList, .word "--workers".toList, .word "2".toList] = false ∧
    (Arg.word "--auth".toList).isOpt authOpts = true ∧
    sanAttached defaultConfig "http://u:p@h/x".toList attachedForms = none := by decide

/-! ### console: schema location and base URL -/

/-- Code as found: the location is printed verbatim. -/
theorem consoleIntro_asFound_leaks :
    let loc : Url := ⟨"http".toList, "usr:LOCSECRET@h".toList, "/openapi.json".toList, [], []⟩
    let base : Url := ⟨"http".toList, "h".toList, "/api".toList, [], []⟩
    mentionsUrl "LOCSECRET".toList (consoleIntro .asFound defaultConfig true loc base).1 = true ∧
    mentionsUrl "LOCSECRET".toList (consoleIntro .repaired defaultConfig true loc base).1 = false := by
  decide

example : lowEqUrl defaultConfig ⟨"http".toList, "usr:A@h".toList, "/o.json".toList, [("api_key".toList, "B".toList)], []⟩
    ⟨"http".toList, "other:C@h".toList, "/o.json".toList, [("api_key".toList, "D".toList), ("api_key".toList, "E".toList)], []⟩ = true := by
  decide

/-- Repaired: both printed URLs are non-interferent; with sanitization off they are printed raw. -/
theorem consoleIntro_repaired_noninterference (cfg : Config) (l₁ l₂ b₁ b₂ : Url)
    (hl : lowEqUrl cfg l₁ l₂ = true) (hb : lowEqUrl cfg b₁ b₂ = true) :
    consoleIntro .repaired cfg true l₁ b₁ = consoleIntro .repaired cfg true l₂ b₂ ∧
    consoleIntro .repaired cfg false l₁ b₁ = (l₁, b₁) := by
  simp [consoleIntro, sanitizeUrl_ni cfg _ _ hl, sanitizeUrl_ni cfg _ _ hb]

end SV.Props.C15
