/-
  C16 — report files are well-formed and faithful to the traffic.  Property theorems only
  (definitions live in SV/Model/C16.lean and SV/Spec/C16.lean, helper lemmas in SV/Proofs/C16*.lean).
-/
import SV.Proofs.C16Lines
import SV.Proofs.C16Run
import SV.Proofs.C16Exit

namespace SV.Props.C16
open SV.Model.C16 SV.Spec.C16 SV.Proofs.C16

/-! ## scalar codecs -/

/-- Core codec theorem: whatever text (any code points, lone surrogates and astral characters included) is given to
    `write_double_quoted`, a YAML reader gets exactly that text back and continues right after the closing quote. -/
theorem dq_roundtrip (s rest : Str) (hs : ∀ c ∈ s, c < 0x110000) :
    decodeDQ (writeDQ s ++ rest) = some (s, rest) :=
  dq_roundtrip0 s rest (by simpa [cpOK] using hs)

/-- Everything `write_double_quoted` emits is a YAML-printable character that is not a line break: the scalar stays
    on its line and the stream passes the reader's character check. -/
theorem dq_output_inline (s : Str) : ∀ x ∈ writeDQ s, inlineCh x = true := by
  intro x hx
  simp only [writeDQ, List.mem_cons, List.mem_append, List.not_mem_nil, or_false] at hx
  rcases hx with rfl | hx | rfl
  · decide
  · exact dqBody_inline s x hx
  · decide

/-- `None` is written as the plain scalar `null`. -/
theorem dq_none : writeDQOpt none = lit "null" := rfl

/-- `json.dumps` (header values, reason phrase) read as a YAML double-quoted scalar is lossless for every text of the
    Basic Multilingual Plane — in particular for everything latin-1, which is all an HTTP header can carry. -/
theorem json_roundtrip (s rest : Str) (hs : ∀ c ∈ s, c < 0x10000) :
    decodeDQ (jsonDumps s ++ rest) = some (s, rest) :=
  json_roundtrip' s rest hs

/-- … and only for those: an astral character comes back as two surrogates (kernel-checked witness). -/
theorem json_astral_full_false :
    ¬ (∀ s : Str, (∀ c ∈ s, c < 0x110000) → decodeDQ (jsonDumps s) = some (s, [])) := by
  intro h
  have := h [0x1F600] (by decide)
  revert this
  decide

/-- `json.dumps` output is printable ASCII. -/
theorem json_output_ascii (s : Str) : ∀ x ∈ jsonDumps s, 0x20 ≤ x ∧ x ≤ 0x7E := jsonDumps_ascii s

/-- The writer's `'{x}'` sites as found: lossless exactly as long as the text has no quote and stays on the line. -/
theorem sq_asFound_roundtrip_partial (s : Str) (h : ∀ c ∈ s, inlineCh c = true ∧ c ≠ 39) :
    decodeSQ (quoteS .asFound s) = some (s, []) := by
  simp only [quoteS, decodeSQ, if_true, decodeSQBody]
  simpa using sqF_plain s [] h

/-- Full statement for the `'{x}'` sites as found is false: `it's` is read back as `it` followed by garbage. -/
theorem sq_asFound_full_false :
    ¬ (∀ s : Str, (∀ c ∈ s, c < 0x110000) → decodeSQ (quoteS .asFound s) = some (s, [])) := by
  intro h
  have := h (lit "it's") (by decide)
  revert this
  decide

/-- Repaired `'{x}'` sites (routed through `write_double_quoted`): lossless for every Python string. -/
theorem sq_repaired_roundtrip (s rest : Str) (hs : ∀ c ∈ s, c < 0x110000) :
    decodeDQ (quoteS .repaired s ++ rest) = some (s, rest) := dq_roundtrip s rest hs

/-- preserve-bytes: the base64 text decodes to exactly the payload bytes (`serialize_payload`). -/
theorem b64_roundtrip (bs : List Nat) (h : ∀ b ∈ bs, b < 256) : b64decode (b64encode bs) = some bs := by
  induction bs using b64encode.induct with
  | case1 => rfl
  | case2 a =>
    have ha : a < 256 := h a (by simp)
    simp only [b64encode, b64decode, if_true, ne_eq, not_true_eq_false, if_false,
      b64Val_b64Char (a / 4) (by omega), b64Val_b64Char (a % 4 * 16) (by omega)]
    congr 2; omega
  | case3 a b =>
    have ha : a < 256 := h a (by simp)
    have hb : b < 256 := h b (by simp)
    have hne : b64Char (b % 16 * 4) ≠ 61 := b64Char_ne_pad _ (by omega)
    simp only [b64encode, b64decode, if_true, ne_eq, not_true_eq_false, if_false, hne,
      b64Val_b64Char (a / 4) (by omega), b64Val_b64Char (a % 4 * 16 + b / 16) (by omega),
      b64Val_b64Char (b % 16 * 4) (by omega)]
    congr 2
    · omega
    · congr 1; omega
  | case4 a b c rest ih =>
    have ha : a < 256 := h a (by simp)
    have hb : b < 256 := h b (by simp)
    have hc : c < 256 := h c (by simp)
    have hr : ∀ x ∈ rest, x < 256 := fun x hx => h x (by simp [hx])
    have hne : b64Char (c % 64) ≠ 61 := b64Char_ne_pad _ (by omega)
    simp only [b64encode, b64decode, hne, if_false, ih hr, b64Quad,
      b64Val_b64Char (a / 4) (by omega), b64Val_b64Char (a % 4 * 16 + b / 16) (by omega),
      b64Val_b64Char (b % 16 * 4 + c / 64) (by omega), b64Val_b64Char (c % 64) (by omega)]
    congr 2
    · omega
    · congr 1
      · omega
      · congr 1; omega

/-! ## the VCR cassette -/

/-- One line of the repaired writer, read by the YAML line grammar, is exactly its indentation, key and value. -/
theorem vcr_line_parses (l : Line) (h : lineOK l = true) : parseLine (l.text .repaired) = lineTok l :=
  parseLine_ok l h

/-- Well-formedness and faithfulness of one interaction (repaired writer, both body modes): for every interaction
    whose strings are Python strings (header values / reason phrase BMP, the bare numbers plain scalars) the text the
    writer appends splits into its lines, every line is in the grammar, and the reader gets exactly the indentation /
    key / value stream of the recorded data — id, status, metadata, checks, URI, method, headers, bodies, response. -/
theorem vcr_entry_wellformed (p : Bool) (e : Entry) (h : entryOK e = true) :
    decodeDoc ((renderEntry .repaired p e).drop 1) = (entryLinesS .repaired p e).mapM lineTok ∧
    ((entryLinesS .repaired p e).mapM lineTok).isSome = true := by
  have hok := entryLinesS_ok p e h
  simp only [List.all_eq_true] at hok
  have hpar : ∀ l ∈ entryLinesS .repaired p e, parseLine (l.text .repaired) = lineTok l := fun l hl => parseLine_ok l (hok l hl)
  have hsome : ∀ l ∈ entryLinesS .repaired p e, lineTok l = some ((lineTok l).getD default) := by
    intro l hl
    obtain ⟨t, ht⟩ := lineTok_some l (hok l hl)
    simp [ht]
  have hm := mapM_some lineTok (fun l => (lineTok l).getD default) _ hsome
  refine ⟨?_, by simp [hm]⟩
  unfold decodeDoc renderEntry entryLines
  cases hL : entryLinesS .repaired p e with
  | nil => simp [entryLinesS] at hL
  | cons l0 ls =>
    rw [hL] at hok hpar
    simp only [List.map_cons, joinLines, List.drop_succ_cons, List.drop_zero]
    rw [splitLines_join]
    · exact mapM_map_congr parseLine (Line.text .repaired) lineTok (l0 :: ls) hpar
    · intro m hm
      rw [← List.map_cons, List.mem_map] at hm
      obtain ⟨l, hl, rfl⟩ := hm
      exact line_noLF l (hok l hl)

/-- Exactly once: every interaction contributes exactly one top-level sequence item (its `- id:` line), in both
    variants and body modes; the cassette therefore lists as many items as interactions were delivered, in order. -/
theorem vcr_exactly_once (v : Variant) (p : Bool) (es : List Entry) :
    ((es.flatMap (entryLinesS v p)).filter topItem).length = es.length ∧
    (es.flatMap (entryLinesS v p)).filter topItem = es.map fun e => Line.kv 0 true (lit "id") (.sq e.id) := by
  have h1 : ∀ e, (entryLinesS v p e).filter topItem = [Line.kv 0 true (lit "id") (.sq e.id)] := entry_topItems v p
  have h2 : (es.flatMap (entryLinesS v p)).filter topItem = es.map fun e => Line.kv 0 true (lit "id") (.sq e.id) := by
    induction es with
    | nil => rfl
    | cons e es ih => simp only [List.flatMap_cons, List.filter_append, h1, ih, List.map_cons, List.cons_append, List.nil_append]
  exact ⟨by simp [h2], h2⟩

/-- As found, a case without metadata breaks the file: the status line `status: 'X'null` is in no YAML grammar
    (for every such interaction, whatever else it contains). -/
theorem vcr_meta_none_full_false (p : Bool) (e : Entry) (hm : e.cmeta = none) :
    ∃ l ∈ entryLinesS .asFound p e, parseLine (l.text .asFound) = none := by
  refine ⟨.kv 2 false (lit "status") (.sqJunk (statusOf e) (lit "null")), ?_, ?_⟩
  · simp [entryLinesS, hm]
  · have : statusOf e = lit "ERROR" ∨ statusOf e = lit "SKIP" ∨ statusOf e = lit "FAILURE" ∨ statusOf e = lit "SUCCESS" := by
      unfold statusOf
      split
      · exact Or.inl rfl
      · split
        · exact Or.inr (Or.inl rfl)
        · split
          · exact Or.inr (Or.inr (Or.inl rfl))
          · exact Or.inr (Or.inr (Or.inr rfl))
    rcases this with h | h | h | h <;> rw [h] <;> decide

/-- As found the writer (thread) dies on a response whose declared charset Python does not know, unless bodies are
    kept as bytes; the repaired writer never does. -/
theorem vcr_writer_raises (p : Bool) (e : Entry) :
    (writerRaises .asFound p e = true ↔ p = false ∧ ∃ r, e.response = some r ∧ r.codecKnown = false) ∧
    writerRaises .repaired p e = false := by
  constructor
  · unfold writerRaises
    cases e.response with
    | none => simp
    | some r => cases p <;> simp
  · unfold writerRaises; rfl

/-- The status scalar: ERROR without a response, SKIP when no check was recorded, FAILURE iff some check failed. -/
theorem status_spec (e : Entry) :
    (e.response = none → statusOf e = lit "ERROR") ∧
    (∀ r cs, e.response = some r → e.checks = some cs →
      (statusOf e = lit "FAILURE" ↔ ∃ c ∈ cs, c.failed = true) ∧ (statusOf e = lit "FAILURE" ∨ statusOf e = lit "SUCCESS")) := by
  refine ⟨fun h => by simp [statusOf, h], ?_⟩
  intro r cs hr hc
  simp only [statusOf, hr, hc]
  by_cases hany : cs.any (·.failed) = true
  · simp only [hany, if_true, true_iff, true_or, and_true]
    simpa using hany
  · simp only [hany, Bool.false_eq_true, if_false, or_true, and_true]
    constructor
    · intro h; exact absurd h (by decide)
    · intro h; exact absurd (by simpa using h) hany

/-! ## the JUnit report: `handle_event` over every event history -/

/-- As found the handler raises `KeyError` on a history the engine produces: a failure of `GET /a` found again under
    `Stateful tests`. -/
theorem junit_asFound_keyerror : runEvents .asFound Stat.init JUnit.init witnessHistory = none := by decide

/-- Full statement (never raises, for every history) is false as found. -/
theorem junit_asFound_full_false : ¬ (∀ h : List Event, (runEvents .asFound Stat.init JUnit.init h).isSome = true) := by
  intro h
  have := h witnessHistory
  rw [junit_asFound_keyerror] at this
  exact absurd this (by decide)

/-- What does hold as found: no exception on histories where every scenario finishing with FAILURE brings a failure not
    seen before, or carries a label that already owns failures. -/
theorem junit_asFound_total_partial (h : List Event) : ∀ (st : Stat) (j : JUnit), AllCovered st h →
    (runEvents .asFound st j h).isSome = true := by
  induction h with
  | nil => intro st j _; simp [runEvents]
  | cons ev rest ih =>
    intro st j hc
    obtain ⟨hcov, hrest⟩ := hc
    simp only [runEvents]
    cases ev with
    | scenarioFinished status hasSkip r =>
      cases status with
      | failure =>
        have := onScenarioFinished_label st r hcov
        simp only [ctxStep, junitStep]
        cases hg : ndGet r.label (onScenarioFinished st r).failures with
        | none => simp [hg] at this
        | some gs => simp only; exact ih _ _ hrest
      | success => simp only [ctxStep, junitStep]; exact ih _ _ hrest
      | error => simp only [ctxStep, junitStep]; exact ih _ _ hrest
      | interrupted => simp only [ctxStep, junitStep]; exact ih _ _ hrest
      | skip => simp only [ctxStep, junitStep]; exact ih _ _ hrest
    | nonFatalError l => simp only [ctxStep, junitStep]; exact ih _ _ hrest
    | engineFinished => simp only [ctxStep, junitStep]; exact ih _ _ hrest
    | other => simp only [ctxStep, junitStep]; exact ih _ _ hrest

/-- Repaired look-up (`failures.get(label)`): the handler never raises, for every event history and every state. -/
theorem junit_repaired_total (h : List Event) : ∀ (st : Stat) (j : JUnit), (runEvents .repaired st j h).isSome = true := by
  induction h with
  | nil => intro st j; simp [runEvents]
  | cons ev rest ih =>
    intro st j
    simp only [runEvents]
    have := junitStep_repaired_some (ctxStep st ev) j ev
    cases hj : junitStep .repaired (ctxStep st ev) j ev with
    | none => simp [hj] at this
    | some j' => exact ih _ _

/-- A scenario that finished with FAILURE always leaves a failure entry in its test case (both variants, when the
    handler does not raise). -/
theorem junit_failure_recorded (v : Variant) (st : Stat) (j j' : JUnit) (hs : Bool) (r : Recorder)
    (h : junitStep v st j (.scenarioFinished .failure hs r) = some j') :
    ∃ subs, ndGet r.label j'.testCases = some subs ∧ ∃ g, Sub.failure g ∈ subs := by
  simp only [junitStep] at h
  split at h
  · rename_i gs _
    injection h with h
    subst h
    exact ⟨_, by simp only [addSub]; exact ndGet_ndSet_same _ _ _, gs.map (·.2), by simp⟩
  · cases v with
    | asFound => simp at h
    | repaired =>
      injection h with h
      subst h
      exact ⟨_, by simp only [addSub]; exact ndGet_ndSet_same _ _ _, [], by simp⟩

/-! ## HAR: response header look-ups -/

/-- As found: `har_writer` asks the lower-cased response headers for a name with a capital letter (`Content-Type`,
    `Set-Cookie`, `Location`) — the answer is empty for every response. -/
theorem har_asFound_always_empty (hs : List (Str × List Str)) (name : Str) (hn : ∃ c ∈ name, 65 ≤ c ∧ c ≤ 90) :
    harFirst .asFound name (lowerHeaders hs []) = [] := by
  unfold harFirst harKey
  have hk := lowerHeaders_keys hs [] (by simp)
  have : dictGet name (lowerHeaders hs []) = none := by
    apply dictGet_none_of_keys
    intro p hp e
    obtain ⟨c, hc, hcu⟩ := hn
    exact hk p hp c (e ▸ hc) hcu
  simp [this]

/-- Repaired (look-up by the lower-cased name): a header the response carries, in whatever case, is found. -/
theorem har_repaired_finds (hs : List (Str × List Str)) (name : Str) (h : ∃ p ∈ hs, lower p.1 = lower name) :
    (dictGet (harKey .repaired name) (lowerHeaders hs [])).isSome = true :=
  lowerHeaders_finds hs [] name (Or.inl h)

/-! ## several report handlers in one run (`initialize_handlers` + `_execute` + the writer threads) -/

/-- `initialize_handlers` gives every cassette writer a queue object of its own (`field(default_factory=Queue)`). -/
theorem init_handlers_own_queues (formats : List Report) (i : Nat) :
    OwnQueue (cfgOf (initCassettes formats)) (initCassettes formats).length i := by
  intro j _ hji
  simpa [cfgOf] using hji

/-- Exactly once, whatever else is written at the same time.  For every set of cassette writers in which writer `i`
    shares its queue object with no other, every seed, every event history, every point at which a later handler raises,
    and EVERY interleaving of the main thread with the writer threads:
    * what writer `i` has put into its file so far is a prefix of the report the specification asks for
      (the preamble once for VCR, then each delivered exchange once, in delivery order) — nothing foreign, nothing twice,
      also while the run is still going or when `shutdown` stopped waiting for the thread;
    * when the writer has returned, the file is exactly that report;
    * the writer never waits forever: once `_execute` has put everything, a writer that has not returned still has a
      message to take. -/
theorem execute_cassette_exactly_once (cfg : Nat → HCfg) (n i : Nat) (hi : i < n) (hown : OwnQueue cfg n i)
    (seed : Option Nat) (evs : List Ev) (crash : Option (Nat × Nat)) (sched : List Act) :
    let s := run cfg n sched (Sys.init (mainProgram n seed evs crash))
    ((s.ws i).out <+: expectedFile (cfg i).fmt seed (deliveredTo i evs crash)) ∧
    ((s.ws i).done = true → reportOK (cfg i).fmt seed (deliveredTo i evs crash) (s.ws i).out = true) ∧
    (s.pc = [] → (s.ws i).done = false → s.queues (cfg i).queue ≠ []) := by
  intro s
  obtain ⟨h1, h2, h3⟩ := writer_after_run cfg n i hi hown seed evs crash sched
  exact ⟨h1, fun hd => by have := h2 hd; simp only [reportOK]; exact beq_iff_eq.mpr this, h3⟩

/-- The same for the handlers `initialize_handlers` actually builds: every requested cassette (`--report=vcr,har`,
    either one alone, with or without JUnit) ends up with every delivered exchange exactly once, under every
    interleaving. -/
theorem execute_reports_exactly_once (formats : List Report) (i : Nat) (hi : i < (initCassettes formats).length)
    (seed : Option Nat) (evs : List Ev) (crash : Option (Nat × Nat)) (sched : List Act) :
    let fs := initCassettes formats
    let s := run (cfgOf fs) fs.length sched (Sys.init (mainProgram fs.length seed evs crash))
    (s.ws i).done = true → (s.ws i).out = expectedFile (fs.getD i .vcr) seed (deliveredTo i evs crash) := by
  intro fs s hd
  exact (writer_after_run (cfgOf fs) fs.length i hi (init_handlers_own_queues formats i) seed evs crash sched).2.1 hd

/-- No deadlock and no lost message: from ANY point of ANY interleaving, letting the main thread finish and then every
    writer run makes every writer return with its report complete — `shutdown`'s join never waits for a thread that
    cannot finish, and a report that was cut short by the join time-out is completed by its thread. -/
theorem execute_completes (cfg : Nat → HCfg) (n : Nat) (hown : ∀ i, i < n → OwnQueue cfg n i) (seed : Option Nat)
    (evs : List Ev) (crash : Option (Nat × Nat)) (sched : List Act) :
    let pc0 := mainProgram n seed evs crash
    let s := run cfg n (sched ++ (List.replicate pc0.length .main ++ drainSched pc0.length n)) (Sys.init pc0)
    s.pc = [] ∧ ∀ i, i < n → (s.ws i).done = true ∧ (s.ws i).out = expectedFile (cfg i).fmt seed (deliveredTo i evs crash) := by
  intro pc0 s
  obtain ⟨hpc, hdone⟩ := completes cfg n hown seed evs crash sched
  exact ⟨hpc, fun i hi => ⟨hdone i hi, (writer_after_run cfg n i hi (hown i hi) seed evs crash _).2.1 (hdone i hi)⟩⟩

/-- Running the main thread to the end and then every writer in turn is an interleaving after which both writers of
    `--report=vcr,har` have returned (the hypotheses of the theorems above are met by real runs). -/
theorem execute_completes_example :
    let fs := initCassettes [.vcr, .har, .junit]
    let s := run (cfgOf fs) 2 (List.replicate 8 .main ++ List.replicate 4 (.work 0) ++ List.replicate 4 (.work 1))
      (Sys.init (mainProgram 2 (some 1) [some [10, 11], none, some [12]] none))
    (s.ws 0).done = true ∧ (s.ws 1).done = true ∧
    (s.ws 0).out = [.preamble (some 1), .entry 10, .entry 11, .entry 12] ∧ (s.ws 1).out = [.entry 10, .entry 11, .entry 12] := by
  decide

/-- The hypothesis "writer `i` shares its queue with no other writer" cannot be dropped: with one queue object behind
    both writers there is an interleaving after which both writers have returned, the VCR cassette lacks its preamble
    and an exchange, and the HAR file lists an exchange twice. -/
theorem shared_queue_full_false :
    ¬ (∀ (cfg : Nat → HCfg) (n i : Nat) (seed : Option Nat) (evs : List Ev) (sched : List Act), i < n →
        let s := run cfg n sched (Sys.init (mainProgram n seed evs none))
        (s.ws i).done = true → (s.ws i).out = expectedFile (cfg i).fmt seed (deliveredTo i evs none)) := by
  intro h
  have := h sharedCfg 2 0 (some 1) [some [10], some [11]]
    (List.replicate 8 .main ++ [.work 1, .work 1, .work 1, .work 0, .work 1, .work 1, .work 1, .work 0, .work 0]) (by decide)
  revert this
  decide

/-! ## the end of the run: `shutdown`'s join, `_execute` leaving, click closing the files it opened

`CassetteWriter.shutdown` puts `Finalize` and joins the writer thread; then `_execute` is left through `sys.exit` (or an
exception) and click closes the context of the command - with it the lazy files of `--report-vcr-path` /
`--report-har-path`; the interpreter then waits for the writer threads, which are not daemons.  `.repaired`: `join()`
waits for the thread; `.asFound`: `join(1)` may return while the writer still has a backlog. -/

/-- Repaired ordering (join without time-out), at full strength: for every set of cassette writers (own queues), every
    owner of every report file, seed, event history, point at which a later handler raises, and EVERY interleaving of
    the main thread (puts, joins, exit) with the writer threads - as soon as `_execute` has been left, every report on
    disk is what the property asks for: no fragment, the document closed, the preamble and each delivered exchange
    exactly once in delivery order; every writer has returned and none died. -/
theorem exit_reports_complete (cfg : Nat → HCfg) (owner : Nat → Owner) (n : Nat) (hown : ∀ i, i < n → OwnQueue cfg n i)
    (seed : Option Nat) (evs : List Ev) (crash : Option (Nat × Nat)) (sched : List PAct) :
    let p := prun .repaired cfg owner n sched (PSys.init (mainProgram n seed evs crash))
    p.exited = true → ∀ i, i < n →
      finalReportOK (cfg i).fmt seed (deliveredTo i evs crash) (diskOf cfg p i) = true ∧
      (p.sys.ws i).done = true ∧ p.dead i = false := by
  intro p hex i hi
  obtain ⟨hd, hdead, htorn, hout⟩ := exited_complete cfg owner n hown seed evs crash sched hex i hi
  refine ⟨?_, hd, hdead⟩
  have hd' : (p.sys.ws i).done = true := hd
  have ht' : p.torn i = false := htorn
  have ho' : (p.sys.ws i).out = expectedFile (cfg i).fmt seed (deliveredTo i evs crash) := hout
  simp only [finalReportOK, diskOf, reportOK, ht', hd', ho']
  cases (cfg i).fmt <;> simp

/-- … and waiting for the thread cannot hang the run: from ANY point of ANY interleaving, letting the main thread put
    what is left, the writers drain their queues, every join return because its thread has terminated, and the command
    exit, is a continuation under the repaired ordering - `_execute` is left, and (previous theorem) with complete
    reports. -/
theorem exit_repaired_terminates (cfg : Nat → HCfg) (owner : Nat → Owner) (n : Nat) (hown : ∀ i, i < n → OwnQueue cfg n i)
    (seed : Option Nat) (evs : List Ev) (crash : Option (Nat × Nat)) (sched : List PAct) :
    let pc0 := mainProgram n seed evs crash
    let p := prun .repaired cfg owner n (sched ++ finishSched pc0.length n) (PSys.init pc0)
    Terminated n p ∧ ∀ i, i < n → finalReportOK (cfg i).fmt seed (deliveredTo i evs crash) (diskOf cfg p i) = true := by
  intro pc0 p
  have hex : p.exited = true := finishes cfg owner n hown seed evs crash sched
  have hall := exit_reports_complete cfg owner n hown seed evs crash (sched ++ finishSched pc0.length n) hex
  exact ⟨⟨hex, fun i hi => Or.inl (hall i hi).2.1⟩, fun i hi => (hall i hi).1⟩

/-- The code as found does not have this property (kernel-checked witnesses).  One VCR writer on a
    `--report-vcr-path` file, two scenarios: the writer has written the preamble when `join(1)` times out; `_execute`
    is left, click closes the file while the writer is inside the body of the first `Process`; the thread dies with
    `ValueError` - the process ends with a cassette that holds the preamble and a fragment.  Same with HAR, the close
    falling between two loop bodies: the file ends without its closing brackets. -/
theorem exit_asFound_full_false :
    ¬ (∀ (cfg : Nat → HCfg) (owner : Nat → Owner) (n i : Nat) (seed : Option Nat) (evs : List Ev) (sched : List PAct),
        i < n → OwnQueue cfg n i →
        let p := prun .asFound cfg owner n sched (PSys.init (mainProgram n seed evs none))
        Terminated n p → finalReportOK (cfg i).fmt seed (deliveredTo i evs none) (diskOf cfg p i) = true) := by
  intro h
  have := h (cfgOf [.vcr]) (fun _ => .option) 1 0 (some 1) [some [10], some [11]]
    (List.replicate 4 (.base .main) ++ [.base (.work 0), .join false, .exit [0]]) (by decide)
    (fun j hj hne => absurd (by omega) hne)
  revert this
  simp only [Terminated]
  decide

theorem exit_asFound_har_witness :
    let p := prun .asFound (cfgOf [.har]) (fun _ => .option) 1
      (List.replicate 3 (.base .main) ++ [.join false, .exit [], .base (.work 0), .base (.work 0), .base (.work 0)])
      (PSys.init (mainProgram 1 none [some [10]] none))
    p.exited = true ∧ p.dead 0 = true ∧ diskOf (cfgOf [.har]) p 0 = ⟨[], false, false⟩ := by
  decide

/-- What the code as found does guarantee (1): a report whose file click does not own (`--report=vcr,har`, with or
    without `--report-dir`) is complete when the process is over, whatever the joins did - the interpreter waits for
    the writer thread and nobody closes the file under it. -/
theorem exit_asFound_reportDir_partial (v : Variant) (cfg : Nat → HCfg) (owner : Nat → Owner) (n i : Nat) (hi : i < n)
    (hown : OwnQueue cfg n i) (ho : owner i = .reportDir) (seed : Option Nat) (evs : List Ev) (crash : Option (Nat × Nat))
    (sched : List PAct) :
    let p := prun v cfg owner n sched (PSys.init (mainProgram n seed evs crash))
    Terminated n p → finalReportOK (cfg i).fmt seed (deliveredTo i evs crash) (diskOf cfg p i) = true := by
  intro p ht
  have hinv : DirInv i p := dirinv_run v cfg owner n i ho sched _ ⟨rfl, rfl, rfl⟩
  have hd : (p.sys.ws i).done = true := by
    rcases ht.2 i hi with h | h
    · exact h
    · rw [hinv.dead] at h; exact absurd h (by simp)
  obtain ⟨bs, hbs⟩ := prun_sys v cfg owner n sched (PSys.init (mainProgram n seed evs crash))
  have hs : p.sys = run cfg n bs (Sys.init (mainProgram n seed evs crash)) := hbs
  have hw := writer_after_run cfg n i hi hown seed evs crash bs
  have ho' : (p.sys.ws i).out = expectedFile (cfg i).fmt seed (deliveredTo i evs crash) := by
    rw [hs] at hd ⊢; exact hw.2.1 hd
  have ht' : p.torn i = false := hinv.torn
  simp only [finalReportOK, diskOf, reportOK, ht', hd, ho']
  cases (cfg i).fmt <;> simp

/-- What the code as found does guarantee (2): a run in which no join timed out (every writer got through its backlog
    within a second of `Finalize`) is a run of the repaired ordering - all reports complete at exit. -/
theorem exit_asFound_no_timeout_partial (cfg : Nat → HCfg) (owner : Nat → Owner) (n : Nat) (hown : ∀ i, i < n → OwnQueue cfg n i)
    (seed : Option Nat) (evs : List Ev) (crash : Option (Nat × Nat)) (sched : List PAct) (hno : ∀ a ∈ sched, a ≠ .join false) :
    let p := prun .asFound cfg owner n sched (PSys.init (mainProgram n seed evs crash))
    p.exited = true → ∀ i, i < n → finalReportOK (cfg i).fmt seed (deliveredTo i evs crash) (diskOf cfg p i) = true := by
  intro p hex i hi
  have he : p = prun .repaired cfg owner n sched (PSys.init (mainProgram n seed evs crash)) :=
    prun_no_timeout cfg owner n sched hno _
  rw [he] at hex ⊢
  exact (exit_reports_complete cfg owner n hown seed evs crash sched hex i hi).1

/-- In both orderings and at every moment, what is in a report file is a prefix of the report the specification asks
    for: the only way the end of the run can damage a report is by cutting it short. -/
theorem exit_file_is_prefix (v : Variant) (cfg : Nat → HCfg) (owner : Nat → Owner) (n i : Nat) (hi : i < n)
    (hown : OwnQueue cfg n i) (seed : Option Nat) (evs : List Ev) (crash : Option (Nat × Nat)) (sched : List PAct) :
    let p := prun v cfg owner n sched (PSys.init (mainProgram n seed evs crash))
    (diskOf cfg p i).chunks <+: expectedFile (cfg i).fmt seed (deliveredTo i evs crash) := by
  intro p
  obtain ⟨bs, hbs⟩ := prun_sys v cfg owner n sched (PSys.init (mainProgram n seed evs crash))
  have hs : p.sys = run cfg n bs (Sys.init (mainProgram n seed evs crash)) := hbs
  have hw := writer_after_run cfg n i hi hown seed evs crash bs
  show (p.sys.ws i).out <+: _
  rw [hs]; exact hw.1

/-- `get_command_representation`: the command line is reported only for the `st` / `schemathesis` entry points. -/
theorem command_repr_spec (a0 : Str) (args : List Str) :
    commandRepr (a0 :: args) =
      if (lit "schemathesis").isSuffixOf a0 = true ∨ (lit "st").isSuffixOf a0 = true then lit "st " ++ joinSp args
      else lit "<unknown entrypoint>" := by
  simp [commandRepr]

/-! ## non-vacuity of the hypotheses, and the concrete shapes -/

example : entryOK sampleEntry = true := by decide
example : (decodeDoc ((renderEntry .repaired false sampleEntry).drop 1)).isSome = true := by decide
example : decodeDoc ((renderEntry .asFound false sampleEntry).drop 1) = none := by decide
example : AllCovered Stat.init [.scenarioFinished .failure false ⟨1, [⟨10, [some 7]⟩]⟩,
    .scenarioFinished .failure false ⟨1, [⟨11, [some 7]⟩]⟩, .engineFinished] := by
  refine ⟨Or.inr ⟨⟨10, [some 7]⟩, by simp, 7, by simp, rfl⟩, Or.inl (by decide), trivial, trivial⟩
example : decodeDQ (writeDQ [97, 34, 10, 0x85, 0xD800, 0x1F600, 0xFEFF, 39] ++ [10, 32]) =
    some ([97, 34, 10, 0x85, 0xD800, 0x1F600, 0xFEFF, 39], [10, 32]) := by decide
example : harFirst .asFound (lit "Content-Type") (lowerHeaders [(lit "Content-Type", [lit "text/plain"])] []) = [] ∧
    harFirst .repaired (lit "Content-Type") (lowerHeaders [(lit "Content-Type", [lit "text/plain"])] []) = lit "text/plain" := by
  decide

example : OwnQueue (cfgOf [.vcr, .har]) 2 0 ∧ OwnQueue (cfgOf [.vcr, .har]) 2 1 :=
  ⟨init_handlers_own_queues [.vcr, .har] 0, init_handlers_own_queues [.vcr, .har] 1⟩
example : ¬ OwnQueue sharedCfg 2 0 := fun h => h 1 (by decide) (by decide) rfl
example : deliveredTo 0 [some [1], some [2], some [3]] (some (1, 1)) = [some [1], some [2]] ∧
    deliveredTo 1 [some [1], some [2], some [3]] (some (1, 1)) = [some [1]] := by decide

-- the end of the run: the hypotheses are met by real shapes (a complete run of `--report-vcr-path=… --report=har`)
example :
    let fs := [Fmt.vcr, Fmt.har]
    let p := prun .repaired (cfgOf fs) (ownerOf (fun f => f == .vcr) fs) 2
      (List.replicate 8 (.base .main) ++ [.join false, .base (.work 0), .base (.work 0)] ++ finishSched 8 2)
      (PSys.init (mainProgram 2 (some 1) [some [10, 11], none, some [12]] none))
    p.exited = true ∧ Terminated 2 p ∧ p.joined = 2 ∧
    diskOf (cfgOf fs) p 0 = ⟨[.preamble (some 1), .entry 10, .entry 11, .entry 12], false, true⟩ ∧
    diskOf (cfgOf fs) p 1 = ⟨[.entry 10, .entry 11, .entry 12], false, true⟩ := by
  simp only [Terminated]
  decide
example : ownerOf (fun f => f == .vcr) [Fmt.vcr, Fmt.har] 0 = .option ∧ ownerOf (fun f => f == .vcr) [Fmt.vcr, Fmt.har] 1 = .reportDir := by
  decide
example : ∀ a ∈ (List.replicate 8 (PAct.base .main) ++ finishSched 8 2), a ≠ .join false := by decide

end SV.Props.C16
