/-
  C17 — every example of the document is sent, verbatim, in the examples phase.  Property theorems only.
-/
import SV.Proofs.C17

namespace SV.Props.C17
open SV SV.Model.C17 SV.Spec.C17 SV.Proofs.C17

/-! ### the round-robin of produce_combinations -/

/-- Round-robin index lemma: `next(islice(cycle(xs), idx, None))` is `xs[idx mod len xs]`. -/
theorem C17_round_robin_index {α : Type} (xs : List α) (hne : xs ≠ []) (idx : Nat) :
    cycleGet xs idx = xs[idx % xs.length]? :=
  cycleGet_mod xs hne idx

/-- …so the first `len xs` indices enumerate `xs` itself. -/
theorem C17_round_robin_prefix {α : Type} (xs : List α) (idx : Nat) (h : idx < xs.length) :
    cycleGet xs idx = some xs[idx] :=
  cycleGet_lt xs idx h

/-- **C17_combinations_cover.** For every list of extracted examples, each example appears unchanged (same
    container, same name / media type, same value) in at least one of the combinations that become test cases. -/
theorem C17_combinations_cover (exs : List Example) (e : Example) (he : e ∈ exs) :
    ∃ c ∈ produceCombinations exs, Carries c.params c.body e := by
  have hsp := Has_split exs e he
  unfold produceCombinations
  generalize split exs = sp at hsp
  obtain ⟨ps, bs⟩ := sp
  cases e with
  | param c n x =>
    have hP : HasP ps c n x := hsp
    have hne : ps.isEmpty = false := by
      obtain ⟨vars, h1, _⟩ := hP
      cases ps with
      | nil => simp [lookupC] at h1
      | cons _ _ => rfl
    obtain ⟨j, hj, hcar⟩ := paramCombos_carry ps c n x hP
    by_cases hb : bs.isEmpty = true
    · simp only [hb, hne, Bool.not_true, Bool.not_false, Bool.false_eq_true, if_false, if_true]
      exact ⟨⟨(paramCombos ps)[j], none⟩, List.mem_map.mpr ⟨_, List.getElem_mem hj, rfl⟩, hcar none⟩
    · simp only [hb, hne, Bool.not_false, if_true]
      refine ⟨⟨(cycleGet (paramCombos ps) j).getD [], cycleGet (bodyCombos bs) j⟩, ?_, ?_⟩
      · exact List.mem_map.mpr ⟨j, by simp; omega, rfl⟩
      · rw [cycleGet_lt _ j hj]
        exact hcar _
  | body x mt =>
    have hV : HasV bs mt x := hsp
    have hne : bs.isEmpty = false := by
      obtain ⟨vs, h1, _⟩ := hV
      cases bs with
      | nil => simp [lookupC] at h1
      | cons _ _ => rfl
    have hmem := bodyCombos_mem bs mt x hV
    obtain ⟨k, hk, hkx⟩ := List.getElem_of_mem hmem
    by_cases hp : ps.isEmpty = true
    · simp only [hp, hne, Bool.not_true, Bool.not_false, Bool.false_eq_true, if_false, if_true]
      exact ⟨⟨[], some (mt, x)⟩, List.mem_map.mpr ⟨_, hmem, rfl⟩, rfl⟩
    · simp only [hp, hne, Bool.not_false, if_true]
      refine ⟨⟨(cycleGet (paramCombos ps) k).getD [], cycleGet (bodyCombos bs) k⟩, ?_, ?_⟩
      · exact List.mem_map.mpr ⟨k, by simp; omega, rfl⟩
      · show cycleGet (bodyCombos bs) k = some (mt, x)
        rw [cycleGet_lt _ k hk, hkx]


/-- An operation without examples yields no test case (and `run_test` reports it as skipped);
    an operation with at least one extracted example yields at least one. -/
theorem C17_none_is_skip (vE vH : Variant) :
    produceCombinations [] = [] ∧ runStatus (addExamples vE vH (.ok [])) = .skip := by
  constructor <;> rfl

theorem C17_some_is_not_skip (exs : List Example) (h : exs ≠ []) : produceCombinations exs ≠ [] := by
  cases exs with
  | nil => exact absurd rfl h
  | cons e rest =>
    obtain ⟨c, hc, _⟩ := C17_combinations_cover (e :: rest) e (by simp)
    intro hnil
    rw [hnil] at hc
    simp at hc

/-! ### extraction completeness, placement by placement (`extract_top_level`) -/

/-- parameter-level / media-type-level `example` (and `x-example` in OpenAPI 2.0) -/
theorem C17_extract_declared_example (srcs : List Source) (s : Source) (hs : s ∈ srcs) (f : String)
    (hf : f ∈ s.exampleFields) (v : Json) (h : s.definition.get? f = some v) : s.mk' v ∈ extractTopLevel srcs := by
  apply topValues_extracted srcs s hs
  have hd : s.definition ∈ definitionsOf s := by
    unfold definitionsOf
    split <;> simp
  simp only [topValues, List.mem_append, List.mem_flatMap, List.mem_filterMap]
  exact Or.inl (Or.inl (Or.inl ⟨s.definition, hd, f, hf, h⟩))

/-- parameter-level / media-type-level `examples` (`x-examples`): every entry with a `value` -/
theorem C17_extract_declared_examples (srcs : List Source) (s : Source) (hs : s ∈ srcs) (exs : Json)
    (h : s.definition.get? s.examplesField = some exs) (k : String) (ex : Json) (hk : (k, ex) ∈ objItems exs)
    (v : Json) (hv : ex.get? "value" = some v) : s.mk' v ∈ extractTopLevel srcs := by
  apply topValues_extracted srcs s hs
  simp only [topValues, h, List.mem_append]
  refine Or.inl (Or.inl (Or.inr ?_))
  simp only [extractInner, List.mem_flatMap]
  exact ⟨(k, ex), hk, by simp [innerOf, hv]⟩

/-- a referenced example (`$ref` in the document) whose target is a bare value is used as it is -/
theorem C17_extract_referenced_example (srcs : List Source) (s : Source) (hs : s ∈ srcs) (exs : Json)
    (h : s.definition.get? s.examplesField = some exs) (k : String) (ex : Json) (hk : (k, ex) ∈ objItems exs)
    (href : hasKey ((s.unresolved.get? k).getD .null) "$ref" = true)
    (hnv : hasKey ex "value" = false) (hne : hasKey ex "externalValue" = false) :
    s.mk' ex ∈ extractTopLevel srcs := by
  apply topValues_extracted srcs s hs
  simp only [topValues, h, List.mem_append]
  refine Or.inl (Or.inl (Or.inr ?_))
  simp only [extractInner, List.mem_flatMap]
  exact ⟨(k, ex), hk, by simp [innerOf, href, hnv, hne]⟩

/-- schema-level `example`, on the schema itself or on any sub-schema `_expand_subschemas` yields -/
theorem C17_extract_schema_example (srcs : List Source) (s : Source) (hs : s ∈ srcs) (sch branch : Json)
    (h : s.definition.get? "schema" = some sch) (hb : branch ∈ expandSubschemas sch) (f : String)
    (hf : f ∈ s.exampleFields) (v : Json) (hv : branch.get? f = some v) : s.mk' v ∈ extractTopLevel srcs := by
  apply topValues_extracted srcs s hs
  have hd : branch ∈ definitionsOf s := by
    simp only [definitionsOf, h, List.mem_cons]
    exact Or.inr hb
  simp only [topValues, List.mem_append, List.mem_flatMap, List.mem_filterMap]
  exact Or.inl (Or.inl (Or.inl ⟨branch, hd, f, hf, hv⟩))

/-- schema-level `examples` list, on the schema itself or on any sub-schema `_expand_subschemas` yields -/
theorem C17_extract_schema_examples (srcs : List Source) (s : Source) (hs : s ∈ srcs) (sch branch : Json)
    (h : s.definition.get? "schema" = some sch) (hb : branch ∈ expandSubschemas sch) (vs : List Json)
    (hvs : branch.get? s.examplesField = some (.arr vs)) (v : Json) (hv : v ∈ vs) :
    s.mk' v ∈ extractTopLevel srcs := by
  apply topValues_extracted srcs s hs
  simp only [topValues, h, List.mem_append, List.mem_flatMap]
  exact Or.inl (Or.inr ⟨branch, hb, by simp [hvs, iterValues, hv]⟩)

/-- examples inside an `anyOf` / `oneOf` branch of the schema -/
theorem C17_extract_anyOf_oneOf_branch (srcs : List Source) (s : Source) (hs : s ∈ srcs)
    (kvs : List (String × Json)) (h : s.definition.get? "schema" = some (.obj kvs)) (key : String)
    (hkey : key = "anyOf" ∨ key = "oneOf") (subs : List Json) (hsubs : Json.lookup key kvs = some (.arr subs))
    (branch : Json) (hb : branch ∈ subs) (v : Json)
    (hv : (∃ f ∈ s.exampleFields, branch.get? f = some v) ∨
          (∃ vs, branch.get? s.examplesField = some (.arr vs) ∧ v ∈ vs)) :
    s.mk' v ∈ extractTopLevel srcs := by
  have hexp : branch ∈ expandSubschemas (.obj kvs) := by
    rcases hkey with rfl | rfl
    · exact expand_anyOf kvs subs branch hsubs hb
    · exact expand_oneOf kvs subs branch hsubs hb
  rcases hv with ⟨f, hf, hv⟩ | ⟨vs, hvs, hv⟩
  · exact C17_extract_schema_example srcs s hs _ branch h hexp f hf v hv
  · exact C17_extract_schema_examples srcs s hs _ branch h hexp vs hvs v hv

/-- examples inside `allOf` items (OpenAPI 3 field names): the first item's `example`, and every later item's
    `example` / `examples` (which the merge moves into the `examples` list of the merged sub-schema) -/
theorem C17_extract_allOf_items (srcs : List Source) (s : Source) (hs : s ∈ srcs)
    (kvs first : List (String × Json)) (rest : List Json) (h : s.definition.get? "schema" = some (.obj kvs))
    (hall : Json.lookup "allOf" kvs = some (.arr (.obj first :: rest)))
    (hef : "example" ∈ s.exampleFields) (hesf : s.examplesField = "examples") (v : Json)
    (hv : Json.lookup "example" first = some v ∨ InExamples first v ∨
          ∃ b, Json.obj b ∈ rest ∧ Contributes b v) :
    s.mk' v ∈ extractTopLevel srcs := by
  have hexp : Json.obj (rest.foldl mergeSub first) ∈ expandSubschemas (.obj kvs) :=
    expand_allOf kvs _ _ hall (by simp [mergeAllOf])
  rcases hv with hv | hv | ⟨b, hb, hv⟩
  · exact C17_extract_schema_example srcs s hs _ _ h hexp "example" hef v
      (foldl_mergeSub_keeps_example rest first v hv)
  · obtain ⟨vs, h1, h2⟩ := foldl_mergeSub_keeps_examples rest first v hv
    exact C17_extract_schema_examples srcs s hs _ _ h hexp vs (by rw [hesf]; exact h1) v h2
  · obtain ⟨vs, h1, h2⟩ := foldl_mergeSub_adds rest first b v hb hv
    exact C17_extract_schema_examples srcs s hs _ _ h hexp vs (by rw [hesf]; exact h1) v h2

/-! ### examples on (nested) properties (`extract_from_schema`) -/

/-- **Property-level completeness.** Every example declared on a property — at any property / items nesting
    depth, each step through at most the one level of anyOf / oneOf / allOf the code expands — ends up, unchanged and
    at its own path, inside one of the values `extract_from_schema` yields (fuel ≥ path length). -/
theorem C17_extract_property_examples (gen : Json → Json) (ef esf : String) (schema : Json) (path : List Seg)
    (v : Json) (h : Declared ef esf schema path v) :
    ∀ fuel, path.length ≤ fuel → ∃ obj ∈ extractFromSchemaF gen ef esf fuel schema, At obj path v := by
  induction h with
  | «example» schema props name sub branch v hp hm hb hv =>
    intro fuel hf
    cases fuel with
    | zero => simp at hf
    | succ n =>
      simp only [extractFromSchemaF, hp]
      have hl := propLoop_mem (extractFromSchemaF gen ef esf n) ef esf (isRequired schema name) sub branch v hb
        (contrib_example _ ef esf branch v hv)
      obtain ⟨kvs, hk1, hk2⟩ := combineProps_mem gen _ name _ v
        (show (name, propLoop (extractFromSchemaF gen ef esf n) ef esf (isRequired schema name) sub) ∈
            (objItems props).map (fun ns : String × Json =>
              (ns.1, propLoop (extractFromSchemaF gen ef esf n) ef esf (isRequired schema ns.1) ns.2)) from
          List.mem_map.mpr ⟨(name, sub), hm, rfl⟩) hl.2 hl.1
      exact ⟨_, hk1, At.prop kvs name v [] v hk2 (At.here v)⟩
  | examples schema props name sub branch vs v hp hm hb hvs hv =>
    intro fuel hf
    cases fuel with
    | zero => simp at hf
    | succ n =>
      simp only [extractFromSchemaF, hp]
      have hl := propLoop_mem (extractFromSchemaF gen ef esf n) ef esf (isRequired schema name) sub branch v hb
        (contrib_examples _ ef esf branch vs v hvs hv)
      obtain ⟨kvs, hk1, hk2⟩ := combineProps_mem gen _ name _ v
        (show (name, propLoop (extractFromSchemaF gen ef esf n) ef esf (isRequired schema name) sub) ∈
            (objItems props).map (fun ns : String × Json =>
              (ns.1, propLoop (extractFromSchemaF gen ef esf n) ef esf (isRequired schema ns.1) ns.2)) from
          List.mem_map.mpr ⟨(name, sub), hm, rfl⟩) hl.2 hl.1
      exact ⟨_, hk1, At.prop kvs name v [] v hk2 (At.here v)⟩
  | nested schema props name sub branch path v hp hm hb hd ih =>
    intro fuel hf
    cases fuel with
    | zero => simp at hf
    | succ n =>
      obtain ⟨x, hx, hat⟩ := ih n (by simp at hf; omega)
      simp only [extractFromSchemaF, hp]
      have hnb : ∀ b, branch ≠ .bool b := by
        intro b e
        subst e
        exact Declared_not_bool ef esf b path v hd
      have hl := propLoop_mem (extractFromSchemaF gen ef esf n) ef esf (isRequired schema name) sub branch x hb
        (contrib_rec _ ef esf branch x hnb hx)
      obtain ⟨kvs, hk1, hk2⟩ := combineProps_mem gen _ name _ x
        (show (name, propLoop (extractFromSchemaF gen ef esf n) ef esf (isRequired schema name) sub) ∈
            (objItems props).map (fun ns : String × Json =>
              (ns.1, propLoop (extractFromSchemaF gen ef esf n) ef esf (isRequired schema ns.1) ns.2)) from
          List.mem_map.mpr ⟨(name, sub), hm, rfl⟩) hl.2 hl.1
      exact ⟨_, hk1, At.prop kvs name x path v hk2 hat⟩
  | items schema its path v hp hi hd ih =>
    intro fuel hf
    cases fuel with
    | zero => simp at hf
    | succ n =>
      obtain ⟨x, hx, hat⟩ := ih n (by simp at hf; omega)
      simp only [extractFromSchemaF, hp, hi]
      exact ⟨.arr [x], List.mem_map.mpr ⟨x, hx, rfl⟩, At.item x path v hat⟩


/-! ### user-configured headers / overrides (`{**parameters, **kwargs}`) -/

theorem C17_user_config_keeps_examples : UserConfigKeepsExamples .repaired := by
  intro combo user b c n v h hu
  unfold mergeKwargs
  induction user generalizing combo with
  | nil => exact h
  | cons kc rest ih =>
    simp only [List.foldl_cons]
    apply ih
    · obtain ⟨cont, h1, h2⟩ := h
      by_cases hk : kc.1 = c
      · refine ⟨objUpdate cont kc.2, ?_, ?_⟩
        · rw [hk, lookupC_setContainer_same, h1]; rfl
        · rw [lookupC_objUpdate_other n cont kc.2 (hu kc (by simp) hk)]; exact h2
      · exact ⟨cont, by rw [lookupC_setContainer_ne c kc.1 _ _ hk]; exact h1, h2⟩
    · intro kc' hkc'
      exact hu kc' (List.mem_cons_of_mem _ hkc')

/-- the pinned snapshot: `headers={"Authorization": …}` (every CLI run with `--header`) replaces the whole header
    container, so the header example `X-E: HE1` is no longer carried -/
theorem C17_user_config_keeps_examples_asFound_false : ¬ UserConfigKeepsExamples .asFound := by
  intro h
  have := h [("headers", [("X-E", .str "HE1")])] [("headers", [("Authorization", .str "t")])] none
    "headers" "X-E" (.str "HE1") ⟨[("X-E", .str "HE1")], by simp [lookupC], by simp [lookupC]⟩
    (by simp)
  obtain ⟨cont, h1, h2⟩ := this
  simp [mergeKwargs, setContainer, lookupC] at h1
  subst h1
  simp [lookupC] at h2

/-- the user's own values are in force in both variants (C14 side of the same merge) -/
theorem C17_user_values_win (variant : Variant) (combo : Containers) (c : String) (ucont : Container) (n : String)
    (v : Json) (hn : lookupC n ucont = some v) :
    ∃ cont, lookupC c (mergeKwargs variant combo [(c, ucont)]) = some cont ∧ (lookupC n cont).isSome = true := by
  cases variant with
  | asFound =>
    exact ⟨ucont, by simp [mergeKwargs, lookupC_setContainer_same], by simp [hn]⟩
  | repaired =>
    refine ⟨_, by simp only [mergeKwargs, List.foldl_cons, List.foldl_nil]; exact lookupC_setContainer_same _ _ _, ?_⟩
    exact lookupC_objUpdate_right n _ ucont (by simp [hn])

/-! ### fill-in of the parts without example (`get_parameters_value`) -/

/-- an explicit example value is never overwritten by the generated remainder (`new` is drawn from the schema of
    the location with the example's names excluded and `additionalProperties: false`, hence never contains them) -/
theorem C17_fill_keeps_examples (val : Container) (new : Option Container) (n : String) (v : Json)
    (h : lookupC n val = some v) (hdis : ∀ newc, new = some newc → ∀ kv ∈ newc, kv.1 ≠ n) :
    ∃ r, fillIn (some val) new = some r ∧ lookupC n r = some v := by
  cases val with
  | nil => simp [lookupC] at h
  | cons kv rest =>
    cases new with
    | none => exact ⟨kv :: rest, rfl, h⟩
    | some newc =>
      exact ⟨objUpdate (kv :: rest) newc, rfl, by rw [lookupC_objUpdate_other n _ newc (hdis newc rfl)]; exact h⟩

/-- **C17_required_filled.** Every required name is present in the final container, provided the generated
    remainder contains the required names that have no example (the contract of the generator for the remaining schema) -/
theorem C17_required_filled (val : Container) (hne : val ≠ []) (new : Option Container) (required : List String)
    (hreq : ∀ r ∈ required, (lookupC r val).isSome = true ∨
                            ∃ newc, new = some newc ∧ (lookupC r newc).isSome = true) :
    ∃ res, fillIn (some val) new = some res ∧ ∀ r ∈ required, (lookupC r res).isSome = true := by
  cases val with
  | nil => exact absurd rfl hne
  | cons kv rest =>
    cases new with
    | none =>
      refine ⟨kv :: rest, rfl, fun r hr => ?_⟩
      rcases hreq r hr with h | ⟨newc, h, _⟩
      · exact h
      · cases h
    | some newc =>
      refine ⟨objUpdate (kv :: rest) newc, rfl, fun r hr => ?_⟩
      rcases hreq r hr with h | ⟨newc', h, h'⟩
      · exact lookupC_objUpdate_left r _ newc h
      · cases h
        exact lookupC_objUpdate_right r _ newc h'

/-- a location without any example is generated as a whole -/
theorem C17_fill_notset (new : Option Container) : fillIn none new = new ∧ fillIn (some []) new = new := by
  constructor <;> rfl

/-! ### add_examples: whatever is not turned into a test is reported -/

theorem C17_dropped_is_reported (vHdr : Variant) : DroppedIsReported .repaired vHdr := by
  intro e
  cases e <;> rfl

/-- the pinned snapshot: `InvalidSchema` / `HypothesisRefResolutionError` empty the example list without a mark —
    the operation is reported as *skipped* ("no examples") -/
theorem C17_dropped_is_reported_asFound_false (vHdr : Variant) : ¬ DroppedIsReported .asFound vHdr := by
  intro h
  have := h .refResolution
  simp [addExamples, excMarks, runStatus] at this

theorem C17_asFound_silent_arms (vHdr : Variant) :
    runStatus (addExamples .asFound vHdr (.error .invalidSchema)) = .skip ∧
    runStatus (addExamples .asFound vHdr (.error .refResolution)) = .skip := by
  constructor <;> rfl

/-- an example with a header that cannot be sent over HTTP makes the operation end as an error (both variants) -/
theorem C17_unsendable_is_reported (vExc vHdr : Variant) (cases : List ECase) (c : ECase) (hc : c ∈ cases)
    (hbad : c.invalidHeaders ≠ []) : runStatus (addExamples vExc vHdr (.ok cases)) = .error := by
  have hm : Mark.invalidHeaders ∈ (addLoop vHdr cases).2 := by
    induction cases with
    | nil => simp at hc
    | cons x rest ih =>
      simp only [addLoop]
      rcases List.mem_cons.mp hc with h | h
      · subst h
        have : c.invalidHeaders.isEmpty = false := by
          cases hh : c.invalidHeaders with
          | nil => exact absurd hh hbad
          | cons _ _ => rfl
        simp only [this, Bool.false_eq_true, if_false]
        cases vHdr <;> simp
      · split
        · exact ih h
        · cases vHdr <;> simp [ih h]
  simp only [addExamples, runStatus, Bool.false_eq_true, if_false]
  have : (addLoop vHdr cases).2.isEmpty = false := by
    cases hh : (addLoop vHdr cases).2 with
    | nil => rw [hh] at hm; simp at hm
    | cons _ _ => rfl
  simp [this]

theorem C17_sendable_examples_survive : SendableExamplesSurvive .repaired := by
  intro cases c e hc hcar hok
  induction cases with
  | nil => simp at hc
  | cons x rest ih =>
    simp only [addLoop]
    rcases List.mem_cons.mp hc with h | h
    · subst h
      split
      · exact ⟨c, by simp, hcar⟩
      · exact ⟨_, List.mem_cons_self, Carries_dropHeaders c.invalidHeaders c.params c.body e hcar hok⟩
    · obtain ⟨c', hc', hcar'⟩ := ih h
      split
      · exact ⟨c', List.mem_cons_of_mem _ hc', hcar'⟩
      · exact ⟨c', List.mem_cons_of_mem _ hc', hcar'⟩

/-- the pinned snapshot skips the whole case: the query example `q = Q2`, combined by the round-robin with the
    unsendable header example, is sent by no examples-phase request -/
theorem C17_sendable_examples_survive_asFound_false : ¬ SendableExamplesSurvive .asFound := by
  intro h
  have := h
    [⟨[("headers", [("X-E", .str "ok")]), ("query", [("q", .str "Q1")])], none, []⟩,
     ⟨[("headers", [("X-E", .str "bad\nx")]), ("query", [("q", .str "Q2")])], none, ["X-E"]⟩]
    ⟨[("headers", [("X-E", .str "bad\nx")]), ("query", [("q", .str "Q2")])], none, ["X-E"]⟩
    (.param "query" "q" (.str "Q2")) (by simp)
    ⟨[("q", .str "Q2")], by simp [lookupC], by simp [lookupC]⟩ (by simp)
  obtain ⟨c', hc', cont, h1, h2⟩ := this
  simp [addLoop] at hc'
  subst hc'
  simp [lookupC] at h1
  subst h1
  simp [lookupC] at h2


/-! ### placements below the one combinator level the code expands: the full statements are false -/

theorem C17_extract_any_depth_full_false : ¬ ExtractsAtAnyDepth := by
  intro h
  have hb : Branch (.obj [("anyOf", .arr [.obj [("oneOf", .arr [.obj [("type", .str "string"), ("example", .str "DEEP")]])]])])
      (.obj [("type", .str "string"), ("example", .str "DEEP")]) :=
    Branch.anyOf [("anyOf", .arr [.obj [("oneOf", .arr [.obj [("type", .str "string"), ("example", .str "DEEP")]])]])]
      [.obj [("oneOf", .arr [.obj [("type", .str "string"), ("example", .str "DEEP")]])]]
      (.obj [("oneOf", .arr [.obj [("type", .str "string"), ("example", .str "DEEP")]])]) _ rfl (by simp)
      (Branch.oneOf [("oneOf", .arr [.obj [("type", .str "string"), ("example", .str "DEEP")]])]
        [.obj [("type", .str "string"), ("example", .str "DEEP")]]
        (.obj [("type", .str "string"), ("example", .str "DEEP")]) _ rfl (by simp) (Branch.self _))
  have := h deepParam _ _ "example" (.str "DEEP") rfl hb (by simp [deepParam]) rfl
  have hnil : extractTopLevel [deepParam] = [] := by rfl
  rw [hnil] at this
  simp at this

/-- depth one is what is proved: `Branch` steps of length ≤ 1 are exactly `C17_extract_anyOf_oneOf_branch` -/
theorem C17_extract_depth_one_partial (s : Source) (kvs : List (String × Json)) (subs : List Json) (branch : Json)
    (f : String) (v : Json) (h : s.definition.get? "schema" = some (.obj kvs))
    (hsubs : Json.lookup "anyOf" kvs = some (.arr subs) ∨ Json.lookup "oneOf" kvs = some (.arr subs))
    (hb : branch ∈ subs) (hf : f ∈ s.exampleFields) (hv : branch.get? f = some v) :
    s.mk' v ∈ extractTopLevel [s] := by
  rcases hsubs with hs | hs
  · exact C17_extract_anyOf_oneOf_branch [s] s (by simp) kvs h "anyOf" (Or.inl rfl) subs hs branch hb v
      (Or.inl ⟨f, hf, hv⟩)
  · exact C17_extract_anyOf_oneOf_branch [s] s (by simp) kvs h "oneOf" (Or.inr rfl) subs hs branch hb v
      (Or.inl ⟨f, hf, hv⟩)

theorem C17_extract_under_body_combinator_full_false : ¬ ExtractsUnderBodyCombinator := by
  intro h
  have hb : Branch deepBodySchema (.obj [("type", .str "object"),
      ("properties", .obj [("b", .obj [("type", .str "string"), ("example", .str "AP")])])]) :=
    Branch.anyOf [("anyOf", .arr [.obj [("type", .str "object"),
        ("properties", .obj [("b", .obj [("type", .str "string"), ("example", .str "AP")])])]])]
      [.obj [("type", .str "object"), ("properties", .obj [("b", .obj [("type", .str "string"), ("example", .str "AP")])])]]
      (.obj [("type", .str "object"), ("properties", .obj [("b", .obj [("type", .str "string"), ("example", .str "AP")])])])
      _ rfl (by simp) (Branch.self _)
  have hd : Declared "example" "examples" (.obj [("type", .str "object"),
      ("properties", .obj [("b", .obj [("type", .str "string"), ("example", .str "AP")])])]) [.prop "b"] (.str "AP") :=
    Declared.example _ (.obj [("b", .obj [("type", .str "string"), ("example", .str "AP")])]) "b"
      (.obj [("type", .str "string"), ("example", .str "AP")]) (.obj [("type", .str "string"), ("example", .str "AP")])
      (.str "AP") rfl (by simp [objItems]) (expand_self _) rfl
  obtain ⟨fuel, obj, hobj, _⟩ := h (fun _ => .null) "example" "examples" deepBodySchema _ _ _ hb hd
  have hnil : extractFromSchemaF (fun _ => Json.null) "example" "examples" fuel deepBodySchema = [] := by
    cases fuel <;> rfl
  rw [hnil] at hobj
  simp at hobj

theorem C17_extract_allOf_items_swagger_full_false : ¬ AllOfItemsExtracted := by
  intro h
  have := h swaggerAllOfBody _ [("type", .str "object")] [.obj [("example", .obj [("s", .str "LATE")])]]
    (.obj [("s", .str "LATE")]) rfl rfl (by simp [swaggerAllOfBody])
    ⟨[("example", .obj [("s", .str "LATE")])], by simp, Or.inl (by simp)⟩
  have hnil : extractTopLevel [swaggerAllOfBody] = [] := by rfl
  rw [hnil] at this
  simp at this

/-! ### non-vacuity: the hypotheses of the implications above are met by concrete documents -/

/-- three examples for one parameter, one for another, two bodies: all covered -/
example : ∃ c ∈ produceCombinations [.param "query" "q" (.str "Q0"), .param "query" "q" (.str "Q1"),
      .param "headers" "h" (.str "H"), .body (.str "B0") "application/json", .param "query" "q" (.str "Q2"),
      .body (.str "B1") "text/plain"], Carries c.params c.body (.param "query" "q" (.str "Q2")) :=
  C17_combinations_cover _ _ (by simp)

example : (produceCombinations [.param "query" "q" (.str "Q0"), .param "query" "q" (.str "Q1"),
      .param "headers" "h" (.str "H"), .body (.str "B0") "application/json"]).length = 2 := by rfl

example : cycleGet [1, 2, 3] 7 = some 2 := by decide

example : exParam.mk' (.str "E0") ∈ extractTopLevel [exParam] :=
  C17_extract_declared_example [exParam] exParam (by simp) "example" (by simp [exParam]) _ rfl

example : exParam.mk' (.str "E1") ∈ extractTopLevel [exParam] :=
  C17_extract_declared_examples [exParam] exParam (by simp) _ rfl "a" (.obj [("value", .str "E1")])
    (by simp [objItems]) _ rfl

example : exParam.mk' (.str "E4") ∈ extractTopLevel [exParam] :=
  C17_extract_anyOf_oneOf_branch [exParam] exParam (by simp) _ rfl "oneOf" (Or.inr rfl) _ rfl
    (.obj [("example", .str "E4")]) (by simp) _ (Or.inl ⟨"example", by simp [exParam], rfl⟩)

example : exParam.mk' (.str "E6") ∈ extractTopLevel [exParam] :=
  C17_extract_allOf_items [exParam] exParam (by simp) _ [("type", .str "string"), ("example", .str "E5")]
    [.obj [("example", .str "E6")]] rfl rfl (by simp [exParam]) rfl _
    (Or.inr (Or.inr ⟨[("example", .str "E6")], by simp, Or.inl (by simp)⟩))

example : (extractTopLevel [exParam]).length = 7 := by rfl

example : ∃ obj ∈ extractFromSchemaF (fun _ => .null) "example" "examples" 3 nestedSchema,
    At obj [.item, .prop "a", .prop "b"] (.str "NB") := by
  apply C17_extract_property_examples _ _ _ _ _ _ ?_ 3 (by simp)
  refine Declared.items _ _ _ _ rfl rfl ?_
  refine Declared.nested _ _ "a" _ _ _ _ rfl (by simp [objItems]; rfl) (expand_self _) ?_
  exact Declared.example _ _ "b" _ (.obj [("type", .str "string"), ("example", .str "NB")]) _ rfl
    (by simp [objItems]; rfl) (expand_oneOf _ _ _ rfl (by simp)) rfl

example : Carries (mergeKwargs .repaired [("headers", [("X-E", .str "HE1")])] [("headers", [("Authorization", .str "t")])])
    none (.param "headers" "X-E" (.str "HE1")) :=
  C17_user_config_keeps_examples _ _ _ _ _ _ ⟨[("X-E", .str "HE1")], by simp [lookupC], by simp [lookupC]⟩ (by simp)

example : ∃ res, fillIn (some [("q", .str "Q1")]) (some [("r", .str "gen")]) = some res ∧
    ∀ r ∈ ["q", "r"], (lookupC r res).isSome = true :=
  C17_required_filled _ (by simp) _ _ (by
    intro r hr
    simp at hr
    rcases hr with rfl | rfl
    · exact Or.inl (by simp [lookupC])
    · exact Or.inr ⟨_, rfl, by simp [lookupC]⟩)

end SV.Props.C17
